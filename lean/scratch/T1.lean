import PanqecVerif.Model.Noise
import Mathlib.Tactic.Linarith
import Mathlib.Tactic.Ring
import Mathlib.Tactic.FieldSimp
import Mathlib.Algebra.Order.Field.Rat

namespace Panqec
open Panqec

theorem baseDist_nonneg (p rx ry rz : Rat) (hp0 : 0 ≤ p) (hp1 : p ≤ 1) (hx : 0 ≤ rx) (hy : 0 ≤ ry)
    (hz : 0 ≤ rz) (σ : Pauli) : 0 ≤ (baseDist p rx ry rz).get σ := by
  cases σ <;> simp only [baseDist, Dist.get]
  · linarith
  · exact mul_nonneg hx hp0
  · exact mul_nonneg hy hp0
  · exact mul_nonneg hz hp0

theorem baseDist_total (p rx ry rz : Rat) (h : rx + ry + rz = 1) :
    (baseDist p rx ry rz).total = 1 := by
  simp only [baseDist, Dist.total]
  have : rx * p + ry * p + rz * p = (rx + ry + rz) * p := by ring
  linarith [this, h ▸ this]

theorem fastChoice_eq (u : Rat) (d : Dist) : fastChoice u d =
    if u < d.i then .I else if u < d.i + d.x then .X else if u < d.i + d.x + d.y then .Y else .Z := by
  simp only [fastChoice, fastChoiceGo, zero_add]
  split_ifs <;> rfl
end Panqec
