import PanqecVerif.Generated.DistPlanar3DCode
import PanqecVerif.Instances.Planar3DCode
import PanqecVerif.Proofs.Dist
namespace Panqec.Instances
open Panqec

/-- kernel evaluation of the distance-certificate checker on every certified instance -/
theorem Planar3DCode_distcheck :
    (Generated.Planar3DCode.certified.all fun q => checkDistance q.1 q.2.2) = true := by
  decide +kernel

/-- for every certified Planar3DCode instance the reported `d` is the true distance -/
theorem Planar3DCode_distance : ∀ q ∈ Generated.Planar3DCode.certified,
    IsDistance q.1.n (q.1.stabs.map (unpackBits (2 * q.1.n))) q.1.d :=
  certified_sound _ _ Planar3DCode_valid Planar3DCode_distcheck

end Panqec.Instances
