import PanqecVerif.Generated.DistColor666ToricCode
import PanqecVerif.Instances.Color666ToricCode
import PanqecVerif.Proofs.Dist
namespace Panqec.Instances
open Panqec

/-- kernel evaluation of the distance-certificate checker on every certified instance -/
theorem Color666ToricCode_distcheck :
    (Generated.Color666ToricCode.certified.all fun q => checkDistance q.1 q.2.2) = true := by
  decide +kernel

/-- for every certified Color666ToricCode instance the reported `d` is the true distance -/
theorem Color666ToricCode_distance : ∀ q ∈ Generated.Color666ToricCode.certified,
    IsDistance q.1.n (q.1.stabs.map (unpackBits (2 * q.1.n))) q.1.d :=
  certified_sound _ _ Color666ToricCode_valid Color666ToricCode_distcheck

end Panqec.Instances
