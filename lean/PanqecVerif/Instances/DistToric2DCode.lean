import PanqecVerif.Generated.DistToric2DCode
import PanqecVerif.Instances.Toric2DCode
import PanqecVerif.Proofs.Dist
namespace Panqec.Instances
open Panqec

/-- kernel evaluation of the distance-certificate checker on every certified instance -/
theorem Toric2DCode_distcheck :
    (Generated.Toric2DCode.certified.all fun q => checkDistance q.1 q.2.2) = true := by
  decide +kernel

/-- for every certified Toric2DCode instance the reported `d` is the true distance -/
theorem Toric2DCode_distance : ∀ q ∈ Generated.Toric2DCode.certified,
    IsDistance q.1.n (q.1.stabs.map (unpackBits (2 * q.1.n))) q.1.d :=
  certified_sound _ _ Toric2DCode_valid Toric2DCode_distcheck

end Panqec.Instances
