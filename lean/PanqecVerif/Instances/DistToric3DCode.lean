import PanqecVerif.Generated.DistToric3DCode
import PanqecVerif.Instances.Toric3DCode
import PanqecVerif.Proofs.Dist
namespace Panqec.Instances
open Panqec

/-- kernel evaluation of the distance-certificate checker on every certified instance -/
theorem Toric3DCode_distcheck :
    (Generated.Toric3DCode.certified.all fun q => checkDistance q.1 q.2.2) = true := by
  decide +kernel

/-- for every certified Toric3DCode instance the reported `d` is the true distance -/
theorem Toric3DCode_distance : ∀ q ∈ Generated.Toric3DCode.certified,
    IsDistance q.1.n (q.1.stabs.map (unpackBits (2 * q.1.n))) q.1.d :=
  certified_sound _ _ Toric3DCode_valid Toric3DCode_distcheck

end Panqec.Instances
