import PanqecVerif.Generated.InstRotatedPlanar2DCode
import PanqecVerif.Proofs.MaskFast
namespace Panqec.Instances
open Panqec

/-- kernel evaluation of the (linear-time) checker on every generated instance -/
theorem RotatedPlanar2DCode_check :
    (Generated.RotatedPlanar2DCode.all.all fun p =>
      checkValidFast p.1 p.2 && reportedDistanceFast p.1) = true := by
  decide +kernel

/-- every generated RotatedPlanar2DCode instance is a valid `[[n, k]]` code with the reported distance -/
theorem RotatedPlanar2DCode_valid : ∀ p ∈ Generated.RotatedPlanar2DCode.all,
    ValidCodeL p.1.n p.1.k (p.1.stabs.map (unpackBits (2 * p.1.n)))
      (p.1.logX.map (unpackBits (2 * p.1.n))) (p.1.logZ.map (unpackBits (2 * p.1.n))) ∧
    distance (p.1.logX.map (unpackBits (2 * p.1.n))) (p.1.logZ.map (unpackBits (2 * p.1.n)))
      = some p.1.d :=
  instances_sound _ RotatedPlanar2DCode_check

end Panqec.Instances
