import PanqecVerif.Generated.DistPlanar2DCode
import PanqecVerif.Instances.Planar2DCode
import PanqecVerif.Proofs.Dist
namespace Panqec.Instances
open Panqec

/-- kernel evaluation of the distance-certificate checker on every certified instance -/
theorem Planar2DCode_distcheck :
    (Generated.Planar2DCode.certified.all fun q => checkDistance q.1 q.2.2) = true := by
  decide +kernel

/-- for every certified Planar2DCode instance the reported `d` is the true distance -/
theorem Planar2DCode_distance : ∀ q ∈ Generated.Planar2DCode.certified,
    IsDistance q.1.n (q.1.stabs.map (unpackBits (2 * q.1.n))) q.1.d :=
  certified_sound _ _ Planar2DCode_valid Planar2DCode_distcheck

end Panqec.Instances
