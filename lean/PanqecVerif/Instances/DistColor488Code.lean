import PanqecVerif.Generated.DistColor488Code
import PanqecVerif.Instances.Color488Code
import PanqecVerif.Proofs.Dist
namespace Panqec.Instances
open Panqec

/-- kernel evaluation of the distance-certificate checker on every certified instance -/
theorem Color488Code_distcheck :
    (Generated.Color488Code.certified.all fun q => checkDistance q.1 q.2.2) = true := by
  decide +kernel

/-- for every certified Color488Code instance the reported `d` is the true distance -/
theorem Color488Code_distance : ∀ q ∈ Generated.Color488Code.certified,
    IsDistance q.1.n (q.1.stabs.map (unpackBits (2 * q.1.n))) q.1.d :=
  certified_sound _ _ Color488Code_valid Color488Code_distcheck

end Panqec.Instances
