import PanqecVerif.Generated.DistRotatedPlanar2DCode
import PanqecVerif.Instances.RotatedPlanar2DCode
import PanqecVerif.Proofs.Dist
namespace Panqec.Instances
open Panqec

/-- kernel evaluation of the distance-certificate checker on every certified instance -/
theorem RotatedPlanar2DCode_distcheck :
    (Generated.RotatedPlanar2DCode.certified.all fun q => checkDistance q.1 q.2.2) = true := by
  decide +kernel

/-- for every certified RotatedPlanar2DCode instance the reported `d` is the true distance -/
theorem RotatedPlanar2DCode_distance : ∀ q ∈ Generated.RotatedPlanar2DCode.certified,
    IsDistance q.1.n (q.1.stabs.map (unpackBits (2 * q.1.n))) q.1.d :=
  certified_sound _ _ RotatedPlanar2DCode_valid RotatedPlanar2DCode_distcheck

end Panqec.Instances
