import PanqecVerif.Generated.DistRotatedToric3DCode
import PanqecVerif.Instances.RotatedToric3DCode
import PanqecVerif.Proofs.Dist
namespace Panqec.Instances
open Panqec

/-- kernel evaluation of the distance-certificate checker on every certified instance -/
theorem RotatedToric3DCode_distcheck :
    (Generated.RotatedToric3DCode.certified.all fun q => checkDistance q.1 q.2.2) = true := by
  decide +kernel

/-- for every certified RotatedToric3DCode instance the reported `d` is the true distance -/
theorem RotatedToric3DCode_distance : ∀ q ∈ Generated.RotatedToric3DCode.certified,
    IsDistance q.1.n (q.1.stabs.map (unpackBits (2 * q.1.n))) q.1.d :=
  certified_sound _ _ RotatedToric3DCode_valid RotatedToric3DCode_distcheck

end Panqec.Instances
