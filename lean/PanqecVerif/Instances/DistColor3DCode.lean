import PanqecVerif.Generated.DistColor3DCode
import PanqecVerif.Instances.Color3DCode
import PanqecVerif.Proofs.Dist
namespace Panqec.Instances
open Panqec

/-- kernel evaluation of the distance-certificate checker on every certified instance -/
theorem Color3DCode_distcheck :
    (Generated.Color3DCode.certified.all fun q => checkDistance q.1 q.2.2) = true := by
  decide +kernel

/-- for every certified Color3DCode instance the reported `d` is the true distance -/
theorem Color3DCode_distance : ∀ q ∈ Generated.Color3DCode.certified,
    IsDistance q.1.n (q.1.stabs.map (unpackBits (2 * q.1.n))) q.1.d :=
  certified_sound _ _ Color3DCode_valid Color3DCode_distcheck

end Panqec.Instances
