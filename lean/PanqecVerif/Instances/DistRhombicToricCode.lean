import PanqecVerif.Generated.DistRhombicToricCode
import PanqecVerif.Instances.RhombicToricCode
import PanqecVerif.Proofs.Dist
namespace Panqec.Instances
open Panqec

/-- kernel evaluation of the distance-certificate checker on every certified instance -/
theorem RhombicToricCode_distcheck :
    (Generated.RhombicToricCode.certified.all fun q => checkDistance q.1 q.2.2) = true := by
  decide +kernel

/-- for every certified RhombicToricCode instance the reported `d` is the true distance -/
theorem RhombicToricCode_distance : ∀ q ∈ Generated.RhombicToricCode.certified,
    IsDistance q.1.n (q.1.stabs.map (unpackBits (2 * q.1.n))) q.1.d :=
  certified_sound _ _ RhombicToricCode_valid RhombicToricCode_distcheck

end Panqec.Instances
