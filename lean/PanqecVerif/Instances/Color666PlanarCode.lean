import PanqecVerif.Generated.InstColor666PlanarCode
import PanqecVerif.Proofs.MaskFast
namespace Panqec.Instances
open Panqec

/-- kernel evaluation of the (linear-time) checker on every generated instance -/
theorem Color666PlanarCode_check :
    (Generated.Color666PlanarCode.all.all fun p =>
      checkValidFast p.1 p.2 && reportedDistanceFast p.1) = true := by
  decide +kernel

/-- every generated Color666PlanarCode instance is a valid `[[n, k]]` code with the reported distance -/
theorem Color666PlanarCode_valid : ∀ p ∈ Generated.Color666PlanarCode.all,
    ValidCodeL p.1.n p.1.k (p.1.stabs.map (unpackBits (2 * p.1.n)))
      (p.1.logX.map (unpackBits (2 * p.1.n))) (p.1.logZ.map (unpackBits (2 * p.1.n))) ∧
    distance (p.1.logX.map (unpackBits (2 * p.1.n))) (p.1.logZ.map (unpackBits (2 * p.1.n)))
      = some p.1.d :=
  instances_sound _ Color666PlanarCode_check

end Panqec.Instances
