import PanqecVerif.Generated.DistRhombicPlanarCode
import PanqecVerif.Instances.RhombicPlanarCode
import PanqecVerif.Proofs.Dist
namespace Panqec.Instances
open Panqec

/-- kernel evaluation of the distance-certificate checker on every certified instance -/
theorem RhombicPlanarCode_distcheck :
    (Generated.RhombicPlanarCode.certified.all fun q => checkDistance q.1 q.2.2) = true := by
  decide +kernel

/-- for every certified RhombicPlanarCode instance the reported `d` is the true distance -/
theorem RhombicPlanarCode_distance : ∀ q ∈ Generated.RhombicPlanarCode.certified,
    IsDistance q.1.n (q.1.stabs.map (unpackBits (2 * q.1.n))) q.1.d :=
  certified_sound _ _ RhombicPlanarCode_valid RhombicPlanarCode_distcheck

end Panqec.Instances
