import PanqecVerif.Generated.DistRotatedPlanar3DCode
import PanqecVerif.Instances.RotatedPlanar3DCode
import PanqecVerif.Proofs.Dist
namespace Panqec.Instances
open Panqec

/-- kernel evaluation of the distance-certificate checker on every certified instance -/
theorem RotatedPlanar3DCode_distcheck :
    (Generated.RotatedPlanar3DCode.certified.all fun q => checkDistance q.1 q.2.2) = true := by
  decide +kernel

/-- for every certified RotatedPlanar3DCode instance the reported `d` is the true distance -/
theorem RotatedPlanar3DCode_distance : ∀ q ∈ Generated.RotatedPlanar3DCode.certified,
    IsDistance q.1.n (q.1.stabs.map (unpackBits (2 * q.1.n))) q.1.d :=
  certified_sound _ _ RotatedPlanar3DCode_valid RotatedPlanar3DCode_distcheck

end Panqec.Instances
