import PanqecVerif.Generated.InstToric3DCode
namespace Panqec.Instances
open Panqec
set_option maxRecDepth 1000000 in
theorem Toric3DCode_valid :
    (Generated.Toric3DCode.all.all fun p => checkValid p.1 p.2 && reportedDistanceOK p.1) = true := by
  decide +kernel
end Panqec.Instances
