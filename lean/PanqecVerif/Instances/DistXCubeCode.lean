import PanqecVerif.Generated.DistXCubeCode
import PanqecVerif.Instances.XCubeCode
import PanqecVerif.Proofs.Dist
namespace Panqec.Instances
open Panqec

/-- kernel evaluation of the distance-certificate checker on every certified instance -/
theorem XCubeCode_distcheck :
    (Generated.XCubeCode.certified.all fun q => checkDistance q.1 q.2.2) = true := by
  decide +kernel

/-- for every certified XCubeCode instance the reported `d` is the true distance -/
theorem XCubeCode_distance : ∀ q ∈ Generated.XCubeCode.certified,
    IsDistance q.1.n (q.1.stabs.map (unpackBits (2 * q.1.n))) q.1.d :=
  certified_sound _ _ XCubeCode_valid XCubeCode_distcheck

end Panqec.Instances
