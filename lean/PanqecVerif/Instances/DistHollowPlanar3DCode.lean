import PanqecVerif.Generated.DistHollowPlanar3DCode
import PanqecVerif.Instances.HollowPlanar3DCode
import PanqecVerif.Proofs.Dist
namespace Panqec.Instances
open Panqec

/-- kernel evaluation of the distance-certificate checker on every certified instance -/
theorem HollowPlanar3DCode_distcheck :
    (Generated.HollowPlanar3DCode.certified.all fun q => checkDistance q.1 q.2.2) = true := by
  decide +kernel

/-- for every certified HollowPlanar3DCode instance the reported `d` is the true distance -/
theorem HollowPlanar3DCode_distance : ∀ q ∈ Generated.HollowPlanar3DCode.certified,
    IsDistance q.1.n (q.1.stabs.map (unpackBits (2 * q.1.n))) q.1.d :=
  certified_sound _ _ HollowPlanar3DCode_valid HollowPlanar3DCode_distcheck

end Panqec.Instances
