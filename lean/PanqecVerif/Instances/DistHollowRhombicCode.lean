import PanqecVerif.Generated.DistHollowRhombicCode
import PanqecVerif.Instances.HollowRhombicCode
import PanqecVerif.Proofs.Dist
namespace Panqec.Instances
open Panqec

/-- kernel evaluation of the distance-certificate checker on every certified instance -/
theorem HollowRhombicCode_distcheck :
    (Generated.HollowRhombicCode.certified.all fun q => checkDistance q.1 q.2.2) = true := by
  decide +kernel

/-- for every certified HollowRhombicCode instance the reported `d` is the true distance -/
theorem HollowRhombicCode_distance : ∀ q ∈ Generated.HollowRhombicCode.certified,
    IsDistance q.1.n (q.1.stabs.map (unpackBits (2 * q.1.n))) q.1.d :=
  certified_sound _ _ HollowRhombicCode_valid HollowRhombicCode_distcheck

end Panqec.Instances
