import PanqecVerif.Generated.DistColor666PlanarCode
import PanqecVerif.Instances.Color666PlanarCode
import PanqecVerif.Proofs.Dist
namespace Panqec.Instances
open Panqec

/-- kernel evaluation of the distance-certificate checker on every certified instance -/
theorem Color666PlanarCode_distcheck :
    (Generated.Color666PlanarCode.certified.all fun q => checkDistance q.1 q.2.2) = true := by
  decide +kernel

/-- for every certified Color666PlanarCode instance the reported `d` is the true distance -/
theorem Color666PlanarCode_distance : ∀ q ∈ Generated.Color666PlanarCode.certified,
    IsDistance q.1.n (q.1.stabs.map (unpackBits (2 * q.1.n))) q.1.d :=
  certified_sound _ _ Color666PlanarCode_valid Color666PlanarCode_distcheck

end Panqec.Instances
