/-
`XCubeMatchingDecoder.decode` never raises `KeyError` on a lattice with `2 ≤ Lx ≤ Ly ≤ Lz`
(undeformed code), for every syndrome vector and every answer of PyMatching: assembly of the
stage lemmas (`XCubeDecSlice`, `XCubeDecMatch`, `XCubeDecComps`, `XCubeDecProject`,
`XCubeDecPlane`, `XCubeDecKeys`).
-/
import PanqecVerif.Proofs.XCubeDecSlice

namespace Panqec.XCube

open Panqec

variable {W α : Type}

theorem errs_mono {o : Out W α} {E E' : XErr → Prop} (h : Errs o E) (hE : ∀ e, E e → E' e) : Errs o E' :=
  fun e he => hE e (h e he)

theorem errs_false_noKey {o : Out W α} (h : Errs o (fun _ => False)) : Errs o NoKeyError :=
  errs_mono h (fun _ hf => hf.elim)

theorem errs_emit (ev : List (Event W)) (E : XErr → Prop) : Errs (emit ev) E := by
  intro e he; simp at he

theorem errs_note (t : Trace) (E : XErr → Prop) : Errs (note t : Out W Unit) E := by
  intro e he; simp at he

/-- what the theorems use of the decoder object (nothing about the sizes handed to `decode_plane`:
    shared by the repaired code and by `XCubeDec.old`) -/
structure Built (d : XCubeDec W) : Prop where
  geom : Geom d
  matching_n : ∀ a, (d.matching.get a).n = (d.toric.get a).n
  H : d.H = (stabilizerMatrix (codeData d.Lx d.Ly d.Lz none)).getD []

theorem built_old {d : XCubeDec W} (b : Built d) : Built d.old :=
  ⟨⟨b.geom.qubits, b.geom.stabs, b.geom.toric, b.geom.hx, b.geom.hy, b.geom.hz⟩, b.matching_n, b.H⟩

theorem new_matching_n (logOdds : Rat → W) (Lx Ly Lz : Nat) (ax : Option String) (px py pz : List Rat)
    (cfg : BpCfg) (d : XCubeDec W) (h : XCubeDec.new logOdds Lx Ly Lz ax px py pz cfg = .ok d) :
    d.matching.x.n = (toricView Ly Lz).n ∧ d.matching.y.n = (toricView Lx Lz).n ∧
      d.matching.z.n = (toricView Lx Ly).n := by
  unfold XCubeDec.new at h
  simp only at h
  repeat' split at h
  all_goals cases h
  obtain ⟨_, _, _, _, hnx, _⟩ := MatchingDec.new_ok _ _ _ _ _ _
    ‹MatchingDec.new (toricView Ly Lz).H _ _ _ _ = _›
  obtain ⟨_, _, _, _, hny, _⟩ := MatchingDec.new_ok _ _ _ _ _ _
    ‹MatchingDec.new (toricView Lx Lz).H _ _ _ _ = _›
  obtain ⟨_, _, _, _, hnz, _⟩ := MatchingDec.new_ok _ _ _ _ _ _
    ‹MatchingDec.new (toricView Lx Ly).H _ _ _ _ = _›
  exact ⟨hnx, hny, hnz⟩

/-- `__init__` on an undeformed `XCubeCode(Lx, Ly, Lz)` builds such an object -/
theorem built_of_new (logOdds : Rat → W) (Lx Ly Lz : Nat) (px py pz : List Rat) (cfg : BpCfg)
    (hx : 1 ≤ Lx) (hy : 1 ≤ Ly) (hz : 1 ≤ Lz)
    (d : XCubeDec W) (h : XCubeDec.new logOdds Lx Ly Lz none px py pz cfg = .ok d) : Built d := by
  obtain ⟨h1, h2, h3, hq, hs, hH, _, _, _, _, _, ht, _⟩ := new_ok_fields logOdds Lx Ly Lz none px py pz cfg d h
  obtain ⟨hnx, hny, hnz⟩ := new_matching_n logOdds Lx Ly Lz none px py pz cfg d h
  refine ⟨⟨by rw [hq, h1, h2, h3], by rw [hs, h1, h2, h3], ?_, h1 ▸ hx, h2 ▸ hy, h3 ▸ hz⟩, ?_,
    by rw [hH, h1, h2, h3]⟩
  · intro a
    rw [ht, h1, h2, h3]
    cases a <;> rfl
  · intro a
    rw [ht]
    cases a
    · exact hnx
    · exact hny
    · exact hnz

/-! ### non-negative coordinates -/

theorem matchLoc_nonneg (d : XCubeDec W) (g : Geom d) (ax : Axis) (loc : Coord) (h : MatchLoc d ax loc) :
    NonNegC loc := by
  obtain ⟨a, b, plane, rfl, hq, hp⟩ := h
  rw [g.toric ax, toricView_qubits, Toric2DCode.mem_qubits'] at hq
  unfold Toric2DCode.IsQ Toric2DCode.InBox at hq
  unfold Lat3Db.R1 at hp
  intro v hv
  cases ax <;> simp [tupleInsert, Axis.toNat] at hv <;> omega

theorem tupleRemove_nonneg (c : Coord) (i : Nat) (h : NonNegC c) : NonNegC (tupleRemove c i) :=
  fun v hv => h v (List.mem_of_mem_eraseIdx hv)

theorem toricLoop_nonneg (ortho : List Coord) (comp : List Int) (p : Nat) (h : ∀ c ∈ ortho, NonNegC c) :
    ∀ c ∈ toricLoop ortho comp p, NonNegC c := by
  intro c hc
  unfold toricLoop at hc
  simp only at hc
  have hc1 := (List.mem_filter.mp hc).1
  rw [List.mem_eraseDups] at hc1
  obtain ⟨loc, hloc, rfl⟩ := List.mem_map.mp hc1
  exact tupleRemove_nonneg _ _ (h loc (List.mem_filter.mp hloc).1)

/-! ### one (axis, plane) -/

theorem errs_post_decodePlaneSyndrome (solve : WSolver W) (d : XCubeDec W) (b : Built d)
    (proj axis : Axis) (plane : Int) (hplane : Lat3Db.R1 (2 * d.side axis) plane) (cur : Vec)
    (cp : PlaneDict (List Int)) (hcp : CpInv d proj cp) :
    Errs (decodePlaneSyndrome solve d proj axis plane cur cp) NoKeyError ∧
    Post (decodePlaneSyndrome solve d proj axis plane cur cp)
      (fun r => (∀ loc ∈ r.1, MatchLoc d axis loc) ∧ CpInv d proj r.2) := by
  have g := b.geom
  unfold decodePlaneSyndrome
  simp only
  split
  · exact ⟨errs_pure, post_pure ⟨(by intro loc h; cases h), hcp⟩⟩
  · cases hdec : (d.matching.get axis).decode solve cur with
    | error e => exact ⟨errs_raise (fun k h => by cases h), post_raise⟩
    | ok r =>
      obtain ⟨c, ev⟩ := r
      simp only
      -- the matching locations
      have hclen : c.length = 2 * (d.toric.get axis).n := by
        rw [MatchingDec.decode_length solve _ cur c ev hdec, b.matching_n axis]
      have hlocs : ∀ loc ∈ (nonzeroIdx (c.drop (d.toric.get axis).n)).map fun i =>
          tupleInsert ((d.toric.get axis).qubits.getD i []) axis.toNat plane, MatchLoc d axis loc := by
        intro loc hloc
        obtain ⟨i, hi, rfl⟩ := List.mem_map.mp hloc
        have hilt : i < (d.toric.get axis).qubits.length := by
          have := mem_nonzeroIdx hi
          rw [List.length_drop, hclen] at this
          unfold ToricView.n at this
          omega
        obtain ⟨q, hget, hmem⟩ : ∃ q, (d.toric.get axis).qubits.getD i [] = q ∧
            q ∈ (d.toric.get axis).qubits :=
          ⟨(d.toric.get axis).qubits[i], by simp [List.getD, List.getElem?_eq_getElem hilt],
            List.getElem_mem _⟩
        have hmem2 := hmem
        rw [g.toric axis, toricView_qubits, Toric2DCode.mem_qubits] at hmem2
        obtain ⟨a, bb, hab, _⟩ := hmem2
        subst hab
        exact ⟨a, bb, plane, by rw [hget], hmem, hplane⟩
      -- the pairs
      have hHx : (Hx (d.toric.get axis).H).length ≤
          (toricSizes d.Lx d.Ly d.Lz axis).1 * (toricSizes d.Lx d.Ly d.Lz axis).2 := by
        rw [g.toric axis]; exact toric_Hx_rows_le _ _
      have hpairs := post_matchedPairs (W := W) (Hx (d.toric.get axis).H) (c.drop (d.toric.get axis).n)
        (extractXSyndrome (d.toric.get axis).H cur) _ hHx
        (Nat.le_trans (extractX_length_le _ _) hHx)
      constructor
      · refine errs_bind (errs_emit _ _) fun _ _ => ?_
        refine errs_bind (errs_matchedPairs _ _ _) fun pairs hp => ?_
        refine errs_bind (errs_note _ _) fun _ _ => ?_
        split
        · rename_i hne
          refine errs_bind (errs_post_connectPairs d g proj axis hne pairs (hpairs pairs hp) cp hcp).1
            (fun _ _ => errs_pure)
        · exact errs_pure
      · refine post_bind (post_true _) fun _ _ => ?_
        refine post_bind hpairs fun pairs hp => ?_
        refine post_bind (post_true _) fun _ _ => ?_
        split
        · rename_i hne
          refine post_bind (errs_post_connectPairs d g proj axis hne pairs hp cp hcp).2
            fun cp' hcp' => post_pure ⟨hlocs, hcp'⟩
        · exact post_pure ⟨hlocs, hcp⟩

/-! ### all (axis, plane) -/

/-- invariant of "Decode all the 2D toric codes" -/
def AllInv (d : XCubeDec W) (proj : Axis) (st : Per (List Coord) × PlaneDict (List Int)) : Prop :=
  (∀ a, ∀ loc ∈ st.1.get a, MatchLoc d a loc) ∧ CpInv d proj st.2

theorem errs_post_decodeAllPlanes (solve : WSolver W) (d : XCubeDec W) (b : Built d) (proj : Axis)
    (ps : Per (PlaneDict Vec)) (hps : PsInv d ps) (cp : PlaneDict (List Int)) (hcp : CpInv d proj cp) :
    Errs (decodeAllPlanes solve d proj ps cp) NoKeyError ∧
    Post (decodeAllPlanes solve d proj ps cp) (AllInv d proj) := by
  unfold decodeAllPlanes
  have hinner : ∀ (st : Per (List Coord) × PlaneDict (List Int)) (axis : Axis), AllInv d proj st →
      Errs (forM' (ps.get axis) st fun st e =>
        Out.bind (decodePlaneSyndrome solve d proj axis e.1 e.2 st.2) fun r =>
          Out.pure (st.1.set axis (st.1.get axis ++ r.1), r.2)) NoKeyError ∧
      Post (forM' (ps.get axis) st fun st e =>
        Out.bind (decodePlaneSyndrome solve d proj axis e.1 e.2 st.2) fun r =>
          Out.pure (st.1.set axis (st.1.get axis ++ r.1), r.2)) (AllInv d proj) := by
    intro st axis hst
    have hstep : ∀ (st : Per (List Coord) × PlaneDict (List Int)) (e : Int × Vec), e ∈ ps.get axis →
        AllInv d proj st →
        Errs (Out.bind (decodePlaneSyndrome solve d proj axis e.1 e.2 st.2) fun r =>
          (Out.pure (st.1.set axis (st.1.get axis ++ r.1), r.2) : Out W _)) NoKeyError ∧
        Post (Out.bind (decodePlaneSyndrome solve d proj axis e.1 e.2 st.2) fun r =>
          (Out.pure (st.1.set axis (st.1.get axis ++ r.1), r.2) : Out W _)) (AllInv d proj) := by
      intro st e he hst
      have hplane : Lat3Db.R1 (2 * d.side axis) e.1 :=
        (hps axis e.1).mp (List.mem_map_of_mem (f := (·.1)) he)
      obtain ⟨h1, h2⟩ := errs_post_decodePlaneSyndrome solve d b proj axis e.1 hplane e.2 st.2 hst.2
      refine ⟨errs_bind h1 (fun _ _ => errs_pure), post_bind h2 fun r hr => post_pure ⟨?_, hr.2⟩⟩
      intro a loc hloc
      rw [Per.get_set] at hloc
      split at hloc
      · rename_i ha; subst ha
        rcases List.mem_append.mp hloc with h | h
        · exact hst.1 a loc h
        · exact hr.1 loc h
      · exact hst.1 a loc hloc
    exact ⟨errs_forM' (AllInv d proj) (fun st e he hst => hstep st e he hst) st hst,
      post_forM' (AllInv d proj) (fun st e he hst => (hstep st e he hst).2) st hst⟩
  have h0 : AllInv d proj ((⟨[], [], []⟩ : Per (List Coord)), cp) :=
    ⟨(by intro a loc h; cases a <;> cases h), hcp⟩
  exact ⟨errs_forM' (AllInv d proj) (fun st a _ hst => hinner st a hst) _ h0,
    post_forM' (AllInv d proj) (fun st a _ hst => (hinner st a hst).2) _ h0⟩

/-! ### the loops -/

theorem errs_loopsAll (d : XCubeDec W) (hok : PlaneKeysOk d) (hsz : ∀ proj, 1 ≤ (d.planeSizes proj).2)
    (proj : Axis) (comps : List (List Int))
    (hcomps : ∀ comp ∈ comps, Lat3Db.R1 (2 * d.side proj) (comp.headD 0))
    (ortho : List Coord) (hortho : ∀ c ∈ ortho, NonNegC c) (pc : Vec) :
    Errs (loopsAll d proj comps ortho pc) NoKeyError := by
  unfold loopsAll
  refine errs_forM' (fun _ => True) ?_ pc trivial
  intro st comp hcomp _
  refine ⟨?_, post_true _⟩
  simp only
  refine errs_bind (errs_note _ _) fun _ _ => ?_
  refine errs_bind (errs_decodePlane _ (toricLoop_nonneg ortho comp _ hortho) _ _ (hsz proj))
    fun coords hcoords => ?_
  refine errs_bind (errs_note _ _) fun _ _ => ?_
  exact errs_false_noKey (errs_loopScatter_of_keys d hok proj _ (hcomps comp hcomp) coords
    (post_decodePlane _ _ _ coords hcoords) st)

/-! ### one projection axis, and the whole matching part -/

theorem head_mem_of_ne_nil : ∀ (l : List Int), l ≠ [] → l.headD 0 ∈ l
  | [], h => absurd rfl h
  | a :: _, _ => by simp

theorem errs_post_projIter (solve : WSolver W) (order : List Int → List Int)
    (horder : ∀ l x, x ∈ order l ↔ x ∈ l) (d : XCubeDec W) (b : Built d)
    (hx : 2 ≤ d.Lx) (hy : 2 ≤ d.Ly) (hz : 2 ≤ d.Lz) (hok : PlaneKeysOk d)
    (hsz : ∀ proj, 1 ≤ (d.planeSizes proj).2) (s : Vec)
    (st : Per (PlaneDict Vec) × Per Vec) (hst : PsInv d st.1) (proj : Axis) :
    Errs (projIter solve order d (maskX d.H s) st proj) NoKeyError ∧
    Post (projIter solve order d (maskX d.H s) st proj) (fun r => PsInv d r.1) := by
  have g := b.geom
  obtain ⟨hs1, hs2⟩ := errs_post_slicePlanes d g hx hy hz b.H s st.1 hst
  -- what holds after each stage
  have hcp0 : ∀ ps, PsInv d ps → CpInv d proj ((ps.get proj).map fun e => (e.1, ([] : List Int))) := by
    intro ps hps
    refine ⟨fun p => ?_, ?_⟩
    · rw [← hps proj p]
      unfold keysOf
      rw [List.map_map]
      rfl
    · intro e he v hv
      obtain ⟨e', _, rfl⟩ := List.mem_map.mp he
      cases hv
  have hstages : ∀ ps, PsInv d ps →
      Errs (Out.bind (decodeAllPlanes solve d proj ps ((ps.get proj).map fun e => (e.1, []))) fun r =>
        let matchingProj := r.1.get proj
        let ortho := (r.1.get (orthoAxes proj).1 ++ r.1.get (orthoAxes proj).2).eraseDups
        Out.bind (connectedComponents order r.2) fun comps =>
        Out.bind (note (.comps proj comps)) fun _ =>
        Out.bind (projectAll d proj comps matchingProj (st.2.get proj)) fun pc1 =>
        Out.bind (loopsAll d proj comps ortho pc1) fun pc2 =>
        (Out.pure (ps, st.2.set proj pc2) : Out W _)) NoKeyError := by
    intro ps hps
    obtain ⟨ha1, ha2⟩ := errs_post_decodeAllPlanes solve d b proj ps hps _ (hcp0 ps hps)
    refine errs_bind ha1 fun r hr => ?_
    have hr' := ha2 r hr
    simp only
    obtain ⟨hc1, hc2⟩ := errs_post_connectedComponents (W := W) order horder r.2 hr'.2.ok
    refine errs_bind hc1 fun comps hcomps => ?_
    have hcomps' := hc2 comps hcomps
    have hhead : ∀ comp ∈ comps, Lat3Db.R1 (2 * d.side proj) (comp.headD 0) := by
      intro comp hcomp
      obtain ⟨hne, hk⟩ := hcomps' comp hcomp
      exact (hr'.2.keys _).mp (hk _ (head_mem_of_ne_nil comp hne))
    refine errs_bind (errs_note _ _) fun _ _ => ?_
    refine errs_bind (errs_false_noKey (errs_projectAll d g proj comps
      (fun comp hcomp => (hhead comp hcomp).1) _ (hr'.1 proj) _)) fun pc1 _ => ?_
    refine errs_bind (errs_loopsAll d hok hsz proj comps hhead _ ?_ pc1) (fun _ _ => errs_pure)
    intro c hc
    rw [List.mem_eraseDups] at hc
    rcases List.mem_append.mp hc with h | h
    · exact matchLoc_nonneg d g _ c (hr'.1 _ c h)
    · exact matchLoc_nonneg d g _ c (hr'.1 _ c h)
  unfold projIter
  constructor
  · exact errs_bind (errs_false_noKey hs1) fun ps hps => hstages ps (hs2 ps hps)
  · refine post_bind hs2 fun ps hps => ?_
    simp only
    refine post_bind (post_true _) fun r _ => ?_
    refine post_bind (post_true _) fun comps _ => ?_
    refine post_bind (post_true _) fun _ _ => ?_
    refine post_bind (post_true _) fun pc1 _ => ?_
    refine post_bind (post_true _) fun pc2 _ => ?_
    exact post_pure hps

/-- **No `KeyError` when the loop-scatter keys exist.**  Decoder object of an undeformed `XCubeCode`
    with all sides ≥ 2, any syndrome vector (any length, any entries), any PyMatching answers, any
    `list(set)` order that keeps the elements: the matching part of `decode` raises no `KeyError`. -/
theorem errs_matchingPart (solve : WSolver W) (order : List Int → List Int)
    (horder : ∀ l x, x ∈ order l ↔ x ∈ l) (d : XCubeDec W) (b : Built d)
    (hx : 2 ≤ d.Lx) (hy : 2 ≤ d.Ly) (hz : 2 ≤ d.Lz) (hok : PlaneKeysOk d)
    (hsz : ∀ proj, 1 ≤ (d.planeSizes proj).2) (s : Vec) :
    Errs (matchingPart solve order d s) NoKeyError := by
  unfold matchingPart
  simp only
  split
  · exact errs_raise (fun k h => by cases h)
  · refine errs_bind ?_ fun st _ => errs_bind (errs_note _ _) (fun _ _ => errs_pure)
    refine errs_forM' (fun (st : Per (PlaneDict Vec) × Per Vec) => PsInv d st.1) ?_ _ (psInv_empty d)
    intro st proj _ hst
    exact errs_post_projIter solve order horder d b hx hy hz hok hsz s st hst proj

/-! ### the order the driver uses keeps the elements -/

theorem mem_insertAsc (a x : Int) : ∀ l : List Int, x ∈ insertAsc a l ↔ x = a ∨ x ∈ l
  | [] => by simp [insertAsc]
  | b :: rest => by
    unfold insertAsc
    split
    · simp
    · simp only [List.mem_cons, mem_insertAsc a x rest]
      constructor
      · rintro (h | h | h)
        · exact Or.inr (Or.inl h)
        · exact Or.inl h
        · exact Or.inr (Or.inr h)
      · rintro (h | h | h)
        · exact Or.inr (Or.inl h)
        · exact Or.inl h
        · exact Or.inr (Or.inr h)

theorem mem_ascending (l : List Int) (x : Int) : x ∈ ascending l ↔ x ∈ l := by
  unfold ascending
  induction l with
  | nil => simp
  | cons a l ih => simp only [List.foldr_cons, mem_insertAsc, ih, List.mem_cons]

end Panqec.XCube
