/-
`HollowPlanar3DCode` for every size: the coordinate lists are those of `Planar3DCode` filtered by
`not _is_in_hole` (list equalities, so distinctness, membership and order are inherited), the hole
as an arithmetic predicate, and the counting lemmas for a box-shaped hole in a triple loop.
-/
import PanqecVerif.Proofs.LatPlanar3DCodeWF
import PanqecVerif.Model.Lattices.HollowPlanar3DCode

set_option linter.unusedVariables false
set_option linter.unusedSimpArgs false

namespace Panqec.HollowPlanar3DCode
open Panqec.Cubic3D
open Panqec.Planar3DCode (inE inO inE2 inO1 isVertex isFaceXY isFaceYZ isFaceXZ)

/-- `_is_in_hole` as an arithmetic statement -/
def Hole (Lx Ly Lz : Nat) (x y z : Int) : Prop :=
  (2 < x ∧ x < 2 * (Lx : Int) - 2) ∧ (1 ≤ y ∧ y < 2 * (Ly : Int) - 2) ∧
    (1 ≤ z ∧ z < 2 * (Lz : Int) - 2)

theorem inHole_iff {Lx Ly Lz : Nat} {x y z : Int} :
    inHole Lx Ly Lz x y z = true ↔ Hole Lx Ly Lz x y z := by
  unfold inHole Hole
  simp only [Bool.and_eq_true, decide_eq_true_eq, gt_iff_lt, ge_iff_le, and_assoc]

theorem inHole_false_iff {Lx Ly Lz : Nat} {x y z : Int} :
    inHole Lx Ly Lz x y z = false ↔ ¬ Hole Lx Ly Lz x y z := by
  rw [← inHole_iff]; simp

/-- the guard of the innermost loop body as a predicate on locations -/
def notHoleC (Lx Ly Lz : Nat) : Coord → Bool
  | [x, y, z] => !inHole Lx Ly Lz x y z
  | _ => true

theorem notHoleC3 {Lx Ly Lz : Nat} {x y z : Int} :
    notHoleC Lx Ly Lz [x, y, z] = true ↔ ¬ Hole Lx Ly Lz x y z := by
  simp only [notHoleC, Bool.not_eq_true', inHole_false_iff]

theorem gridH_eq (Lx Ly Lz : Nat) (xs ys zs : List Int) :
    gridH Lx Ly Lz xs ys zs = (grid xs ys zs).filter (notHoleC Lx Ly Lz) := by
  unfold gridH grid
  rw [List.filter_flatMap]
  congr 1; funext x
  rw [List.filter_flatMap]
  congr 1; funext y
  rw [List.filter_map]
  rfl

theorem range2_one_even (L : Nat) : range2 1 (2 * (L : Int)) = range2 1 (2 * (L : Int) + 1) := by
  unfold range2
  have : ((2 * (L : Int) - 1 + 1) / 2).toNat = ((2 * (L : Int) + 1 - 1 + 1) / 2).toNat := by omega
  rw [this]

/-- `get_qubit_coordinates` is the list of `Planar3DCode` with the locations in the hole removed -/
theorem qubits_eq (Lx Ly Lz : Nat) :
    qubits Lx Ly Lz = (Planar3DCode.qubits Lx Ly Lz).filter (notHoleC Lx Ly Lz) := by
  unfold qubits Planar3DCode.qubits
  simp only [gridH_eq, List.filter_append, range2_one_even]

/-- `get_stabilizer_coordinates` is the list of `Planar3DCode` with the locations in the hole
    removed -/
theorem stabs_eq (Lx Ly Lz : Nat) :
    stabs Lx Ly Lz = (Planar3DCode.stabs Lx Ly Lz).filter (notHoleC Lx Ly Lz) := by
  unfold stabs Planar3DCode.stabs
  simp only [gridH_eq, List.filter_append]

theorem mem_qubits {Lx Ly Lz : Nat} {x y z : Int} :
    [x, y, z] ∈ qubits Lx Ly Lz ↔
      [x, y, z] ∈ Planar3DCode.qubits Lx Ly Lz ∧ ¬ Hole Lx Ly Lz x y z := by
  rw [qubits_eq, List.mem_filter, notHoleC3]

theorem mem_stabs {Lx Ly Lz : Nat} {x y z : Int} :
    [x, y, z] ∈ stabs Lx Ly Lz ↔
      [x, y, z] ∈ Planar3DCode.stabs Lx Ly Lz ∧ ¬ Hole Lx Ly Lz x y z := by
  rw [stabs_eq, List.mem_filter, notHoleC3]

theorem qubits_sub {Lx Ly Lz : Nat} {q : Coord} (h : q ∈ qubits Lx Ly Lz) :
    q ∈ Planar3DCode.qubits Lx Ly Lz := by
  rw [qubits_eq] at h; exact (List.mem_filter.mp h).1

theorem stabs_sub {Lx Ly Lz : Nat} {q : Coord} (h : q ∈ stabs Lx Ly Lz) :
    q ∈ Planar3DCode.stabs Lx Ly Lz := by
  rw [stabs_eq] at h; exact (List.mem_filter.mp h).1

theorem shape_of_mem_qubits {Lx Ly Lz : Nat} {q : Coord} (h : q ∈ qubits Lx Ly Lz) :
    ∃ x y z, q = [x, y, z] := Planar3DCode.shape_of_mem_qubits (qubits_sub h)

theorem shape_of_mem_stabs {Lx Ly Lz : Nat} {q : Coord} (h : q ∈ stabs Lx Ly Lz) :
    ∃ x y z, q = [x, y, z] := Planar3DCode.shape_of_mem_stabs (stabs_sub h)

/-- `is_qubit` of this class = `is_qubit` of `Planar3DCode` and not in the hole -/
theorem contains_qubits (Lx Ly Lz : Nat) (q : Coord) :
    (qubits Lx Ly Lz).contains q = (Planar3DCode.isq Lx Ly Lz q && notHoleC Lx Ly Lz q) := by
  rw [Bool.eq_iff_iff]
  simp only [List.contains_iff_mem, Bool.and_eq_true, Planar3DCode.isq_iff, qubits_eq,
    List.mem_filter]

/-- a stabilizer location: one of the four kinds of `Planar3DCode`, outside the hole -/
theorem stab_cases {Lx Ly Lz : Nat} {s : Coord} (h : s ∈ stabs Lx Ly Lz) :
    ∃ x y z, s = [x, y, z] ∧ ¬ Hole Lx Ly Lz x y z ∧ (isVertex Lx Ly Lz x y z ∨
      isFaceXY Lx Ly Lz x y z ∨ isFaceYZ Lx Ly Lz x y z ∨ isFaceXZ Lx Ly Lz x y z) := by
  obtain ⟨x, y, z, rfl⟩ := shape_of_mem_stabs h
  rw [mem_stabs] at h
  exact ⟨x, y, z, rfl, h.2, Planar3DCode.mem_stabs.mp h.1⟩

/-! ### counting: a box-shaped hole in a triple loop -/

theorem length_filter_range2 {a b a' b' : Int} {p : Int → Bool}
    (h : ∀ x, (x ∈ range2 a b ∧ p x = true) ↔ x ∈ range2 a' b') :
    ((range2 a b).filter p).length = (range2 a' b').length := by
  apply List.Perm.length_eq
  rw [List.perm_ext_iff_of_nodup ((nodup_range2 a b).filter _) (nodup_range2 a' b')]
  intro x
  rw [List.mem_filter]; exact h x

/-- a filter by a product predicate on a triple loop is the triple loop of the filtered lists -/
theorem filter_grid_box (xs ys zs : List Int) (px py pz : Int → Bool) (P : Coord → Bool)
    (hP : ∀ x y z, P [x, y, z] = (px x && py y && pz z)) :
    (grid xs ys zs).filter P = grid (xs.filter px) (ys.filter py) (zs.filter pz) := by
  unfold grid
  induction xs with
  | nil => simp
  | cons x xs ihx =>
    simp only [List.flatMap_cons, List.filter_append, ihx, List.filter_cons]
    by_cases hx : px x = true
    · simp only [hx, if_true, List.flatMap_cons]
      congr 1
      clear ihx
      induction ys with
      | nil => simp
      | cons y ys ihy =>
        simp only [List.flatMap_cons, List.filter_append, ihy, List.filter_cons]
        by_cases hy : py y = true
        · simp only [hy, if_true, List.flatMap_cons]
          congr 1
          rw [List.filter_map]
          congr 1
          apply List.filter_congr
          intro z _
          simp [hP, hx, hy]
        · have hy' : py y = false := by simpa using hy
          simp only [hy', Bool.false_eq_true, if_false]
          have : List.filter P (List.map (fun z => [x, y, z]) zs) = [] := by
            rw [List.filter_eq_nil_iff]
            intro q hq
            obtain ⟨z, _, rfl⟩ := List.mem_map.mp hq
            simp [hP, hy']
          rw [this]; rfl
    · have hx' : px x = false := by simpa using hx
      simp only [hx', Bool.false_eq_true, if_false]
      have : List.filter P (List.flatMap (fun y => List.map (fun z => [x, y, z]) zs) ys) = [] := by
        rw [List.filter_eq_nil_iff]
        intro q hq
        obtain ⟨y, _, hq⟩ := List.mem_flatMap.mp hq
        obtain ⟨z, _, rfl⟩ := List.mem_map.mp hq
        simp [hP, hx']
      rw [this]; rfl

/-- the three factors of `_is_in_hole` -/
def holeX (Lx : Nat) (x : Int) : Bool := decide (x > 2) && decide (x < 2 * (Lx : Int) - 2)
def holeYZ (L : Nat) (y : Int) : Bool := decide (y ≥ 1) && decide (y < 2 * (L : Int) - 2)

theorem length_gridH (Lx Ly Lz : Nat) (xs ys zs : List Int) :
    (gridH Lx Ly Lz xs ys zs).length +
      (xs.filter (holeX Lx)).length * (ys.filter (holeYZ Ly)).length *
        (zs.filter (holeYZ Lz)).length = xs.length * ys.length * zs.length := by
  rw [gridH_eq, ← length_grid, ← length_grid,
    ← filter_grid_box xs ys zs (holeX Lx) (holeYZ Ly) (holeYZ Lz)
      (fun q => !notHoleC Lx Ly Lz q) (by intro x y z; simp [notHoleC, inHole, holeX, holeYZ])]
  have := List.length_eq_length_filter_add (l := grid xs ys zs) (notHoleC Lx Ly Lz)
  omega

/-! the part of each of the four kinds of range that lies in the hole (per axis) -/

theorem len_holeX_E2 (L : Nat) : ((range2 2 (2 * (L : Int))).filter (holeX L)).length = L - 3 := by
  rw [length_filter_range2 (a' := 4) (b' := 2 * (L : Int) - 2), length_range2]
  · omega
  · intro x; simp only [mem_range2, holeX, Bool.and_eq_true, decide_eq_true_eq]; omega

theorem len_holeX_O1 (L : Nat) :
    ((range2 1 (2 * (L : Int) + 1)).filter (holeX L)).length = L - 2 := by
  rw [length_filter_range2 (a' := 3) (b' := 2 * (L : Int) - 2), length_range2]
  · omega
  · intro x; simp only [mem_range2, holeX, Bool.and_eq_true, decide_eq_true_eq]; omega

theorem len_holeX_O1' (L : Nat) :
    ((range2 1 (2 * (L : Int))).filter (holeX L)).length = L - 2 := by
  rw [range2_one_even]; exact len_holeX_O1 L

theorem len_holeYZ_E (L : Nat) : ((range2 0 (2 * (L : Int))).filter (holeYZ L)).length = L - 2 := by
  rw [length_filter_range2 (a' := 2) (b' := 2 * (L : Int) - 2), length_range2]
  · omega
  · intro x; simp only [mem_range2, holeYZ, Bool.and_eq_true, decide_eq_true_eq]; omega

theorem len_holeYZ_O (L : Nat) :
    ((range2 1 (2 * (L : Int) - 1)).filter (holeYZ L)).length = L - 1 := by
  rw [length_filter_range2 (a' := 1) (b' := 2 * (L : Int) - 1), length_range2]
  · omega
  · intro x; simp only [mem_range2, holeYZ, Bool.and_eq_true, decide_eq_true_eq]; omega

open Planar3DCode (length_rangeE length_rangeO length_rangeE2 length_rangeO1) in
/-- `n` plus the number of removed edges is the `n` of `Planar3DCode` (x, y, z edges) -/
theorem qubits_length_add (Lx Ly Lz : Nat) : (qubits Lx Ly Lz).length +
    ((Lx - 2) * (Ly - 2) * (Lz - 2) + (Lx - 3) * (Ly - 1) * (Lz - 2) +
      (Lx - 3) * (Ly - 2) * (Lz - 1)) =
    Lx * Ly * Lz + (Lx - 1) * (Ly - 1) * Lz + (Lx - 1) * Ly * (Lz - 1) := by
  have h1 := length_gridH Lx Ly Lz (range2 1 (2 * (Lx : Int))) (range2 0 (2 * (Ly : Int)))
    (range2 0 (2 * (Lz : Int)))
  have h2 := length_gridH Lx Ly Lz (range2 2 (2 * (Lx : Int))) (range2 1 (2 * (Ly : Int) - 1))
    (range2 0 (2 * (Lz : Int)))
  have h3 := length_gridH Lx Ly Lz (range2 2 (2 * (Lx : Int))) (range2 0 (2 * (Ly : Int)))
    (range2 1 (2 * (Lz : Int) - 1))
  simp only [len_holeX_E2, len_holeX_O1', len_holeYZ_E, len_holeYZ_O, length_rangeE, length_rangeO,
    length_rangeE2] at h1 h2 h3
  rw [range2_one_even, length_rangeO1] at h1
  simp only [qubits, List.length_append]
  rw [range2_one_even]
  omega

open Planar3DCode (length_rangeE length_rangeO length_rangeE2 length_rangeO1) in
/-- the number of stabilizer locations plus the number of removed ones is the number of
    `Planar3DCode` (vertices, xy / yz / xz faces) -/
theorem stabs_length_add (Lx Ly Lz : Nat) : (stabs Lx Ly Lz).length +
    ((Lx - 3) * (Ly - 2) * (Lz - 2) + (Lx - 2) * (Ly - 1) * (Lz - 2) +
      (Lx - 3) * (Ly - 1) * (Lz - 1) + (Lx - 2) * (Ly - 2) * (Lz - 1)) =
    (Lx - 1) * Ly * Lz + Lx * (Ly - 1) * Lz + (Lx - 1) * (Ly - 1) * (Lz - 1) +
      Lx * Ly * (Lz - 1) := by
  have h1 := length_gridH Lx Ly Lz (range2 2 (2 * (Lx : Int))) (range2 0 (2 * (Ly : Int)))
    (range2 0 (2 * (Lz : Int)))
  have h2 := length_gridH Lx Ly Lz (range2 1 (2 * (Lx : Int) + 1)) (range2 1 (2 * (Ly : Int) - 1))
    (range2 0 (2 * (Lz : Int)))
  have h3 := length_gridH Lx Ly Lz (range2 2 (2 * (Lx : Int))) (range2 1 (2 * (Ly : Int) - 1))
    (range2 1 (2 * (Lz : Int) - 1))
  have h4 := length_gridH Lx Ly Lz (range2 1 (2 * (Lx : Int) + 1)) (range2 0 (2 * (Ly : Int)))
    (range2 1 (2 * (Lz : Int) - 1))
  simp only [len_holeX_E2, len_holeX_O1, len_holeYZ_E, len_holeYZ_O, length_rangeE, length_rangeO,
    length_rangeE2, length_rangeO1] at h1 h2 h3 h4
  simp only [stabs, List.length_append]
  omega

end Panqec.HollowPlanar3DCode
