/-
RhombicPlanarCode, all sizes (`Lx, Ly ≥ 2`, `Lz ≥ 1`), C17 part B: the representatives are sets of
qubits with pairwise disjoint supports (`lower_bound`, through `Lattice.packing_bound`): `Lz`
horizontal sheets for `X̄`, `Lx·Ly + (Lx-1)(Ly-1)` vertical stacks for `Z̄`; the listed logicals have
weights `Lx·Ly + (Lx-1)(Ly-1)` (sheet) and `Lz` (stack) (`reported_distance`).
-/
import PanqecVerif.Proofs.DistRhombicPlanarCodeA
import PanqecVerif.Proofs.Lat2DRankBridge

namespace Panqec.RhombicPlanarCode
open Panqec.Lat3Db Panqec.Rhombic Panqec.Cubic3D
open Panqec.Lat2D (plane2 mem_plane2 nodup_plane2 length_plane2)

variable {Lx Ly Lz : Nat}

/-! ### the sheets -/

theorem mem_tSheet {Lx Ly i : Nat} {q : Coord} :
    q ∈ tSheet Lx Ly i ↔
      (∃ j k : Nat, j < Lx ∧ k < Ly ∧ q = [2 * (j : Int) + 1, 2 * (k : Int), 2 * (i : Int)]) ∨
      (∃ j k : Nat, j < Lx - 1 ∧ k < Ly - 1 ∧
        q = [2 * (j : Int) + 2, 2 * (k : Int) + 1, 2 * (i : Int)]) := by
  simp only [tSheet, List.mem_append, mem_plane2]

theorem nodup_tSheet (Lx Ly i : Nat) : (tSheet Lx Ly i).Nodup := by
  unfold tSheet
  rw [List.nodup_append]
  refine ⟨nodup_plane2 _ _ _ (fun j k j' k' h => ?_), nodup_plane2 _ _ _ (fun j k j' k' h => ?_), ?_⟩
  · simp only [List.cons.injEq, and_true] at h; omega
  · simp only [List.cons.injEq, and_true] at h; omega
  · intro a ha c hc e
    subst e
    obtain ⟨j, k, _, _, rfl⟩ := mem_plane2.mp ha
    obtain ⟨j', k', _, _, e⟩ := mem_plane2.mp hc
    simp only [List.cons.injEq, and_true] at e; omega

theorem length_tSheet (Lx Ly i : Nat) :
    (tSheet Lx Ly i).length = Lx * Ly + (Lx - 1) * (Ly - 1) := by
  unfold tSheet; rw [List.length_append, length_plane2, length_plane2]

theorem tSheet_qubits {i : Nat} (hi : i < Lz) : ∀ q ∈ tSheet Lx Ly i, q ∈ qubits Lx Ly Lz := by
  intro q hq
  rcases mem_tSheet.mp hq with ⟨j, k, hj, hk, rfl⟩ | ⟨j, k, hj, hk, rfl⟩ <;> rw [mem_qubits_iff]
  · left; unfold QX R0 R1; omega
  · right; left; unfold QY R0 R1 R2; omega

theorem repsX (P : Pauli) : RepsOK (qubits Lx Ly Lz) (tSheet Lx Ly) Lz P :=
  uopReps _ _ _ P (nodup_tSheet Lx Ly) (fun i hi => tSheet_qubits hi)
    (fun i i' h q hq hq' => by
      rcases mem_tSheet.mp hq with ⟨j, k, _, _, rfl⟩ | ⟨j, k, _, _, rfl⟩ <;>
      rcases mem_tSheet.mp hq' with ⟨j', k', _, _, e⟩ | ⟨j', k', _, _, e⟩ <;>
        simp only [List.cons.injEq, and_true] at e <;> omega)

/-- the listed sheet is the translate at `z = 0`, as a set of keys -/
theorem sheetKeys_perm (hz : 1 ≤ Lz) : (sheetKeys Lx Ly Lz).Perm (tSheet Lx Ly 0) := by
  rw [List.perm_ext_iff_of_nodup (nodup_sheetKeys Lx Ly Lz) (nodup_tSheet Lx Ly 0)]
  intro c
  unfold sheetKeys
  rw [List.mem_filter, mem_tSheet]
  constructor
  · rintro ⟨hc, hq⟩
    unfold sheetLocs at hc
    simp only [List.mem_flatMap, List.mem_map, mem_pyRange] at hc
    obtain ⟨x, hx, y, hy, rfl⟩ := hc
    rcases (isQubit_iff Lx Ly Lz x y 0).mp hq with h | h | h
    · left
      unfold QX R0 R1 at h
      refine ⟨(x / 2).toNat, (y / 2).toNat, by omega, by omega, ?_⟩
      simp only [List.cons.injEq, and_true]; omega
    · right
      unfold QY R0 R1 R2 at h
      refine ⟨((x - 2) / 2).toNat, ((y - 1) / 2).toNat, by omega, by omega, ?_⟩
      simp only [List.cons.injEq, and_true]; omega
    · unfold QZ R1 at h; omega
  · rintro (⟨j, k, hj, hk, rfl⟩ | ⟨j, k, hj, hk, rfl⟩)
    · refine ⟨(mem_sheetLocs Lx Ly _ _ _).mpr ⟨by omega, by omega, by omega⟩, ?_⟩
      rw [isQubit_iff]; left; unfold QX R0 R1; omega
    · refine ⟨(mem_sheetLocs Lx Ly _ _ _).mpr ⟨by omega, by omega, by omega⟩, ?_⟩
      rw [isQubit_iff]; right; left; unfold QY R0 R1 R2; omega

/-! ### the stacks, indexed by one number -/

/-- the `Lx·Ly` stacks of x-edges, then the `(Lx-1)(Ly-1)` stacks of y-edges -/
def stackK (Lx Ly Lz : Nat) (t : Nat) : List Coord :=
  if t < Lx * Ly then tLX Lz (t / Ly) (t % Ly)
  else tLY Lz ((t - Lx * Ly) / (Ly - 1)) ((t - Lx * Ly) % (Ly - 1))

theorem nodup_tLX (Lz j k : Nat) : (tLX Lz j k).Nodup :=
  List.Nodup.map (fun a b h => by simpa using h) (nodup_pyRange2 _ _)
theorem nodup_tLY (Lz j k : Nat) : (tLY Lz j k).Nodup :=
  List.Nodup.map (fun a b h => by simpa using h) (nodup_pyRange2 _ _)

theorem mem_tLX {Lz j k : Nat} {q : Coord} :
    q ∈ tLX Lz j k ↔ ∃ z, R0 (2 * Lz) z ∧ q = [2 * (j : Int) + 1, 2 * (k : Int), z] := by
  simp only [tLX, List.mem_map, mem_pyRange2_0]
  constructor
  · rintro ⟨x, hx, rfl⟩; exact ⟨x, hx, rfl⟩
  · rintro ⟨x, hx, rfl⟩; exact ⟨x, hx, rfl⟩
theorem mem_tLY {Lz j k : Nat} {q : Coord} :
    q ∈ tLY Lz j k ↔ ∃ z, R0 (2 * Lz) z ∧ q = [2 * (j : Int) + 2, 2 * (k : Int) + 1, z] := by
  simp only [tLY, List.mem_map, mem_pyRange2_0]
  constructor
  · rintro ⟨x, hx, rfl⟩; exact ⟨x, hx, rfl⟩
  · rintro ⟨x, hx, rfl⟩; exact ⟨x, hx, rfl⟩

/-- the index of a stack of x-edges -/
theorem divmod_X {t : Nat} (hy : 1 ≤ Ly) (ht : t < Lx * Ly) : t / Ly < Lx ∧ t % Ly < Ly :=
  ⟨Nat.div_lt_of_lt_mul (by rw [Nat.mul_comm]; exact ht), Nat.mod_lt _ (by omega)⟩

/-- the index of a stack of y-edges -/
theorem divmod_Y {t : Nat} (hy : 2 ≤ Ly) (h1 : ¬ t < Lx * Ly)
    (ht : t < Lx * Ly + (Lx - 1) * (Ly - 1)) :
    (t - Lx * Ly) / (Ly - 1) + 1 < Lx ∧ (t - Lx * Ly) % (Ly - 1) + 1 < Ly := by
  have hc : (Lx - 1) * (Ly - 1) = (Ly - 1) * (Lx - 1) := Nat.mul_comm _ _
  have h2 : t - Lx * Ly < (Ly - 1) * (Lx - 1) := by rw [← hc]; omega
  have h3 := Nat.div_lt_of_lt_mul h2
  have h4 := Nat.mod_lt (t - Lx * Ly) (by omega : 0 < Ly - 1)
  generalize (t - Lx * Ly) / (Ly - 1) = j at *
  generalize (t - Lx * Ly) % (Ly - 1) = k at *
  omega

theorem repsZ (hy : 2 ≤ Ly) (P : Pauli) :
    RepsOK (qubits Lx Ly Lz) (stackK Lx Ly Lz) (Lx * Ly + (Lx - 1) * (Ly - 1)) P :=
  uopReps _ _ _ P
    (fun t => by unfold stackK; split <;> [exact nodup_tLX _ _ _; exact nodup_tLY _ _ _])
    (fun t ht q hq => by
      unfold stackK at hq
      split at hq
      · rename_i h1
        obtain ⟨hj, hk⟩ := divmod_X (Lx := Lx) (by omega) h1
        obtain ⟨z, hz, rfl⟩ := mem_tLX.mp hq
        generalize t / Ly = j at *
        generalize t % Ly = k at *
        rw [mem_qubits_iff]; left; unfold QX R0 R1 at *; omega
      · rename_i h1
        obtain ⟨hj, hk⟩ := divmod_Y hy h1 ht
        obtain ⟨z, hz, rfl⟩ := mem_tLY.mp hq
        generalize (t - Lx * Ly) / (Ly - 1) = j at *
        generalize (t - Lx * Ly) % (Ly - 1) = k at *
        rw [mem_qubits_iff]; right; left; unfold QY R0 R1 R2 at *; omega)
    (fun t t' htt q hq hq' => by
      unfold stackK at hq hq'
      split at hq <;> split at hq'
      · obtain ⟨z, _, rfl⟩ := mem_tLX.mp hq
        obtain ⟨z', _, e⟩ := mem_tLX.mp hq'
        simp only [List.cons.injEq, and_true] at e
        have h1 := Nat.div_add_mod t Ly
        have h2 := Nat.div_add_mod t' Ly
        have e1 : t / Ly = t' / Ly := by omega
        have e2 : t % Ly = t' % Ly := by omega
        rw [e1, e2] at h1
        omega
      · obtain ⟨z, _, rfl⟩ := mem_tLX.mp hq
        obtain ⟨z', _, e⟩ := mem_tLY.mp hq'
        simp only [List.cons.injEq, and_true] at e
        omega
      · obtain ⟨z, _, rfl⟩ := mem_tLY.mp hq
        obtain ⟨z', _, e⟩ := mem_tLX.mp hq'
        simp only [List.cons.injEq, and_true] at e
        omega
      · obtain ⟨z, _, rfl⟩ := mem_tLY.mp hq
        obtain ⟨z', _, e⟩ := mem_tLY.mp hq'
        simp only [List.cons.injEq, and_true] at e
        have h1 := Nat.div_add_mod (t - Lx * Ly) (Ly - 1)
        have h2 := Nat.div_add_mod (t' - Lx * Ly) (Ly - 1)
        have e1 : (t - Lx * Ly) / (Ly - 1) = (t' - Lx * Ly) / (Ly - 1) := by omega
        have e2 : (t - Lx * Ly) % (Ly - 1) = (t' - Lx * Ly) % (Ly - 1) := by omega
        rw [e1, e2] at h1
        omega)

/-! ### the packing bound -/

/-- every non-trivial logical operator of the `Lx × Ly × Lz` rhombic planar code has weight
    `≥ min (Lx·Ly + (Lx-1)(Ly-1)) Lz` -/
theorem lower_bound (hx : 2 ≤ Lx) (hy : 2 ≤ Ly) (hz : 1 ≤ Lz) (hwf : (lattice Lx Ly Lz).WF)
    {n k : Nat} (hn : (qubits Lx Ly Lz).length = n)
    (hv : ValidCodeL n k (lattice Lx Ly Lz).rowsH (lattice Lx Ly Lz).rowsX
      (lattice Lx Ly Lz).rowsZ) :
    ∀ v, IsNontrivialLogical n (lattice Lx Ly Lz).rowsH v →
      min (Lx * Ly + (Lx - 1) * (Ly - 1)) Lz ≤ pauliWeight v := by
  apply Lattice.packing_bound (lattice Lx Ly Lz) hwf hn hv
  intro a ha
  change a ∈ logX Lx Ly Lz ++ logZ Lx Ly Lz at ha
  change ∃ reps : List Op, _ ∧ (∀ r ∈ reps, KeysNodup r ∧ opSupported (qubits Lx Ly Lz) r = true) ∧
    _ ∧ ∀ b : Op, _ → _ → CommStabs Lx Ly Lz b → _
  rw [logX_eq, logZ_eq] at ha
  simp only [List.cons_append, List.nil_append, List.mem_cons, List.not_mem_nil, or_false] at ha
  rcases ha with rfl | rfl
  · obtain ⟨h1, h2, h3⟩ := repsX (Lx := Lx) (Ly := Ly) (Lz := Lz) Pauli.X
    refine ⟨_, by rw [h1]; omega, h2, h3, ?_⟩
    intro b _ _ hb r hr
    obtain ⟨i, hi, rfl⟩ := List.mem_map.mp hr
    rw [opAntiCount_uop_hit, opAntiCount_constOp_hit, (sheetKeys_perm hz).countP_eq]
    exact parity_X hb (by omega) (by omega) i (List.mem_range.mp hi)
  · obtain ⟨h1, h2, h3⟩ := repsZ (Lx := Lx) (Ly := Ly) (Lz := Lz) hy Pauli.Z
    refine ⟨_, by rw [h1]; omega, h2, h3, ?_⟩
    intro b _ _ hb r hr
    obtain ⟨t, ht, rfl⟩ := List.mem_map.mp hr
    have ht := List.mem_range.mp ht
    rw [opAntiCount_uop_hit, opAntiCount_constOp_hit]
    unfold stackK
    split
    · rename_i h1
      obtain ⟨hj, hk⟩ := divmod_X (Lx := Lx) (by omega) h1
      exact parity_LX hb hx hy hj hk
    · rename_i h1
      obtain ⟨hj, hk⟩ := divmod_Y hy h1 ht
      exact parity_LY hb hx hy hj hk

/-! ### weights of the listed logicals, reported distance -/

theorem weight_listed (hwf : (lattice Lx Ly Lz).WF) {a : Op}
    (ha : a ∈ (lattice Lx Ly Lz).logX ++ (lattice Lx Ly Lz).logZ) :
    pauliWeight (opRow (lattice Lx Ly Lz).qubits a) = a.length :=
  pauliWeight_opRow _ hwf.qubits_nodup a (hwf.log_keys a ha) (hwf.log_supported a ha)

theorem length_constOp (ks : List Coord) (p : Pauli) : (constOp ks p).length = ks.length := by
  simp [constOp]

/-- the weight of the row of `logicals_x` is `Lx·Ly + (Lx-1)(Ly-1)` (the sheet `z = 0`), of the row of
    `logicals_z` `Lz` (a vertical stack of x-edges) -/
theorem weights_listed (hz : 1 ≤ Lz) (hwf : (lattice Lx Ly Lz).WF) :
    (lattice Lx Ly Lz).rowsX.map pauliWeight = [Lx * Ly + (Lx - 1) * (Ly - 1)] ∧
    (lattice Lx Ly Lz).rowsZ.map pauliWeight = [Lz] := by
  have hw := fun a ha => weight_listed hwf (a := a) ha
  change ∀ a, a ∈ logX Lx Ly Lz ++ logZ Lx Ly Lz → _ at hw
  rw [logX_eq, logZ_eq] at hw
  unfold Lattice.rowsX Lattice.rowsZ
  change (List.map (opRow (lattice Lx Ly Lz).qubits) (logX Lx Ly Lz)).map pauliWeight = _ ∧
    (List.map (opRow (lattice Lx Ly Lz).qubits) (logZ Lx Ly Lz)).map pauliWeight = _
  rw [logX_eq, logZ_eq]
  simp only [List.map_cons, List.map_nil]
  rw [hw _ (by simp), hw _ (by simp)]
  simp only [length_constOp, (sheetKeys_perm hz).length_eq, length_tSheet, lineKeys,
    List.length_map, length_pyRange2_even]
  exact ⟨trivial, trivial⟩

/-- `code.d` (minimum weight of the listed logicals) is `min (Lx·Ly + (Lx-1)(Ly-1)) Lz` -/
theorem reported_distance (hz : 1 ≤ Lz) (hwf : (lattice Lx Ly Lz).WF) :
    distance (lattice Lx Ly Lz).rowsX (lattice Lx Ly Lz).rowsZ =
      some (min (Lx * Ly + (Lx - 1) * (Ly - 1)) Lz) := by
  obtain ⟨h1, h2⟩ := weights_listed hz hwf
  unfold distance
  show (match listMin ((lattice Lx Ly Lz).rowsX.map pauliWeight),
    listMin ((lattice Lx Ly Lz).rowsZ.map pauliWeight) with
    | some a, some b => some (min a b)
    | _, _ => none) = _
  rw [h1, h2]
  rfl

end Panqec.RhombicPlanarCode
