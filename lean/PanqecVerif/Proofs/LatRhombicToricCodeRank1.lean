/-
RhombicToricCode lattice model, rank clause: the selected family of `n − k` generators
(`Model/Lattices/RhombicToricCode.lean`, `selStabs`), its membership in arithmetic form, distinctness,
and its size.  Sizes even `≥ 2`.
-/
import Mathlib.Tactic.Ring
import PanqecVerif.Proofs.LatRhombicToricCode4
open Panqec Panqec.Lat3Db Panqec.Rhombic
namespace Panqec.RhombicToricCode

/-- selected cube -/
def CK (Lx Ly Lz : Nat) (x y z : Int) : Prop := SC Lx Ly Lz x y z ∧ ¬ (x = 3 ∧ y = 1 ∧ z = 1)

/-- selected triangle -/
def TK (Lx Ly Lz : Nat) (a x y z : Int) : Prop :=
  R0 (2*Lx) x ∧ R0 (2*Ly) y ∧ R0 (2*Lz) z ∧
  ((0 < x ∧ x < 2*(Lx:Int)-2 ∧ (a = 2 ∨ a = 3 ∨ (a = 1 ∧ (x + y + z) % 4 = 2))) ∨
   (x = 2*(Lx:Int)-2 ∧ (a = 2 ∨ a = 3 ∨ (a = 1 ∧ ¬ (y = 0 ∧ z = 0)))) ∨
   (x = 0 ∧ ((a = 1 ∧ (x + y + z) % 4 = 0) ∨ (a = 2 ∧ (x + y + z) % 4 = 2) ∨
      (2 ≤ z ∧ ((a = 2 ∧ (x + y + z) % 4 = 0) ∨ (a = 1 ∧ (x + y + z) % 4 = 2))) ∨
      (z = 2*(Lz:Int)-2 ∧ y < 2*(Ly:Int)-2 ∧
        ((a = 3 ∧ (x + y + z) % 4 = 2) ∨ (a = 0 ∧ (x + y + z) % 4 = 0))))))

theorem shape_grid3 {xs ys zs : List Int} {p : Int → Int → Int → Bool} {a : Coord}
    (h : a ∈ grid3 xs ys zs p) : ∃ x y z, a = [x, y, z] := by
  rw [mem_grid3] at h
  obtain ⟨x, y, z, rfl, _⟩ := h
  exact ⟨x, y, z, rfl⟩

theorem mem_selCubes_iff (Lx Ly Lz : Nat) (x y z : Int) :
    [x, y, z] ∈ selCubes Lx Ly Lz ↔ CK Lx Ly Lz x y z := by
  unfold selCubes CK SC
  simp only [List.mem_filter, mem_grid3_cons, mem_pyRange2_1, cubeKeep, beq_iff_eq, bne_iff_ne, ne_eq,
    List.cons.injEq, and_true, and_assoc]

theorem mem_verts (xs : List Int) (Ly Lz : Nat) (p : Int → Int → Int → Bool) (x y z : Int) :
    [x, y, z] ∈ verts xs Ly Lz p ↔ x ∈ xs ∧ R0 (2*Ly) y ∧ R0 (2*Lz) z ∧ p x y z = true := by
  unfold verts; simp only [mem_grid3_cons, mem_pyRange2_0]

section mem
variable {Lx Ly Lz : Nat}

theorem TK.bulk {a x y z : Int} (h1 : R0 (2*Lx) x) (h2 : R0 (2*Ly) y) (h3 : R0 (2*Lz) z)
    (hx : 0 < x ∧ x < 2*(Lx:Int)-2) (h : a = 2 ∨ a = 3 ∨ (a = 1 ∧ (x + y + z) % 4 = 2)) :
    TK Lx Ly Lz a x y z := ⟨h1, h2, h3, Or.inl ⟨hx.1, hx.2, h⟩⟩

theorem TK.last {a x y z : Int} (h1 : R0 (2*Lx) x) (h2 : R0 (2*Ly) y) (h3 : R0 (2*Lz) z)
    (hx : x = 2*(Lx:Int)-2) (h : a = 2 ∨ a = 3 ∨ (a = 1 ∧ ¬ (y = 0 ∧ z = 0))) :
    TK Lx Ly Lz a x y z := ⟨h1, h2, h3, Or.inr (Or.inl ⟨hx, h⟩)⟩

theorem TK.first {a x y z : Int} (h1 : R0 (2*Lx) x) (h2 : R0 (2*Ly) y) (h3 : R0 (2*Lz) z)
    (hx : x = 0) (h : (a = 1 ∧ (x + y + z) % 4 = 0) ∨ (a = 2 ∧ (x + y + z) % 4 = 2) ∨
      (2 ≤ z ∧ ((a = 2 ∧ (x + y + z) % 4 = 0) ∨ (a = 1 ∧ (x + y + z) % 4 = 2))) ∨
      (z = 2*(Lz:Int)-2 ∧ y < 2*(Ly:Int)-2 ∧
        ((a = 3 ∧ (x + y + z) % 4 = 2) ∨ (a = 0 ∧ (x + y + z) % 4 = 0)))) :
    TK Lx Ly Lz a x y z := ⟨h1, h2, h3, Or.inr (Or.inr ⟨hx, h⟩)⟩

theorem mem_selBulk {a x y z : Int} (_hx : 2 ≤ Lx) (h : [a, x, y, z] ∈ selBulk Lx Ly Lz) :
    TK Lx Ly Lz a x y z := by
  unfold selBulk at h
  simp only [List.mem_append, List.mem_map] at h
  rcases h with ⟨c, hc, e⟩ | ⟨c, hc, e⟩ | ⟨c, hc, e⟩ <;>
    (obtain ⟨p, q, r, rfl⟩ := shape_grid3 hc
     simp only [List.cons.injEq, and_true] at e
     obtain ⟨rfl, rfl, rfl, rfl⟩ := e
     rw [mem_verts, mem_pyRange2] at hc
     simp only [par2, allTrue, beq_iff_eq] at hc
     refine TK.bulk ?_ hc.2.1 hc.2.2.1 ?_ ?_
     · unfold R0; omega
     · omega
     · omega)

theorem mem_selLast {a x y z : Int} (_hx : 2 ≤ Lx) (h : [a, x, y, z] ∈ selLast Lx Ly Lz) :
    TK Lx Ly Lz a x y z := by
  unfold selLast at h
  simp only [List.mem_append, List.mem_map, List.mem_filter] at h
  rcases h with ⟨c, hc, e⟩ | ⟨c, hc, e⟩ | ⟨⟨c, hc, e⟩, hne⟩
  · obtain ⟨p, q, r, rfl⟩ := shape_grid3 hc
    simp only [List.cons.injEq, and_true] at e
    obtain ⟨rfl, rfl, rfl, rfl⟩ := e
    rw [mem_verts, mem_pyRange2] at hc
    refine TK.last ?_ hc.2.1 hc.2.2.1 ?_ (Or.inl rfl)
    · unfold R0; omega
    · omega
  · obtain ⟨p, q, r, rfl⟩ := shape_grid3 hc
    simp only [List.cons.injEq, and_true] at e
    obtain ⟨rfl, rfl, rfl, rfl⟩ := e
    rw [mem_verts, mem_pyRange2] at hc
    refine TK.last ?_ hc.2.1 hc.2.2.1 ?_ (Or.inr (Or.inl rfl))
    · unfold R0; omega
    · omega
  · obtain ⟨p, q, r, rfl⟩ := shape_grid3 hc
    simp only [List.cons.injEq, and_true] at e
    obtain ⟨rfl, rfl, rfl, rfl⟩ := e
    rw [mem_verts, mem_pyRange2] at hc
    simp only [bne_iff_ne, ne_eq, List.cons.injEq, and_true, true_and] at hne
    have hx : p = 2*(Lx:Int)-2 := by omega
    refine TK.last ?_ hc.2.1 hc.2.2.1 hx (Or.inr (Or.inr ⟨rfl, ?_⟩))
    · unfold R0; omega
    · intro h0; exact hne ⟨hx, h0.1, h0.2⟩

theorem mem_selFirst {a x y z : Int} (_hx : 2 ≤ Lx) (_hy : 2 ≤ Ly) (_hz : 2 ≤ Lz)
    (h : [a, x, y, z] ∈ selFirst Lx Ly Lz) : TK Lx Ly Lz a x y z := by
  unfold selFirst at h
  simp only [List.mem_append, List.mem_map] at h
  have r0 : ∀ x : Int, (0 ≤ x ∧ x < ((2 : Nat) : Int) ∧ (x - ((0 : Nat) : Int)) % 2 = 0) → x = 0 := by
    intro x hx; omega
  rcases h with ⟨c, hc, e⟩ | ⟨c, hc, e⟩ | ⟨c, hc, e⟩ | ⟨c, hc, e⟩ | ⟨c, hc, e⟩ | ⟨c, hc, e⟩ <;>
    (obtain ⟨p, q, r, rfl⟩ := shape_grid3 hc
     simp only [List.cons.injEq, and_true] at e
     obtain ⟨rfl, rfl, rfl, rfl⟩ := e)
  · rw [mem_verts, mem_pyRange2] at hc
    simp only [par0, beq_iff_eq] at hc
    have hx := r0 p hc.1
    exact TK.first (by unfold R0; omega) hc.2.1 hc.2.2.1 hx (Or.inl ⟨rfl, hc.2.2.2⟩)
  · rw [mem_verts, mem_pyRange2] at hc
    simp only [par2, beq_iff_eq] at hc
    have hx := r0 p hc.1
    exact TK.first (by unfold R0; omega) hc.2.1 hc.2.2.1 hx (Or.inr (Or.inl ⟨rfl, hc.2.2.2⟩))
  · rw [mem_grid3_cons] at hc
    simp only [mem_pyRange2, par0, beq_iff_eq] at hc
    have hx := r0 p hc.1
    exact TK.first (by unfold R0; omega) (by unfold R0; omega) (by unfold R0; omega) hx
      (Or.inr (Or.inr (Or.inl ⟨by omega, Or.inl ⟨rfl, hc.2.2.2⟩⟩)))
  · rw [mem_grid3_cons] at hc
    simp only [mem_pyRange2, par2, beq_iff_eq] at hc
    have hx := r0 p hc.1
    exact TK.first (by unfold R0; omega) (by unfold R0; omega) (by unfold R0; omega) hx
      (Or.inr (Or.inr (Or.inl ⟨by omega, Or.inr ⟨rfl, hc.2.2.2⟩⟩)))
  · rw [mem_grid3_cons] at hc
    simp only [mem_pyRange2, par2, beq_iff_eq] at hc
    have hx := r0 p hc.1
    exact TK.first (by unfold R0; omega) (by unfold R0; omega) (by unfold R0; omega) hx
      (Or.inr (Or.inr (Or.inr ⟨by omega, by omega, Or.inl ⟨rfl, hc.2.2.2⟩⟩)))
  · rw [mem_grid3_cons] at hc
    simp only [mem_pyRange2, par0, beq_iff_eq] at hc
    have hx := r0 p hc.1
    exact TK.first (by unfold R0; omega) (by unfold R0; omega) (by unfold R0; omega) hx
      (Or.inr (Or.inr (Or.inr ⟨by omega, by omega, Or.inr ⟨rfl, hc.2.2.2⟩⟩)))

end mem

/-- the members of the selected family -/
theorem mem_selStabs_cases {Lx Ly Lz : Nat} (hx : 2 ≤ Lx) (hy : 2 ≤ Ly) (hz : 2 ≤ Lz) {s : Coord}
    (h : s ∈ selStabs Lx Ly Lz) :
    (∃ x y z, s = [x, y, z] ∧ CK Lx Ly Lz x y z) ∨
    (∃ a x y z, s = [a, x, y, z] ∧ TK Lx Ly Lz a x y z) := by
  unfold selStabs at h
  simp only [List.mem_append] at h
  rcases h with h | h | h | h
  · have hs : s ∈ grid3 (pyRange2 1 (2*Lx)) (pyRange2 1 (2*Ly)) (pyRange2 1 (2*Lz)) cubeKeep := by
      unfold selCubes at h; exact (List.mem_filter.mp h).1
    obtain ⟨x, y, z, rfl⟩ := shape_grid3 hs
    exact Or.inl ⟨x, y, z, rfl, (mem_selCubes_iff _ _ _ _ _ _).mp h⟩
  · have : ∃ a x y z, s = [a, x, y, z] := by
      unfold selBulk at h
      simp only [List.mem_append, List.mem_map] at h
      rcases h with ⟨c, hc, rfl⟩ | ⟨c, hc, rfl⟩ | ⟨c, hc, rfl⟩ <;>
        (obtain ⟨p, q, r, rfl⟩ := shape_grid3 hc; exact ⟨_, p, q, r, rfl⟩)
    obtain ⟨a, x, y, z, rfl⟩ := this
    exact Or.inr ⟨a, x, y, z, rfl, mem_selBulk hx h⟩
  · have : ∃ a x y z, s = [a, x, y, z] := by
      unfold selLast at h
      simp only [List.mem_append, List.mem_map, List.mem_filter] at h
      rcases h with ⟨c, hc, rfl⟩ | ⟨c, hc, rfl⟩ | ⟨⟨c, hc, rfl⟩, _⟩ <;>
        (obtain ⟨p, q, r, rfl⟩ := shape_grid3 hc; exact ⟨_, p, q, r, rfl⟩)
    obtain ⟨a, x, y, z, rfl⟩ := this
    exact Or.inr ⟨a, x, y, z, rfl, mem_selLast hx h⟩
  · have : ∃ a x y z, s = [a, x, y, z] := by
      unfold selFirst at h
      simp only [List.mem_append, List.mem_map] at h
      rcases h with ⟨c, hc, rfl⟩ | ⟨c, hc, rfl⟩ | ⟨c, hc, rfl⟩ | ⟨c, hc, rfl⟩ | ⟨c, hc, rfl⟩ | ⟨c, hc, rfl⟩ <;>
        (obtain ⟨p, q, r, rfl⟩ := shape_grid3 hc; exact ⟨_, p, q, r, rfl⟩)
    obtain ⟨a, x, y, z, rfl⟩ := this
    exact Or.inr ⟨a, x, y, z, rfl, mem_selFirst hx hy hz h⟩

theorem TK.st {Lx Ly Lz : Nat} {a x y z : Int} (h : TK Lx Ly Lz a x y z) : ST Lx Ly Lz a x y z := by
  obtain ⟨h1, h2, h3, h4⟩ := h
  refine ⟨?_, h1, h2, h3⟩
  unfold IsAxis; omega

theorem selStabs_sub {Lx Ly Lz : Nat} (hx : 2 ≤ Lx) (hy : 2 ≤ Ly) (hz : 2 ≤ Lz) {s : Coord}
    (h : s ∈ selStabs Lx Ly Lz) : s ∈ stabs Lx Ly Lz := by
  rcases mem_selStabs_cases hx hy hz h with ⟨x, y, z, rfl, hk⟩ | ⟨a, x, y, z, rfl, hk⟩
  · exact (mem_stabs_cube _ _ _ _ _ _).mpr hk.1
  · exact (mem_stabs_tri _ _ _ _ _ _ _).mpr hk.st

end Panqec.RhombicToricCode
