/-
RhombicToricCode lattice model: the logical operators in closed form (three sheets of X through
the origin, three lines of parallel Z edges), their commutation with the stabilizers, and the
pairing table (`X_i · Z_j`: one shared qubit for `i = j`, none or a whole line of `L` — an even
number — otherwise).  Sizes even `≥ 2`.
-/
import PanqecVerif.Proofs.LatRhombicToricCode2
open Panqec Panqec.Lat3Db Panqec.Rhombic
open Panqec.XCubeCode (up dn up_spec dn_spec)
namespace Panqec.RhombicToricCode

/-! ### key lists -/

/-- the keys written by the double loop of one sheet -/
def sheetLocs (A B : Nat) (f : Int → Int → Coord) : List Coord :=
  (pyRange A).flatMap fun a => ((pyRange B).filter fun b => (a + b) % 2 == 1).map fun b => f a b

def sheetX (Ly Lz : Nat) : List Coord := sheetLocs (2*Ly) (2*Lz) fun y z => [0, y, z]
def sheetY (Lx Lz : Nat) : List Coord := sheetLocs (2*Lx) (2*Lz) fun x z => [x, 0, z]
def sheetZ (Lx Ly : Nat) : List Coord := sheetLocs (2*Lx) (2*Ly) fun x y => [x, y, 0]

def lineX (Lx : Nat) : List Coord := (pyRange2 0 (2*Lx)).map fun x => [x, 1, 0]
def lineY (Ly : Nat) : List Coord := (pyRange2 0 (2*Ly)).map fun y => [1, y, 0]
def lineZ (Lz : Nat) : List Coord := (pyRange2 0 (2*Lz)).map fun z => [0, 1, z]

theorem mem_sheetLocs (A B : Nat) (f : Int → Int → Coord) (c : Coord) :
    c ∈ sheetLocs A B f ↔ ∃ a b : Int, (0 ≤ a ∧ a < A) ∧ (0 ≤ b ∧ b < B) ∧ (a + b) % 2 = 1 ∧ c = f a b := by
  unfold sheetLocs
  simp only [List.mem_flatMap, List.mem_map, List.mem_filter, mem_pyRange, beq_iff_eq]
  constructor
  · rintro ⟨a, ha, b, ⟨hb, hab⟩, rfl⟩; exact ⟨a, b, ha, hb, hab, rfl⟩
  · rintro ⟨a, b, ha, hb, hab, rfl⟩; exact ⟨a, ha, b, ⟨hb, hab⟩, rfl⟩

theorem nodup_sheetLocs (A B : Nat) (f : Int → Int → Coord)
    (hf : ∀ a b a' b', f a b = f a' b' → a = a' ∧ b = b') : (sheetLocs A B f).Nodup := by
  unfold sheetLocs
  rw [List.nodup_flatMap]
  refine ⟨fun a _ => ((nodup_pyRange B).filter _).map (fun b b' h => (hf a b a b' h).2), ?_⟩
  refine List.Pairwise.imp_of_mem ?_ (nodup_pyRange A)
  intro a a' _ _ hne
  simp only [Function.onFun, List.Disjoint, List.mem_map]
  rintro c ⟨b, _, rfl⟩ ⟨b', _, h⟩
  exact hne (hf a' b' a b h).1.symm

theorem mem_sheetX (Ly Lz : Nat) (p q r : Int) :
    [p, q, r] ∈ sheetX Ly Lz ↔ p = 0 ∧ (0 ≤ q ∧ q < 2*Ly) ∧ (0 ≤ r ∧ r < 2*Lz) ∧ (q + r) % 2 = 1 := by
  unfold sheetX
  rw [mem_sheetLocs]
  constructor
  · rintro ⟨a, b, ha, hb, hab, h⟩
    simp only [List.cons.injEq, and_true] at h
    obtain ⟨rfl, rfl, rfl⟩ := h
    exact ⟨rfl, by omega, by omega, hab⟩
  · rintro ⟨rfl, hq, hr, hqr⟩; exact ⟨q, r, by omega, by omega, hqr, rfl⟩

theorem mem_sheetY (Lx Lz : Nat) (p q r : Int) :
    [p, q, r] ∈ sheetY Lx Lz ↔ q = 0 ∧ (0 ≤ p ∧ p < 2*Lx) ∧ (0 ≤ r ∧ r < 2*Lz) ∧ (p + r) % 2 = 1 := by
  unfold sheetY
  rw [mem_sheetLocs]
  constructor
  · rintro ⟨a, b, ha, hb, hab, h⟩
    simp only [List.cons.injEq, and_true] at h
    obtain ⟨rfl, rfl, rfl⟩ := h
    exact ⟨rfl, by omega, by omega, hab⟩
  · rintro ⟨rfl, hq, hr, hqr⟩; exact ⟨p, r, by omega, by omega, hqr, rfl⟩

theorem mem_sheetZ (Lx Ly : Nat) (p q r : Int) :
    [p, q, r] ∈ sheetZ Lx Ly ↔ r = 0 ∧ (0 ≤ p ∧ p < 2*Lx) ∧ (0 ≤ q ∧ q < 2*Ly) ∧ (p + q) % 2 = 1 := by
  unfold sheetZ
  rw [mem_sheetLocs]
  constructor
  · rintro ⟨a, b, ha, hb, hab, h⟩
    simp only [List.cons.injEq, and_true] at h
    obtain ⟨rfl, rfl, rfl⟩ := h
    exact ⟨rfl, by omega, by omega, hab⟩
  · rintro ⟨rfl, hq, hr, hqr⟩; exact ⟨p, q, by omega, by omega, hqr, rfl⟩

theorem nodup_sheetX (Ly Lz : Nat) : (sheetX Ly Lz).Nodup :=
  nodup_sheetLocs _ _ _ (fun a b a' b' h => by simpa using h)
theorem nodup_sheetY (Lx Lz : Nat) : (sheetY Lx Lz).Nodup :=
  nodup_sheetLocs _ _ _ (fun a b a' b' h => by simpa using h)
theorem nodup_sheetZ (Lx Ly : Nat) : (sheetZ Lx Ly).Nodup :=
  nodup_sheetLocs _ _ _ (fun a b a' b' h => by simpa using h)

theorem mem_lineX (Lx : Nat) (p q r : Int) : [p, q, r] ∈ lineX Lx ↔ R0 (2*Lx) p ∧ q = 1 ∧ r = 0 := by
  unfold lineX; simp only [List.mem_map, mem_pyRange2_0, List.cons.injEq, and_true]
  constructor
  · rintro ⟨t, ht, rfl, rfl, rfl⟩; exact ⟨ht, rfl, rfl⟩
  · rintro ⟨ht, rfl, rfl⟩; exact ⟨p, ht, rfl, rfl, rfl⟩
theorem mem_lineY (Ly : Nat) (p q r : Int) : [p, q, r] ∈ lineY Ly ↔ p = 1 ∧ R0 (2*Ly) q ∧ r = 0 := by
  unfold lineY; simp only [List.mem_map, mem_pyRange2_0, List.cons.injEq, and_true]
  constructor
  · rintro ⟨t, ht, rfl, rfl, rfl⟩; exact ⟨rfl, ht, rfl⟩
  · rintro ⟨rfl, ht, rfl⟩; exact ⟨q, ht, rfl, rfl, rfl⟩
theorem mem_lineZ (Lz : Nat) (p q r : Int) : [p, q, r] ∈ lineZ Lz ↔ p = 0 ∧ q = 1 ∧ R0 (2*Lz) r := by
  unfold lineZ; simp only [List.mem_map, mem_pyRange2_0, List.cons.injEq, and_true]
  constructor
  · rintro ⟨t, ht, rfl, rfl, rfl⟩; exact ⟨rfl, rfl, ht⟩
  · rintro ⟨rfl, rfl, ht⟩; exact ⟨r, ht, rfl, rfl, rfl⟩

theorem nodup_lineX (Lx : Nat) : (lineX Lx).Nodup := (nodup_pyRange2 _ _).map (fun a b h => by simpa using h)
theorem nodup_lineY (Ly : Nat) : (lineY Ly).Nodup := (nodup_pyRange2 _ _).map (fun a b h => by simpa using h)
theorem nodup_lineZ (Lz : Nat) : (lineZ Lz).Nodup := (nodup_pyRange2 _ _).map (fun a b h => by simpa using h)

theorem logX_eq (Lx Ly Lz : Nat) : logX Lx Ly Lz =
    [constOp (sheetX Ly Lz) Pauli.X, constOp (sheetY Lx Lz) Pauli.X, constOp (sheetZ Lx Ly) Pauli.X] := by
  simp only [logX, sheet]
  congr 1
  · exact dictOf_eq _ _ (nodup_sheetX Ly Lz)
  · congr 1
    · exact dictOf_eq _ _ (nodup_sheetY Lx Lz)
    · congr 1
      exact dictOf_eq _ _ (nodup_sheetZ Lx Ly)

theorem logZ_eq (Lx Ly Lz : Nat) : logZ Lx Ly Lz =
    [constOp (lineX Lx) Pauli.Z, constOp (lineY Ly) Pauli.Z, constOp (lineZ Lz) Pauli.Z] := by
  simp only [logZ]
  congr 1
  · exact dictOf_eq _ _ (nodup_lineX Lx)
  · congr 1
    · exact dictOf_eq _ _ (nodup_lineY Ly)
    · congr 1
      exact dictOf_eq _ _ (nodup_lineZ Lz)

/-- key list of a logical X -/
def IsSheet (Lx Ly Lz : Nat) (K : List Coord) : Prop := K = sheetX Ly Lz ∨ K = sheetY Lx Lz ∨ K = sheetZ Lx Ly
/-- key list of a logical Z -/
def IsLine (Lx Ly Lz : Nat) (K : List Coord) : Prop := K = lineX Lx ∨ K = lineY Ly ∨ K = lineZ Lz

theorem IsSheet.nodup {Lx Ly Lz : Nat} {K : List Coord} (h : IsSheet Lx Ly Lz K) : K.Nodup := by
  rcases h with rfl | rfl | rfl
  · exact nodup_sheetX _ _
  · exact nodup_sheetY _ _
  · exact nodup_sheetZ _ _

theorem IsLine.nodup {Lx Ly Lz : Nat} {K : List Coord} (h : IsLine Lx Ly Lz K) : K.Nodup := by
  rcases h with rfl | rfl | rfl
  · exact nodup_lineX _
  · exact nodup_lineY _
  · exact nodup_lineZ _

theorem IsSheet.qubits {Lx Ly Lz : Nat} (hx : 1 ≤ Lx) (hy : 1 ≤ Ly) (hz : 1 ≤ Lz) {K : List Coord}
    (h : IsSheet Lx Ly Lz K) : ∀ q ∈ K, isQubit Lx Ly Lz q = true := by
  intro q hq
  rcases h with rfl | rfl | rfl
  · unfold sheetX at hq
    rw [mem_sheetLocs] at hq
    obtain ⟨a, b, ha, hb, hab, rfl⟩ := hq
    rw [isQubit_iff]; unfold QX QY QZ R0 R1; omega
  · unfold sheetY at hq
    rw [mem_sheetLocs] at hq
    obtain ⟨a, b, ha, hb, hab, rfl⟩ := hq
    rw [isQubit_iff]; unfold QX QY QZ R0 R1; omega
  · unfold sheetZ at hq
    rw [mem_sheetLocs] at hq
    obtain ⟨a, b, ha, hb, hab, rfl⟩ := hq
    rw [isQubit_iff]; unfold QX QY QZ R0 R1; omega

theorem IsLine.qubits {Lx Ly Lz : Nat} (hx : 1 ≤ Lx) (hy : 1 ≤ Ly) (hz : 1 ≤ Lz) {K : List Coord}
    (h : IsLine Lx Ly Lz K) : ∀ q ∈ K, isQubit Lx Ly Lz q = true := by
  intro q hq
  rcases h with rfl | rfl | rfl
  · unfold lineX at hq
    rw [List.mem_map] at hq
    obtain ⟨t, ht, rfl⟩ := hq
    rw [mem_pyRange2_0] at ht
    rw [isQubit_iff]; unfold QX QY QZ R0 R1; unfold R0 at ht; omega
  · unfold lineY at hq
    rw [List.mem_map] at hq
    obtain ⟨t, ht, rfl⟩ := hq
    rw [mem_pyRange2_0] at ht
    rw [isQubit_iff]; unfold QX QY QZ R0 R1; unfold R0 at ht; omega
  · unfold lineZ at hq
    rw [List.mem_map] at hq
    obtain ⟨t, ht, rfl⟩ := hq
    rw [mem_pyRange2_0] at ht
    rw [isQubit_iff]; unfold QX QY QZ R0 R1; unfold R0 at ht; omega

/-! ### a sheet against a triangle: two legs or none -/

theorem tri_sheet_even (Lx Ly Lz : Nat) (hLx : 1 ≤ Lx) (hLy : 1 ≤ Ly) (hLz : 1 ≤ Lz)
    (a vx vy vz : Int) (hv : ST Lx Ly Lz a vx vy vz) (K : List Coord) (hK : IsSheet Lx Ly Lz K) :
    ovl (triKeys Lx Ly Lz a vx vy vz) K % 2 = 0 := by
  obtain ⟨ha, hvx, hvy, hvz⟩ := hv
  unfold triKeys
  rw [ovl_filter_left _ _ _ (hK.qubits hLx hLy hLz)]
  have h1 := step_spec (2*Lx) vx (sgnX a) (by omega) hvx (sgnX_pm a)
  have h2 := step_spec (2*Ly) vy (sgnY a) (by omega) hvy (sgnY_pm a)
  have h3 := step_spec (2*Lz) vz (sgnZ a vx vy vz) (by omega) hvz (sgnZ_pm a vx vy vz)
  unfold triLocs
  simp only [ovl_cons_ind, ovl_nil]
  generalize step (2*Lx) vx (sgnX a) = px at *
  generalize step (2*Ly) vy (sgnY a) = py at *
  generalize step (2*Lz) vz (sgnZ a vx vy vz) = pz at *
  unfold R0 at hvx hvy hvz; unfold R1 at h1 h2 h3
  rcases hK with rfl | rfl | rfl
  · have e1 : ¬ [px, vy, vz] ∈ sheetX Ly Lz := by rw [mem_sheetX]; omega
    have e2 : [vx, py, vz] ∈ sheetX Ly Lz ↔ vx = 0 := by rw [mem_sheetX]; omega
    have e3 : [vx, vy, pz] ∈ sheetX Ly Lz ↔ vx = 0 := by rw [mem_sheetX]; omega
    rw [ind_neg e1, ind_congr e2, ind_congr e3]; omega
  · have e1 : [px, vy, vz] ∈ sheetY Lx Lz ↔ vy = 0 := by rw [mem_sheetY]; omega
    have e2 : ¬ [vx, py, vz] ∈ sheetY Lx Lz := by rw [mem_sheetY]; omega
    have e3 : [vx, vy, pz] ∈ sheetY Lx Lz ↔ vy = 0 := by rw [mem_sheetY]; omega
    rw [ind_congr e1, ind_neg e2, ind_congr e3]; omega
  · have e1 : [px, vy, vz] ∈ sheetZ Lx Ly ↔ vz = 0 := by rw [mem_sheetZ]; omega
    have e2 : [vx, py, vz] ∈ sheetZ Lx Ly ↔ vz = 0 := by rw [mem_sheetZ]; omega
    have e3 : ¬ [vx, vy, pz] ∈ sheetZ Lx Ly := by rw [mem_sheetZ]; omega
    rw [ind_congr e1, ind_congr e2, ind_neg e3]; omega

/-! ### a line against a cube: two parallel edges or none -/

theorem cube_even_free_x (Lx Ly Lz : Nat) (x y z : Int) (K : List Coord)
    (h1 : ∀ q r, [up (2*Lx) x, q, r] ∈ K ↔ [x - 1, q, r] ∈ K) (h2 : ∀ q r, [x, q, r] ∉ K) :
    ovl (cubeLocs Lx Ly Lz x y z) K % 2 = 0 := by
  simp only [cubeLocs, ovl_cons_ind, ovl_nil, ind_neg (h2 _ _), ind_congr (h1 _ _)]
  omega

theorem cube_even_free_y (Lx Ly Lz : Nat) (x y z : Int) (K : List Coord)
    (h1 : ∀ p r, [p, up (2*Ly) y, r] ∈ K ↔ [p, y - 1, r] ∈ K) (h2 : ∀ p r, [p, y, r] ∉ K) :
    ovl (cubeLocs Lx Ly Lz x y z) K % 2 = 0 := by
  simp only [cubeLocs, ovl_cons_ind, ovl_nil, ind_neg (h2 _ _), ind_congr (h1 _ _)]
  omega

theorem cube_even_free_z (Lx Ly Lz : Nat) (x y z : Int) (K : List Coord)
    (h1 : ∀ p q, [p, q, up (2*Lz) z] ∈ K ↔ [p, q, z - 1] ∈ K) (h2 : ∀ p q, [p, q, z] ∉ K) :
    ovl (cubeLocs Lx Ly Lz x y z) K % 2 = 0 := by
  simp only [cubeLocs, ovl_cons_ind, ovl_nil, ind_neg (h2 _ _), ind_congr (h1 _ _)]
  omega

theorem cube_line_even (Lx Ly Lz : Nat) (hLx : 1 ≤ Lx) (hLy : 1 ≤ Ly) (hLz : 1 ≤ Lz)
    (cx cy cz : Int) (hc : SC Lx Ly Lz cx cy cz) (K : List Coord) (hK : IsLine Lx Ly Lz K) :
    ovl (cubeKeys Lx Ly Lz cx cy cz) K % 2 = 0 := by
  obtain ⟨hcx, hcy, hcz, _⟩ := hc
  unfold cubeKeys
  rw [ovl_filter_left _ _ _ (hK.qubits hLx hLy hLz)]
  have ux := up_spec (2*Lx) cx
  have uy := up_spec (2*Ly) cy
  have uz := up_spec (2*Lz) cz
  unfold R1 at hcx hcy hcz
  rcases hK with rfl | rfl | rfl
  · apply cube_even_free_x <;> intros <;> simp only [mem_lineX] <;> unfold R0 <;> omega
  · apply cube_even_free_y <;> intros <;> simp only [mem_lineY] <;> unfold R0 <;> omega
  · apply cube_even_free_z <;> intros <;> simp only [mem_lineZ] <;> unfold R0 <;> omega

/-! ### the pairing table -/

theorem ovl_map_line (f : Int → Coord) (l : List Int) (K : List Coord) :
    ovl (l.map f) K = l.countP fun t => K.contains (f t) := by
  unfold ovl; rw [List.countP_map]; rfl

theorem countP_all (l : List Int) (p : Int → Bool) (h : ∀ t ∈ l, p t = true) : l.countP p = l.length :=
  List.countP_eq_length.mpr h


theorem pair_XX (Lx Ly Lz : Nat) (_hLx : 1 ≤ Lx) (_hLy : 1 ≤ Ly) (_hLz : 1 ≤ Lz) : ovl (lineX Lx) (sheetX Ly Lz) = 1 := by
  unfold lineX; rw [ovl_map_line]
  apply countP_iff_point _ 0 _ (nodup_pyRange2 _ _)
  · rw [mem_pyRange2_0]; unfold R0; omega
  · intro t ht; rw [mem_pyRange2_0] at ht; unfold R0 at ht
    simp only [List.contains_iff_mem, mem_sheetX]; omega

theorem pair_XY (Lx Ly Lz : Nat) (_hLx : 1 ≤ Lx) (_hLy : 1 ≤ Ly) (_hLz : 1 ≤ Lz) : ovl (lineY Ly) (sheetX Ly Lz) = 0 := by
  unfold lineY; rw [ovl_map_line]
  apply countP_iff_none
  intro t _; simp only [List.contains_iff_mem, mem_sheetX]; omega

theorem pair_XZ (Lx Ly Lz : Nat) (_hLx : 1 ≤ Lx) (_hLy : 1 ≤ Ly) (_hLz : 1 ≤ Lz) : ovl (lineZ Lz) (sheetX Ly Lz) = Lz := by
  unfold lineZ; rw [ovl_map_line, countP_all, length_pyRange2]
  · omega
  · intro t ht; rw [mem_pyRange2_0] at ht; unfold R0 at ht
    simp only [List.contains_iff_mem, mem_sheetX, true_and]; omega

theorem pair_YX (Lx Ly Lz : Nat) (_hLx : 1 ≤ Lx) (_hLy : 1 ≤ Ly) (_hLz : 1 ≤ Lz) : ovl (lineX Lx) (sheetY Lx Lz) = 0 := by
  unfold lineX; rw [ovl_map_line]
  apply countP_iff_none
  intro t _; simp only [List.contains_iff_mem, mem_sheetY]; omega

theorem pair_YY (Lx Ly Lz : Nat) (_hLx : 1 ≤ Lx) (_hLy : 1 ≤ Ly) (_hLz : 1 ≤ Lz) : ovl (lineY Ly) (sheetY Lx Lz) = 1 := by
  unfold lineY; rw [ovl_map_line]
  apply countP_iff_point _ 0 _ (nodup_pyRange2 _ _)
  · rw [mem_pyRange2_0]; unfold R0; omega
  · intro t ht; rw [mem_pyRange2_0] at ht; unfold R0 at ht
    simp only [List.contains_iff_mem, mem_sheetY]; omega

theorem pair_YZ (Lx Ly Lz : Nat) (_hLx : 1 ≤ Lx) (_hLy : 1 ≤ Ly) (_hLz : 1 ≤ Lz) : ovl (lineZ Lz) (sheetY Lx Lz) = 0 := by
  unfold lineZ; rw [ovl_map_line]
  apply countP_iff_none
  intro t _; simp only [List.contains_iff_mem, mem_sheetY]; omega

theorem pair_ZX (Lx Ly Lz : Nat) (_hLx : 1 ≤ Lx) (_hLy : 1 ≤ Ly) (_hLz : 1 ≤ Lz) : ovl (lineX Lx) (sheetZ Lx Ly) = Lx := by
  unfold lineX; rw [ovl_map_line, countP_all, length_pyRange2]
  · omega
  · intro t ht; rw [mem_pyRange2_0] at ht; unfold R0 at ht
    simp only [List.contains_iff_mem, mem_sheetZ, true_and]; omega

theorem pair_ZY (Lx Ly Lz : Nat) (_hLx : 1 ≤ Lx) (_hLy : 1 ≤ Ly) (_hLz : 1 ≤ Lz) : ovl (lineY Ly) (sheetZ Lx Ly) = Ly := by
  unfold lineY; rw [ovl_map_line, countP_all, length_pyRange2]
  · omega
  · intro t ht; rw [mem_pyRange2_0] at ht; unfold R0 at ht
    simp only [List.contains_iff_mem, mem_sheetZ, true_and]; omega

theorem pair_ZZ (Lx Ly Lz : Nat) (_hLx : 1 ≤ Lx) (_hLy : 1 ≤ Ly) (_hLz : 1 ≤ Lz) : ovl (lineZ Lz) (sheetZ Lx Ly) = 1 := by
  unfold lineZ; rw [ovl_map_line]
  apply countP_iff_point _ 0 _ (nodup_pyRange2 _ _)
  · rw [mem_pyRange2_0]; unfold R0; omega
  · intro t ht; rw [mem_pyRange2_0] at ht; unfold R0 at ht
    simp only [List.contains_iff_mem, mem_sheetZ]; omega


theorem anti_sheet_line (S L : List Coord) (hS : S.Nodup) (hL : L.Nodup) :
    opAntiCount (constOp S Pauli.X) (constOp L Pauli.Z) = ovl L S := by
  rw [opAntiCount_constOp]
  have : Pauli.anti Pauli.X Pauli.Z = true := by decide
  rw [if_pos this, ovl_comm _ _ hS hL]

theorem pairing (Lx Ly Lz : Nat) (hLx : 1 ≤ Lx) (hLy : 1 ≤ Ly) (hLz : 1 ≤ Lz)
    (hex : Lx % 2 = 0) (hey : Ly % 2 = 0) (hez : Lz % 2 = 0) (i j : Nat)
    (hi : i < (logX Lx Ly Lz).length) (hj : j < (logZ Lx Ly Lz).length) :
    opAntiCount ((logX Lx Ly Lz).getD i []) ((logZ Lx Ly Lz).getD j []) % 2 = if i = j then 1 else 0 := by
  rw [logX_eq] at hi ⊢
  rw [logZ_eq] at hj ⊢
  simp only [List.length_cons, List.length_nil] at hi hj
  have hi' : i = 0 ∨ i = 1 ∨ i = 2 := by omega
  have hj' : j = 0 ∨ j = 1 ∨ j = 2 := by omega
  rcases hi' with rfl | rfl | rfl <;> rcases hj' with rfl | rfl | rfl <;>
    simp only [List.getD_cons_zero, List.getD_cons_succ] <;>
    rw [anti_sheet_line _ _ (by first | exact nodup_sheetX _ _ | exact nodup_sheetY _ _ | exact nodup_sheetZ _ _)
      (by first | exact nodup_lineX _ | exact nodup_lineY _ | exact nodup_lineZ _)]
  · rw [pair_XX Lx Ly Lz hLx hLy hLz]; rfl
  · rw [pair_XY Lx Ly Lz hLx hLy hLz]; rfl
  · rw [pair_XZ Lx Ly Lz hLx hLy hLz]; simpa using hez
  · rw [pair_YX Lx Ly Lz hLx hLy hLz]; rfl
  · rw [pair_YY Lx Ly Lz hLx hLy hLz]; rfl
  · rw [pair_YZ Lx Ly Lz hLx hLy hLz]; rfl
  · rw [pair_ZX Lx Ly Lz hLx hLy hLz]; simpa using hex
  · rw [pair_ZY Lx Ly Lz hLx hLy hLz]; simpa using hey
  · rw [pair_ZZ Lx Ly Lz hLx hLy hLz]; rfl

end Panqec.RhombicToricCode
