/-
Color666ToricCode, all square sizes `L ≥ 1`, C17 part D: the closed straight lines.

* `line_face_even` — a line meets every face in 0 or 2 qubits: a single-letter operator on a line
  commutes with every generator.
* `line_zig_parity` — the number of qubits a line `lineK f c m` shares with a zig-zag
  `zigK f' c' t'` is odd exactly when the frames differ and the colour offsets differ:
  - same frame, same offset: disjoint (part C);
  - same frame, other offset: block `i` contributes `[L ∣ 2i + K] + [L ∣ 2i + 1 + K]`, and
    `Σ_{k < 2L} [L ∣ k + K]` is twice `Σ_{k < L}` (the line winds twice around the torus in the
    direction of the zig-zag);
  - other frame, same offset: the line runs along an edge of the zig-zag: each block contributes
    0 or 2;
  - other frame, other offset: block `i` contributes `[L ∣ i + K]`: exactly one crossing.
-/
import PanqecVerif.Proofs.DistColor666ToricCodeC

set_option linter.unusedVariables false

namespace Panqec.Color666ToricCode
open Panqec.Lat2D Panqec.Color

/-! ### counting residues -/

/-- indicator of `x ≡ 0 (mod L)` -/
def dv (L : Nat) (x : Int) : Nat := if x % (L : Int) = 0 then 1 else 0

theorem dv_add_period (L : Nat) (x : Int) : dv L (x + (L : Int)) = dv L x := by
  unfold dv; rw [Int.add_emod_right]

theorem dv_neg (L : Nat) (x : Int) : dv L (-x) = dv L x := by
  unfold dv
  have : (-x) % (L : Int) = 0 ↔ x % (L : Int) = 0 := by
    rw [← Int.dvd_iff_emod_eq_zero, ← Int.dvd_iff_emod_eq_zero, Int.dvd_neg]
  by_cases h : x % (L : Int) = 0
  · rw [if_pos h, if_pos (this.mpr h)]
  · rw [if_neg h, if_neg (fun h' => h (this.mp h'))]

theorem rsum_split (f : Nat → Nat) (A : Nat) : ∀ B : Nat,
    rsum (A + B) f = rsum A f + rsum B (fun k => f (A + k))
  | 0 => rfl
  | B + 1 => by
    show rsum (A + B) f + f (A + B) = rsum A f + (rsum B (fun k => f (A + k)) + f (A + B))
    rw [rsum_split f A B]; omega

theorem rsum_double (f : Nat → Nat) : ∀ L : Nat,
    rsum L (fun i => f (2 * i) + f (2 * i + 1)) = rsum (2 * L) f
  | 0 => rfl
  | L + 1 => by
    show rsum L (fun i => f (2 * i) + f (2 * i + 1)) + (f (2 * L) + f (2 * L + 1)) =
      rsum (2 * L) f + f (2 * L) + f (2 * L + 1)
    rw [rsum_double f L]; omega

/-- a line that winds twice: the two residues of a block run over `2L` consecutive integers -/
theorem rsum_pair_even (L : Nat) (K : Int) :
    rsum L (fun i => dv L (2 * (i : Int) + K) + dv L (2 * (i : Int) + 1 + K)) % 2 = 0 := by
  have h1 := rsum_double (fun k => dv L ((k : Int) + K)) L
  have e : rsum L (fun i => dv L (2 * (i : Int) + K) + dv L (2 * (i : Int) + 1 + K)) =
      rsum L (fun i => dv L (((2 * i : Nat) : Int) + K) + dv L (((2 * i + 1 : Nat) : Int) + K)) := by
    apply rsum_congr; intro i _; push_cast; rfl
  rw [e, h1, show 2 * L = L + L by omega, rsum_split]
  have e2 : rsum L (fun k => dv L (((L + k : Nat) : Int) + K)) =
      rsum L (fun k => dv L ((k : Int) + K)) := by
    apply rsum_congr; intro k _
    rw [show ((L + k : Nat) : Int) + K = (k : Int) + K + (L : Int) by push_cast; ring,
      dv_add_period]
  rw [e2]; omega

theorem rsum_single (i0 : Nat) : ∀ L : Nat, i0 < L →
    rsum L (fun i => if i = i0 then 1 else 0) = 1
  | 0, h => by omega
  | L + 1, h => by
    show rsum L (fun i => if i = i0 then 1 else 0) + (if L = i0 then 1 else 0) = 1
    by_cases e : L = i0
    · rw [if_pos e]
      have : rsum L (fun i => if i = i0 then 1 else 0) = rsum L (fun _ => 0) :=
        rsum_congr L (fun j hj => by rw [if_neg (by omega)])
      rw [this]
      have : rsum L (fun _ => 0) % 2 = 0 := rsum_even L (fun _ _ => rfl)
      have h0 : ∀ n : Nat, rsum n (fun _ => 0) = 0 := by
        intro n; induction n with
        | zero => rfl
        | succ n ih => show rsum n (fun _ => 0) + 0 = 0; rw [ih]
      rw [h0]
    · rw [if_neg e, rsum_single i0 L (by omega)]

/-- exactly one `i < L` has `i + K ≡ 0 (mod L)` -/
theorem rsum_dv_one {L : Nat} (hL : 1 ≤ L) (K : Int) :
    rsum L (fun i => dv L ((i : Int) + K)) = 1 := by
  have h0 := Int.emod_nonneg (-K) (show (L : Int) ≠ 0 by omega)
  have h1 := Int.emod_lt_of_pos (-K) (show (0 : Int) < (L : Int) by omega)
  have hz : (((-K) % (L : Int)) + K) % (L : Int) = 0 := by
    rw [Int.add_emod, Int.emod_emod, ← Int.add_emod]
    simp
  generalize (-K) % (L : Int) = r at h0 h1 hz
  rw [← rsum_single r.toNat L (by omega)]
  apply rsum_congr
  intro i hi
  unfold dv
  by_cases e : i = r.toNat
  · rw [if_pos e, e, Int.toNat_of_nonneg h0, if_pos hz]
  · rw [if_neg e, if_neg]
    intro h
    have hd : ((i : Int) - r) % (L : Int) = 0 := by
      have : (i : Int) - r = ((i : Int) + K) - (r + K) := by ring
      rw [this, Int.sub_emod, h, hz]; simp
    have := eq_zero_of_emod hd (by omega) (by omega)
    omega

/-! ### a line commutes with every generator -/

theorem onLine_congr {L : Nat} {c m a j a' j' : Int} (e : a + 2 * j = a' + 2 * j') :
    OnLine L c m a j ↔ OnLine L c m a' j' := by
  unfold OnLine
  rw [show a + 2 * j - 3 * m - 2 * c - 2 = a' + 2 * j' - 3 * m - 2 * c - 2 by omega]

/-- a face and a line share 0 or 2 qubits -/
theorem line_face_even {L : Nat} (hL : 1 ≤ L) (f : Bool) (c m : Int) {x y : Int}
    (hf : IsF L x y) : interCount (supp L x y) (lineK L f c m) % 2 = 0 := by
  obtain ⟨a, j, hs⟩ := faceF_of_isF hL f hf
  unfold interCount
  rw [hs]
  unfold cornersF
  simp only [List.countP_cons, List.countP_nil, List.contains_eq_mem, decide_eq_true_eq,
    fR_mem_lineK hL, fL_mem_lineK hL]
  simp only [onLine_congr (L := L) (c := c) (m := m)
      (show a + 1 + 2 * (j - 1) = a - 1 + 2 * j by ring),
    onLine_congr (L := L) (c := c) (m := m) (show a - 1 + 2 * (j + 1) = a + 1 + 2 * j by ring)]
  by_cases h1 : OnLine L c m a j <;> by_cases h2 : OnLine L c m (a + 1) j <;>
    by_cases h3 : OnLine L c m (a - 1) j <;> simp [h1, h2, h3]

/-! ### a line and a zig-zag -/

/-- `a + 2j − 3m − 2c − 2 = 3w`: on the line iff `L ∣ w` -/
theorem onLine_dv {L : Nat} (hL : 1 ≤ L) {c m a j w : Int}
    (e : a + 2 * j - 3 * m - 2 * c - 2 = 3 * w) :
    (if OnLine L c m a j then 1 else 0) = dv L w := by
  have key : OnLine L c m a j ↔ w % (L : Int) = 0 := by
    unfold OnLine; rw [e, cg_three_mul hL, Int.dvd_iff_emod_eq_zero]
  unfold dv
  by_cases h : OnLine L c m a j
  · rw [if_pos h, if_pos (key.mp h)]
  · rw [if_neg h, if_neg (fun h' => h (key.mpr h'))]

/-- `a + 2j − 3m − 2c − 2 ≢ 0 (mod 3)`: not on the line -/
theorem onLine_no {L : Nat} {c m a j w r : Int}
    (e : a + 2 * j - 3 * m - 2 * c - 2 = 3 * w + r) (hr : r = 1 ∨ r = 2) :
    (if OnLine L c m a j then 1 else 0) = 0 := by
  rw [if_neg]
  intro h
  have := Cg.mod3 h
  omega

/-- the shared qubits, block by block -/
theorem inter_zig_line (L : Nat) (f' f : Bool) (c' t' c m : Int) :
    interCount (zigK L f' c' t') (lineK L f c m) =
      rsum L (fun i =>
        (if fR L f' t' (t' + c' + 3 * (i : Int)) ∈ lineK L f c m then 1 else 0)
        + (if fL L f' (t' + 1) (t' + c' + 3 * (i : Int)) ∈ lineK L f c m then 1 else 0)
        + (if fL L f' (t' + 1) (t' + c' + 3 * (i : Int) + 1) ∈ lineK L f c m then 1 else 0)
        + (if fR L f' t' (t' + c' + 3 * (i : Int) + 2) ∈ lineK L f c m then 1 else 0)) := by
  unfold interCount zigK
  rw [countP_flat]
  apply rsum_congr
  intro i _
  simp only [List.countP_cons, List.countP_nil, List.contains_eq_mem, decide_eq_true_eq]
  omega

/-! the other frame in the coordinates of this one -/

theorem fR_true (L : Nat) (a j : Int) : fR L true a j = fR L false (j - 1) (-a - j) := by
  simp [fR]
theorem fL_true (L : Nat) (a j : Int) : fL L true a j = fL L false (j + 1) (-a - j) := by
  simp [fL]
theorem fR_false (L : Nat) (a j : Int) : fR L false a j = fR L true (-a - j - 1) (a + 1) := by
  simp only [fR, Bool.false_eq_true, if_false, if_true]
  rw [show a + 1 - 1 = a by ring, show -(-a - j - 1) - (a + 1) = j by ring]
theorem fL_false (L : Nat) (a j : Int) : fL L false a j = fL L true (-a - j + 1) (a - 1) := by
  simp only [fL, Bool.false_eq_true, if_false, if_true]
  rw [show a - 1 + 1 = a by ring, show -(-a - j + 1) - (a - 1) = j by ring]

theorem four_terms {x1 x2 x3 x4 n1 n2 n3 n4 : Nat} (h1 : x1 = n1) (h2 : x2 = n2) (h3 : x3 = n3)
    (h4 : x4 = n4) : x1 + x2 + x3 + x4 = n1 + n2 + n3 + n4 := by rw [h1, h2, h3, h4]

theorem inter_zero (A B : List Coord) (hu : ∀ q ∈ A, q ∈ B → False) : interCount A B = 0 := by
  unfold interCount
  rw [List.countP_eq_zero]
  intro a ha h
  exact hu a ha (by simpa using h)

/-- same frame, different colour offsets: even -/
theorem line_zig_same {L : Nat} (hL : 1 ≤ L) (f : Bool) {c c' : Int}
    (h : (c = 0 ∧ c' = 1) ∨ (c = 1 ∧ c' = 0)) (t' m : Int) :
    interCount (zigK L f c' t') (lineK L f c m) % 2 = 0 := by
  rw [inter_zig_line]
  simp only [fR_mem_lineK hL, fL_mem_lineK hL]
  have step : ∀ (K : Int) (g : Nat → Nat),
      (∀ i : Nat, g i = dv L (2 * (i : Int) + K) + dv L (2 * (i : Int) + 1 + K)) →
      rsum L g % 2 = 0 :=
    fun K g hg => by rw [rsum_congr L (fun i _ => hg i)]; exact rsum_pair_even L K
  rcases h with ⟨rfl, rfl⟩ | ⟨rfl, rfl⟩
  · refine step (t' - m) _ (fun i => ?_)
    refine (four_terms (onLine_dv hL (w := 2 * (i : Int) + (t' - m)) ?_)
      (onLine_no (w := t' + 2 * (i : Int) - m) (r := 1) ?_ (Or.inl rfl))
      (onLine_dv hL (w := 2 * (i : Int) + 1 + (t' - m)) ?_)
      (onLine_no (w := t' + 2 * (i : Int) - m + 1) (r := 1) ?_ (Or.inl rfl))).trans ?_
    · ring
    · ring
    · ring
    · ring
    · omega
  · refine step (t' - m - 1) _ (fun i => ?_)
    refine (four_terms (onLine_no (w := t' + 2 * (i : Int) - m - 2) (r := 2) ?_ (Or.inr rfl))
      (onLine_dv hL (w := 2 * (i : Int) + (t' - m - 1)) ?_)
      (onLine_no (w := t' + 2 * (i : Int) - m - 1) (r := 2) ?_ (Or.inr rfl))
      (onLine_dv hL (w := 2 * (i : Int) + 1 + (t' - m - 1)) ?_)).trans ?_
    · ring
    · ring
    · ring
    · ring
    · omega

theorem step_one {L : Nat} (hL : 1 ≤ L) (K : Int) (g : Nat → Nat)
    (hg : ∀ i : Nat, g i = dv L ((i : Int) + K)) : rsum L g % 2 = 1 := by
  rw [rsum_congr L (fun i _ => hg i), rsum_dv_one hL]

/-- the line in the frame `false`, the zig-zag in the frame `true` -/
theorem line_zig_cross0 {L : Nat} (hL : 1 ≤ L) {c c' : Int} (hc : c = 0 ∨ c = 1)
    (hc' : c' = 0 ∨ c' = 1) (t' m : Int) :
    interCount (zigK L true c' t') (lineK L false c m) % 2 = if c = c' then 0 else 1 := by
  rw [inter_zig_line]
  simp only [fR_true, fL_true, fR_mem_lineK hL, fL_mem_lineK hL]
  by_cases hcc : c = c'
  · subst hcc
    rw [if_pos rfl]
    apply rsum_even
    intro i _
    refine (congrArg (fun x => x % 2) (four_terms
      (onLine_dv hL (w := -(t' + (i : Int) + m + c + 1)) ?_)
      (onLine_dv hL (w := -(t' + (i : Int) + m + c + 1)) ?_)
      (onLine_no (w := -(t' + (i : Int) + m + c + 2)) (r := 2) ?_ (Or.inr rfl))
      (onLine_no (w := -(t' + (i : Int) + m + c + 2)) (r := 1) ?_ (Or.inl rfl)))).trans ?_
    · ring
    · ring
    · ring
    · ring
    · show (_ + _ + 0 + 0) % 2 = 0
      omega
  · rw [if_neg hcc]
    have hcase : (c = 1 ∧ c' = 0) ∨ (c = 0 ∧ c' = 1) := by omega
    rcases hcase with ⟨rfl, rfl⟩ | ⟨rfl, rfl⟩
    · refine step_one hL (t' + m + 2) _ (fun i => ?_)
      refine (four_terms
        (onLine_no (w := -(t' + (i : Int) + m + 2)) (r := 1) ?_ (Or.inl rfl))
        (onLine_no (w := -(t' + (i : Int) + m + 2)) (r := 1) ?_ (Or.inl rfl))
        (onLine_dv hL (w := -((i : Int) + (t' + m + 2))) ?_)
        (onLine_no (w := -(t' + (i : Int) + m + 3)) (r := 2) ?_ (Or.inr rfl))).trans ?_
      · ring
      · ring
      · ring
      · ring
      · rw [dv_neg]; omega
    · refine step_one hL (t' + m + 2) _ (fun i => ?_)
      refine (four_terms
        (onLine_no (w := -(t' + (i : Int) + m + 2)) (r := 2) ?_ (Or.inr rfl))
        (onLine_no (w := -(t' + (i : Int) + m + 2)) (r := 2) ?_ (Or.inr rfl))
        (onLine_no (w := -(t' + (i : Int) + m + 2)) (r := 1) ?_ (Or.inl rfl))
        (onLine_dv hL (w := -((i : Int) + (t' + m + 2))) ?_)).trans ?_
      · ring
      · ring
      · ring
      · ring
      · rw [dv_neg]; omega

/-- the line in the frame `true`, the zig-zag in the frame `false` -/
theorem line_zig_cross1 {L : Nat} (hL : 1 ≤ L) {c c' : Int} (hc : c = 0 ∨ c = 1)
    (hc' : c' = 0 ∨ c' = 1) (t' m : Int) :
    interCount (zigK L false c' t') (lineK L true c m) % 2 = if c = c' then 0 else 1 := by
  rw [inter_zig_line]
  simp only [fR_false, fL_false, fR_mem_lineK hL, fL_mem_lineK hL]
  by_cases hcc : c = c'
  · subst hcc
    rw [if_pos rfl]
    apply rsum_even
    intro i _
    refine (congrArg (fun x => x % 2) (four_terms
      (onLine_no (w := -((i : Int) + m + c + 1)) (r := 2) ?_ (Or.inr rfl))
      (onLine_no (w := -((i : Int) + m + c + 1)) (r := 1) ?_ (Or.inl rfl))
      (onLine_dv hL (w := -((i : Int) + m + c + 1)) ?_)
      (onLine_dv hL (w := -((i : Int) + m + c + 1)) ?_))).trans ?_
    · ring
    · ring
    · ring
    · ring
    · show (0 + 0 + _ + _) % 2 = 0
      omega
  · rw [if_neg hcc]
    have hcase : (c = 1 ∧ c' = 0) ∨ (c = 0 ∧ c' = 1) := by omega
    rcases hcase with ⟨rfl, rfl⟩ | ⟨rfl, rfl⟩
    · refine step_one hL (m + 1) _ (fun i => ?_)
      refine (four_terms
        (onLine_dv hL (w := -((i : Int) + (m + 1))) ?_)
        (onLine_no (w := -((i : Int) + m + 2)) (r := 2) ?_ (Or.inr rfl))
        (onLine_no (w := -((i : Int) + m + 2)) (r := 1) ?_ (Or.inl rfl))
        (onLine_no (w := -((i : Int) + m + 2)) (r := 1) ?_ (Or.inl rfl))).trans ?_
      · ring
      · ring
      · ring
      · ring
      · rw [dv_neg]; omega
    · refine step_one hL (m + 1) _ (fun i => ?_)
      refine (four_terms
        (onLine_no (w := -((i : Int) + m + 1)) (r := 1) ?_ (Or.inl rfl))
        (onLine_dv hL (w := -((i : Int) + (m + 1))) ?_)
        (onLine_no (w := -((i : Int) + m + 2)) (r := 2) ?_ (Or.inr rfl))
        (onLine_no (w := -((i : Int) + m + 2)) (r := 2) ?_ (Or.inr rfl))).trans ?_
      · ring
      · ring
      · ring
      · ring
      · rw [dv_neg]; omega

/-- THE PARITIES OF A LINE: odd exactly against the zig-zags of the other frame and the other
    colour offset -/
theorem line_zig_parity {L : Nat} (hL : 1 ≤ L) (f f' : Bool) {c c' : Int} (hc : c = 0 ∨ c = 1)
    (hc' : c' = 0 ∨ c' = 1) (t' m : Int) :
    interCount (zigK L f' c' t') (lineK L f c m) % 2 = if f ≠ f' ∧ c ≠ c' then 1 else 0 := by
  by_cases hf : f = f'
  · subst hf
    rw [if_neg (fun h => h.1 rfl)]
    by_cases hcc : c = c'
    · subst hcc
      rw [inter_zero _ _ (fun q hq hq' => zigK_lineK_disjoint hL f c t' m q hq hq')]
    · exact line_zig_same hL f (by omega) t' m
  · cases f <;> cases f'
    · exact absurd rfl hf
    · rw [line_zig_cross0 hL hc hc']
      by_cases hcc : c = c' <;> simp [hcc]
    · rw [line_zig_cross1 hL hc hc']
      by_cases hcc : c = c' <;> simp [hcc]
    · exact absurd rfl hf

end Panqec.Color666ToricCode
