/-
HollowPlanar3DCode, all sizes, C17 (3/3): the weights of the listed logicals and the reported
distance `min Lx wZ`; every cross-section of existing x edges is a non-trivial logical operator (the
one at `x = 3` of weight `wZ`); the true distance `min Lx wZ`; regression: the logical Z before the
repair of `get_logicals_z` (the full end plane `x = 1`, `oldLattice`) had weight `Ly·Lz`, so that
`code.d` was `min Lx (Ly·Lz)`.
-/
import PanqecVerif.Proofs.DistHollowPlanar3DCodeB
import PanqecVerif.Proofs.Dist

namespace Panqec.HollowPlanar3DCode
open Panqec.Cubic3D Panqec.Lat2D
open Panqec.Planar3DCode (inE inO inE2 inO1 lxK lzK lineX planeX length_uop lzK_nodup)

variable {Lx Ly Lz : Nat}

/-- the row of `logicals_x` has weight `Lx` (a line), the row of `logicals_z` weight `wZ` (the
    existing x edges of the cross-section `x = 3` when `Lx ≥ 3`, the full plane `x = 1` otherwise) -/
theorem weights_listed (hwf : (lattice Lx Ly Lz).WF) :
    (lattice Lx Ly Lz).rowsX.map pauliWeight = [Lx] ∧
    (lattice Lx Ly Lz).rowsZ.map pauliWeight = [wZ Lx Ly Lz] := by
  have hw : ∀ a ∈ (lattice Lx Ly Lz).logX ++ (lattice Lx Ly Lz).logZ,
      pauliWeight (opRow (lattice Lx Ly Lz).qubits a) = a.length := fun a ha =>
    pauliWeight_opRow _ hwf.qubits_nodup a (hwf.log_keys a ha) (hwf.log_supported a ha)
  rw [lattice_logX, lattice_logZ, logX_eq, logZ_eq] at hw
  unfold Lattice.rowsX Lattice.rowsZ
  rw [lattice_logX, lattice_logZ, logX_eq, logZ_eq]
  simp only [List.map_cons, List.map_nil]
  rw [hw _ (by simp), hw _ (by simp), length_uop, length_uop, length_crossX_zIdx]
  simp only [lxK, List.length_map, Planar3DCode.length_rangeO1]
  exact ⟨trivial, trivial⟩

/-- `code.d` (minimum weight of the listed logicals) is `min Lx wZ` -/
theorem reported_distance (hwf : (lattice Lx Ly Lz).WF) :
    distance (lattice Lx Ly Lz).rowsX (lattice Lx Ly Lz).rowsZ = some (min Lx (wZ Lx Ly Lz)) := by
  obtain ⟨h1, h2⟩ := weights_listed hwf
  unfold distance
  show (match listMin ((lattice Lx Ly Lz).rowsX.map pauliWeight),
    listMin ((lattice Lx Ly Lz).rowsZ.map pauliWeight) with
    | some a, some b => some (min a b)
    | _, _ => none) = _
  rw [h1, h2]
  rfl

/-! ### regression: the logical Z before the repair (the full end plane `x = 1`) -/

/-- the generators are not affected by the repair of `get_logicals_z` -/
theorem oldLattice_rowsH (Lx Ly Lz : Nat) :
    (oldLattice Lx Ly Lz).rowsH = (lattice Lx Ly Lz).rowsH := rfl

theorem oldLattice_rowsX (Lx Ly Lz : Nat) :
    (oldLattice Lx Ly Lz).rowsX = (lattice Lx Ly Lz).rowsX := rfl

/-- before the repair the row of `logicals_z` had weight `Ly·Lz` (the full plane `x = 1`) -/
theorem old_weights_listed (hwf : (lattice Lx Ly Lz).WF) (hLx : 1 ≤ Lx) :
    (oldLattice Lx Ly Lz).rowsX.map pauliWeight = [Lx] ∧
    (oldLattice Lx Ly Lz).rowsZ.map pauliWeight = [Ly * Lz] := by
  refine ⟨by rw [oldLattice_rowsX]; exact (weights_listed hwf).1, ?_⟩
  unfold Lattice.rowsZ
  rw [oldLattice_logZ, oldLattice_qubits, oldLogZ_eq]
  simp only [List.map_cons, List.map_nil]
  rw [pauliWeight_opRow _ (qubits_nodup Lx Ly Lz) _ (keysNodup_uop Pauli.Z (lzK_nodup Ly Lz))
    (fun e he => by
      rw [mem_uop] at he
      exact ⟨lzK_sub hLx _ he.1, by rw [he.2]; decide⟩), length_uop]
  simp only [lzK, length_grid2, Planar3DCode.length_rangeE]

/-- before the repair `code.d` was `min Lx (Ly·Lz)` -/
theorem old_reported_distance (hwf : (lattice Lx Ly Lz).WF) (hLx : 1 ≤ Lx) :
    distance (oldLattice Lx Ly Lz).rowsX (oldLattice Lx Ly Lz).rowsZ =
      some (min Lx (Ly * Lz)) := by
  obtain ⟨h1, h2⟩ := old_weights_listed hwf hLx
  unfold distance
  show (match listMin ((oldLattice Lx Ly Lz).rowsX.map pauliWeight),
    listMin ((oldLattice Lx Ly Lz).rowsZ.map pauliWeight) with
    | some a, some b => some (min a b)
    | _, _ => none) = _
  rw [h1, h2]
  rfl

/-! ### the cross-sections are logical operators -/

theorem commStabs_stab (hcp : (lattice Lx Ly Lz).CommPair)
    {s : Coord} (hs : s ∈ (lattice Lx Ly Lz).stabs) :
    CommStabs Lx Ly Lz ((lattice Lx Ly Lz).getStab s) := fun t ht =>
  (opCommute_iff _ _).mp (hcp.stab_comm t ht s hs)

theorem commStabs_logX (hwf : (lattice Lx Ly Lz).WF) (hcp : (lattice Lx Ly Lz).CommPair) :
    CommStabs Lx Ly Lz (uop (lxK Lx) Pauli.X) := by
  intro t ht
  have ha : uop (lxK Lx) Pauli.X ∈ (lattice Lx Ly Lz).logX := by
    rw [lattice_logX, logX_eq]; simp
  have h := (opCommute_iff _ _).mp (hcp.logX_comm _ ha t ht)
  rw [opAntiCount_comm_mod2 (hwf.stab_keys t ht)
    (hwf.log_keys _ (List.mem_append_left _ ha))]
  exact h

/-- the cross-section `x = 2i + 1` of the existing x edges, as a Z operator, is a non-trivial
    logical operator: it has the parities of `Z̄` against everything that commutes with the
    generators -/
theorem cross_nontrivial (hwf : (lattice Lx Ly Lz).WF) (hcp : (lattice Lx Ly Lz).CommPair)
    {n : Nat} (hn : (qubits Lx Ly Lz).length = n)
    (hv : ValidCodeL n 1 (lattice Lx Ly Lz).rowsH (lattice Lx Ly Lz).rowsX
      (lattice Lx Ly Lz).rowsZ) {i : Nat} (hi : i < Lx) :
    IsNontrivialLogical n (lattice Lx Ly Lz).rowsH
      (opRow (lattice Lx Ly Lz).qubits (uop (crossX Lx Ly Lz i) Pauli.Z)) := by
  have hk : KeysNodup (uop (crossX Lx Ly Lz i) Pauli.Z) := keysNodup_line Pauli.Z (crossX_nodup i)
  have hsup : opSupported (lattice Lx Ly Lz).qubits (uop (crossX Lx Ly Lz i) Pauli.Z) = true := by
    rw [lattice_qubits]; exact opSupported_line Pauli.Z (crossX_sub hi)
  have hz : uop (crossX Lx Ly Lz (zIdx Lx)) Pauli.Z ∈ (lattice Lx Ly Lz).logZ := by
    rw [lattice_logZ, logZ_eq]; simp
  have hx : uop (lxK Lx) Pauli.X ∈ (lattice Lx Ly Lz).logX := by
    rw [lattice_logX, logX_eq]; simp
  -- parities of the cross-section = parities of `Z̄`
  have key : ∀ b : Op, CommStabs Lx Ly Lz b →
      opAntiCount (uop (crossX Lx Ly Lz i) Pauli.Z) b % 2 =
        opAntiCount (uop (crossX Lx Ly Lz (zIdx Lx)) Pauli.Z) b % 2 := by
    intro b hb
    rw [opAntiCount_uop_hit, opAntiCount_uop_hit, parity_Z hb i hi,
      parity_Z hb (zIdx Lx) (zIdx_lt (by omega))]
  refine ⟨by rw [opRow_length, lattice_qubits, hn], opRow_binary _ _, ?_, ?_⟩
  · intro g hg
    unfold Lattice.rowsH at hg
    obtain ⟨a, ha, rfl⟩ := List.mem_map.mp hg
    obtain ⟨s, hs, rfl⟩ := List.mem_map.mp ha
    rw [symp_comm, symp_opRow _ hwf.qubits_nodup _ _ hk hsup, key _ (commStabs_stab hcp hs)]
    exact (opCommute_iff _ _).mp (hcp.logZ_comm _ hz s hs)
  · intro hspan
    have hlen : (opRow (lattice Lx Ly Lz).qubits (uop (crossX Lx Ly Lz i) Pauli.Z)).length = 2 * n := by
      rw [opRow_length, lattice_qubits, hn]
    have hs := (isSuccess_iff_inSpan hv .wide _ hlen (opRow_binary _ _)).mpr hspan
    unfold isSuccess at hs
    rw [Bool.and_eq_true, Bool.not_eq_true', isLogicalError_eq_false_iff] at hs
    have h0 := hs.2.2 (opRow (lattice Lx Ly Lz).qubits (uop (lxK Lx) Pauli.X))
      (by unfold Lattice.rowsX; exact List.mem_map.mpr ⟨_, hx, rfl⟩)
    rw [symp_comm, symp_opRow _ hwf.qubits_nodup _ _ hk hsup, key _ (commStabs_logX hwf hcp)] at h0
    have h1 := hcp.pairing 0 0 (by rw [lattice_logX, logX_eq]; simp)
      (by rw [lattice_logZ, logZ_eq]; simp)
    rw [lattice_logX, lattice_logZ, logX_eq, logZ_eq] at h1
    simp only [List.getD_cons_zero, if_true] at h1
    rw [opAntiCount_comm_mod2 (hwf.log_keys _ (List.mem_append_left _ hx))
      (hwf.log_keys _ (List.mem_append_right _ hz))] at h1
    omega

/-- the weight of a cross-section operator is the number of its x edges -/
theorem cross_weight (hwf : (lattice Lx Ly Lz).WF) {i : Nat} (hi : i < Lx) :
    pauliWeight (opRow (lattice Lx Ly Lz).qubits (uop (crossX Lx Ly Lz i) Pauli.Z)) =
      (crossX Lx Ly Lz i).length := by
  have hk : KeysNodup (uop (crossX Lx Ly Lz i) Pauli.Z) := keysNodup_line Pauli.Z (crossX_nodup i)
  rw [pauliWeight_opRow _ hwf.qubits_nodup _ hk, length_uop]
  intro e he
  rw [mem_uop] at he
  rw [lattice_qubits]
  exact ⟨crossX_sub hi _ he.1, by rw [he.2]; decide⟩

/-- **the true distance**, every size: `min Lx wZ` -/
theorem true_distance (hwf : (lattice Lx Ly Lz).WF)
    {n : Nat} (hn : (qubits Lx Ly Lz).length = n)
    (hv : ValidCodeL n 1 (lattice Lx Ly Lz).rowsH (lattice Lx Ly Lz).rowsX
      (lattice Lx Ly Lz).rowsZ) :
    IsDistance n (lattice Lx Ly Lz).rowsH (min Lx (wZ Lx Ly Lz)) := by
  refine ⟨?_, lower_bound hwf hn hv⟩
  obtain ⟨w1, w2⟩ := weights_listed hwf
  by_cases hle : Lx ≤ wZ Lx Ly Lz
  · -- the listed X line
    rw [Nat.min_eq_left hle]
    have hx : opRow (lattice Lx Ly Lz).qubits (uop (lxK Lx) Pauli.X) ∈ (lattice Lx Ly Lz).rowsX := by
      unfold Lattice.rowsX; rw [lattice_logX, logX_eq]; simp
    refine ⟨_, listedX_nontrivial hv hx, ?_⟩
    unfold Lattice.rowsX at w1
    rw [lattice_logX, logX_eq] at w1
    simpa using w1
  · -- the listed Z membrane
    rw [Nat.min_eq_right (by omega)]
    have hz : opRow (lattice Lx Ly Lz).qubits (uop (crossX Lx Ly Lz (zIdx Lx)) Pauli.Z) ∈
        (lattice Lx Ly Lz).rowsZ := by
      unfold Lattice.rowsZ; rw [lattice_logZ, logZ_eq]; simp
    refine ⟨_, listedZ_nontrivial hv hz, ?_⟩
    unfold Lattice.rowsZ at w2
    rw [lattice_logZ, logZ_eq] at w2
    simpa using w2

end Panqec.HollowPlanar3DCode
