/-
`RotatedToric3DCode`, supported family, rank clause (2/3): the family `rankFamily` of
`Model/Lattices/RotatedToric3DCode.lean` — arithmetic characterisation of its four parts,
distinctness, membership in `get_stabilizer_coordinates`, and the count `n − k`
(`Lx·Ly − k` generators in the bottom layer; one vertex per vertical qubit above it; vertical faces
plus the horizontal faces next to the dropped column: `Lx·Ly` per layer of vertical qubits).
-/
import PanqecVerif.Proofs.LatRotatedToric3DCodeRank1
import Mathlib.Tactic.Ring
open Panqec Panqec.Lat3Db
namespace Panqec.RotatedToric3DCode

set_option linter.unusedVariables false
set_option linter.unusedSimpArgs false

/-! ### `range(2, 2L+1, 4)` -/

theorem mem_pyRange4 (L : Nat) (y : Int) :
    y ∈ pyRange4 L ↔ y % 4 = 2 ∧ 2 ≤ y ∧ y ≤ 2 * (L : Int) := by
  unfold pyRange4
  simp only [List.mem_map, List.mem_range]
  constructor
  · rintro ⟨i, hi, rfl⟩; omega
  · rintro ⟨h1, h2, h3⟩
    exact ⟨((y - 2) / 4).toNat, by omega, by omega⟩

theorem nodup_pyRange4 (L : Nat) : (pyRange4 L).Nodup := by
  unfold pyRange4
  refine List.Nodup.map ?_ List.nodup_range
  intro a b h
  simp only at h
  omega

theorem length_pyRange4 (L : Nat) : (pyRange4 L).length = (L + 1) / 2 := by
  simp [pyRange4]

/-! ### the four parts -/

/-- odd layer above the bottom one -/
def ZU (Lz : Nat) (z : Int) : Prop := z % 2 = 1 ∧ 3 ≤ z ∧ z < 2 * (Lz : Int)

def InL1 (Lx Ly : Nat) (x y z : Int) : Prop :=
  Ev Lx x ∧ Ev Ly y ∧ z = 1 ∧ ¬ (x = 2 ∧ y = 4) ∧ ¬ (Lx % 2 = 0 ∧ Ly % 2 = 0 ∧ x = 2 ∧ y = 2)
def InVU (Lx Ly Lz : Nat) (x y z : Int) : Prop :=
  Ev Lx x ∧ Ev Ly y ∧ ZU Lz z ∧ (x + y) % 4 = 2
def InHU (Lx Ly Lz : Nat) (x y z : Int) : Prop :=
  ZU Lz z ∧
    ((Lx % 2 = 1 ∧ (x = 2 ∨ x = 2 * (Lx : Int)) ∧ y % 4 = 2 ∧ 2 ≤ y ∧ y ≤ 2 * (Ly : Int)) ∨
     (Lx % 2 = 0 ∧ Ly % 2 = 1 ∧ (x % 4 = 2 ∧ 2 ≤ x ∧ x ≤ 2 * (Lx : Int)) ∧
        (y = 2 ∨ y = 2 * (Ly : Int))))
def InVF (Lx Ly Lz : Nat) (x y z : Int) : Prop :=
  Od Lx x ∧ Od Ly y ∧ R2 (2 * Lz) z ∧ (Lx % 2 = 1 → 3 ≤ x) ∧ (Lx % 2 = 0 → Ly % 2 = 1 → 3 ≤ y)

theorem mem_pyRange2_3 (b : Nat) (z : Int) : z ∈ pyRange2 3 b ↔ z % 2 = 1 ∧ 3 ≤ z ∧ z < b := by
  rw [mem_pyRange2]; omega

theorem beq_parity (L r : Nat) (p : Prop) [Decidable p] (h : (L % 2 = r) ↔ p) :
    (L % 2 == r) = decide p := by
  by_cases hp : p
  · simp [hp, h.mpr hp]
  · have : ¬ L % 2 = r := fun e => hp (h.mp e)
    simp [hp, this]

theorem g1_nodup (Lx Ly : Nat) :
    (grid3 (pyRange2 2 (2*Lx+1)) (pyRange2 2 (2*Ly+1)) [1] (fun _ _ _ => true)).Nodup :=
  nodup_grid3 _ _ _ _ (nodup_pyRange2 _ _) (nodup_pyRange2 _ _) (by simp)

theorem mem_g1 (Lx Ly : Nat) (x y z : Int) :
    [x, y, z] ∈ grid3 (pyRange2 2 (2*Lx+1)) (pyRange2 2 (2*Ly+1)) [1] (fun _ _ _ => true) ↔
      Ev Lx x ∧ Ev Ly y ∧ z = 1 := by
  rw [mem_grid3_cons, mem_pyRange2_2, mem_pyRange2_2, R2_Ev, R2_Ev]
  simp

theorem mem_famLayer1 (Lx Ly : Nat) (x y z : Int) :
    [x, y, z] ∈ famLayer1 Lx Ly ↔ InL1 Lx Ly x y z := by
  unfold famLayer1 InL1
  by_cases hee : Lx % 2 = 0 ∧ Ly % 2 = 0
  · have e : (Lx % 2 == 0 && Ly % 2 == 0) = true := by simp [hee.1, hee.2]
    rw [if_pos e, ((g1_nodup Lx Ly).erase _).mem_erase_iff, (g1_nodup Lx Ly).mem_erase_iff, mem_g1]
    simp only [ne_eq, List.cons.injEq, and_true]
    constructor
    · rintro ⟨h1, h2, hx, hy, hz⟩
      exact ⟨hx, hy, hz, fun h => h2 ⟨h.1, h.2, hz⟩, fun h => h1 ⟨h.2.2.1, h.2.2.2, hz⟩⟩
    · rintro ⟨hx, hy, hz, h2, h1⟩
      exact ⟨fun h => h1 ⟨hee.1, hee.2, h.1, h.2.1⟩, fun h => h2 ⟨h.1, h.2.1⟩, hx, hy, hz⟩
  · have e : ¬ (Lx % 2 == 0 && Ly % 2 == 0) = true := by
      simp only [Bool.and_eq_true, beq_iff_eq]; exact hee
    rw [if_neg e, (g1_nodup Lx Ly).mem_erase_iff, mem_g1]
    simp only [ne_eq, List.cons.injEq, and_true]
    constructor
    · rintro ⟨h2, hx, hy, hz⟩
      exact ⟨hx, hy, hz, fun h => h2 ⟨h.1, h.2, hz⟩, fun h => hee ⟨h.1, h.2.1⟩⟩
    · rintro ⟨hx, hy, hz, h2, _⟩
      exact ⟨fun h => h2 ⟨h.1, h.2.1⟩, hx, hy, hz⟩

theorem mem_famVerticesUp (Lx Ly Lz : Nat) (x y z : Int) :
    [x, y, z] ∈ famVerticesUp Lx Ly Lz ↔ InVU Lx Ly Lz x y z := by
  unfold famVerticesUp InVU ZU
  rw [mem_grid3_cons, mem_pyRange2_2, mem_pyRange2_2, R2_Ev, R2_Ev, mem_pyRange2_3]
  simp only [beq_iff_eq]
  constructor
  · rintro ⟨hx, hy, hz, h4⟩; exact ⟨hx, hy, ⟨hz.1, hz.2.1, by omega⟩, h4⟩
  · rintro ⟨hx, hy, hz, h4⟩; exact ⟨hx, hy, ⟨hz.1, hz.2.1, by omega⟩, h4⟩

theorem mem_famFacesUp (Lx Ly Lz : Nat) (x y z : Int) :
    [x, y, z] ∈ famFacesUp Lx Ly Lz ↔ InHU Lx Ly Lz x y z := by
  unfold famFacesUp InHU ZU
  by_cases hx : Lx % 2 = 1
  · have e : (Lx % 2 == 1) = true := by simp [hx]
    rw [if_pos e, mem_grid3_cons, mem_pyRange4, mem_pyRange2_3]
    simp only [List.mem_cons, List.not_mem_nil, or_false, and_true]
    constructor
    · rintro ⟨h1, h2, h3⟩; exact ⟨⟨h3.1, h3.2.1, by omega⟩, Or.inl ⟨hx, h1, h2⟩⟩
    · rintro ⟨h3, h | h⟩
      · exact ⟨h.2.1, h.2.2, ⟨h3.1, h3.2.1, by omega⟩⟩
      · omega
  · have e : ¬ (Lx % 2 == 1) = true := by simp [hx]
    rw [if_neg e]
    by_cases hy : Ly % 2 = 1
    · have e' : (Ly % 2 == 1) = true := by simp [hy]
      rw [if_pos e', mem_grid3_cons, mem_pyRange4, mem_pyRange2_3]
      simp only [List.mem_cons, List.not_mem_nil, or_false, and_true]
      constructor
      · rintro ⟨h1, h2, h3⟩
        exact ⟨⟨h3.1, h3.2.1, by omega⟩, Or.inr ⟨by omega, hy, h1, h2⟩⟩
      · rintro ⟨h3, h | h⟩
        · omega
        · exact ⟨h.2.2.1, h.2.2.2, ⟨h3.1, h3.2.1, by omega⟩⟩
    · have e' : ¬ (Ly % 2 == 1) = true := by simp [hy]
      rw [if_neg e']
      simp only [List.not_mem_nil, false_iff]
      rintro ⟨_, h | h⟩ <;> omega

theorem mem_famVFaces (Lx Ly Lz : Nat) (x y z : Int) :
    [x, y, z] ∈ famVFaces Lx Ly Lz ↔ InVF Lx Ly Lz x y z := by
  unfold famVFaces InVF
  by_cases hx : Lx % 2 = 1
  · have e : (Lx % 2 == 1) = true := by simp [hx]
    rw [if_pos e, mem_grid3_cons, mem_pyRange2_3, mem_pyRange2_1, mem_pyRange2_2, R1_Od]
    unfold Od
    simp only [and_true]
    constructor
    · rintro ⟨h1, h2, h3⟩; exact ⟨⟨h1.1, by omega, by omega⟩, h2, h3, fun _ => h1.2.1, by omega⟩
    · rintro ⟨h1, h2, h3, h4, _⟩; exact ⟨⟨h1.1, h4 hx, by omega⟩, h2, h3⟩
  · have e : ¬ (Lx % 2 == 1) = true := by simp [hx]
    rw [if_neg e]
    by_cases hy : Ly % 2 = 1
    · have e' : (Ly % 2 == 1) = true := by simp [hy]
      rw [if_pos e', mem_grid3_cons, mem_pyRange2_3, mem_pyRange2_1, mem_pyRange2_2, R1_Od]
      unfold Od
      simp only [and_true]
      constructor
      · rintro ⟨h1, h2, h3⟩
        exact ⟨h1, ⟨h2.1, by omega, by omega⟩, h3, fun h => absurd h hx, fun _ _ => h2.2.1⟩
      · rintro ⟨h1, h2, h3, _, h5⟩; exact ⟨h1, ⟨h2.1, h5 (by omega) hy, by omega⟩, h3⟩
    · have e' : ¬ (Ly % 2 == 1) = true := by simp [hy]
      rw [if_neg e', mem_grid3_cons, mem_pyRange2_1, mem_pyRange2_1, mem_pyRange2_2, R1_Od, R1_Od]
      simp only [and_true]
      constructor
      · rintro ⟨h1, h2, h3⟩; exact ⟨h1, h2, h3, fun h => absurd h hx, fun _ h => absurd h hy⟩
      · rintro ⟨h1, h2, h3, _, _⟩; exact ⟨h1, h2, h3⟩

/-! ### shape, distinctness -/

theorem shape_famLayer1 {Lx Ly : Nat} {s : Coord} (h : s ∈ famLayer1 Lx Ly) :
    ∃ x y z, s = [x, y, z] := by
  unfold famLayer1 at h
  have h' : s ∈ grid3 (pyRange2 2 (2*Lx+1)) (pyRange2 2 (2*Ly+1)) [1] (fun _ _ _ => true) := by
    split at h
    · exact List.mem_of_mem_erase (List.mem_of_mem_erase h)
    · exact List.mem_of_mem_erase h
  rw [mem_grid3] at h'
  obtain ⟨x, y, z, rfl, _⟩ := h'; exact ⟨x, y, z, rfl⟩

theorem shape_famVerticesUp {Lx Ly Lz : Nat} {s : Coord} (h : s ∈ famVerticesUp Lx Ly Lz) :
    ∃ x y z, s = [x, y, z] := by
  unfold famVerticesUp at h
  rw [mem_grid3] at h
  obtain ⟨x, y, z, rfl, _⟩ := h; exact ⟨x, y, z, rfl⟩

theorem shape_famFacesUp {Lx Ly Lz : Nat} {s : Coord} (h : s ∈ famFacesUp Lx Ly Lz) :
    ∃ x y z, s = [x, y, z] := by
  unfold famFacesUp at h
  split at h
  · rw [mem_grid3] at h; obtain ⟨x, y, z, rfl, _⟩ := h; exact ⟨x, y, z, rfl⟩
  · split at h
    · rw [mem_grid3] at h; obtain ⟨x, y, z, rfl, _⟩ := h; exact ⟨x, y, z, rfl⟩
    · cases h

theorem shape_famVFaces {Lx Ly Lz : Nat} {s : Coord} (h : s ∈ famVFaces Lx Ly Lz) :
    ∃ x y z, s = [x, y, z] := by
  unfold famVFaces at h
  split at h
  · rw [mem_grid3] at h; obtain ⟨x, y, z, rfl, _⟩ := h; exact ⟨x, y, z, rfl⟩
  · split at h
    · rw [mem_grid3] at h; obtain ⟨x, y, z, rfl, _⟩ := h; exact ⟨x, y, z, rfl⟩
    · rw [mem_grid3] at h; obtain ⟨x, y, z, rfl, _⟩ := h; exact ⟨x, y, z, rfl⟩

/-- membership in the family, by parts -/
def InB (Lx Ly Lz : Nat) (x y z : Int) : Prop :=
  InL1 Lx Ly x y z ∨ InVU Lx Ly Lz x y z ∨ InHU Lx Ly Lz x y z ∨ InVF Lx Ly Lz x y z

theorem shape_of_mem_rankFamily {Lx Ly Lz : Nat} {s : Coord} (h : s ∈ rankFamily Lx Ly Lz) :
    ∃ x y z, s = [x, y, z] := by
  unfold rankFamily at h
  simp only [List.mem_append] at h
  rcases h with ((h | h) | h) | h
  · exact shape_famLayer1 h
  · exact shape_famVerticesUp h
  · exact shape_famFacesUp h
  · exact shape_famVFaces h

theorem mem_rankFamily (Lx Ly Lz : Nat) (x y z : Int) :
    [x, y, z] ∈ rankFamily Lx Ly Lz ↔ InB Lx Ly Lz x y z := by
  unfold rankFamily InB
  simp only [List.mem_append, mem_famLayer1, mem_famVerticesUp, mem_famFacesUp, mem_famVFaces]
  tauto

theorem famLayer1_nodup (Lx Ly : Nat) : (famLayer1 Lx Ly).Nodup := by
  unfold famLayer1
  split
  · exact ((g1_nodup Lx Ly).erase _).erase _
  · exact (g1_nodup Lx Ly).erase _

theorem famFacesUp_nodup {Lx Ly : Nat} (hLx : 2 ≤ Lx) (hLy : 2 ≤ Ly) (Lz : Nat) :
    (famFacesUp Lx Ly Lz).Nodup := by
  unfold famFacesUp
  have h2x : ([2, 2 * (Lx : Int)] : List Int).Nodup := by
    simp only [List.nodup_cons, List.mem_cons, List.not_mem_nil, or_false,
      not_false_eq_true, List.nodup_nil, and_true]; omega
  have h2y : ([2, 2 * (Ly : Int)] : List Int).Nodup := by
    simp only [List.nodup_cons, List.mem_cons, List.not_mem_nil, or_false,
      not_false_eq_true, List.nodup_nil, and_true]; omega
  split
  · exact nodup_grid3 _ _ _ _ h2x (nodup_pyRange4 _) (nodup_pyRange2 _ _)
  · split
    · exact nodup_grid3 _ _ _ _ (nodup_pyRange4 _) h2y (nodup_pyRange2 _ _)
    · exact List.nodup_nil

theorem famVFaces_nodup (Lx Ly Lz : Nat) : (famVFaces Lx Ly Lz).Nodup := by
  unfold famVFaces
  split
  · exact nodup_grid3 _ _ _ _ (nodup_pyRange2 _ _) (nodup_pyRange2 _ _) (nodup_pyRange2 _ _)
  · split
    · exact nodup_grid3 _ _ _ _ (nodup_pyRange2 _ _) (nodup_pyRange2 _ _) (nodup_pyRange2 _ _)
    · exact nodup_grid3 _ _ _ _ (nodup_pyRange2 _ _) (nodup_pyRange2 _ _) (nodup_pyRange2 _ _)

theorem rankFamily_nodup {Lx Ly : Nat} (hLx : 2 ≤ Lx) (hLy : 2 ≤ Ly) (Lz : Nat) :
    (rankFamily Lx Ly Lz).Nodup := by
  unfold rankFamily
  refine List.Nodup.append (List.Nodup.append (List.Nodup.append (famLayer1_nodup Lx Ly)
    (nodup_grid3 _ _ _ _ (nodup_pyRange2 _ _) (nodup_pyRange2 _ _) (nodup_pyRange2 _ _)) ?_)
    (famFacesUp_nodup hLx hLy Lz) ?_) (famVFaces_nodup Lx Ly Lz) ?_
  · intro s h1 h2
    obtain ⟨x, y, z, rfl⟩ := shape_famLayer1 h1
    rw [mem_famLayer1] at h1; rw [mem_famVerticesUp] at h2
    unfold InL1 at h1; unfold InVU ZU at h2; omega
  · intro s h1 h2
    obtain ⟨x, y, z, rfl⟩ := shape_famFacesUp h2
    rw [mem_famFacesUp] at h2
    simp only [List.mem_append, mem_famLayer1, mem_famVerticesUp] at h1
    unfold InHU ZU at h2
    rcases h1 with h1 | h1
    · unfold InL1 at h1; omega
    · unfold InVU at h1; omega
  · intro s h1 h2
    obtain ⟨x, y, z, rfl⟩ := shape_famVFaces h2
    rw [mem_famVFaces] at h2
    simp only [List.mem_append, mem_famLayer1, mem_famVerticesUp, mem_famFacesUp] at h1
    unfold InVF R2 at h2
    rcases h1 with (h1 | h1) | h1
    · unfold InL1 at h1; omega
    · unfold InVU ZU at h1; omega
    · unfold InHU ZU at h1; omega

/-! ### the family consists of stabilizer locations -/

theorem stab_of_InB {Lx Ly Lz : Nat} (hF : Fam Lx Ly) (hLz : 1 ≤ Lz) {x y z : Int}
    (h : InB Lx Ly Lz x y z) :
    SV Lx Ly Lz x y z ∨ SH Lx Ly Lz x y z ∨ SF Lx Ly Lz x y z := by
  obtain ⟨hLx, hLy, hodd⟩ := hF
  rcases h with h | h | h | h
  · obtain ⟨hx, hy, hz, _, _⟩ := h
    have hx' := hx; have hy' := hy
    unfold Ev at hx' hy'
    have hz1 : R1 (2 * Lz) z := by unfold R1; omega
    rcases (show (x + y) % 4 = 2 ∨ (x + y) % 4 = 0 by omega) with h4 | h4
    · exact Or.inl ⟨R2_Ev.mpr hx, R2_Ev.mpr hy, hz1, h4⟩
    · exact Or.inr (Or.inl ⟨R2_Ev.mpr hx, R2_Ev.mpr hy, hz1, h4⟩)
  · obtain ⟨hx, hy, hz, h4⟩ := h
    unfold ZU at hz
    exact Or.inl ⟨R2_Ev.mpr hx, R2_Ev.mpr hy, by unfold R1; omega, h4⟩
  · obtain ⟨hz, h⟩ := h
    unfold ZU at hz
    right; left
    refine ⟨R2_Ev.mpr ?_, R2_Ev.mpr ?_, by unfold R1; omega, by omega⟩ <;> unfold Ev <;> omega
  · obtain ⟨hx, hy, hz, h1, h2⟩ := h
    right; right
    refine ⟨R1_Od.mpr hx, R1_Od.mpr hy, hz, ?_⟩
    unfold Od at hx hy
    unfold Dropped
    omega

theorem rankFamily_subset {Lx Ly Lz : Nat} (hF : Fam Lx Ly) (hLz : 1 ≤ Lz) {s : Coord}
    (h : s ∈ rankFamily Lx Ly Lz) : s ∈ stabs Lx Ly Lz := by
  obtain ⟨x, y, z, rfl⟩ := shape_of_mem_rankFamily h
  rw [mem_rankFamily] at h
  rw [mem_stabs_iff]
  exact stab_of_InB hF hLz h

/-! ### the count -/

theorem length_famLayer1 {Lx Ly : Nat} (hLx : 2 ≤ Lx) (hLy : 2 ≤ Ly) :
    (famLayer1 Lx Ly).length + (if Lx % 2 = 0 ∧ Ly % 2 = 0 then 2 else 1) = Lx * Ly := by
  have hlen : (grid3 (pyRange2 2 (2*Lx+1)) (pyRange2 2 (2*Ly+1)) [1]
      (fun _ _ _ => true)).length = Lx * Ly := by
    rw [length_grid3_true, length_pyRange2, length_pyRange2]
    have e1 : (2 * Lx + 1 + 1 - 2) / 2 = Lx := by omega
    have e2 : (2 * Ly + 1 + 1 - 2) / 2 = Ly := by omega
    rw [e1, e2]; simp
  have hpos : 4 ≤ Lx * Ly := Nat.mul_le_mul hLx hLy
  have m1 : [2, 4, 1] ∈ grid3 (pyRange2 2 (2*Lx+1)) (pyRange2 2 (2*Ly+1)) [1]
      (fun _ _ _ => true) := by
    rw [mem_g1]; unfold Ev; omega
  unfold famLayer1
  by_cases hee : Lx % 2 = 0 ∧ Ly % 2 = 0
  · have e : (Lx % 2 == 0 && Ly % 2 == 0) = true := by simp [hee.1, hee.2]
    have m2 : [2, 2, 1] ∈ (grid3 (pyRange2 2 (2*Lx+1)) (pyRange2 2 (2*Ly+1)) [1]
        (fun _ _ _ => true)).erase [2, 4, 1] := by
      rw [(g1_nodup Lx Ly).mem_erase_iff, mem_g1]
      refine ⟨by simp, ?_⟩
      unfold Ev; omega
    rw [if_pos e, if_pos hee, List.length_erase_of_mem m2, List.length_erase_of_mem m1, hlen]
    omega
  · have e : ¬ (Lx % 2 == 0 && Ly % 2 == 0) = true := by
      simp only [Bool.and_eq_true, beq_iff_eq]; exact hee
    rw [if_neg e, if_neg hee, List.length_erase_of_mem m1, hlen]
    omega

theorem length_famVerticesUp (Lx Ly Lz : Nat) :
    (famVerticesUp Lx Ly Lz).length =
      (((Lx + 1) / 2) * (Ly / 2) + (Lx / 2) * ((Ly + 1) / 2)) * (Lz - 1) := by
  unfold famVerticesUp
  rw [length_grid3_xy, cnt2_checker', length_pyRange2]
  have e : (2 * Lz + 1 - 3) / 2 = Lz - 1 := by omega
  rw [e]

theorem length_upper {Lx Ly : Nat} (hF : Fam Lx Ly) (Lz : Nat) :
    (famFacesUp Lx Ly Lz).length + (famVFaces Lx Ly Lz).length = Lx * Ly * (Lz - 1) := by
  obtain ⟨hLx, hLy, hodd⟩ := hF
  unfold famFacesUp famVFaces
  have e3 : (2 * Lz + 1 - 3) / 2 = Lz - 1 := by omega
  have e2 : (2 * Lz + 1 - 2) / 2 = Lz - 1 := by omega
  have ex1 : (2 * Lx + 1 - 1) / 2 = Lx := by omega
  have ey1 : (2 * Ly + 1 - 1) / 2 = Ly := by omega
  have ex3 : (2 * Lx + 1 - 3) / 2 = Lx - 1 := by omega
  have ey3 : (2 * Ly + 1 - 3) / 2 = Ly - 1 := by omega
  generalize Lz - 1 = m at e2 e3
  by_cases hx : Lx % 2 = 1
  · have e : (Lx % 2 == 1) = true := by simp [hx]
    rw [if_pos e, if_pos e, length_grid3_true, length_grid3_true]
    simp only [length_pyRange2, length_pyRange4, List.length_cons, List.length_nil, e2, e3, ex3, ey1]
    obtain ⟨a, rfl⟩ : ∃ a, Lx = a + 1 := ⟨Lx - 1, by omega⟩
    obtain ⟨b, rfl⟩ : ∃ b, Ly = 2 * b := ⟨Ly / 2, by omega⟩
    have : (2 * b + 1) / 2 = b := by omega
    rw [this]; simp only [Nat.add_sub_cancel]; ring
  · have e : ¬ (Lx % 2 == 1) = true := by simp [hx]
    rw [if_neg e, if_neg e]
    by_cases hy : Ly % 2 = 1
    · have e' : (Ly % 2 == 1) = true := by simp [hy]
      rw [if_pos e', if_pos e', length_grid3_true, length_grid3_true]
      simp only [length_pyRange2, length_pyRange4, List.length_cons, List.length_nil, e2, e3, ey3,
        ex1]
      obtain ⟨a, rfl⟩ : ∃ a, Ly = a + 1 := ⟨Ly - 1, by omega⟩
      obtain ⟨b, rfl⟩ : ∃ b, Lx = 2 * b := ⟨Lx / 2, by omega⟩
      have : (2 * b + 1) / 2 = b := by omega
      rw [this]; simp only [Nat.add_sub_cancel]; ring
    · have e' : ¬ (Ly % 2 == 1) = true := by simp [hy]
      rw [if_neg e', if_neg e', length_grid3_true]
      simp only [length_pyRange2, List.length_nil, e2, ex1, ey1, Nat.zero_add]

/-- the family has `n − k` members -/
theorem rankFamily_length {Lx Ly Lz : Nat} (hF : Fam Lx Ly) (hLz : 1 ≤ Lz) :
    (rankFamily Lx Ly Lz).length =
      (qubits Lx Ly Lz).length - (if Lx % 2 = 0 ∧ Ly % 2 = 0 then 2 else 1) := by
  have h1 := length_famLayer1 hF.1 hF.2.1
  have h2 := length_famVerticesUp Lx Ly Lz
  have h3 := length_upper hF Lz
  unfold rankFamily
  rw [List.length_append, List.length_append, List.length_append, length_qubits]
  obtain ⟨m, rfl⟩ : ∃ m, Lz = m + 1 := ⟨Lz - 1, by omega⟩
  simp only [Nat.add_sub_cancel] at h2 h3 ⊢
  rw [h2]
  have h4 : Lx * Ly * (m + 1) = Lx * Ly * m + Lx * Ly := by ring
  rw [h4]
  generalize ((Lx + 1) / 2 * (Ly / 2) + Lx / 2 * ((Ly + 1) / 2)) * m = C at *
  generalize Lx * Ly * m = P at *
  generalize Lx * Ly = Q at *
  clear h4
  by_cases hee : Lx % 2 = 0 ∧ Ly % 2 = 0
  · simp only [hee, and_self, if_true] at h1 ⊢; omega
  · simp only [hee, if_false] at h1 ⊢; omega

end Panqec.RotatedToric3DCode
