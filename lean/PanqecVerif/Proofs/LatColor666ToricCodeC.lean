/-
Color666ToricCode, square sizes `L ≥ 1`: the six keys of a face are distinct, `get_stabilizer` in
closed form, two faces share an even number of qubits, and the closed form `IsQ` of the DERIVED
qubit list.  Core Lean only.
-/
import PanqecVerif.Proofs.LatColor666ToricCodeB

set_option linter.unusedVariables false
set_option linter.unusedSimpArgs false

namespace Panqec.Color666ToricCode
open Panqec.Lat2D Panqec.Color
open Panqec.Color488Code (emod_small emod_neg_small emod_bridge)

theorem interCount_6 (c1 c2 c3 c4 c5 c6 : Coord) (B : List Coord) :
    interCount [c1, c2, c3, c4, c5, c6] B =
      (if c1 ∈ B then 1 else 0) + (if c2 ∈ B then 1 else 0) + (if c3 ∈ B then 1 else 0) +
      (if c4 ∈ B then 1 else 0) + (if c5 ∈ B then 1 else 0) + (if c6 ∈ B then 1 else 0) := by
  unfold interCount
  simp only [List.countP_cons, List.countP_nil, List.contains_eq_mem, decide_eq_true_eq]
  omega

/-- the six wrapped corners of a face are distinct -/
theorem nodup_supp {L : Nat} (hL : 1 ≤ L) {x y : Int} (h : IsF L x y) : (supp L x y).Nodup := by
  obtain ⟨x0, x1, x2, x3, x4, y1, y2, y3, y4, u0, u4, u8, u12, u16, v4, v8, v12, v16⟩ := consts hL
  have n1 := near_corner hL h (dx := -1) (dy := -2) (by omega)
  have n2 := near_corner hL h (dx := 1) (dy := -2) (by omega)
  have n3 := near_corner hL h (dx := 2) (dy := 0) (by omega)
  have n4 := near_corner hL h (dx := 1) (dy := 2) (by omega)
  have n5 := near_corner hL h (dx := -1) (dy := 2) (by omega)
  have n6 := near_corner hL h (dx := -2) (dy := 0) (by omega)
  unfold supp
  simp only [List.nodup_cons, List.mem_cons, List.not_mem_nil, or_false, not_false_eq_true,
    List.nodup_nil, and_true]
  simp only [corner_eq_iff hL n1 n2, corner_eq_iff hL n1 n3, corner_eq_iff hL n1 n4,
    corner_eq_iff hL n1 n5, corner_eq_iff hL n1 n6, corner_eq_iff hL n2 n3, corner_eq_iff hL n2 n4,
    corner_eq_iff hL n2 n5, corner_eq_iff hL n2 n6, corner_eq_iff hL n3 n4, corner_eq_iff hL n3 n5,
    corner_eq_iff hL n3 n6, corner_eq_iff hL n4 n5, corner_eq_iff hL n4 n6, corner_eq_iff hL n5 n6,
    Int.sub_self, Int.reduceSub, Int.reduceNeg, Int.reduceMul, Int.reduceAdd]
  omega

/-- the letter of the generator `(x, y, p)` -/
def letter (p : Int) : Pauli := if p = 0 then Pauli.X else Pauli.Z

theorem letter_ne_I (p : Int) : letter p ≠ Pauli.I := by
  unfold letter; by_cases h : p = 0 <;> simp [h]

theorem getStabIn_eq {L : Nat} (hL : 1 ≤ L) {x y p : Int} (h : [x, y, p] ∈ stabs L L) :
    getStabilizerIn (stabs L L) L L [x, y, p] = some ((supp L x y).map (fun q => (q, letter p))) := by
  have hs : isIn (stabs L L) [x, y, p] = true := isIn_iff.mpr h
  unfold getStabilizerIn
  simp only [hs, Bool.not_true, Bool.false_eq_true, if_false]
  rw [candidates_eq, lineOp_eq _ _ (nodup_supp hL (mem_stabs'.mp h).1)]
  rfl

theorem getStab_eq {L : Nat} (hL : 1 ≤ L) {x y p : Int} (h : [x, y, p] ∈ stabs L L) :
    (lattice L L).getStab [x, y, p] = (supp L x y).map (fun q => (q, letter p)) := by
  show (getStabilizer? L L [x, y, p]).getD [] = _
  unfold getStabilizer?
  rw [getStabIn_eq hL h]; rfl

/-- two faces (equal or not) share an even number of qubits -/
theorem face_face_even {L : Nat} (hL : 1 ≤ L) {ax ay bx by' : Int} (ha : IsF L ax ay)
    (hb : IsF L bx by') : interCount (supp L ax ay) (supp L bx by') % 2 = 0 := by
  obtain ⟨m3, m12⟩ := diff_mod ha hb
  show interCount [wrapP L (ax + -1) (ay + -2), wrapP L (ax + 1) (ay + -2), wrapP L (ax + 2) (ay + 0),
    wrapP L (ax + 1) (ay + 2), wrapP L (ax + -1) (ay + 2), wrapP L (ax + -2) (ay + 0)]
    (supp L bx by') % 2 = 0
  rw [interCount_6]
  simp only [hh1 hL ha hb, hh2 hL ha hb, hh3 hL ha hb, hh4 hL ha hb, hh5 hL ha hb, hh6 hL ha hb]
  generalize (bx - ax) % (9 * (L : Int)) = ex at *
  generalize ((3 * by' - 2 * bx) - (3 * ay - 2 * ax)) % (36 * (L : Int)) = eu at *
  by_cases c0 : ex = 0 ∧ eu = 0
  · rw [if_pos (by omega), if_pos (by omega), if_pos (by omega), if_pos (by omega),
      if_pos (by omega), if_pos (by omega)]
  · by_cases c1 : ex = 9 * (L : Int) - 3 ∧ eu = 0
    · rw [if_pos (by omega), if_neg (by omega), if_neg (by omega), if_neg (by omega),
        if_neg (by omega), if_pos (by omega)]
    · by_cases c2 : ex = 0 ∧ eu = 36 * (L : Int) - 12
      · rw [if_pos (by omega), if_pos (by omega), if_neg (by omega), if_neg (by omega),
          if_neg (by omega), if_neg (by omega)]
      · by_cases c3 : ex = 3 ∧ eu = 36 * (L : Int) - 12
        · rw [if_neg (by omega), if_pos (by omega), if_pos (by omega), if_neg (by omega),
            if_neg (by omega), if_neg (by omega)]
        · by_cases c4 : ex = 3 ∧ eu = 0
          · rw [if_neg (by omega), if_neg (by omega), if_pos (by omega), if_pos (by omega),
              if_neg (by omega), if_neg (by omega)]
          · by_cases c5 : ex = 0 ∧ eu = 12
            · rw [if_neg (by omega), if_neg (by omega), if_neg (by omega), if_pos (by omega),
                if_pos (by omega), if_neg (by omega)]
            · by_cases c6 : ex = 9 * (L : Int) - 3 ∧ eu = 12
              · rw [if_neg (by omega), if_neg (by omega), if_neg (by omega), if_neg (by omega),
                  if_pos (by omega), if_pos (by omega)]
              · rw [if_neg (by omega), if_neg (by omega), if_neg (by omega), if_neg (by omega),
                  if_neg (by omega), if_neg (by omega)]

/-! ### the derived qubit list -/

/-- `(a, b)` is a qubit coordinate (closed form of the derived list) -/
def IsQ (L : Nat) (a b : Int) : Prop :=
  InD L a b ∧ (((a % 6 = 1 ∨ a % 6 = 3) ∧ b % 4 = 0) ∨ ((a % 6 = 0 ∨ a % 6 = 4) ∧ b % 4 = 2))

theorem nodup_qubits (L : Nat) : (qubits L L).Nodup := nodup_derivedQubits _ _

theorem mem_qubits_faces {L : Nat} (hL : 1 ≤ L) {q : Coord} :
    q ∈ qubits L L ↔ ∃ x y, IsF L x y ∧ q ∈ supp L x y := by
  unfold qubits
  simp only []
  rw [mem_derivedQubits]
  constructor
  · rintro ⟨s, hs, hq⟩
    obtain ⟨x, y, p, rfl, hf, hp⟩ := mem_stabs.mp hs
    rw [getStabIn_eq hL hs, Option.getD_some, map_fst_const] at hq
    exact ⟨x, y, hf, hq⟩
  · rintro ⟨x, y, hf, hq⟩
    have hs : [x, y, 0] ∈ stabs L L := mem_stabs'.mpr ⟨hf, Or.inl rfl⟩
    refine ⟨[x, y, 0], hs, ?_⟩
    rw [getStabIn_eq hL hs, Option.getD_some, map_fst_const]
    exact hq

/-- a wrapped corner of a face is a site of the closed form -/
theorem isQ_corner {L : Nat} (hL : 1 ≤ L) {x y dx dy : Int} (h : IsF L x y)
    (hd : (dx = -1 ∧ dy = -2) ∨ (dx = 1 ∧ dy = -2) ∨ (dx = 2 ∧ dy = 0) ∨ (dx = 1 ∧ dy = 2) ∨
      (dx = -1 ∧ dy = 2) ∨ (dx = -2 ∧ dy = 0)) :
    ∃ a b, wrapP L (x + dx) (y + dy) = [a, b] ∧ IsQ L a b := by
  obtain ⟨qx, qy, e, hD, hx, hu⟩ := wrapP_spec hL (near_corner hL h hd)
  refine ⟨qx, qy, e, hD, ?_⟩
  unfold IsF skew at h
  rcases hd with ⟨rfl, rfl⟩ | ⟨rfl, rfl⟩ | ⟨rfl, rfl⟩ | ⟨rfl, rfl⟩ | ⟨rfl, rfl⟩ | ⟨rfl, rfl⟩ <;>
    omega

theorem supp_isQ {L : Nat} (hL : 1 ≤ L) {x y : Int} (h : IsF L x y) {q : Coord}
    (hq : q ∈ supp L x y) : ∃ a b, q = [a, b] ∧ IsQ L a b := by
  unfold supp at hq
  simp only [List.mem_cons, List.not_mem_nil, or_false] at hq
  rcases hq with rfl | rfl | rfl | rfl | rfl | rfl
  · exact isQ_corner hL h (Or.inl ⟨rfl, rfl⟩)
  · exact isQ_corner hL h (Or.inr (Or.inl ⟨rfl, rfl⟩))
  · exact isQ_corner hL h (Or.inr (Or.inr (Or.inl ⟨rfl, rfl⟩)))
  · exact isQ_corner hL h (Or.inr (Or.inr (Or.inr (Or.inl ⟨rfl, rfl⟩))))
  · exact isQ_corner hL h (Or.inr (Or.inr (Or.inr (Or.inr (Or.inl ⟨rfl, rfl⟩)))))
  · exact isQ_corner hL h (Or.inr (Or.inr (Or.inr (Or.inr (Or.inr ⟨rfl, rfl⟩)))))

/-- a point of the domain is its own key -/
theorem wrapP_id {L : Nat} (hL : 1 ≤ L) {a b : Int} (h : InD L a b) : wrapP L a b = [a, b] := by
  unfold InD skew at h
  unfold wrapP skew
  simp only []
  rw [emod_small (k := a) (by omega) (by omega), if_neg (by omega : ¬ a ≥ 9 * (L : Int))]
  by_cases hc : a = 0 ∧ b = 12 * (L : Int) - 2
  · -- the corner: shifted down to `(0, -2)` and sent back by the corner rule
    obtain ⟨rfl, rfl⟩ := hc
    rw [if_pos (by omega)]
  · rw [if_neg (by omega : ¬ b ≥ 12 * (L : Int) + 2 * (a - 2) / 3), if_neg (by omega)]

/-- every site of the closed form is a corner of a face -/
theorem corner_of_isQ {L : Nat} (hL : 1 ≤ L) {a b : Int} (h : IsQ L a b) :
    ∃ x y, IsF L x y ∧ [a, b] ∈ supp L x y := by
  obtain ⟨hD, hm⟩ := h
  have e := wrapP_id hL hD
  unfold InD skew at hD
  unfold supp
  simp only [List.mem_cons, List.not_mem_nil, or_false]
  by_cases h3 : a % 3 = 0
  · by_cases hb : 2 * a / 3 + 2 ≤ b
    · refine ⟨a + 2, b, by unfold IsF skew; omega, Or.inr (Or.inr (Or.inr (Or.inr (Or.inr ?_))))⟩
      rw [show a + 2 + -2 = a by omega, show b + 0 = b by omega, e]
    · refine ⟨a - 1, b + 2, by unfold IsF skew; omega, Or.inr (Or.inl ?_)⟩
      rw [show a - 1 + 1 = a by omega, show b + 2 + -2 = b by omega, e]
  · refine ⟨a + 1, b + 2, by unfold IsF skew; omega, Or.inl ?_⟩
    rw [show a + 1 + -1 = a by omega, show b + 2 + -2 = b by omega, e]

theorem mem_qubits {L : Nat} (hL : 1 ≤ L) {q : Coord} :
    q ∈ qubits L L ↔ ∃ a b, q = [a, b] ∧ IsQ L a b := by
  rw [mem_qubits_faces hL]
  constructor
  · rintro ⟨x, y, hf, hq⟩
    exact supp_isQ hL hf hq
  · rintro ⟨a, b, rfl, h⟩
    exact corner_of_isQ hL h

theorem mem_qubits' {L : Nat} (hL : 1 ≤ L) {a b : Int} : [a, b] ∈ qubits L L ↔ IsQ L a b := by
  rw [mem_qubits hL]
  constructor
  · rintro ⟨x', y', h, hq⟩
    simp only [List.cons.injEq, and_true] at h
    rw [h.1, h.2]; exact hq
  · intro h; exact ⟨a, b, rfl, h⟩

theorem isQubit_iff {L : Nat} (hL : 1 ≤ L) {a b : Int} :
    isQubit L L [a, b] = true ↔ IsQ L a b := by
  unfold isQubit; rw [isIn_iff, mem_qubits' hL]

theorem qubits_stabs_disjoint {L : Nat} (hL : 1 ≤ L) : ∀ q ∈ qubits L L, q ∉ stabs L L := by
  intro q hq hs
  obtain ⟨a, b, rfl, _⟩ := (mem_qubits hL).mp hq
  obtain ⟨x', y', p, h, _⟩ := mem_stabs.mp hs
  simp at h

theorem supp_nonempty (L : Nat) (x y : Int) : supp L x y ≠ [] := by
  unfold supp; simp

end Panqec.Color666ToricCode
