/-
Color3DCode, even sides `≥ 2`: assembly of `Lattice.WF` and `Lattice.CommPair`.  Core Lean only.
-/
import PanqecVerif.Proofs.LatColor3DCodeM

set_option linter.unusedVariables false
set_option linter.unusedSectionVars false

namespace Panqec.Color3DCode
open Panqec.Lat2D Panqec.Color

/-- a kind that is usable at every period `≥ 8` -/
def Kind.Good : Kind → Prop
  | .thin v τ => 0 ≤ τ ∧ τ ≤ 1 ∧ τ ≤ v ∧ v + τ < 8
  | .thick => True

instance (k : Kind) : Decidable k.Good := by cases k <;> unfold Kind.Good <;> infer_instance

theorem Kind.Good.ok {k : Kind} (h : k.Good) {m : Int} (hm : 8 ≤ m) : k.Ok m := by
  cases k with
  | thin v τ => obtain ⟨h0, h1, h2, h3⟩ := h; exact ⟨h0, h1, h2, by omega⟩
  | thick => trivial

section
variable {Lx Ly Lz : Nat} (hx : 2 ≤ Lx) (hy : 2 ≤ Ly) (hz : 2 ≤ Lz) (ex : Lx % 2 = 0)
  (ey : Ly % 2 = 0) (ez : Lz % 2 = 0)
include hx hy hz ex ey ez

/-- an X string whose cell check passes commutes with every generator -/
theorem logX_comm_one {K : List Coord} {M : Int → Int → Int → Bool} {kx ky kz : Kind}
    (hK : NF Lx Ly Lz K M kx ky kz) (gx : kx.Good) (gy : ky.Good) (gz : kz.Good)
    (hc : chkCells M kx ky kz = true) :
    ∀ s ∈ (lattice Lx Ly Lz).stabs, opCommute (lineOp K Pauli.X) ((lattice Lx Ly Lz).getStab s) = true := by
  intro s hs
  obtain ⟨x, y, z, rfl, hS⟩ := mem_stabs.mp hs
  rw [getStab_eq hx hy hz hs, lineOp_firstOcc]
  apply opCommute_const_of
  intro hanti
  by_cases hcell : IsCellLoc x y z
  · rw [interCount_firstOcc _ _ (nodup_keysOf hx hy hz x y z)]
    exact cells_even hx hy hz ex ey ez hK (gx.ok (by omega)) (gy.ok (by omega)) (gz.ok (by omega)) hc hcell
  · rw [letterOf_face hcell] at hanti; exact absurd hanti (by decide)

/-- a Z membrane whose face check passes commutes with every generator -/
theorem logZ_comm_one {K : List Coord} {M : Int → Int → Int → Bool} {kx ky kz : Kind}
    (hK : NF Lx Ly Lz K M kx ky kz) (gx : kx.Good) (gy : ky.Good) (gz : kz.Good)
    (hc : chkFaces M kx ky kz = true) :
    ∀ s ∈ (lattice Lx Ly Lz).stabs, opCommute (lineOp K Pauli.Z) ((lattice Lx Ly Lz).getStab s) = true := by
  intro s hs
  obtain ⟨x, y, z, rfl, hS⟩ := mem_stabs.mp hs
  rw [getStab_eq hx hy hz hs, lineOp_firstOcc]
  apply opCommute_const_of
  intro hanti
  by_cases hcell : IsCellLoc x y z
  · rw [letterOf_cell hcell] at hanti; exact absurd hanti (by decide)
  · rw [interCount_firstOcc _ _ (nodup_keysOf hx hy hz x y z)]
    exact faces_even hx hy hz ex ey ez hK (gx.ok (by omega)) (gy.ok (by omega)) (gz.ok (by omega)) hc
      (isS_parity hS) hcell

theorem logX_comm_all : ∀ a ∈ (lattice Lx Ly Lz).logX, ∀ s ∈ (lattice Lx Ly Lz).stabs,
    opCommute a ((lattice Lx Ly Lz).getStab s) = true := by
  intro a ha
  have ha' : a ∈ logX Lx Ly Lz := ha
  rw [logX_eq] at ha'
  simp only [List.mem_cons, List.not_mem_nil, or_false] at ha'
  rcases ha' with rfl | rfl | rfl | rfl | rfl | rfl | rfl | rfl | rfl
  · exact logX_comm_one hx hy hz ex ey ez (NFX1 hx hy hz ex ey ez) (by decide) (by decide) (by decide) chkX1
  · exact logX_comm_one hx hy hz ex ey ez (NFX2 hx hy hz ex ey ez) (by decide) (by decide) (by decide) chkX2
  · exact logX_comm_one hx hy hz ex ey ez (NFX3 hx hy hz ex ey ez) (by decide) (by decide) (by decide) chkX3
  · exact logX_comm_one hx hy hz ex ey ez (NFX4 hx hy hz ex ey ez) (by decide) (by decide) (by decide) chkX4
  · exact logX_comm_one hx hy hz ex ey ez (NFX5 hx hy hz ex ey ez) (by decide) (by decide) (by decide) chkX5
  · exact logX_comm_one hx hy hz ex ey ez (NFX6 hx hy hz ex ey ez) (by decide) (by decide) (by decide) chkX6
  · exact logX_comm_one hx hy hz ex ey ez (NFX7 hx hy hz ex ey ez) (by decide) (by decide) (by decide) chkX7
  · exact logX_comm_one hx hy hz ex ey ez (NFX8 hx hy hz ex ey ez) (by decide) (by decide) (by decide) chkX8
  · exact logX_comm_one hx hy hz ex ey ez (NFX9 hx hy hz ex ey ez) (by decide) (by decide) (by decide) chkX9

theorem logZ_comm_all : ∀ a ∈ (lattice Lx Ly Lz).logZ, ∀ s ∈ (lattice Lx Ly Lz).stabs,
    opCommute a ((lattice Lx Ly Lz).getStab s) = true := by
  intro a ha
  have ha' : a ∈ logZ Lx Ly Lz := ha
  rw [logZ_eq] at ha'
  simp only [List.mem_cons, List.not_mem_nil, or_false] at ha'
  rcases ha' with rfl | rfl | rfl | rfl | rfl | rfl | rfl | rfl | rfl
  · exact logZ_comm_one hx hy hz ex ey ez (NFZ1 hx hy hz ex ey ez) (by decide) (by decide) (by decide) chkZ1
  · exact logZ_comm_one hx hy hz ex ey ez (NFZ2 hx hy hz ex ey ez) (by decide) (by decide) (by decide) chkZ2
  · exact logZ_comm_one hx hy hz ex ey ez (NFZ3 hx hy hz ex ey ez) (by decide) (by decide) (by decide) chkZ3
  · exact logZ_comm_one hx hy hz ex ey ez (NFZ4 hx hy hz ex ey ez) (by decide) (by decide) (by decide) chkZ4
  · exact logZ_comm_one hx hy hz ex ey ez (NFZ5 hx hy hz ex ey ez) (by decide) (by decide) (by decide) chkZ5
  · exact logZ_comm_one hx hy hz ex ey ez (NFZ6 hx hy hz ex ey ez) (by decide) (by decide) (by decide) chkZ6
  · exact logZ_comm_one hx hy hz ex ey ez (NFZ7 hx hy hz ex ey ez) (by decide) (by decide) (by decide) chkZ7
  · exact logZ_comm_one hx hy hz ex ey ez (NFZ8 hx hy hz ex ey ez) (by decide) (by decide) (by decide) chkZ8
  · exact logZ_comm_one hx hy hz ex ey ez (NFZ9 hx hy hz ex ey ez) (by decide) (by decide) (by decide) chkZ9

theorem lineOp_same_comm (A B : List Coord) (P : Pauli) :
    opCommute (lineOp A P) (lineOp B P) = true := by
  rw [lineOp_firstOcc, lineOp_firstOcc]; exact opCommute_same _ _ P

end

end Panqec.Color3DCode
