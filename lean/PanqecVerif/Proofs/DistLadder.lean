/-
Counting lemmas for the all-sizes distance proofs of the 2-D surface codes (core Lean only):
sums over `0 … L-1` (`rsum`), cyclic shifts of the summation index, counts along a
parametrised key list, and the "ladder" argument: if consecutive lines `A i`, `A (i+1)` differ
by rungs that are each counted twice, all lines have the same parity.
-/
import PanqecVerif.Proofs.Lat2DBase

namespace Panqec.Lat2D

/-- `g 0 + … + g (L-1)` -/
def rsum : Nat → (Nat → Nat) → Nat
  | 0, _ => 0
  | L + 1, g => rsum L g + g L

theorem rsum_congr {g h : Nat → Nat} : ∀ L : Nat, (∀ j, j < L → g j = h j) → rsum L g = rsum L h
  | 0, _ => rfl
  | L + 1, hgh => by
    simp only [rsum]
    rw [rsum_congr L (fun j hj => hgh j (by omega)), hgh L (by omega)]

theorem rsum_add (g h : Nat → Nat) : ∀ L : Nat,
    rsum L (fun j => g j + h j) = rsum L g + rsum L h
  | 0 => rfl
  | L + 1 => by simp only [rsum, rsum_add g h L]; omega

theorem rsum_even {g : Nat → Nat} : ∀ L : Nat, (∀ j, j < L → g j % 2 = 0) → rsum L g % 2 = 0
  | 0, _ => rfl
  | L + 1, h => by
    simp only [rsum]
    have := rsum_even L (fun j hj => h j (by omega))
    have := h L (by omega)
    omega

/-- peel the first term -/
theorem rsum_succ' (g : Nat → Nat) : ∀ L : Nat, rsum (L + 1) g = g 0 + rsum L (fun j => g (j + 1))
  | 0 => by simp [rsum]
  | L + 1 => by
    rw [rsum, rsum_succ' g L]
    simp only [rsum]
    omega

/-- cyclic shift by `-1` of the summation index -/
theorem rsum_predWrap (g : Nat → Nat) (L : Nat) :
    rsum L (fun j => g (if j = 0 then L - 1 else j - 1)) = rsum L g := by
  cases L with
  | zero => rfl
  | succ L =>
    rw [rsum_succ']
    simp only [if_true, Nat.add_sub_cancel]
    have h : rsum L (fun j => g (if j + 1 = 0 then L else j)) = rsum L g :=
      rsum_congr L (fun j _ => by rw [if_neg (by omega)])
    rw [h, rsum]
    omega

/-- cyclic shift by `+1` of the summation index -/
theorem rsum_succWrap (g : Nat → Nat) (L : Nat) :
    rsum L (fun j => g (if j + 1 = L then 0 else j + 1)) = rsum L g := by
  cases L with
  | zero => rfl
  | succ L =>
    rw [rsum_succ' g L, rsum]
    have h : rsum L (fun j => g (if j + 1 = L + 1 then 0 else j + 1)) =
        rsum L (fun j => g (j + 1)) :=
      rsum_congr L (fun j hj => by rw [if_neg (by omega)])
    rw [h, if_pos rfl]
    omega

/-- open boundary: shifting the index when both end terms vanish -/
theorem rsum_shift_open (g : Nat → Nat) (L : Nat) (h0 : g 0 = 0) (hL : g L = 0) :
    rsum L (fun j => g (j + 1)) = rsum L g := by
  have h1 := rsum_succ' g L
  have h2 : rsum (L + 1) g = rsum L g + g L := rfl
  omega

/-- a count along the key list `c 0, …, c (L-1)` as a sum of indicators -/
theorem countP_range_map (p : Coord → Bool) (c : Nat → Coord) : ∀ L : Nat,
    ((List.range L).map c).countP p = rsum L (fun j => if p (c j) = true then 1 else 0)
  | 0 => rfl
  | L + 1 => by
    rw [List.range_succ, List.map_append, List.countP_append, countP_range_map p c L]
    simp [rsum, List.countP_cons]

/-- **Ladder.**  Lines `A 0, …, A (M-1)`; between `A i` and `A (i+1)` a rung line `B i`, and the
    `j`-th constraint involves `A i j`, `A (i+1) j` and two rung entries, each rung entry
    occurring in exactly two constraints (`B' i` is a rearrangement of `B i`).  If every
    constraint is even, all lines have the same parity. -/
theorem ladder (L M : Nat) (A B B' : Nat → Nat → Nat)
    (hB : ∀ i, i + 1 < M → rsum L (B' i) = rsum L (B i))
    (h : ∀ i, i + 1 < M → ∀ j, j < L → (A i j + A (i + 1) j + B i j + B' i j) % 2 = 0) :
    ∀ i, i < M → rsum L (A i) % 2 = rsum L (A 0) % 2
  | 0, _ => rfl
  | i + 1, hi => by
    have ih := ladder L M A B B' hB h i (by omega)
    have he := rsum_even L (h i hi)
    have e : rsum L (fun j => A i j + A (i + 1) j + B i j + B' i j) =
        rsum L (A i) + rsum L (A (i + 1)) + rsum L (B i) + rsum L (B' i) := by
      rw [rsum_add, rsum_add, rsum_add]
    rw [e, hB i hi] at he
    omega

theorem range'_two : ∀ (n s : Nat), List.range' s n 2 = (List.range n).map (fun i => s + 2 * i)
  | 0, _ => rfl
  | n + 1, s => by
    rw [List.range'_succ, range'_two n (s + 2), List.range_succ_eq_map, List.map_cons,
      List.map_map]
    congr 1
    apply List.map_congr_left
    intro i _
    simp only [Function.comp]
    omega

/-- **Ladder with open boundaries**, in lattice coordinates (`u` = moving coordinate, `w` =
    coordinate along the line): lines at `u = 2i + a`, positions `w = 2j + c`; the constraint
    at `(2i + a + 1, 2j + c)` involves its four neighbours, and `F` vanishes on the two
    positions just outside the rung line. -/
theorem ladder_open (a c : Int) (M L : Nat) (F : Int → Int → Nat)
    (hz0 : ∀ i : Nat, F (2 * i + a + 1) (c - 1) = 0)
    (hzL : ∀ i : Nat, F (2 * i + a + 1) (2 * L + c - 1) = 0)
    (hstab : ∀ i j : Nat, i + 1 < M → j < L →
      (F (2 * i + a) (2 * j + c) + F (2 * i + a + 2) (2 * j + c)
        + F (2 * i + a + 1) (2 * j + c - 1) + F (2 * i + a + 1) (2 * j + c + 1)) % 2 = 0) :
    ∀ i : Nat, i < M →
      rsum L (fun j => F (2 * i + a) (2 * j + c)) % 2 = rsum L (fun j => F a (2 * j + c)) % 2 := by
  intro i hi
  have h := ladder L M (fun i j => F (2 * i + a) (2 * j + c))
    (fun i j => F (2 * i + a + 1) (2 * j + c - 1))
    (fun i j => F (2 * i + a + 1) (2 * j + c + 1)) ?_ ?_ i hi
  · simpa using h
  · intro i _
    rw [← rsum_shift_open (fun j => F (2 * i + a + 1) (2 * j + c - 1)) L]
    · apply rsum_congr
      intro j _
      show F _ _ = F _ _
      congr 1
      omega
    · have := hz0 i
      simpa using this
    · exact hzL i
  · intro i hi j hj
    have := hstab i j hi hj
    have e : (2 * ((i + 1 : Nat) : Int) + a) = 2 * (i : Int) + a + 2 := by omega
    simp only [e]
    omega

/-- consecutive lines with even pairwise sums have the same parity -/
theorem chain (M : Nat) (S : Nat → Nat) (h : ∀ i, i + 1 < M → (S i + S (i + 1)) % 2 = 0) :
    ∀ i, i < M → S i % 2 = S 0 % 2
  | 0, _ => rfl
  | i + 1, hi => by
    have := chain M S h i (by omega)
    have := h i hi
    omega

/-- **Domino tiling of a line.**  The sites `2k` (`0 ≤ k ≤ L`) of one parity class `k % 2 = e`
    each cover the two positions `2k - 1`, `2k + 1`; together they cover every position
    `1, 3, …, 2L - 1` exactly once (`g` vanishes at the two positions outside). -/
theorem rsum_pairs (e : Nat) (he : e < 2) (L : Nat) (g : Int → Nat) (h0 : g (-1) = 0)
    (hL : g (2 * L + 1) = 0) :
    rsum (L + 1) (fun k => if k % 2 = e then g (2 * k - 1) + g (2 * k + 1) else 0) =
      rsum L (fun j => g (2 * j + 1)) := by
  have hsplit : rsum (L + 1) (fun k => if k % 2 = e then g (2 * k - 1) + g (2 * k + 1) else 0) =
      rsum (L + 1) (fun k => if k % 2 = e then g (2 * k - 1) else 0) +
        rsum (L + 1) (fun k => if k % 2 = e then g (2 * k + 1) else 0) := by
    rw [← rsum_add]
    apply rsum_congr
    intro k _
    by_cases hk : k % 2 = e
    · simp only [if_pos hk]
    · simp only [if_neg hk]
  have s1 : rsum (L + 1) (fun k => if k % 2 = e then g (2 * (k : Int) - 1) else 0) =
      rsum L (fun j => if (j + 1) % 2 = e then g (2 * (j : Int) + 1) else 0) := by
    rw [rsum_succ']
    have hz : (if 0 % 2 = e then g (2 * ((0 : Nat) : Int) - 1) else 0) = 0 := by
      by_cases h : 0 % 2 = e
      · rw [if_pos h]; simpa using h0
      · rw [if_neg h]
    rw [hz, Nat.zero_add]
    apply rsum_congr
    intro j _
    have ej : 2 * ((j + 1 : Nat) : Int) - 1 = 2 * (j : Int) + 1 := by omega
    simp only [ej]
  have s2 : rsum (L + 1) (fun k => if k % 2 = e then g (2 * (k : Int) + 1) else 0) =
      rsum L (fun j => if j % 2 = e then g (2 * (j : Int) + 1) else 0) := by
    show rsum L _ + (if L % 2 = e then g (2 * (L : Int) + 1) else 0) = _
    rw [hL]
    simp
  rw [hsplit, s1, s2, ← rsum_add]
  apply rsum_congr
  intro j _
  by_cases h1 : (j + 1) % 2 = e <;> by_cases h2 : j % 2 = e
  · omega
  · simp only [if_pos h1, if_neg h2]; omega
  · simp only [if_neg h1, if_pos h2]; omega
  · omega

/-- Python `range(1, 2L + 1, 2)` -/
theorem pyRange2_odd (L : Nat) :
    pyRange2 1 (2 * L + 1) = (List.range L).map (fun j => ((2 * j + 1 : Nat) : Int)) := by
  unfold pyRange2
  have h : (2 * L + 1 - 1 + 1) / 2 = L := by omega
  rw [h, range'_two, List.map_map]
  apply List.map_congr_left
  intro j _
  simp only [Function.comp, Int.ofNat_eq_natCast]
  congr 1
  omega

/-- Python `range(p, 2L, 2)` for `p ≤ 1` -/
theorem pyRange2_eq (p L : Nat) (hp : p ≤ 1) :
    pyRange2 p (2 * L) = (List.range L).map (fun j => ((2 * j + p : Nat) : Int)) := by
  unfold pyRange2
  have h : (2 * L - p + 1) / 2 = L := by omega
  rw [h, range'_two, List.map_map]
  apply List.map_congr_left
  intro j _
  simp only [Function.comp, Int.ofNat_eq_natCast]
  congr 1
  omega

end Panqec.Lat2D
