/-
Helper lemmas about `Model/Code.lean` (generic stabilizer-code model), collected:
* `Code1` — the assembly loops `toBsfFold` / `stabRowFold` equal `toBsf` / `stabRow`;
* `Code2` — dict operators give binary non-zero rows; `to_bsf` / `from_bsf` bijection;
* `Code3` — CSS block structure (`isCss`, masks, `Hx`/`Hz`, syndrome parts).
-/
import PanqecVerif.Proofs.Code1
import PanqecVerif.Proofs.Code2
import PanqecVerif.Proofs.Code3
