/-
Lemmas shared by the all-sizes proofs of the rhombic codes (`RhombicPlanarCode`,
`RhombicToricCode`): Python `range(n)`, the sign vector of a triangle `(axis, x, y, z)` (the three
legs point towards an uncoloured cube: `(x+sx + y+sy + z+sz) % 4 = 3`), the arithmetic core of the
cube/triangle commutation, `qubit_axis` and `get_deformation` in closed form.
-/
import PanqecVerif.Proofs.Lat3DbCss
import PanqecVerif.Proofs.Lat3DbPair
import PanqecVerif.Model.Lattices.Rhombic
open Panqec Panqec.Lat3Db
namespace Panqec.Rhombic

theorem mem_pyRange (n : Nat) (x : Int) : x ∈ pyRange n ↔ 0 ≤ x ∧ x < n := by
  unfold pyRange
  simp only [List.mem_map, List.mem_range, Int.ofNat_eq_natCast]
  constructor
  · rintro ⟨i, hi, rfl⟩; omega
  · rintro ⟨h0, h1⟩; exact ⟨x.toNat, by omega, by omega⟩

theorem nodup_pyRange (n : Nat) : (pyRange n).Nodup := by
  unfold pyRange
  exact List.Nodup.map (fun a b h => Int.ofNat.inj h) List.nodup_range

/-! ### the sign vector of a triangle -/

/-- x sign of the legs of the triangle of axis `a` -/
def sgnX (a : Int) : Int := if a = 0 ∨ a = 2 then 1 else -1
/-- y sign -/
def sgnY (a : Int) : Int := if a = 0 ∨ a = 3 then 1 else -1
/-- z sign; depends on the parity class of the vertex -/
def sgnZ (a x y z : Int) : Int :=
  if (x + y + z) % 4 = 0 then (if a = 0 ∨ a = 1 then 1 else -1) else (if a = 2 ∨ a = 3 then 1 else -1)

def IsAxis (a : Int) : Prop := a = 0 ∨ a = 1 ∨ a = 2 ∨ a = 3
instance (a : Int) : Decidable (IsAxis a) := by unfold IsAxis; infer_instance

theorem sgnX_pm (a : Int) : sgnX a = 1 ∨ sgnX a = -1 := by unfold sgnX; split <;> simp
theorem sgnY_pm (a : Int) : sgnY a = 1 ∨ sgnY a = -1 := by unfold sgnY; split <;> simp
theorem sgnZ_pm (a x y z : Int) : sgnZ a x y z = 1 ∨ sgnZ a x y z = -1 := by
  unfold sgnZ; split <;> split <;> simp

/-- the legs point into an uncoloured cube -/
theorem sgn_parity (a x y z : Int) (ha : IsAxis a) (hx : x % 2 = 0) (hy : y % 2 = 0) (hz : z % 2 = 0) :
    (x + sgnX a + (y + sgnY a) + (z + sgnZ a x y z)) % 4 = 3 := by
  unfold sgnX sgnY sgnZ
  by_cases hp : (x + y + z) % 4 = 0
  · simp only [hp, if_true]
    rcases ha with rfl | rfl | rfl | rfl <;> simp <;> omega
  · simp only [hp, if_false]
    rcases ha with rfl | rfl | rfl | rfl <;> simp <;> omega

/-- the four triangles of a vertex have distinct sign vectors: the axis is determined by the x and
    y signs -/
theorem axis_of_signs (a b : Int) (ha : IsAxis a) (hb : IsAxis b) (h1 : sgnX a = sgnX b)
    (h2 : sgnY a = sgnY b) : a = b := by
  unfold sgnX at h1; unfold sgnY at h2
  rcases ha with rfl | rfl | rfl | rfl <;> rcases hb with rfl | rfl | rfl | rfl <;> simp at h1 h2 ⊢

/-- `delta_axis[axis]` as three unit steps with the signs of the triangle -/
theorem triDelta_eq (a x y z : Int) (ha : IsAxis a) :
    triDelta a x y z = [[sgnX a, 0, 0], [0, sgnY a, 0], [0, 0, sgnZ a x y z]] := by
  unfold triDelta sgnX sgnY sgnZ
  by_cases hp : (x + y + z) % 4 = 0
  · simp only [hp, if_true]
    rcases ha with rfl | rfl | rfl | rfl <;> simp [triDelta0]
  · have hb : ((x + y + z) % 4 == 0) = false := by simp [hp]
    simp only [hb, hp, if_false]
    rcases ha with rfl | rfl | rfl | rfl <;> simp [triDelta2]

/-! ### arithmetic core of the cube / triangle commutation -/

/-- `d = ±1` -/
def U (d : Int) : Prop := d = 1 ∨ d = -1
instance (d : Int) : Decidable (U d) := by unfold U; infer_instance

/-- with `d` the offset from the vertex to the cube and `s` the sign vector of the triangle, the
    number of legs of the triangle that are edges of the cube is even, because the cube is coloured
    and the triangle points into an uncoloured one -/
theorem legs_even (dx dy dz sx sy sz : Int) (hsx : U sx) (hsy : U sy) (hsz : U sz)
    (hp : U dx → U dy → U dz → (dx + dy + dz - (sx + sy + sz)) % 4 = 2) :
    (ind (dx = sx ∧ U dy ∧ U dz) + ind (dy = sy ∧ U dx ∧ U dz) + ind (dz = sz ∧ U dx ∧ U dy)) % 2 = 0 := by
  by_cases hx : U dx
  · by_cases hy : U dy
    · by_cases hz : U dz
      · have hp := hp hx hy hz
        unfold U at *
        rcases hx with rfl | rfl <;> rcases hy with rfl | rfl <;> rcases hz with rfl | rfl <;>
          rcases hsx with rfl | rfl <;> rcases hsy with rfl | rfl <;> rcases hsz with rfl | rfl <;>
          first | (exfalso; omega) | decide
      · have h1 : ¬ (dx = sx ∧ U dy ∧ U dz) := fun h => hz h.2.2
        have h2 : ¬ (dy = sy ∧ U dx ∧ U dz) := fun h => hz h.2.2
        have h3 : ¬ (dz = sz ∧ U dx ∧ U dy) := fun h => hz (h.1 ▸ hsz)
        rw [ind_neg h1, ind_neg h2, ind_neg h3]
    · have h1 : ¬ (dx = sx ∧ U dy ∧ U dz) := fun h => hy h.2.1
      have h2 : ¬ (dy = sy ∧ U dx ∧ U dz) := fun h => hy (h.1 ▸ hsy)
      have h3 : ¬ (dz = sz ∧ U dx ∧ U dy) := fun h => hy h.2.2
      rw [ind_neg h1, ind_neg h2, ind_neg h3]
  · have h1 : ¬ (dx = sx ∧ U dy ∧ U dz) := fun h => hx (h.1 ▸ hsx)
    have h2 : ¬ (dy = sy ∧ U dx ∧ U dz) := fun h => hx h.2.1
    have h3 : ¬ (dz = sz ∧ U dx ∧ U dy) := fun h => hx h.2.1
    rw [ind_neg h1, ind_neg h2, ind_neg h3]

/-- explicit signs of the four axes -/
theorem sgn_facts (b u v w : Int) (hb : IsAxis b) :
    (b = 0 ∧ sgnX b = 1 ∧ sgnY b = 1 ∧
      (((u + v + w) % 4 = 0 ∧ sgnZ b u v w = 1) ∨ ((u + v + w) % 4 ≠ 0 ∧ sgnZ b u v w = -1))) ∨
    (b = 1 ∧ sgnX b = -1 ∧ sgnY b = -1 ∧
      (((u + v + w) % 4 = 0 ∧ sgnZ b u v w = 1) ∨ ((u + v + w) % 4 ≠ 0 ∧ sgnZ b u v w = -1))) ∨
    (b = 2 ∧ sgnX b = 1 ∧ sgnY b = -1 ∧
      (((u + v + w) % 4 = 0 ∧ sgnZ b u v w = -1) ∨ ((u + v + w) % 4 ≠ 0 ∧ sgnZ b u v w = 1))) ∨
    (b = 3 ∧ sgnX b = -1 ∧ sgnY b = 1 ∧
      (((u + v + w) % 4 = 0 ∧ sgnZ b u v w = -1) ∨ ((u + v + w) % 4 ≠ 0 ∧ sgnZ b u v w = 1))) := by
  unfold sgnX sgnY sgnZ
  by_cases hp : (u + v + w) % 4 = 0 <;> rcases hb with rfl | rfl | rfl | rfl <;> simp [hp]

/-- lexicographic comparison from the comparison of the ranks -/
theorem lex_of_le {X U Y V M ra rb : Nat} (_hY : Y < M) (hV : V < M) (ha : ra < 4) (hb : rb < 4)
    (h : (X * M + Y) * 4 + ra ≤ (U * M + V) * 4 + rb) :
    X < U ∨ (X = U ∧ (Y < V ∨ (Y = V ∧ ra ≤ rb))) := by
  rcases Nat.lt_trichotomy X U with h1 | h1 | h1
  · exact Or.inl h1
  · subst h1
    right
    refine ⟨rfl, ?_⟩
    generalize X * M = P at h
    omega
  · exfalso
    have : (U + 1) * M ≤ X * M := Nat.mul_le_mul_right M h1
    rw [Nat.succ_mul] at this
    generalize X * M = Q at *
    generalize U * M = P at *
    omega

/-! ### `qubit_axis` and `get_deformation` -/

/-- `qubit_axis` in closed form on a location whose coordinates have the parities of a qubit -/
theorem qubitAxis_eq (x y z : Int)
    (h : (x % 2 = 1 ∧ y % 2 = 0 ∧ z % 2 = 0) ∨ (x % 2 = 0 ∧ y % 2 = 1 ∧ z % 2 = 0) ∨
      (x % 2 = 0 ∧ y % 2 = 0 ∧ z % 2 = 1)) :
    qubitAxis [x, y, z] = some (if x % 2 = 1 then "x" else if y % 2 = 1 then "y" else "z") := by
  unfold qubitAxis
  rcases h with ⟨h1, h2, h3⟩ | ⟨h1, h2, h3⟩ | ⟨h1, h2, h3⟩ <;> simp [h1, h2, h3]

/-- `get_deformation` for every name on a location with three coordinates -/
theorem getDeformation_rule (name : String) (x y z : Int) :
    getDeformation name [x, y, z] =
      if name ≠ "Checkerboard XZZX" then none
      else (qubitAxis [x, y, z]).map fun a =>
            if a = "z" ∧ ((z % 4 = 3 ∧ (x + y) % 4 = 2) ∨ (z % 4 = 1 ∧ (x + y) % 4 = 0))
            then PauliMap.swapXZ else PauliMap.id := by
  unfold getDeformation
  by_cases hn : name = "Checkerboard XZZX"
  · simp only [hn, bne_self_eq_false, Bool.false_eq_true, if_false, ne_eq, not_true_eq_false]
    cases hq : qubitAxis [x, y, z] with
    | none => rfl
    | some a =>
      simp only [Option.map_some, checker, Bool.and_eq_true, beq_iff_eq, Bool.or_eq_true]
  · have : (name != "Checkerboard XZZX") = true := by simpa using hn
    simp [this, hn]

/-- a location that does not have three coordinates is rejected (`ValueError`) for every name -/
theorem getDeformation_bad_location (name : String) (loc : Coord) (h : loc.length ≠ 3) :
    getDeformation name loc = none := by
  unfold getDeformation
  split
  · rfl
  · split
    · simp at h
    · rfl

theorem getDeformation_isPerm {name : String} {loc : Coord} {m : PauliMap}
    (h : getDeformation name loc = some m) : m.isPerm = true := by
  unfold getDeformation at h
  split at h
  · cases h
  · split at h
    · split at h
      · cases h
      · simp only [Option.some.injEq] at h
        subst h
        split <;> decide
    · cases h

end Panqec.Rhombic
