/-
RotatedPlanar3DCode lattice model: the two logical operators — closed forms, overlap parities with
every stabilizer kind, and the pairing of logical X with logical Z; for every lattice size.
-/
import PanqecVerif.Proofs.LatRotatedPlanar3DCode1
open Panqec Panqec.Lat3Db
namespace Panqec.RotatedPlanar3DCode

def logXKeys (Lx : Nat) : List Coord := (pyRange2 1 (2*Lx)).map fun x => [x, 1, 1]
def logZKeys (Ly Lz : Nat) : List Coord :=
  (pyRange2 1 (2*Lz)).flatMap fun z => (pyRange2 1 (2*Ly)).map fun y => [1, y, z]

theorem mem_logXKeys (Lx : Nat) (p q r : Int) : [p, q, r] ∈ logXKeys Lx ↔ R1 (2 * Lx) p ∧ q = 1 ∧ r = 1 := by
  unfold logXKeys
  simp only [List.mem_map, mem_pyRange2_1, List.cons.injEq, and_true]
  constructor
  · rintro ⟨x, hx, rfl, rfl, rfl⟩; exact ⟨hx, rfl, rfl⟩
  · rintro ⟨hx, rfl, rfl⟩; exact ⟨p, hx, rfl, rfl, rfl⟩

theorem mem_logZKeys (Ly Lz : Nat) (p q r : Int) :
    [p, q, r] ∈ logZKeys Ly Lz ↔ p = 1 ∧ R1 (2 * Ly) q ∧ R1 (2 * Lz) r := by
  unfold logZKeys
  simp only [List.mem_flatMap, List.mem_map, mem_pyRange2_1, List.cons.injEq, and_true]
  constructor
  · rintro ⟨z, hz, y, hy, rfl, rfl, rfl⟩; exact ⟨rfl, hy, hz⟩
  · rintro ⟨rfl, hy, hz⟩; exact ⟨r, hz, q, hy, rfl, rfl, rfl⟩

theorem nodup_logXKeys (Lx : Nat) : (logXKeys Lx).Nodup := by
  unfold logXKeys
  refine List.Nodup.map ?_ (nodup_pyRange2 _ _)
  intro a b h; simpa using h

theorem nodup_logZKeys (Ly Lz : Nat) : (logZKeys Ly Lz).Nodup := by
  unfold logZKeys
  rw [List.nodup_flatMap]
  refine ⟨fun z _ => ?_, ?_⟩
  · refine List.Nodup.map ?_ (nodup_pyRange2 _ _)
    intro a b h; simpa using h
  · refine List.Pairwise.imp_of_mem ?_ (nodup_pyRange2 1 (2*Lz))
    intro a b _ _ hab
    simp only [Function.onFun, List.Disjoint, List.mem_map]
    rintro c ⟨y, _, rfl⟩ ⟨y', _, h⟩
    simp only [List.cons.injEq, and_true] at h
    exact hab h.2.2.symm

theorem logX_eq (Lx Ly Lz : Nat) : logX Lx Ly Lz = [constOp (logXKeys Lx) Pauli.X] := by
  show [dictOf (logXKeys Lx) Pauli.X] = _
  rw [dictOf_eq _ _ (nodup_logXKeys Lx)]

theorem logZ_eq (Lx Ly Lz : Nat) : logZ Lx Ly Lz = [constOp (logZKeys Ly Lz) Pauli.Z] := by
  show [dictOf (logZKeys Ly Lz) Pauli.Z] = _
  rw [dictOf_eq _ _ (nodup_logZKeys Ly Lz)]

theorem logXKeys_qubits (Lx Ly Lz : Nat) (hy : 1 ≤ Ly) (hz : 1 ≤ Lz) :
    ∀ q ∈ logXKeys Lx, isQubit Lx Ly Lz q = true := by
  intro q hq
  unfold logXKeys at hq
  simp only [List.mem_map, mem_pyRange2_1] at hq
  obtain ⟨x, hx, rfl⟩ := hq
  rw [isQubit_iff]; left
  unfold QH R1; unfold R1 at hx; omega

theorem logZKeys_qubits (Lx Ly Lz : Nat) (hx : 1 ≤ Lx) :
    ∀ q ∈ logZKeys Ly Lz, isQubit Lx Ly Lz q = true := by
  intro q hq
  unfold logZKeys at hq
  simp only [List.mem_flatMap, List.mem_map, mem_pyRange2_1] at hq
  obtain ⟨z, hz, y, hy, rfl⟩ := hq
  rw [isQubit_iff]; left
  unfold QH R1; unfold R1 at hy hz; omega

/-- logical X vs vertex -/
theorem logX_vertex (Lx Ly Lz : Nat) (x y z : Int) (hy : 1 ≤ Ly) (hz : 1 ≤ Lz) (hv : SV Lx Ly Lz x y z) :
    ovl (vertexKeys Lx Ly Lz x y z) (logXKeys Lx) % 2 = 0 := by
  unfold vertexKeys
  rw [ovl_filter_left _ _ _ (logXKeys_qubits Lx Ly Lz hy hz)]
  simp only [vertexLocs, ovl_cons_ind, ovl_nil, mem_logXKeys]
  unfold SV R0 R1 R2 at hv
  unfold R1
  have h1 : x % 2 = 0 ∧ 2 ≤ x ∧ x < 2 * Lx := by omega
  have h2 : y % 2 = 0 ∧ z % 2 = 1 := by omega
  clear hv
  by_cases hc : z = 1
  · rcases near3 y 2 with h | h | h | h <;> simp (disch := omega) only [ind_pos, ind_neg]
  · simp (disch := omega) only [ind_neg]

/-- logical Z vs horizontal face -/
theorem logZ_faceZ (Lx Ly Lz : Nat) (a b c : Int) (hx : 1 ≤ Lx) (hf : SH Lx Ly Lz a b c) :
    ovl (faceZKeys Lx Ly Lz a b c) (logZKeys Ly Lz) % 2 = 0 := by
  unfold faceZKeys
  rw [ovl_filter_left _ _ _ (logZKeys_qubits Lx Ly Lz hx)]
  simp only [faceZLocs, ovl_cons_ind, ovl_nil, mem_logZKeys]
  unfold SH R0 R1 R2 at hf
  unfold R1
  have h1 : a % 2 = 0 := by omega
  have h2 : b % 2 = 0 ∧ 2 ≤ b ∧ b < 2 * Ly := by omega
  have h3 : c % 2 = 1 ∧ 1 ≤ c ∧ c < 2 * Lz := by omega
  clear hf
  rcases near3 a 2 with h | h | h | h <;> simp (disch := omega) only [ind_pos, ind_neg]

/-- logical Z vs vertical face, `(a + b) % 4 = 0` -/
theorem logZ_faceX (Lx Ly Lz : Nat) (a b c : Int) (hx : 1 ≤ Lx) (hf : SF Lx Ly Lz a b c) :
    ovl (faceXKeys Lx Ly Lz a b c) (logZKeys Ly Lz) % 2 = 0 := by
  unfold faceXKeys
  rw [ovl_filter_left _ _ _ (logZKeys_qubits Lx Ly Lz hx)]
  simp only [faceXLocs, ovl_cons_ind, ovl_nil, mem_logZKeys]
  unfold SF R1 R2 at hf
  unfold R1
  by_cases hc : a = 1 <;> simp (disch := omega) only [ind_pos, ind_neg]

/-- logical Z vs vertical face, `(a + b) % 4 = 2` -/
theorem logZ_faceY (Lx Ly Lz : Nat) (a b c : Int) (hx : 1 ≤ Lx) (hf : SF Lx Ly Lz a b c) :
    ovl (faceYKeys Lx Ly Lz a b c) (logZKeys Ly Lz) % 2 = 0 := by
  unfold faceYKeys
  rw [ovl_filter_left _ _ _ (logZKeys_qubits Lx Ly Lz hx)]
  simp only [faceYLocs, ovl_cons_ind, ovl_nil, mem_logZKeys]
  unfold SF R1 R2 at hf
  unfold R1
  by_cases hc : a = 1 <;> simp (disch := omega) only [ind_pos, ind_neg]

/-- logical X and logical Z share exactly the qubit `(1, 1, 1)` -/
theorem logX_logZ (Lx Ly Lz : Nat) (hx : 1 ≤ Lx) (hy : 1 ≤ Ly) (hz : 1 ≤ Lz) :
    ovl (logXKeys Lx) (logZKeys Ly Lz) = 1 := by
  unfold ovl logXKeys
  rw [List.countP_map]
  have : ∀ x ∈ pyRange2 1 (2*Lx),
      (((fun q => (logZKeys Ly Lz).contains q) ∘ fun x => [x, 1, 1]) x = true ↔ (x == 1) = true) := by
    intro x _
    simp only [Function.comp, List.contains_iff_mem, mem_logZKeys, R1, beq_iff_eq]
    constructor
    · intro h; exact h.1
    · intro h; subst h; omega
  rw [List.countP_congr this]
  have h1 : (1 : Int) ∈ pyRange2 1 (2*Lx) := by rw [mem_pyRange2_1]; unfold R1; omega
  have := List.count_eq_one_of_mem (nodup_pyRange2 1 (2*Lx)) h1
  rw [List.count] at this
  simpa [eq_comm] using this

end Panqec.RotatedPlanar3DCode
