/-
Color666ToricCode, square sizes `L ≥ 1`: the four strings of qubits carrying the logical operators
(`keysA`, `keysB`: zig-zags of constant `3y + 2x` winding around the torus in `x`; `keysC`, `keysD`:
zig-zags in the columns `x = 3, 4` winding in `y`), described as the qubits satisfying a linear
predicate.  Core Lean only.
-/
import PanqecVerif.Proofs.LatColor666ToricCodeC

set_option linter.unusedVariables false
set_option linter.unusedSimpArgs false

namespace Panqec.Color666ToricCode
open Panqec.Lat2D Panqec.Color
open Panqec.Color488Code (emod_small emod_neg_small emod_bridge)

theorem mem_pyRangeStep9 {a : Nat} {b x : Int} :
    x ∈ pyRangeStep a b 9 ↔ (a : Int) ≤ x ∧ x < b ∧ (x - a) % 9 = 0 := by
  unfold pyRangeStep
  simp only [List.mem_map, List.mem_range']
  constructor
  · rintro ⟨m, ⟨i, hi, rfl⟩, rfl⟩
    simp only [Int.ofNat_eq_natCast]
    omega
  · rintro ⟨h1, h2, h3⟩
    refine ⟨x.toNat, ⟨(x.toNat - a) / 9, ?_, ?_⟩, ?_⟩
    · omega
    · omega
    · simp only [Int.ofNat_eq_natCast]; omega

theorem mem_pyRangeStep12 {a : Nat} {b x : Int} :
    x ∈ pyRangeStep a b 12 ↔ (a : Int) ≤ x ∧ x < b ∧ (x - a) % 12 = 0 := by
  unfold pyRangeStep
  simp only [List.mem_map, List.mem_range']
  constructor
  · rintro ⟨m, ⟨i, hi, rfl⟩, rfl⟩
    simp only [Int.ofNat_eq_natCast]
    omega
  · rintro ⟨h1, h2, h3⟩
    refine ⟨x.toNat, ⟨(x.toNat - a) / 12, ?_, ?_⟩, ?_⟩
    · omega
    · omega
    · simp only [Int.ofNat_eq_natCast]; omega

/-- the linear predicates -/
def PA (L : Nat) (a b : Int) : Prop :=
  (a % 9 = 4 ∧ 3 * b + 2 * a = 36 * (L : Int) + 2) ∨
  (a % 9 = 6 ∧ 3 * b + 2 * a = 36 * (L : Int) + 6) ∨
  (a % 9 = 0 ∧ (3 * b + 2 * a = 36 * (L : Int) + 6 ∨ 3 * b + 2 * a = 6)) ∨
  (a % 9 = 1 ∧ (3 * b + 2 * a = 36 * (L : Int) + 2 ∨ 3 * b + 2 * a = 2))

def PB (L : Nat) (a b : Int) : Prop :=
  ((a % 9 = 0 ∨ a % 9 = 6) ∧ 3 * b + 2 * a = 36 * (L : Int) - 6) ∨
  ((a % 9 = 1 ∨ a % 9 = 4) ∧ 3 * b + 2 * a = 36 * (L : Int) - 10)

def PC (a b : Int) : Prop :=
  (a = 3 ∧ (b % 12 = 4 ∨ b % 12 = 8)) ∨ (a = 4 ∧ (b % 12 = 2 ∨ b % 12 = 10))

def PD (a b : Int) : Prop :=
  (a = 3 ∧ (b % 12 = 8 ∨ b % 12 = 0)) ∨ (a = 4 ∧ (b % 12 = 6 ∨ b % 12 = 2))

instance (L : Nat) (a b : Int) : Decidable (PA L a b) := by unfold PA; infer_instance
instance (L : Nat) (a b : Int) : Decidable (PB L a b) := by unfold PB; infer_instance
instance (a b : Int) : Decidable (PC a b) := by unfold PC; infer_instance
instance (a b : Int) : Decidable (PD a b) := by unfold PD; infer_instance

/-- the key lists with the `is_qubit` branch of the first one resolved -/
def kA (L : Nat) : List Coord := keysA (isQubit L L) L L
def kB (L : Nat) : List Coord := keysB L L
def kC (L : Nat) : List Coord := keysC L
def kD (L : Nat) : List Coord := keysD L

theorem isQ_unfold {L : Nat} {a b : Int} : IsQ L a b ↔
    ((0 ≤ a ∧ a < 9 * (L : Int) ∧
      ((a = 0 ∧ -2 < b ∧ b ≤ 12 * (L : Int) - 2) ∨
       (a ≠ 0 ∧ (2 * (a - 2)) / 3 ≤ b ∧ b < 12 * (L : Int) + (2 * (a - 2)) / 3))) ∧
     (((a % 6 = 1 ∨ a % 6 = 3) ∧ b % 4 = 0) ∨ ((a % 6 = 0 ∨ a % 6 = 4) ∧ b % 4 = 2))) := by
  unfold IsQ InD skew; rfl

theorem mem_kA {L : Nat} (hL : 1 ≤ L) {q : Coord} :
    q ∈ kA L ↔ ∃ a b, q = [a, b] ∧ IsQ L a b ∧ PA L a b := by
  unfold kA keysA
  simp only [List.mem_flatMap, mem_pyRangeStep9, List.mem_append, List.mem_cons, List.not_mem_nil,
    or_false]
  constructor
  · rintro ⟨x, hx, h⟩
    by_cases hq : isQubit L L [x + 1, 12 * (L : Int) - 6 - 6 * (x - 8) / 9 + 2] = true
    · have hq' := (isQubit_iff hL).mp hq
      rw [isQ_unfold] at hq'
      rw [if_pos hq] at h
      simp only [List.mem_cons, List.not_mem_nil, or_false] at h
      rcases h with (rfl | rfl) | rfl | rfl <;>
        exact ⟨_, _, rfl, by rw [isQ_unfold]; omega, by unfold PA; omega⟩
    · have hq' := fun e => hq ((isQubit_iff hL).mpr e)
      rw [isQ_unfold] at hq'
      rw [if_neg hq] at h
      simp only [List.mem_cons, List.not_mem_nil, or_false] at h
      rcases h with (rfl | rfl) | rfl | rfl <;>
        exact ⟨_, _, rfl, by rw [isQ_unfold]; omega, by unfold PA; omega⟩
  · rintro ⟨a, b, rfl, hq, hp⟩
    rw [isQ_unfold] at hq
    unfold PA at hp
    rcases hp with ⟨h9, hv⟩ | ⟨h9, hv⟩ | ⟨h9, hv⟩ | ⟨h9, hv⟩
    · exact ⟨a + 4, by omega, Or.inl (Or.inl (by
        simp only [List.cons.injEq, and_true]; omega))⟩
    · exact ⟨a + 2, by omega, Or.inl (Or.inr (by
        simp only [List.cons.injEq, and_true]; omega))⟩
    · by_cases h0 : a = 0
      · refine ⟨9 * (L : Int) - 1, by omega, Or.inr ?_⟩
        have hn : ¬ isQubit L L [9 * (L : Int) - 1 + 1,
            12 * (L : Int) - 6 - 6 * (9 * (L : Int) - 1 - 8) / 9 + 2] = true := by
          intro e
          have := (isQubit_iff hL).mp e
          rw [isQ_unfold] at this; omega
        rw [if_neg hn]
        simp only [List.mem_cons, List.not_mem_nil, or_false, List.cons.injEq, and_true]
        omega
      · refine ⟨a - 1, by omega, Or.inr ?_⟩
        have hy : isQubit L L [a - 1 + 1, 12 * (L : Int) - 6 - 6 * (a - 1 - 8) / 9 + 2] = true := by
          rw [isQubit_iff hL, isQ_unfold]; omega
        rw [if_pos hy]
        simp only [List.mem_cons, List.not_mem_nil, or_false, List.cons.injEq, and_true]
        omega
    · by_cases h0 : a = 1
      · refine ⟨9 * (L : Int) - 1, by omega, Or.inr ?_⟩
        have hn : ¬ isQubit L L [9 * (L : Int) - 1 + 1,
            12 * (L : Int) - 6 - 6 * (9 * (L : Int) - 1 - 8) / 9 + 2] = true := by
          intro e
          have := (isQubit_iff hL).mp e
          rw [isQ_unfold] at this; omega
        rw [if_neg hn]
        simp only [List.mem_cons, List.not_mem_nil, or_false, List.cons.injEq, and_true]
        omega
      · refine ⟨a - 2, by omega, Or.inr ?_⟩
        have hy : isQubit L L [a - 2 + 1, 12 * (L : Int) - 6 - 6 * (a - 2 - 8) / 9 + 2] = true := by
          rw [isQubit_iff hL, isQ_unfold]; omega
        rw [if_pos hy]
        simp only [List.mem_cons, List.not_mem_nil, or_false, List.cons.injEq, and_true]
        omega

theorem mem_kB {L : Nat} (hL : 1 ≤ L) {q : Coord} :
    q ∈ kB L ↔ ∃ a b, q = [a, b] ∧ IsQ L a b ∧ PB L a b := by
  unfold kB keysB
  simp only [List.mem_flatMap, mem_pyRangeStep9, List.mem_cons, List.not_mem_nil, or_false]
  constructor
  · rintro ⟨x, hx, h⟩
    rcases h with rfl | rfl | rfl | rfl <;>
      exact ⟨_, _, rfl, by rw [isQ_unfold]; omega, by unfold PB; omega⟩
  · rintro ⟨a, b, rfl, hq, hp⟩
    rw [isQ_unfold] at hq
    unfold PB at hp
    rcases hp with ⟨h9 | h9, hv⟩ | ⟨h9 | h9, hv⟩
    · exact ⟨a + 5, by omega, Or.inl (by simp only [List.cons.injEq, and_true]; omega)⟩
    · exact ⟨a - 1, by omega, Or.inr (Or.inr (Or.inr (by
        simp only [List.cons.injEq, and_true]; omega)))⟩
    · exact ⟨a + 4, by omega, Or.inr (Or.inl (by simp only [List.cons.injEq, and_true]; omega))⟩
    · exact ⟨a + 1, by omega, Or.inr (Or.inr (Or.inl (by
        simp only [List.cons.injEq, and_true]; omega)))⟩

theorem mem_kC {L : Nat} (hL : 1 ≤ L) {q : Coord} :
    q ∈ kC L ↔ ∃ a b, q = [a, b] ∧ IsQ L a b ∧ PC a b := by
  unfold kC keysC
  simp only [List.mem_flatMap, mem_pyRangeStep12, List.mem_cons, List.not_mem_nil, or_false]
  constructor
  · rintro ⟨y, hy, h⟩
    rcases h with rfl | rfl | rfl | rfl <;>
      exact ⟨_, _, rfl, by rw [isQ_unfold]; omega, by unfold PC; omega⟩
  · rintro ⟨a, b, rfl, hq, hp⟩
    rw [isQ_unfold] at hq
    unfold PC at hp
    rcases hp with ⟨rfl, h | h⟩ | ⟨rfl, h | h⟩
    · exact ⟨b + 4, by omega, Or.inr (Or.inr (Or.inl (by
        simp only [List.cons.injEq, true_and, and_true]; omega)))⟩
    · exact ⟨b, by omega, Or.inr (Or.inl (by simp only [List.cons.injEq, true_and, and_true]))⟩
    · exact ⟨b + 6, by omega, Or.inr (Or.inr (Or.inr (by
        simp only [List.cons.injEq, true_and, and_true]; omega)))⟩
    · exact ⟨b - 2, by omega, Or.inl (by simp only [List.cons.injEq, true_and, and_true]; omega)⟩

theorem mem_kD {L : Nat} (hL : 1 ≤ L) {q : Coord} :
    q ∈ kD L ↔ ∃ a b, q = [a, b] ∧ IsQ L a b ∧ PD a b := by
  unfold kD keysD
  simp only [List.mem_flatMap, mem_pyRangeStep12, List.mem_cons, List.not_mem_nil, or_false]
  constructor
  · rintro ⟨y, hy, h⟩
    rcases h with rfl | rfl | rfl | rfl <;>
      exact ⟨_, _, rfl, by rw [isQ_unfold]; omega, by unfold PD; omega⟩
  · rintro ⟨a, b, rfl, hq, hp⟩
    rw [isQ_unfold] at hq
    unfold PD at hp
    rcases hp with ⟨rfl, h | h⟩ | ⟨rfl, h | h⟩
    · exact ⟨b, by omega, Or.inl (by simp only [List.cons.injEq, true_and, and_true])⟩
    · exact ⟨b + 8, by omega, Or.inr (Or.inr (Or.inr (by
        simp only [List.cons.injEq, true_and, and_true]; omega)))⟩
    · exact ⟨b + 2, by omega, Or.inr (Or.inl (by
        simp only [List.cons.injEq, true_and, and_true]; omega))⟩
    · exact ⟨b + 6, by omega, Or.inr (Or.inr (Or.inl (by
        simp only [List.cons.injEq, true_and, and_true]; omega)))⟩

end Panqec.Color666ToricCode
