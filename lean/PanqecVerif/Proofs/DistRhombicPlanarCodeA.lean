/-
RhombicPlanarCode, all sizes (`Lx, Ly ≥ 2`), C17 part A: the parity argument.

A dict operator `b` that commutes with every stabilizer generator (coloured cubes: X on the edges
that are qubits; triangles `(axis, v)`: Z on the legs that are qubits):

* **`X̄`** (all x- and y-edges of the plane `z = 0`) has the `Lz` translates `z = 2i`; consecutive
  translates differ by the coloured cubes of the slab between them, the half cubes `y = -1`,
  `y = 2Ly - 1` of the rough boundaries included (`Lat2D.slab_checker_open`).
* **`Z̄`** (the x-edges `(2Lx-1, 2Ly-2, z)`, all `z`) is equivalent to each of the
  `Lx·Ly + (Lx-1)(Ly-1)` vertical stacks of x-edges `(2j+1, 2k, ·)` and of y-edges `(2j+2, 2k+1, ·)`:
  the product of the triangles of one axis over the vertical stack of vertices `(x, y, ·)` is the
  stack of their x-legs times the stack of their y-legs — the z-legs point alternately up and down
  and cancel in pairs (`Lat2D.rsum_updown`); the four triangles around a cell of the xy grid tie the
  four x-stacks at its corners to the y-stack at its centre (`Lat2D.cells_const`).
-/
import PanqecVerif.Proofs.DistCheckerOpen
import PanqecVerif.Proofs.DistLat3Db
import PanqecVerif.Proofs.LatRhombicPlanarCode4

namespace Panqec.RhombicPlanarCode
open Panqec.Lat3Db Panqec.Rhombic
open Panqec.Lat2D (rsum rsum2 rsum_congr rsum_add rsum_even rsum_zero plane2 countP_plane2 ind)

/-- indicator restricted to the qubits: `0` outside the lattice -/
def indQ (Lx Ly Lz : Nat) (P : Pauli) (b : Op) (q : Coord) : Nat :=
  if isQubit Lx Ly Lz q = true then ind P b q else 0

variable {Lx Ly Lz : Nat}

theorem indQ_of {x y z : Int} (P : Pauli) (b : Op)
    (h : QX Lx Ly Lz x y z ∨ QY Lx Ly Lz x y z ∨ QZ Lx Ly Lz x y z) :
    indQ Lx Ly Lz P b [x, y, z] = ind P b [x, y, z] := by
  unfold indQ; rw [if_pos ((isQubit_iff Lx Ly Lz x y z).mpr h)]

theorem indQ_of_not {x y z : Int} (P : Pauli) (b : Op)
    (h : ¬ (QX Lx Ly Lz x y z ∨ QY Lx Ly Lz x y z ∨ QZ Lx Ly Lz x y z)) :
    indQ Lx Ly Lz P b [x, y, z] = 0 := by
  unfold indQ; rw [if_neg (fun h' => h ((isQubit_iff Lx Ly Lz x y z).mp h'))]

theorem ite_and_bool (p q : Bool) :
    (if (p && q) = true then 1 else 0) = if q = true then (if p = true then 1 else 0) else 0 := by
  cases p <;> cases q <;> rfl

/-- `b` commutes with every stabilizer generator of the lattice -/
def CommStabs (Lx Ly Lz : Nat) (b : Op) : Prop :=
  ∀ s ∈ (lattice Lx Ly Lz).stabs, opAntiCount ((lattice Lx Ly Lz).getStab s) b % 2 = 0

/-! ### one generator (neighbours given by name) -/

/-- a coloured cube: its edges that are qubits carry an even number of hits -/
theorem cube_even {b : Op} (hb : CommStabs Lx Ly Lz b) {x y z : Int} (hv : SC Lx Ly Lz x y z)
    {xm xp ym yp zm zp : Int} (e1 : x - 1 = xm) (e2 : x + 1 = xp) (e3 : y - 1 = ym)
    (e4 : y + 1 = yp) (e5 : z - 1 = zm) (e6 : z + 1 = zp) :
    (indQ Lx Ly Lz Pauli.X b [xp, yp, z] + indQ Lx Ly Lz Pauli.X b [xm, ym, z]
      + indQ Lx Ly Lz Pauli.X b [xp, ym, z] + indQ Lx Ly Lz Pauli.X b [xm, yp, z]
      + indQ Lx Ly Lz Pauli.X b [xp, y, zp] + indQ Lx Ly Lz Pauli.X b [xm, y, zm]
      + indQ Lx Ly Lz Pauli.X b [xp, y, zm] + indQ Lx Ly Lz Pauli.X b [xm, y, zp]
      + indQ Lx Ly Lz Pauli.X b [x, yp, zp] + indQ Lx Ly Lz Pauli.X b [x, ym, zm]
      + indQ Lx Ly Lz Pauli.X b [x, ym, zp] + indQ Lx Ly Lz Pauli.X b [x, yp, zm]) % 2 = 0 := by
  have h : opAntiCount (getStab Lx Ly Lz [x, y, z]) b % 2 = 0 :=
    hb [x, y, z] ((mem_stabs_cube Lx Ly Lz x y z).mpr hv)
  rw [getStab_cube Lx Ly Lz x y z hv, opAntiCount_constOp_hit] at h
  subst e1 e2 e3 e4 e5 e6
  unfold cubeKeys cubeLocs at h
  rw [List.countP_filter] at h
  simp only [List.countP_cons, List.countP_nil, ite_and_bool] at h
  unfold indQ Lat2D.ind
  omega

/-- a triangle: its legs that are qubits carry an even number of hits -/
theorem tri_even {b : Op} (hb : CommStabs Lx Ly Lz b) {a x y z : Int} (hv : ST Lx Ly Lz a x y z) :
    (indQ Lx Ly Lz Pauli.Z b [x + sgnX a, y, z] + indQ Lx Ly Lz Pauli.Z b [x, y + sgnY a, z]
      + indQ Lx Ly Lz Pauli.Z b [x, y, z + sgnZ a x y z]) % 2 = 0 := by
  have h : opAntiCount (getStab Lx Ly Lz [a, x, y, z]) b % 2 = 0 :=
    hb [a, x, y, z] ((mem_stabs_tri Lx Ly Lz a x y z).mpr hv)
  rw [getStab_tri Lx Ly Lz a x y z hv, opAntiCount_constOp_hit] at h
  unfold triKeys triLocs at h
  rw [List.countP_filter] at h
  simp only [List.countP_cons, List.countP_nil, ite_and_bool] at h
  unfold indQ Lat2D.ind
  omega

/-! ### vertical stacks of triangles -/

/-- along a vertical stack of vertices the z-leg of the triangles of one axis points alternately
    up and down -/
theorem sgnZ_par0 {a x y z : Int} (h : (x + y + z) % 4 = 0) :
    sgnZ a x y z = if a = 0 ∨ a = 1 then 1 else -1 := by unfold sgnZ; rw [if_pos h]
theorem sgnZ_par2 {a x y z : Int} (h : ¬ (x + y + z) % 4 = 0) :
    sgnZ a x y z = if a = 2 ∨ a = 3 then 1 else -1 := by unfold sgnZ; rw [if_neg h]

theorem sgnZ_stack (a vx vy : Int) (ha : IsAxis a) (hx : vx % 2 = 0) (hy : vy % 2 = 0) :
    ∃ e : Nat, e < 2 ∧ ∀ m : Nat, sgnZ a vx vy (2 * (m : Int)) = if m % 2 = e then 1 else -1 := by
  by_cases hp : (vx + vy) % 4 = 0
  · by_cases h : a = 0 ∨ a = 1
    · refine ⟨0, by omega, fun m => ?_⟩
      by_cases hm : m % 2 = 0
      · rw [sgnZ_par0 (by omega), if_pos h, if_pos hm]
      · rw [sgnZ_par2 (by omega), if_neg (by unfold IsAxis at ha; omega), if_neg hm]
    · refine ⟨1, by omega, fun m => ?_⟩
      by_cases hm : m % 2 = 1
      · rw [sgnZ_par2 (by omega), if_pos (by unfold IsAxis at ha; omega), if_pos hm]
      · rw [sgnZ_par0 (by omega), if_neg h, if_neg hm]
  · by_cases h : a = 0 ∨ a = 1
    · refine ⟨1, by omega, fun m => ?_⟩
      by_cases hm : m % 2 = 1
      · rw [sgnZ_par0 (by omega), if_pos h, if_pos hm]
      · rw [sgnZ_par2 (by omega), if_neg (by unfold IsAxis at ha; omega), if_neg hm]
    · refine ⟨0, by omega, fun m => ?_⟩
      by_cases hm : m % 2 = 0
      · rw [sgnZ_par2 (by omega), if_pos (by unfold IsAxis at ha; omega), if_pos hm]
      · rw [sgnZ_par0 (by omega), if_neg h, if_neg hm]

/-- the product of the triangles of axis `a` over the vertical stack of vertices `(vx, vy, ·)`: the
    stack of x-legs and the stack of y-legs together carry an even number of hits -/
theorem tri_stack {b : Op} (hb : CommStabs Lx Ly Lz b) {a vx vy : Int} (ha : IsAxis a)
    (hx : R2 (2*Lx) vx) (hy : R0 (2*Ly) vy) (hr : ¬ Rough Ly a vy) :
    (rsum Lz (fun m => indQ Lx Ly Lz Pauli.Z b [vx + sgnX a, vy, 2 * (m : Int)])
      + rsum Lz (fun m => indQ Lx Ly Lz Pauli.Z b [vx, vy + sgnY a, 2 * (m : Int)])) % 2 = 0 := by
  obtain ⟨e, he, hs⟩ := sgnZ_stack a vx vy ha hx.1 hy.1
  have h3 : rsum Lz (fun m => indQ Lx Ly Lz Pauli.Z b [vx, vy, 2 * (m : Int) + sgnZ a vx vy (2 * (m : Int))])
      % 2 = 0 := by
    have hu := Lat2D.rsum_updown_even e he (fun t => indQ Lx Ly Lz Pauli.Z b [vx, vy, t]) Lz
      (indQ_of_not _ _ (by unfold QX QY QZ R0 R1 R2; omega))
      (indQ_of_not _ _ (by unfold QX QY QZ R0 R1 R2; omega))
    rw [← hu]
    congr 1
    apply rsum_congr
    intro m _
    rw [hs m]
    by_cases hm : m % 2 = e
    · rw [if_pos hm, if_pos hm]
    · rw [if_neg hm, if_neg hm]; rfl
  have hall : rsum Lz (fun m => indQ Lx Ly Lz Pauli.Z b [vx + sgnX a, vy, 2 * (m : Int)]
      + indQ Lx Ly Lz Pauli.Z b [vx, vy + sgnY a, 2 * (m : Int)]
      + indQ Lx Ly Lz Pauli.Z b [vx, vy, 2 * (m : Int) + sgnZ a vx vy (2 * (m : Int))]) % 2 = 0 :=
    rsum_even Lz (fun m hm => tri_even hb ⟨ha, hx, hy, by unfold R0; omega, hr⟩)
  rw [rsum_add, rsum_add] at hall
  omega

/-! ### `Z̄`: the vertical stacks -/

/-- the vertical stack of x-edges `(2j + 1, 2k, ·)` -/
def tLX (Lz : Nat) (j k : Nat) : List Coord :=
  (pyRange2 0 (2 * Lz)).map fun z => [2 * (j : Int) + 1, 2 * (k : Int), z]
/-- the vertical stack of y-edges `(2j + 2, 2k + 1, ·)` -/
def tLY (Lz : Nat) (j k : Nat) : List Coord :=
  (pyRange2 0 (2 * Lz)).map fun z => [2 * (j : Int) + 2, 2 * (k : Int) + 1, z]

theorem lineKeys_eq (hx : 1 ≤ Lx) (hy : 1 ≤ Ly) : lineKeys Lx Ly Lz = tLX Lz (Lx - 1) (Ly - 1) := by
  unfold lineKeys tLX
  apply List.map_congr_left
  intro z _
  have e1 : 2 * (Lx : Int) - 1 = 2 * ((Lx - 1 : Nat) : Int) + 1 := by omega
  have e2 : 2 * (Ly : Int) - 2 = 2 * ((Ly - 1 : Nat) : Int) := by omega
  rw [e1, e2]

section zparity
variable {b : Op} (hb : CommStabs Lx Ly Lz b)
include hb

/-- the parities of all vertical stacks agree with that of the last x-stack -/
theorem stacks_const (hx : 2 ≤ Lx) (hy : 2 ≤ Ly) :
    (∀ j k, j < Lx → k < Ly →
      rsum Lz (fun m => indQ Lx Ly Lz Pauli.Z b [2 * (j : Int) + 1, 2 * (k : Int), 2 * (m : Int)]) % 2 =
      rsum Lz (fun m => indQ Lx Ly Lz Pauli.Z b
        [2 * ((Lx - 1 : Nat) : Int) + 1, 2 * ((Ly - 1 : Nat) : Int), 2 * (m : Int)]) % 2) ∧
    (∀ j k, j + 1 < Lx → k + 1 < Ly →
      rsum Lz (fun m => indQ Lx Ly Lz Pauli.Z b [2 * (j : Int) + 2, 2 * (k : Int) + 1, 2 * (m : Int)]) % 2 =
      rsum Lz (fun m => indQ Lx Ly Lz Pauli.Z b
        [2 * ((Lx - 1 : Nat) : Int) + 1, 2 * ((Ly - 1 : Nat) : Int), 2 * (m : Int)]) % 2) := by
  refine Lat2D.cells_const Lx Ly hx hy
    (fun j k => rsum Lz (fun m => indQ Lx Ly Lz Pauli.Z b [2 * (j : Int) + 1, 2 * (k : Int), 2 * (m : Int)]))
    (fun j k => rsum Lz (fun m => indQ Lx Ly Lz Pauli.Z b [2 * (j : Int) + 2, 2 * (k : Int) + 1, 2 * (m : Int)]))
    ?_
  intro j k hj hk
  have a0 : sgnX 0 = 1 := by decide
  have a1 : sgnY 0 = 1 := by decide
  have a2 : sgnX 1 = -1 := by decide
  have a3 : sgnY 1 = -1 := by decide
  have a4 : sgnX 2 = 1 := by decide
  have a5 : sgnY 2 = -1 := by decide
  have a6 : sgnX 3 = -1 := by decide
  have a7 : sgnY 3 = 1 := by decide
  have hvx : R2 (2*Lx) (2 * (j : Int) + 2) := by unfold R2; omega
  have hvy1 : R0 (2*Ly) (2 * (k : Int)) := by unfold R0; omega
  have hvy2 : R0 (2*Ly) (2 * (k : Int) + 2) := by unfold R0; omega
  have t0 := tri_stack hb (a := 0) (Or.inl rfl) hvx hvy1 (by unfold Rough; omega)
  have t3 := tri_stack hb (a := 3) (Or.inr (Or.inr (Or.inr rfl))) hvx hvy1 (by unfold Rough; omega)
  have t1 := tri_stack hb (a := 1) (Or.inr (Or.inl rfl)) hvx hvy2 (by unfold Rough; omega)
  have t2 := tri_stack hb (a := 2) (Or.inr (Or.inr (Or.inl rfl))) hvx hvy2 (by unfold Rough; omega)
  rw [a0, a1] at t0
  rw [a6, a7] at t3
  rw [a2, a3] at t1
  rw [a4, a5] at t2
  have c1 : 2 * (j : Int) + 2 + 1 = 2 * ((j + 1 : Nat) : Int) + 1 := by omega
  have c2 : 2 * (j : Int) + 2 + -1 = 2 * (j : Int) + 1 := by omega
  have c3 : 2 * (k : Int) + 2 + -1 = 2 * (k : Int) + 1 := by omega
  have c4 : 2 * (k : Int) + 2 = 2 * ((k + 1 : Nat) : Int) := by omega
  rw [c1] at t0 t2
  rw [c2] at t3 t1
  rw [c3, c4] at t1 t2
  refine ⟨?_, ?_, ?_, ?_⟩
  · exact t3
  · exact t0
  · exact t1
  · exact t2

/-- `Z̄` against a stack of x-edges -/
theorem parity_LX (hx : 2 ≤ Lx) (hy : 2 ≤ Ly) {j k : Nat} (hj : j < Lx) (hk : k < Ly) :
    (tLX Lz j k).countP (opHit Pauli.Z b) % 2 =
      (lineKeys Lx Ly Lz).countP (opHit Pauli.Z b) % 2 := by
  rw [lineKeys_eq (by omega) (by omega)]
  unfold tLX
  rw [countP_lineE, countP_lineE]
  have h := (stacks_const hb hx hy).1 j k hj hk
  have e : ∀ j k : Nat, j < Lx → k < Ly →
      rsum Lz (fun m => indQ Lx Ly Lz Pauli.Z b [2 * (j : Int) + 1, 2 * (k : Int), 2 * (m : Int)]) =
      rsum Lz (fun m => if opHit Pauli.Z b [2 * (j : Int) + 1, 2 * (k : Int), 2 * (m : Int)] = true
        then 1 else 0) := by
    intro j k hj hk
    apply rsum_congr
    intro m hm
    rw [indQ_of _ _ (Or.inl (by unfold QX R0 R1; omega))]
    rfl
  rw [e j k hj hk, e (Lx - 1) (Ly - 1) (by omega) (by omega)] at h
  exact h

/-- `Z̄` against a stack of y-edges -/
theorem parity_LY (hx : 2 ≤ Lx) (hy : 2 ≤ Ly) {j k : Nat} (hj : j + 1 < Lx) (hk : k + 1 < Ly) :
    (tLY Lz j k).countP (opHit Pauli.Z b) % 2 =
      (lineKeys Lx Ly Lz).countP (opHit Pauli.Z b) % 2 := by
  rw [lineKeys_eq (by omega) (by omega)]
  unfold tLY tLX
  rw [countP_lineE, countP_lineE]
  have h := (stacks_const hb hx hy).2 j k hj hk
  have e1 : rsum Lz (fun m => indQ Lx Ly Lz Pauli.Z b
        [2 * (j : Int) + 2, 2 * (k : Int) + 1, 2 * (m : Int)]) =
      rsum Lz (fun m => if opHit Pauli.Z b [2 * (j : Int) + 2, 2 * (k : Int) + 1, 2 * (m : Int)] = true
        then 1 else 0) := by
    apply rsum_congr
    intro m hm
    rw [indQ_of _ _ (Or.inr (Or.inl (by unfold QY R0 R1 R2; omega)))]
    rfl
  have e2 : rsum Lz (fun m => indQ Lx Ly Lz Pauli.Z b
        [2 * ((Lx - 1 : Nat) : Int) + 1, 2 * ((Ly - 1 : Nat) : Int), 2 * (m : Int)]) =
      rsum Lz (fun m => if opHit Pauli.Z b
        [2 * ((Lx - 1 : Nat) : Int) + 1, 2 * ((Ly - 1 : Nat) : Int), 2 * (m : Int)] = true
        then 1 else 0) := by
    apply rsum_congr
    intro m hm
    rw [indQ_of _ _ (Or.inl (by unfold QX R0 R1; omega))]
    rfl
  rw [e1, e2] at h
  exact h

end zparity

/-! ### `X̄`: the horizontal sheets -/

/-- `X̄` (all x- and y-edges of the plane `z = 0`) translated along z: the plane `z = 2i` -/
def tSheet (Lx Ly : Nat) (i : Nat) : List Coord :=
  plane2 Lx Ly (fun j k => [2 * (j : Int) + 1, 2 * (k : Int), 2 * (i : Int)]) ++
  plane2 (Lx - 1) (Ly - 1) (fun j k => [2 * (j : Int) + 2, 2 * (k : Int) + 1, 2 * (i : Int)])

/-- the count over a sheet as the two double sums of the slab argument -/
theorem countP_tSheet (b : Op) (hx : 1 ≤ Lx) (hy : 1 ≤ Ly) {i : Nat} (hi : i < Lz) :
    (tSheet Lx Ly i).countP (opHit Pauli.X b) =
      rsum2 Lx Ly (fun j k => indQ Lx Ly Lz Pauli.X b [2 * (j : Int) + 1, 2 * (k : Int), 2 * (i : Int)])
      + rsum2 Lx Ly (fun j k => indQ Lx Ly Lz Pauli.X b [2 * (j : Int), 2 * (k : Int) + 1, 2 * (i : Int)])
      := by
  unfold tSheet
  rw [List.countP_append, countP_plane2, countP_plane2]
  congr 1
  · apply Lat2D.rsum2_congr
    intro j k hj hk
    rw [indQ_of _ _ (Or.inl (by unfold QX R0 R1; omega))]
    rfl
  · obtain ⟨a, rfl⟩ : ∃ a, Lx = a + 1 := ⟨Lx - 1, by omega⟩
    obtain ⟨c, rfl⟩ : ∃ c, Ly = c + 1 := ⟨Ly - 1, by omega⟩
    simp only [Nat.add_sub_cancel]
    rw [Lat2D.rsum2_inner_box _ a c
      (fun k => indQ_of_not _ _ (by unfold QX QY QZ R0 R1 R2; omega))
      (fun j => indQ_of_not _ _ (by unfold QX QY QZ R0 R1 R2; omega))]
    apply Lat2D.rsum2_congr
    intro j k hj hk
    have e : 2 * ((j + 1 : Nat) : Int) = 2 * (j : Int) + 2 := by omega
    show _ = indQ (a + 1) (c + 1) Lz Pauli.X b [2 * ((j + 1 : Nat) : Int), 2 * (k : Int) + 1, 2 * (i : Int)]
    rw [e, indQ_of _ _ (Or.inr (Or.inl (by unfold QY R0 R1 R2; omega)))]
    rfl

/-- `X̄`: planes `z = 2i`, through the coloured cubes `(2j + 1, 2k + 1, 2i + 1)` and the half cubes
    `(2j + 1, -1, 2i + 1)` -/
theorem parity_X {b : Op} (hb : CommStabs Lx Ly Lz b) (hx : 1 ≤ Lx) (hy : 1 ≤ Ly) (i : Nat)
    (hi : i < Lz) :
    (tSheet Lx Ly i).countP (opHit Pauli.X b) % 2 = (tSheet Lx Ly 0).countP (opHit Pauli.X b) % 2 := by
  rw [countP_tSheet b hx hy hi, countP_tSheet b hx hy (by omega : 0 < Lz)]
  refine Lat2D.slab_checker_open Lx Ly Lz
    (fun i j k => indQ Lx Ly Lz Pauli.X b [2 * (j : Int) + 1, 2 * (k : Int), 2 * (i : Int)])
    (fun i j k => indQ Lx Ly Lz Pauli.X b [2 * (j : Int), 2 * (k : Int) + 1, 2 * (i : Int)])
    (fun i j k => indQ Lx Ly Lz Pauli.X b [2 * (j : Int), 2 * (k : Int), 2 * (i : Int) + 1])
    ?_ ?_ ?_ ?_ ?_ i hi
  · intro i j k h
    exact indQ_of_not _ _ (by unfold QX QY QZ R0 R1 R2; omega)
  · intro i j k h
    exact indQ_of_not _ _ (by unfold QX QY QZ R0 R1 R2; omega)
  · intro i j k h
    exact indQ_of_not _ _ (by unfold QX QY QZ R0 R1 R2; omega)
  · intro i hi j k hj hk hc
    have hv : SC Lx Ly Lz (2 * (j : Int) + 1) (2 * (k : Int) + 1) (2 * (i : Int) + 1) := by
      unfold SC R1 RM; omega
    have h := cube_even hb hv (xm := 2 * (j : Int)) (xp := 2 * ((j + 1 : Nat) : Int))
      (ym := 2 * (k : Int)) (yp := 2 * ((k + 1 : Nat) : Int))
      (zm := 2 * (i : Int)) (zp := 2 * ((i + 1 : Nat) : Int)) (by omega) (by omega) (by omega)
      (by omega) (by omega) (by omega)
    omega
  · intro i hi j hj hc
    have hv : SC Lx Ly Lz (2 * (j : Int) + 1) (-1) (2 * (i : Int) + 1) := by
      unfold SC R1 RM; omega
    have h := cube_even hb hv (xm := 2 * (j : Int)) (xp := 2 * ((j + 1 : Nat) : Int))
      (ym := -2) (yp := 2 * ((0 : Nat) : Int))
      (zm := 2 * (i : Int)) (zp := 2 * ((i + 1 : Nat) : Int)) (by omega) (by omega) (by omega)
      (by omega) (by omega) (by omega)
    have z1 : indQ Lx Ly Lz Pauli.X b [2 * (j : Int), -2, 2 * (i : Int) + 1] = 0 :=
      indQ_of_not _ _ (by unfold QX QY QZ R0 R1 R2; omega)
    have z2 : indQ Lx Ly Lz Pauli.X b [2 * ((j + 1 : Nat) : Int), -2, 2 * (i : Int) + 1] = 0 :=
      indQ_of_not _ _ (by unfold QX QY QZ R0 R1 R2; omega)
    have z3 : indQ Lx Ly Lz Pauli.X b [2 * ((j + 1 : Nat) : Int), -1, 2 * ((i + 1 : Nat) : Int)] = 0 :=
      indQ_of_not _ _ (by unfold QX QY QZ R0 R1 R2; omega)
    have z4 : indQ Lx Ly Lz Pauli.X b [2 * (j : Int), -1, 2 * (i : Int)] = 0 :=
      indQ_of_not _ _ (by unfold QX QY QZ R0 R1 R2; omega)
    have z5 : indQ Lx Ly Lz Pauli.X b [2 * ((j + 1 : Nat) : Int), -1, 2 * (i : Int)] = 0 :=
      indQ_of_not _ _ (by unfold QX QY QZ R0 R1 R2; omega)
    have z6 : indQ Lx Ly Lz Pauli.X b [2 * (j : Int), -1, 2 * ((i + 1 : Nat) : Int)] = 0 :=
      indQ_of_not _ _ (by unfold QX QY QZ R0 R1 R2; omega)
    have z7 : indQ Lx Ly Lz Pauli.X b [2 * (j : Int) + 1, -2, 2 * (i : Int)] = 0 :=
      indQ_of_not _ _ (by unfold QX QY QZ R0 R1 R2; omega)
    have z8 : indQ Lx Ly Lz Pauli.X b [2 * (j : Int) + 1, -2, 2 * ((i + 1 : Nat) : Int)] = 0 :=
      indQ_of_not _ _ (by unfold QX QY QZ R0 R1 R2; omega)
    omega

end Panqec.RhombicPlanarCode
