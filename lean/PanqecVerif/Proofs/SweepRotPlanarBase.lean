/-
Geometry of C10 on RotatedPlanar3DCode, every size — part 1: membership in the coordinate
lists (`get_qubit_coordinates`, `get_stabilizer_coordinates` with their `(x + y) % 4`
sub-lattice conditions), distinctness of the stabilizer locations, the branch taken by
`RotatedSweepDecoder3D.flip_edge` on every kind of edge, and `get_stabilizer` of every kind
of stabilizer as a filtered candidate list.
-/
import PanqecVerif.Proofs.SweepLattice

namespace Panqec.Sweep

set_option linter.unusedSimpArgs false
set_option linter.unusedVariables false

/-! ### generic additions -/

/-- reduction of `flipOK` when the face list keeps an arbitrary filter (`is_stabilizer(·,'face')`
    for the rotated decoder) and the unfiltered neighbour list is duplicate-free -/
theorem flipOK_of_filterP (lat : Lattice) (faces : Loc → Option (List Loc)) (loc : Loc)
    (raw : List Loc) (p : Loc → Bool) (hf : faces loc = some (raw.filter p)) (hnd : raw.Nodup)
    (h : ∀ s ∈ lat.stabs, ((s ∈ raw ∧ p s = true) ↔ faceHas lat s loc = true)) :
    flipOK lat faces loc = true := by
  apply flipOK_of lat faces loc _ hf (hnd.filter _)
  intro s hs
  rw [List.mem_filter]
  exact h s hs

/-- a dict built from candidates that all carry the letter `P` only has entries `P` -/
theorem buildOp_foldl_all (qs : List Loc) (P : Pauli) (cands acc : List (Loc × Pauli))
    (hc : ∀ c ∈ cands, c.2 = P) (hacc : ∀ e ∈ acc, e.2 = P) :
    ∀ e ∈ cands.foldl (fun op c => if qs.contains c.1 then dictSet op c.1 c.2 else op) acc,
      e.2 = P := by
  induction cands generalizing acc with
  | nil => simpa using hacc
  | cons c cands ih =>
    simp only [List.foldl_cons]
    apply ih _ (fun d hd => hc d (List.mem_cons_of_mem _ hd))
    have hcP : c.2 = P := hc c List.mem_cons_self
    split
    · unfold dictSet
      split
      · intro e he
        obtain ⟨d, hd, rfl⟩ := List.mem_map.mp he
        split
        · exact hcP
        · exact hacc d hd
      · intro e he
        rcases List.mem_append.mp he with h | h
        · exact hacc e h
        · simp at h; rw [h]; exact hcP
    · exact hacc

theorem buildOp_all (qs : List Loc) (P : Pauli) (cands : List (Loc × Pauli))
    (hc : ∀ c ∈ cands, c.2 = P) : ∀ e ∈ buildOp qs cands, e.2 = P := by
  unfold buildOp
  exact buildOp_foldl_all qs P cands [] hc (by simp)

/-- a stabilizer whose dict has only Z entries is never toggled as a face: either it is
    flagged in `z_indices`, or its dict is empty -/
theorem faceHas_of_allZ (lat : Lattice) (s loc : Loc) (h : ∀ e ∈ lat.stabOp s, e.2 = Pauli.Z) :
    faceHas lat s loc = false := by
  unfold faceHas
  have : xorSum (lat.stabOp s) (fun e => hasX e.2 && e.1 == loc) = false := by
    rw [xorSum_congr _ _ (fun _ => false), xorSum_false]
    intro e he
    rw [h e he]
    rfl
  rw [this, Bool.and_false]

/-- on a lattice without seam (`code.id != 'RotatedToric3DCode'`) `_wrap` is the identity -/
theorem wrapRot_noSeam (lat : Lattice) (h : lat.rotSeam = false) (l : Loc) : wrapRot lat l = l := by
  simp [wrapRot, h]

theorem flipFacesRot_noSeam (lat : Lattice) (h : lat.rotSeam = false) (edge : Loc) :
    flipFacesRot lat edge = (rawFacesRot edge).map fun fs => fs.filter lat.isStabFace := by
  unfold flipFacesRot
  have : wrapRot lat = id := by funext l; exact wrapRot_noSeam lat h l
  rw [this]
  simp

theorem sweepFacesRot_noSeam (lat : Lattice) (h : lat.rotSeam = false) (v : Loc) (sd : SweepDir) :
    sweepFacesRot lat v sd = oldSweepFacesRot v sd := by
  simp [sweepFacesRot, wrapRot_noSeam lat h]

theorem sweepEdgesRot_noSeam (lat : Lattice) (h : lat.rotSeam = false) (v : Loc) (sd : SweepDir) :
    sweepEdgesRot lat v sd = oldSweepEdgesRot v sd := by
  simp [sweepEdgesRot, wrapRot_noSeam lat h]

/-! ### membership in the coordinate lists -/

theorem mem_rotPlanarQubits (Lx Ly Lz : Nat) (x y z : Int) :
    (x, y, z) ∈ rotPlanarQubits Lx Ly Lz ↔
      (1 ≤ x ∧ x < 2 * (Lx : Int) ∧ x % 2 = 1 ∧ 1 ≤ y ∧ y < 2 * (Ly : Int) ∧ y % 2 = 1 ∧
        1 ≤ z ∧ z < 2 * (Lz : Int) ∧ z % 2 = 1) ∨
      (2 ≤ x ∧ x < 2 * (Lx : Int) ∧ x % 2 = 0 ∧ 0 ≤ y ∧ y < 2 * (Ly : Int) + 1 ∧ y % 2 = 0 ∧
        2 ≤ z ∧ z < 2 * (Lz : Int) ∧ z % 2 = 0 ∧ (x + y) % 4 = 2) := by
  unfold rotPlanarQubits
  simp only [List.mem_append, List.mem_filter, mem_prod3, mem_range2, xyMod4, beq_iff_eq]
  constructor
  · rintro (h | h)
    · left; omega
    · right; omega
  · rintro (h | h)
    · left; omega
    · right; omega

theorem mem_rotPlanarStabs (Lx Ly Lz : Nat) (x y z : Int) :
    (x, y, z) ∈ rotPlanarStabs Lx Ly Lz ↔
      (2 ≤ x ∧ x < 2 * (Lx : Int) ∧ x % 2 = 0 ∧ 0 ≤ y ∧ y < 2 * (Ly : Int) + 1 ∧ y % 2 = 0 ∧
        1 ≤ z ∧ z < 2 * (Lz : Int) ∧ z % 2 = 1 ∧ (x + y) % 4 = 2) ∨
      (0 ≤ x ∧ x < 2 * (Lx : Int) + 1 ∧ x % 2 = 0 ∧ 2 ≤ y ∧ y < 2 * (Ly : Int) ∧ y % 2 = 0 ∧
        1 ≤ z ∧ z < 2 * (Lz : Int) ∧ z % 2 = 1 ∧ (x + y) % 4 = 0) ∨
      (1 ≤ x ∧ x < 2 * (Lx : Int) + 1 ∧ x % 2 = 1 ∧ 1 ≤ y ∧ y < 2 * (Ly : Int) ∧ y % 2 = 1 ∧
        2 ≤ z ∧ z < 2 * (Lz : Int) ∧ z % 2 = 0) := by
  unfold rotPlanarStabs
  simp only [List.mem_append, List.mem_filter, mem_prod3, mem_range2, xyMod4, beq_iff_eq]
  constructor
  · rintro ((h | h) | h)
    · left; omega
    · right; left; omega
    · right; right; omega
  · rintro (h | h | h)
    · left; left; omega
    · left; right; omega
    · right; omega

/-- stabilizer locations of RotatedPlanar3DCode are pairwise distinct (every size) -/
theorem rotPlanarStabs_nodup (Lx Ly Lz : Nat) : (rotPlanarStabs Lx Ly Lz).Nodup := by
  unfold rotPlanarStabs
  refine List.Nodup.append (List.Nodup.append ((nodup_prod3_range ..).filter _)
    ((nodup_prod3_range ..).filter _) ?_) (nodup_prod3_range ..) ?_
  all_goals
    rw [List.disjoint_left]
    rintro ⟨x, y, z⟩ h1 h2
    simp only [List.mem_append, List.mem_filter, mem_prod3, mem_range2, xyMod4, beq_iff_eq] at h1 h2
    omega

/-- qubit locations of RotatedPlanar3DCode are pairwise distinct (every size) -/
theorem rotPlanarQubits_nodup (Lx Ly Lz : Nat) : (rotPlanarQubits Lx Ly Lz).Nodup := by
  unfold rotPlanarQubits
  refine List.Nodup.append (nodup_prod3_range ..) ((nodup_prod3_range ..).filter _) ?_
  rw [List.disjoint_left]
  rintro ⟨x, y, z⟩ h1 h2
  simp only [List.mem_append, List.mem_filter, mem_prod3, mem_range2, xyMod4, beq_iff_eq] at h1 h2
  omega

/-- on a stabilizer location `is_stabilizer(·, 'face')` is `stabilizer_type(·) == 'face'` -/
theorem rotPlanar_isStabFace_of_mem (Lx Ly Lz : Nat) (s : Loc) (hs : s ∈ rotPlanarStabs Lx Ly Lz) :
    (rotPlanar3D Lx Ly Lz).isStabFace s = rotIsFace s := by
  have : (rotPlanarStabs Lx Ly Lz).contains s = true := List.contains_iff_mem.mpr hs
  simp only [Lattice.isStabFace, rotPlanar3D, this, Bool.true_and]

/-! ### `stabilizer_type` of both rotated codes -/

theorem rotIsFace_vertex (a b c : Int) (pc : c % 2 = 1) (h4 : (a + b) % 4 = 2) :
    rotIsFace (a, b, c) = false := by
  simp only [rotIsFace, xyMod4, h4, pc, beq_self_eq_true, Bool.and_self, Bool.not_true]

theorem rotIsFace_hface (a b c : Int) (h4 : (a + b) % 4 = 0) : rotIsFace (a, b, c) = true := by
  have e02 : ((0 : Int) == 2) = false := by decide
  simp only [rotIsFace, xyMod4, h4, e02, Bool.false_and, Bool.not_false]

theorem rotIsFace_vface (a b c : Int) (pc : c % 2 = 0) : rotIsFace (a, b, c) = true := by
  have e01 : ((0 : Int) == 1) = false := by decide
  simp only [rotIsFace, pc, e01, Bool.and_false, Bool.not_false]

/-! ### the branch taken by `flip_edge` -/

private theorem int_beq_false {a b : Int} (h : a ≠ b) : (a == b) = false := by
  simpa using h

/-- `flip_edge` on a horizontal edge with `(x + y) % 4 = 2` (axis 'x'): the branch
    `edge_direction = 'x'` is taken, whichever of `x % 4`, `y % 4` is 1 or 3 -/
theorem rotRaw_xedge (x y z : Int) (hx : x % 2 = 1) (hy : y % 2 = 1) (hz : z % 2 = 1)
    (h4 : (x + y) % 4 = 2) :
    rawFacesRot (x, y, z) = some [(x + 1, y + 1, z), (x - 1, y - 1, z), (x, y, z + 1), (x, y, z - 1)] := by
  have hz0 : (z % 2 == 0) = false := by rw [hz]; rfl
  have hcase : (x % 4 = 1 ∧ y % 4 = 1) ∨ (x % 4 = 3 ∧ y % 4 = 3) := by omega
  rcases hcase with ⟨h1, h2⟩ | ⟨h1, h2⟩
  · simp only [rawFacesRot, hz0, h1, h2, Bool.false_eq_true, if_false, beq_self_eq_true, if_true]
  · have e31 : ((3 : Int) == 1) = false := by decide
    simp only [rawFacesRot, hz0, h1, h2, e31, Bool.false_eq_true, if_false, beq_self_eq_true, if_true]

/-- `flip_edge` on a horizontal edge with `(x + y) % 4 = 0` (axis 'y') -/
theorem rotRaw_yedge (x y z : Int) (hx : x % 2 = 1) (hy : y % 2 = 1) (hz : z % 2 = 1)
    (h4 : (x + y) % 4 = 0) :
    rawFacesRot (x, y, z) = some [(x + 1, y - 1, z), (x - 1, y + 1, z), (x, y, z + 1), (x, y, z - 1)] := by
  have hz0 : (z % 2 == 0) = false := by rw [hz]; rfl
  have e31 : ((3 : Int) == 1) = false := by decide
  have hcase : (x % 4 = 1 ∧ y % 4 = 3) ∨ (x % 4 = 3 ∧ y % 4 = 1) := by omega
  rcases hcase with ⟨h1, h2⟩ | ⟨h1, h2⟩
  · simp only [rawFacesRot, hz0, h1, h2, e31, Bool.false_eq_true, if_false, beq_self_eq_true, if_true]
  · simp only [rawFacesRot, hz0, h1, h2, e31, Bool.false_eq_true, if_false, beq_self_eq_true, if_true]

/-- `flip_edge` on a vertical edge (axis 'z') -/
theorem rotRaw_zedge (x y z : Int) (hz : z % 2 = 0) :
    rawFacesRot (x, y, z) =
      some [(x + 1, y + 1, z), (x - 1, y - 1, z), (x - 1, y + 1, z), (x + 1, y - 1, z)] := by
  have hz0 : (z % 2 == 0) = true := by rw [hz]; rfl
  simp only [rawFacesRot, hz0, if_true]

end Panqec.Sweep
