/-
Union-find internals (C05), peeling, part A: vocabulary (graph hypotheses, spanning tree
predicate, peeling invariant) and the list/parity facts about one peeling round.
Core Lean only.
-/
import PanqecVerif.Proofs.UnionFindBasic

namespace Panqec.UF

set_option linter.unusedSimpArgs false
set_option linter.unusedVariables false

def b2n (b : Bool) : Nat := if b then 1 else 0

@[simp] theorem b2n_true : b2n true = 1 := rfl
@[simp] theorem b2n_false : b2n false = 0 := rfl

theorem b2n_le (b : Bool) : b2n b ≤ 1 := by cases b <;> simp

theorem cnt_succ' (m : Nat) (f : Nat → Bool) : cnt (m + 1) f = cnt m f + b2n (f m) := cnt_succ m f

theorem cnt_update' (m : Nat) (f : Nat → Bool) (i : Nat) (hi : i < m) (v : Bool) :
    cnt m (fun j => if j = i then v else f j) + b2n (f i) = cnt m f + b2n v := cnt_update m f i hi v

/-- hypotheses on the matrix under which peeling is correct: entries outside the matrix are
    zero, every column has weight at most 2 (a multigraph, dangling and parallel edges allowed),
    and two different rows share fewer than 256 columns (the `uint8` product `H @ H.T` of
    `_build_tree` does not wrap to zero) -/
structure GraphOK (H : Mat) : Prop where
  inRange : ∀ s q, hb H s q = true → s < H.length ∧ q < ncols H
  col2 : ∀ q s1 s2 s3, hb H s1 q = true → hb H s2 q = true → hb H s3 q = true →
    s1 = s2 ∨ s1 = s3 ∨ s2 = s3
  mult : ∀ i j, i ≠ j → cnt (ncols H) (fun q => hb H i q && hb H j q) < 256

/-- `q` is a member qubit adjacent to both member stabilizers `p` and `c` -/
def adjq (H : Mat) (stabs qubits : Nat → Bool) (p c q : Nat) : Bool :=
  subH H stabs qubits p q && subH H stabs qubits c q

/-- what `_build_tree` must deliver (and does, see `UnionFindBfs`): a spanning tree of the
    member stabilizers, rooted at `root`, along member qubits, given as the parent→child matrix -/
structure TreeOK (H : Mat) (stabs qubits : Nat → Bool) (root : Nat) (S0 : Nat → Nat → Bool) : Prop where
  lv : ∃ (lv : Nat → Nat) (B : Nat), ∀ p c, S0 p c = true → lv p < lv c ∧ lv c ≤ B
  mem : ∀ p c, S0 p c = true → stabs p = true ∧ stabs c = true ∧ p ≠ c ∧
    ∃ q, adjq H stabs qubits p c q = true
  uniq : ∀ p p' c, S0 p c = true → S0 p' c = true → p = p'
  span : ∀ c, stabs c = true → c ≠ root → ∃ p, S0 p c = true
  rootNo : ∀ p, S0 p root = false
  rootMem : stabs root = true

/-- the parent of `c` as the code finds it: the nonzero column index of row `c` of `child_to_p` -/
def parOf (m : Nat) (S0 : Nat → Nat → Bool) (c : Nat) : Nat :=
  ((List.range m).filter fun p => S0 p c).headD 0

/-- the member qubit shared by `p` and `c` as the code finds it: the first one
    (`shared.argmax(axis=1)`, `firstShared` of the model) -/
def eOf (H : Mat) (stabs qubits : Nat → Bool) (p c : Nat) : Nat :=
  ((List.range (ncols H)).filter fun q => adjq H stabs qubits p c q).headD 0

/-- invariant of the `while` loop of `peel`; `al` = stabilizers not yet peeled off -/
structure PInv (H : Mat) (stabs qubits : Nat → Bool) (S0 : Nat → Nat → Bool) (syn0 : Nat → Bool)
    (al : Nat → Bool) (st : PeelSt) : Prop where
  S_eq : ∀ p c, st.S p c = (S0 p c && al c)
  al_stabs : ∀ v, al v = true → stabs v = true
  al_up : ∀ p c, S0 p c = true → al c = true → al p = true
  leaves_iff : ∀ v, v ∈ st.leaves ↔ (al v = true ∧ ∀ c, st.S v c = false)
  leaves_nodup : st.leaves.Nodup
  syn_al : ∀ s, st.syn s = true → al s = true
  bdry : ∀ s, (st.corr.countP (fun q => hb H s q) + b2n (st.syn s)) % 2 = b2n (syn0 s)
  even : cnt H.length st.syn % 2 = 0
  corr_nodup : st.corr.Nodup
  corr_removed : ∀ q, q ∈ st.corr → ∃ p c, S0 p c = true ∧ al c = false ∧
    q = eOf H stabs qubits p c

theorem firstShared_eq_eOf (H : Mat) (stabs qubits : Nat → Bool) (p c : Nat) :
    firstShared H stabs qubits p c = eOf H stabs qubits p c := rfl

/-! ### list facts -/

theorem flatMap_singleton_eq_map {α β : Type} (l : List α) (f : α → List β) (g : α → β)
    (h : ∀ c, c ∈ l → f c = [g c]) : l.flatMap f = l.map g := by
  induction l with
  | nil => rfl
  | cons a l ih =>
    simp only [List.flatMap_cons, List.map_cons]
    rw [h a (by simp), ih (fun c hc => h c (by simp [hc]))]
    rfl

theorem flatMap_congr' {α β : Type} (l : List α) (f g : α → List β)
    (h : ∀ c, c ∈ l → f c = g c) : l.flatMap f = l.flatMap g := by
  induction l with
  | nil => rfl
  | cons a l ih =>
    simp only [List.flatMap_cons]
    rw [h a (by simp), ih (fun c hc => h c (by simp [hc]))]

theorem flatMap_ite_singleton {α β : Type} (l : List α) (p : α → Bool) (g : α → β) :
    l.flatMap (fun c => if p c = true then [g c] else []) = (l.filter p).map g := by
  induction l with
  | nil => rfl
  | cons a l ih =>
    simp only [List.flatMap_cons, List.filter_cons]
    cases hp : p a <;> simp [ih]

theorem zip_map_self {α β : Type} (l : List α) (f : α → β) :
    (l.map f).zip l = l.map fun c => (f c, c) := by
  induction l with
  | nil => rfl
  | cons a l ih => simp [ih]

theorem zip_map_map {α β γ : Type} (l : List α) (f : α → β) (g : α → γ) :
    (l.map f).zip (l.map g) = l.map fun c => (f c, g c) := by
  induction l with
  | nil => rfl
  | cons a l ih => simp [ih]

theorem countP_or_disjoint {α : Type} (l : List α) (p q : α → Bool)
    (h : ∀ a, a ∈ l → ¬ (p a = true ∧ q a = true)) :
    l.countP (fun a => p a || q a) = l.countP p + l.countP q := by
  induction l with
  | nil => rfl
  | cons a l ih =>
    simp only [List.countP_cons]
    rw [ih (fun b hb => h b (by simp [hb]))]
    have := h a (by simp)
    cases hp : p a <;> cases hq : q a <;> simp_all <;> omega

theorem countP_eq_zero' {α : Type} (l : List α) (p : α → Bool) (h : ∀ a, a ∈ l → p a = false) :
    l.countP p = 0 := by
  rw [List.countP_eq_zero]
  intro a ha; simp [h a ha]

theorem countP_congr' {α : Type} (l : List α) (p q : α → Bool) (h : ∀ a, a ∈ l → p a = q a) :
    l.countP p = l.countP q := by
  induction l with
  | nil => rfl
  | cons a l ih =>
    simp only [List.countP_cons]
    rw [ih (fun b hb => h b (by simp [hb])), h a (by simp)]

/-- in a duplicate-free list the element `s` is counted once -/
theorem countP_eq_nodup (l : List Nat) (hl : l.Nodup) (s : Nat) (g : Nat → Bool) :
    l.countP (fun c => g c && decide (s = c)) = if s ∈ l then b2n (g s) else 0 := by
  induction l with
  | nil => rfl
  | cons a l ih =>
    rw [List.nodup_cons] at hl
    simp only [List.countP_cons, ih hl.2]
    by_cases hsa : s = a
    · subst hsa
      simp [hl.1]
      cases g s <;> simp
    · have : ¬ a = s := fun h => hsa h.symm
      simp [hsa, this]

/-! ### the syndrome update -/

theorem decide_succ_odd (k : Nat) : decide ((k + 1) % 2 = 1) = !decide (k % 2 = 1) := by
  rcases Nat.mod_two_eq_zero_or_one k with h | h
  · have : (k + 1) % 2 = 1 := by omega
    simp [h, this]
  · have : (k + 1) % 2 = 0 := by omega
    simp [h, this]

theorem cnt_toggle (m : Nat) (f : Nat → Bool) (p : Nat) (hp : p < m) (b : Bool) :
    cnt m (fun i => if i = p then (f i != b) else f i) + b2n (f p) = cnt m f + b2n (f p != b) := by
  have h := cnt_update' m f p hp (f p != b)
  have : cnt m (fun i => if i = p then (f i != b) else f i) =
      cnt m (fun j => if j = p then (f p != b) else f j) :=
    cnt_congr m _ _ (fun i _ => by by_cases hi : i = p <;> simp [hi])
  rw [this]; exact h

/-- toggling by a list of (index, bit) pairs -/
theorem toggle_fold (L : List (Nat × Bool)) (f : Nat → Bool) (s : Nat) :
    (L.foldl (fun (f : Nat → Bool) (pl : Nat × Bool) => fun i => if i = pl.1 then (f i != pl.2) else f i) f) s =
      (f s != decide (L.countP (fun pl => decide (pl.1 = s) && pl.2) % 2 = 1)) := by
  induction L generalizing f with
  | nil => simp
  | cons a L ih =>
    simp only [List.foldl_cons, List.countP_cons]
    rw [ih]
    by_cases h : s = a.1
    · subst h
      generalize L.countP (fun pl => decide (pl.1 = a.1) && pl.2) = k
      cases h2 : a.2
      · simp
      · simp only [decide_true, Bool.true_and, if_true, decide_succ_odd]
        cases f a.1 <;> cases decide (k % 2 = 1) <;> rfl
    · have h' : ¬ a.1 = s := fun hh => h hh.symm
      simp [h, h']

theorem toggle_fold_cnt (m : Nat) (L : List (Nat × Bool)) (f : Nat → Bool)
    (hL : ∀ pl, pl ∈ L → pl.1 < m) :
    cnt m (L.foldl (fun (f : Nat → Bool) (pl : Nat × Bool) => fun i => if i = pl.1 then (f i != pl.2) else f i) f) % 2 =
      (cnt m f + L.countP (fun pl => pl.2)) % 2 := by
  induction L generalizing f with
  | nil => simp
  | cons a L ih =>
    simp only [List.foldl_cons, List.countP_cons]
    rw [ih _ (fun pl hpl => hL pl (by simp [hpl]))]
    have h1 := cnt_toggle m f a.1 (hL a (by simp)) a.2
    generalize cnt m (fun i => if i = a.1 then (f i != a.2) else f i) = e at h1 ⊢
    cases h2 : a.2 <;> cases h3 : f a.1 <;> simp [h2, h3] at h1 ⊢ <;> omega

/-- clearing the (distinct) indices of a list -/
theorem clear_cnt (m : Nat) (l : List Nat) (hl : l.Nodup) (hlt : ∀ c, c ∈ l → c < m) (f : Nat → Bool) :
    cnt m (fun i => if i ∈ l then false else f i) + l.countP f = cnt m f := by
  induction l with
  | nil => simp
  | cons a l ih =>
    rw [List.nodup_cons] at hl
    have h1 := ih hl.2 (fun c hc => hlt c (by simp [hc]))
    have h2 := cnt_update' m (fun i => if i ∈ l then false else f i) a (hlt a (by simp)) false
    have h3 : (fun j => if j = a then false else (if j ∈ l then false else f j)) =
        (fun i => if i ∈ a :: l then false else f i) := by
      funext j
      by_cases hja : j = a <;> simp [hja]
    rw [h3] at h2
    simp only [hl.1, if_false, b2n_false] at h2
    simp only [List.countP_cons]
    have : (if f a = true then 1 else 0) = b2n (f a) := rfl
    omega

end Panqec.UF
