/-
Color3DCode, even sides `≥ 2`: the pairing table of the nine strings of `get_logicals_x` and the nine
membranes of `get_logicals_z` — 81 literal evaluations through `pair_gen` (generated file section).
Core Lean only.
-/
import PanqecVerif.Proofs.LatColor3DCodeL

set_option linter.unusedVariables false
set_option linter.unusedSectionVars false

namespace Panqec.Color3DCode
open Panqec.Lat2D Panqec.Color

theorem b1_small : SmallBlk b1 := by decide
theorem b2_small : SmallBlk b2 := by decide
theorem b3_small : SmallBlk b3 := by decide
theorem b4_small : SmallBlk b4 := by decide
theorem b5_small : SmallBlk b5 := by decide
theorem b6_small : SmallBlk b6 := by decide
theorem b7_small : SmallBlk b7 := by decide
theorem b8_small : SmallBlk b8 := by decide
theorem b9_small : SmallBlk b9 := by decide
theorem b1_nodup : b1.Nodup := by decide
theorem b2_nodup : b2.Nodup := by decide
theorem b3_nodup : b3.Nodup := by decide
theorem b4_nodup : b4.Nodup := by decide
theorem b5_nodup : b5.Nodup := by decide
theorem b6_nodup : b6.Nodup := by decide
theorem b7_nodup : b7.Nodup := by decide
theorem b8_nodup : b8.Nodup := by decide
theorem b9_nodup : b9.Nodup := by decide

theorem e2 (M : Nat) : 2 * M % 2 = 0 := by omega

section
variable {Mx My Mz : Nat} (hx : 2 ≤ 2 * Mx) (hy : 2 ≤ 2 * My) (hz : 2 ≤ 2 * Mz)
include hx hy hz


set_option maxRecDepth 100000 in
theorem pair_1_1 :
    opAntiCount (lineOp (kX1 (2 * Mx) (2 * My) (2 * Mz)) Pauli.X)
      (lineOp (kZ1 (2 * Mx) (2 * My) (2 * Mz)) Pauli.Z) % 2 = 1 := by
  rw [kX1_blocks, pair_gen hx hy hz (NFZ1 hx hy hz (e2 Mx) (e2 My) (e2 Mz)) (by decide) (by decide)
    (by decide) (Or.inl ⟨rfl, rfl⟩) b1_small b1_nodup (by decide +kernel)]
  decide +kernel

set_option maxRecDepth 100000 in
theorem pair_1_2 :
    opAntiCount (lineOp (kX1 (2 * Mx) (2 * My) (2 * Mz)) Pauli.X)
      (lineOp (kZ2 (2 * Mx) (2 * My) (2 * Mz)) Pauli.Z) % 2 = 0 := by
  rw [kX1_blocks, pair_gen hx hy hz (NFZ2 hx hy hz (e2 Mx) (e2 My) (e2 Mz)) (by decide) (by decide)
    (by decide) (Or.inl ⟨rfl, rfl⟩) b1_small b1_nodup (by decide +kernel)]
  decide +kernel

set_option maxRecDepth 100000 in
theorem pair_1_3 :
    opAntiCount (lineOp (kX1 (2 * Mx) (2 * My) (2 * Mz)) Pauli.X)
      (lineOp (kZ3 (2 * Mx) (2 * My) (2 * Mz)) Pauli.Z) % 2 = 0 := by
  rw [kX1_blocks, pair_gen hx hy hz (NFZ3 hx hy hz (e2 Mx) (e2 My) (e2 Mz)) (by decide) (by decide)
    (by decide) (Or.inl ⟨rfl, rfl⟩) b1_small b1_nodup (by decide +kernel)]
  decide +kernel

set_option maxRecDepth 100000 in
theorem pair_1_4 :
    opAntiCount (lineOp (kX1 (2 * Mx) (2 * My) (2 * Mz)) Pauli.X)
      (lineOp (kZ4 (2 * Mx) (2 * My) (2 * Mz)) Pauli.Z) % 2 = 0 := by
  rw [kX1_blocks, pair_gen hx hy hz (NFZ4 hx hy hz (e2 Mx) (e2 My) (e2 Mz)) (by decide) (by decide)
    (by decide) (Or.inl ⟨rfl, rfl⟩) b1_small b1_nodup (by decide +kernel)]
  decide +kernel

set_option maxRecDepth 100000 in
theorem pair_1_5 :
    opAntiCount (lineOp (kX1 (2 * Mx) (2 * My) (2 * Mz)) Pauli.X)
      (lineOp (kZ5 (2 * Mx) (2 * My) (2 * Mz)) Pauli.Z) % 2 = 0 := by
  rw [kX1_blocks, pair_gen hx hy hz (NFZ5 hx hy hz (e2 Mx) (e2 My) (e2 Mz)) (by decide) (by decide)
    (by decide) (Or.inl ⟨rfl, rfl⟩) b1_small b1_nodup (by decide +kernel)]
  decide +kernel

set_option maxRecDepth 100000 in
theorem pair_1_6 :
    opAntiCount (lineOp (kX1 (2 * Mx) (2 * My) (2 * Mz)) Pauli.X)
      (lineOp (kZ6 (2 * Mx) (2 * My) (2 * Mz)) Pauli.Z) % 2 = 0 := by
  rw [kX1_blocks, pair_gen hx hy hz (NFZ6 hx hy hz (e2 Mx) (e2 My) (e2 Mz)) (by decide) (by decide)
    (by decide) (Or.inl ⟨rfl, rfl⟩) b1_small b1_nodup (by decide +kernel)]
  decide +kernel

set_option maxRecDepth 100000 in
theorem pair_1_7 :
    opAntiCount (lineOp (kX1 (2 * Mx) (2 * My) (2 * Mz)) Pauli.X)
      (lineOp (kZ7 (2 * Mx) (2 * My) (2 * Mz)) Pauli.Z) % 2 = 0 := by
  rw [kX1_blocks, pair_gen hx hy hz (NFZ7 hx hy hz (e2 Mx) (e2 My) (e2 Mz)) (by decide) (by decide)
    (by decide) (Or.inl ⟨rfl, rfl⟩) b1_small b1_nodup (by decide +kernel)]
  decide +kernel

set_option maxRecDepth 100000 in
theorem pair_1_8 :
    opAntiCount (lineOp (kX1 (2 * Mx) (2 * My) (2 * Mz)) Pauli.X)
      (lineOp (kZ8 (2 * Mx) (2 * My) (2 * Mz)) Pauli.Z) % 2 = 0 := by
  rw [kX1_blocks, pair_gen hx hy hz (NFZ8 hx hy hz (e2 Mx) (e2 My) (e2 Mz)) (by decide) (by decide)
    (by decide) (Or.inl ⟨rfl, rfl⟩) b1_small b1_nodup (by decide +kernel)]
  decide +kernel

set_option maxRecDepth 100000 in
theorem pair_1_9 :
    opAntiCount (lineOp (kX1 (2 * Mx) (2 * My) (2 * Mz)) Pauli.X)
      (lineOp (kZ9 (2 * Mx) (2 * My) (2 * Mz)) Pauli.Z) % 2 = 0 := by
  rw [kX1_blocks, pair_gen hx hy hz (NFZ9 hx hy hz (e2 Mx) (e2 My) (e2 Mz)) (by decide) (by decide)
    (by decide) (Or.inl ⟨rfl, rfl⟩) b1_small b1_nodup (by decide +kernel)]
  decide +kernel

set_option maxRecDepth 100000 in
theorem pair_2_1 :
    opAntiCount (lineOp (kX2 (2 * Mx) (2 * My) (2 * Mz)) Pauli.X)
      (lineOp (kZ1 (2 * Mx) (2 * My) (2 * Mz)) Pauli.Z) % 2 = 0 := by
  rw [kX2_blocks, pair_gen hx hy hz (NFZ1 hx hy hz (e2 Mx) (e2 My) (e2 Mz)) (by decide) (by decide)
    (by decide) (Or.inl ⟨rfl, rfl⟩) b2_small b2_nodup (by decide +kernel)]
  decide +kernel

set_option maxRecDepth 100000 in
theorem pair_2_2 :
    opAntiCount (lineOp (kX2 (2 * Mx) (2 * My) (2 * Mz)) Pauli.X)
      (lineOp (kZ2 (2 * Mx) (2 * My) (2 * Mz)) Pauli.Z) % 2 = 1 := by
  rw [kX2_blocks, pair_gen hx hy hz (NFZ2 hx hy hz (e2 Mx) (e2 My) (e2 Mz)) (by decide) (by decide)
    (by decide) (Or.inl ⟨rfl, rfl⟩) b2_small b2_nodup (by decide +kernel)]
  decide +kernel

set_option maxRecDepth 100000 in
theorem pair_2_3 :
    opAntiCount (lineOp (kX2 (2 * Mx) (2 * My) (2 * Mz)) Pauli.X)
      (lineOp (kZ3 (2 * Mx) (2 * My) (2 * Mz)) Pauli.Z) % 2 = 0 := by
  rw [kX2_blocks, pair_gen hx hy hz (NFZ3 hx hy hz (e2 Mx) (e2 My) (e2 Mz)) (by decide) (by decide)
    (by decide) (Or.inl ⟨rfl, rfl⟩) b2_small b2_nodup (by decide +kernel)]
  decide +kernel

set_option maxRecDepth 100000 in
theorem pair_2_4 :
    opAntiCount (lineOp (kX2 (2 * Mx) (2 * My) (2 * Mz)) Pauli.X)
      (lineOp (kZ4 (2 * Mx) (2 * My) (2 * Mz)) Pauli.Z) % 2 = 0 := by
  rw [kX2_blocks, pair_gen hx hy hz (NFZ4 hx hy hz (e2 Mx) (e2 My) (e2 Mz)) (by decide) (by decide)
    (by decide) (Or.inl ⟨rfl, rfl⟩) b2_small b2_nodup (by decide +kernel)]
  decide +kernel

set_option maxRecDepth 100000 in
theorem pair_2_5 :
    opAntiCount (lineOp (kX2 (2 * Mx) (2 * My) (2 * Mz)) Pauli.X)
      (lineOp (kZ5 (2 * Mx) (2 * My) (2 * Mz)) Pauli.Z) % 2 = 0 := by
  rw [kX2_blocks, pair_gen hx hy hz (NFZ5 hx hy hz (e2 Mx) (e2 My) (e2 Mz)) (by decide) (by decide)
    (by decide) (Or.inl ⟨rfl, rfl⟩) b2_small b2_nodup (by decide +kernel)]
  decide +kernel

set_option maxRecDepth 100000 in
theorem pair_2_6 :
    opAntiCount (lineOp (kX2 (2 * Mx) (2 * My) (2 * Mz)) Pauli.X)
      (lineOp (kZ6 (2 * Mx) (2 * My) (2 * Mz)) Pauli.Z) % 2 = 0 := by
  rw [kX2_blocks, pair_gen hx hy hz (NFZ6 hx hy hz (e2 Mx) (e2 My) (e2 Mz)) (by decide) (by decide)
    (by decide) (Or.inl ⟨rfl, rfl⟩) b2_small b2_nodup (by decide +kernel)]
  decide +kernel

set_option maxRecDepth 100000 in
theorem pair_2_7 :
    opAntiCount (lineOp (kX2 (2 * Mx) (2 * My) (2 * Mz)) Pauli.X)
      (lineOp (kZ7 (2 * Mx) (2 * My) (2 * Mz)) Pauli.Z) % 2 = 0 := by
  rw [kX2_blocks, pair_gen hx hy hz (NFZ7 hx hy hz (e2 Mx) (e2 My) (e2 Mz)) (by decide) (by decide)
    (by decide) (Or.inl ⟨rfl, rfl⟩) b2_small b2_nodup (by decide +kernel)]
  decide +kernel

set_option maxRecDepth 100000 in
theorem pair_2_8 :
    opAntiCount (lineOp (kX2 (2 * Mx) (2 * My) (2 * Mz)) Pauli.X)
      (lineOp (kZ8 (2 * Mx) (2 * My) (2 * Mz)) Pauli.Z) % 2 = 0 := by
  rw [kX2_blocks, pair_gen hx hy hz (NFZ8 hx hy hz (e2 Mx) (e2 My) (e2 Mz)) (by decide) (by decide)
    (by decide) (Or.inl ⟨rfl, rfl⟩) b2_small b2_nodup (by decide +kernel)]
  decide +kernel

set_option maxRecDepth 100000 in
theorem pair_2_9 :
    opAntiCount (lineOp (kX2 (2 * Mx) (2 * My) (2 * Mz)) Pauli.X)
      (lineOp (kZ9 (2 * Mx) (2 * My) (2 * Mz)) Pauli.Z) % 2 = 0 := by
  rw [kX2_blocks, pair_gen hx hy hz (NFZ9 hx hy hz (e2 Mx) (e2 My) (e2 Mz)) (by decide) (by decide)
    (by decide) (Or.inl ⟨rfl, rfl⟩) b2_small b2_nodup (by decide +kernel)]
  decide +kernel

set_option maxRecDepth 100000 in
theorem pair_3_1 :
    opAntiCount (lineOp (kX3 (2 * Mx) (2 * My) (2 * Mz)) Pauli.X)
      (lineOp (kZ1 (2 * Mx) (2 * My) (2 * Mz)) Pauli.Z) % 2 = 0 := by
  rw [kX3_blocks, pair_gen hx hy hz (NFZ1 hx hy hz (e2 Mx) (e2 My) (e2 Mz)) (by decide) (by decide)
    (by decide) (Or.inl ⟨rfl, rfl⟩) b3_small b3_nodup (by decide +kernel)]
  decide +kernel

set_option maxRecDepth 100000 in
theorem pair_3_2 :
    opAntiCount (lineOp (kX3 (2 * Mx) (2 * My) (2 * Mz)) Pauli.X)
      (lineOp (kZ2 (2 * Mx) (2 * My) (2 * Mz)) Pauli.Z) % 2 = 0 := by
  rw [kX3_blocks, pair_gen hx hy hz (NFZ2 hx hy hz (e2 Mx) (e2 My) (e2 Mz)) (by decide) (by decide)
    (by decide) (Or.inl ⟨rfl, rfl⟩) b3_small b3_nodup (by decide +kernel)]
  decide +kernel

set_option maxRecDepth 100000 in
theorem pair_3_3 :
    opAntiCount (lineOp (kX3 (2 * Mx) (2 * My) (2 * Mz)) Pauli.X)
      (lineOp (kZ3 (2 * Mx) (2 * My) (2 * Mz)) Pauli.Z) % 2 = 1 := by
  rw [kX3_blocks, pair_gen hx hy hz (NFZ3 hx hy hz (e2 Mx) (e2 My) (e2 Mz)) (by decide) (by decide)
    (by decide) (Or.inl ⟨rfl, rfl⟩) b3_small b3_nodup (by decide +kernel)]
  decide +kernel

set_option maxRecDepth 100000 in
theorem pair_3_4 :
    opAntiCount (lineOp (kX3 (2 * Mx) (2 * My) (2 * Mz)) Pauli.X)
      (lineOp (kZ4 (2 * Mx) (2 * My) (2 * Mz)) Pauli.Z) % 2 = 0 := by
  rw [kX3_blocks, pair_gen hx hy hz (NFZ4 hx hy hz (e2 Mx) (e2 My) (e2 Mz)) (by decide) (by decide)
    (by decide) (Or.inl ⟨rfl, rfl⟩) b3_small b3_nodup (by decide +kernel)]
  decide +kernel

set_option maxRecDepth 100000 in
theorem pair_3_5 :
    opAntiCount (lineOp (kX3 (2 * Mx) (2 * My) (2 * Mz)) Pauli.X)
      (lineOp (kZ5 (2 * Mx) (2 * My) (2 * Mz)) Pauli.Z) % 2 = 0 := by
  rw [kX3_blocks, pair_gen hx hy hz (NFZ5 hx hy hz (e2 Mx) (e2 My) (e2 Mz)) (by decide) (by decide)
    (by decide) (Or.inl ⟨rfl, rfl⟩) b3_small b3_nodup (by decide +kernel)]
  decide +kernel

set_option maxRecDepth 100000 in
theorem pair_3_6 :
    opAntiCount (lineOp (kX3 (2 * Mx) (2 * My) (2 * Mz)) Pauli.X)
      (lineOp (kZ6 (2 * Mx) (2 * My) (2 * Mz)) Pauli.Z) % 2 = 0 := by
  rw [kX3_blocks, pair_gen hx hy hz (NFZ6 hx hy hz (e2 Mx) (e2 My) (e2 Mz)) (by decide) (by decide)
    (by decide) (Or.inl ⟨rfl, rfl⟩) b3_small b3_nodup (by decide +kernel)]
  decide +kernel

set_option maxRecDepth 100000 in
theorem pair_3_7 :
    opAntiCount (lineOp (kX3 (2 * Mx) (2 * My) (2 * Mz)) Pauli.X)
      (lineOp (kZ7 (2 * Mx) (2 * My) (2 * Mz)) Pauli.Z) % 2 = 0 := by
  rw [kX3_blocks, pair_gen hx hy hz (NFZ7 hx hy hz (e2 Mx) (e2 My) (e2 Mz)) (by decide) (by decide)
    (by decide) (Or.inl ⟨rfl, rfl⟩) b3_small b3_nodup (by decide +kernel)]
  decide +kernel

set_option maxRecDepth 100000 in
theorem pair_3_8 :
    opAntiCount (lineOp (kX3 (2 * Mx) (2 * My) (2 * Mz)) Pauli.X)
      (lineOp (kZ8 (2 * Mx) (2 * My) (2 * Mz)) Pauli.Z) % 2 = 0 := by
  rw [kX3_blocks, pair_gen hx hy hz (NFZ8 hx hy hz (e2 Mx) (e2 My) (e2 Mz)) (by decide) (by decide)
    (by decide) (Or.inl ⟨rfl, rfl⟩) b3_small b3_nodup (by decide +kernel)]
  decide +kernel

set_option maxRecDepth 100000 in
theorem pair_3_9 :
    opAntiCount (lineOp (kX3 (2 * Mx) (2 * My) (2 * Mz)) Pauli.X)
      (lineOp (kZ9 (2 * Mx) (2 * My) (2 * Mz)) Pauli.Z) % 2 = 0 := by
  rw [kX3_blocks, pair_gen hx hy hz (NFZ9 hx hy hz (e2 Mx) (e2 My) (e2 Mz)) (by decide) (by decide)
    (by decide) (Or.inl ⟨rfl, rfl⟩) b3_small b3_nodup (by decide +kernel)]
  decide +kernel

set_option maxRecDepth 100000 in
theorem pair_4_1 :
    opAntiCount (lineOp (kX4 (2 * Mx) (2 * My) (2 * Mz)) Pauli.X)
      (lineOp (kZ1 (2 * Mx) (2 * My) (2 * Mz)) Pauli.Z) % 2 = 0 := by
  rw [kX4_blocks, pair_gen hx hy hz (NFZ1 hx hy hz (e2 Mx) (e2 My) (e2 Mz)) (by decide) (by decide)
    (by decide) (Or.inr (Or.inl ⟨rfl, rfl⟩)) b4_small b4_nodup (by decide +kernel)]
  decide +kernel

set_option maxRecDepth 100000 in
theorem pair_4_2 :
    opAntiCount (lineOp (kX4 (2 * Mx) (2 * My) (2 * Mz)) Pauli.X)
      (lineOp (kZ2 (2 * Mx) (2 * My) (2 * Mz)) Pauli.Z) % 2 = 0 := by
  rw [kX4_blocks, pair_gen hx hy hz (NFZ2 hx hy hz (e2 Mx) (e2 My) (e2 Mz)) (by decide) (by decide)
    (by decide) (Or.inr (Or.inl ⟨rfl, rfl⟩)) b4_small b4_nodup (by decide +kernel)]
  decide +kernel

set_option maxRecDepth 100000 in
theorem pair_4_3 :
    opAntiCount (lineOp (kX4 (2 * Mx) (2 * My) (2 * Mz)) Pauli.X)
      (lineOp (kZ3 (2 * Mx) (2 * My) (2 * Mz)) Pauli.Z) % 2 = 0 := by
  rw [kX4_blocks, pair_gen hx hy hz (NFZ3 hx hy hz (e2 Mx) (e2 My) (e2 Mz)) (by decide) (by decide)
    (by decide) (Or.inr (Or.inl ⟨rfl, rfl⟩)) b4_small b4_nodup (by decide +kernel)]
  decide +kernel

set_option maxRecDepth 100000 in
theorem pair_4_4 :
    opAntiCount (lineOp (kX4 (2 * Mx) (2 * My) (2 * Mz)) Pauli.X)
      (lineOp (kZ4 (2 * Mx) (2 * My) (2 * Mz)) Pauli.Z) % 2 = 1 := by
  rw [kX4_blocks, pair_gen hx hy hz (NFZ4 hx hy hz (e2 Mx) (e2 My) (e2 Mz)) (by decide) (by decide)
    (by decide) (Or.inr (Or.inl ⟨rfl, rfl⟩)) b4_small b4_nodup (by decide +kernel)]
  decide +kernel

set_option maxRecDepth 100000 in
theorem pair_4_5 :
    opAntiCount (lineOp (kX4 (2 * Mx) (2 * My) (2 * Mz)) Pauli.X)
      (lineOp (kZ5 (2 * Mx) (2 * My) (2 * Mz)) Pauli.Z) % 2 = 0 := by
  rw [kX4_blocks, pair_gen hx hy hz (NFZ5 hx hy hz (e2 Mx) (e2 My) (e2 Mz)) (by decide) (by decide)
    (by decide) (Or.inr (Or.inl ⟨rfl, rfl⟩)) b4_small b4_nodup (by decide +kernel)]
  decide +kernel

set_option maxRecDepth 100000 in
theorem pair_4_6 :
    opAntiCount (lineOp (kX4 (2 * Mx) (2 * My) (2 * Mz)) Pauli.X)
      (lineOp (kZ6 (2 * Mx) (2 * My) (2 * Mz)) Pauli.Z) % 2 = 0 := by
  rw [kX4_blocks, pair_gen hx hy hz (NFZ6 hx hy hz (e2 Mx) (e2 My) (e2 Mz)) (by decide) (by decide)
    (by decide) (Or.inr (Or.inl ⟨rfl, rfl⟩)) b4_small b4_nodup (by decide +kernel)]
  decide +kernel

set_option maxRecDepth 100000 in
theorem pair_4_7 :
    opAntiCount (lineOp (kX4 (2 * Mx) (2 * My) (2 * Mz)) Pauli.X)
      (lineOp (kZ7 (2 * Mx) (2 * My) (2 * Mz)) Pauli.Z) % 2 = 0 := by
  rw [kX4_blocks, pair_gen hx hy hz (NFZ7 hx hy hz (e2 Mx) (e2 My) (e2 Mz)) (by decide) (by decide)
    (by decide) (Or.inr (Or.inl ⟨rfl, rfl⟩)) b4_small b4_nodup (by decide +kernel)]
  decide +kernel

set_option maxRecDepth 100000 in
theorem pair_4_8 :
    opAntiCount (lineOp (kX4 (2 * Mx) (2 * My) (2 * Mz)) Pauli.X)
      (lineOp (kZ8 (2 * Mx) (2 * My) (2 * Mz)) Pauli.Z) % 2 = 0 := by
  rw [kX4_blocks, pair_gen hx hy hz (NFZ8 hx hy hz (e2 Mx) (e2 My) (e2 Mz)) (by decide) (by decide)
    (by decide) (Or.inr (Or.inl ⟨rfl, rfl⟩)) b4_small b4_nodup (by decide +kernel)]
  decide +kernel

set_option maxRecDepth 100000 in
theorem pair_4_9 :
    opAntiCount (lineOp (kX4 (2 * Mx) (2 * My) (2 * Mz)) Pauli.X)
      (lineOp (kZ9 (2 * Mx) (2 * My) (2 * Mz)) Pauli.Z) % 2 = 0 := by
  rw [kX4_blocks, pair_gen hx hy hz (NFZ9 hx hy hz (e2 Mx) (e2 My) (e2 Mz)) (by decide) (by decide)
    (by decide) (Or.inr (Or.inl ⟨rfl, rfl⟩)) b4_small b4_nodup (by decide +kernel)]
  decide +kernel

set_option maxRecDepth 100000 in
theorem pair_5_1 :
    opAntiCount (lineOp (kX5 (2 * Mx) (2 * My) (2 * Mz)) Pauli.X)
      (lineOp (kZ1 (2 * Mx) (2 * My) (2 * Mz)) Pauli.Z) % 2 = 0 := by
  rw [kX5_blocks, pair_gen hx hy hz (NFZ1 hx hy hz (e2 Mx) (e2 My) (e2 Mz)) (by decide) (by decide)
    (by decide) (Or.inr (Or.inl ⟨rfl, rfl⟩)) b5_small b5_nodup (by decide +kernel)]
  decide +kernel

set_option maxRecDepth 100000 in
theorem pair_5_2 :
    opAntiCount (lineOp (kX5 (2 * Mx) (2 * My) (2 * Mz)) Pauli.X)
      (lineOp (kZ2 (2 * Mx) (2 * My) (2 * Mz)) Pauli.Z) % 2 = 0 := by
  rw [kX5_blocks, pair_gen hx hy hz (NFZ2 hx hy hz (e2 Mx) (e2 My) (e2 Mz)) (by decide) (by decide)
    (by decide) (Or.inr (Or.inl ⟨rfl, rfl⟩)) b5_small b5_nodup (by decide +kernel)]
  decide +kernel

set_option maxRecDepth 100000 in
theorem pair_5_3 :
    opAntiCount (lineOp (kX5 (2 * Mx) (2 * My) (2 * Mz)) Pauli.X)
      (lineOp (kZ3 (2 * Mx) (2 * My) (2 * Mz)) Pauli.Z) % 2 = 0 := by
  rw [kX5_blocks, pair_gen hx hy hz (NFZ3 hx hy hz (e2 Mx) (e2 My) (e2 Mz)) (by decide) (by decide)
    (by decide) (Or.inr (Or.inl ⟨rfl, rfl⟩)) b5_small b5_nodup (by decide +kernel)]
  decide +kernel

set_option maxRecDepth 100000 in
theorem pair_5_4 :
    opAntiCount (lineOp (kX5 (2 * Mx) (2 * My) (2 * Mz)) Pauli.X)
      (lineOp (kZ4 (2 * Mx) (2 * My) (2 * Mz)) Pauli.Z) % 2 = 0 := by
  rw [kX5_blocks, pair_gen hx hy hz (NFZ4 hx hy hz (e2 Mx) (e2 My) (e2 Mz)) (by decide) (by decide)
    (by decide) (Or.inr (Or.inl ⟨rfl, rfl⟩)) b5_small b5_nodup (by decide +kernel)]
  decide +kernel

set_option maxRecDepth 100000 in
theorem pair_5_5 :
    opAntiCount (lineOp (kX5 (2 * Mx) (2 * My) (2 * Mz)) Pauli.X)
      (lineOp (kZ5 (2 * Mx) (2 * My) (2 * Mz)) Pauli.Z) % 2 = 1 := by
  rw [kX5_blocks, pair_gen hx hy hz (NFZ5 hx hy hz (e2 Mx) (e2 My) (e2 Mz)) (by decide) (by decide)
    (by decide) (Or.inr (Or.inl ⟨rfl, rfl⟩)) b5_small b5_nodup (by decide +kernel)]
  decide +kernel

set_option maxRecDepth 100000 in
theorem pair_5_6 :
    opAntiCount (lineOp (kX5 (2 * Mx) (2 * My) (2 * Mz)) Pauli.X)
      (lineOp (kZ6 (2 * Mx) (2 * My) (2 * Mz)) Pauli.Z) % 2 = 0 := by
  rw [kX5_blocks, pair_gen hx hy hz (NFZ6 hx hy hz (e2 Mx) (e2 My) (e2 Mz)) (by decide) (by decide)
    (by decide) (Or.inr (Or.inl ⟨rfl, rfl⟩)) b5_small b5_nodup (by decide +kernel)]
  decide +kernel

set_option maxRecDepth 100000 in
theorem pair_5_7 :
    opAntiCount (lineOp (kX5 (2 * Mx) (2 * My) (2 * Mz)) Pauli.X)
      (lineOp (kZ7 (2 * Mx) (2 * My) (2 * Mz)) Pauli.Z) % 2 = 0 := by
  rw [kX5_blocks, pair_gen hx hy hz (NFZ7 hx hy hz (e2 Mx) (e2 My) (e2 Mz)) (by decide) (by decide)
    (by decide) (Or.inr (Or.inl ⟨rfl, rfl⟩)) b5_small b5_nodup (by decide +kernel)]
  decide +kernel

set_option maxRecDepth 100000 in
theorem pair_5_8 :
    opAntiCount (lineOp (kX5 (2 * Mx) (2 * My) (2 * Mz)) Pauli.X)
      (lineOp (kZ8 (2 * Mx) (2 * My) (2 * Mz)) Pauli.Z) % 2 = 0 := by
  rw [kX5_blocks, pair_gen hx hy hz (NFZ8 hx hy hz (e2 Mx) (e2 My) (e2 Mz)) (by decide) (by decide)
    (by decide) (Or.inr (Or.inl ⟨rfl, rfl⟩)) b5_small b5_nodup (by decide +kernel)]
  decide +kernel

set_option maxRecDepth 100000 in
theorem pair_5_9 :
    opAntiCount (lineOp (kX5 (2 * Mx) (2 * My) (2 * Mz)) Pauli.X)
      (lineOp (kZ9 (2 * Mx) (2 * My) (2 * Mz)) Pauli.Z) % 2 = 0 := by
  rw [kX5_blocks, pair_gen hx hy hz (NFZ9 hx hy hz (e2 Mx) (e2 My) (e2 Mz)) (by decide) (by decide)
    (by decide) (Or.inr (Or.inl ⟨rfl, rfl⟩)) b5_small b5_nodup (by decide +kernel)]
  decide +kernel

set_option maxRecDepth 100000 in
theorem pair_6_1 :
    opAntiCount (lineOp (kX6 (2 * Mx) (2 * My) (2 * Mz)) Pauli.X)
      (lineOp (kZ1 (2 * Mx) (2 * My) (2 * Mz)) Pauli.Z) % 2 = 0 := by
  rw [kX6_blocks, pair_gen hx hy hz (NFZ1 hx hy hz (e2 Mx) (e2 My) (e2 Mz)) (by decide) (by decide)
    (by decide) (Or.inr (Or.inl ⟨rfl, rfl⟩)) b6_small b6_nodup (by decide +kernel)]
  decide +kernel

set_option maxRecDepth 100000 in
theorem pair_6_2 :
    opAntiCount (lineOp (kX6 (2 * Mx) (2 * My) (2 * Mz)) Pauli.X)
      (lineOp (kZ2 (2 * Mx) (2 * My) (2 * Mz)) Pauli.Z) % 2 = 0 := by
  rw [kX6_blocks, pair_gen hx hy hz (NFZ2 hx hy hz (e2 Mx) (e2 My) (e2 Mz)) (by decide) (by decide)
    (by decide) (Or.inr (Or.inl ⟨rfl, rfl⟩)) b6_small b6_nodup (by decide +kernel)]
  decide +kernel

set_option maxRecDepth 100000 in
theorem pair_6_3 :
    opAntiCount (lineOp (kX6 (2 * Mx) (2 * My) (2 * Mz)) Pauli.X)
      (lineOp (kZ3 (2 * Mx) (2 * My) (2 * Mz)) Pauli.Z) % 2 = 0 := by
  rw [kX6_blocks, pair_gen hx hy hz (NFZ3 hx hy hz (e2 Mx) (e2 My) (e2 Mz)) (by decide) (by decide)
    (by decide) (Or.inr (Or.inl ⟨rfl, rfl⟩)) b6_small b6_nodup (by decide +kernel)]
  decide +kernel

set_option maxRecDepth 100000 in
theorem pair_6_4 :
    opAntiCount (lineOp (kX6 (2 * Mx) (2 * My) (2 * Mz)) Pauli.X)
      (lineOp (kZ4 (2 * Mx) (2 * My) (2 * Mz)) Pauli.Z) % 2 = 0 := by
  rw [kX6_blocks, pair_gen hx hy hz (NFZ4 hx hy hz (e2 Mx) (e2 My) (e2 Mz)) (by decide) (by decide)
    (by decide) (Or.inr (Or.inl ⟨rfl, rfl⟩)) b6_small b6_nodup (by decide +kernel)]
  decide +kernel

set_option maxRecDepth 100000 in
theorem pair_6_5 :
    opAntiCount (lineOp (kX6 (2 * Mx) (2 * My) (2 * Mz)) Pauli.X)
      (lineOp (kZ5 (2 * Mx) (2 * My) (2 * Mz)) Pauli.Z) % 2 = 0 := by
  rw [kX6_blocks, pair_gen hx hy hz (NFZ5 hx hy hz (e2 Mx) (e2 My) (e2 Mz)) (by decide) (by decide)
    (by decide) (Or.inr (Or.inl ⟨rfl, rfl⟩)) b6_small b6_nodup (by decide +kernel)]
  decide +kernel

set_option maxRecDepth 100000 in
theorem pair_6_6 :
    opAntiCount (lineOp (kX6 (2 * Mx) (2 * My) (2 * Mz)) Pauli.X)
      (lineOp (kZ6 (2 * Mx) (2 * My) (2 * Mz)) Pauli.Z) % 2 = 1 := by
  rw [kX6_blocks, pair_gen hx hy hz (NFZ6 hx hy hz (e2 Mx) (e2 My) (e2 Mz)) (by decide) (by decide)
    (by decide) (Or.inr (Or.inl ⟨rfl, rfl⟩)) b6_small b6_nodup (by decide +kernel)]
  decide +kernel

set_option maxRecDepth 100000 in
theorem pair_6_7 :
    opAntiCount (lineOp (kX6 (2 * Mx) (2 * My) (2 * Mz)) Pauli.X)
      (lineOp (kZ7 (2 * Mx) (2 * My) (2 * Mz)) Pauli.Z) % 2 = 0 := by
  rw [kX6_blocks, pair_gen hx hy hz (NFZ7 hx hy hz (e2 Mx) (e2 My) (e2 Mz)) (by decide) (by decide)
    (by decide) (Or.inr (Or.inl ⟨rfl, rfl⟩)) b6_small b6_nodup (by decide +kernel)]
  decide +kernel

set_option maxRecDepth 100000 in
theorem pair_6_8 :
    opAntiCount (lineOp (kX6 (2 * Mx) (2 * My) (2 * Mz)) Pauli.X)
      (lineOp (kZ8 (2 * Mx) (2 * My) (2 * Mz)) Pauli.Z) % 2 = 0 := by
  rw [kX6_blocks, pair_gen hx hy hz (NFZ8 hx hy hz (e2 Mx) (e2 My) (e2 Mz)) (by decide) (by decide)
    (by decide) (Or.inr (Or.inl ⟨rfl, rfl⟩)) b6_small b6_nodup (by decide +kernel)]
  decide +kernel

set_option maxRecDepth 100000 in
theorem pair_6_9 :
    opAntiCount (lineOp (kX6 (2 * Mx) (2 * My) (2 * Mz)) Pauli.X)
      (lineOp (kZ9 (2 * Mx) (2 * My) (2 * Mz)) Pauli.Z) % 2 = 0 := by
  rw [kX6_blocks, pair_gen hx hy hz (NFZ9 hx hy hz (e2 Mx) (e2 My) (e2 Mz)) (by decide) (by decide)
    (by decide) (Or.inr (Or.inl ⟨rfl, rfl⟩)) b6_small b6_nodup (by decide +kernel)]
  decide +kernel

set_option maxRecDepth 100000 in
theorem pair_7_1 :
    opAntiCount (lineOp (kX7 (2 * Mx) (2 * My) (2 * Mz)) Pauli.X)
      (lineOp (kZ1 (2 * Mx) (2 * My) (2 * Mz)) Pauli.Z) % 2 = 0 := by
  rw [kX7_blocks, pair_gen hx hy hz (NFZ1 hx hy hz (e2 Mx) (e2 My) (e2 Mz)) (by decide) (by decide)
    (by decide) (Or.inr (Or.inr ⟨rfl, rfl⟩)) b7_small b7_nodup (by decide +kernel)]
  decide +kernel

set_option maxRecDepth 100000 in
theorem pair_7_2 :
    opAntiCount (lineOp (kX7 (2 * Mx) (2 * My) (2 * Mz)) Pauli.X)
      (lineOp (kZ2 (2 * Mx) (2 * My) (2 * Mz)) Pauli.Z) % 2 = 0 := by
  rw [kX7_blocks, pair_gen hx hy hz (NFZ2 hx hy hz (e2 Mx) (e2 My) (e2 Mz)) (by decide) (by decide)
    (by decide) (Or.inr (Or.inr ⟨rfl, rfl⟩)) b7_small b7_nodup (by decide +kernel)]
  decide +kernel

set_option maxRecDepth 100000 in
theorem pair_7_3 :
    opAntiCount (lineOp (kX7 (2 * Mx) (2 * My) (2 * Mz)) Pauli.X)
      (lineOp (kZ3 (2 * Mx) (2 * My) (2 * Mz)) Pauli.Z) % 2 = 0 := by
  rw [kX7_blocks, pair_gen hx hy hz (NFZ3 hx hy hz (e2 Mx) (e2 My) (e2 Mz)) (by decide) (by decide)
    (by decide) (Or.inr (Or.inr ⟨rfl, rfl⟩)) b7_small b7_nodup (by decide +kernel)]
  decide +kernel

set_option maxRecDepth 100000 in
theorem pair_7_4 :
    opAntiCount (lineOp (kX7 (2 * Mx) (2 * My) (2 * Mz)) Pauli.X)
      (lineOp (kZ4 (2 * Mx) (2 * My) (2 * Mz)) Pauli.Z) % 2 = 0 := by
  rw [kX7_blocks, pair_gen hx hy hz (NFZ4 hx hy hz (e2 Mx) (e2 My) (e2 Mz)) (by decide) (by decide)
    (by decide) (Or.inr (Or.inr ⟨rfl, rfl⟩)) b7_small b7_nodup (by decide +kernel)]
  decide +kernel

set_option maxRecDepth 100000 in
theorem pair_7_5 :
    opAntiCount (lineOp (kX7 (2 * Mx) (2 * My) (2 * Mz)) Pauli.X)
      (lineOp (kZ5 (2 * Mx) (2 * My) (2 * Mz)) Pauli.Z) % 2 = 0 := by
  rw [kX7_blocks, pair_gen hx hy hz (NFZ5 hx hy hz (e2 Mx) (e2 My) (e2 Mz)) (by decide) (by decide)
    (by decide) (Or.inr (Or.inr ⟨rfl, rfl⟩)) b7_small b7_nodup (by decide +kernel)]
  decide +kernel

set_option maxRecDepth 100000 in
theorem pair_7_6 :
    opAntiCount (lineOp (kX7 (2 * Mx) (2 * My) (2 * Mz)) Pauli.X)
      (lineOp (kZ6 (2 * Mx) (2 * My) (2 * Mz)) Pauli.Z) % 2 = 0 := by
  rw [kX7_blocks, pair_gen hx hy hz (NFZ6 hx hy hz (e2 Mx) (e2 My) (e2 Mz)) (by decide) (by decide)
    (by decide) (Or.inr (Or.inr ⟨rfl, rfl⟩)) b7_small b7_nodup (by decide +kernel)]
  decide +kernel

set_option maxRecDepth 100000 in
theorem pair_7_7 :
    opAntiCount (lineOp (kX7 (2 * Mx) (2 * My) (2 * Mz)) Pauli.X)
      (lineOp (kZ7 (2 * Mx) (2 * My) (2 * Mz)) Pauli.Z) % 2 = 1 := by
  rw [kX7_blocks, pair_gen hx hy hz (NFZ7 hx hy hz (e2 Mx) (e2 My) (e2 Mz)) (by decide) (by decide)
    (by decide) (Or.inr (Or.inr ⟨rfl, rfl⟩)) b7_small b7_nodup (by decide +kernel)]
  decide +kernel

set_option maxRecDepth 100000 in
theorem pair_7_8 :
    opAntiCount (lineOp (kX7 (2 * Mx) (2 * My) (2 * Mz)) Pauli.X)
      (lineOp (kZ8 (2 * Mx) (2 * My) (2 * Mz)) Pauli.Z) % 2 = 0 := by
  rw [kX7_blocks, pair_gen hx hy hz (NFZ8 hx hy hz (e2 Mx) (e2 My) (e2 Mz)) (by decide) (by decide)
    (by decide) (Or.inr (Or.inr ⟨rfl, rfl⟩)) b7_small b7_nodup (by decide +kernel)]
  decide +kernel

set_option maxRecDepth 100000 in
theorem pair_7_9 :
    opAntiCount (lineOp (kX7 (2 * Mx) (2 * My) (2 * Mz)) Pauli.X)
      (lineOp (kZ9 (2 * Mx) (2 * My) (2 * Mz)) Pauli.Z) % 2 = 0 := by
  rw [kX7_blocks, pair_gen hx hy hz (NFZ9 hx hy hz (e2 Mx) (e2 My) (e2 Mz)) (by decide) (by decide)
    (by decide) (Or.inr (Or.inr ⟨rfl, rfl⟩)) b7_small b7_nodup (by decide +kernel)]
  decide +kernel

set_option maxRecDepth 100000 in
theorem pair_8_1 :
    opAntiCount (lineOp (kX8 (2 * Mx) (2 * My) (2 * Mz)) Pauli.X)
      (lineOp (kZ1 (2 * Mx) (2 * My) (2 * Mz)) Pauli.Z) % 2 = 0 := by
  rw [kX8_blocks, pair_gen hx hy hz (NFZ1 hx hy hz (e2 Mx) (e2 My) (e2 Mz)) (by decide) (by decide)
    (by decide) (Or.inr (Or.inr ⟨rfl, rfl⟩)) b8_small b8_nodup (by decide +kernel)]
  decide +kernel

set_option maxRecDepth 100000 in
theorem pair_8_2 :
    opAntiCount (lineOp (kX8 (2 * Mx) (2 * My) (2 * Mz)) Pauli.X)
      (lineOp (kZ2 (2 * Mx) (2 * My) (2 * Mz)) Pauli.Z) % 2 = 0 := by
  rw [kX8_blocks, pair_gen hx hy hz (NFZ2 hx hy hz (e2 Mx) (e2 My) (e2 Mz)) (by decide) (by decide)
    (by decide) (Or.inr (Or.inr ⟨rfl, rfl⟩)) b8_small b8_nodup (by decide +kernel)]
  decide +kernel

set_option maxRecDepth 100000 in
theorem pair_8_3 :
    opAntiCount (lineOp (kX8 (2 * Mx) (2 * My) (2 * Mz)) Pauli.X)
      (lineOp (kZ3 (2 * Mx) (2 * My) (2 * Mz)) Pauli.Z) % 2 = 0 := by
  rw [kX8_blocks, pair_gen hx hy hz (NFZ3 hx hy hz (e2 Mx) (e2 My) (e2 Mz)) (by decide) (by decide)
    (by decide) (Or.inr (Or.inr ⟨rfl, rfl⟩)) b8_small b8_nodup (by decide +kernel)]
  decide +kernel

set_option maxRecDepth 100000 in
theorem pair_8_4 :
    opAntiCount (lineOp (kX8 (2 * Mx) (2 * My) (2 * Mz)) Pauli.X)
      (lineOp (kZ4 (2 * Mx) (2 * My) (2 * Mz)) Pauli.Z) % 2 = 0 := by
  rw [kX8_blocks, pair_gen hx hy hz (NFZ4 hx hy hz (e2 Mx) (e2 My) (e2 Mz)) (by decide) (by decide)
    (by decide) (Or.inr (Or.inr ⟨rfl, rfl⟩)) b8_small b8_nodup (by decide +kernel)]
  decide +kernel

set_option maxRecDepth 100000 in
theorem pair_8_5 :
    opAntiCount (lineOp (kX8 (2 * Mx) (2 * My) (2 * Mz)) Pauli.X)
      (lineOp (kZ5 (2 * Mx) (2 * My) (2 * Mz)) Pauli.Z) % 2 = 0 := by
  rw [kX8_blocks, pair_gen hx hy hz (NFZ5 hx hy hz (e2 Mx) (e2 My) (e2 Mz)) (by decide) (by decide)
    (by decide) (Or.inr (Or.inr ⟨rfl, rfl⟩)) b8_small b8_nodup (by decide +kernel)]
  decide +kernel

set_option maxRecDepth 100000 in
theorem pair_8_6 :
    opAntiCount (lineOp (kX8 (2 * Mx) (2 * My) (2 * Mz)) Pauli.X)
      (lineOp (kZ6 (2 * Mx) (2 * My) (2 * Mz)) Pauli.Z) % 2 = 0 := by
  rw [kX8_blocks, pair_gen hx hy hz (NFZ6 hx hy hz (e2 Mx) (e2 My) (e2 Mz)) (by decide) (by decide)
    (by decide) (Or.inr (Or.inr ⟨rfl, rfl⟩)) b8_small b8_nodup (by decide +kernel)]
  decide +kernel

set_option maxRecDepth 100000 in
theorem pair_8_7 :
    opAntiCount (lineOp (kX8 (2 * Mx) (2 * My) (2 * Mz)) Pauli.X)
      (lineOp (kZ7 (2 * Mx) (2 * My) (2 * Mz)) Pauli.Z) % 2 = 0 := by
  rw [kX8_blocks, pair_gen hx hy hz (NFZ7 hx hy hz (e2 Mx) (e2 My) (e2 Mz)) (by decide) (by decide)
    (by decide) (Or.inr (Or.inr ⟨rfl, rfl⟩)) b8_small b8_nodup (by decide +kernel)]
  decide +kernel

set_option maxRecDepth 100000 in
theorem pair_8_8 :
    opAntiCount (lineOp (kX8 (2 * Mx) (2 * My) (2 * Mz)) Pauli.X)
      (lineOp (kZ8 (2 * Mx) (2 * My) (2 * Mz)) Pauli.Z) % 2 = 1 := by
  rw [kX8_blocks, pair_gen hx hy hz (NFZ8 hx hy hz (e2 Mx) (e2 My) (e2 Mz)) (by decide) (by decide)
    (by decide) (Or.inr (Or.inr ⟨rfl, rfl⟩)) b8_small b8_nodup (by decide +kernel)]
  decide +kernel

set_option maxRecDepth 100000 in
theorem pair_8_9 :
    opAntiCount (lineOp (kX8 (2 * Mx) (2 * My) (2 * Mz)) Pauli.X)
      (lineOp (kZ9 (2 * Mx) (2 * My) (2 * Mz)) Pauli.Z) % 2 = 0 := by
  rw [kX8_blocks, pair_gen hx hy hz (NFZ9 hx hy hz (e2 Mx) (e2 My) (e2 Mz)) (by decide) (by decide)
    (by decide) (Or.inr (Or.inr ⟨rfl, rfl⟩)) b8_small b8_nodup (by decide +kernel)]
  decide +kernel

set_option maxRecDepth 100000 in
theorem pair_9_1 :
    opAntiCount (lineOp (kX9 (2 * Mx) (2 * My) (2 * Mz)) Pauli.X)
      (lineOp (kZ1 (2 * Mx) (2 * My) (2 * Mz)) Pauli.Z) % 2 = 0 := by
  rw [kX9_blocks, pair_gen hx hy hz (NFZ1 hx hy hz (e2 Mx) (e2 My) (e2 Mz)) (by decide) (by decide)
    (by decide) (Or.inr (Or.inr ⟨rfl, rfl⟩)) b9_small b9_nodup (by decide +kernel)]
  decide +kernel

set_option maxRecDepth 100000 in
theorem pair_9_2 :
    opAntiCount (lineOp (kX9 (2 * Mx) (2 * My) (2 * Mz)) Pauli.X)
      (lineOp (kZ2 (2 * Mx) (2 * My) (2 * Mz)) Pauli.Z) % 2 = 0 := by
  rw [kX9_blocks, pair_gen hx hy hz (NFZ2 hx hy hz (e2 Mx) (e2 My) (e2 Mz)) (by decide) (by decide)
    (by decide) (Or.inr (Or.inr ⟨rfl, rfl⟩)) b9_small b9_nodup (by decide +kernel)]
  decide +kernel

set_option maxRecDepth 100000 in
theorem pair_9_3 :
    opAntiCount (lineOp (kX9 (2 * Mx) (2 * My) (2 * Mz)) Pauli.X)
      (lineOp (kZ3 (2 * Mx) (2 * My) (2 * Mz)) Pauli.Z) % 2 = 0 := by
  rw [kX9_blocks, pair_gen hx hy hz (NFZ3 hx hy hz (e2 Mx) (e2 My) (e2 Mz)) (by decide) (by decide)
    (by decide) (Or.inr (Or.inr ⟨rfl, rfl⟩)) b9_small b9_nodup (by decide +kernel)]
  decide +kernel

set_option maxRecDepth 100000 in
theorem pair_9_4 :
    opAntiCount (lineOp (kX9 (2 * Mx) (2 * My) (2 * Mz)) Pauli.X)
      (lineOp (kZ4 (2 * Mx) (2 * My) (2 * Mz)) Pauli.Z) % 2 = 0 := by
  rw [kX9_blocks, pair_gen hx hy hz (NFZ4 hx hy hz (e2 Mx) (e2 My) (e2 Mz)) (by decide) (by decide)
    (by decide) (Or.inr (Or.inr ⟨rfl, rfl⟩)) b9_small b9_nodup (by decide +kernel)]
  decide +kernel

set_option maxRecDepth 100000 in
theorem pair_9_5 :
    opAntiCount (lineOp (kX9 (2 * Mx) (2 * My) (2 * Mz)) Pauli.X)
      (lineOp (kZ5 (2 * Mx) (2 * My) (2 * Mz)) Pauli.Z) % 2 = 0 := by
  rw [kX9_blocks, pair_gen hx hy hz (NFZ5 hx hy hz (e2 Mx) (e2 My) (e2 Mz)) (by decide) (by decide)
    (by decide) (Or.inr (Or.inr ⟨rfl, rfl⟩)) b9_small b9_nodup (by decide +kernel)]
  decide +kernel

set_option maxRecDepth 100000 in
theorem pair_9_6 :
    opAntiCount (lineOp (kX9 (2 * Mx) (2 * My) (2 * Mz)) Pauli.X)
      (lineOp (kZ6 (2 * Mx) (2 * My) (2 * Mz)) Pauli.Z) % 2 = 0 := by
  rw [kX9_blocks, pair_gen hx hy hz (NFZ6 hx hy hz (e2 Mx) (e2 My) (e2 Mz)) (by decide) (by decide)
    (by decide) (Or.inr (Or.inr ⟨rfl, rfl⟩)) b9_small b9_nodup (by decide +kernel)]
  decide +kernel

set_option maxRecDepth 100000 in
theorem pair_9_7 :
    opAntiCount (lineOp (kX9 (2 * Mx) (2 * My) (2 * Mz)) Pauli.X)
      (lineOp (kZ7 (2 * Mx) (2 * My) (2 * Mz)) Pauli.Z) % 2 = 0 := by
  rw [kX9_blocks, pair_gen hx hy hz (NFZ7 hx hy hz (e2 Mx) (e2 My) (e2 Mz)) (by decide) (by decide)
    (by decide) (Or.inr (Or.inr ⟨rfl, rfl⟩)) b9_small b9_nodup (by decide +kernel)]
  decide +kernel

set_option maxRecDepth 100000 in
theorem pair_9_8 :
    opAntiCount (lineOp (kX9 (2 * Mx) (2 * My) (2 * Mz)) Pauli.X)
      (lineOp (kZ8 (2 * Mx) (2 * My) (2 * Mz)) Pauli.Z) % 2 = 0 := by
  rw [kX9_blocks, pair_gen hx hy hz (NFZ8 hx hy hz (e2 Mx) (e2 My) (e2 Mz)) (by decide) (by decide)
    (by decide) (Or.inr (Or.inr ⟨rfl, rfl⟩)) b9_small b9_nodup (by decide +kernel)]
  decide +kernel

set_option maxRecDepth 100000 in
theorem pair_9_9 :
    opAntiCount (lineOp (kX9 (2 * Mx) (2 * My) (2 * Mz)) Pauli.X)
      (lineOp (kZ9 (2 * Mx) (2 * My) (2 * Mz)) Pauli.Z) % 2 = 1 := by
  rw [kX9_blocks, pair_gen hx hy hz (NFZ9 hx hy hz (e2 Mx) (e2 My) (e2 Mz)) (by decide) (by decide)
    (by decide) (Or.inr (Or.inr ⟨rfl, rfl⟩)) b9_small b9_nodup (by decide +kernel)]
  decide +kernel

end

end Panqec.Color3DCode
