/-
Union-find (C05): the well-formedness predicates `graphLike` / `closedGraph` of
`Model/UnionFindWF.lean` for an INCIDENCE matrix given by two lists and a Boolean relation
(`incMat V Q inc`: one row per `v ∈ V`, one column per `q ∈ Q`, entry 1 iff `inc v q`).

* `closedGraph_incMat`          every column incident to exactly two rows, two different rows
                                share at most one column ⇒ `closedGraph`;
* `closedMultigraph_incMat`     every column incident to exactly two rows, two different rows
                                share fewer than 256 columns ⇒ `closedMultigraph`;
* `countP_contains_le`          a duplicate-free list meets a list `L` in at most `L.length` members;
* `countP_eq_two_of_ends`       "exactly two" from an explicit pair of end points;
* `countP_le_one_of_unique`     "at most one" from uniqueness;
* `not_graphLike_of_parallel`   two rows sharing two columns ⇒ not `graphLike`.

Core Lean only.
-/
import PanqecVerif.Proofs.UnionFindWF

namespace Panqec.UF

set_option linter.unusedSimpArgs false
set_option linter.unusedVariables false

/-- the 0/1 incidence matrix of a relation between two lists -/
def incMat {α β : Type} (V : List α) (Q : List β) (inc : α → β → Bool) : Mat :=
  V.map fun v => Q.map fun q => if inc v q then 1 else 0

theorem incMat_length {α β : Type} (V : List α) (Q : List β) (inc : α → β → Bool) :
    (incMat V Q inc).length = V.length := by simp [incMat]

theorem ncols_incMat {α β : Type} (V : List α) (Q : List β) (inc : α → β → Bool) (hV : V ≠ []) :
    ncols (incMat V Q inc) = Q.length := by
  cases V with
  | nil => exact absurd rfl hV
  | cons v V => simp [ncols, incMat]

theorem hb_incMat {α β : Type} (V : List α) (Q : List β) (inc : α → β → Bool) (s q : Nat)
    (hs : s < V.length) (hq : q < Q.length) :
    hb (incMat V Q inc) s q = inc V[s] Q[q] := by
  unfold hb incMat
  have e1 : (V.map fun v => Q.map fun q => if inc v q then 1 else 0).getD s [] =
      Q.map (fun q => if inc V[s] q then 1 else 0) := by
    rw [List.getD_eq_getElem?_getD, List.getElem?_map, List.getElem?_eq_getElem hs]; rfl
  have e2 : (Q.map (fun q => if inc V[s] q then 1 else 0)).getD q 0 =
      if inc V[s] Q[q] then 1 else 0 := by
    rw [List.getD_eq_getElem?_getD, List.getElem?_map, List.getElem?_eq_getElem hq]; rfl
  rw [e1, e2]
  cases inc V[s] Q[q] <;> simp

/-- counting over the indices of a list = counting over its members -/
theorem cnt_eq_countP {α : Type} : ∀ (l : List α) (f : Nat → Bool) (p : α → Bool),
    (∀ i (hi : i < l.length), f i = p l[i]) → cnt l.length f = l.countP p
  | [], f, p, _ => rfl
  | a :: l, f, p, h => by
    have ih := cnt_eq_countP l (fun i => f (i + 1)) p (fun i hi => by
      have := h (i + 1) (by simp; omega)
      simpa using this)
    have h0 : f 0 = p a := h 0 (by simp)
    unfold cnt at ih ⊢
    rw [List.length_cons, List.range_succ_eq_map, List.countP_cons, List.countP_map, h0,
      List.countP_cons]
    have : (List.range l.length).countP (f ∘ Nat.succ) =
        (List.range l.length).countP (fun i => f (i + 1)) := rfl
    rw [this, ih]

theorem countP_eq_two_of_ends {α : Type} [DecidableEq α] (V : List α) (hnd : V.Nodup)
    (p : α → Bool) (a b : α) (ha : a ∈ V) (hb' : b ∈ V) (hab : a ≠ b)
    (h : ∀ v ∈ V, p v = true ↔ (v = a ∨ v = b)) : V.countP p = 2 := by
  rw [List.countP_eq_length_filter]
  have hperm : (V.filter p).Perm [a, b] := by
    rw [List.perm_ext_iff_of_nodup (hnd.filter _) (by simp [hab])]
    intro v
    simp only [List.mem_filter, List.mem_cons, List.not_mem_nil, or_false]
    constructor
    · rintro ⟨hv, hp⟩; exact (h v hv).mp hp
    · rintro (rfl | rfl)
      · exact ⟨ha, (h _ ha).mpr (Or.inl rfl)⟩
      · exact ⟨hb', (h _ hb').mpr (Or.inr rfl)⟩
  rw [hperm.length_eq]; rfl

theorem countP_le_one_of_unique {β : Type} : ∀ (Q : List β) (p : β → Bool), Q.Nodup →
    (∀ a ∈ Q, ∀ b ∈ Q, p a = true → p b = true → a = b) → Q.countP p ≤ 1
  | [], _, _, _ => by simp
  | a :: Q, p, hnd, h => by
    rw [List.nodup_cons] at hnd
    rw [List.countP_cons]
    by_cases hp : p a = true
    · have h0 : Q.countP p = 0 := by
        rw [List.countP_eq_zero]
        intro b hb' hpb
        have := h a (by simp) b (by simp [hb']) hp hpb
        subst this
        exact hnd.1 hb'
      rw [h0, if_pos hp]; omega
    · have := countP_le_one_of_unique Q p hnd.2
        (fun x hx y hy => h x (by simp [hx]) y (by simp [hy]))
      rw [if_neg hp]; omega

/-- weight of a column of an incidence matrix = number of incident rows -/
theorem cnt_col_incMat {α β : Type} (V : List α) (Q : List β) (inc : α → β → Bool) (q : Nat)
    (hq : q < Q.length) :
    cnt (incMat V Q inc).length (fun s => hb (incMat V Q inc) s q) =
      V.countP (fun v => inc v Q[q]) := by
  rw [incMat_length,
    cnt_eq_countP V _ (fun v => inc v Q[q]) (fun i hi => hb_incMat V Q inc i q hi hq)]

/-- **incidence matrices of simple 2-regular-column structures are closed graphs** -/
theorem closedGraph_incMat {α β : Type} (V : List α) (Q : List β) (inc : α → β → Bool)
    (hV : V ≠ []) (hnd : V.Nodup)
    (hcol : ∀ q ∈ Q, V.countP (fun v => inc v q) = 2)
    (hpair : ∀ v ∈ V, ∀ w ∈ V, v ≠ w → Q.countP (fun q => inc v q && inc w q) ≤ 1) :
    closedGraph (incMat V Q inc) = true := by
  have hn := ncols_incMat V Q inc hV
  have hm := incMat_length V Q inc
  have hcnt : ∀ q (hq : q < Q.length),
      cnt (incMat V Q inc).length (fun s => hb (incMat V Q inc) s q) = 2 := by
    intro q hq
    rw [hm, cnt_eq_countP V _ (fun v => inc v Q[q]) (fun i hi => hb_incMat V Q inc i q hi hq)]
    exact hcol _ (List.getElem_mem hq)
  unfold closedGraph graphLike
  simp only [Bool.and_eq_true, List.all_eq_true, decide_eq_true_eq, List.mem_range,
    Bool.or_eq_true, bne_iff_ne, ne_eq]
  rw [hn]
  refine ⟨⟨⟨?_, ?_⟩, ?_⟩, ?_⟩
  · intro r hr
    unfold incMat at hr
    rw [List.mem_map] at hr
    obtain ⟨v, _, rfl⟩ := hr
    refine ⟨by simp, ?_⟩
    intro x hx
    rw [List.mem_map] at hx
    obtain ⟨q, _, rfl⟩ := hx
    split <;> omega
  · intro q hq
    rw [hcnt q hq]; omega
  · intro i hi j hj
    rw [hm] at hi hj
    by_cases hij : i = j
    · exact Or.inl hij
    · right
      rw [← hn, hn, cnt_eq_countP Q _ (fun q => inc V[i] q && inc V[j] q) (fun q hq => by
        rw [hb_incMat V Q inc i q hi hq, hb_incMat V Q inc j q hj hq])]
      refine hpair _ (List.getElem_mem hi) _ (List.getElem_mem hj) ?_
      intro h
      exact hij ((List.Nodup.getElem_inj_iff hnd).mp h)
  · intro q hq
    rw [hcnt q hq]; omega

/-- **incidence matrices of 2-regular-column structures are closed multigraphs**: every column
    incident to exactly two rows; two different rows may share several columns (parallel
    edges), fewer than 256 -/
theorem closedMultigraph_incMat {α β : Type} (V : List α) (Q : List β) (inc : α → β → Bool)
    (hV : V ≠ []) (hnd : V.Nodup)
    (hcol : ∀ q ∈ Q, V.countP (fun v => inc v q) = 2)
    (hpair : ∀ v ∈ V, ∀ w ∈ V, v ≠ w → Q.countP (fun q => inc v q && inc w q) < 256) :
    closedMultigraph (incMat V Q inc) = true := by
  have hn := ncols_incMat V Q inc hV
  have hm := incMat_length V Q inc
  have hcnt : ∀ q (hq : q < Q.length),
      cnt (incMat V Q inc).length (fun s => hb (incMat V Q inc) s q) = 2 := by
    intro q hq
    rw [hm, cnt_eq_countP V _ (fun v => inc v Q[q]) (fun i hi => hb_incMat V Q inc i q hi hq)]
    exact hcol _ (List.getElem_mem hq)
  unfold closedMultigraph multigraphLike
  simp only [Bool.and_eq_true, List.all_eq_true, decide_eq_true_eq, List.mem_range,
    Bool.or_eq_true, bne_iff_ne, ne_eq]
  rw [hn]
  refine ⟨⟨⟨?_, ?_⟩, ?_⟩, ?_⟩
  · intro r hr
    unfold incMat at hr
    rw [List.mem_map] at hr
    obtain ⟨v, _, rfl⟩ := hr
    refine ⟨by simp, ?_⟩
    intro x hx
    rw [List.mem_map] at hx
    obtain ⟨q, _, rfl⟩ := hx
    split <;> omega
  · intro q hq
    rw [hcnt q hq]; omega
  · intro i hi j hj
    rw [hm] at hi hj
    by_cases hij : i = j
    · exact Or.inl hij
    · right
      rw [← hn, hn, cnt_eq_countP Q _ (fun q => inc V[i] q && inc V[j] q) (fun q hq => by
        rw [hb_incMat V Q inc i q hi hq, hb_incMat V Q inc j q hj hq])]
      refine hpair _ (List.getElem_mem hi) _ (List.getElem_mem hj) ?_
      intro h
      exact hij ((List.Nodup.getElem_inj_iff hnd).mp h)
  · intro q hq
    rw [hcnt q hq]; omega

theorem countP_or_le {β : Type} (p r : β → Bool) : ∀ (Q : List β),
    Q.countP (fun q => p q || r q) ≤ Q.countP p + Q.countP r
  | [] => by simp
  | b :: Q => by
    have ih := countP_or_le p r Q
    rw [List.countP_cons, List.countP_cons, List.countP_cons]
    cases p b <;> cases r b <;> simp <;> omega

/-- a duplicate-free list has at most `L.length` members in `L` -/
theorem countP_contains_le {β : Type} [BEq β] [LawfulBEq β] (Q : List β) (hnd : Q.Nodup) :
    ∀ (L : List β), Q.countP (fun q => L.contains q) ≤ L.length
  | [] => by simp
  | a :: L => by
    have ih := countP_contains_le Q hnd L
    have h0 : (fun q => (a :: L).contains q) = (fun q => (q == a) || L.contains q) := by
      funext q; exact List.contains_cons
    have h1 := countP_or_le (fun q => q == a) (fun q => L.contains q) Q
    have h2 : Q.countP (fun q => q == a) ≤ 1 := by
      apply countP_le_one_of_unique Q _ hnd
      intro x _ y _ hx hy
      rw [beq_iff_eq] at hx hy
      rw [hx, hy]
    rw [h0]
    simp only [List.length_cons]
    omega

/-- two different rows sharing two different columns: not graph-like -/
theorem not_graphLike_of_parallel (H : Mat) (i j q q' : Nat) (hij : i ≠ j) (hq : q ≠ q')
    (h1 : hb H i q = true) (h2 : hb H j q = true) (h3 : hb H i q' = true)
    (h4 : hb H j q' = true) : graphLike H = false := by
  cases h : graphLike H
  · rfl
  · exact absurd (graphLike_simple h i j q q' hij h1 h2 h3 h4) hq

/-- parallel edges of an incidence matrix, by members -/
theorem not_graphLike_incMat {α β : Type} [DecidableEq α] [DecidableEq β] (V : List α)
    (Q : List β) (inc : α → β → Bool) (v w : α) (q q' : β) (hv : v ∈ V) (hw : w ∈ V)
    (hq : q ∈ Q) (hq' : q' ∈ Q) (hvw : v ≠ w) (hqq : q ≠ q')
    (h1 : inc v q = true) (h2 : inc w q = true) (h3 : inc v q' = true) (h4 : inc w q' = true) :
    graphLike (incMat V Q inc) = false := by
  obtain ⟨i, hi, rfl⟩ := List.getElem_of_mem hv
  obtain ⟨j, hj, rfl⟩ := List.getElem_of_mem hw
  obtain ⟨a, ha, rfl⟩ := List.getElem_of_mem hq
  obtain ⟨b, hb', rfl⟩ := List.getElem_of_mem hq'
  apply not_graphLike_of_parallel _ i j a b
  · intro h; subst h; exact hvw rfl
  · intro h; subst h; exact hqq rfl
  · rw [hb_incMat V Q inc i a hi ha]; exact h1
  · rw [hb_incMat V Q inc j a hj ha]; exact h2
  · rw [hb_incMat V Q inc i b hi hb']; exact h3
  · rw [hb_incMat V Q inc j b hj hb']; exact h4

end Panqec.UF
