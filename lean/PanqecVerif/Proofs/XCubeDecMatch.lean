/-
`XCubeMatchingDecoder.decode`, "Decode all the 2D toric codes": the 3-D matching locations are
lifted toric qubits, the indices `get_matched_pairs` returns are face indices (`< La·Lb`), the
`connected_planes` look-ups find their keys, and the dict keeps "every set element is a key".
-/
import PanqecVerif.Proofs.XCubeDecToric
import PanqecVerif.Proofs.XCubeDecComps
import PanqecVerif.Proofs.DecodersGlue

namespace Panqec.XCube

open Panqec

variable {W : Type}

/-! ### small facts -/

theorem matchHalf_length (solve : WSolver W) (H : Mat) (n : Nat) (active : Bool)
    (m : Option (Matcher W)) (extract : Mat → Vec → Vec) (s c : Vec) (ev : List (Event W))
    (h : matchHalf solve H n active m extract s = .ok (c, ev)) : c.length = n := by
  unfold matchHalf at h
  split at h
  · cases h; simp
  · split at h
    · cases h
    · split at h
      · cases h
      · simp only at h
        split at h
        · cases h
        · rename_i hl
          cases h
          simpa using hl

theorem MatchingDec.decode_length (solve : WSolver W) (m : MatchingDec W) (s c : Vec)
    (ev : List (Event W)) (h : m.decode solve s = .ok (c, ev)) : c.length = 2 * m.n := by
  unfold MatchingDec.decode at h
  split at h
  · cases h
  · rename_i cx t1 h1
    split at h
    · cases h
    · rename_i cz t2 h2
      cases h
      rw [List.length_append, matchHalf_length _ _ _ _ _ _ _ _ _ h1, matchHalf_length _ _ _ _ _ _ _ _ _ h2]
      omega

theorem mem_nonzeroIdx {v : Vec} {i : Nat} (h : i ∈ nonzeroIdx v) : i < v.length := by
  unfold nonzeroIdx at h
  obtain ⟨e, he, rfl⟩ := List.mem_map.mp h
  have := (List.mem_filter.mp he).1
  obtain ⟨a, i⟩ := e
  rw [List.mem_zipIdx_iff_getElem?] at this
  simp only at this ⊢
  exact (List.getElem?_eq_some_iff.mp this).1

theorem mem_colNonzero {H : Mat} {q i : Nat} (h : i ∈ colNonzero H q) : i < H.length := by
  unfold colNonzero at h
  simpa using mem_nonzeroIdx h

theorem walk_lt (H : Mat) (corr : Vec) (B : Nat) (hB : H.length ≤ B) :
    ∀ (fuel sp : Nat) (prev : Option Nat) (r : Nat), sp < B → walk H corr fuel sp prev = some r → r < B
  | 0, _, _, _, _, h => by simp [walk] at h
  | fuel + 1, sp, prev, r, hsp, h => by
    unfold walk at h
    cases hs : walkStep H corr sp prev with
    | none => rw [hs] at h; simp only [Option.some.injEq] at h; omega
    | some p =>
      rw [hs] at h
      simp only at h
      apply walk_lt H corr B hB fuel p.1 (some p.2) r ?_ h
      unfold walkStep at hs
      split at hs
      · cases hs
      · rename_i q _
        simp only [Option.some.injEq] at hs
        rw [← hs]
        simp only
        cases hf : (colNonzero H q).find? (· != sp) with
        | none => simpa using hsp
        | some i =>
          simp only [Option.getD_some]
          have := mem_colNonzero (List.mem_of_find?_eq_some hf)
          omega

/-- every index `get_matched_pairs` returns is below the number of syndrome entries / rows -/
theorem post_matchedPairs (H : Mat) (corr syn : Vec) (B : Nat) (hH : H.length ≤ B) (hs : syn.length ≤ B) :
    Post (matchedPairs H corr syn : Out W _) (fun pairs => ∀ p ∈ pairs, p.1 < B ∧ p.2 < B) := by
  unfold matchedPairs
  refine post_bind (Q := fun (st : List (Nat × Nat) × List Nat) => ∀ p ∈ st.1, p.1 < B ∧ p.2 < B) ?_
    (fun st hst => post_pure hst)
  refine post_forM' (fun (st : List (Nat × Nat) × List Nat) => ∀ p ∈ st.1, p.1 < B ∧ p.2 < B) ?_ _
    (by intro p hp; cases hp)
  intro st s hsm hst
  have hsB : s < B := by have := mem_nonzeroIdx hsm; omega
  split
  · exact post_pure hst
  · cases hw : walk H corr (walkFuel H) s none with
    | none => exact post_raise
    | some sp =>
      refine post_pure ?_
      intro p hp
      rcases List.mem_append.mp hp with h | h
      · exact hst p h
      · simp only [List.mem_singleton] at h
        subst h
        exact ⟨hsB, walk_lt H corr B hH _ _ _ _ hsB hw⟩

theorem errs_matchedPairs (H : Mat) (corr syn : Vec) :
    Errs (matchedPairs H corr syn : Out W _) NoKeyError := by
  unfold matchedPairs
  refine errs_bind ?_ (fun _ _ => errs_pure)
  refine errs_forM' (fun _ => True) ?_ _ trivial
  intro st s _ _
  refine ⟨?_, post_true _⟩
  split
  · exact errs_pure
  · split
    · exact errs_raise (fun k h => by cases h)
    · exact errs_pure

theorem maskSelect_length_le : ∀ (mask : List Bool) (l : Vec),
    (maskSelect mask l).length ≤ (mask.filter id).length
  | [], _ => by simp [maskSelect]
  | _ :: _, [] => by simp [maskSelect]
  | b :: mask, a :: l => by
    have ih := maskSelect_length_le mask l
    unfold maskSelect at ih ⊢
    cases b <;> simp <;> omega

theorem extractX_length_le (H : Mat) (s : Vec) : (extractXSyndrome H s).length ≤ (Hx H).length := by
  unfold extractXSyndrome
  refine Nat.le_trans (maskSelect_length_le _ _) ?_
  rw [Hx_eq_dec, xIndices_eq_dec, List.length_map, List.filter_map, List.length_map]
  exact Nat.le_refl _

/-! ### `connected_planes` -/

/-- the plane dict of the projection axis: its keys are the odd planes, every set element is a key -/
structure CpInv (d : XCubeDec W) (proj : Axis) (cp : PlaneDict (List Int)) : Prop where
  keys : ∀ p, p ∈ keysOf cp ↔ Lat3Db.R1 (2 * d.side proj) p
  ok : CpOk cp

theorem cpOk_put {cp : PlaneDict (List Int)} (h : CpOk cp) (a : Int) (sa : List Int) (b : Int)
    (hsa : (a, sa) ∈ cp) (hb : b ∈ keysOf cp) : CpOk (cp.put a (setAdd sa b)) := by
  intro e he v hv
  rw [keysOf_put]
  rcases mem_put he with h1 | h1
  · exact h e h1 v hv
  · subst h1
    rcases mem_setAdd.mp hv with h2 | rfl
    · exact h _ hsa v h2
    · exact hb

theorem errs_post_connect (d : XCubeDec W) (proj : Axis) (cp : PlaneDict (List Int))
    (hcp : CpInv d proj cp) (a b : Int) (ha : Lat3Db.R1 (2 * d.side proj) a)
    (hb : Lat3Db.R1 (2 * d.side proj) b) :
    Errs (connect cp a b : Out W _) (fun _ => False) ∧ Post (connect cp a b : Out W _) (CpInv d proj) := by
  have hak := (hcp.keys a).mpr ha
  have hbk := (hcp.keys b).mpr hb
  obtain ⟨sa, hsa⟩ := get?_isSome_of_mem hak
  have hbk1 : b ∈ keysOf (cp.put a (setAdd sa b)) := by rw [keysOf_put]; exact hbk
  obtain ⟨sb, hsb⟩ := get?_isSome_of_mem hbk1
  have hok1 : CpOk (cp.put a (setAdd sa b)) := cpOk_put hcp.ok a sa b (get?_eq_some_mem hsa) hbk
  have hak1 : a ∈ keysOf (cp.put a (setAdd sa b)) := by rw [keysOf_put]; exact hak
  have hfinal : CpInv d proj ((cp.put a (setAdd sa b)).put b (setAdd sb a)) :=
    ⟨fun p => by rw [keysOf_put, keysOf_put]; exact hcp.keys p,
     cpOk_put hok1 b sb a (get?_eq_some_mem hsb) hak1⟩
  unfold connect
  rw [hsa]
  simp only [orKeyError]
  constructor
  · refine errs_bind errs_pure fun sa' hsa' => ?_
    simp only [Out.pure_val, Except.ok.injEq] at hsa'
    subst hsa'
    rw [hsb]
    exact errs_bind errs_pure (fun _ _ => errs_pure)
  · refine post_bind (Q := fun x => x = sa) (post_pure rfl) fun sa' hsa' => ?_
    subst hsa'
    rw [hsb]
    refine post_bind (Q := fun x => x = sb) (post_pure rfl) fun sb' hsb' => ?_
    subst hsb'
    exact post_pure hfinal

/-- `proj_component` picks the coordinate of the toric code of `axis` that runs along `proj` -/
theorem projComponent_spec (Lx Ly Lz : Nat) (proj axis : Axis) (h : axis ≠ proj) :
    (projComponent proj axis = 0 ∧ (toricSizes Lx Ly Lz axis).1 = sideOf Lx Ly Lz proj) ∨
    (projComponent proj axis = 1 ∧ (toricSizes Lx Ly Lz axis).2 = sideOf Lx Ly Lz proj) := by
  cases proj <;> cases axis <;> simp_all [projComponent, toricSizes, sideOf]

theorem side_eq_sideOf (d : XCubeDec W) (a : Axis) : d.side a = sideOf d.Lx d.Ly d.Lz a := by
  cases a <;> rfl

theorem errs_post_connectPairs (d : XCubeDec W) (g : Geom d) (proj axis : Axis) (hne : axis ≠ proj)
    (pairs : List (Nat × Nat))
    (hpairs : ∀ p ∈ pairs, p.1 < (toricSizes d.Lx d.Ly d.Lz axis).1 * (toricSizes d.Lx d.Ly d.Lz axis).2 ∧
      p.2 < (toricSizes d.Lx d.Ly d.Lz axis).1 * (toricSizes d.Lx d.Ly d.Lz axis).2)
    (cp : PlaneDict (List Int)) (hcp : CpInv d proj cp) :
    Errs (connectPairs (d.toric.get axis) (projComponent proj axis) pairs cp : Out W _) NoKeyError ∧
    Post (connectPairs (d.toric.get axis) (projComponent proj axis) pairs cp : Out W _) (CpInv d proj) := by
  unfold connectPairs
  have hstep : ∀ (cp : PlaneDict (List Int)) (pr : Nat × Nat), pr ∈ pairs → CpInv d proj cp →
      Errs ((match (d.toric.get axis).qubits[pr.1]?, (d.toric.get axis).qubits[pr.2]? with
        | some loc1, some loc2 =>
          let plane1 := loc1.getD (projComponent proj axis) 0
          let plane2 := loc2.getD (projComponent proj axis) 0
          if plane1 ≠ plane2 then
            if projComponent proj axis == 1 then connect cp (plane1 + 1) (plane2 + 1)
            else connect cp plane1 plane2
          else Out.pure cp
        | _, _ => raise (.dec .indexError)) : Out W _) NoKeyError ∧
      Post ((match (d.toric.get axis).qubits[pr.1]?, (d.toric.get axis).qubits[pr.2]? with
        | some loc1, some loc2 =>
          let plane1 := loc1.getD (projComponent proj axis) 0
          let plane2 := loc2.getD (projComponent proj axis) 0
          if plane1 ≠ plane2 then
            if projComponent proj axis == 1 then connect cp (plane1 + 1) (plane2 + 1)
            else connect cp plane1 plane2
          else Out.pure cp
        | _, _ => raise (.dec .indexError)) : Out W _) (CpInv d proj) := by
    intro cp pr hpr hcp
    obtain ⟨h1, h2⟩ := hpairs pr hpr
    rw [g.toric axis, toricView_qubits]
    obtain ⟨x1, y1, e1, hx1, hy1⟩ := toric_first_block _ _ pr.1 h1
    obtain ⟨x2, y2, e2, hx2, hy2⟩ := toric_first_block _ _ pr.2 h2
    rw [e1, e2]
    simp only
    rcases projComponent_spec d.Lx d.Ly d.Lz proj axis hne with ⟨hc, hs⟩ | ⟨hc, hs⟩
    · rw [hc]
      simp only [List.getD_cons_zero, Nat.zero_ne_one, beq_iff_eq, if_false]
      have hs' : d.side proj = (toricSizes d.Lx d.Ly d.Lz axis).1 := by rw [side_eq_sideOf, hs]
      split
      · obtain ⟨he, hp⟩ := errs_post_connect d proj cp hcp x1 x2 (hs' ▸ hx1) (hs' ▸ hx2)
        exact ⟨fun e h => (he e h).elim, hp⟩
      · exact ⟨errs_pure, post_pure hcp⟩
    · rw [hc]
      simp only [List.getD_cons_succ, List.getD_cons_zero, beq_self_eq_true, if_true]
      have hs' : d.side proj = (toricSizes d.Lx d.Ly d.Lz axis).2 := by rw [side_eq_sideOf, hs]
      have hr : ∀ y, Lat3Db.R0 (2 * (toricSizes d.Lx d.Ly d.Lz axis).2) y →
          Lat3Db.R1 (2 * d.side proj) (y + 1) := by
        intro y hy; rw [hs']; unfold Lat3Db.R0 at hy; unfold Lat3Db.R1; omega
      split
      · obtain ⟨he, hp⟩ := errs_post_connect d proj cp hcp (y1 + 1) (y2 + 1) (hr _ hy1) (hr _ hy2)
        exact ⟨fun e h => (he e h).elim, hp⟩
      · exact ⟨errs_pure, post_pure hcp⟩
  exact ⟨errs_forM' (CpInv d proj) (fun st a ha hst => hstep st a ha hst) cp hcp,
    post_forM' (CpInv d proj) (fun st a ha hst => (hstep st a ha hst).2) cp hcp⟩

end Panqec.XCube
