/-
The integer glue of `MemoryBeliefPropagationDecoder` (`Model/MbpDecoder.lean`): shape of the
result, the loop's break condition, the final reverse-and-swap.  Core Lean only.
-/
import PanqecVerif.Model.MbpDecoder

namespace Panqec.Mbp

open Panqec

theorem hardDecision_lt (m : Bool × Fin 3) : hardDecision m < 4 := by
  unfold hardDecision
  split
  · omega
  · have := m.2.isLt; omega

theorem hardVec_length (n : Nat) (msg : List (Bool × Fin 3)) : (hardVec n msg).length = n := by
  simp [hardVec]

theorem hardVec_lt (n : Nat) (msg : List (Bool × Fin 3)) : ∀ x ∈ hardVec n msg, x < 4 := by
  intro x hx
  obtain ⟨q, _, rfl⟩ := List.mem_map.mp hx
  exact hardDecision_lt _

theorem pauliToSymplectic_length (a : Vec) (r : Bool) : (pauliToSymplectic a r).length = 2 * a.length := by
  unfold pauliToSymplectic
  cases r <;> simp <;> omega

theorem pauliToSymplectic_binary (a : Vec) (r : Bool) : ∀ x ∈ pauliToSymplectic a r, x < 2 := by
  intro x hx
  unfold pauliToSymplectic at hx
  cases r <;> simp only [Bool.false_eq_true, if_false, if_true, List.mem_append, List.mem_map] at hx <;>
    rcases hx with ⟨v, _, rfl⟩ | ⟨v, _, rfl⟩ <;> split <;> omega

/-- reversing the halves and swapping them back is the plain conversion: the vector `decode`
    returns is the vector whose syndrome the last iteration tested -/
theorem finalVector_eq (n : Nat) (c : Vec) (h : c.length = n) :
    finalVector n c = pauliToSymplectic c false := by
  unfold finalVector pauliToSymplectic
  simp only [if_true, Bool.false_eq_true, if_false]
  rw [List.drop_left' (by simp [h]), List.take_left' (by simp [h])]

/-- the vector tested in iteration `it` -/
def testedVector (n : Nat) (msgs : Nat → List (Bool × Fin 3)) (it : Nat) : Vec :=
  pauliToSymplectic (hardVec n (msgs it)) false

/-- what the loop returns: it runs iterations `it, it+1, …`, stops after the first one whose tested
    vector has the measured syndrome, otherwise after `remaining` iterations -/
theorem loop_spec (H : Mat) (n : Nat) (msgs : Nat → List (Bool × Fin 3)) (s : Vec) :
    ∀ (remaining it : Nat) (last r : Option Vec) (k : Nat),
      loop H n msgs s remaining it last = (r, k) →
      it ≤ k ∧ k ≤ it + remaining ∧
      (∀ j, it ≤ j → j + 1 < k → measureSyndrome H (testedVector n msgs j) ≠ s) ∧
      (k = it → r = last ∧ remaining = 0) ∧
      (it < k → r = some (hardVec n (msgs (k - 1))) ∧
        (measureSyndrome H (testedVector n msgs (k - 1)) = s ∨ k = it + remaining))
  | 0, it, last, r, k, h => by
    simp only [loop, Prod.mk.injEq] at h
    obtain ⟨rfl, rfl⟩ := h
    exact ⟨Nat.le_refl _, Nat.le_refl _, fun j h1 h2 => by omega, fun _ => ⟨rfl, rfl⟩, fun h => by omega⟩
  | remaining + 1, it, last, r, k, h => by
    unfold loop at h
    simp only at h
    by_cases hc : measureSyndrome H (pauliToSymplectic (hardVec n (msgs it)) false) = s
    · simp only [hc, beq_self_eq_true, if_true, Prod.mk.injEq] at h
      obtain ⟨rfl, rfl⟩ := h
      refine ⟨by omega, by omega, fun j h1 h2 => by omega, fun h => by omega, fun _ => ?_⟩
      simp only [Nat.add_sub_cancel]
      exact ⟨trivial, Or.inl hc⟩
    · have hne : (measureSyndrome H (pauliToSymplectic (hardVec n (msgs it)) false) == s) = false := by
        simpa using hc
      simp only [hne, Bool.false_eq_true, if_false] at h
      obtain ⟨h1, h2, h3, h4, h5⟩ := loop_spec H n msgs s remaining (it + 1) _ r k h
      refine ⟨by omega, by omega, ?_, fun hk => by omega, fun _ => ?_⟩
      · intro j hj1 hj2
        by_cases hj : j = it
        · subst hj; exact hc
        · exact h3 j (by omega) hj2
      · by_cases hk : k = it + 1
        · obtain ⟨hr, hrem⟩ := h4 hk
          subst hk
          simp only [Nat.add_sub_cancel]
          exact ⟨hr, Or.inr (by omega)⟩
        · obtain ⟨hr, hor⟩ := h5 (by omega)
          exact ⟨hr, hor.imp id (fun h => by omega)⟩

end Panqec.Mbp
