/-
`decode_plane` never raises `KeyError` when the loop coordinates are non-negative: the two
`state[(x - 2, y)]` look-ups always find their key.  Also: loop rules for `forM'` whose invariant
may mention the already processed prefix of the list.
-/
import PanqecVerif.Proofs.XCubeDecKeys

namespace Panqec.XCube

open Panqec Panqec.Lat3Db

variable {W α σ : Type}

/-! ### loop rules with the processed prefix -/

theorem errs_post_forM'_prefix {l : List α} {f : σ → α → Out W σ} {E : XErr → Prop}
    (I : List α → σ → Prop)
    (hstep : ∀ pre a post st, l = pre ++ a :: post → I pre st →
      Errs (f st a) E ∧ Post (f st a) (I (pre ++ [a]))) :
    ∀ (pre rest : List α) (st : σ), l = pre ++ rest → I pre st →
      Errs (forM' rest st f) E ∧ Post (forM' rest st f) (I l) := by
  intro pre rest
  induction rest generalizing pre with
  | nil =>
    intro st hl hI
    simp only [List.append_nil] at hl
    subst hl
    exact ⟨errs_pure, post_pure hI⟩
  | cons a rest ih =>
    intro st hl hI
    obtain ⟨he, hp⟩ := hstep pre a rest st hl hI
    unfold forM'
    have hl' : l = (pre ++ [a]) ++ rest := by simp [hl]
    exact ⟨errs_bind he fun st' hst' => (ih (pre ++ [a]) st' hl' (hp st' hst')).1,
      post_bind hp fun st' hst' => (ih (pre ++ [a]) st' hl' hst').2⟩

/-! ### `range(0, b, 2)` split at a position -/

theorem pyRange2_zero_split (b : Nat) (pre post : List Int) (x : Int)
    (h : pyRange2 0 b = pre ++ x :: post) : x = 0 ∨ (2 ≤ x ∧ x - 2 ∈ pre) := by
  have hget : ∀ i (hi : i < (pyRange2 0 b).length), (pyRange2 0 b)[i] = 2 * (i : Int) := by
    intro i hi
    simp only [pyRange2, List.getElem_map, List.getElem_range', Int.ofNat_eq_natCast]
    omega
  have hlen : pre.length < (pyRange2 0 b).length := by rw [h]; simp
  have hx : x = 2 * (pre.length : Int) := by
    have := hget pre.length hlen
    simp only [h] at this
    rw [List.getElem_append_right (Nat.le_refl _)] at this
    simpa using this
  rcases Nat.eq_zero_or_pos pre.length with h0 | h0
  · left; rw [hx, h0]; rfl
  · right
    refine ⟨by omega, ?_⟩
    have hlt : pre.length - 1 < (pyRange2 0 b).length := by omega
    have := hget (pre.length - 1) hlt
    simp only [h] at this
    rw [List.getElem_append_left (by omega)] at this
    have hm : pre[pre.length - 1] ∈ pre := List.getElem_mem _
    rw [this] at hm
    have : x - 2 = 2 * ((pre.length - 1 : Nat) : Int) := by omega
    rw [this]; exact hm

/-! ### `decode_plane` -/

/-- all coordinates are non-negative -/
def NonNegC (c : Coord) : Prop := ∀ v ∈ c, 0 ≤ v

/-- the `state` dict has the key -/
def HasKey (state : List (Coord × Nat)) (key : Coord) : Prop := ∃ e ∈ state, e.1 = key

theorem errs_stateGet {state : List (Coord × Nat)} {key : Coord} (h : HasKey state key)
    (E : XErr → Prop) : Errs (stateGet state key : Out W Nat) E := by
  unfold stateGet
  obtain ⟨e, he, hk⟩ := h
  cases hf : state.find? (·.1 == key) with
  | none =>
    have := List.find?_eq_none.mp hf e he
    simp [hk] at this
  | some e' => simp only [Option.map_some, orKeyError]; exact errs_pure

theorem hasKey_append_left {state : List (Coord × Nat)} {key : Coord} (extra : List (Coord × Nat))
    (h : HasKey state key) : HasKey (state ++ extra) key := by
  obtain ⟨e, he, hk⟩ := h
  exact ⟨e, List.mem_append_left _ he, hk⟩

theorem errs_cellState (loops : List Coord) (hl : ∀ c ∈ loops, NonNegC c)
    (state : List (Coord × Nat)) (x y : Int) (cur : Nat)
    (hx : x = 0 ∨ (2 ≤ x ∧ HasKey state [x - 2, 0])) :
    Errs (cellState loops state x y cur : Out W Nat) NoKeyError := by
  unfold cellState
  refine errs_bind ?_ (fun _ _ => errs_pure)
  by_cases hy : y = 0
  · have hy' : (y == 0) = true := by simp [hy]
    rw [if_pos hy']
    subst hy
    rcases hx with h0 | ⟨h2, hk⟩
    · subst h0
      have hnot : loops.contains [(0 : Int) - 1, 0] = false := by
        rw [Bool.eq_false_iff]
        intro hc
        have := hl _ (List.contains_iff_mem.mp hc) (-1) (by simp)
        omega
      simp only [hnot, Bool.false_eq_true, if_false]
      have : ¬ ((0 : Int) ≥ 2) := by omega
      simp only [this, if_false]
      exact errs_pure
    · split
      · exact errs_bind (errs_stateGet hk _) (fun _ _ => errs_pure)
      · exact errs_stateGet hk _
  · have : (y == 0) = false := by simpa using hy
    simp only [this, Bool.false_eq_true, if_false]
    exact errs_pure

/-- `decode_plane` on non-negative loop coordinates raises no `KeyError` (for `Ly ≥ 1`) -/
theorem errs_planeState (loops : List Coord) (hl : ∀ c ∈ loops, NonNegC c) (Lx Ly : Nat) (hLy : 1 ≤ Ly) :
    Errs (planeState loops Lx Ly : Out W _) NoKeyError := by
  unfold planeState
  refine (errs_post_forM'_prefix (l := pyRange2 0 (2 * Lx))
    (fun (pre : List Int) (state : List (Coord × Nat)) => ∀ x' ∈ pre, HasKey state [x', 0])
    ?_ [] _ [] (by simp) (by simp)).1
  intro pre x post state hsplit hI
  have hx := pyRange2_zero_split _ _ _ _ hsplit
  -- inner loop: the keys of the earlier rows stay, the cell (x, 0) is added
  have inner := errs_post_forM'_prefix (W := W) (l := pyRange2 0 (2 * Ly)) (E := NoKeyError)
    (f := fun (st : List (Coord × Nat) × Nat) y =>
      Out.bind (cellState loops st.1 x y st.2) fun c => Out.pure (st.1 ++ [([x, y], c)], c))
    (fun (prey : List Int) (st : List (Coord × Nat) × Nat) =>
      (∀ x' ∈ pre, HasKey st.1 [x', 0]) ∧ ∀ y' ∈ prey, HasKey st.1 [x, y'])
    (by
      intro prey y posty st _ hJ
      have hcell : Errs (cellState loops st.1 x y st.2 : Out W Nat) NoKeyError := by
        apply errs_cellState loops hl
        rcases hx with h0 | ⟨h2, hm⟩
        · exact Or.inl h0
        · exact Or.inr ⟨h2, hJ.1 _ hm⟩
      refine ⟨errs_bind hcell (fun _ _ => errs_pure), post_bind (post_true _) fun c _ => post_pure ⟨?_, ?_⟩⟩
      · intro x' hx'; exact hasKey_append_left _ (hJ.1 x' hx')
      · intro y' hy'
        rcases List.mem_append.mp hy' with h | h
        · exact hasKey_append_left _ (hJ.2 y' h)
        · simp only [List.mem_singleton] at h
          subst h
          exact ⟨([x, y'], c), by simp, rfl⟩)
    [] (pyRange2 0 (2 * Ly)) (state, 0) (by simp) ⟨hI, by simp⟩
  refine ⟨errs_bind inner.1 (fun _ _ => errs_pure), post_bind inner.2 fun st hst => post_pure ?_⟩
  intro x' hx'
  rcases List.mem_append.mp hx' with h | h
  · exact hst.1 x' h
  · simp only [List.mem_singleton] at h
    subst h
    exact hst.2 0 (by rw [mem_pyRange2_0]; unfold R0; omega)

theorem errs_decodePlane (loops : List Coord) (hl : ∀ c ∈ loops, NonNegC c) (Lx Ly : Nat) (hLy : 1 ≤ Ly) :
    Errs (decodePlane loops Lx Ly : Out W _) NoKeyError := by
  unfold decodePlane
  refine errs_bind (errs_planeState loops hl Lx Ly hLy) fun state _ => ?_
  refine errs_bind ?_ (fun _ _ => errs_pure)
  unfold minorityState
  simp only
  split
  · exact errs_raise (fun k h => by cases h)
  · split <;> exact errs_pure

end Panqec.XCube
