/-
Union-find internals (C05), termination of the growth loop, part B: the invariant that ties the
boundary lists to `_H_to_grow` and to the trees, and its preservation by `grow` and by the merges
of the fusion set.
-/
import PanqecVerif.Proofs.UnionFindTermA

namespace Panqec.UF

set_option linter.unusedSimpArgs false
set_option linter.unusedVariables false

/-- `pend` = qubits of the current fusion set that have not been merged yet -/
structure BdInv (H : Mat) (st : GState) (rep : Nat → Nat) (pend : List Int) : Prop where
  /-- only rows of tree members are zeroed -/
  row_live : ∀ s, st.rowDead s = true → st.sPar s ≠ -1
  /-- a zeroed column has a zeroed row -/
  col_row : ∀ q, st.colDead q = true → ∃ s, hb H s q = true ∧ st.rowDead s = true
  /-- a stabilizer in a boundary list belongs to that cluster (or will, after a pending merge) -/
  bnd_stab : ∀ c, c ∈ st.forest → ∀ s, hashS s ∈ c.bnd →
    (st.sPar s ≠ -1 ∧ rep s = c.root) ∨
    (∃ q : Nat, (q : Int) ∈ pend ∧ hb H s q = true ∧ st.colDead q = true ∧
      ∃ s0, hb H s0 q = true ∧ st.rowDead s0 = true ∧ rep s0 = c.root)
  /-- a qubit in a boundary list is half-grown from a member of that cluster -/
  bnd_qubit : ∀ c, c ∈ st.forest → ∀ q : Nat, (q : Int) ∈ c.bnd →
    ∃ s, hb H s q = true ∧ st.rowDead s = true ∧ rep s = c.root
  /-- a member whose row is not zeroed is in the boundary list of its cluster -/
  j1 : ∀ s, st.sPar s ≠ -1 → st.rowDead s = false →
    ∃ c, c ∈ st.forest ∧ c.root = rep s ∧ hashS s ∈ c.bnd
  /-- a half-grown qubit is in the boundary list of the cluster it was grown from -/
  j2 : ∀ s q, hb H s q = true → st.rowDead s = true → st.colDead q = false →
    ∃ c, c ∈ st.forest ∧ c.root = rep s ∧ (q : Int) ∈ c.bnd
  /-- all rows grown over a (non-pending) column are in one tree -/
  k : ∀ q : Nat, (q : Int) ∉ pend → ∀ s s', grown H st.rowDead st.colDead s q = true →
    grown H st.rowDead st.colDead s' q = true →
    st.sPar s ≠ -1 ∧ st.sPar s' ≠ -1 ∧ rep s = rep s'

theorem grown_iff (H : Mat) (rd cd : Nat → Bool) (s q : Nat) :
    grown H rd cd s q = true ↔ (hb H s q = true ∧ (rd s = true ∨ cd q = true)) := by
  unfold grown live
  cases hb H s q <;> cases rd s <;> cases cd q <;> simp

/-- the state after `c.grow()`: closed forms -/
theorem growCluster_forms {H : Mat} (hrange : ∀ s q, hb H s q = true → q < ncols H) (st : GState)
    (c : Cluster) :
    ∃ ord : List Int, (∀ x, x ∈ ord ↔ x ∈ c.bnd) ∧
      GFInv H st ord ⟨(growCluster H st c).2.rowDead, (growCluster H st c).2.colDead,
        (ord.foldl (growStep H) ⟨st.rowDead, st.colDead, [], []⟩).newB, (growCluster H st c).1⟩ ∧
      (growCluster H st c).2.sPar = st.sPar ∧ (growCluster H st c).2.qPar = st.qPar ∧
      (growCluster H st c).2.forest = st.forest.map (fun d => if d.root = c.root then
        { d with bnd := (ord.foldl (growStep H) ⟨st.rowDead, st.colDead, [], []⟩).newB } else d) := by
  refine ⟨(st.sched.take c.bnd).1, take_mem _ _, ?_, rfl, rfl, rfl⟩
  have := GFInv_fold hrange (st.sched.take c.bnd).1 [] _ (GFInv_init H st)
  simpa [growCluster] using this

/-- **`grow` preserves the invariant**; the pending merges are the fusion set -/
theorem BdInv_grow {H : Mat} {sy : Vec} (hrange : ∀ s q, hb H s q = true → q < ncols H)
    {st : GState} {rep d : Nat → Nat} (I : GInv H sy st rep d) (B : BdInv H st rep [])
    {c : Cluster} (hc : c ∈ st.forest) (pend : List Int)
    (hpend : ∀ x, x ∈ pend ↔ x ∈ (growCluster H st c).1) :
    BdInv H (growCluster H st c).2 rep pend := by
  obtain ⟨ord, hord, G, hsp, hqp, hforest⟩ := growCluster_forms hrange st c
  generalize (ord.foldl (growStep H) ⟨st.rowDead, st.colDead, [], []⟩).newB = newB at G hforest
  generalize (growCluster H st c).1 = fus at G hpend
  generalize (growCluster H st c).2 = st1 at G hsp hqp hforest
  have hrow : ∀ s, st1.rowDead s = true ↔ (st.rowDead s = true ∨ hashS s ∈ c.bnd) := by
    intro s
    have h := G.row s
    simp only [] at h
    rw [h]; simp [hord]
  have hcol : ∀ q : Nat, st1.colDead q = true ↔ (st.colDead q = true ∨ (q : Int) ∈ c.bnd) := by
    intro q
    have h := G.col q
    simp only [] at h
    rw [h]; simp [hord]
  -- membership in the new dict
  have hmem1 : ∀ c1, c1 ∈ st1.forest →
      (c1.root ≠ c.root ∧ c1 ∈ st.forest) ∨ (c1.root = c.root ∧ c1.bnd = newB) := by
    intro c1 hc1
    rw [hforest, List.mem_map] at hc1
    obtain ⟨c0, hc0, rfl⟩ := hc1
    by_cases h : c0.root = c.root
    · right; simp [h]
    · left; simp [h, hc0]
  have hkeep : ∀ c0, c0 ∈ st.forest → c0.root ≠ c.root → c0 ∈ st1.forest := by
    intro c0 hc0 h
    rw [hforest, List.mem_map]
    exact ⟨c0, hc0, by simp [h]⟩
  have hnew : (⟨c.root, c.size, c.odd, newB⟩ : Cluster) ∈ st1.forest := by
    rw [hforest, List.mem_map]
    exact ⟨c, hc, by simp⟩
  have hceq : ∀ c0, c0 ∈ st.forest → c0.root = c.root → c0 = c :=
    fun c0 hc0 h => eq_of_root_eq st.forest I.fi.roots_nodup c0 c hc0 hc h
  -- members listed in the old boundary list of `c`
  have hstabc : ∀ s, hashS s ∈ c.bnd → st.sPar s ≠ -1 ∧ rep s = c.root := by
    intro s hs
    rcases B.bnd_stab c hc s hs with h | ⟨q, hq, _⟩
    · exact h
    · simp at hq
  refine ⟨?_, ?_, ?_, ?_, ?_, ?_, ?_⟩
  · -- row_live
    intro s hs
    rw [hsp]
    rcases (hrow s).mp hs with h | h
    · exact B.row_live s h
    · exact (hstabc s h).1
  · -- col_row
    intro q hq
    rcases (hcol q).mp hq with h | h
    · obtain ⟨s, h1, h2⟩ := B.col_row q h
      exact ⟨s, h1, (hrow s).mpr (Or.inl h2)⟩
    · obtain ⟨s, h1, h2, _⟩ := B.bnd_qubit c hc q h
      exact ⟨s, h1, (hrow s).mpr (Or.inl h2)⟩
  · -- bnd_stab
    intro c1 hc1 s hs
    rw [hsp]
    rcases hmem1 c1 hc1 with ⟨_, h0⟩ | ⟨hr, hb1⟩
    · rcases B.bnd_stab c1 h0 s hs with h | ⟨q, hq, _⟩
      · exact Or.inl h
      · simp at hq
    · rw [hb1] at hs
      obtain ⟨q, hq, hsq⟩ := (G.nb_src _ hs).2 (hashS_neg s)
      rw [unhashS_hashS] at hsq
      have hqc : (q : Int) ∈ c.bnd := (hord _).mp hq
      obtain ⟨s0, h1, h2, h3⟩ := B.bnd_qubit c hc q hqc
      refine Or.inr ⟨q, (hpend _).mpr (G.fus_col _ hq (by omega)), hsq, (hcol q).mpr (Or.inr hqc),
        s0, h1, (hrow s0).mpr (Or.inl h2), by rw [hr]; exact h3⟩
  · -- bnd_qubit
    intro c1 hc1 q hq
    rcases hmem1 c1 hc1 with ⟨_, h0⟩ | ⟨hr, hb1⟩
    · obtain ⟨s, h1, h2, h3⟩ := B.bnd_qubit c1 h0 q hq
      exact ⟨s, h1, (hrow s).mpr (Or.inl h2), h3⟩
    · rw [hb1] at hq
      obtain ⟨s, hs, hsq⟩ := (G.nb_src _ hq).1 (by omega)
      have hsc : hashS s ∈ c.bnd := (hord _).mp hs
      refine ⟨s, by simpa using hsq, (hrow s).mpr (Or.inr hsc), ?_⟩
      rw [hr]; exact (hstabc s hsc).2
  · -- j1
    intro s hs hrd
    rw [hsp] at hs
    have hrd0 : st.rowDead s = false := by
      cases h : st.rowDead s
      · rfl
      · rw [(hrow s).mpr (Or.inl h)] at hrd; exact absurd hrd (by simp)
    obtain ⟨c0, hc0, hr0, hb0⟩ := B.j1 s hs hrd0
    have hne : c0.root ≠ c.root := by
      intro h
      rw [hceq c0 hc0 h] at hb0
      rw [(hrow s).mpr (Or.inr hb0)] at hrd; exact absurd hrd (by simp)
    exact ⟨c0, hkeep c0 hc0 hne, hr0, hb0⟩
  · -- j2
    intro s q hsq hrd hcd
    have hcd0 : st.colDead q = false := by
      cases h : st.colDead q
      · rfl
      · rw [(hcol q).mpr (Or.inl h)] at hcd; exact absurd hcd (by simp)
    have hqc : (q : Int) ∉ c.bnd := by
      intro h; rw [(hcol q).mpr (Or.inr h)] at hcd; exact absurd hcd (by simp)
    cases hrd0 : st.rowDead s
    · -- the row was zeroed in this call
      have hsc : hashS s ∈ c.bnd := by
        rcases (hrow s).mp hrd with h | h
        · rw [hrd0] at h; exact absurd h (by simp)
        · exact h
      rcases G.nb_row s ((hord _).mpr hsc) q hsq with h | h | h
      · rw [hrd0] at h; exact absurd h (by simp)
      · simp only [] at h; rw [hcd] at h; exact absurd h (by simp)
      · exact ⟨_, hnew, (hstabc s hsc).2.symm, h⟩
    · obtain ⟨c0, hc0, hr0, hb0⟩ := B.j2 s q hsq hrd0 hcd0
      have hne : c0.root ≠ c.root := by
        intro h; rw [hceq c0 hc0 h] at hb0; exact hqc hb0
      exact ⟨c0, hkeep c0 hc0 hne, hr0, hb0⟩
  · -- k
    intro q hq s s' hg hg'
    rw [hsp]
    have hqf : (q : Int) ∉ fus := fun h => hq ((hpend _).mpr h)
    have hold : ∀ t, grown H st1.rowDead st1.colDead t q = true →
        grown H st.rowDead st.colDead t q = true := by
      intro t ht
      rw [grown_iff] at ht ⊢
      refine ⟨ht.1, ?_⟩
      rcases ht.2 with h | h
      · rcases (hrow t).mp h with h | h
        · exact Or.inl h
        · rcases G.fus_row t ((hord _).mpr h) q ht.1 with h1 | h1 | h1
          · exact Or.inl h1
          · exact Or.inr h1
          · exact absurd h1 hqf
      · rcases (hcol q).mp h with h | h
        · exact Or.inr h
        · exact absurd (G.fus_col _ ((hord _).mpr h) (by omega)) hqf
    exact B.k q (by simp) s s' (hold s hg) (hold s' hg')

/-- **the merge of one fused qubit preserves the invariant** and removes it from the pending list -/
theorem BdInv_fuse {H : Mat} {sy : Vec} {st : GState} {rep d : Nat → Nat} (I : GInv H sy st rep d)
    {x : Int} {rest : List Int} (B : BdInv H st rep (x :: rest)) :
    ∃ rep' d', GInv H sy (fuseStep H st x) rep' d' ∧ BdInv H (fuseStep H st x) rep' rest := by
  obtain ⟨rep', d', I', M, hrd, hcd⟩ := fuse_spec I x
  refine ⟨rep', d', I', ?_⟩
  generalize fuseStep H st x = st' at I' M hrd hcd
  have hrootlive : ∀ c, c ∈ st.forest → st.sPar c.root ≠ -1 := by
    intro c hc; rw [forest_root I.fi hc]; omega
  -- all rows grown over the fused column end up in one tree
  have hcolumn : ∀ s s', grown H st.rowDead st.colDead s x.toNat = true →
      grown H st.rowDead st.colDead s' x.toNat = true →
      st'.sPar s ≠ -1 ∧ st'.sPar s' ≠ -1 ∧ rep' s = rep' s' := by
    intro s s' hs hs'
    have hlive : ∃ t, t ∈ grownRows H st x.toNat ∧ st.sPar t ≠ -1 := by
      rcases ((grown_iff ..).mp hs).2 with h | h
      · exact ⟨s, mem_grownRows.mpr hs, B.row_live s h⟩
      · obtain ⟨t, h1, h2⟩ := B.col_row _ h
        exact ⟨t, mem_grownRows.mpr ((grown_iff ..).mpr ⟨h1, Or.inl h2⟩), B.row_live t h2⟩
    obtain ⟨b, _, _, hall, _⟩ := M.merged hlive
    have h1 := hall s (mem_grownRows.mpr hs)
    have h2 := hall s' (mem_grownRows.mpr hs')
    exact ⟨h1.1, h2.1, h1.2.trans h2.2.symm⟩
  refine ⟨?_, ?_, ?_, ?_, ?_, ?_, ?_⟩
  · intro s hs; rw [hrd] at hs; exact M.live_mono s (B.row_live s hs)
  · intro q hq
    rw [hcd] at hq
    obtain ⟨s, h1, h2⟩ := B.col_row q hq
    exact ⟨s, h1, by rw [hrd]; exact h2⟩
  · -- bnd_stab
    intro c' hc' s hs
    rcases M.bnd_src c' hc' _ hs with ⟨c, hc, hsc, hroot⟩ | ⟨s', hs', hfresh, hlive', hx, hrep'⟩
    · rcases B.bnd_stab c hc s hsc with ⟨h1, h2⟩ | ⟨q, hq, hsq, hcq, s0, h01, h02, h03⟩
      · refine Or.inl ⟨M.live_mono s h1, ?_⟩
        rw [← hroot]
        exact M.coarse s c.root h1 (hrootlive c hc) (by rw [h2, I.uf.root_rep _ (forest_root I.fi hc)])
      · have hs0live := B.row_live s0 h02
        have hrep0 : rep' s0 = c'.root := by
          rw [← hroot]
          exact M.coarse s0 c.root hs0live (hrootlive c hc)
            (by rw [h03, I.uf.root_rep _ (forest_root I.fi hc)])
        rcases List.mem_cons.mp hq with hqx | hqr
        · -- this is the merge that makes `s` a member
          have hq0 : q = x.toNat := by omega
          subst hq0
          have := hcolumn s s0 ((grown_iff ..).mpr ⟨hsq, Or.inr hcq⟩)
            ((grown_iff ..).mpr ⟨h01, Or.inl h02⟩)
          exact Or.inl ⟨this.1, this.2.2.trans hrep0⟩
        · exact Or.inr ⟨q, hqr, hsq, by rw [hcd]; exact hcq, s0, h01, by rw [hrd]; exact h02, hrep0⟩
    · have : s = s' := hashS_inj hx
      subst this
      exact Or.inl ⟨hlive', hrep'⟩
  · -- bnd_qubit
    intro c' hc' q hq
    rcases M.bnd_src c' hc' _ hq with ⟨c, hc, hqc, hroot⟩ | ⟨s', _, _, _, hx, _⟩
    · obtain ⟨s, h1, h2, h3⟩ := B.bnd_qubit c hc q hqc
      refine ⟨s, h1, by rw [hrd]; exact h2, ?_⟩
      rw [← hroot]
      exact M.coarse s c.root (B.row_live s h2) (hrootlive c hc)
        (by rw [h3, I.uf.root_rep _ (forest_root I.fi hc)])
    · have := hashS_neg s'; omega
  · -- j1
    intro s hs hrow
    rw [hrd] at hrow
    by_cases hold : st.sPar s = -1
    · have hss := M.newlive s hold hs
      obtain ⟨c', h1, h2, h3⟩ := M.bnd_fresh s hss hold hs
      exact ⟨c', h1, h2, h3⟩
    · obtain ⟨c, hc, hr, hb⟩ := B.j1 s hold hrow
      obtain ⟨c', h1, h2, h3⟩ := M.bnd_keep c hc _ hb
      refine ⟨c', h1, ?_, h3⟩
      rw [h2, hr]
      exact M.coarse (rep s) s (by rw [I.uf.rep_root s hold]; omega) hold (I.uf.rep_rep hold)
  · -- j2
    intro s q hsq hrow hcol
    rw [hrd] at hrow
    rw [hcd] at hcol
    have hold := B.row_live s hrow
    obtain ⟨c, hc, hr, hb⟩ := B.j2 s q hsq hrow hcol
    obtain ⟨c', h1, h2, h3⟩ := M.bnd_keep c hc _ hb
    refine ⟨c', h1, ?_, h3⟩
    rw [h2, hr]
    exact M.coarse (rep s) s (by rw [I.uf.rep_root s hold]; omega) hold (I.uf.rep_rep hold)
  · -- k
    intro q hq s s' hg hg'
    rw [hrd, hcd] at hg hg'
    by_cases hqx : (q : Int) = x
    · have hq0 : q = x.toNat := by omega
      subst hq0
      exact hcolumn s s' hg hg'
    · have hq' : (q : Int) ∉ x :: rest := by
        intro h
        rcases List.mem_cons.mp h with h | h
        · exact hqx h
        · exact hq h
      obtain ⟨h1, h2, h3⟩ := B.k q hq' s s' hg hg'
      exact ⟨M.live_mono s h1, M.live_mono s' h2, M.coarse s s' h1 h2 h3⟩

end Panqec.UF
