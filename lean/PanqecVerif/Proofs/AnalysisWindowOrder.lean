/-
Order independence of `calculate_thresholds` up to the call of `curve_fit` (C16): permuting the rows of the
results table changes neither the parameter sets, nor the window limits, nor what the first fit receives.
-/
import PanqecVerif.Proofs.AnalysisWindowMore

namespace Panqec.An

/-- the four numbers of a window -/
def Window.limits (w : Window) : Rat × Rat × Rat × Rat := (w.pNearest, w.pSd, w.pLeft, w.pRight)

/-- what a thresholds row shows: key, window limits, (rows, p0[0], p0[2]) of the first fit, replacement values -/
structure Report where
  key : Triple
  pNearest : Rat
  pSd : Rat
  pLeft : Rat
  pRight : Rat
  fit : Option (Nat × Rat × Rat)
  replaced : Option (Rat × Rat × Rat × Rat)
  deriving DecidableEq, Repr

def ThreshEntry.report : ThreshEntry → Report
  | .fitted k w n p0 f0 => ⟨k, w.pNearest, w.pSd, w.pLeft, w.pRight, some (n, p0, f0), none⟩
  | .replaced k w v => ⟨k, w.pNearest, w.pSd, w.pLeft, w.pRight, none, some v⟩
  | .unfitted k w => ⟨k, w.pNearest, w.pSd, w.pLeft, w.pRight, none, none⟩

/-- same limits, same rows up to order -/
def WEq (w w' : Window) : Prop := w.limits = w'.limits ∧ w.rows.Perm w'.rows

/-! ### sorted parameter sets -/

theorem tripleLe_total (a b : Triple) : tripleLe a b = true ∨ tripleLe b a = true := by
  unfold tripleLe
  simp only [Bool.or_eq_true, Bool.and_eq_true, decide_eq_true_eq, beq_iff_eq]
  omega

theorem tripleLe_trans {a b c : Triple} (h1 : tripleLe a b = true) (h2 : tripleLe b c = true) : tripleLe a c = true := by
  unfold tripleLe at *
  simp only [Bool.or_eq_true, Bool.and_eq_true, decide_eq_true_eq, beq_iff_eq] at *
  omega

theorem tripleLe_antisymm {a b : Triple} (h1 : tripleLe a b = true) (h2 : tripleLe b a = true) : a = b := by
  unfold tripleLe at *
  simp only [Bool.or_eq_true, Bool.and_eq_true, decide_eq_true_eq, beq_iff_eq] at *
  obtain ⟨a1, a2, a3⟩ := a
  obtain ⟨b1, b2, b3⟩ := b
  simp only [Prod.mk.injEq]
  simp only at h1 h2
  omega

theorem insertTriple_pairwise (t : Triple) : ∀ l : List Triple, l.Pairwise (fun a b => tripleLe a b = true) →
    (insertTriple t l).Pairwise (fun a b => tripleLe a b = true)
  | [], _ => by simp [insertTriple]
  | u :: us, h => by
    unfold insertTriple
    split
    · rename_i htu
      refine List.pairwise_cons.mpr ⟨?_, h⟩
      intro b hb
      rcases List.mem_cons.mp hb with rfl | hb
      · exact htu
      · exact tripleLe_trans htu ((List.pairwise_cons.mp h).1 b hb)
    · rename_i htu
      have hut : tripleLe u t = true := (tripleLe_total t u).resolve_left htu
      refine List.pairwise_cons.mpr ⟨?_, insertTriple_pairwise t us (List.pairwise_cons.mp h).2⟩
      intro b hb
      have hb' := (insertTriple_perm t us).mem_iff.mp hb
      rcases List.mem_cons.mp hb' with rfl | hb'
      · exact hut
      · exact (List.pairwise_cons.mp h).1 b hb'

theorem sortTriples_pairwise : ∀ l : List Triple, (sortTriples l).Pairwise (fun a b => tripleLe a b = true)
  | [] => List.Pairwise.nil
  | t :: ts => insertTriple_pairwise t _ (sortTriples_pairwise ts)

theorem sortTriples_eq_of_perm {a b : List Triple} (h : a.Perm b) : sortTriples a = sortTriples b := by
  apply List.Perm.eq_of_pairwise (le := fun a b => tripleLe a b = true) _ (sortTriples_pairwise a) (sortTriples_pairwise b)
  · exact (sortTriples_perm a).trans (h.trans (sortTriples_perm b).symm)
  · intro x y _ _ hxy hyx; exact tripleLe_antisymm hxy hyx

theorem paramSets_perm {a b : List ResRow} (h : a.Perm b) : paramSets a = paramSets b :=
  sortTriples_eq_of_perm (eraseDups_perm (h.map _))

/-! ### windows -/

theorem windowDefault_perm {a b : List TRow} (h : a.Perm b) (pn : Rat) :
    (windowDefault a pn = none ∧ windowDefault b pn = none) ∨
    ∃ w w', windowDefault a pn = some w ∧ windowDefault b pn = some w' ∧ WEq w w' := by
  unfold windowDefault
  rw [← minList_perm (h.map _), ← maxList_perm (h.map _)]
  cases minList (a.map (·.rate)) <;> cases maxList (a.map (·.rate))
  · exact Or.inl ⟨rfl, rfl⟩
  · exact Or.inl ⟨rfl, rfl⟩
  · exact Or.inl ⟨rfl, rfl⟩
  · exact Or.inr ⟨_, _, rfl, rfl, rfl, h⟩

theorem windowOverride_perm (spec : TruncSpec) {a b : List TRow} (h : a.Perm b) (pn : Rat) :
    (windowOverride spec a pn = none ∧ windowOverride spec b pn = none) ∨
    ∃ w w', windowOverride spec a pn = some w ∧ windowOverride spec b pn = some w' ∧ WEq w w' := by
  unfold windowOverride
  rw [← minList_perm (h.map _), ← maxList_perm (h.map _)]
  cases minList (a.map (·.rate)) <;> cases maxList (a.map (·.rate))
  · exact Or.inl ⟨rfl, rfl⟩
  · exact Or.inl ⟨rfl, rfl⟩
  · exact Or.inl ⟨rfl, rfl⟩
  · refine Or.inr ⟨_, _, rfl, rfl, rfl, ?_⟩
    simp only
    cases spec.hasD <;> cases spec.dmin <;> cases spec.dmax <;> simp only [Bool.false_eq_true, if_false, if_true]
    · exact h
    · exact h
    · exact h
    · exact h
    · exact h
    · exact h.filter _
    · exact h.filter _
    · exact (h.filter _).filter _

theorem windowAuto_perm (sq : Rat → Rat) (grid : List Rat) {a b : List TRow} (h : a.Perm b) (pn : Rat) :
    (∃ e, windowAuto sq grid a pn = .error e ∧ windowAuto sq grid b pn = .error e) ∨
    ∃ w w', windowAuto sq grid a pn = .ok w ∧ windowAuto sq grid b pn = .ok w' ∧ WEq w w' := by
  unfold windowAuto
  rw [← sdInterp_perm sq grid h]
  cases sdInterp sq grid a with
  | error e => exact Or.inl ⟨e, rfl, rfl⟩
  | ok v =>
    obtain ⟨pc, pl, pr⟩ := v
    exact Or.inr ⟨_, _, rfl, rfl, rfl, h⟩

/-! ### one parameter set -/

/-- the body of the loop of `calculate_thresholds` as a function of the rows of the parameter set -/
def entryCore (st : OvState) (sector : Nat) (mode : WindowMode) (key : Triple) (rows : List TRow) :
    Except WErr ThreshEntry :=
  match pThNearest rows with
  | .error e => .error e
  | .ok pn =>
    let win : Except WErr Window :=
      match st.overrides.lookup (sector, key) with
      | some spec => (windowOverride spec rows pn).elim (.error .empty) .ok
      | none =>
        match mode with
        | .auto sq gridOf => windowAuto sq (gridOf rows pn) rows pn
        | .default => (windowDefault rows pn).elim (.error .empty) .ok
    match win with
    | .error e => .error e
    | .ok w =>
      match st.replaces.lookup key with
      | some rp =>
        match rp.pth with
        | some pth => .ok (.replaced key w (replaceThreshold pth rp.se))
        | none => .ok (.unfitted key w)
      | none =>
        match firstFitStart w.rows w.pLeft w.pRight w.pNearest with
        | .ok (n, p0, f0) => .ok (.fitted key w n p0 f0)
        | .error e => .error e

theorem thresholdEntry_eq_core (st : OvState) (sector : Nat) (mode : WindowMode) (rs : List ResRow) (key : Triple) :
    thresholdEntry st sector mode rs key = entryCore st sector mode key ((rs.filter fun r => r.labelKey == key).map (·.row)) :=
  rfl

/-- a grid rule that only looks at the rows as a multiset (e.g. the exact grid, or numpy's: both depend on the
    smallest and largest rate only) -/
def WindowMode.OrderFree : WindowMode → Prop
  | .default => True
  | .auto _ gridOf => ∀ (a b : List TRow) (pn : Rat), a.Perm b → gridOf a pn = gridOf b pn

/-- what is reported for one parameter set: error kind or report -/
def outcome (r : Except WErr ThreshEntry) : Except WErr Report :=
  match r with
  | .ok e => .ok e.report
  | .error e => .error e

theorem pThNearest_perm_single_code {a b : List TRow} (h : a.Perm b) {c : Nat} (hc : ∀ r ∈ a, r.code = c) :
    pThNearest a = pThNearest b := by
  cases hm : minList (a.map (·.rate)) with
  | none =>
    have ha : a = [] := by simpa using minList_eq_none.mp hm
    subst ha
    rw [List.nil_perm.mp h]
  | some m =>
    rw [pThNearest_single_code hc hm,
      pThNearest_single_code (fun r hr => hc r (h.mem_iff.mpr hr)) (by rw [← minList_perm (h.map _)]; exact hm)]

theorem finish_weq (st : OvState) (key : Triple) {w w' : Window} (hw : WEq w w') :
    outcome (match st.replaces.lookup key with
      | some rp =>
        match rp.pth with
        | some pth => .ok (.replaced key w (replaceThreshold pth rp.se))
        | none => .ok (.unfitted key w)
      | none =>
        match firstFitStart w.rows w.pLeft w.pRight w.pNearest with
        | .ok (n, p0, f0) => .ok (.fitted key w n p0 f0)
        | .error e => .error e) =
    outcome (match st.replaces.lookup key with
      | some rp =>
        match rp.pth with
        | some pth => .ok (.replaced key w' (replaceThreshold pth rp.se))
        | none => .ok (.unfitted key w')
      | none =>
        match firstFitStart w'.rows w'.pLeft w'.pRight w'.pNearest with
        | .ok (n, p0, f0) => .ok (.fitted key w' n p0 f0)
        | .error e => .error e) := by
  obtain ⟨hl, hr⟩ := hw
  have hl' := hl
  unfold Window.limits at hl'
  simp only [Prod.mk.injEq] at hl'
  obtain ⟨h1, h2, h3, h4⟩ := hl'
  cases st.replaces.lookup key with
  | some rp =>
    obtain ⟨pth, se⟩ := rp
    cases pth with
    | some pth => simp only [outcome, ThreshEntry.report, h1, h2, h3, h4]
    | none => simp only [outcome, ThreshEntry.report, h1, h2, h3, h4]
  | none =>
    simp only
    rw [firstFitStart_perm hr, h1, h3, h4]
    cases firstFitStart w'.rows w'.pLeft w'.pRight w'.pNearest with
    | error e => rfl
    | ok v =>
      obtain ⟨n, p0, f0⟩ := v
      simp only [outcome, ThreshEntry.report, h1, h2, h3, h4]

theorem entryCore_perm (st : OvState) (sector : Nat) {mode : WindowMode} (hmode : mode.OrderFree) (key : Triple)
    {a b : List TRow} (h : a.Perm b) {c : Nat} (hc : ∀ r ∈ a, r.code = c) :
    outcome (entryCore st sector mode key a) = outcome (entryCore st sector mode key b) := by
  unfold entryCore
  rw [← pThNearest_perm_single_code h hc]
  cases pThNearest a with
  | error e => rfl
  | ok pn =>
    simp only
    cases st.overrides.lookup (sector, key) with
    | some spec =>
      simp only
      rcases windowOverride_perm spec h pn with ⟨h1, h2⟩ | ⟨w, w', h1, h2, hw⟩
      · rw [h1, h2]
      · rw [h1, h2]; exact finish_weq st key hw
    | none =>
      simp only
      cases mode with
      | default =>
        simp only
        rcases windowDefault_perm h pn with ⟨h1, h2⟩ | ⟨w, w', h1, h2, hw⟩
        · rw [h1, h2]
        · rw [h1, h2]; exact finish_weq st key hw
      | auto sq gridOf =>
        simp only
        rw [← hmode a b pn h]
        rcases windowAuto_perm sq (gridOf a pn) h pn with ⟨e, h1, h2⟩ | ⟨w, w', h1, h2, hw⟩
        · rw [h1, h2]
        · rw [h1, h2]; exact finish_weq st key hw

theorem thresholdEntry_perm (st : OvState) (sector : Nat) {mode : WindowMode} (hmode : mode.OrderFree) (key : Triple)
    {a b : List ResRow} (h : a.Perm b) :
    outcome (thresholdEntry st sector mode a key) = outcome (thresholdEntry st sector mode b key) := by
  rw [thresholdEntry_eq_core, thresholdEntry_eq_core]
  apply entryCore_perm st sector hmode key ((h.filter _).map _) (c := key.1)
  intro r hr
  obtain ⟨x, hx, rfl⟩ := List.mem_map.mp hr
  have := (List.mem_filter.mp hx).2
  have hk : x.labelKey = key := by simpa using this
  rw [← hk]; rfl

/-! ### the whole table -/

/-- the observable result of `calculate_thresholds`: the reports in order, or the error -/
def calcReport (st : OvState) (sector : Nat) (mode : WindowMode) (rs : List ResRow) :=
  match calcThresholds st sector mode rs with
  | .ok es => Except.ok (es.map ThreshEntry.report)
  | .error e => Except.error e

theorem mapM_outcome_congr {f g : Triple → Except WErr ThreshEntry} :
    ∀ (l : List Triple), (∀ k ∈ l, outcome (f k) = outcome (g k)) →
      (match l.mapM f with
        | .ok es => Except.ok (es.map ThreshEntry.report, es.any ThreshEntry.isFitted)
        | .error e => Except.error e) =
      (match l.mapM g with
        | .ok es => Except.ok (es.map ThreshEntry.report, es.any ThreshEntry.isFitted)
        | .error e => Except.error e)
  | [], _ => by simp [List.mapM_nil, pure, Except.pure]
  | k :: ks, h => by
    have hk := h k List.mem_cons_self
    have ih := mapM_outcome_congr ks fun k' hk' => h k' (List.mem_cons_of_mem _ hk')
    rw [List.mapM_cons, List.mapM_cons]
    cases hf : f k with
    | error e =>
      cases hg : g k with
      | error e' =>
        rw [hf, hg] at hk
        simp only [outcome] at hk
        injection hk with hk
        simp [bind, Except.bind, hk]
      | ok y => rw [hf, hg] at hk; simp [outcome] at hk
    | ok x =>
      cases hg : g k with
      | error e' => rw [hf, hg] at hk; simp [outcome] at hk
      | ok y =>
        rw [hf, hg] at hk
        simp only [outcome] at hk
        injection hk with hk
        have hfit : x.isFitted = y.isFitted := by
          cases x <;> cases y <;> simp [ThreshEntry.report, ThreshEntry.isFitted] at hk ⊢
        cases hfs : ks.mapM f with
        | error e =>
          cases hgs : ks.mapM g with
          | error e' =>
            rw [hfs, hgs] at ih
            simp only at ih
            injection ih with ih
            simp [bind, Except.bind, ih]
          | ok ys => rw [hfs, hgs] at ih; simp at ih
        | ok xs =>
          cases hgs : ks.mapM g with
          | error e' => rw [hfs, hgs] at ih; simp at ih
          | ok ys =>
            rw [hfs, hgs] at ih
            simp only at ih
            injection ih with ih
            simp only [Prod.mk.injEq] at ih
            simp [bind, Except.bind, pure, Except.pure, hk, hfit, ih.1, ih.2]

/-- ORDER INDEPENDENCE of the row selection: permuting the rows of the results table changes neither which
    parameter sets are reported, nor any window limit, nor the number of rows and the start vector handed to the first
    fit, nor the replacement values, nor the error the call ends with -/
theorem calcReport_perm (st : OvState) (sector : Nat) {mode : WindowMode} (hmode : mode.OrderFree)
    {a b : List ResRow} (h : a.Perm b) : calcReport st sector mode a = calcReport st sector mode b := by
  unfold calcReport calcThresholds
  rw [paramSets_perm h]
  have := mapM_outcome_congr (f := thresholdEntry st sector mode a) (g := thresholdEntry st sector mode b)
    ((paramSets b).filter fun t => !st.skips.contains t) (fun k _ => thresholdEntry_perm st sector hmode k h)
  cases hfa : ((paramSets b).filter fun t => !st.skips.contains t).mapM (thresholdEntry st sector mode a) with
  | error e =>
    cases hfb : ((paramSets b).filter fun t => !st.skips.contains t).mapM (thresholdEntry st sector mode b) with
    | error e' =>
      rw [hfa, hfb] at this
      simp only at this
      injection this with this
      simp [this]
    | ok ys => rw [hfa, hfb] at this; simp at this
  | ok xs =>
    cases hfb : ((paramSets b).filter fun t => !st.skips.contains t).mapM (thresholdEntry st sector mode b) with
    | error e' => rw [hfa, hfb] at this; simp at this
    | ok ys =>
      rw [hfa, hfb] at this
      simp only at this
      injection this with this
      simp only [Prod.mk.injEq] at this
      simp only [this.2]
      by_cases c1 : (!ys.any ThreshEntry.isFitted) = true
      · simp only [c1, if_true]
      · by_cases c2 : (!st.extra.isEmpty) = true
        · simp only [c1, c2, if_true]
        · simp [c1, c2, this.1]

end Panqec.An
