/-
`HollowRhombicCode`, rank clause, part D: the three-qubit probe `X(3,2,z) X(4,2,z−1) X(3,2,z−2)` of
a kept lower triangle `(0, 2, 2, z)` along the hole edge `x = y = 3` (`QC`): among the selected
triangles of rank not smaller only `(1, 4, 2, z)` and `(1, 4, 2, z−2)` contain one of the three
qubits, and each of them contains two.  Core Lean only.
-/
import PanqecVerif.Proofs.LatHollowRhombicCodeRankC

set_option linter.unusedVariables false
set_option linter.unusedSimpArgs false

namespace Panqec.HollowRhombicCode
open Panqec.Cubic3D
open Panqec.Planar3DCode (inE inO inE2 inO1)

theorem sgnX_0 : sgnX 0 = 1 := by decide
theorem sgnY_0 : sgnY 0 = 1 := by decide
theorem sgnX_2 : sgnX 2 = 1 := by decide
theorem sgnY_2 : sgnY 2 = -1 := by decide
theorem sgnX_3 : sgnX 3 = -1 := by decide
theorem sgnY_3 : sgnY 3 = 1 := by decide
theorem sgnZ_23 {a x y z : Int} (ha : a = 2 ∨ a = 3) :
    sgnZ a x y z = if (x + y + z) % 4 = 0 then -1 else 1 := by
  unfold sgnZ
  rcases ha with rfl | rfl
  · by_cases h : (x + y + z) % 4 = 0 <;> simp [h]
  · by_cases h : (x + y + z) % 4 = 0 <;> simp [h]
theorem sgnZ_01 {a x y z : Int} (ha : a = 0 ∨ a = 1) :
    sgnZ a x y z = if (x + y + z) % 4 = 0 then 1 else -1 := by
  unfold sgnZ
  rcases ha with rfl | rfl
  · by_cases h : (x + y + z) % 4 = 0 <;> simp [h]
  · by_cases h : (x + y + z) % 4 = 0 <;> simp [h]

section
variable {Lx Ly Lz : Nat} {z b u v w : Int}

theorem q_loc1 (hq : QC Lx Ly Lz 2 2 z) (hg : 4 ≤ Lx ∧ 4 ≤ Ly) (hs : TS Lx Ly Lz 0 2 2 z) (ht : TS Lx Ly Lz b u v w)
    (hne : ¬ (0 = b ∧ 2 = u ∧ 2 = v ∧ z = w))
    (hle : mu Ly Lz [0, 2, 2, z] ≤ mu Ly Lz [b, u, v, w])
    (hmem : [3, 2, z] ∈ triKeys Lx Ly Lz b u v w) : b = 1 ∧ u = 4 ∧ v = 2 ∧ w = z := by
  have hlex := mu_lex hs.2.1 ht.2.1 hle
  have h3 := mem_triKeys hmem
  have hsv := hs.2.1
  have htv := ht.2.1
  have htp := ht.2.2.1
  unfold VertexLoc inE2 inE at hsv htv
  unfold PT Hole at htp
  unfold QC at hq
  have htab := sgn_table (u := u) (v := v) (w := w) ht.1 (by omega)
  clear hmem hle hs ht
  generalize sgnX b = sx at *
  generalize sgnY b = sy at *
  generalize sgnZ b u v w = sz at *
  rcases htab with ⟨rfl, hf⟩ | ⟨rfl, hf⟩ | ⟨rfl, hf⟩ | ⟨rfl, hf⟩ <;> simp [rk] at hlex <;>
    rcases h3 with h3 | h3 | h3 <;> omega

theorem q_loc3 (hq : QC Lx Ly Lz 2 2 z) (hg : 4 ≤ Lx ∧ 4 ≤ Ly) (hs : TS Lx Ly Lz 0 2 2 z) (ht : TS Lx Ly Lz b u v w)
    (hne : ¬ (0 = b ∧ 2 = u ∧ 2 = v ∧ z = w))
    (hle : mu Ly Lz [0, 2, 2, z] ≤ mu Ly Lz [b, u, v, w])
    (hmem : [3, 2, z - 2] ∈ triKeys Lx Ly Lz b u v w) : b = 1 ∧ u = 4 ∧ v = 2 ∧ w = z - 2 := by
  have hlex := mu_lex hs.2.1 ht.2.1 hle
  have h3 := mem_triKeys hmem
  have hsv := hs.2.1
  have htv := ht.2.1
  have htp := ht.2.2.1
  unfold VertexLoc inE2 inE at hsv htv
  unfold PT Hole at htp
  unfold QC at hq
  have htab := sgn_table (u := u) (v := v) (w := w) ht.1 (by omega)
  clear hmem hle hs ht
  generalize sgnX b = sx at *
  generalize sgnY b = sy at *
  generalize sgnZ b u v w = sz at *
  rcases htab with ⟨rfl, hf⟩ | ⟨rfl, hf⟩ | ⟨rfl, hf⟩ | ⟨rfl, hf⟩ <;> simp [rk] at hlex <;>
    rcases h3 with h3 | h3 | h3 <;> omega

theorem q_loc2 (hq : QC Lx Ly Lz 2 2 z) (hg : 4 ≤ Lx ∧ 4 ≤ Ly) (hs : TS Lx Ly Lz 0 2 2 z) (ht : TS Lx Ly Lz b u v w)
    (hne : ¬ (0 = b ∧ 2 = u ∧ 2 = v ∧ z = w))
    (hle : mu Ly Lz [0, 2, 2, z] ≤ mu Ly Lz [b, u, v, w])
    (hmem : [4, 2, z - 1] ∈ triKeys Lx Ly Lz b u v w) :
    b = 1 ∧ u = 4 ∧ v = 2 ∧ (w = z ∨ w = z - 2) := by
  have hlex := mu_lex hs.2.1 ht.2.1 hle
  have h3 := mem_triKeys hmem
  have hsv := hs.2.1
  have htv := ht.2.1
  have htp := ht.2.2.1
  unfold VertexLoc inE2 inE at hsv htv
  unfold PT Hole at htp
  unfold QC at hq
  have htab := sgn_table (u := u) (v := v) (w := w) ht.1 (by omega)
  clear hmem hle hs ht
  generalize sgnX b = sx at *
  generalize sgnY b = sy at *
  generalize sgnZ b u v w = sz at *
  rcases htab with ⟨rfl, hf⟩ | ⟨rfl, hf⟩ | ⟨rfl, hf⟩ | ⟨rfl, hf⟩ <;> simp [rk] at hlex <;>
    rcases h3 with h3 | h3 | h3 <;> omega

/-- the three probe qubits are qubits -/
theorem q_qubits (hq : QC Lx Ly Lz 2 2 z) (hg : 4 ≤ Lx ∧ 4 ≤ Ly) :
    [3, 2, z] ∈ qubits Lx Ly Lz ∧ [4, 2, z - 1] ∈ qubits Lx Ly Lz ∧ [3, 2, z - 2] ∈ qubits Lx Ly Lz := by
  unfold QC at hq
  refine ⟨?_, ?_, ?_⟩
  · rw [mem_qubits_x (by decide) (by decide) (by omega)]; unfold Qx Hole; omega
  · rw [mem_qubits_z (by decide) (by decide) (by omega)]; unfold Qz Hole; omega
  · rw [mem_qubits_x (by decide) (by decide) (by omega)]; unfold Qx Hole; omega

theorem sgnX_1 : sgnX 1 = -1 := by decide
theorem sgnY_1 : sgnY 1 = -1 := by decide

/-- the keys of `(1, 4, 2, z)` among the probe qubits -/
theorem q_keys_a (hq : QC Lx Ly Lz 2 2 z) (hg : 4 ≤ Lx ∧ 4 ≤ Ly) :
    [3, 2, z] ∈ triKeys Lx Ly Lz 1 4 2 z ∧ [4, 2, z - 1] ∈ triKeys Lx Ly Lz 1 4 2 z ∧
    [3, 2, z - 2] ∉ triKeys Lx Ly Lz 1 4 2 z := by
  obtain ⟨q1, q2, q3⟩ := q_qubits hq hg
  unfold QC at hq
  have hz : sgnZ 1 4 2 z = -1 := by
    unfold sgnZ
    have : ¬ ((4 + 2 + z) % 4 = 0) := by omega
    rw [if_neg (by intro h; exact this (h.mp (Or.inr rfl)))]
  refine ⟨mem_triKeys_of (Or.inl ⟨by rw [sgnX_1]; rfl, rfl, rfl⟩) q1,
    mem_triKeys_of (Or.inr (Or.inr ⟨rfl, rfl, by rw [hz]; omega⟩)) q2, ?_⟩
  intro h
  have := mem_triKeys h
  rw [hz, sgnX_1, sgnY_1] at this
  omega

/-- the keys of `(1, 4, 2, z−2)` among the probe qubits -/
theorem q_keys_b (hq : QC Lx Ly Lz 2 2 z) (hg : 4 ≤ Lx ∧ 4 ≤ Ly) :
    [3, 2, z] ∉ triKeys Lx Ly Lz 1 4 2 (z - 2) ∧ [4, 2, z - 1] ∈ triKeys Lx Ly Lz 1 4 2 (z - 2) ∧
    [3, 2, z - 2] ∈ triKeys Lx Ly Lz 1 4 2 (z - 2) := by
  obtain ⟨q1, q2, q3⟩ := q_qubits hq hg
  unfold QC at hq
  have hz : sgnZ 1 4 2 (z - 2) = 1 := by
    unfold sgnZ
    have : (4 + 2 + (z - 2)) % 4 = 0 := by omega
    rw [if_pos ⟨fun _ => this, fun _ => Or.inr rfl⟩]
  refine ⟨?_, mem_triKeys_of (Or.inr (Or.inr ⟨rfl, rfl, by rw [hz]; omega⟩)) q2,
    mem_triKeys_of (Or.inl ⟨by rw [sgnX_1]; rfl, rfl, rfl⟩) q3⟩
  intro h
  have := mem_triKeys h
  rw [hz, sgnX_1, sgnY_1] at this
  omega

/-- a selected triangle other than `(0, 2, 2, z)` of rank not smaller contains an even number of
    the three probe qubits -/
theorem later_q (hq : QC Lx Ly Lz 2 2 z) (hg : 4 ≤ Lx ∧ 4 ≤ Ly) (hs : TS Lx Ly Lz 0 2 2 z) (ht : TS Lx Ly Lz b u v w)
    (hne : ¬ (0 = b ∧ 2 = u ∧ 2 = v ∧ z = w))
    (hle : mu Ly Lz [0, 2, 2, z] ≤ mu Ly Lz [b, u, v, w]) :
    ([[3, 2, z], [4, 2, z - 1], [3, 2, z - 2]].countP
      fun q => decide (q ∈ triKeys Lx Ly Lz b u v w)) % 2 = 0 := by
  have ha := q_keys_a hq hg
  have hb := q_keys_b hq hg
  by_cases m1 : [3, 2, z] ∈ triKeys Lx Ly Lz b u v w
  · obtain ⟨rfl, rfl, rfl, rfl⟩ := q_loc1 hq hg hs ht hne hle m1
    simp [List.countP_cons, ha.1, ha.2.1, ha.2.2]
  · by_cases m3 : [3, 2, z - 2] ∈ triKeys Lx Ly Lz b u v w
    · obtain ⟨rfl, rfl, rfl, rfl⟩ := q_loc3 hq hg hs ht hne hle m3
      simp [List.countP_cons, hb.1, hb.2.1, hb.2.2]
    · by_cases m2 : [4, 2, z - 1] ∈ triKeys Lx Ly Lz b u v w
      · obtain ⟨rfl, rfl, rfl, h | h⟩ := q_loc2 hq hg hs ht hne hle m2
        · subst h; exact absurd ha.1 m1
        · subst h; exact absurd hb.2.2 m3
      · simp [List.countP_cons, m1, m2, m3]

/-- the triangle `(0, 2, 2, z)` itself contains exactly the first of the three probe qubits -/
theorem diag_q (hq : QC Lx Ly Lz 2 2 z) (hg : 4 ≤ Lx ∧ 4 ≤ Ly) :
    ([[3, 2, z], [4, 2, z - 1], [3, 2, z - 2]].countP
      fun q => decide (q ∈ triKeys Lx Ly Lz 0 2 2 z)) = 1 := by
  obtain ⟨q1, q2, q3⟩ := q_qubits hq hg
  have h1 : [3, 2, z] ∈ triKeys Lx Ly Lz 0 2 2 z :=
    mem_triKeys_of (Or.inl ⟨by decide, rfl, rfl⟩) q1
  have h2 : [4, 2, z - 1] ∉ triKeys Lx Ly Lz 0 2 2 z := by
    intro h; have := mem_triKeys h; omega
  have h3 : [3, 2, z - 2] ∉ triKeys Lx Ly Lz 0 2 2 z := by
    intro h; have := mem_triKeys h
    have e : sgnX 0 = 1 := by decide
    rw [e] at this; omega
  simp [List.countP_cons, h1, h2, h3]

/-! ### the probe `X(2,3,z) X(2,4,z−1) X(2,3,z−2)` of the sizes with `Lx = 3`, `Ly ≥ 5` -/

theorem r_loc1 (hq : QC Lx Ly Lz 2 2 z) (hg : Lx = 3 ∧ 5 ≤ Ly) (hs : TS Lx Ly Lz 0 2 2 z)
    (ht : TS Lx Ly Lz b u v w) (hne : ¬ (0 = b ∧ 2 = u ∧ 2 = v ∧ z = w))
    (hle : mu Ly Lz [0, 2, 2, z] ≤ mu Ly Lz [b, u, v, w])
    (hmem : [2, 3, z] ∈ triKeys Lx Ly Lz b u v w) : b = 1 ∧ u = 2 ∧ v = 4 ∧ w = z := by
  have hlex := mu_lex hs.2.1 ht.2.1 hle
  have h3 := mem_triKeys hmem
  have hsv := hs.2.1
  have htv := ht.2.1
  have htp := ht.2.2.1
  unfold VertexLoc inE2 inE at hsv htv
  unfold PT Hole at htp
  unfold QC at hq
  have htab := sgn_table (u := u) (v := v) (w := w) ht.1 (by omega)
  clear hmem hle hs ht
  generalize sgnX b = sx at *
  generalize sgnY b = sy at *
  generalize sgnZ b u v w = sz at *
  rcases htab with ⟨rfl, hf⟩ | ⟨rfl, hf⟩ | ⟨rfl, hf⟩ | ⟨rfl, hf⟩ <;> simp [rk] at hlex <;>
    rcases h3 with h3 | h3 | h3 <;> omega

theorem r_loc3 (hq : QC Lx Ly Lz 2 2 z) (hg : Lx = 3 ∧ 5 ≤ Ly) (hs : TS Lx Ly Lz 0 2 2 z)
    (ht : TS Lx Ly Lz b u v w) (hne : ¬ (0 = b ∧ 2 = u ∧ 2 = v ∧ z = w))
    (hle : mu Ly Lz [0, 2, 2, z] ≤ mu Ly Lz [b, u, v, w])
    (hmem : [2, 3, z - 2] ∈ triKeys Lx Ly Lz b u v w) : b = 1 ∧ u = 2 ∧ v = 4 ∧ w = z - 2 := by
  have hlex := mu_lex hs.2.1 ht.2.1 hle
  have h3 := mem_triKeys hmem
  have hsv := hs.2.1
  have htv := ht.2.1
  have htp := ht.2.2.1
  unfold VertexLoc inE2 inE at hsv htv
  unfold PT Hole at htp
  unfold QC at hq
  have htab := sgn_table (u := u) (v := v) (w := w) ht.1 (by omega)
  clear hmem hle hs ht
  generalize sgnX b = sx at *
  generalize sgnY b = sy at *
  generalize sgnZ b u v w = sz at *
  rcases htab with ⟨rfl, hf⟩ | ⟨rfl, hf⟩ | ⟨rfl, hf⟩ | ⟨rfl, hf⟩ <;> simp [rk] at hlex <;>
    rcases h3 with h3 | h3 | h3 <;> omega

theorem r_loc2 (hq : QC Lx Ly Lz 2 2 z) (hg : Lx = 3 ∧ 5 ≤ Ly) (hs : TS Lx Ly Lz 0 2 2 z)
    (ht : TS Lx Ly Lz b u v w) (hne : ¬ (0 = b ∧ 2 = u ∧ 2 = v ∧ z = w))
    (hle : mu Ly Lz [0, 2, 2, z] ≤ mu Ly Lz [b, u, v, w])
    (hmem : [2, 4, z - 1] ∈ triKeys Lx Ly Lz b u v w) :
    b = 1 ∧ u = 2 ∧ v = 4 ∧ (w = z ∨ w = z - 2) := by
  have hlex := mu_lex hs.2.1 ht.2.1 hle
  have h3 := mem_triKeys hmem
  have hsv := hs.2.1
  have htv := ht.2.1
  have htp := ht.2.2.1
  unfold VertexLoc inE2 inE at hsv htv
  unfold PT Hole at htp
  unfold QC at hq
  have htab := sgn_table (u := u) (v := v) (w := w) ht.1 (by omega)
  clear hmem hle hs ht
  generalize sgnX b = sx at *
  generalize sgnY b = sy at *
  generalize sgnZ b u v w = sz at *
  rcases htab with ⟨rfl, hf⟩ | ⟨rfl, hf⟩ | ⟨rfl, hf⟩ | ⟨rfl, hf⟩ <;> simp [rk] at hlex <;>
    rcases h3 with h3 | h3 | h3 <;> omega

theorem r_qubits (hq : QC Lx Ly Lz 2 2 z) (hg : Lx = 3 ∧ 5 ≤ Ly) :
    [2, 3, z] ∈ qubits Lx Ly Lz ∧ [2, 4, z - 1] ∈ qubits Lx Ly Lz ∧ [2, 3, z - 2] ∈ qubits Lx Ly Lz := by
  unfold QC at hq
  refine ⟨?_, ?_, ?_⟩
  · rw [mem_qubits_y (by decide) (by decide) (by omega)]; unfold Qy Hole; omega
  · rw [mem_qubits_z (by decide) (by decide) (by omega)]; unfold Qz Hole; omega
  · rw [mem_qubits_y (by decide) (by decide) (by omega)]; unfold Qy Hole; omega

theorem r_keys_a (hq : QC Lx Ly Lz 2 2 z) (hg : Lx = 3 ∧ 5 ≤ Ly) :
    [2, 3, z] ∈ triKeys Lx Ly Lz 1 2 4 z ∧ [2, 4, z - 1] ∈ triKeys Lx Ly Lz 1 2 4 z ∧
    [2, 3, z - 2] ∉ triKeys Lx Ly Lz 1 2 4 z := by
  obtain ⟨q1, q2, q3⟩ := r_qubits hq hg
  unfold QC at hq
  have hz : sgnZ 1 2 4 z = -1 := by
    unfold sgnZ
    have : ¬ ((2 + 4 + z) % 4 = 0) := by omega
    rw [if_neg (by intro h; exact this (h.mp (Or.inr rfl)))]
  refine ⟨mem_triKeys_of (Or.inr (Or.inl ⟨rfl, by rw [sgnY_1]; rfl, rfl⟩)) q1,
    mem_triKeys_of (Or.inr (Or.inr ⟨rfl, rfl, by rw [hz]; omega⟩)) q2, ?_⟩
  intro h
  have := mem_triKeys h
  rw [hz, sgnX_1, sgnY_1] at this
  omega

theorem r_keys_b (hq : QC Lx Ly Lz 2 2 z) (hg : Lx = 3 ∧ 5 ≤ Ly) :
    [2, 3, z] ∉ triKeys Lx Ly Lz 1 2 4 (z - 2) ∧ [2, 4, z - 1] ∈ triKeys Lx Ly Lz 1 2 4 (z - 2) ∧
    [2, 3, z - 2] ∈ triKeys Lx Ly Lz 1 2 4 (z - 2) := by
  obtain ⟨q1, q2, q3⟩ := r_qubits hq hg
  unfold QC at hq
  have hz : sgnZ 1 2 4 (z - 2) = 1 := by
    unfold sgnZ
    have : (2 + 4 + (z - 2)) % 4 = 0 := by omega
    rw [if_pos ⟨fun _ => this, fun _ => Or.inr rfl⟩]
  refine ⟨?_, mem_triKeys_of (Or.inr (Or.inr ⟨rfl, rfl, by rw [hz]; omega⟩)) q2,
    mem_triKeys_of (Or.inr (Or.inl ⟨rfl, by rw [sgnY_1]; rfl, rfl⟩)) q3⟩
  intro h
  have := mem_triKeys h
  rw [hz, sgnX_1, sgnY_1] at this
  omega

theorem later_r (hq : QC Lx Ly Lz 2 2 z) (hg : Lx = 3 ∧ 5 ≤ Ly) (hs : TS Lx Ly Lz 0 2 2 z)
    (ht : TS Lx Ly Lz b u v w) (hne : ¬ (0 = b ∧ 2 = u ∧ 2 = v ∧ z = w))
    (hle : mu Ly Lz [0, 2, 2, z] ≤ mu Ly Lz [b, u, v, w]) :
    ([[2, 3, z], [2, 4, z - 1], [2, 3, z - 2]].countP
      fun q => decide (q ∈ triKeys Lx Ly Lz b u v w)) % 2 = 0 := by
  have ha := r_keys_a hq hg
  have hb := r_keys_b hq hg
  by_cases m1 : [2, 3, z] ∈ triKeys Lx Ly Lz b u v w
  · obtain ⟨rfl, rfl, rfl, rfl⟩ := r_loc1 hq hg hs ht hne hle m1
    simp [List.countP_cons, ha.1, ha.2.1, ha.2.2]
  · by_cases m3 : [2, 3, z - 2] ∈ triKeys Lx Ly Lz b u v w
    · obtain ⟨rfl, rfl, rfl, rfl⟩ := r_loc3 hq hg hs ht hne hle m3
      simp [List.countP_cons, hb.1, hb.2.1, hb.2.2]
    · by_cases m2 : [2, 4, z - 1] ∈ triKeys Lx Ly Lz b u v w
      · obtain ⟨rfl, rfl, rfl, h | h⟩ := r_loc2 hq hg hs ht hne hle m2
        · subst h; exact absurd ha.1 m1
        · subst h; exact absurd hb.2.2 m3
      · simp [List.countP_cons, m1, m2, m3]

theorem diag_r (hq : QC Lx Ly Lz 2 2 z) (hg : Lx = 3 ∧ 5 ≤ Ly) :
    ([[2, 3, z], [2, 4, z - 1], [2, 3, z - 2]].countP
      fun q => decide (q ∈ triKeys Lx Ly Lz 0 2 2 z)) = 1 := by
  obtain ⟨q1, q2, q3⟩ := r_qubits hq hg
  have h1 : [2, 3, z] ∈ triKeys Lx Ly Lz 0 2 2 z :=
    mem_triKeys_of (Or.inr (Or.inl ⟨rfl, by decide, rfl⟩)) q1
  have h2 : [2, 4, z - 1] ∉ triKeys Lx Ly Lz 0 2 2 z := by
    intro h; have := mem_triKeys h; omega
  have h3 : [2, 3, z - 2] ∉ triKeys Lx Ly Lz 0 2 2 z := by
    intro h; have := mem_triKeys h
    have e : sgnY 0 = 1 := by decide
    rw [e] at this; omega
  simp [List.countP_cons, h1, h2, h3]

end

end Panqec.HollowRhombicCode
