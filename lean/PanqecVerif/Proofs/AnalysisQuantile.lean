/-
Helper lemmas (C16): the linear-interpolation quantile is monotone in `q`
(hence the median lies between the 0.16 and 0.84 quantiles).
-/
import PanqecVerif.Proofs.AnalysisFss
import Mathlib.Data.Rat.Floor

namespace Panqec.An

theorem getD_of_length_le (l : List Rat) (i : Nat) (d : Rat) (h : l.length ≤ i) : l.getD i d = d := by
  rw [List.getD_eq_getElem?_getD, List.getElem?_eq_none h]
  rfl

theorem sorted_getD_le {l : List Rat} (hs : l.Pairwise (· ≤ ·)) {i j : Nat} (hij : i ≤ j)
    (hj : j < l.length) (d d' : Rat) : l.getD i d ≤ l.getD j d' := by
  have hi : i < l.length := by omega
  rw [List.getD_eq_getElem?_getD, List.getD_eq_getElem?_getD, List.getElem?_eq_getElem hi,
    List.getElem?_eq_getElem hj]
  simp only [Option.getD_some]
  rcases Nat.eq_or_lt_of_le hij with rfl | hlt
  · exact le_refl _
  · exact (List.pairwise_iff_getElem.mp hs) i j hi hj hlt

/-- value of the interpolation on a sorted list (default `x` never used when non-empty) -/
def qval (srt : List Rat) (x q : Rat) : Rat :=
  let pos := ((srt.length : Rat) - 1) * q
  let i := pos.floor.toNat
  let g := pos - (i : Rat)
  let lo := srt.getD i x
  let hi := srt.getD (i + 1) lo
  lo + (hi - lo) * g

theorem quantile_eq_qval {a : List Rat} {x : Rat} {xs : List Rat} (h : sortRat a = x :: xs) (q : Rat) :
    quantile a q = some (qval (x :: xs) x q) := by
  unfold quantile
  rw [h]
  rfl

theorem quantile_some (a : List Rat) (q : Rat) (ha : a ≠ []) : ∃ v, quantile a q = some v := by
  cases h : quantile a q with
  | none => exact absurd ((quantile_none_iff a q).mp h) ha
  | some v => exact ⟨v, rfl⟩

theorem floor_facts {pos : Rat} (h0 : 0 ≤ pos) :
    ((pos.floor.toNat : Nat) : Rat) ≤ pos ∧ pos < ((pos.floor.toNat : Nat) : Rat) + 1 := by
  have hfl : Int.floor pos = pos.floor := rfl
  have hnn : 0 ≤ pos.floor := by rw [← hfl]; exact Int.floor_nonneg.mpr h0
  have hcast : ((pos.floor.toNat : Nat) : Rat) = ((pos.floor : Int) : Rat) := by
    have := Int.toNat_of_nonneg hnn
    exact_mod_cast congrArg (fun z : Int => (z : Rat)) this
  rw [hcast, ← hfl]
  exact ⟨Int.floor_le pos, Int.lt_floor_add_one pos⟩

theorem qval_bounds {srt : List Rat} (x : Rat) (hs : srt.Pairwise (· ≤ ·)) (hn : 0 < srt.length)
    {q : Rat} (h0 : 0 ≤ q) (h1 : q ≤ 1) :
    let pos := ((srt.length : Rat) - 1) * q
    let i := pos.floor.toNat
    i < srt.length ∧ (i : Rat) ≤ pos ∧ pos < (i : Rat) + 1 ∧
      srt.getD i x ≤ qval srt x q ∧ qval srt x q ≤ srt.getD (i + 1) (srt.getD i x) := by
  intro pos i
  have hn1 : (1 : Rat) ≤ (srt.length : Rat) := by exact_mod_cast hn
  have hpos0 : 0 ≤ pos := mul_nonneg (by linarith) h0
  have hposn : pos ≤ (srt.length : Rat) - 1 := mul_le_of_le_one_right (by linarith) h1
  obtain ⟨hf1, hf2⟩ := floor_facts hpos0
  have hi : i < srt.length := by
    have : (i : Rat) + 1 ≤ (srt.length : Rat) := by
      have : (i : Rat) ≤ pos := hf1
      linarith
    have : i + 1 ≤ srt.length := by exact_mod_cast this
    omega
  have hlohi : srt.getD i x ≤ srt.getD (i + 1) (srt.getD i x) := by
    by_cases h : i + 1 < srt.length
    · exact sorted_getD_le hs (by omega) h _ _
    · rw [getD_of_length_le srt (i + 1) _ (Nat.le_of_not_lt h)]
  have hg0 : 0 ≤ pos - (i : Rat) := by
    have : (i : Rat) ≤ pos := hf1
    linarith
  have hg1 : pos - (i : Rat) ≤ 1 := by
    have : pos < (i : Rat) + 1 := hf2
    linarith
  refine ⟨hi, hf1, hf2, ?_, ?_⟩
  · show srt.getD i x ≤ srt.getD i x + (srt.getD (i + 1) (srt.getD i x) - srt.getD i x) * (pos - (i : Rat))
    nlinarith
  · show srt.getD i x + (srt.getD (i + 1) (srt.getD i x) - srt.getD i x) * (pos - (i : Rat))
        ≤ srt.getD (i + 1) (srt.getD i x)
    nlinarith

theorem qval_mono {srt : List Rat} (x : Rat) (hs : srt.Pairwise (· ≤ ·)) (hn : 0 < srt.length)
    {q₁ q₂ : Rat} (h0 : 0 ≤ q₁) (h12 : q₁ ≤ q₂) (h1 : q₂ ≤ 1) : qval srt x q₁ ≤ qval srt x q₂ := by
  have b₁ := qval_bounds x hs hn h0 (le_trans h12 h1)
  have b₂ := qval_bounds x hs hn (le_trans h0 h12) h1
  simp only at b₁ b₂
  obtain ⟨hi₁, hf₁, hg₁, hlo₁, hhi₁⟩ := b₁
  obtain ⟨hi₂, hf₂, hg₂, hlo₂, hhi₂⟩ := b₂
  have hn1 : (1 : Rat) ≤ (srt.length : Rat) := by exact_mod_cast hn
  have hpos : ((srt.length : Rat) - 1) * q₁ ≤ ((srt.length : Rat) - 1) * q₂ :=
    mul_le_mul_of_nonneg_left h12 (by linarith)
  set pos₁ := ((srt.length : Rat) - 1) * q₁ with hp₁
  set pos₂ := ((srt.length : Rat) - 1) * q₂ with hp₂
  set i₁ := pos₁.floor.toNat with hi₁d
  set i₂ := pos₂.floor.toNat with hi₂d
  have hile : i₁ ≤ i₂ := by
    have : (i₁ : Rat) < (i₂ : Rat) + 1 := by linarith
    have : i₁ < i₂ + 1 := by exact_mod_cast this
    omega
  rcases Nat.eq_or_lt_of_le hile with heq | hlt
  · -- same segment
    have e₁ : qval srt x q₁ = srt.getD i₁ x + (srt.getD (i₁ + 1) (srt.getD i₁ x) - srt.getD i₁ x) * (pos₁ - (i₁ : Rat)) := rfl
    have e₂ : qval srt x q₂ = srt.getD i₂ x + (srt.getD (i₂ + 1) (srt.getD i₂ x) - srt.getD i₂ x) * (pos₂ - (i₂ : Rat)) := rfl
    rw [e₁, e₂, ← heq]
    have hlohi : srt.getD i₁ x ≤ srt.getD (i₁ + 1) (srt.getD i₁ x) := by
      by_cases h : i₁ + 1 < srt.length
      · exact sorted_getD_le hs (by omega) h _ _
      · rw [getD_of_length_le srt (i₁ + 1) _ (Nat.le_of_not_lt h)]
    nlinarith
  · -- different segments: value₁ ≤ hi₁ ≤ lo₂ ≤ value₂
    have hmid : srt.getD (i₁ + 1) (srt.getD i₁ x) ≤ srt.getD i₂ x :=
      sorted_getD_le hs (by omega) hi₂ _ _
    linarith

/-- monotone in `q`: in particular `quantile 0.16 ≤ median ≤ quantile 0.84` -/
theorem quantile_mono (a : List Rat) {q₁ q₂ : Rat} (h0 : 0 ≤ q₁) (h12 : q₁ ≤ q₂) (h1 : q₂ ≤ 1)
    {v₁ v₂ : Rat} (e₁ : quantile a q₁ = some v₁) (e₂ : quantile a q₂ = some v₂) : v₁ ≤ v₂ := by
  cases hs : sortRat a with
  | nil =>
    have : a = [] := by
      have := (sortRat_perm a).length_eq
      rw [hs] at this
      exact List.eq_nil_of_length_eq_zero this.symm
    rw [(quantile_none_iff a q₁).mpr this] at e₁
    cases e₁
  | cons x xs =>
    rw [quantile_eq_qval hs] at e₁ e₂
    injection e₁ with e₁
    injection e₂ with e₂
    rw [← e₁, ← e₂]
    have hp := sortRat_pairwise a
    rw [hs] at hp
    exact qval_mono x hp (by simp) h0 h12 h1

end Panqec.An
