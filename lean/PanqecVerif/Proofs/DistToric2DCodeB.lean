/-
Toric2DCode, all sizes, C17 part B: the translates are qubit lines with pairwise disjoint
supports (`lower_bound`, through `Lattice.packing_bound`), the listed logicals have weights
`Lx, Ly, Ly, Lx` (`reported_distance`).
-/
import PanqecVerif.Proofs.DistToric2DCodeA
import PanqecVerif.Proofs.Lat2DRankBridge
import PanqecVerif.Proofs.LatToric2DCodeRank

namespace Panqec.Toric2DCode
open Panqec.Lat2D

variable {Lx Ly : Nat}


/-- vertical lines at `x = 2i + 1 - p` through `y = 2j + p` are qubit lines -/
theorem colKeys_qubits (p : Nat) (hp : p ≤ 1) (i : Nat) (hi : i < Lx) :
    ∀ q ∈ colKeys (2 * i + 1 - p) p Ly, q ∈ (lattice Lx Ly).qubits := by
  intro q hq
  obtain ⟨j, hj, rfl⟩ := mem_colKeys.mp hq
  show _ ∈ qubits Lx Ly
  rw [mem_qubits']; unfold IsQ InBox; omega

theorem rowKeys_qubits (p : Nat) (hp : p ≤ 1) (i : Nat) (hi : i < Ly) :
    ∀ q ∈ rowKeys (2 * i + 1 - p) p Lx, q ∈ (lattice Lx Ly).qubits := by
  intro q hq
  obtain ⟨j, hj, rfl⟩ := mem_rowKeys.mp hq
  show _ ∈ qubits Lx Ly
  rw [mem_qubits']; unfold IsQ InBox; omega


/-- every non-trivial logical operator of the `Lx × Ly` toric code has weight `≥ min Lx Ly` -/
theorem lower_bound (hx : 2 ≤ Lx) (hy : 2 ≤ Ly)
    (hv : ValidCodeL (2 * Lx * Ly) 2 (lattice Lx Ly).rowsH (lattice Lx Ly).rowsX
      (lattice Lx Ly).rowsZ) :
    ∀ v, IsNontrivialLogical (2 * Lx * Ly) (lattice Lx Ly).rowsH v →
      min Lx Ly ≤ pauliWeight v := by
  apply Lattice.packing_bound (lattice Lx Ly) (wf_all hx hy) (length_qubits Lx Ly) hv
  intro a ha
  change a ∈ logX Lx Ly ++ logZ Lx Ly at ha
  rw [logX_eq, logZ_eq] at ha
  simp only [List.cons_append, List.nil_append, List.mem_cons, List.not_mem_nil, or_false] at ha
  rcases ha with rfl | rfl | rfl | rfl
  · -- X̄₁: horizontal X line at y = 0, translates at y = 2i
    obtain ⟨h1, h2, h3⟩ := lineReps (lattice Lx Ly).qubits (fun i => rowKeys (2 * i) 1 Lx) Ly
      Pauli.X (fun _ => nodup_rowKeys _ _ _)
      (fun i hi => by simpa using rowKeys_qubits (Lx := Lx) 1 (by omega) i hi)
      (fun i i' h => by simpa using rowKeys_disjoint 1 Lx 0 i i' h)
    refine ⟨_, by rw [h1]; omega, h2, h3, ?_⟩
    intro b _ _ hb r hr
    obtain ⟨i, hi, rfl⟩ := List.mem_map.mp hr
    rw [kX0_eq, opAntiCount_line, opAntiCount_line]
    exact parity_X0 hx hy hb i (List.mem_range.mp hi)
  · -- X̄₂: vertical X line at x = 0, translates at x = 2i
    obtain ⟨h1, h2, h3⟩ := lineReps (lattice Lx Ly).qubits (fun i => colKeys (2 * i) 1 Ly) Lx
      Pauli.X (fun _ => nodup_colKeys _ _ _)
      (fun i hi => by simpa using colKeys_qubits (Ly := Ly) 1 (by omega) i hi)
      (fun i i' h => by simpa using colKeys_disjoint 1 Ly 0 i i' h)
    refine ⟨_, by rw [h1]; omega, h2, h3, ?_⟩
    intro b _ _ hb r hr
    obtain ⟨i, hi, rfl⟩ := List.mem_map.mp hr
    rw [kX1_eq, opAntiCount_line, opAntiCount_line]
    exact parity_X1 hx hy hb i (List.mem_range.mp hi)
  · -- Z̄₁: vertical Z line at x = 1, translates at x = 2i + 1
    obtain ⟨h1, h2, h3⟩ := lineReps (lattice Lx Ly).qubits (fun i => colKeys (2 * i + 1) 0 Ly) Lx
      Pauli.Z (fun _ => nodup_colKeys _ _ _)
      (fun i hi => by simpa using colKeys_qubits (Ly := Ly) 0 (by omega) i hi)
      (fun i i' h => colKeys_disjoint 0 Ly 1 i i' h)
    refine ⟨_, by rw [h1]; omega, h2, h3, ?_⟩
    intro b _ _ hb r hr
    obtain ⟨i, hi, rfl⟩ := List.mem_map.mp hr
    rw [kZ0_eq, opAntiCount_line, opAntiCount_line]
    exact parity_Z0 hx hy hb i (List.mem_range.mp hi)
  · -- Z̄₂: horizontal Z line at y = 1, translates at y = 2i + 1
    obtain ⟨h1, h2, h3⟩ := lineReps (lattice Lx Ly).qubits (fun i => rowKeys (2 * i + 1) 0 Lx) Ly
      Pauli.Z (fun _ => nodup_rowKeys _ _ _)
      (fun i hi => by simpa using rowKeys_qubits (Lx := Lx) 0 (by omega) i hi)
      (fun i i' h => rowKeys_disjoint 0 Lx 1 i i' h)
    refine ⟨_, by rw [h1]; omega, h2, h3, ?_⟩
    intro b _ _ hb r hr
    obtain ⟨i, hi, rfl⟩ := List.mem_map.mp hr
    rw [kZ1_eq, opAntiCount_line, opAntiCount_line]
    exact parity_Z1 hx hy hb i (List.mem_range.mp hi)

/-! ### weights of the listed logicals, reported distance -/

theorem weight_listed (hx : 2 ≤ Lx) (hy : 2 ≤ Ly) {a : Op}
    (ha : a ∈ (lattice Lx Ly).logX ++ (lattice Lx Ly).logZ) :
    pauliWeight (opRow (lattice Lx Ly).qubits a) = a.length :=
  pauliWeight_opRow _ (wf_all hx hy).qubits_nodup a ((wf_all hx hy).log_keys a ha)
    ((wf_all hx hy).log_supported a ha)

theorem length_kX0 (L : Nat) : (kX0 L).length = L := by rw [kX0_eq, length_rowKeys]
theorem length_kX1 (L : Nat) : (kX1 L).length = L := by rw [kX1_eq, length_colKeys]
theorem length_kZ0 (L : Nat) : (kZ0 L).length = L := by rw [kZ0_eq, length_colKeys]
theorem length_kZ1 (L : Nat) : (kZ1 L).length = L := by rw [kZ1_eq, length_rowKeys]

/-- the weights of the rows of `logicals_x` are `[Lx, Ly]`, of `logicals_z` `[Ly, Lx]` -/
theorem weights_listed (hx : 2 ≤ Lx) (hy : 2 ≤ Ly) :
    (lattice Lx Ly).rowsX.map pauliWeight = [Lx, Ly] ∧
    (lattice Lx Ly).rowsZ.map pauliWeight = [Ly, Lx] := by
  have hX : (lattice Lx Ly).logX = logX Lx Ly := rfl
  have hZ : (lattice Lx Ly).logZ = logZ Lx Ly := rfl
  have hw := fun a ha => weight_listed hx hy (a := a) ha
  rw [hX, hZ, logX_eq, logZ_eq] at hw
  unfold Lattice.rowsX Lattice.rowsZ
  rw [hX, hZ, logX_eq, logZ_eq]
  simp only [List.map_cons, List.map_nil]
  rw [hw _ (by simp), hw _ (by simp), hw _ (by simp), hw _ (by simp)]
  simp [length_kX0, length_kX1, length_kZ0, length_kZ1]

/-- `code.d` (minimum weight of the listed logicals) is `min Lx Ly` -/
theorem reported_distance (hx : 2 ≤ Lx) (hy : 2 ≤ Ly) :
    distance (lattice Lx Ly).rowsX (lattice Lx Ly).rowsZ = some (min Lx Ly) := by
  obtain ⟨h1, h2⟩ := weights_listed hx hy
  unfold distance
  show (match listMin ((lattice Lx Ly).rowsX.map pauliWeight),
    listMin ((lattice Lx Ly).rowsZ.map pauliWeight) with
    | some a, some b => some (min a b)
    | _, _ => none) = _
  rw [h1, h2]
  simp only [listMin, List.foldl_cons, List.foldl_nil]
  congr 1
  omega

end Panqec.Toric2DCode
