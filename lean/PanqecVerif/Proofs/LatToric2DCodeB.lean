/-
Toric2DCode, all sizes `Lx, Ly ≥ 2`: a vertex and a face share an even number of qubits
(the design-phase spike `spikes/Toric2DAllSizesCommute.lean`, over `Int`).  Core Lean only.
-/
import PanqecVerif.Proofs.LatToric2DCodeA

set_option linter.unusedVariables false

namespace Panqec.Toric2DCode
open Panqec.Lat2D

/-- membership of `(qx, qy)` in the 4-neighbourhood of `(bx, by)` -/
def nbr (PX PY bx by' qx qy : Int) : Prop :=
  (qx = predW bx PX ∧ qy = by') ∨ (qx = succW bx PX ∧ qy = by') ∨
  (qx = bx ∧ qy = predW by' PY) ∨ (qx = bx ∧ qy = succW by' PY)

instance (PX PY bx by' qx qy : Int) : Decidable (nbr PX PY bx by' qx qy) := by
  unfold nbr; infer_instance

theorem mem_nbrs {Lx Ly : Nat} {bx by' qx qy : Int} :
    [qx, qy] ∈ nbrs Lx Ly bx by' ↔ nbr (2 * (Lx : Int)) (2 * (Ly : Int)) bx by' qx qy := by
  unfold nbrs nbr
  simp only [List.mem_cons, List.cons.injEq, and_true, List.not_mem_nil, or_false]

/-- cyclic adjacency of an even coordinate `u` and an odd coordinate `v` modulo the even period -/
def adj (u v P : Int) : Prop := v = u + 1 ∨ v = predW u P
instance (u v P : Int) : Decidable (adj u v P) := by unfold adj; infer_instance

theorem succ_even (u P : Int) (hu : u < P) (pu : u % 2 = 0) (pP : P % 2 = 0) :
    succW u P = u + 1 := by
  have := succW_spec u P; omega
theorem pred_odd (v P : Int) (pv : v % 2 = 1) : predW v P = v - 1 := by
  have := predW_spec v P; omega

theorem n1 (PX PY ax ay bx by' : Int) (hPX : 4 ≤ PX) (hPY : 4 ≤ PY)
    (hax0 : 0 ≤ ax) (hay0 : 0 ≤ ay) (hbx0 : 0 ≤ bx) (hby0 : 0 ≤ by')
    (hax : ax < PX) (hay : ay < PY) (hbx : bx < PX) (hby : by' < PY)
    (pPX : PX % 2 = 0) (pPY : PY % 2 = 0)
    (pax : ax % 2 = 0) (pay : ay % 2 = 0) (pbx : bx % 2 = 1) (pby : by' % 2 = 1) :
    nbr PX PY bx by' (predW ax PX) ay ↔ (bx = predW ax PX ∧ adj ay by' PY) := by
  unfold nbr adj
  simp only [pred_odd bx PX pbx, pred_odd by' PY pby]
  have := predW_spec ax PX; have := predW_spec ay PY
  have := succW_spec bx PX; have := succW_spec by' PY
  omega

theorem n2 (PX PY ax ay bx by' : Int) (hPX : 4 ≤ PX) (hPY : 4 ≤ PY)
    (hax0 : 0 ≤ ax) (hay0 : 0 ≤ ay) (hbx0 : 0 ≤ bx) (hby0 : 0 ≤ by')
    (hax : ax < PX) (hay : ay < PY) (hbx : bx < PX) (hby : by' < PY)
    (pPX : PX % 2 = 0) (pPY : PY % 2 = 0)
    (pax : ax % 2 = 0) (pay : ay % 2 = 0) (pbx : bx % 2 = 1) (pby : by' % 2 = 1) :
    nbr PX PY bx by' (succW ax PX) ay ↔ (bx = ax + 1 ∧ adj ay by' PY) := by
  unfold nbr adj
  simp only [pred_odd bx PX pbx, pred_odd by' PY pby, succ_even ax PX hax pax pPX]
  have := predW_spec ay PY
  have := succW_spec bx PX; have := succW_spec by' PY
  omega

theorem n3 (PX PY ax ay bx by' : Int) (hPX : 4 ≤ PX) (hPY : 4 ≤ PY)
    (hax0 : 0 ≤ ax) (hay0 : 0 ≤ ay) (hbx0 : 0 ≤ bx) (hby0 : 0 ≤ by')
    (hax : ax < PX) (hay : ay < PY) (hbx : bx < PX) (hby : by' < PY)
    (pPX : PX % 2 = 0) (pPY : PY % 2 = 0)
    (pax : ax % 2 = 0) (pay : ay % 2 = 0) (pbx : bx % 2 = 1) (pby : by' % 2 = 1) :
    nbr PX PY bx by' ax (predW ay PY) ↔ (adj ax bx PX ∧ by' = predW ay PY) := by
  unfold nbr adj
  simp only [pred_odd bx PX pbx, pred_odd by' PY pby]
  have := predW_spec ax PX; have := predW_spec ay PY
  have := succW_spec bx PX; have := succW_spec by' PY
  omega

theorem n4 (PX PY ax ay bx by' : Int) (hPX : 4 ≤ PX) (hPY : 4 ≤ PY)
    (hax0 : 0 ≤ ax) (hay0 : 0 ≤ ay) (hbx0 : 0 ≤ bx) (hby0 : 0 ≤ by')
    (hax : ax < PX) (hay : ay < PY) (hbx : bx < PX) (hby : by' < PY)
    (pPX : PX % 2 = 0) (pPY : PY % 2 = 0)
    (pax : ax % 2 = 0) (pay : ay % 2 = 0) (pbx : bx % 2 = 1) (pby : by' % 2 = 1) :
    nbr PX PY bx by' ax (succW ay PY) ↔ (adj ax bx PX ∧ by' = ay + 1) := by
  unfold nbr adj
  simp only [pred_odd bx PX pbx, pred_odd by' PY pby, succ_even ay PY hay pay pPY]
  have := predW_spec ax PX
  have := succW_spec bx PX; have := succW_spec by' PY
  omega

/-- a vertex and a face of the `Lx × Ly` torus (`Lx, Ly ≥ 2`) share 0 or 2 qubits -/
theorem vertex_face_even {Lx Ly : Nat} {ax ay bx by' : Int} (hx : 2 ≤ Lx) (hy : 2 ≤ Ly)
    (ha : IsV Lx Ly ax ay) (hb : IsF Lx Ly bx by') :
    interCount (nbrs Lx Ly ax ay) (nbrs Lx Ly bx by') % 2 = 0 := by
  unfold IsV InBox at ha
  unfold IsF InBox at hb
  rw [show nbrs Lx Ly ax ay = [[predW ax (2 * (Lx : Int)), ay], [succW ax (2 * (Lx : Int)), ay],
    [ax, predW ay (2 * (Ly : Int))], [ax, succW ay (2 * (Ly : Int))]] from rfl, interCount_4]
  simp only [mem_nbrs]
  have e1 := n1 (2 * (Lx : Int)) (2 * (Ly : Int)) ax ay bx by' (by omega) (by omega) (by omega)
    (by omega) (by omega) (by omega) (by omega) (by omega) (by omega) (by omega) (by omega)
    (by omega) (by omega) (by omega) (by omega) (by omega)
  have e2 := n2 (2 * (Lx : Int)) (2 * (Ly : Int)) ax ay bx by' (by omega) (by omega) (by omega)
    (by omega) (by omega) (by omega) (by omega) (by omega) (by omega) (by omega) (by omega)
    (by omega) (by omega) (by omega) (by omega) (by omega)
  have e3 := n3 (2 * (Lx : Int)) (2 * (Ly : Int)) ax ay bx by' (by omega) (by omega) (by omega)
    (by omega) (by omega) (by omega) (by omega) (by omega) (by omega) (by omega) (by omega)
    (by omega) (by omega) (by omega) (by omega) (by omega)
  have e4 := n4 (2 * (Lx : Int)) (2 * (Ly : Int)) ax ay bx by' (by omega) (by omega) (by omega)
    (by omega) (by omega) (by omega) (by omega) (by omega) (by omega) (by omega) (by omega)
    (by omega) (by omega) (by omega) (by omega) (by omega)
  simp only [e1, e2, e3, e4]
  have hne : predW ax (2 * (Lx : Int)) ≠ ax + 1 := by
    have := predW_spec ax (2 * (Lx : Int)); omega
  have hne' : predW ay (2 * (Ly : Int)) ≠ ay + 1 := by
    have := predW_spec ay (2 * (Ly : Int)); omega
  unfold adj
  by_cases h1 : bx = ax + 1 <;> by_cases h2 : bx = predW ax (2 * (Lx : Int)) <;>
  by_cases h3 : by' = ay + 1 <;> by_cases h4 : by' = predW ay (2 * (Ly : Int)) <;>
  simp_all

end Panqec.Toric2DCode
