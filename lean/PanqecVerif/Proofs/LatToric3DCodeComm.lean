/-
`Toric3DCode`, every size with `2 ≤ Lx, Ly, Lz`: a vertex operator and a face operator overlap on
an even number of qubits (0 or 2).  Pattern of the design-phase spike: every coordinate equation
between a neighbour of the vertex and a neighbour of the face is decided, or reduced to one of the
adjacency atoms `predW e = o` / `e + 1 = o` / `e = c`, one axis at a time by small `omega` calls
(`eo_*`, `ee_*`); a finite case split on the atoms finishes.
-/
import PanqecVerif.Proofs.LatToric3DCodeStab

set_option linter.unusedVariables false
set_option linter.unusedSimpArgs false

namespace Panqec.Toric3DCode
open Panqec.Cubic3D

theorem ov_vertex_faceXY {Lx Ly Lz : Nat} (hLx : 2 ≤ Lx) (hLy : 2 ≤ Ly) (hLz : 2 ≤ Lz)
    {x y z a b c : Int} (hv : isVertex Lx Ly Lz x y z) (hf : isFaceXY Lx Ly Lz a b c) :
    ov (vertexKeys Lx Ly Lz x y z) (faceXYKeys Lx Ly Lz a b c) % 2 = 0 := by
  obtain ⟨hx, hy, hz⟩ := hv
  obtain ⟨ha, hb, hc⟩ := hf
  unfold ov vertexKeys faceXYKeys
  simp only [List.countP_cons, List.countP_nil, List.mem_cons, List.cons.injEq, List.not_mem_nil,
    and_true, or_false, decide_eq_true_eq, Nat.zero_add,
    eo_p_m hLx hx ha,
    eo_p_s hLx hx ha,
    eo_s_m hLx hx ha,
    eo_s_s hLx hx ha,
    eo_0_m hLx hx ha,
    eo_0_s hLx hx ha,
    eo_0_0 hLx hx ha,
    eo_p_m hLy hy hb,
    eo_p_s hLy hy hb,
    eo_s_m hLy hy hb,
    eo_s_s hLy hy hb,
    eo_0_m hLy hy hb,
    eo_0_s hLy hy hb,
    eo_0_0 hLy hy hb,
    ee_p hLz hz hc,
    ee_s hLz hz hc,
    false_and, and_false, false_or, or_false]
  have nx := eo_excl hLx hx ha
  have ny := eo_excl hLy hy hb
  by_cases hx1 : predW x (2 * (Lx : Int)) = a <;> by_cases hx2 : x + 1 = a <;> by_cases hy1 : predW y (2 * (Ly : Int)) = b <;> by_cases hy2 : y + 1 = b <;> by_cases hz0 : z = c <;> simp_all

theorem ov_vertex_faceYZ {Lx Ly Lz : Nat} (hLx : 2 ≤ Lx) (hLy : 2 ≤ Ly) (hLz : 2 ≤ Lz)
    {x y z a b c : Int} (hv : isVertex Lx Ly Lz x y z) (hf : isFaceYZ Lx Ly Lz a b c) :
    ov (vertexKeys Lx Ly Lz x y z) (faceYZKeys Lx Ly Lz a b c) % 2 = 0 := by
  obtain ⟨hx, hy, hz⟩ := hv
  obtain ⟨ha, hb, hc⟩ := hf
  unfold ov vertexKeys faceYZKeys
  simp only [List.countP_cons, List.countP_nil, List.mem_cons, List.cons.injEq, List.not_mem_nil,
    and_true, or_false, decide_eq_true_eq, Nat.zero_add,
    ee_p hLx hx ha,
    ee_s hLx hx ha,
    eo_p_m hLy hy hb,
    eo_p_s hLy hy hb,
    eo_s_m hLy hy hb,
    eo_s_s hLy hy hb,
    eo_0_m hLy hy hb,
    eo_0_s hLy hy hb,
    eo_0_0 hLy hy hb,
    eo_p_m hLz hz hc,
    eo_p_s hLz hz hc,
    eo_s_m hLz hz hc,
    eo_s_s hLz hz hc,
    eo_0_m hLz hz hc,
    eo_0_s hLz hz hc,
    eo_0_0 hLz hz hc,
    false_and, and_false, false_or, or_false]
  have ny := eo_excl hLy hy hb
  have nz := eo_excl hLz hz hc
  by_cases hx0 : x = a <;> by_cases hy1 : predW y (2 * (Ly : Int)) = b <;> by_cases hy2 : y + 1 = b <;> by_cases hz1 : predW z (2 * (Lz : Int)) = c <;> by_cases hz2 : z + 1 = c <;> simp_all

theorem ov_vertex_faceXZ {Lx Ly Lz : Nat} (hLx : 2 ≤ Lx) (hLy : 2 ≤ Ly) (hLz : 2 ≤ Lz)
    {x y z a b c : Int} (hv : isVertex Lx Ly Lz x y z) (hf : isFaceXZ Lx Ly Lz a b c) :
    ov (vertexKeys Lx Ly Lz x y z) (faceXZKeys Lx Ly Lz a b c) % 2 = 0 := by
  obtain ⟨hx, hy, hz⟩ := hv
  obtain ⟨ha, hb, hc⟩ := hf
  unfold ov vertexKeys faceXZKeys
  simp only [List.countP_cons, List.countP_nil, List.mem_cons, List.cons.injEq, List.not_mem_nil,
    and_true, or_false, decide_eq_true_eq, Nat.zero_add,
    eo_p_m hLx hx ha,
    eo_p_s hLx hx ha,
    eo_s_m hLx hx ha,
    eo_s_s hLx hx ha,
    eo_0_m hLx hx ha,
    eo_0_s hLx hx ha,
    eo_0_0 hLx hx ha,
    ee_p hLy hy hb,
    ee_s hLy hy hb,
    eo_p_m hLz hz hc,
    eo_p_s hLz hz hc,
    eo_s_m hLz hz hc,
    eo_s_s hLz hz hc,
    eo_0_m hLz hz hc,
    eo_0_s hLz hz hc,
    eo_0_0 hLz hz hc,
    false_and, and_false, false_or, or_false]
  have nx := eo_excl hLx hx ha
  have nz := eo_excl hLz hz hc
  by_cases hx1 : predW x (2 * (Lx : Int)) = a <;> by_cases hx2 : x + 1 = a <;> by_cases hy0 : y = b <;> by_cases hz1 : predW z (2 * (Lz : Int)) = c <;> by_cases hz2 : z + 1 = c <;> simp_all

end Panqec.Toric3DCode
