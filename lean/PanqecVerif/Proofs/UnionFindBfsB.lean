/-
Union-find internals (C05), spanning tree, part B: the body of `for s in leaves_ind` preserves
the invariant (for a frontier vertex other than the root).
-/
import PanqecVerif.Proofs.UnionFindBfsA

namespace Panqec.UF

set_option linter.unusedSimpArgs false
set_option linter.unusedVariables false

section
variable {H : Mat} {stabs qubits : Nat → Bool} {root r : Nat}
  {S : Nat → Nat → Bool} {unseen : Nat → Bool} {s : Nat} {F2 nl : List Nat} {lv : Nat → Nat}

/-- the children claimed by a frontier vertex are all unseen -/
theorem ch_unseen (I : BInv H stabs qubits root r S unseen (s :: F2) nl lv) {j : Nat}
    (hj : S s j = true) : unseen j = true := by
  have hs := I.pend_vis s (Or.inl (by simp))
  have hsj := shared_stabs (I.le_shared s j hj)
  cases hu : unseen j
  · exfalso
    have hjr : j ≠ root := by
      intro h; subst h
      have := I.root_col s hs.2.2
      rw [hj] at this; exact absurd this (by simp)
    have := (I.pend_iff s hs.1 hs.2.1 hs.2.2).mp (Or.inl (by simp)) j hsj.2 hu
    rw [hj] at this; exact absurd this (by simp)
  · rfl

theorem BInv_step (hst : ∀ s, stabs s = true → s < H.length)
    (I : BInv H stabs qubits root r S unseen (s :: F2) nl lv) :
    ∃ lv', BInv H stabs qubits root r (bfsStep H.length ⟨S, unseen, nl⟩ s).S
        (bfsStep H.length ⟨S, unseen, nl⟩ s).unseen F2
        (bfsStep H.length ⟨S, unseen, nl⟩ s).newLeaves lv' ∧
      (∀ v, (bfsStep H.length ⟨S, unseen, nl⟩ s).unseen v = true → unseen v = true) ∧
      (∀ v, shared H stabs qubits s v = true →
        (bfsStep H.length ⟨S, unseen, nl⟩ s).unseen v = false) := by
  have hs := I.pend_vis s (Or.inl (by simp))
  have hnd := I.pend_nodup
  rw [List.cons_append, List.nodup_cons] at hnd
  have hs_notin : ¬ (s ∈ F2 ∨ s ∈ nl) := fun h => hnd.1 (List.mem_append.mpr h)
  by_cases hch : ((List.range H.length).filter fun j => S s j) = []
  · -- no children: `s` is carried over as a leaf
    have hstep := bfsStep_nil H.length ⟨S, unseen, nl⟩ s hch
    rw [hstep]
    have hnoS : ∀ j, j < H.length → S s j = false := by
      intro j hj
      cases h : S s j
      · rfl
      · have : j ∈ (List.range H.length).filter fun j => S s j := by
          rw [mem_filter_range]; exact ⟨hj, h⟩
        rw [hch] at this; simp at this
    have hmem : ∀ v, (v ∈ F2 ∨ v ∈ nl ++ [s]) ↔ (v ∈ s :: F2 ∨ v ∈ nl) := by
      intro v; simp only [List.mem_append, List.mem_cons, List.mem_singleton]; tauto
    refine ⟨lv, ⟨I.un_stabs, I.un_eq, I.le_shared, I.root_col, I.par_ex, I.par_spec, I.par_uniq,
      ?_, ?_, ?_, ?_, I.lv_vis, fun v hv => I.lv_F2 v (by simp [hv])⟩, fun v h => h, ?_⟩
    · intro v h1 h2 h3
      show (v ∈ F2 ∨ v ∈ nl ++ [s]) ↔ _
      rw [hmem]; exact I.pend_iff v h1 h2 h3
    · show (F2 ++ (nl ++ [s])).Nodup
      rw [← List.append_assoc]
      have : (F2 ++ nl ++ [s]).Perm (s :: (F2 ++ nl)) := List.perm_append_singleton s _
      exact this.nodup_iff.mpr (List.nodup_cons.mpr hnd)
    · intro v hv
      exact I.pend_vis v ((hmem v).mp hv)
    · intro u v h1 h2 h3 h4
      show u ∈ F2 ∨ u ∈ nl ++ [s]
      rw [hmem]; exact I.front u v h1 h2 h3 h4
    · intro v hv
      show unseen v = false
      cases hu : unseen v
      · rfl
      · have h1 := I.un_eq s v hu
        rw [hv] at h1
        have := hnoS v (hst v (I.un_stabs v hu).1)
        rw [this] at h1; exact absurd h1 (by simp)
  · -- children `ch`
    have hS' := bfsStep_S H.length ⟨S, unseen, nl⟩ s _ rfl hch
    have hU' := bfsStep_unseen H.length ⟨S, unseen, nl⟩ s _ rfl hch
    have hN' := bfsStep_nl H.length ⟨S, unseen, nl⟩ s _ rfl hch
    simp only [] at hS' hU' hN'
    generalize hchdef : ((List.range H.length).filter fun j => S s j) = ch at hS' hU' hN' hch
    have hchm : ∀ j, j ∈ ch ↔ (j < H.length ∧ S s j = true) := by
      intro j; rw [← hchdef, mem_filter_range]
    have hchu : ∀ j, j ∈ ch → unseen j = true := fun j hj => ch_unseen I ((hchm j).mp hj).2
    have hchs : ∀ j, j ∈ ch → stabs j = true := fun j hj => (I.un_stabs j (hchu j hj)).1
    have hs_ch : s ∉ ch := fun h => by have := hchu s h; rw [hs.2.1] at this; exact absurd this (by simp)
    have hroot_ch : root ∉ ch := fun h => (I.un_stabs root (hchu root h)).2 rfl
    obtain ⟨c0, hc0⟩ := List.exists_mem_of_ne_nil ch hch
    have hfilt : ∀ j, j ∈ ch.filter unseen ↔ j ∈ ch := by
      intro j; rw [List.mem_filter]; exact ⟨fun h => h.1, fun h => ⟨h, hchu j h⟩⟩
    have hmem : ∀ v, (v ∈ F2 ∨ v ∈ nl ++ ch.filter unseen) ↔ ((v ∈ F2 ∨ v ∈ nl) ∨ v ∈ ch) := by
      intro v; rw [List.mem_append, hfilt]; tauto
    refine ⟨fun j => if j ∈ ch then r + 1 else lv j, ⟨?_, ?_, ?_, ?_, ?_, ?_, ?_, ?_, ?_, ?_, ?_, ?_, ?_⟩, ?_, ?_⟩
    · -- un_stabs
      intro v hv
      rw [hU'] at hv
      by_cases hvc : v ∈ ch
      · simp [hvc] at hv
      · simp only [hvc, if_false] at hv; exact I.un_stabs v hv
    · -- un_eq
      intro u v hv
      rw [hU'] at hv
      by_cases hvc : v ∈ ch
      · simp [hvc] at hv
      · simp only [hvc, if_false] at hv
        have hvs : v ≠ s := fun h => by subst h; rw [hs.2.1] at hv; exact absurd hv (by simp)
        rw [hS']
        simp only [hvc, hvs, and_false, if_false]
        exact I.un_eq u v hv
    · -- le_shared
      intro u v huv
      rw [hS'] at huv
      by_cases h1 : u = s ∧ v ∈ ch
      · obtain ⟨rfl, hv⟩ := h1
        exact I.le_shared _ v ((hchm v).mp hv).2
      · simp only [h1, if_false] at huv
        by_cases h2 : u ∈ ch ∧ v = s
        · simp [h2] at huv
        · simp only [h2, if_false] at huv
          by_cases h3 : v ∈ ch
          · simp [h3] at huv
          · simp only [h3, if_false] at huv
            exact I.le_shared u v huv
    · -- root_col
      intro p hp
      rw [hS']
      simp only [hroot_ch, and_false, if_false]
      by_cases h2 : p ∈ ch ∧ root = s
      · simp [h2]
      · simp only [h2, if_false]; exact I.root_col p hp
    · -- par_ex
      intro c hc hcu hcr
      rw [hU'] at hcu
      by_cases hcc : c ∈ ch
      · exact ⟨s, by rw [hS']; simp [hcc]⟩
      · simp only [hcc, if_false] at hcu
        obtain ⟨p, hp⟩ := I.par_ex c hc hcu hcr
        have hpv := (I.par_spec c hc hcu hcr p hp)
        have hpc : p ∉ ch := fun h => by
          have := hchu p h; rw [hpv.2.2.1] at this; exact absurd this (by simp)
        refine ⟨p, ?_⟩
        rw [hS']
        simp only [hcc, hpc, and_false, false_and, if_false]
        exact hp
    · -- par_spec
      intro c hc hcu hcr p hp
      rw [hU'] at hcu
      rw [hS'] at hp
      by_cases hcc : c ∈ ch
      · have hps : p = s := by
          by_contra hps
          simp [hps, hcc] at hp
        subst hps
        refine ⟨fun h => hs_ch (h ▸ hcc), hs.1, ?_, ?_⟩
        · rw [hU']; simp [hs_ch, hs.2.1]
        · simp only [hs_ch, hcc, if_false, if_true]
          have := I.lv_F2 p (by simp); omega
      · simp only [hcc, if_false] at hcu
        simp only [hcc, and_false, if_false] at hp
        by_cases h2 : p ∈ ch ∧ c = s
        · simp [h2] at hp
        · simp only [h2, if_false] at hp
          have := I.par_spec c hc hcu hcr p hp
          have hpc : p ∉ ch := fun h => by
            have h' := hchu p h; rw [this.2.2.1] at h'; exact absurd h' (by simp)
          refine ⟨this.1, this.2.1, ?_, ?_⟩
          · rw [hU']; simp [hpc, this.2.2.1]
          · simp only [hpc, hcc, if_false]; exact this.2.2.2
    · -- par_uniq
      intro c hc hcu hcr p p' hp hp'
      rw [hU'] at hcu
      rw [hS'] at hp hp'
      by_cases hcc : c ∈ ch
      · have h1 : p = s := by
          by_contra h; simp [h, hcc] at hp
        have h2 : p' = s := by
          by_contra h; simp [h, hcc] at hp'
        rw [h1, h2]
      · simp only [hcc, if_false] at hcu
        simp only [hcc, and_false, if_false] at hp hp'
        by_cases h2 : p ∈ ch ∧ c = s
        · simp [h2] at hp
        · by_cases h3 : p' ∈ ch ∧ c = s
          · simp [h3] at hp'
          · simp only [h2, h3, if_false] at hp hp'
            exact I.par_uniq c hc hcu hcr p p' hp hp'
    · -- pend_iff
      intro v hv hvu hvr
      rw [hN', hmem]
      rw [hU'] at hvu
      by_cases hvs : v = s
      · subst hvs
        constructor
        · rintro (h | h)
          · exact absurd h hs_notin
          · exact absurd h hs_ch
        · intro h
          have := h c0 (hchs c0 hc0) (by rw [hU']; simp [hc0])
          rw [hS'] at this
          simp [hc0] at this
      · by_cases hvc : v ∈ ch
        · constructor
          · intro _ c hc hcu
            rw [hU'] at hcu
            rw [hS']
            simp only [hvs, false_and, if_false]
            by_cases h2 : c = s
            · simp [hvc, h2]
            · simp only [h2, and_false, if_false]
              by_cases h3 : c ∈ ch
              · simp [h3]
              · simp only [h3, if_false] at hcu ⊢
                -- `v` was unseen: it is nobody's parent yet
                cases hvc' : S v c
                · rfl
                · exfalso
                  have hvun := hchu v hvc
                  by_cases hcr : c = root
                  · subst hcr
                    have := I.root_col v hvr
                    rw [hvc'] at this; exact absurd this (by simp)
                  · have := (I.par_spec c hc hcu hcr v hvc').2.2.1
                    rw [hvun] at this; exact absurd this (by simp)
          · intro _; exact Or.inr hvc
        · simp only [hvc, if_false] at hvu
          have hold := I.pend_iff v hv hvu hvr
          have hmem' : (v ∈ s :: F2 ∨ v ∈ nl) ↔ (v ∈ F2 ∨ v ∈ nl) := by
            simp only [List.mem_cons, hvs, false_or]
          rw [hmem'] at hold
          constructor
          · rintro (h | h)
            · intro c hc hcu
              rw [hU'] at hcu
              rw [hS']
              simp only [hvs, hvc, false_and, if_false]
              by_cases h3 : c ∈ ch
              · simp [h3]
              · simp only [h3, if_false] at hcu ⊢
                exact hold.mp h c hc hcu
            · exact absurd h hvc
          · intro h
            refine Or.inl (hold.mpr ?_)
            intro c hc hcu
            have hcc : c ∉ ch := fun hh => by
              have := hchu c hh; rw [hcu] at this; exact absurd this (by simp)
            have := h c hc (by rw [hU']; simp [hcc, hcu])
            rw [hS'] at this
            simpa [hvs, hvc, hcc] using this
    · -- pend_nodup
      rw [hN', ← List.append_assoc, List.nodup_append]
      refine ⟨hnd.2, ?_, ?_⟩
      · have : ((List.range H.length).filter fun j => S s j).Nodup :=
          (List.nodup_range).filter _
        rw [hchdef] at this
        exact this.filter _
      · intro a ha b hb hab
        subst hab
        have h1 := I.pend_vis a (by
          rcases List.mem_append.mp ha with h | h
          · exact Or.inl (by simp [h])
          · exact Or.inr h)
        have h2 := hchu a ((hfilt a).mp hb)
        rw [h1.2.1] at h2; exact absurd h2 (by simp)
    · -- pend_vis
      intro v hv
      rw [hN', hmem] at hv
      rw [hU']
      rcases hv with hv | hv
      · have := I.pend_vis v (by
          rcases hv with h | h
          · exact Or.inl (by simp [h])
          · exact Or.inr h)
        refine ⟨this.1, ?_, this.2.2⟩
        by_cases hvc : v ∈ ch <;> simp [hvc, this.2.1]
      · exact ⟨hchs v hv, by simp [hv], fun h => hroot_ch (h ▸ hv)⟩
    · -- front
      intro u v hu huu hvu huv
      rw [hN', hmem]
      rw [hU'] at huu hvu
      by_cases huc : u ∈ ch
      · exact Or.inr huc
      · simp only [huc, if_false] at huu
        by_cases hvc : v ∈ ch
        · simp [hvc] at hvu
        · simp only [hvc, if_false] at hvu
          rcases I.front u v hu huu hvu huv with h | h
          · rcases List.mem_cons.mp h with rfl | h
            · exfalso
              have h1 := I.un_eq u v hvu
              rw [huv] at h1
              exact hvc ((hchm v).mpr ⟨hst v (I.un_stabs v hvu).1, h1⟩)
            · exact Or.inl (Or.inl h)
          · exact Or.inl (Or.inr h)
    · -- lv_vis
      intro v hv hvu
      rw [hU'] at hvu
      by_cases hvc : v ∈ ch
      · simp [hvc]
      · simp only [hvc, if_false] at hvu ⊢
        exact I.lv_vis v hv hvu
    · -- lv_F2
      intro v hv
      have hvc : v ∉ ch := fun h => by
        have := hchu v h
        rw [(I.pend_vis v (Or.inl (by simp [hv]))).2.1] at this; exact absurd this (by simp)
      simp only [hvc, if_false]
      exact I.lv_F2 v (by simp [hv])
    · -- monotone
      intro v hv
      rw [hU'] at hv
      by_cases hvc : v ∈ ch
      · simp [hvc] at hv
      · simpa [hvc] using hv
    · -- progress
      intro v hv
      rw [hU']
      by_cases hvc : v ∈ ch
      · simp [hvc]
      · simp only [hvc, if_false]
        cases hu : unseen v
        · rfl
        · exfalso
          have h1 := I.un_eq s v hu
          rw [hv] at h1
          exact hvc ((hchm v).mpr ⟨hst v (I.un_stabs v hu).1, h1⟩)

end

end Panqec.UF
