/-
`Toric3DCode`, every size with `2 ≤ Lx, Ly, Lz`: an explicit family of `n − k = 3·Lx·Ly·Lz − 3`
stabilizer generators that is GF(2)-independent (the rank clause).  With `T = 2Lz − 1` the top
layer:
* vertices: all but the origin (the product of all vertex operators is the identity);
* xz and yz faces of the layers `z < T`, plus, in the top layer, a spanning tree of the 2-D torus
  graph whose edges are the vertical faces: the "teeth" yz `(x, y, T)` with `y ≤ 2Ly − 3` and the
  "spine" xz `(x, 0, T)` with `x ≤ 2Lx − 3`;
* xy faces of the layer `z = 0` only, all but the corner `(2Lx−1, 2Ly−1, 0)`.
`Lx·Ly·Lz + 2` faces are left out (one per independent cube relation and the three torus planes).
Independence by the triangular criterion (`opsIndep_of_triangular`): each member has a witness edge
(a vertex: the edge towards the origin along the first non-zero coordinate; a face below the top
layer: the edge above it; a tooth / spine face: the z edge at its far end; an xy face: its far
y / x edge) and a rank such that any other member touching the witness has smaller rank.
-/
import Mathlib.Tactic.Ring
import PanqecVerif.Proofs.LatCubic3DRank
import PanqecVerif.Proofs.LatToric3DCodePair

set_option linter.unusedVariables false
set_option linter.unusedSimpArgs false

namespace Panqec.Toric3DCode
open Panqec.Cubic3D

def inC1 (Lx Ly Lz : Nat) (x y z : Int) : Prop :=
  x ∈ range2 2 (2 * (Lx : Int)) ∧ y ∈ range2 0 (2 * (Ly : Int)) ∧ z ∈ range2 0 (2 * (Lz : Int))

def inC2 (Lx Ly Lz : Nat) (x y z : Int) : Prop :=
  x = 0 ∧ y ∈ range2 2 (2 * (Ly : Int)) ∧ z ∈ range2 0 (2 * (Lz : Int))

def inC3 (Lx Ly Lz : Nat) (x y z : Int) : Prop :=
  x = 0 ∧ y = 0 ∧ z ∈ range2 2 (2 * (Lz : Int))

def inC4 (Lx Ly Lz : Nat) (x y z : Int) : Prop :=
  x ∈ range2 1 (2 * (Lx : Int)) ∧ y ∈ range2 0 (2 * (Ly : Int)) ∧ z ∈ range2 1 (2 * (Lz : Int) - 1)

def inC5 (Lx Ly Lz : Nat) (x y z : Int) : Prop :=
  x ∈ range2 0 (2 * (Lx : Int)) ∧ y ∈ range2 1 (2 * (Ly : Int)) ∧ z ∈ range2 1 (2 * (Lz : Int) - 1)

def inC6 (Lx Ly Lz : Nat) (x y z : Int) : Prop :=
  x ∈ range2 0 (2 * (Lx : Int)) ∧ y ∈ range2 1 (2 * (Ly : Int) - 1) ∧ z = 2 * (Lz : Int) - 1

def inC7 (Lx Ly Lz : Nat) (x y z : Int) : Prop :=
  x ∈ range2 1 (2 * (Lx : Int) - 1) ∧ y = 0 ∧ z = 2 * (Lz : Int) - 1

def inC8 (Lx Ly Lz : Nat) (x y z : Int) : Prop :=
  x = 2 * (Lx : Int) - 1 ∧ y ∈ range2 1 (2 * (Ly : Int) - 1) ∧ z = 0

def inC9 (Lx Ly Lz : Nat) (x y z : Int) : Prop :=
  x ∈ range2 1 (2 * (Lx : Int) - 1) ∧ y ∈ range2 1 (2 * (Ly : Int)) ∧ z = 0

theorem mem_rankFamily {Lx Ly Lz : Nat} {x y z : Int} :
    [x, y, z] ∈ rankFamily Lx Ly Lz ↔
      inC1 Lx Ly Lz x y z ∨ inC2 Lx Ly Lz x y z ∨ inC3 Lx Ly Lz x y z ∨ inC4 Lx Ly Lz x y z ∨ inC5 Lx Ly Lz x y z ∨ inC6 Lx Ly Lz x y z ∨ inC7 Lx Ly Lz x y z ∨ inC8 Lx Ly Lz x y z ∨ inC9 Lx Ly Lz x y z := by
  simp only [rankFamily, List.mem_append, mem_grid3, List.mem_singleton, inC1, inC2, inC3, inC4, inC5, inC6, inC7, inC8, inC9, or_assoc]

theorem shape_of_mem_rankFamily {Lx Ly Lz : Nat} {q : Coord} (h : q ∈ rankFamily Lx Ly Lz) :
    ∃ x y z, q = [x, y, z] := by
  simp only [rankFamily, List.mem_append, mem_grid] at h
  rcases h with (((((((⟨x, _, y, _, z, _, rfl⟩ | ⟨x, _, y, _, z, _, rfl⟩) | ⟨x, _, y, _, z, _, rfl⟩) | ⟨x, _, y, _, z, _, rfl⟩) | ⟨x, _, y, _, z, _, rfl⟩) | ⟨x, _, y, _, z, _, rfl⟩) | ⟨x, _, y, _, z, _, rfl⟩) | ⟨x, _, y, _, z, _, rfl⟩) |
    ⟨x, _, y, _, z, _, rfl⟩ <;> exact ⟨x, y, z, rfl⟩

theorem kind_C1 {Lx Ly Lz : Nat} (hLx : 2 ≤ Lx) (hLy : 2 ≤ Ly) (hLz : 2 ≤ Lz) {x y z : Int}
    (h : inC1 Lx Ly Lz x y z) : isVertex Lx Ly Lz x y z := by
  simp only [inC1, mem_range2] at h
  simp only [isVertex, isE, isO]
  omega

theorem kind_C2 {Lx Ly Lz : Nat} (hLx : 2 ≤ Lx) (hLy : 2 ≤ Ly) (hLz : 2 ≤ Lz) {x y z : Int}
    (h : inC2 Lx Ly Lz x y z) : isVertex Lx Ly Lz x y z := by
  simp only [inC2, mem_range2] at h
  simp only [isVertex, isE, isO]
  omega

theorem kind_C3 {Lx Ly Lz : Nat} (hLx : 2 ≤ Lx) (hLy : 2 ≤ Ly) (hLz : 2 ≤ Lz) {x y z : Int}
    (h : inC3 Lx Ly Lz x y z) : isVertex Lx Ly Lz x y z := by
  simp only [inC3, mem_range2] at h
  simp only [isVertex, isE, isO]
  omega

theorem kind_C4 {Lx Ly Lz : Nat} (hLx : 2 ≤ Lx) (hLy : 2 ≤ Ly) (hLz : 2 ≤ Lz) {x y z : Int}
    (h : inC4 Lx Ly Lz x y z) : isFaceXZ Lx Ly Lz x y z := by
  simp only [inC4, mem_range2] at h
  simp only [isFaceXZ, isE, isO]
  omega

theorem kind_C5 {Lx Ly Lz : Nat} (hLx : 2 ≤ Lx) (hLy : 2 ≤ Ly) (hLz : 2 ≤ Lz) {x y z : Int}
    (h : inC5 Lx Ly Lz x y z) : isFaceYZ Lx Ly Lz x y z := by
  simp only [inC5, mem_range2] at h
  simp only [isFaceYZ, isE, isO]
  omega

theorem kind_C6 {Lx Ly Lz : Nat} (hLx : 2 ≤ Lx) (hLy : 2 ≤ Ly) (hLz : 2 ≤ Lz) {x y z : Int}
    (h : inC6 Lx Ly Lz x y z) : isFaceYZ Lx Ly Lz x y z := by
  simp only [inC6, mem_range2] at h
  simp only [isFaceYZ, isE, isO]
  omega

theorem kind_C7 {Lx Ly Lz : Nat} (hLx : 2 ≤ Lx) (hLy : 2 ≤ Ly) (hLz : 2 ≤ Lz) {x y z : Int}
    (h : inC7 Lx Ly Lz x y z) : isFaceXZ Lx Ly Lz x y z := by
  simp only [inC7, mem_range2] at h
  simp only [isFaceXZ, isE, isO]
  omega

theorem kind_C8 {Lx Ly Lz : Nat} (hLx : 2 ≤ Lx) (hLy : 2 ≤ Ly) (hLz : 2 ≤ Lz) {x y z : Int}
    (h : inC8 Lx Ly Lz x y z) : isFaceXY Lx Ly Lz x y z := by
  simp only [inC8, mem_range2] at h
  simp only [isFaceXY, isE, isO]
  omega

theorem kind_C9 {Lx Ly Lz : Nat} (hLx : 2 ≤ Lx) (hLy : 2 ≤ Ly) (hLz : 2 ≤ Lz) {x y z : Int}
    (h : inC9 Lx Ly Lz x y z) : isFaceXY Lx Ly Lz x y z := by
  simp only [inC9, mem_range2] at h
  simp only [isFaceXY, isE, isO]
  omega

theorem rankFamily_sub {Lx Ly Lz : Nat} (hLx : 2 ≤ Lx) (hLy : 2 ≤ Ly) (hLz : 2 ≤ Lz) :
    ∀ s ∈ rankFamily Lx Ly Lz, s ∈ stabs Lx Ly Lz := by
  intro s hs
  obtain ⟨x, y, z, rfl⟩ := shape_of_mem_rankFamily hs
  rw [mem_rankFamily] at hs
  rw [mem_stabs]
  rcases hs with h | h | h | h | h | h | h | h | h
  · exact Or.inl <| kind_C1 hLx hLy hLz h
  · exact Or.inl <| kind_C2 hLx hLy hLz h
  · exact Or.inl <| kind_C3 hLx hLy hLz h
  · exact Or.inr <| Or.inr <| Or.inr <| kind_C4 hLx hLy hLz h
  · exact Or.inr <| Or.inr <| Or.inl <| kind_C5 hLx hLy hLz h
  · exact Or.inr <| Or.inr <| Or.inl <| kind_C6 hLx hLy hLz h
  · exact Or.inr <| Or.inr <| Or.inr <| kind_C7 hLx hLy hLz h
  · exact Or.inr <| Or.inl <| kind_C8 hLx hLy hLz h
  · exact Or.inr <| Or.inl <| kind_C9 hLx hLy hLz h

theorem nodup_append_of {α : Type} {l1 l2 : List α} (h1 : l1.Nodup) (h2 : l2.Nodup)
    (h : ∀ a ∈ l1, a ∉ l2) : (l1 ++ l2).Nodup := by
  rw [List.nodup_append]
  exact ⟨h1, h2, fun a ha b hb hab => h a ha (hab ▸ hb)⟩

theorem rankFamily_nodup {Lx Ly Lz : Nat} (hLx : 2 ≤ Lx) (hLy : 2 ≤ Ly) (hLz : 2 ≤ Lz) :
    (rankFamily Lx Ly Lz).Nodup := by
  have r := nodup_range2
  have s1 : ∀ v : Int, [v].Nodup := fun v => List.nodup_singleton v
  unfold rankFamily
  have n0 := nodup_grid (r _ _) (r _ _) (r _ _) (xs := (range2 2 (2 * (Lx : Int)))) (ys := (range2 0 (2 * (Ly : Int)))) (zs := (range2 0 (2 * (Lz : Int))))
  have n1 := nodup_grid (s1 _) (r _ _) (r _ _) (xs := [0]) (ys := (range2 2 (2 * (Ly : Int)))) (zs := (range2 0 (2 * (Lz : Int))))
  have n2 := nodup_grid (s1 _) (s1 _) (r _ _) (xs := [0]) (ys := [0]) (zs := (range2 2 (2 * (Lz : Int))))
  have n3 := nodup_grid (r _ _) (r _ _) (r _ _) (xs := (range2 1 (2 * (Lx : Int)))) (ys := (range2 0 (2 * (Ly : Int)))) (zs := (range2 1 (2 * (Lz : Int) - 1)))
  have n4 := nodup_grid (r _ _) (r _ _) (r _ _) (xs := (range2 0 (2 * (Lx : Int)))) (ys := (range2 1 (2 * (Ly : Int)))) (zs := (range2 1 (2 * (Lz : Int) - 1)))
  have n5 := nodup_grid (r _ _) (r _ _) (s1 _) (xs := (range2 0 (2 * (Lx : Int)))) (ys := (range2 1 (2 * (Ly : Int) - 1))) (zs := [2 * (Lz : Int) - 1])
  have n6 := nodup_grid (r _ _) (s1 _) (s1 _) (xs := (range2 1 (2 * (Lx : Int) - 1))) (ys := [0]) (zs := [2 * (Lz : Int) - 1])
  have n7 := nodup_grid (s1 _) (r _ _) (s1 _) (xs := [2 * (Lx : Int) - 1]) (ys := (range2 1 (2 * (Ly : Int) - 1))) (zs := [0])
  have n8 := nodup_grid (r _ _) (r _ _) (s1 _) (xs := (range2 1 (2 * (Lx : Int) - 1))) (ys := (range2 1 (2 * (Ly : Int)))) (zs := [0])
  have m1 := nodup_append_of n0 n1 (by
    intro a ha hb
    obtain ⟨x, _, y, _, z, _, rfl⟩ := mem_grid.mp hb
    simp only [List.mem_append, mem_grid3, mem_range2, List.mem_singleton] at ha hb
    omega)
  have m2 := nodup_append_of m1 n2 (by
    intro a ha hb
    obtain ⟨x, _, y, _, z, _, rfl⟩ := mem_grid.mp hb
    simp only [List.mem_append, mem_grid3, mem_range2, List.mem_singleton] at ha hb
    omega)
  have m3 := nodup_append_of m2 n3 (by
    intro a ha hb
    obtain ⟨x, _, y, _, z, _, rfl⟩ := mem_grid.mp hb
    simp only [List.mem_append, mem_grid3, mem_range2, List.mem_singleton] at ha hb
    omega)
  have m4 := nodup_append_of m3 n4 (by
    intro a ha hb
    obtain ⟨x, _, y, _, z, _, rfl⟩ := mem_grid.mp hb
    simp only [List.mem_append, mem_grid3, mem_range2, List.mem_singleton] at ha hb
    omega)
  have m5 := nodup_append_of m4 n5 (by
    intro a ha hb
    obtain ⟨x, _, y, _, z, _, rfl⟩ := mem_grid.mp hb
    simp only [List.mem_append, mem_grid3, mem_range2, List.mem_singleton] at ha hb
    omega)
  have m6 := nodup_append_of m5 n6 (by
    intro a ha hb
    obtain ⟨x, _, y, _, z, _, rfl⟩ := mem_grid.mp hb
    simp only [List.mem_append, mem_grid3, mem_range2, List.mem_singleton] at ha hb
    omega)
  have m7 := nodup_append_of m6 n7 (by
    intro a ha hb
    obtain ⟨x, _, y, _, z, _, rfl⟩ := mem_grid.mp hb
    simp only [List.mem_append, mem_grid3, mem_range2, List.mem_singleton] at ha hb
    omega)
  have m8 := nodup_append_of m7 n8 (by
    intro a ha hb
    obtain ⟨x, _, y, _, z, _, rfl⟩ := mem_grid.mp hb
    simp only [List.mem_append, mem_grid3, mem_range2, List.mem_singleton] at ha hb
    omega)
  exact m8

theorem len_r0 (L : Nat) : (range2 0 (2 * (L : Int))).length = L := by rw [length_range2]; omega
theorem len_r1 (L : Nat) : (range2 1 (2 * (L : Int))).length = L := by rw [length_range2]; omega
theorem len_r2 (L : Nat) : (range2 2 (2 * (L : Int))).length = L - 1 := by rw [length_range2]; omega
theorem len_r1s (L : Nat) : (range2 1 (2 * (L : Int) - 1)).length = L - 1 := by
  rw [length_range2]; omega

theorem rankFamily_length {Lx Ly Lz : Nat} (hLx : 2 ≤ Lx) (hLy : 2 ≤ Ly) (hLz : 2 ≤ Lz) :
    (rankFamily Lx Ly Lz).length = (qubits Lx Ly Lz).length - 3 := by
  rw [qubits_length]
  simp only [rankFamily, List.length_append, length_grid, len_r0, len_r1, len_r2, len_r1s,
    List.length_singleton]
  obtain ⟨a, rfl⟩ : ∃ a, Lx = a + 1 := ⟨Lx - 1, by omega⟩
  obtain ⟨b, rfl⟩ : ∃ b, Ly = b + 1 := ⟨Ly - 1, by omega⟩
  obtain ⟨c, rfl⟩ : ∃ c, Lz = c + 1 := ⟨Lz - 1, by omega⟩
  simp only [Nat.add_sub_cancel]
  have : a * (b + 1) * (c + 1) + 1 * b * (c + 1) + 1 * 1 * c + (a + 1) * (b + 1) * c +
      (a + 1) * (b + 1) * c + (a + 1) * b * 1 + a * 1 * 1 + 1 * b * 1 + a * (b + 1) * 1 + 3 =
      3 * ((a + 1) * (b + 1) * (c + 1)) := by ring
  omega

/-! ### rank, witness edge and component of each member -/

def rk (Lx Ly Lz : Nat) : Coord → Nat
  | [x, y, z] =>
    if x % 2 = 0 ∧ y % 2 = 0 then
      if x ≠ 0 then 2 * Lz + 2 * Ly + x.toNat else if y ≠ 0 then 2 * Lz + y.toNat else z.toNat
    else if z % 2 = 0 then
      if x = 2 * (Lx : Int) - 1 then 2 * Lx + 2 * Ly + 2 * Lz + (2 * (Ly : Int) - y).toNat else 2 * Lx + 2 * Ly + 2 * Lz + 2 * Ly + (2 * (Lx : Int) - x).toNat
    else if z ≠ 2 * (Lz : Int) - 1 then 2 * Lx + 2 * Ly + (2 * (Lz : Int) - z).toNat
    else if x % 2 = 0 then (2 * (Ly : Int) - y).toNat else 2 * Ly + (2 * (Lx : Int) - x).toNat
  | _ => 0

def wit (Lx Ly Lz : Nat) : Coord → Coord
  | [x, y, z] =>
    if x % 2 = 0 ∧ y % 2 = 0 then
      if x ≠ 0 then [x - 1, y, z] else if y ≠ 0 then [x, y - 1, z] else [x, y, z - 1]
    else if z % 2 = 0 then
      if x = 2 * (Lx : Int) - 1 then [x, y + 1, z] else [x + 1, y, z]
    else if z ≠ 2 * (Lz : Int) - 1 then [x, y, z + 1]
    else if x % 2 = 0 then [x, y + 1, z] else [x + 1, y, z]
  | q => q

/-- `true`: the witness is hit with an X component (faces); `false`: with a Z component (vertices) -/
def wx : Coord → Bool
  | [x, y, _] => !(decide (x % 2 = 0 ∧ y % 2 = 0))
  | _ => false

section hits
variable {Lx Ly Lz : Nat} (hLx : 2 ≤ Lx) (hLy : 2 ≤ Ly) (hLz : 2 ≤ Lz) {a b c : Int}
include hLx hLy hLz

theorem hit_vertex (h : isVertex Lx Ly Lz a b c) (bx : Bool) (q : Coord) :
    hit bx (getStab Lx Ly Lz [a, b, c]) q = (!bx && decide (q ∈ vertexKeys Lx Ly Lz a b c)) := by
  rw [getStab_vertex hLx hLy hLz h]; cases bx <;> simp [hit, hitX_uop, hitZ_uop]
theorem hit_faceXY (h : isFaceXY Lx Ly Lz a b c) (bx : Bool) (q : Coord) :
    hit bx (getStab Lx Ly Lz [a, b, c]) q = (bx && decide (q ∈ faceXYKeys Lx Ly Lz a b c)) := by
  rw [getStab_faceXY hLx hLy hLz h]; cases bx <;> simp [hit, hitX_uop, hitZ_uop]
theorem hit_faceYZ (h : isFaceYZ Lx Ly Lz a b c) (bx : Bool) (q : Coord) :
    hit bx (getStab Lx Ly Lz [a, b, c]) q = (bx && decide (q ∈ faceYZKeys Lx Ly Lz a b c)) := by
  rw [getStab_faceYZ hLx hLy hLz h]; cases bx <;> simp [hit, hitX_uop, hitZ_uop]
theorem hit_faceXZ (h : isFaceXZ Lx Ly Lz a b c) (bx : Bool) (q : Coord) :
    hit bx (getStab Lx Ly Lz [a, b, c]) q = (bx && decide (q ∈ faceXZKeys Lx Ly Lz a b c)) := by
  rw [getStab_faceXZ hLx hLy hLz h]; cases bx <;> simp [hit, hitX_uop, hitZ_uop]
end hits

theorem eval_C1 {Lx Ly Lz : Nat} (hLz : 2 ≤ Lz) {x y z : Int} (h : inC1 Lx Ly Lz x y z) :
    rk Lx Ly Lz [x, y, z] = 2 * Lz + 2 * Ly + x.toNat ∧ wit Lx Ly Lz [x, y, z] = [x - 1, y, z] ∧
      wx [x, y, z] = false := by
  simp only [inC1, mem_range2] at h
  have f0 : x % 2 = 0 := by omega
  have f1 : y % 2 = 0 := by omega
  have f2 : x ≠ 0 := by omega
  obtain ⟨h1, h2, h3⟩ := h
  simp [rk, wit, wx, f0, f1, f2, h1, h2, h3]

theorem eval_C2 {Lx Ly Lz : Nat} (hLz : 2 ≤ Lz) {x y z : Int} (h : inC2 Lx Ly Lz x y z) :
    rk Lx Ly Lz [x, y, z] = 2 * Lz + y.toNat ∧ wit Lx Ly Lz [x, y, z] = [x, y - 1, z] ∧
      wx [x, y, z] = false := by
  simp only [inC2, mem_range2] at h
  have f0 : x % 2 = 0 := by omega
  have f1 : y % 2 = 0 := by omega
  have f2 : y ≠ 0 := by omega
  obtain ⟨h1, h2, h3⟩ := h
  simp [rk, wit, wx, f0, f1, f2, h1, h2, h3]

theorem eval_C3 {Lx Ly Lz : Nat} (hLz : 2 ≤ Lz) {x y z : Int} (h : inC3 Lx Ly Lz x y z) :
    rk Lx Ly Lz [x, y, z] = z.toNat ∧ wit Lx Ly Lz [x, y, z] = [x, y, z - 1] ∧
      wx [x, y, z] = false := by
  simp only [inC3, mem_range2] at h
  have f0 : x % 2 = 0 := by omega
  have f1 : y % 2 = 0 := by omega
  obtain ⟨h1, h2, h3⟩ := h
  simp [rk, wit, wx, f0, f1, h1, h2, h3]

theorem eval_C4 {Lx Ly Lz : Nat} (hLz : 2 ≤ Lz) {x y z : Int} (h : inC4 Lx Ly Lz x y z) :
    rk Lx Ly Lz [x, y, z] = 2 * Lx + 2 * Ly + (2 * (Lz : Int) - z).toNat ∧ wit Lx Ly Lz [x, y, z] = [x, y, z + 1] ∧
      wx [x, y, z] = true := by
  simp only [inC4, mem_range2] at h
  have f0 : x % 2 = 1 := by omega
  have f1 : y % 2 = 0 := by omega
  have f2 : z % 2 = 1 := by omega
  have f3 : z ≠ 2 * (Lz : Int) - 1 := by omega
  obtain ⟨h1, h2, h3⟩ := h
  simp [rk, wit, wx, f0, f1, f2, f3, h1, h2, h3]

theorem eval_C5 {Lx Ly Lz : Nat} (hLz : 2 ≤ Lz) {x y z : Int} (h : inC5 Lx Ly Lz x y z) :
    rk Lx Ly Lz [x, y, z] = 2 * Lx + 2 * Ly + (2 * (Lz : Int) - z).toNat ∧ wit Lx Ly Lz [x, y, z] = [x, y, z + 1] ∧
      wx [x, y, z] = true := by
  simp only [inC5, mem_range2] at h
  have f0 : x % 2 = 0 := by omega
  have f1 : y % 2 = 1 := by omega
  have f2 : z % 2 = 1 := by omega
  have f3 : z ≠ 2 * (Lz : Int) - 1 := by omega
  obtain ⟨h1, h2, h3⟩ := h
  simp [rk, wit, wx, f0, f1, f2, f3, h1, h2, h3]

theorem eval_C6 {Lx Ly Lz : Nat} (hLz : 2 ≤ Lz) {x y z : Int} (h : inC6 Lx Ly Lz x y z) :
    rk Lx Ly Lz [x, y, z] = (2 * (Ly : Int) - y).toNat ∧ wit Lx Ly Lz [x, y, z] = [x, y + 1, z] ∧
      wx [x, y, z] = true := by
  simp only [inC6, mem_range2] at h
  have f0 : x % 2 = 0 := by omega
  have f1 : y % 2 = 1 := by omega
  have f2 : z % 2 = 1 := by omega
  obtain ⟨h1, h2, h3⟩ := h
  simp [rk, wit, wx, f0, f1, f2, h1, h2, h3]

theorem eval_C7 {Lx Ly Lz : Nat} (hLz : 2 ≤ Lz) {x y z : Int} (h : inC7 Lx Ly Lz x y z) :
    rk Lx Ly Lz [x, y, z] = 2 * Ly + (2 * (Lx : Int) - x).toNat ∧ wit Lx Ly Lz [x, y, z] = [x + 1, y, z] ∧
      wx [x, y, z] = true := by
  simp only [inC7, mem_range2] at h
  have f0 : x % 2 = 1 := by omega
  have f1 : y % 2 = 0 := by omega
  have f2 : z % 2 = 1 := by omega
  obtain ⟨h1, h2, h3⟩ := h
  simp [rk, wit, wx, f0, f1, f2, h1, h2, h3]

theorem eval_C8 {Lx Ly Lz : Nat} (hLz : 2 ≤ Lz) {x y z : Int} (h : inC8 Lx Ly Lz x y z) :
    rk Lx Ly Lz [x, y, z] = 2 * Lx + 2 * Ly + 2 * Lz + (2 * (Ly : Int) - y).toNat ∧ wit Lx Ly Lz [x, y, z] = [x, y + 1, z] ∧
      wx [x, y, z] = true := by
  simp only [inC8, mem_range2] at h
  have f0 : x % 2 = 1 := by omega
  have f1 : y % 2 = 1 := by omega
  have f2 : z % 2 = 0 := by omega
  obtain ⟨h1, h2, h3⟩ := h
  simp [rk, wit, wx, f0, f1, f2, h1, h2, h3]

theorem eval_C9 {Lx Ly Lz : Nat} (hLz : 2 ≤ Lz) {x y z : Int} (h : inC9 Lx Ly Lz x y z) :
    rk Lx Ly Lz [x, y, z] = 2 * Lx + 2 * Ly + 2 * Lz + 2 * Ly + (2 * (Lx : Int) - x).toNat ∧ wit Lx Ly Lz [x, y, z] = [x + 1, y, z] ∧
      wx [x, y, z] = true := by
  simp only [inC9, mem_range2] at h
  have f0 : x % 2 = 1 := by omega
  have f1 : y % 2 = 1 := by omega
  have f2 : z % 2 = 0 := by omega
  have f3 : x ≠ 2 * (Lx : Int) - 1 := by omega
  obtain ⟨h1, h2, h3⟩ := h
  simp [rk, wit, wx, f0, f1, f2, f3, h1, h2, h3]

theorem self_C1 {Lx Ly Lz : Nat} (hLx : 2 ≤ Lx) (hLy : 2 ≤ Ly) (hLz : 2 ≤ Lz) {x y z : Int}
    (h : inC1 Lx Ly Lz x y z) : [x - 1, y, z] ∈ vertexKeys Lx Ly Lz x y z := by
  simp only [inC1, mem_range2] at h
  have p1 := predW_spec x (2 * (Lx : Int)); have p2 := predW_spec y (2 * (Ly : Int)); have p3 := predW_spec z (2 * (Lz : Int))
  have s1 := succW_spec x (2 * (Lx : Int)); have s2 := succW_spec y (2 * (Ly : Int)); have s3 := succW_spec z (2 * (Lz : Int))
  simp only [vertexKeys, List.mem_cons, List.cons.injEq, List.not_mem_nil, and_true, true_and, or_false]
  omega

theorem self_C2 {Lx Ly Lz : Nat} (hLx : 2 ≤ Lx) (hLy : 2 ≤ Ly) (hLz : 2 ≤ Lz) {x y z : Int}
    (h : inC2 Lx Ly Lz x y z) : [x, y - 1, z] ∈ vertexKeys Lx Ly Lz x y z := by
  simp only [inC2, mem_range2] at h
  have p1 := predW_spec x (2 * (Lx : Int)); have p2 := predW_spec y (2 * (Ly : Int)); have p3 := predW_spec z (2 * (Lz : Int))
  have s1 := succW_spec x (2 * (Lx : Int)); have s2 := succW_spec y (2 * (Ly : Int)); have s3 := succW_spec z (2 * (Lz : Int))
  simp only [vertexKeys, List.mem_cons, List.cons.injEq, List.not_mem_nil, and_true, true_and, or_false]
  omega

theorem self_C3 {Lx Ly Lz : Nat} (hLx : 2 ≤ Lx) (hLy : 2 ≤ Ly) (hLz : 2 ≤ Lz) {x y z : Int}
    (h : inC3 Lx Ly Lz x y z) : [x, y, z - 1] ∈ vertexKeys Lx Ly Lz x y z := by
  simp only [inC3, mem_range2] at h
  have p1 := predW_spec x (2 * (Lx : Int)); have p2 := predW_spec y (2 * (Ly : Int)); have p3 := predW_spec z (2 * (Lz : Int))
  have s1 := succW_spec x (2 * (Lx : Int)); have s2 := succW_spec y (2 * (Ly : Int)); have s3 := succW_spec z (2 * (Lz : Int))
  simp only [vertexKeys, List.mem_cons, List.cons.injEq, List.not_mem_nil, and_true, true_and, or_false]
  omega

theorem self_C4 {Lx Ly Lz : Nat} (hLx : 2 ≤ Lx) (hLy : 2 ≤ Ly) (hLz : 2 ≤ Lz) {x y z : Int}
    (h : inC4 Lx Ly Lz x y z) : [x, y, z + 1] ∈ faceXZKeys Lx Ly Lz x y z := by
  simp only [inC4, mem_range2] at h
  have p1 := predW_spec x (2 * (Lx : Int)); have p2 := predW_spec y (2 * (Ly : Int)); have p3 := predW_spec z (2 * (Lz : Int))
  have s1 := succW_spec x (2 * (Lx : Int)); have s2 := succW_spec y (2 * (Ly : Int)); have s3 := succW_spec z (2 * (Lz : Int))
  simp only [faceXZKeys, List.mem_cons, List.cons.injEq, List.not_mem_nil, and_true, true_and, or_false]
  omega

theorem self_C5 {Lx Ly Lz : Nat} (hLx : 2 ≤ Lx) (hLy : 2 ≤ Ly) (hLz : 2 ≤ Lz) {x y z : Int}
    (h : inC5 Lx Ly Lz x y z) : [x, y, z + 1] ∈ faceYZKeys Lx Ly Lz x y z := by
  simp only [inC5, mem_range2] at h
  have p1 := predW_spec x (2 * (Lx : Int)); have p2 := predW_spec y (2 * (Ly : Int)); have p3 := predW_spec z (2 * (Lz : Int))
  have s1 := succW_spec x (2 * (Lx : Int)); have s2 := succW_spec y (2 * (Ly : Int)); have s3 := succW_spec z (2 * (Lz : Int))
  simp only [faceYZKeys, List.mem_cons, List.cons.injEq, List.not_mem_nil, and_true, true_and, or_false]
  omega

theorem self_C6 {Lx Ly Lz : Nat} (hLx : 2 ≤ Lx) (hLy : 2 ≤ Ly) (hLz : 2 ≤ Lz) {x y z : Int}
    (h : inC6 Lx Ly Lz x y z) : [x, y + 1, z] ∈ faceYZKeys Lx Ly Lz x y z := by
  simp only [inC6, mem_range2] at h
  have p1 := predW_spec x (2 * (Lx : Int)); have p2 := predW_spec y (2 * (Ly : Int)); have p3 := predW_spec z (2 * (Lz : Int))
  have s1 := succW_spec x (2 * (Lx : Int)); have s2 := succW_spec y (2 * (Ly : Int)); have s3 := succW_spec z (2 * (Lz : Int))
  simp only [faceYZKeys, List.mem_cons, List.cons.injEq, List.not_mem_nil, and_true, true_and, or_false]
  omega

theorem self_C7 {Lx Ly Lz : Nat} (hLx : 2 ≤ Lx) (hLy : 2 ≤ Ly) (hLz : 2 ≤ Lz) {x y z : Int}
    (h : inC7 Lx Ly Lz x y z) : [x + 1, y, z] ∈ faceXZKeys Lx Ly Lz x y z := by
  simp only [inC7, mem_range2] at h
  have p1 := predW_spec x (2 * (Lx : Int)); have p2 := predW_spec y (2 * (Ly : Int)); have p3 := predW_spec z (2 * (Lz : Int))
  have s1 := succW_spec x (2 * (Lx : Int)); have s2 := succW_spec y (2 * (Ly : Int)); have s3 := succW_spec z (2 * (Lz : Int))
  simp only [faceXZKeys, List.mem_cons, List.cons.injEq, List.not_mem_nil, and_true, true_and, or_false]
  omega

theorem self_C8 {Lx Ly Lz : Nat} (hLx : 2 ≤ Lx) (hLy : 2 ≤ Ly) (hLz : 2 ≤ Lz) {x y z : Int}
    (h : inC8 Lx Ly Lz x y z) : [x, y + 1, z] ∈ faceXYKeys Lx Ly Lz x y z := by
  simp only [inC8, mem_range2] at h
  have p1 := predW_spec x (2 * (Lx : Int)); have p2 := predW_spec y (2 * (Ly : Int)); have p3 := predW_spec z (2 * (Lz : Int))
  have s1 := succW_spec x (2 * (Lx : Int)); have s2 := succW_spec y (2 * (Ly : Int)); have s3 := succW_spec z (2 * (Lz : Int))
  simp only [faceXYKeys, List.mem_cons, List.cons.injEq, List.not_mem_nil, and_true, true_and, or_false]
  omega

theorem self_C9 {Lx Ly Lz : Nat} (hLx : 2 ≤ Lx) (hLy : 2 ≤ Ly) (hLz : 2 ≤ Lz) {x y z : Int}
    (h : inC9 Lx Ly Lz x y z) : [x + 1, y, z] ∈ faceXYKeys Lx Ly Lz x y z := by
  simp only [inC9, mem_range2] at h
  have p1 := predW_spec x (2 * (Lx : Int)); have p2 := predW_spec y (2 * (Ly : Int)); have p3 := predW_spec z (2 * (Lz : Int))
  have s1 := succW_spec x (2 * (Lx : Int)); have s2 := succW_spec y (2 * (Ly : Int)); have s3 := succW_spec z (2 * (Lz : Int))
  simp only [faceXYKeys, List.mem_cons, List.cons.injEq, List.not_mem_nil, and_true, true_and, or_false]
  omega

theorem tri_C1_C1 {Lx Ly Lz : Nat} (hLx : 2 ≤ Lx) (hLy : 2 ≤ Ly) (hLz : 2 ≤ Lz)
    {x y z a b c : Int} (hs : inC1 Lx Ly Lz x y z) (ht : inC1 Lx Ly Lz a b c)
    (hm : [x - 1, y, z] ∈ vertexKeys Lx Ly Lz a b c) :
    [a, b, c] = [x, y, z] ∨ 2 * Lz + 2 * Ly + a.toNat < 2 * Lz + 2 * Ly + x.toNat := by
  simp only [inC1, inC1, mem_range2] at hs ht
  have p1 := predW_spec a (2 * (Lx : Int)); have p2 := predW_spec b (2 * (Ly : Int)); have p3 := predW_spec c (2 * (Lz : Int))
  have s1 := succW_spec a (2 * (Lx : Int)); have s2 := succW_spec b (2 * (Ly : Int)); have s3 := succW_spec c (2 * (Lz : Int))
  simp only [vertexKeys, List.mem_cons, List.cons.injEq, List.not_mem_nil, and_true, or_false] at hm
  simp only [List.cons.injEq, and_true]
  omega

theorem tri_C1_C2 {Lx Ly Lz : Nat} (hLx : 2 ≤ Lx) (hLy : 2 ≤ Ly) (hLz : 2 ≤ Lz)
    {x y z a b c : Int} (hs : inC1 Lx Ly Lz x y z) (ht : inC2 Lx Ly Lz a b c)
    (hm : [x - 1, y, z] ∈ vertexKeys Lx Ly Lz a b c) :
    [a, b, c] = [x, y, z] ∨ 2 * Lz + b.toNat < 2 * Lz + 2 * Ly + x.toNat := by
  simp only [inC1, inC2, mem_range2] at hs ht
  have p1 := predW_spec a (2 * (Lx : Int)); have p2 := predW_spec b (2 * (Ly : Int)); have p3 := predW_spec c (2 * (Lz : Int))
  have s1 := succW_spec a (2 * (Lx : Int)); have s2 := succW_spec b (2 * (Ly : Int)); have s3 := succW_spec c (2 * (Lz : Int))
  simp only [vertexKeys, List.mem_cons, List.cons.injEq, List.not_mem_nil, and_true, or_false] at hm
  simp only [List.cons.injEq, and_true]
  omega

theorem tri_C1_C3 {Lx Ly Lz : Nat} (hLx : 2 ≤ Lx) (hLy : 2 ≤ Ly) (hLz : 2 ≤ Lz)
    {x y z a b c : Int} (hs : inC1 Lx Ly Lz x y z) (ht : inC3 Lx Ly Lz a b c)
    (hm : [x - 1, y, z] ∈ vertexKeys Lx Ly Lz a b c) :
    [a, b, c] = [x, y, z] ∨ c.toNat < 2 * Lz + 2 * Ly + x.toNat := by
  simp only [inC1, inC3, mem_range2] at hs ht
  have p1 := predW_spec a (2 * (Lx : Int)); have p2 := predW_spec b (2 * (Ly : Int)); have p3 := predW_spec c (2 * (Lz : Int))
  have s1 := succW_spec a (2 * (Lx : Int)); have s2 := succW_spec b (2 * (Ly : Int)); have s3 := succW_spec c (2 * (Lz : Int))
  simp only [vertexKeys, List.mem_cons, List.cons.injEq, List.not_mem_nil, and_true, or_false] at hm
  simp only [List.cons.injEq, and_true]
  omega

theorem tri_C2_C1 {Lx Ly Lz : Nat} (hLx : 2 ≤ Lx) (hLy : 2 ≤ Ly) (hLz : 2 ≤ Lz)
    {x y z a b c : Int} (hs : inC2 Lx Ly Lz x y z) (ht : inC1 Lx Ly Lz a b c)
    (hm : [x, y - 1, z] ∈ vertexKeys Lx Ly Lz a b c) :
    [a, b, c] = [x, y, z] ∨ 2 * Lz + 2 * Ly + a.toNat < 2 * Lz + y.toNat := by
  simp only [inC2, inC1, mem_range2] at hs ht
  have p1 := predW_spec a (2 * (Lx : Int)); have p2 := predW_spec b (2 * (Ly : Int)); have p3 := predW_spec c (2 * (Lz : Int))
  have s1 := succW_spec a (2 * (Lx : Int)); have s2 := succW_spec b (2 * (Ly : Int)); have s3 := succW_spec c (2 * (Lz : Int))
  simp only [vertexKeys, List.mem_cons, List.cons.injEq, List.not_mem_nil, and_true, or_false] at hm
  simp only [List.cons.injEq, and_true]
  omega

theorem tri_C2_C2 {Lx Ly Lz : Nat} (hLx : 2 ≤ Lx) (hLy : 2 ≤ Ly) (hLz : 2 ≤ Lz)
    {x y z a b c : Int} (hs : inC2 Lx Ly Lz x y z) (ht : inC2 Lx Ly Lz a b c)
    (hm : [x, y - 1, z] ∈ vertexKeys Lx Ly Lz a b c) :
    [a, b, c] = [x, y, z] ∨ 2 * Lz + b.toNat < 2 * Lz + y.toNat := by
  simp only [inC2, inC2, mem_range2] at hs ht
  have p1 := predW_spec a (2 * (Lx : Int)); have p2 := predW_spec b (2 * (Ly : Int)); have p3 := predW_spec c (2 * (Lz : Int))
  have s1 := succW_spec a (2 * (Lx : Int)); have s2 := succW_spec b (2 * (Ly : Int)); have s3 := succW_spec c (2 * (Lz : Int))
  simp only [vertexKeys, List.mem_cons, List.cons.injEq, List.not_mem_nil, and_true, or_false] at hm
  simp only [List.cons.injEq, and_true]
  omega

theorem tri_C2_C3 {Lx Ly Lz : Nat} (hLx : 2 ≤ Lx) (hLy : 2 ≤ Ly) (hLz : 2 ≤ Lz)
    {x y z a b c : Int} (hs : inC2 Lx Ly Lz x y z) (ht : inC3 Lx Ly Lz a b c)
    (hm : [x, y - 1, z] ∈ vertexKeys Lx Ly Lz a b c) :
    [a, b, c] = [x, y, z] ∨ c.toNat < 2 * Lz + y.toNat := by
  simp only [inC2, inC3, mem_range2] at hs ht
  have p1 := predW_spec a (2 * (Lx : Int)); have p2 := predW_spec b (2 * (Ly : Int)); have p3 := predW_spec c (2 * (Lz : Int))
  have s1 := succW_spec a (2 * (Lx : Int)); have s2 := succW_spec b (2 * (Ly : Int)); have s3 := succW_spec c (2 * (Lz : Int))
  simp only [vertexKeys, List.mem_cons, List.cons.injEq, List.not_mem_nil, and_true, or_false] at hm
  simp only [List.cons.injEq, and_true]
  omega

theorem tri_C3_C1 {Lx Ly Lz : Nat} (hLx : 2 ≤ Lx) (hLy : 2 ≤ Ly) (hLz : 2 ≤ Lz)
    {x y z a b c : Int} (hs : inC3 Lx Ly Lz x y z) (ht : inC1 Lx Ly Lz a b c)
    (hm : [x, y, z - 1] ∈ vertexKeys Lx Ly Lz a b c) :
    [a, b, c] = [x, y, z] ∨ 2 * Lz + 2 * Ly + a.toNat < z.toNat := by
  simp only [inC3, inC1, mem_range2] at hs ht
  have p1 := predW_spec a (2 * (Lx : Int)); have p2 := predW_spec b (2 * (Ly : Int)); have p3 := predW_spec c (2 * (Lz : Int))
  have s1 := succW_spec a (2 * (Lx : Int)); have s2 := succW_spec b (2 * (Ly : Int)); have s3 := succW_spec c (2 * (Lz : Int))
  simp only [vertexKeys, List.mem_cons, List.cons.injEq, List.not_mem_nil, and_true, or_false] at hm
  simp only [List.cons.injEq, and_true]
  omega

theorem tri_C3_C2 {Lx Ly Lz : Nat} (hLx : 2 ≤ Lx) (hLy : 2 ≤ Ly) (hLz : 2 ≤ Lz)
    {x y z a b c : Int} (hs : inC3 Lx Ly Lz x y z) (ht : inC2 Lx Ly Lz a b c)
    (hm : [x, y, z - 1] ∈ vertexKeys Lx Ly Lz a b c) :
    [a, b, c] = [x, y, z] ∨ 2 * Lz + b.toNat < z.toNat := by
  simp only [inC3, inC2, mem_range2] at hs ht
  have p1 := predW_spec a (2 * (Lx : Int)); have p2 := predW_spec b (2 * (Ly : Int)); have p3 := predW_spec c (2 * (Lz : Int))
  have s1 := succW_spec a (2 * (Lx : Int)); have s2 := succW_spec b (2 * (Ly : Int)); have s3 := succW_spec c (2 * (Lz : Int))
  simp only [vertexKeys, List.mem_cons, List.cons.injEq, List.not_mem_nil, and_true, or_false] at hm
  simp only [List.cons.injEq, and_true]
  omega

theorem tri_C3_C3 {Lx Ly Lz : Nat} (hLx : 2 ≤ Lx) (hLy : 2 ≤ Ly) (hLz : 2 ≤ Lz)
    {x y z a b c : Int} (hs : inC3 Lx Ly Lz x y z) (ht : inC3 Lx Ly Lz a b c)
    (hm : [x, y, z - 1] ∈ vertexKeys Lx Ly Lz a b c) :
    [a, b, c] = [x, y, z] ∨ c.toNat < z.toNat := by
  simp only [inC3, inC3, mem_range2] at hs ht
  have p1 := predW_spec a (2 * (Lx : Int)); have p2 := predW_spec b (2 * (Ly : Int)); have p3 := predW_spec c (2 * (Lz : Int))
  have s1 := succW_spec a (2 * (Lx : Int)); have s2 := succW_spec b (2 * (Ly : Int)); have s3 := succW_spec c (2 * (Lz : Int))
  simp only [vertexKeys, List.mem_cons, List.cons.injEq, List.not_mem_nil, and_true, or_false] at hm
  simp only [List.cons.injEq, and_true]
  omega

theorem tri_C4_C4 {Lx Ly Lz : Nat} (hLx : 2 ≤ Lx) (hLy : 2 ≤ Ly) (hLz : 2 ≤ Lz)
    {x y z a b c : Int} (hs : inC4 Lx Ly Lz x y z) (ht : inC4 Lx Ly Lz a b c)
    (hm : [x, y, z + 1] ∈ faceXZKeys Lx Ly Lz a b c) :
    [a, b, c] = [x, y, z] ∨ 2 * Lx + 2 * Ly + (2 * (Lz : Int) - c).toNat < 2 * Lx + 2 * Ly + (2 * (Lz : Int) - z).toNat := by
  simp only [inC4, inC4, mem_range2] at hs ht
  have p1 := predW_spec a (2 * (Lx : Int)); have p2 := predW_spec b (2 * (Ly : Int)); have p3 := predW_spec c (2 * (Lz : Int))
  have s1 := succW_spec a (2 * (Lx : Int)); have s2 := succW_spec b (2 * (Ly : Int)); have s3 := succW_spec c (2 * (Lz : Int))
  simp only [faceXZKeys, List.mem_cons, List.cons.injEq, List.not_mem_nil, and_true, or_false] at hm
  simp only [List.cons.injEq, and_true]
  omega

theorem tri_C4_C5 {Lx Ly Lz : Nat} (hLx : 2 ≤ Lx) (hLy : 2 ≤ Ly) (hLz : 2 ≤ Lz)
    {x y z a b c : Int} (hs : inC4 Lx Ly Lz x y z) (ht : inC5 Lx Ly Lz a b c)
    (hm : [x, y, z + 1] ∈ faceYZKeys Lx Ly Lz a b c) :
    [a, b, c] = [x, y, z] ∨ 2 * Lx + 2 * Ly + (2 * (Lz : Int) - c).toNat < 2 * Lx + 2 * Ly + (2 * (Lz : Int) - z).toNat := by
  simp only [inC4, inC5, mem_range2] at hs ht
  have p1 := predW_spec a (2 * (Lx : Int)); have p2 := predW_spec b (2 * (Ly : Int)); have p3 := predW_spec c (2 * (Lz : Int))
  have s1 := succW_spec a (2 * (Lx : Int)); have s2 := succW_spec b (2 * (Ly : Int)); have s3 := succW_spec c (2 * (Lz : Int))
  simp only [faceYZKeys, List.mem_cons, List.cons.injEq, List.not_mem_nil, and_true, or_false] at hm
  simp only [List.cons.injEq, and_true]
  omega

theorem tri_C4_C6 {Lx Ly Lz : Nat} (hLx : 2 ≤ Lx) (hLy : 2 ≤ Ly) (hLz : 2 ≤ Lz)
    {x y z a b c : Int} (hs : inC4 Lx Ly Lz x y z) (ht : inC6 Lx Ly Lz a b c)
    (hm : [x, y, z + 1] ∈ faceYZKeys Lx Ly Lz a b c) :
    [a, b, c] = [x, y, z] ∨ (2 * (Ly : Int) - b).toNat < 2 * Lx + 2 * Ly + (2 * (Lz : Int) - z).toNat := by
  simp only [inC4, inC6, mem_range2] at hs ht
  have p1 := predW_spec a (2 * (Lx : Int)); have p2 := predW_spec b (2 * (Ly : Int)); have p3 := predW_spec c (2 * (Lz : Int))
  have s1 := succW_spec a (2 * (Lx : Int)); have s2 := succW_spec b (2 * (Ly : Int)); have s3 := succW_spec c (2 * (Lz : Int))
  simp only [faceYZKeys, List.mem_cons, List.cons.injEq, List.not_mem_nil, and_true, or_false] at hm
  simp only [List.cons.injEq, and_true]
  omega

theorem tri_C4_C7 {Lx Ly Lz : Nat} (hLx : 2 ≤ Lx) (hLy : 2 ≤ Ly) (hLz : 2 ≤ Lz)
    {x y z a b c : Int} (hs : inC4 Lx Ly Lz x y z) (ht : inC7 Lx Ly Lz a b c)
    (hm : [x, y, z + 1] ∈ faceXZKeys Lx Ly Lz a b c) :
    [a, b, c] = [x, y, z] ∨ 2 * Ly + (2 * (Lx : Int) - a).toNat < 2 * Lx + 2 * Ly + (2 * (Lz : Int) - z).toNat := by
  simp only [inC4, inC7, mem_range2] at hs ht
  have p1 := predW_spec a (2 * (Lx : Int)); have p2 := predW_spec b (2 * (Ly : Int)); have p3 := predW_spec c (2 * (Lz : Int))
  have s1 := succW_spec a (2 * (Lx : Int)); have s2 := succW_spec b (2 * (Ly : Int)); have s3 := succW_spec c (2 * (Lz : Int))
  simp only [faceXZKeys, List.mem_cons, List.cons.injEq, List.not_mem_nil, and_true, or_false] at hm
  simp only [List.cons.injEq, and_true]
  omega

theorem tri_C4_C8 {Lx Ly Lz : Nat} (hLx : 2 ≤ Lx) (hLy : 2 ≤ Ly) (hLz : 2 ≤ Lz)
    {x y z a b c : Int} (hs : inC4 Lx Ly Lz x y z) (ht : inC8 Lx Ly Lz a b c)
    (hm : [x, y, z + 1] ∈ faceXYKeys Lx Ly Lz a b c) :
    [a, b, c] = [x, y, z] ∨ 2 * Lx + 2 * Ly + 2 * Lz + (2 * (Ly : Int) - b).toNat < 2 * Lx + 2 * Ly + (2 * (Lz : Int) - z).toNat := by
  simp only [inC4, inC8, mem_range2] at hs ht
  have p1 := predW_spec a (2 * (Lx : Int)); have p2 := predW_spec b (2 * (Ly : Int)); have p3 := predW_spec c (2 * (Lz : Int))
  have s1 := succW_spec a (2 * (Lx : Int)); have s2 := succW_spec b (2 * (Ly : Int)); have s3 := succW_spec c (2 * (Lz : Int))
  simp only [faceXYKeys, List.mem_cons, List.cons.injEq, List.not_mem_nil, and_true, or_false] at hm
  simp only [List.cons.injEq, and_true]
  omega

theorem tri_C4_C9 {Lx Ly Lz : Nat} (hLx : 2 ≤ Lx) (hLy : 2 ≤ Ly) (hLz : 2 ≤ Lz)
    {x y z a b c : Int} (hs : inC4 Lx Ly Lz x y z) (ht : inC9 Lx Ly Lz a b c)
    (hm : [x, y, z + 1] ∈ faceXYKeys Lx Ly Lz a b c) :
    [a, b, c] = [x, y, z] ∨ 2 * Lx + 2 * Ly + 2 * Lz + 2 * Ly + (2 * (Lx : Int) - a).toNat < 2 * Lx + 2 * Ly + (2 * (Lz : Int) - z).toNat := by
  simp only [inC4, inC9, mem_range2] at hs ht
  have p1 := predW_spec a (2 * (Lx : Int)); have p2 := predW_spec b (2 * (Ly : Int)); have p3 := predW_spec c (2 * (Lz : Int))
  have s1 := succW_spec a (2 * (Lx : Int)); have s2 := succW_spec b (2 * (Ly : Int)); have s3 := succW_spec c (2 * (Lz : Int))
  simp only [faceXYKeys, List.mem_cons, List.cons.injEq, List.not_mem_nil, and_true, or_false] at hm
  simp only [List.cons.injEq, and_true]
  omega

theorem tri_C5_C4 {Lx Ly Lz : Nat} (hLx : 2 ≤ Lx) (hLy : 2 ≤ Ly) (hLz : 2 ≤ Lz)
    {x y z a b c : Int} (hs : inC5 Lx Ly Lz x y z) (ht : inC4 Lx Ly Lz a b c)
    (hm : [x, y, z + 1] ∈ faceXZKeys Lx Ly Lz a b c) :
    [a, b, c] = [x, y, z] ∨ 2 * Lx + 2 * Ly + (2 * (Lz : Int) - c).toNat < 2 * Lx + 2 * Ly + (2 * (Lz : Int) - z).toNat := by
  simp only [inC5, inC4, mem_range2] at hs ht
  have p1 := predW_spec a (2 * (Lx : Int)); have p2 := predW_spec b (2 * (Ly : Int)); have p3 := predW_spec c (2 * (Lz : Int))
  have s1 := succW_spec a (2 * (Lx : Int)); have s2 := succW_spec b (2 * (Ly : Int)); have s3 := succW_spec c (2 * (Lz : Int))
  simp only [faceXZKeys, List.mem_cons, List.cons.injEq, List.not_mem_nil, and_true, or_false] at hm
  simp only [List.cons.injEq, and_true]
  omega

theorem tri_C5_C5 {Lx Ly Lz : Nat} (hLx : 2 ≤ Lx) (hLy : 2 ≤ Ly) (hLz : 2 ≤ Lz)
    {x y z a b c : Int} (hs : inC5 Lx Ly Lz x y z) (ht : inC5 Lx Ly Lz a b c)
    (hm : [x, y, z + 1] ∈ faceYZKeys Lx Ly Lz a b c) :
    [a, b, c] = [x, y, z] ∨ 2 * Lx + 2 * Ly + (2 * (Lz : Int) - c).toNat < 2 * Lx + 2 * Ly + (2 * (Lz : Int) - z).toNat := by
  simp only [inC5, inC5, mem_range2] at hs ht
  have p1 := predW_spec a (2 * (Lx : Int)); have p2 := predW_spec b (2 * (Ly : Int)); have p3 := predW_spec c (2 * (Lz : Int))
  have s1 := succW_spec a (2 * (Lx : Int)); have s2 := succW_spec b (2 * (Ly : Int)); have s3 := succW_spec c (2 * (Lz : Int))
  simp only [faceYZKeys, List.mem_cons, List.cons.injEq, List.not_mem_nil, and_true, or_false] at hm
  simp only [List.cons.injEq, and_true]
  omega

theorem tri_C5_C6 {Lx Ly Lz : Nat} (hLx : 2 ≤ Lx) (hLy : 2 ≤ Ly) (hLz : 2 ≤ Lz)
    {x y z a b c : Int} (hs : inC5 Lx Ly Lz x y z) (ht : inC6 Lx Ly Lz a b c)
    (hm : [x, y, z + 1] ∈ faceYZKeys Lx Ly Lz a b c) :
    [a, b, c] = [x, y, z] ∨ (2 * (Ly : Int) - b).toNat < 2 * Lx + 2 * Ly + (2 * (Lz : Int) - z).toNat := by
  simp only [inC5, inC6, mem_range2] at hs ht
  have p1 := predW_spec a (2 * (Lx : Int)); have p2 := predW_spec b (2 * (Ly : Int)); have p3 := predW_spec c (2 * (Lz : Int))
  have s1 := succW_spec a (2 * (Lx : Int)); have s2 := succW_spec b (2 * (Ly : Int)); have s3 := succW_spec c (2 * (Lz : Int))
  simp only [faceYZKeys, List.mem_cons, List.cons.injEq, List.not_mem_nil, and_true, or_false] at hm
  simp only [List.cons.injEq, and_true]
  omega

theorem tri_C5_C7 {Lx Ly Lz : Nat} (hLx : 2 ≤ Lx) (hLy : 2 ≤ Ly) (hLz : 2 ≤ Lz)
    {x y z a b c : Int} (hs : inC5 Lx Ly Lz x y z) (ht : inC7 Lx Ly Lz a b c)
    (hm : [x, y, z + 1] ∈ faceXZKeys Lx Ly Lz a b c) :
    [a, b, c] = [x, y, z] ∨ 2 * Ly + (2 * (Lx : Int) - a).toNat < 2 * Lx + 2 * Ly + (2 * (Lz : Int) - z).toNat := by
  simp only [inC5, inC7, mem_range2] at hs ht
  have p1 := predW_spec a (2 * (Lx : Int)); have p2 := predW_spec b (2 * (Ly : Int)); have p3 := predW_spec c (2 * (Lz : Int))
  have s1 := succW_spec a (2 * (Lx : Int)); have s2 := succW_spec b (2 * (Ly : Int)); have s3 := succW_spec c (2 * (Lz : Int))
  simp only [faceXZKeys, List.mem_cons, List.cons.injEq, List.not_mem_nil, and_true, or_false] at hm
  simp only [List.cons.injEq, and_true]
  omega

theorem tri_C5_C8 {Lx Ly Lz : Nat} (hLx : 2 ≤ Lx) (hLy : 2 ≤ Ly) (hLz : 2 ≤ Lz)
    {x y z a b c : Int} (hs : inC5 Lx Ly Lz x y z) (ht : inC8 Lx Ly Lz a b c)
    (hm : [x, y, z + 1] ∈ faceXYKeys Lx Ly Lz a b c) :
    [a, b, c] = [x, y, z] ∨ 2 * Lx + 2 * Ly + 2 * Lz + (2 * (Ly : Int) - b).toNat < 2 * Lx + 2 * Ly + (2 * (Lz : Int) - z).toNat := by
  simp only [inC5, inC8, mem_range2] at hs ht
  have p1 := predW_spec a (2 * (Lx : Int)); have p2 := predW_spec b (2 * (Ly : Int)); have p3 := predW_spec c (2 * (Lz : Int))
  have s1 := succW_spec a (2 * (Lx : Int)); have s2 := succW_spec b (2 * (Ly : Int)); have s3 := succW_spec c (2 * (Lz : Int))
  simp only [faceXYKeys, List.mem_cons, List.cons.injEq, List.not_mem_nil, and_true, or_false] at hm
  simp only [List.cons.injEq, and_true]
  omega

theorem tri_C5_C9 {Lx Ly Lz : Nat} (hLx : 2 ≤ Lx) (hLy : 2 ≤ Ly) (hLz : 2 ≤ Lz)
    {x y z a b c : Int} (hs : inC5 Lx Ly Lz x y z) (ht : inC9 Lx Ly Lz a b c)
    (hm : [x, y, z + 1] ∈ faceXYKeys Lx Ly Lz a b c) :
    [a, b, c] = [x, y, z] ∨ 2 * Lx + 2 * Ly + 2 * Lz + 2 * Ly + (2 * (Lx : Int) - a).toNat < 2 * Lx + 2 * Ly + (2 * (Lz : Int) - z).toNat := by
  simp only [inC5, inC9, mem_range2] at hs ht
  have p1 := predW_spec a (2 * (Lx : Int)); have p2 := predW_spec b (2 * (Ly : Int)); have p3 := predW_spec c (2 * (Lz : Int))
  have s1 := succW_spec a (2 * (Lx : Int)); have s2 := succW_spec b (2 * (Ly : Int)); have s3 := succW_spec c (2 * (Lz : Int))
  simp only [faceXYKeys, List.mem_cons, List.cons.injEq, List.not_mem_nil, and_true, or_false] at hm
  simp only [List.cons.injEq, and_true]
  omega

theorem tri_C6_C4 {Lx Ly Lz : Nat} (hLx : 2 ≤ Lx) (hLy : 2 ≤ Ly) (hLz : 2 ≤ Lz)
    {x y z a b c : Int} (hs : inC6 Lx Ly Lz x y z) (ht : inC4 Lx Ly Lz a b c)
    (hm : [x, y + 1, z] ∈ faceXZKeys Lx Ly Lz a b c) :
    [a, b, c] = [x, y, z] ∨ 2 * Lx + 2 * Ly + (2 * (Lz : Int) - c).toNat < (2 * (Ly : Int) - y).toNat := by
  simp only [inC6, inC4, mem_range2] at hs ht
  have p1 := predW_spec a (2 * (Lx : Int)); have p2 := predW_spec b (2 * (Ly : Int)); have p3 := predW_spec c (2 * (Lz : Int))
  have s1 := succW_spec a (2 * (Lx : Int)); have s2 := succW_spec b (2 * (Ly : Int)); have s3 := succW_spec c (2 * (Lz : Int))
  simp only [faceXZKeys, List.mem_cons, List.cons.injEq, List.not_mem_nil, and_true, or_false] at hm
  simp only [List.cons.injEq, and_true]
  omega

theorem tri_C6_C5 {Lx Ly Lz : Nat} (hLx : 2 ≤ Lx) (hLy : 2 ≤ Ly) (hLz : 2 ≤ Lz)
    {x y z a b c : Int} (hs : inC6 Lx Ly Lz x y z) (ht : inC5 Lx Ly Lz a b c)
    (hm : [x, y + 1, z] ∈ faceYZKeys Lx Ly Lz a b c) :
    [a, b, c] = [x, y, z] ∨ 2 * Lx + 2 * Ly + (2 * (Lz : Int) - c).toNat < (2 * (Ly : Int) - y).toNat := by
  simp only [inC6, inC5, mem_range2] at hs ht
  have p1 := predW_spec a (2 * (Lx : Int)); have p2 := predW_spec b (2 * (Ly : Int)); have p3 := predW_spec c (2 * (Lz : Int))
  have s1 := succW_spec a (2 * (Lx : Int)); have s2 := succW_spec b (2 * (Ly : Int)); have s3 := succW_spec c (2 * (Lz : Int))
  simp only [faceYZKeys, List.mem_cons, List.cons.injEq, List.not_mem_nil, and_true, or_false] at hm
  simp only [List.cons.injEq, and_true]
  omega

theorem tri_C6_C6 {Lx Ly Lz : Nat} (hLx : 2 ≤ Lx) (hLy : 2 ≤ Ly) (hLz : 2 ≤ Lz)
    {x y z a b c : Int} (hs : inC6 Lx Ly Lz x y z) (ht : inC6 Lx Ly Lz a b c)
    (hm : [x, y + 1, z] ∈ faceYZKeys Lx Ly Lz a b c) :
    [a, b, c] = [x, y, z] ∨ (2 * (Ly : Int) - b).toNat < (2 * (Ly : Int) - y).toNat := by
  simp only [inC6, inC6, mem_range2] at hs ht
  have p1 := predW_spec a (2 * (Lx : Int)); have p2 := predW_spec b (2 * (Ly : Int)); have p3 := predW_spec c (2 * (Lz : Int))
  have s1 := succW_spec a (2 * (Lx : Int)); have s2 := succW_spec b (2 * (Ly : Int)); have s3 := succW_spec c (2 * (Lz : Int))
  simp only [faceYZKeys, List.mem_cons, List.cons.injEq, List.not_mem_nil, and_true, or_false] at hm
  simp only [List.cons.injEq, and_true]
  omega

theorem tri_C6_C7 {Lx Ly Lz : Nat} (hLx : 2 ≤ Lx) (hLy : 2 ≤ Ly) (hLz : 2 ≤ Lz)
    {x y z a b c : Int} (hs : inC6 Lx Ly Lz x y z) (ht : inC7 Lx Ly Lz a b c)
    (hm : [x, y + 1, z] ∈ faceXZKeys Lx Ly Lz a b c) :
    [a, b, c] = [x, y, z] ∨ 2 * Ly + (2 * (Lx : Int) - a).toNat < (2 * (Ly : Int) - y).toNat := by
  simp only [inC6, inC7, mem_range2] at hs ht
  have p1 := predW_spec a (2 * (Lx : Int)); have p2 := predW_spec b (2 * (Ly : Int)); have p3 := predW_spec c (2 * (Lz : Int))
  have s1 := succW_spec a (2 * (Lx : Int)); have s2 := succW_spec b (2 * (Ly : Int)); have s3 := succW_spec c (2 * (Lz : Int))
  simp only [faceXZKeys, List.mem_cons, List.cons.injEq, List.not_mem_nil, and_true, or_false] at hm
  simp only [List.cons.injEq, and_true]
  omega

theorem tri_C6_C8 {Lx Ly Lz : Nat} (hLx : 2 ≤ Lx) (hLy : 2 ≤ Ly) (hLz : 2 ≤ Lz)
    {x y z a b c : Int} (hs : inC6 Lx Ly Lz x y z) (ht : inC8 Lx Ly Lz a b c)
    (hm : [x, y + 1, z] ∈ faceXYKeys Lx Ly Lz a b c) :
    [a, b, c] = [x, y, z] ∨ 2 * Lx + 2 * Ly + 2 * Lz + (2 * (Ly : Int) - b).toNat < (2 * (Ly : Int) - y).toNat := by
  simp only [inC6, inC8, mem_range2] at hs ht
  have p1 := predW_spec a (2 * (Lx : Int)); have p2 := predW_spec b (2 * (Ly : Int)); have p3 := predW_spec c (2 * (Lz : Int))
  have s1 := succW_spec a (2 * (Lx : Int)); have s2 := succW_spec b (2 * (Ly : Int)); have s3 := succW_spec c (2 * (Lz : Int))
  simp only [faceXYKeys, List.mem_cons, List.cons.injEq, List.not_mem_nil, and_true, or_false] at hm
  simp only [List.cons.injEq, and_true]
  omega

theorem tri_C6_C9 {Lx Ly Lz : Nat} (hLx : 2 ≤ Lx) (hLy : 2 ≤ Ly) (hLz : 2 ≤ Lz)
    {x y z a b c : Int} (hs : inC6 Lx Ly Lz x y z) (ht : inC9 Lx Ly Lz a b c)
    (hm : [x, y + 1, z] ∈ faceXYKeys Lx Ly Lz a b c) :
    [a, b, c] = [x, y, z] ∨ 2 * Lx + 2 * Ly + 2 * Lz + 2 * Ly + (2 * (Lx : Int) - a).toNat < (2 * (Ly : Int) - y).toNat := by
  simp only [inC6, inC9, mem_range2] at hs ht
  have p1 := predW_spec a (2 * (Lx : Int)); have p2 := predW_spec b (2 * (Ly : Int)); have p3 := predW_spec c (2 * (Lz : Int))
  have s1 := succW_spec a (2 * (Lx : Int)); have s2 := succW_spec b (2 * (Ly : Int)); have s3 := succW_spec c (2 * (Lz : Int))
  simp only [faceXYKeys, List.mem_cons, List.cons.injEq, List.not_mem_nil, and_true, or_false] at hm
  simp only [List.cons.injEq, and_true]
  omega

theorem tri_C7_C4 {Lx Ly Lz : Nat} (hLx : 2 ≤ Lx) (hLy : 2 ≤ Ly) (hLz : 2 ≤ Lz)
    {x y z a b c : Int} (hs : inC7 Lx Ly Lz x y z) (ht : inC4 Lx Ly Lz a b c)
    (hm : [x + 1, y, z] ∈ faceXZKeys Lx Ly Lz a b c) :
    [a, b, c] = [x, y, z] ∨ 2 * Lx + 2 * Ly + (2 * (Lz : Int) - c).toNat < 2 * Ly + (2 * (Lx : Int) - x).toNat := by
  simp only [inC7, inC4, mem_range2] at hs ht
  have p1 := predW_spec a (2 * (Lx : Int)); have p2 := predW_spec b (2 * (Ly : Int)); have p3 := predW_spec c (2 * (Lz : Int))
  have s1 := succW_spec a (2 * (Lx : Int)); have s2 := succW_spec b (2 * (Ly : Int)); have s3 := succW_spec c (2 * (Lz : Int))
  simp only [faceXZKeys, List.mem_cons, List.cons.injEq, List.not_mem_nil, and_true, or_false] at hm
  simp only [List.cons.injEq, and_true]
  omega

theorem tri_C7_C5 {Lx Ly Lz : Nat} (hLx : 2 ≤ Lx) (hLy : 2 ≤ Ly) (hLz : 2 ≤ Lz)
    {x y z a b c : Int} (hs : inC7 Lx Ly Lz x y z) (ht : inC5 Lx Ly Lz a b c)
    (hm : [x + 1, y, z] ∈ faceYZKeys Lx Ly Lz a b c) :
    [a, b, c] = [x, y, z] ∨ 2 * Lx + 2 * Ly + (2 * (Lz : Int) - c).toNat < 2 * Ly + (2 * (Lx : Int) - x).toNat := by
  simp only [inC7, inC5, mem_range2] at hs ht
  have p1 := predW_spec a (2 * (Lx : Int)); have p2 := predW_spec b (2 * (Ly : Int)); have p3 := predW_spec c (2 * (Lz : Int))
  have s1 := succW_spec a (2 * (Lx : Int)); have s2 := succW_spec b (2 * (Ly : Int)); have s3 := succW_spec c (2 * (Lz : Int))
  simp only [faceYZKeys, List.mem_cons, List.cons.injEq, List.not_mem_nil, and_true, or_false] at hm
  simp only [List.cons.injEq, and_true]
  omega

theorem tri_C7_C6 {Lx Ly Lz : Nat} (hLx : 2 ≤ Lx) (hLy : 2 ≤ Ly) (hLz : 2 ≤ Lz)
    {x y z a b c : Int} (hs : inC7 Lx Ly Lz x y z) (ht : inC6 Lx Ly Lz a b c)
    (hm : [x + 1, y, z] ∈ faceYZKeys Lx Ly Lz a b c) :
    [a, b, c] = [x, y, z] ∨ (2 * (Ly : Int) - b).toNat < 2 * Ly + (2 * (Lx : Int) - x).toNat := by
  simp only [inC7, inC6, mem_range2] at hs ht
  have p1 := predW_spec a (2 * (Lx : Int)); have p2 := predW_spec b (2 * (Ly : Int)); have p3 := predW_spec c (2 * (Lz : Int))
  have s1 := succW_spec a (2 * (Lx : Int)); have s2 := succW_spec b (2 * (Ly : Int)); have s3 := succW_spec c (2 * (Lz : Int))
  simp only [faceYZKeys, List.mem_cons, List.cons.injEq, List.not_mem_nil, and_true, or_false] at hm
  simp only [List.cons.injEq, and_true]
  omega

theorem tri_C7_C7 {Lx Ly Lz : Nat} (hLx : 2 ≤ Lx) (hLy : 2 ≤ Ly) (hLz : 2 ≤ Lz)
    {x y z a b c : Int} (hs : inC7 Lx Ly Lz x y z) (ht : inC7 Lx Ly Lz a b c)
    (hm : [x + 1, y, z] ∈ faceXZKeys Lx Ly Lz a b c) :
    [a, b, c] = [x, y, z] ∨ 2 * Ly + (2 * (Lx : Int) - a).toNat < 2 * Ly + (2 * (Lx : Int) - x).toNat := by
  simp only [inC7, inC7, mem_range2] at hs ht
  have p1 := predW_spec a (2 * (Lx : Int)); have p2 := predW_spec b (2 * (Ly : Int)); have p3 := predW_spec c (2 * (Lz : Int))
  have s1 := succW_spec a (2 * (Lx : Int)); have s2 := succW_spec b (2 * (Ly : Int)); have s3 := succW_spec c (2 * (Lz : Int))
  simp only [faceXZKeys, List.mem_cons, List.cons.injEq, List.not_mem_nil, and_true, or_false] at hm
  simp only [List.cons.injEq, and_true]
  omega

theorem tri_C7_C8 {Lx Ly Lz : Nat} (hLx : 2 ≤ Lx) (hLy : 2 ≤ Ly) (hLz : 2 ≤ Lz)
    {x y z a b c : Int} (hs : inC7 Lx Ly Lz x y z) (ht : inC8 Lx Ly Lz a b c)
    (hm : [x + 1, y, z] ∈ faceXYKeys Lx Ly Lz a b c) :
    [a, b, c] = [x, y, z] ∨ 2 * Lx + 2 * Ly + 2 * Lz + (2 * (Ly : Int) - b).toNat < 2 * Ly + (2 * (Lx : Int) - x).toNat := by
  simp only [inC7, inC8, mem_range2] at hs ht
  have p1 := predW_spec a (2 * (Lx : Int)); have p2 := predW_spec b (2 * (Ly : Int)); have p3 := predW_spec c (2 * (Lz : Int))
  have s1 := succW_spec a (2 * (Lx : Int)); have s2 := succW_spec b (2 * (Ly : Int)); have s3 := succW_spec c (2 * (Lz : Int))
  simp only [faceXYKeys, List.mem_cons, List.cons.injEq, List.not_mem_nil, and_true, or_false] at hm
  simp only [List.cons.injEq, and_true]
  omega

theorem tri_C7_C9 {Lx Ly Lz : Nat} (hLx : 2 ≤ Lx) (hLy : 2 ≤ Ly) (hLz : 2 ≤ Lz)
    {x y z a b c : Int} (hs : inC7 Lx Ly Lz x y z) (ht : inC9 Lx Ly Lz a b c)
    (hm : [x + 1, y, z] ∈ faceXYKeys Lx Ly Lz a b c) :
    [a, b, c] = [x, y, z] ∨ 2 * Lx + 2 * Ly + 2 * Lz + 2 * Ly + (2 * (Lx : Int) - a).toNat < 2 * Ly + (2 * (Lx : Int) - x).toNat := by
  simp only [inC7, inC9, mem_range2] at hs ht
  have p1 := predW_spec a (2 * (Lx : Int)); have p2 := predW_spec b (2 * (Ly : Int)); have p3 := predW_spec c (2 * (Lz : Int))
  have s1 := succW_spec a (2 * (Lx : Int)); have s2 := succW_spec b (2 * (Ly : Int)); have s3 := succW_spec c (2 * (Lz : Int))
  simp only [faceXYKeys, List.mem_cons, List.cons.injEq, List.not_mem_nil, and_true, or_false] at hm
  simp only [List.cons.injEq, and_true]
  omega

theorem tri_C8_C4 {Lx Ly Lz : Nat} (hLx : 2 ≤ Lx) (hLy : 2 ≤ Ly) (hLz : 2 ≤ Lz)
    {x y z a b c : Int} (hs : inC8 Lx Ly Lz x y z) (ht : inC4 Lx Ly Lz a b c)
    (hm : [x, y + 1, z] ∈ faceXZKeys Lx Ly Lz a b c) :
    [a, b, c] = [x, y, z] ∨ 2 * Lx + 2 * Ly + (2 * (Lz : Int) - c).toNat < 2 * Lx + 2 * Ly + 2 * Lz + (2 * (Ly : Int) - y).toNat := by
  simp only [inC8, inC4, mem_range2] at hs ht
  have p1 := predW_spec a (2 * (Lx : Int)); have p2 := predW_spec b (2 * (Ly : Int)); have p3 := predW_spec c (2 * (Lz : Int))
  have s1 := succW_spec a (2 * (Lx : Int)); have s2 := succW_spec b (2 * (Ly : Int)); have s3 := succW_spec c (2 * (Lz : Int))
  simp only [faceXZKeys, List.mem_cons, List.cons.injEq, List.not_mem_nil, and_true, or_false] at hm
  simp only [List.cons.injEq, and_true]
  omega

theorem tri_C8_C5 {Lx Ly Lz : Nat} (hLx : 2 ≤ Lx) (hLy : 2 ≤ Ly) (hLz : 2 ≤ Lz)
    {x y z a b c : Int} (hs : inC8 Lx Ly Lz x y z) (ht : inC5 Lx Ly Lz a b c)
    (hm : [x, y + 1, z] ∈ faceYZKeys Lx Ly Lz a b c) :
    [a, b, c] = [x, y, z] ∨ 2 * Lx + 2 * Ly + (2 * (Lz : Int) - c).toNat < 2 * Lx + 2 * Ly + 2 * Lz + (2 * (Ly : Int) - y).toNat := by
  simp only [inC8, inC5, mem_range2] at hs ht
  have p1 := predW_spec a (2 * (Lx : Int)); have p2 := predW_spec b (2 * (Ly : Int)); have p3 := predW_spec c (2 * (Lz : Int))
  have s1 := succW_spec a (2 * (Lx : Int)); have s2 := succW_spec b (2 * (Ly : Int)); have s3 := succW_spec c (2 * (Lz : Int))
  simp only [faceYZKeys, List.mem_cons, List.cons.injEq, List.not_mem_nil, and_true, or_false] at hm
  simp only [List.cons.injEq, and_true]
  omega

theorem tri_C8_C6 {Lx Ly Lz : Nat} (hLx : 2 ≤ Lx) (hLy : 2 ≤ Ly) (hLz : 2 ≤ Lz)
    {x y z a b c : Int} (hs : inC8 Lx Ly Lz x y z) (ht : inC6 Lx Ly Lz a b c)
    (hm : [x, y + 1, z] ∈ faceYZKeys Lx Ly Lz a b c) :
    [a, b, c] = [x, y, z] ∨ (2 * (Ly : Int) - b).toNat < 2 * Lx + 2 * Ly + 2 * Lz + (2 * (Ly : Int) - y).toNat := by
  simp only [inC8, inC6, mem_range2] at hs ht
  have p1 := predW_spec a (2 * (Lx : Int)); have p2 := predW_spec b (2 * (Ly : Int)); have p3 := predW_spec c (2 * (Lz : Int))
  have s1 := succW_spec a (2 * (Lx : Int)); have s2 := succW_spec b (2 * (Ly : Int)); have s3 := succW_spec c (2 * (Lz : Int))
  simp only [faceYZKeys, List.mem_cons, List.cons.injEq, List.not_mem_nil, and_true, or_false] at hm
  simp only [List.cons.injEq, and_true]
  omega

theorem tri_C8_C7 {Lx Ly Lz : Nat} (hLx : 2 ≤ Lx) (hLy : 2 ≤ Ly) (hLz : 2 ≤ Lz)
    {x y z a b c : Int} (hs : inC8 Lx Ly Lz x y z) (ht : inC7 Lx Ly Lz a b c)
    (hm : [x, y + 1, z] ∈ faceXZKeys Lx Ly Lz a b c) :
    [a, b, c] = [x, y, z] ∨ 2 * Ly + (2 * (Lx : Int) - a).toNat < 2 * Lx + 2 * Ly + 2 * Lz + (2 * (Ly : Int) - y).toNat := by
  simp only [inC8, inC7, mem_range2] at hs ht
  have p1 := predW_spec a (2 * (Lx : Int)); have p2 := predW_spec b (2 * (Ly : Int)); have p3 := predW_spec c (2 * (Lz : Int))
  have s1 := succW_spec a (2 * (Lx : Int)); have s2 := succW_spec b (2 * (Ly : Int)); have s3 := succW_spec c (2 * (Lz : Int))
  simp only [faceXZKeys, List.mem_cons, List.cons.injEq, List.not_mem_nil, and_true, or_false] at hm
  simp only [List.cons.injEq, and_true]
  omega

theorem tri_C8_C8 {Lx Ly Lz : Nat} (hLx : 2 ≤ Lx) (hLy : 2 ≤ Ly) (hLz : 2 ≤ Lz)
    {x y z a b c : Int} (hs : inC8 Lx Ly Lz x y z) (ht : inC8 Lx Ly Lz a b c)
    (hm : [x, y + 1, z] ∈ faceXYKeys Lx Ly Lz a b c) :
    [a, b, c] = [x, y, z] ∨ 2 * Lx + 2 * Ly + 2 * Lz + (2 * (Ly : Int) - b).toNat < 2 * Lx + 2 * Ly + 2 * Lz + (2 * (Ly : Int) - y).toNat := by
  simp only [inC8, inC8, mem_range2] at hs ht
  have p1 := predW_spec a (2 * (Lx : Int)); have p2 := predW_spec b (2 * (Ly : Int)); have p3 := predW_spec c (2 * (Lz : Int))
  have s1 := succW_spec a (2 * (Lx : Int)); have s2 := succW_spec b (2 * (Ly : Int)); have s3 := succW_spec c (2 * (Lz : Int))
  simp only [faceXYKeys, List.mem_cons, List.cons.injEq, List.not_mem_nil, and_true, or_false] at hm
  simp only [List.cons.injEq, and_true]
  omega

theorem tri_C8_C9 {Lx Ly Lz : Nat} (hLx : 2 ≤ Lx) (hLy : 2 ≤ Ly) (hLz : 2 ≤ Lz)
    {x y z a b c : Int} (hs : inC8 Lx Ly Lz x y z) (ht : inC9 Lx Ly Lz a b c)
    (hm : [x, y + 1, z] ∈ faceXYKeys Lx Ly Lz a b c) :
    [a, b, c] = [x, y, z] ∨ 2 * Lx + 2 * Ly + 2 * Lz + 2 * Ly + (2 * (Lx : Int) - a).toNat < 2 * Lx + 2 * Ly + 2 * Lz + (2 * (Ly : Int) - y).toNat := by
  simp only [inC8, inC9, mem_range2] at hs ht
  have p1 := predW_spec a (2 * (Lx : Int)); have p2 := predW_spec b (2 * (Ly : Int)); have p3 := predW_spec c (2 * (Lz : Int))
  have s1 := succW_spec a (2 * (Lx : Int)); have s2 := succW_spec b (2 * (Ly : Int)); have s3 := succW_spec c (2 * (Lz : Int))
  simp only [faceXYKeys, List.mem_cons, List.cons.injEq, List.not_mem_nil, and_true, or_false] at hm
  simp only [List.cons.injEq, and_true]
  omega

theorem tri_C9_C4 {Lx Ly Lz : Nat} (hLx : 2 ≤ Lx) (hLy : 2 ≤ Ly) (hLz : 2 ≤ Lz)
    {x y z a b c : Int} (hs : inC9 Lx Ly Lz x y z) (ht : inC4 Lx Ly Lz a b c)
    (hm : [x + 1, y, z] ∈ faceXZKeys Lx Ly Lz a b c) :
    [a, b, c] = [x, y, z] ∨ 2 * Lx + 2 * Ly + (2 * (Lz : Int) - c).toNat < 2 * Lx + 2 * Ly + 2 * Lz + 2 * Ly + (2 * (Lx : Int) - x).toNat := by
  simp only [inC9, inC4, mem_range2] at hs ht
  have p1 := predW_spec a (2 * (Lx : Int)); have p2 := predW_spec b (2 * (Ly : Int)); have p3 := predW_spec c (2 * (Lz : Int))
  have s1 := succW_spec a (2 * (Lx : Int)); have s2 := succW_spec b (2 * (Ly : Int)); have s3 := succW_spec c (2 * (Lz : Int))
  simp only [faceXZKeys, List.mem_cons, List.cons.injEq, List.not_mem_nil, and_true, or_false] at hm
  simp only [List.cons.injEq, and_true]
  omega

theorem tri_C9_C5 {Lx Ly Lz : Nat} (hLx : 2 ≤ Lx) (hLy : 2 ≤ Ly) (hLz : 2 ≤ Lz)
    {x y z a b c : Int} (hs : inC9 Lx Ly Lz x y z) (ht : inC5 Lx Ly Lz a b c)
    (hm : [x + 1, y, z] ∈ faceYZKeys Lx Ly Lz a b c) :
    [a, b, c] = [x, y, z] ∨ 2 * Lx + 2 * Ly + (2 * (Lz : Int) - c).toNat < 2 * Lx + 2 * Ly + 2 * Lz + 2 * Ly + (2 * (Lx : Int) - x).toNat := by
  simp only [inC9, inC5, mem_range2] at hs ht
  have p1 := predW_spec a (2 * (Lx : Int)); have p2 := predW_spec b (2 * (Ly : Int)); have p3 := predW_spec c (2 * (Lz : Int))
  have s1 := succW_spec a (2 * (Lx : Int)); have s2 := succW_spec b (2 * (Ly : Int)); have s3 := succW_spec c (2 * (Lz : Int))
  simp only [faceYZKeys, List.mem_cons, List.cons.injEq, List.not_mem_nil, and_true, or_false] at hm
  simp only [List.cons.injEq, and_true]
  omega

theorem tri_C9_C6 {Lx Ly Lz : Nat} (hLx : 2 ≤ Lx) (hLy : 2 ≤ Ly) (hLz : 2 ≤ Lz)
    {x y z a b c : Int} (hs : inC9 Lx Ly Lz x y z) (ht : inC6 Lx Ly Lz a b c)
    (hm : [x + 1, y, z] ∈ faceYZKeys Lx Ly Lz a b c) :
    [a, b, c] = [x, y, z] ∨ (2 * (Ly : Int) - b).toNat < 2 * Lx + 2 * Ly + 2 * Lz + 2 * Ly + (2 * (Lx : Int) - x).toNat := by
  simp only [inC9, inC6, mem_range2] at hs ht
  have p1 := predW_spec a (2 * (Lx : Int)); have p2 := predW_spec b (2 * (Ly : Int)); have p3 := predW_spec c (2 * (Lz : Int))
  have s1 := succW_spec a (2 * (Lx : Int)); have s2 := succW_spec b (2 * (Ly : Int)); have s3 := succW_spec c (2 * (Lz : Int))
  simp only [faceYZKeys, List.mem_cons, List.cons.injEq, List.not_mem_nil, and_true, or_false] at hm
  simp only [List.cons.injEq, and_true]
  omega

theorem tri_C9_C7 {Lx Ly Lz : Nat} (hLx : 2 ≤ Lx) (hLy : 2 ≤ Ly) (hLz : 2 ≤ Lz)
    {x y z a b c : Int} (hs : inC9 Lx Ly Lz x y z) (ht : inC7 Lx Ly Lz a b c)
    (hm : [x + 1, y, z] ∈ faceXZKeys Lx Ly Lz a b c) :
    [a, b, c] = [x, y, z] ∨ 2 * Ly + (2 * (Lx : Int) - a).toNat < 2 * Lx + 2 * Ly + 2 * Lz + 2 * Ly + (2 * (Lx : Int) - x).toNat := by
  simp only [inC9, inC7, mem_range2] at hs ht
  have p1 := predW_spec a (2 * (Lx : Int)); have p2 := predW_spec b (2 * (Ly : Int)); have p3 := predW_spec c (2 * (Lz : Int))
  have s1 := succW_spec a (2 * (Lx : Int)); have s2 := succW_spec b (2 * (Ly : Int)); have s3 := succW_spec c (2 * (Lz : Int))
  simp only [faceXZKeys, List.mem_cons, List.cons.injEq, List.not_mem_nil, and_true, or_false] at hm
  simp only [List.cons.injEq, and_true]
  omega

theorem tri_C9_C8 {Lx Ly Lz : Nat} (hLx : 2 ≤ Lx) (hLy : 2 ≤ Ly) (hLz : 2 ≤ Lz)
    {x y z a b c : Int} (hs : inC9 Lx Ly Lz x y z) (ht : inC8 Lx Ly Lz a b c)
    (hm : [x + 1, y, z] ∈ faceXYKeys Lx Ly Lz a b c) :
    [a, b, c] = [x, y, z] ∨ 2 * Lx + 2 * Ly + 2 * Lz + (2 * (Ly : Int) - b).toNat < 2 * Lx + 2 * Ly + 2 * Lz + 2 * Ly + (2 * (Lx : Int) - x).toNat := by
  simp only [inC9, inC8, mem_range2] at hs ht
  have p1 := predW_spec a (2 * (Lx : Int)); have p2 := predW_spec b (2 * (Ly : Int)); have p3 := predW_spec c (2 * (Lz : Int))
  have s1 := succW_spec a (2 * (Lx : Int)); have s2 := succW_spec b (2 * (Ly : Int)); have s3 := succW_spec c (2 * (Lz : Int))
  simp only [faceXYKeys, List.mem_cons, List.cons.injEq, List.not_mem_nil, and_true, or_false] at hm
  simp only [List.cons.injEq, and_true]
  omega

theorem tri_C9_C9 {Lx Ly Lz : Nat} (hLx : 2 ≤ Lx) (hLy : 2 ≤ Ly) (hLz : 2 ≤ Lz)
    {x y z a b c : Int} (hs : inC9 Lx Ly Lz x y z) (ht : inC9 Lx Ly Lz a b c)
    (hm : [x + 1, y, z] ∈ faceXYKeys Lx Ly Lz a b c) :
    [a, b, c] = [x, y, z] ∨ 2 * Lx + 2 * Ly + 2 * Lz + 2 * Ly + (2 * (Lx : Int) - a).toNat < 2 * Lx + 2 * Ly + 2 * Lz + 2 * Ly + (2 * (Lx : Int) - x).toNat := by
  simp only [inC9, inC9, mem_range2] at hs ht
  have p1 := predW_spec a (2 * (Lx : Int)); have p2 := predW_spec b (2 * (Ly : Int)); have p3 := predW_spec c (2 * (Lz : Int))
  have s1 := succW_spec a (2 * (Lx : Int)); have s2 := succW_spec b (2 * (Ly : Int)); have s3 := succW_spec c (2 * (Lz : Int))
  simp only [faceXYKeys, List.mem_cons, List.cons.injEq, List.not_mem_nil, and_true, or_false] at hm
  simp only [List.cons.injEq, and_true]
  omega

/-! ### the family is independent -/

theorem rankFamily_indep {Lx Ly Lz : Nat} (hLx : 2 ≤ Lx) (hLy : 2 ≤ Ly) (hLz : 2 ≤ Lz) :
    OpsIndep ((rankFamily Lx Ly Lz).map (getStab Lx Ly Lz)) := by
  refine opsIndep_of_triangular (rankFamily_nodup hLx hLy hLz) (rk Lx Ly Lz) (wit Lx Ly Lz) wx ?_
  intro s hs
  obtain ⟨x, y, z, rfl⟩ := shape_of_mem_rankFamily hs
  rw [mem_rankFamily] at hs
  rcases hs with h | h | h | h | h | h | h | h | h
  · obtain ⟨e1, e2, e3⟩ := eval_C1 hLz h
    rw [e2, e3]
    refine ⟨by rw [hit_vertex hLx hLy hLz (kind_C1 hLx hLy hLz h)]; simpa using self_C1 hLx hLy hLz h, ?_⟩
    intro t ht hh
    obtain ⟨a, b, c, rfl⟩ := shape_of_mem_rankFamily ht
    rw [mem_rankFamily] at ht
    rcases ht with h' | h' | h' | h' | h' | h' | h' | h' | h'
    · rw [hit_vertex hLx hLy hLz (kind_C1 hLx hLy hLz h')] at hh
      rw [e1, (eval_C1 hLz h').1]
      exact tri_C1_C1 hLx hLy hLz h h' (by simpa using hh)
    · rw [hit_vertex hLx hLy hLz (kind_C2 hLx hLy hLz h')] at hh
      rw [e1, (eval_C2 hLz h').1]
      exact tri_C1_C2 hLx hLy hLz h h' (by simpa using hh)
    · rw [hit_vertex hLx hLy hLz (kind_C3 hLx hLy hLz h')] at hh
      rw [e1, (eval_C3 hLz h').1]
      exact tri_C1_C3 hLx hLy hLz h h' (by simpa using hh)
    · rw [hit_faceXZ hLx hLy hLz (kind_C4 hLx hLy hLz h')] at hh; simp at hh
    · rw [hit_faceYZ hLx hLy hLz (kind_C5 hLx hLy hLz h')] at hh; simp at hh
    · rw [hit_faceYZ hLx hLy hLz (kind_C6 hLx hLy hLz h')] at hh; simp at hh
    · rw [hit_faceXZ hLx hLy hLz (kind_C7 hLx hLy hLz h')] at hh; simp at hh
    · rw [hit_faceXY hLx hLy hLz (kind_C8 hLx hLy hLz h')] at hh; simp at hh
    · rw [hit_faceXY hLx hLy hLz (kind_C9 hLx hLy hLz h')] at hh; simp at hh
  · obtain ⟨e1, e2, e3⟩ := eval_C2 hLz h
    rw [e2, e3]
    refine ⟨by rw [hit_vertex hLx hLy hLz (kind_C2 hLx hLy hLz h)]; simpa using self_C2 hLx hLy hLz h, ?_⟩
    intro t ht hh
    obtain ⟨a, b, c, rfl⟩ := shape_of_mem_rankFamily ht
    rw [mem_rankFamily] at ht
    rcases ht with h' | h' | h' | h' | h' | h' | h' | h' | h'
    · rw [hit_vertex hLx hLy hLz (kind_C1 hLx hLy hLz h')] at hh
      rw [e1, (eval_C1 hLz h').1]
      exact tri_C2_C1 hLx hLy hLz h h' (by simpa using hh)
    · rw [hit_vertex hLx hLy hLz (kind_C2 hLx hLy hLz h')] at hh
      rw [e1, (eval_C2 hLz h').1]
      exact tri_C2_C2 hLx hLy hLz h h' (by simpa using hh)
    · rw [hit_vertex hLx hLy hLz (kind_C3 hLx hLy hLz h')] at hh
      rw [e1, (eval_C3 hLz h').1]
      exact tri_C2_C3 hLx hLy hLz h h' (by simpa using hh)
    · rw [hit_faceXZ hLx hLy hLz (kind_C4 hLx hLy hLz h')] at hh; simp at hh
    · rw [hit_faceYZ hLx hLy hLz (kind_C5 hLx hLy hLz h')] at hh; simp at hh
    · rw [hit_faceYZ hLx hLy hLz (kind_C6 hLx hLy hLz h')] at hh; simp at hh
    · rw [hit_faceXZ hLx hLy hLz (kind_C7 hLx hLy hLz h')] at hh; simp at hh
    · rw [hit_faceXY hLx hLy hLz (kind_C8 hLx hLy hLz h')] at hh; simp at hh
    · rw [hit_faceXY hLx hLy hLz (kind_C9 hLx hLy hLz h')] at hh; simp at hh
  · obtain ⟨e1, e2, e3⟩ := eval_C3 hLz h
    rw [e2, e3]
    refine ⟨by rw [hit_vertex hLx hLy hLz (kind_C3 hLx hLy hLz h)]; simpa using self_C3 hLx hLy hLz h, ?_⟩
    intro t ht hh
    obtain ⟨a, b, c, rfl⟩ := shape_of_mem_rankFamily ht
    rw [mem_rankFamily] at ht
    rcases ht with h' | h' | h' | h' | h' | h' | h' | h' | h'
    · rw [hit_vertex hLx hLy hLz (kind_C1 hLx hLy hLz h')] at hh
      rw [e1, (eval_C1 hLz h').1]
      exact tri_C3_C1 hLx hLy hLz h h' (by simpa using hh)
    · rw [hit_vertex hLx hLy hLz (kind_C2 hLx hLy hLz h')] at hh
      rw [e1, (eval_C2 hLz h').1]
      exact tri_C3_C2 hLx hLy hLz h h' (by simpa using hh)
    · rw [hit_vertex hLx hLy hLz (kind_C3 hLx hLy hLz h')] at hh
      rw [e1, (eval_C3 hLz h').1]
      exact tri_C3_C3 hLx hLy hLz h h' (by simpa using hh)
    · rw [hit_faceXZ hLx hLy hLz (kind_C4 hLx hLy hLz h')] at hh; simp at hh
    · rw [hit_faceYZ hLx hLy hLz (kind_C5 hLx hLy hLz h')] at hh; simp at hh
    · rw [hit_faceYZ hLx hLy hLz (kind_C6 hLx hLy hLz h')] at hh; simp at hh
    · rw [hit_faceXZ hLx hLy hLz (kind_C7 hLx hLy hLz h')] at hh; simp at hh
    · rw [hit_faceXY hLx hLy hLz (kind_C8 hLx hLy hLz h')] at hh; simp at hh
    · rw [hit_faceXY hLx hLy hLz (kind_C9 hLx hLy hLz h')] at hh; simp at hh
  · obtain ⟨e1, e2, e3⟩ := eval_C4 hLz h
    rw [e2, e3]
    refine ⟨by rw [hit_faceXZ hLx hLy hLz (kind_C4 hLx hLy hLz h)]; simpa using self_C4 hLx hLy hLz h, ?_⟩
    intro t ht hh
    obtain ⟨a, b, c, rfl⟩ := shape_of_mem_rankFamily ht
    rw [mem_rankFamily] at ht
    rcases ht with h' | h' | h' | h' | h' | h' | h' | h' | h'
    · rw [hit_vertex hLx hLy hLz (kind_C1 hLx hLy hLz h')] at hh; simp at hh
    · rw [hit_vertex hLx hLy hLz (kind_C2 hLx hLy hLz h')] at hh; simp at hh
    · rw [hit_vertex hLx hLy hLz (kind_C3 hLx hLy hLz h')] at hh; simp at hh
    · rw [hit_faceXZ hLx hLy hLz (kind_C4 hLx hLy hLz h')] at hh
      rw [e1, (eval_C4 hLz h').1]
      exact tri_C4_C4 hLx hLy hLz h h' (by simpa using hh)
    · rw [hit_faceYZ hLx hLy hLz (kind_C5 hLx hLy hLz h')] at hh
      rw [e1, (eval_C5 hLz h').1]
      exact tri_C4_C5 hLx hLy hLz h h' (by simpa using hh)
    · rw [hit_faceYZ hLx hLy hLz (kind_C6 hLx hLy hLz h')] at hh
      rw [e1, (eval_C6 hLz h').1]
      exact tri_C4_C6 hLx hLy hLz h h' (by simpa using hh)
    · rw [hit_faceXZ hLx hLy hLz (kind_C7 hLx hLy hLz h')] at hh
      rw [e1, (eval_C7 hLz h').1]
      exact tri_C4_C7 hLx hLy hLz h h' (by simpa using hh)
    · rw [hit_faceXY hLx hLy hLz (kind_C8 hLx hLy hLz h')] at hh
      rw [e1, (eval_C8 hLz h').1]
      exact tri_C4_C8 hLx hLy hLz h h' (by simpa using hh)
    · rw [hit_faceXY hLx hLy hLz (kind_C9 hLx hLy hLz h')] at hh
      rw [e1, (eval_C9 hLz h').1]
      exact tri_C4_C9 hLx hLy hLz h h' (by simpa using hh)
  · obtain ⟨e1, e2, e3⟩ := eval_C5 hLz h
    rw [e2, e3]
    refine ⟨by rw [hit_faceYZ hLx hLy hLz (kind_C5 hLx hLy hLz h)]; simpa using self_C5 hLx hLy hLz h, ?_⟩
    intro t ht hh
    obtain ⟨a, b, c, rfl⟩ := shape_of_mem_rankFamily ht
    rw [mem_rankFamily] at ht
    rcases ht with h' | h' | h' | h' | h' | h' | h' | h' | h'
    · rw [hit_vertex hLx hLy hLz (kind_C1 hLx hLy hLz h')] at hh; simp at hh
    · rw [hit_vertex hLx hLy hLz (kind_C2 hLx hLy hLz h')] at hh; simp at hh
    · rw [hit_vertex hLx hLy hLz (kind_C3 hLx hLy hLz h')] at hh; simp at hh
    · rw [hit_faceXZ hLx hLy hLz (kind_C4 hLx hLy hLz h')] at hh
      rw [e1, (eval_C4 hLz h').1]
      exact tri_C5_C4 hLx hLy hLz h h' (by simpa using hh)
    · rw [hit_faceYZ hLx hLy hLz (kind_C5 hLx hLy hLz h')] at hh
      rw [e1, (eval_C5 hLz h').1]
      exact tri_C5_C5 hLx hLy hLz h h' (by simpa using hh)
    · rw [hit_faceYZ hLx hLy hLz (kind_C6 hLx hLy hLz h')] at hh
      rw [e1, (eval_C6 hLz h').1]
      exact tri_C5_C6 hLx hLy hLz h h' (by simpa using hh)
    · rw [hit_faceXZ hLx hLy hLz (kind_C7 hLx hLy hLz h')] at hh
      rw [e1, (eval_C7 hLz h').1]
      exact tri_C5_C7 hLx hLy hLz h h' (by simpa using hh)
    · rw [hit_faceXY hLx hLy hLz (kind_C8 hLx hLy hLz h')] at hh
      rw [e1, (eval_C8 hLz h').1]
      exact tri_C5_C8 hLx hLy hLz h h' (by simpa using hh)
    · rw [hit_faceXY hLx hLy hLz (kind_C9 hLx hLy hLz h')] at hh
      rw [e1, (eval_C9 hLz h').1]
      exact tri_C5_C9 hLx hLy hLz h h' (by simpa using hh)
  · obtain ⟨e1, e2, e3⟩ := eval_C6 hLz h
    rw [e2, e3]
    refine ⟨by rw [hit_faceYZ hLx hLy hLz (kind_C6 hLx hLy hLz h)]; simpa using self_C6 hLx hLy hLz h, ?_⟩
    intro t ht hh
    obtain ⟨a, b, c, rfl⟩ := shape_of_mem_rankFamily ht
    rw [mem_rankFamily] at ht
    rcases ht with h' | h' | h' | h' | h' | h' | h' | h' | h'
    · rw [hit_vertex hLx hLy hLz (kind_C1 hLx hLy hLz h')] at hh; simp at hh
    · rw [hit_vertex hLx hLy hLz (kind_C2 hLx hLy hLz h')] at hh; simp at hh
    · rw [hit_vertex hLx hLy hLz (kind_C3 hLx hLy hLz h')] at hh; simp at hh
    · rw [hit_faceXZ hLx hLy hLz (kind_C4 hLx hLy hLz h')] at hh
      rw [e1, (eval_C4 hLz h').1]
      exact tri_C6_C4 hLx hLy hLz h h' (by simpa using hh)
    · rw [hit_faceYZ hLx hLy hLz (kind_C5 hLx hLy hLz h')] at hh
      rw [e1, (eval_C5 hLz h').1]
      exact tri_C6_C5 hLx hLy hLz h h' (by simpa using hh)
    · rw [hit_faceYZ hLx hLy hLz (kind_C6 hLx hLy hLz h')] at hh
      rw [e1, (eval_C6 hLz h').1]
      exact tri_C6_C6 hLx hLy hLz h h' (by simpa using hh)
    · rw [hit_faceXZ hLx hLy hLz (kind_C7 hLx hLy hLz h')] at hh
      rw [e1, (eval_C7 hLz h').1]
      exact tri_C6_C7 hLx hLy hLz h h' (by simpa using hh)
    · rw [hit_faceXY hLx hLy hLz (kind_C8 hLx hLy hLz h')] at hh
      rw [e1, (eval_C8 hLz h').1]
      exact tri_C6_C8 hLx hLy hLz h h' (by simpa using hh)
    · rw [hit_faceXY hLx hLy hLz (kind_C9 hLx hLy hLz h')] at hh
      rw [e1, (eval_C9 hLz h').1]
      exact tri_C6_C9 hLx hLy hLz h h' (by simpa using hh)
  · obtain ⟨e1, e2, e3⟩ := eval_C7 hLz h
    rw [e2, e3]
    refine ⟨by rw [hit_faceXZ hLx hLy hLz (kind_C7 hLx hLy hLz h)]; simpa using self_C7 hLx hLy hLz h, ?_⟩
    intro t ht hh
    obtain ⟨a, b, c, rfl⟩ := shape_of_mem_rankFamily ht
    rw [mem_rankFamily] at ht
    rcases ht with h' | h' | h' | h' | h' | h' | h' | h' | h'
    · rw [hit_vertex hLx hLy hLz (kind_C1 hLx hLy hLz h')] at hh; simp at hh
    · rw [hit_vertex hLx hLy hLz (kind_C2 hLx hLy hLz h')] at hh; simp at hh
    · rw [hit_vertex hLx hLy hLz (kind_C3 hLx hLy hLz h')] at hh; simp at hh
    · rw [hit_faceXZ hLx hLy hLz (kind_C4 hLx hLy hLz h')] at hh
      rw [e1, (eval_C4 hLz h').1]
      exact tri_C7_C4 hLx hLy hLz h h' (by simpa using hh)
    · rw [hit_faceYZ hLx hLy hLz (kind_C5 hLx hLy hLz h')] at hh
      rw [e1, (eval_C5 hLz h').1]
      exact tri_C7_C5 hLx hLy hLz h h' (by simpa using hh)
    · rw [hit_faceYZ hLx hLy hLz (kind_C6 hLx hLy hLz h')] at hh
      rw [e1, (eval_C6 hLz h').1]
      exact tri_C7_C6 hLx hLy hLz h h' (by simpa using hh)
    · rw [hit_faceXZ hLx hLy hLz (kind_C7 hLx hLy hLz h')] at hh
      rw [e1, (eval_C7 hLz h').1]
      exact tri_C7_C7 hLx hLy hLz h h' (by simpa using hh)
    · rw [hit_faceXY hLx hLy hLz (kind_C8 hLx hLy hLz h')] at hh
      rw [e1, (eval_C8 hLz h').1]
      exact tri_C7_C8 hLx hLy hLz h h' (by simpa using hh)
    · rw [hit_faceXY hLx hLy hLz (kind_C9 hLx hLy hLz h')] at hh
      rw [e1, (eval_C9 hLz h').1]
      exact tri_C7_C9 hLx hLy hLz h h' (by simpa using hh)
  · obtain ⟨e1, e2, e3⟩ := eval_C8 hLz h
    rw [e2, e3]
    refine ⟨by rw [hit_faceXY hLx hLy hLz (kind_C8 hLx hLy hLz h)]; simpa using self_C8 hLx hLy hLz h, ?_⟩
    intro t ht hh
    obtain ⟨a, b, c, rfl⟩ := shape_of_mem_rankFamily ht
    rw [mem_rankFamily] at ht
    rcases ht with h' | h' | h' | h' | h' | h' | h' | h' | h'
    · rw [hit_vertex hLx hLy hLz (kind_C1 hLx hLy hLz h')] at hh; simp at hh
    · rw [hit_vertex hLx hLy hLz (kind_C2 hLx hLy hLz h')] at hh; simp at hh
    · rw [hit_vertex hLx hLy hLz (kind_C3 hLx hLy hLz h')] at hh; simp at hh
    · rw [hit_faceXZ hLx hLy hLz (kind_C4 hLx hLy hLz h')] at hh
      rw [e1, (eval_C4 hLz h').1]
      exact tri_C8_C4 hLx hLy hLz h h' (by simpa using hh)
    · rw [hit_faceYZ hLx hLy hLz (kind_C5 hLx hLy hLz h')] at hh
      rw [e1, (eval_C5 hLz h').1]
      exact tri_C8_C5 hLx hLy hLz h h' (by simpa using hh)
    · rw [hit_faceYZ hLx hLy hLz (kind_C6 hLx hLy hLz h')] at hh
      rw [e1, (eval_C6 hLz h').1]
      exact tri_C8_C6 hLx hLy hLz h h' (by simpa using hh)
    · rw [hit_faceXZ hLx hLy hLz (kind_C7 hLx hLy hLz h')] at hh
      rw [e1, (eval_C7 hLz h').1]
      exact tri_C8_C7 hLx hLy hLz h h' (by simpa using hh)
    · rw [hit_faceXY hLx hLy hLz (kind_C8 hLx hLy hLz h')] at hh
      rw [e1, (eval_C8 hLz h').1]
      exact tri_C8_C8 hLx hLy hLz h h' (by simpa using hh)
    · rw [hit_faceXY hLx hLy hLz (kind_C9 hLx hLy hLz h')] at hh
      rw [e1, (eval_C9 hLz h').1]
      exact tri_C8_C9 hLx hLy hLz h h' (by simpa using hh)
  · obtain ⟨e1, e2, e3⟩ := eval_C9 hLz h
    rw [e2, e3]
    refine ⟨by rw [hit_faceXY hLx hLy hLz (kind_C9 hLx hLy hLz h)]; simpa using self_C9 hLx hLy hLz h, ?_⟩
    intro t ht hh
    obtain ⟨a, b, c, rfl⟩ := shape_of_mem_rankFamily ht
    rw [mem_rankFamily] at ht
    rcases ht with h' | h' | h' | h' | h' | h' | h' | h' | h'
    · rw [hit_vertex hLx hLy hLz (kind_C1 hLx hLy hLz h')] at hh; simp at hh
    · rw [hit_vertex hLx hLy hLz (kind_C2 hLx hLy hLz h')] at hh; simp at hh
    · rw [hit_vertex hLx hLy hLz (kind_C3 hLx hLy hLz h')] at hh; simp at hh
    · rw [hit_faceXZ hLx hLy hLz (kind_C4 hLx hLy hLz h')] at hh
      rw [e1, (eval_C4 hLz h').1]
      exact tri_C9_C4 hLx hLy hLz h h' (by simpa using hh)
    · rw [hit_faceYZ hLx hLy hLz (kind_C5 hLx hLy hLz h')] at hh
      rw [e1, (eval_C5 hLz h').1]
      exact tri_C9_C5 hLx hLy hLz h h' (by simpa using hh)
    · rw [hit_faceYZ hLx hLy hLz (kind_C6 hLx hLy hLz h')] at hh
      rw [e1, (eval_C6 hLz h').1]
      exact tri_C9_C6 hLx hLy hLz h h' (by simpa using hh)
    · rw [hit_faceXZ hLx hLy hLz (kind_C7 hLx hLy hLz h')] at hh
      rw [e1, (eval_C7 hLz h').1]
      exact tri_C9_C7 hLx hLy hLz h h' (by simpa using hh)
    · rw [hit_faceXY hLx hLy hLz (kind_C8 hLx hLy hLz h')] at hh
      rw [e1, (eval_C8 hLz h').1]
      exact tri_C9_C8 hLx hLy hLz h h' (by simpa using hh)
    · rw [hit_faceXY hLx hLy hLz (kind_C9 hLx hLy hLz h')] at hh
      rw [e1, (eval_C9 hLz h').1]
      exact tri_C9_C9 hLx hLy hLz h h' (by simpa using hh)

end Panqec.Toric3DCode
