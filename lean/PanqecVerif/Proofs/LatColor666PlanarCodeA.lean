/-
Color666PlanarCode, all sizes: arithmetic description of the face list, of `get_stabilizer` as the
filtered hexagon, and of the DERIVED qubit list (closed form `IsQ`).  Core Lean only.
-/
import PanqecVerif.Proofs.ColorBase
import PanqecVerif.Model.Lattices.Color666PlanarCode

set_option linter.unusedVariables false

namespace Panqec.Color666PlanarCode
open Panqec.Lat2D Panqec.Color

/-- `(x, y)` is the centre of a face (both `(x, y, 0)` and `(x, y, 1)` are stabilizer locations) -/
def IsF (L : Nat) (x y : Int) : Prop :=
  2 ≤ x ∧ 0 ≤ y ∧ y < 2 * x + 1 ∧ y < 12 * (L : Int) - 2 * x + 3 ∧
    ((x % 6 = 2 ∧ y % 4 = 0) ∨ (x % 6 = 5 ∧ y % 4 = 2))

/-- the triangle guard of `get_stabilizer` -/
def InT (L : Nat) (a b : Int) : Prop :=
  0 ≤ a ∧ 0 ≤ b ∧ b ≤ 2 * a + 1 ∧ b ≤ 12 * (L : Int) - 2 * a + 3

/-- `(a, b)` is a qubit coordinate (closed form of the derived list) -/
def IsQ (L : Nat) (a b : Int) : Prop :=
  InT L a b ∧ (((a % 6 = 0 ∨ a % 6 = 4) ∧ b % 4 = 0) ∨ ((a % 6 = 1 ∨ a % 6 = 3) ∧ b % 4 = 2))

instance (L : Nat) (x y : Int) : Decidable (IsF L x y) := by unfold IsF; infer_instance
instance (L : Nat) (x y : Int) : Decidable (InT L x y) := by unfold InT; infer_instance
instance (L : Nat) (x y : Int) : Decidable (IsQ L x y) := by unfold IsQ; infer_instance

theorem mem_faces {L : Nat} {q : Coord} :
    q ∈ faces L ↔ ∃ x y, q = [x, y] ∧ IsF L x y := by
  unfold faces
  rw [mem_columns]
  simp only [List.mem_filter, mem_pyRangeStep1, decide_eq_true_eq]
  unfold ybound IsF
  constructor
  · rintro ⟨x, y, hx, hy, rfl⟩; refine ⟨x, y, rfl, ?_⟩; omega
  · rintro ⟨x, y, rfl, h⟩; exact ⟨x, y, by omega, by omega, rfl⟩

theorem mem_faces' {L : Nat} {x y : Int} : [x, y] ∈ faces L ↔ IsF L x y := by
  rw [mem_faces]
  constructor
  · rintro ⟨x', y', h, hq⟩
    simp only [List.cons.injEq, and_true] at h
    rw [h.1, h.2]; exact hq
  · intro h; exact ⟨x, y, rfl, h⟩

theorem nodup_faces (L : Nat) : (faces L).Nodup := by
  unfold faces
  exact nodup_columns _ (nodup_pyRangeStep _ _ _ (by decide))
    (fun x => (nodup_pyRangeStep _ _ _ (by decide)).sublist List.filter_sublist)

/-- a stabilizer location is `(x, y, p)` with `(x, y)` a face and `p ∈ {0, 1}` -/
theorem mem_stabs {L L' : Nat} {s : Coord} :
    s ∈ stabs L L' ↔ ∃ x y p, s = [x, y, p] ∧ IsF L x y ∧ (p = 0 ∨ p = 1) := by
  unfold stabs
  rw [mem_both]
  constructor
  · rintro ⟨c, hc, h⟩
    obtain ⟨x, y, rfl, hf⟩ := mem_faces.mp hc
    rcases h with rfl | rfl
    · exact ⟨x, y, 0, rfl, hf, Or.inl rfl⟩
    · exact ⟨x, y, 1, rfl, hf, Or.inr rfl⟩
  · rintro ⟨x, y, p, rfl, hf, rfl | rfl⟩
    · exact ⟨[x, y], mem_faces'.mpr hf, Or.inl rfl⟩
    · exact ⟨[x, y], mem_faces'.mpr hf, Or.inr rfl⟩

theorem mem_stabs' {L L' : Nat} {x y p : Int} :
    [x, y, p] ∈ stabs L L' ↔ IsF L x y ∧ (p = 0 ∨ p = 1) := by
  rw [mem_stabs]
  constructor
  · rintro ⟨x', y', p', h, hq⟩
    simp only [List.cons.injEq, and_true] at h
    rw [h.1, h.2.1, h.2.2]; exact hq
  · intro h; exact ⟨x, y, p, rfl, h⟩

theorem nodup_stabs (L L' : Nat) : (stabs L L').Nodup := nodup_both (nodup_faces L)

/-! ### `get_stabilizer` -/

/-- the six corners of the hexagon, in delta order -/
def nbrs (x y : Int) : List Coord :=
  [[x - 1, y - 2], [x + 1, y - 2], [x + 2, y], [x + 1, y + 2], [x - 1, y + 2], [x - 2, y]]

theorem candidates_eq (x y : Int) : candidates x y = nbrs x y := by
  unfold candidates delta nbrs
  simp only [List.map_cons, List.map_nil, Int.add_zero]
  rfl

theorem nodup_nbrs (x y : Int) : (nbrs x y).Nodup := by
  unfold nbrs
  simp only [List.nodup_cons, List.mem_cons, List.cons.injEq, and_true, List.not_mem_nil,
    or_false, not_false_eq_true, List.nodup_nil]
  omega

theorem mem_nbrs {x y a b : Int} :
    [a, b] ∈ nbrs x y ↔
      ((a = x - 1 ∧ b = y - 2) ∨ (a = x + 1 ∧ b = y - 2) ∨ (a = x + 2 ∧ b = y) ∨
       (a = x + 1 ∧ b = y + 2) ∨ (a = x - 1 ∧ b = y + 2) ∨ (a = x - 2 ∧ b = y)) := by
  unfold nbrs
  simp only [List.mem_cons, List.cons.injEq, and_true, List.not_mem_nil, or_false]

theorem nbrs_shape {x y : Int} {q : Coord} (h : q ∈ nbrs x y) : ∃ a b, q = [a, b] := by
  unfold nbrs at h
  simp only [List.mem_cons, List.not_mem_nil, or_false] at h
  rcases h with rfl | rfl | rfl | rfl | rfl | rfl <;> exact ⟨_, _, rfl⟩

theorem inTriangle_iff {L : Nat} {a b : Int} : inTriangle L [a, b] = true ↔ InT L a b := by
  unfold inTriangle InT ybound
  simp only [decide_eq_true_eq]
  omega

/-- the support of the two generators of the face `(x, y)`: the corners inside the triangle -/
def supp (L : Nat) (x y : Int) : List Coord := (nbrs x y).filter (inTriangle L)

theorem nodup_supp (L : Nat) (x y : Int) : (supp L x y).Nodup :=
  (nodup_nbrs x y).sublist List.filter_sublist

theorem mem_supp {L : Nat} {x y a b : Int} :
    [a, b] ∈ supp L x y ↔
      (((a = x - 1 ∧ b = y - 2) ∨ (a = x + 1 ∧ b = y - 2) ∨ (a = x + 2 ∧ b = y) ∨
        (a = x + 1 ∧ b = y + 2) ∨ (a = x - 1 ∧ b = y + 2) ∨ (a = x - 2 ∧ b = y)) ∧ InT L a b) := by
  unfold supp
  rw [List.mem_filter, mem_nbrs, inTriangle_iff]

theorem supp_shape {L : Nat} {x y : Int} {q : Coord} (h : q ∈ supp L x y) : ∃ a b, q = [a, b] :=
  nbrs_shape (List.mem_filter.mp h).1

/-- the letter of the generator `(x, y, p)` -/
def letter (p : Int) : Pauli := if p = 0 then Pauli.X else Pauli.Z

theorem letter_ne_I (p : Int) : letter p ≠ Pauli.I := by
  unfold letter; by_cases h : p = 0 <;> simp [h]

theorem getStabIn_eq {L L' : Nat} {x y p : Int} (h : [x, y, p] ∈ stabs L L') :
    getStabilizerIn (stabs L L') L [x, y, p] = some ((supp L x y).map (fun q => (q, letter p))) := by
  have hs : isIn (stabs L L') [x, y, p] = true := isIn_iff.mpr h
  unfold getStabilizerIn
  simp only [hs, Bool.not_true, Bool.false_eq_true, if_false]
  rw [candidates_eq, collect_eq _ _ _ (nodup_nbrs x y)]
  rfl

theorem getStab_eq {L L' : Nat} {x y p : Int} (h : [x, y, p] ∈ stabs L L') :
    (lattice L L').getStab [x, y, p] = (supp L x y).map (fun q => (q, letter p)) := by
  show (getStabilizer? L L' [x, y, p]).getD [] = _
  unfold getStabilizer?
  rw [getStabIn_eq h]; rfl

/-! ### the derived qubit list -/

theorem nodup_qubits (L L' : Nat) : (qubits L L').Nodup := nodup_derivedQubits _ _

/-- a coordinate is a qubit iff it is a corner, inside the triangle, of some face -/
theorem mem_qubits_faces {L L' : Nat} {q : Coord} :
    q ∈ qubits L L' ↔ ∃ x y, IsF L x y ∧ q ∈ supp L x y := by
  unfold qubits
  simp only []
  rw [mem_derivedQubits]
  constructor
  · rintro ⟨s, hs, hq⟩
    obtain ⟨x, y, p, rfl, hf, hp⟩ := mem_stabs.mp hs
    rw [getStabIn_eq hs, Option.getD_some, map_fst_const] at hq
    exact ⟨x, y, hf, hq⟩
  · rintro ⟨x, y, hf, hq⟩
    have hs : [x, y, 0] ∈ stabs L L' := mem_stabs'.mpr ⟨hf, Or.inl rfl⟩
    refine ⟨[x, y, 0], hs, ?_⟩
    rw [getStabIn_eq hs, Option.getD_some, map_fst_const]
    exact hq

/-- corners of faces inside the triangle satisfy the closed form -/
theorem isQ_of_corner {L : Nat} {x y a b : Int} (hf : IsF L x y) (h : [a, b] ∈ supp L x y) :
    IsQ L a b := by
  rw [mem_supp] at h
  obtain ⟨hd, ht⟩ := h
  refine ⟨ht, ?_⟩
  unfold IsF at hf
  rcases hd with h | h | h | h | h | h <;> omega

/-- every site of the closed form is a corner of a face (needs at least one unit cell) -/
theorem corner_of_isQ {L : Nat} (hL : 1 ≤ L) {a b : Int} (h : IsQ L a b) :
    ∃ x y, IsF L x y ∧ [a, b] ∈ supp L x y := by
  obtain ⟨ht, hm⟩ := h
  have ht' := ht
  unfold InT at ht'
  rcases hm with ⟨h6, h4⟩ | ⟨h6, h4⟩
  · rcases h6 with h6 | h6
    · -- a % 6 = 0: the face to the right, else one of the two faces to the left
      by_cases c1 : b < 12 * (L : Int) - 2 * a - 1
      · exact ⟨a + 2, b, by unfold IsF; omega, mem_supp.mpr ⟨by omega, ht⟩⟩
      · by_cases c2 : 2 ≤ b
        · exact ⟨a - 1, b - 2, by unfold IsF; omega, mem_supp.mpr ⟨by omega, ht⟩⟩
        · exact ⟨a - 1, b + 2, by unfold IsF; omega, mem_supp.mpr ⟨by omega, ht⟩⟩
    · -- a % 6 = 4: the face to the left, else one of the two faces to the right
      by_cases c1 : b ≤ 2 * a - 4
      · exact ⟨a - 2, b, by unfold IsF; omega, mem_supp.mpr ⟨by omega, ht⟩⟩
      · by_cases c2 : 2 ≤ b
        · exact ⟨a + 1, b - 2, by unfold IsF; omega, mem_supp.mpr ⟨by omega, ht⟩⟩
        · exact ⟨a + 1, b + 2, by unfold IsF; omega, mem_supp.mpr ⟨by omega, ht⟩⟩
  · rcases h6 with h6 | h6
    · -- a % 6 = 1
      by_cases c1 : b ≤ 2 * a - 4
      · exact ⟨a - 2, b, by unfold IsF; omega, mem_supp.mpr ⟨by omega, ht⟩⟩
      · by_cases c2 : 2 ≤ b
        · exact ⟨a + 1, b - 2, by unfold IsF; omega, mem_supp.mpr ⟨by omega, ht⟩⟩
        · exact ⟨a + 1, b + 2, by unfold IsF; omega, mem_supp.mpr ⟨by omega, ht⟩⟩
    · -- a % 6 = 3
      by_cases c1 : b < 12 * (L : Int) - 2 * a - 1
      · exact ⟨a + 2, b, by unfold IsF; omega, mem_supp.mpr ⟨by omega, ht⟩⟩
      · by_cases c2 : 2 ≤ b
        · exact ⟨a - 1, b - 2, by unfold IsF; omega, mem_supp.mpr ⟨by omega, ht⟩⟩
        · exact ⟨a - 1, b + 2, by unfold IsF; omega, mem_supp.mpr ⟨by omega, ht⟩⟩

theorem mem_qubits {L L' : Nat} (hL : 1 ≤ L) {q : Coord} :
    q ∈ qubits L L' ↔ ∃ a b, q = [a, b] ∧ IsQ L a b := by
  rw [mem_qubits_faces]
  constructor
  · rintro ⟨x, y, hf, hq⟩
    obtain ⟨a, b, rfl⟩ := supp_shape hq
    exact ⟨a, b, rfl, isQ_of_corner hf hq⟩
  · rintro ⟨a, b, rfl, h⟩
    exact corner_of_isQ hL h

theorem mem_qubits' {L L' : Nat} (hL : 1 ≤ L) {a b : Int} :
    [a, b] ∈ qubits L L' ↔ IsQ L a b := by
  rw [mem_qubits hL]
  constructor
  · rintro ⟨x', y', h, hq⟩
    simp only [List.cons.injEq, and_true] at h
    rw [h.1, h.2]; exact hq
  · intro h; exact ⟨a, b, rfl, h⟩

theorem isQubit_iff {L L' : Nat} (hL : 1 ≤ L) {a b : Int} :
    isQubit L L' [a, b] = true ↔ IsQ L a b := by
  unfold isQubit; rw [isIn_iff, mem_qubits' hL]

theorem qubits_stabs_disjoint (L L' : Nat) : ∀ q ∈ qubits L L', q ∉ stabs L L' := by
  intro q hq hs
  obtain ⟨x, y, _, hq'⟩ := mem_qubits_faces.mp hq
  obtain ⟨a, b, rfl⟩ := supp_shape hq'
  obtain ⟨x', y', p, h, _⟩ := mem_stabs.mp hs
  simp at h

/-- every face has a corner inside the triangle -/
theorem supp_nonempty {L : Nat} {x y : Int} (h : IsF L x y) : supp L x y ≠ [] := by
  unfold IsF at h
  by_cases h0 : 2 ≤ y
  · apply List.ne_nil_of_mem (a := [x - 1, y - 2])
    rw [mem_supp]; unfold InT; omega
  · apply List.ne_nil_of_mem (a := [x + 1, y + 2])
    rw [mem_supp]; unfold InT; omega

end Panqec.Color666PlanarCode
