/-
Toric3DCode, all sizes, C17 part B: the translates are sets of qubits with pairwise disjoint
supports (`lower_bound`, through `Lattice.packing_bound`), the listed logicals have weights
`Lx, Ly, Lz` (X lines) and `Ly·Lz, Lz·Lx, Lx·Ly` (Z planes) (`reported_distance`).
-/
import PanqecVerif.Proofs.DistToric3DCodeA
import PanqecVerif.Proofs.Lat2DRankBridge

namespace Panqec.Toric3DCode
open Panqec.Cubic3D Panqec.Lat2D

variable {Lx Ly Lz : Nat}

/-! ### the translates are distinct qubits, different translates are disjoint -/

theorem lineX_nodup (Lx i : Nat) : (lineX Lx i).Nodup :=
  List.Nodup.map (fun a b h => by simpa using h) (nodup_range2 _ _)
theorem lineY_nodup (Ly i : Nat) : (lineY Ly i).Nodup :=
  List.Nodup.map (fun a b h => by simpa using h) (nodup_range2 _ _)
theorem lineZ_nodup (Lz i : Nat) : (lineZ Lz i).Nodup :=
  List.Nodup.map (fun a b h => by simpa using h) (nodup_range2 _ _)
theorem planeX_nodup (Ly Lz i : Nat) : (planeX Ly Lz i).Nodup :=
  nodup_grid2 (nodup_range2 _ _) (nodup_range2 _ _) (fun a b a' b' h => by simpa using h)
theorem planeY_nodup (Lz Lx i : Nat) : (planeY Lz Lx i).Nodup :=
  nodup_grid2 (nodup_range2 _ _) (nodup_range2 _ _) (fun a b a' b' h => by
    simp only [List.cons.injEq, and_true, true_and] at h; exact ⟨h.2, h.1⟩)
theorem planeZ_nodup (Lx Ly i : Nat) : (planeZ Lx Ly i).Nodup :=
  nodup_grid2 (nodup_range2 _ _) (nodup_range2 _ _) (fun a b a' b' h => by
    simp only [List.cons.injEq, and_true] at h; exact h)

theorem mem_lineX {Lx i : Nat} {q : Coord} :
    q ∈ lineX Lx i ↔ ∃ x, isO Lx x ∧ q = [x, 2 * (i : Int), 0] := by
  simp only [lineX, List.mem_map, mem_rangeO]
  constructor
  · rintro ⟨x, hx, rfl⟩; exact ⟨x, hx, rfl⟩
  · rintro ⟨x, hx, rfl⟩; exact ⟨x, hx, rfl⟩
theorem mem_lineY {Ly i : Nat} {q : Coord} :
    q ∈ lineY Ly i ↔ ∃ y, isO Ly y ∧ q = [2 * (i : Int), y, 0] := by
  simp only [lineY, List.mem_map, mem_rangeO]
  constructor
  · rintro ⟨x, hx, rfl⟩; exact ⟨x, hx, rfl⟩
  · rintro ⟨x, hx, rfl⟩; exact ⟨x, hx, rfl⟩
theorem mem_lineZ {Lz i : Nat} {q : Coord} :
    q ∈ lineZ Lz i ↔ ∃ z, isO Lz z ∧ q = [2 * (i : Int), 0, z] := by
  simp only [lineZ, List.mem_map, mem_rangeO]
  constructor
  · rintro ⟨x, hx, rfl⟩; exact ⟨x, hx, rfl⟩
  · rintro ⟨x, hx, rfl⟩; exact ⟨x, hx, rfl⟩
theorem mem_planeX {Ly Lz i : Nat} {q : Coord} :
    q ∈ planeX Ly Lz i ↔ ∃ y z, isE Ly y ∧ isE Lz z ∧ q = [2 * (i : Int) + 1, y, z] := by
  simp only [planeX, mem_grid2, mem_rangeE]
  constructor
  · rintro ⟨y, hy, z, hz, rfl⟩; exact ⟨y, z, hy, hz, rfl⟩
  · rintro ⟨y, z, hy, hz, rfl⟩; exact ⟨y, hy, z, hz, rfl⟩
theorem mem_planeY {Lz Lx i : Nat} {q : Coord} :
    q ∈ planeY Lz Lx i ↔ ∃ z x, isE Lz z ∧ isE Lx x ∧ q = [x, 2 * (i : Int) + 1, z] := by
  simp only [planeY, mem_grid2, mem_rangeE]
  constructor
  · rintro ⟨y, hy, z, hz, rfl⟩; exact ⟨y, z, hy, hz, rfl⟩
  · rintro ⟨y, z, hy, hz, rfl⟩; exact ⟨y, hy, z, hz, rfl⟩
theorem mem_planeZ {Lx Ly i : Nat} {q : Coord} :
    q ∈ planeZ Lx Ly i ↔ ∃ x y, isE Lx x ∧ isE Ly y ∧ q = [x, y, 2 * (i : Int) + 1] := by
  simp only [planeZ, mem_grid2, mem_rangeE]
  constructor
  · rintro ⟨y, hy, z, hz, rfl⟩; exact ⟨y, z, hy, hz, rfl⟩
  · rintro ⟨y, z, hy, hz, rfl⟩; exact ⟨y, hy, z, hz, rfl⟩

/-- the six families of translates: distinct keys, qubits, pairwise disjoint -/
theorem repsX0 (hLz : 1 ≤ Lz) (P : Pauli) : RepsOK (qubits Lx Ly Lz) (lineX Lx) Ly P :=
  uopReps (qubits Lx Ly Lz) (lineX Lx) Ly P (lineX_nodup Lx)
    (fun i hi q hq => by
      obtain ⟨x, hx, rfl⟩ := mem_lineX.mp hq
      rw [mem_qubits]; simp only [isE, isO] at hx ⊢; omega)
    (fun i i' h q hq hq' => by
      obtain ⟨x, _, rfl⟩ := mem_lineX.mp hq
      obtain ⟨x', _, e⟩ := mem_lineX.mp hq'
      simp only [List.cons.injEq, and_true] at e; omega)
theorem repsX1 (hLz : 1 ≤ Lz) (P : Pauli) : RepsOK (qubits Lx Ly Lz) (lineY Ly) Lx P :=
  uopReps (qubits Lx Ly Lz) (lineY Ly) Lx P (lineY_nodup Ly)
    (fun i hi q hq => by
      obtain ⟨x, hx, rfl⟩ := mem_lineY.mp hq
      rw [mem_qubits]; simp only [isE, isO] at hx ⊢; omega)
    (fun i i' h q hq hq' => by
      obtain ⟨x, _, rfl⟩ := mem_lineY.mp hq
      obtain ⟨x', _, e⟩ := mem_lineY.mp hq'
      simp only [List.cons.injEq, and_true] at e; omega)
theorem repsX2 (hLy : 1 ≤ Ly) (P : Pauli) : RepsOK (qubits Lx Ly Lz) (lineZ Lz) Lx P :=
  uopReps (qubits Lx Ly Lz) (lineZ Lz) Lx P (lineZ_nodup Lz)
    (fun i hi q hq => by
      obtain ⟨x, hx, rfl⟩ := mem_lineZ.mp hq
      rw [mem_qubits]; simp only [isE, isO] at hx ⊢; omega)
    (fun i i' h q hq hq' => by
      obtain ⟨x, _, rfl⟩ := mem_lineZ.mp hq
      obtain ⟨x', _, e⟩ := mem_lineZ.mp hq'
      simp only [List.cons.injEq, and_true] at e; omega)
theorem repsZ0 (P : Pauli) : RepsOK (qubits Lx Ly Lz) (planeX Ly Lz) Lx P :=
  uopReps (qubits Lx Ly Lz) (planeX Ly Lz) Lx P (planeX_nodup Ly Lz)
    (fun i hi q hq => by
      obtain ⟨y, z, hy, hz, rfl⟩ := mem_planeX.mp hq
      rw [mem_qubits]; simp only [isE, isO] at hy hz ⊢; omega)
    (fun i i' h q hq hq' => by
      obtain ⟨y, z, _, _, rfl⟩ := mem_planeX.mp hq
      obtain ⟨y', z', _, _, e⟩ := mem_planeX.mp hq'
      simp only [List.cons.injEq, and_true] at e; omega)
theorem repsZ1 (P : Pauli) : RepsOK (qubits Lx Ly Lz) (planeY Lz Lx) Ly P :=
  uopReps (qubits Lx Ly Lz) (planeY Lz Lx) Ly P (planeY_nodup Lz Lx)
    (fun i hi q hq => by
      obtain ⟨y, z, hy, hz, rfl⟩ := mem_planeY.mp hq
      rw [mem_qubits]; simp only [isE, isO] at hy hz ⊢; omega)
    (fun i i' h q hq hq' => by
      obtain ⟨y, z, _, _, rfl⟩ := mem_planeY.mp hq
      obtain ⟨y', z', _, _, e⟩ := mem_planeY.mp hq'
      simp only [List.cons.injEq, and_true] at e; omega)
theorem repsZ2 (P : Pauli) : RepsOK (qubits Lx Ly Lz) (planeZ Lx Ly) Lz P :=
  uopReps (qubits Lx Ly Lz) (planeZ Lx Ly) Lz P (planeZ_nodup Lx Ly)
    (fun i hi q hq => by
      obtain ⟨y, z, hy, hz, rfl⟩ := mem_planeZ.mp hq
      rw [mem_qubits]; simp only [isE, isO] at hy hz ⊢; omega)
    (fun i i' h q hq hq' => by
      obtain ⟨y, z, _, _, rfl⟩ := mem_planeZ.mp hq
      obtain ⟨y', z', _, _, e⟩ := mem_planeZ.mp hq'
      simp only [List.cons.injEq, and_true] at e; omega)

/-- every non-trivial logical operator of the `Lx × Ly × Lz` 3-D toric code has weight
    `≥ min Lx (min Ly Lz)` -/
theorem lower_bound (hLx : 2 ≤ Lx) (hLy : 2 ≤ Ly) (hLz : 2 ≤ Lz) (hwf : (lattice Lx Ly Lz).WF)
    (hv : ValidCodeL (3 * (Lx * Ly * Lz)) 3 (lattice Lx Ly Lz).rowsH (lattice Lx Ly Lz).rowsX
      (lattice Lx Ly Lz).rowsZ) :
    ∀ v, IsNontrivialLogical (3 * (Lx * Ly * Lz)) (lattice Lx Ly Lz).rowsH v →
      min Lx (min Ly Lz) ≤ pauliWeight v := by
  apply Lattice.packing_bound (lattice Lx Ly Lz) hwf
    (by rw [lattice_qubits]; exact qubits_length Lx Ly Lz) hv
  intro a ha
  rw [lattice_logX, lattice_logZ, logX_eq, logZ_eq] at ha
  rw [lattice_qubits]
  simp only [List.cons_append, List.nil_append, List.mem_cons, List.not_mem_nil, or_false] at ha
  rcases ha with rfl | rfl | rfl | rfl | rfl | rfl
  · obtain ⟨h1, h2, h3⟩ := repsX0 (Lx := Lx) (Ly := Ly) (Lz := Lz) (by omega) Pauli.X
    refine ⟨_, by rw [h1]; omega, h2, h3, ?_⟩
    intro b _ _ hb r hr
    obtain ⟨i, hi, rfl⟩ := List.mem_map.mp hr
    rw [lxK0_eq, opAntiCount_uop_hit, opAntiCount_uop_hit]
    exact parity_X0 hLx hLy hLz hb i (List.mem_range.mp hi)
  · obtain ⟨h1, h2, h3⟩ := repsX1 (Lx := Lx) (Ly := Ly) (Lz := Lz) (by omega) Pauli.X
    refine ⟨_, by rw [h1]; omega, h2, h3, ?_⟩
    intro b _ _ hb r hr
    obtain ⟨i, hi, rfl⟩ := List.mem_map.mp hr
    rw [lxK1_eq, opAntiCount_uop_hit, opAntiCount_uop_hit]
    exact parity_X1 hLx hLy hLz hb i (List.mem_range.mp hi)
  · obtain ⟨h1, h2, h3⟩ := repsX2 (Lx := Lx) (Ly := Ly) (Lz := Lz) (by omega) Pauli.X
    refine ⟨_, by rw [h1]; omega, h2, h3, ?_⟩
    intro b _ _ hb r hr
    obtain ⟨i, hi, rfl⟩ := List.mem_map.mp hr
    rw [lxK2_eq, opAntiCount_uop_hit, opAntiCount_uop_hit]
    exact parity_X2 hLx hLy hLz hb i (List.mem_range.mp hi)
  · obtain ⟨h1, h2, h3⟩ := repsZ0 (Lx := Lx) (Ly := Ly) (Lz := Lz) Pauli.Z
    refine ⟨_, by rw [h1]; omega, h2, h3, ?_⟩
    intro b _ _ hb r hr
    obtain ⟨i, hi, rfl⟩ := List.mem_map.mp hr
    rw [lzK0_eq, opAntiCount_uop_hit, opAntiCount_uop_hit]
    exact parity_Z0 hLx hLy hLz hb i (List.mem_range.mp hi)
  · obtain ⟨h1, h2, h3⟩ := repsZ1 (Lx := Lx) (Ly := Ly) (Lz := Lz) Pauli.Z
    refine ⟨_, by rw [h1]; omega, h2, h3, ?_⟩
    intro b _ _ hb r hr
    obtain ⟨i, hi, rfl⟩ := List.mem_map.mp hr
    rw [lzK1_eq, opAntiCount_uop_hit, opAntiCount_uop_hit]
    exact parity_Z1 hLx hLy hLz hb i (List.mem_range.mp hi)
  · obtain ⟨h1, h2, h3⟩ := repsZ2 (Lx := Lx) (Ly := Ly) (Lz := Lz) Pauli.Z
    refine ⟨_, by rw [h1]; omega, h2, h3, ?_⟩
    intro b _ _ hb r hr
    obtain ⟨i, hi, rfl⟩ := List.mem_map.mp hr
    rw [lzK2_eq, opAntiCount_uop_hit, opAntiCount_uop_hit]
    exact parity_Z2 hLx hLy hLz hb i (List.mem_range.mp hi)

/-! ### weights of the listed logicals, reported distance -/

theorem weight_listed (hwf : (lattice Lx Ly Lz).WF) {a : Op}
    (ha : a ∈ (lattice Lx Ly Lz).logX ++ (lattice Lx Ly Lz).logZ) :
    pauliWeight (opRow (lattice Lx Ly Lz).qubits a) = a.length :=
  pauliWeight_opRow _ hwf.qubits_nodup a (hwf.log_keys a ha) (hwf.log_supported a ha)

theorem length_uop (ks : List Coord) (p : Pauli) : (uop ks p).length = ks.length := by
  simp [uop]

/-- the weights of the rows of `logicals_x` are `[Lx, Ly, Lz]` (lines), of `logicals_z`
    `[Ly·Lz, Lz·Lx, Lx·Ly]` (planes) -/
theorem weights_listed (hwf : (lattice Lx Ly Lz).WF) :
    (lattice Lx Ly Lz).rowsX.map pauliWeight = [Lx, Ly, Lz] ∧
    (lattice Lx Ly Lz).rowsZ.map pauliWeight = [Ly * Lz, Lz * Lx, Lx * Ly] := by
  have hw := fun a ha => weight_listed hwf (a := a) ha
  rw [lattice_logX, lattice_logZ, logX_eq, logZ_eq] at hw
  unfold Lattice.rowsX Lattice.rowsZ
  rw [lattice_logX, lattice_logZ, logX_eq, logZ_eq]
  simp only [List.map_cons, List.map_nil]
  rw [hw _ (by simp), hw _ (by simp), hw _ (by simp), hw _ (by simp), hw _ (by simp),
    hw _ (by simp)]
  simp only [length_uop, lxK0, lxK1, lxK2, lzK0, lzK1, lzK2, List.length_map, length_grid2,
    length_rangeE, length_rangeO]
  exact ⟨trivial, trivial⟩

/-- `code.d` (minimum weight of the listed logicals) is `min Lx (min Ly Lz)` -/
theorem reported_distance (hLx : 1 ≤ Lx) (hLy : 1 ≤ Ly) (hLz : 1 ≤ Lz)
    (hwf : (lattice Lx Ly Lz).WF) :
    distance (lattice Lx Ly Lz).rowsX (lattice Lx Ly Lz).rowsZ = some (min Lx (min Ly Lz)) := by
  obtain ⟨h1, h2⟩ := weights_listed hwf
  unfold distance
  show (match listMin ((lattice Lx Ly Lz).rowsX.map pauliWeight),
    listMin ((lattice Lx Ly Lz).rowsZ.map pauliWeight) with
    | some a, some b => some (min a b)
    | _, _ => none) = _
  rw [h1, h2]
  simp only [listMin, List.foldl_cons, List.foldl_nil]
  congr 1
  have a1 : Ly ≤ Ly * Lz := Nat.le_mul_of_pos_right _ (by omega)
  have a2 : Lz ≤ Lz * Lx := Nat.le_mul_of_pos_right _ (by omega)
  have a3 : Lx ≤ Lx * Ly := Nat.le_mul_of_pos_right _ (by omega)
  generalize Ly * Lz = p at *
  generalize Lz * Lx = q at *
  generalize Lx * Ly = r at *
  omega

end Panqec.Toric3DCode
