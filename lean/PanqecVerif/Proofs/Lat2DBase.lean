/-
Generic lemmas for the hand-written 2-D lattice models (core Lean only):
ranges and grids (membership, distinctness), the dict-building loops `collect` / `lineOp`
as filtered maps, `opAntiCount` of two single-letter operators as the size of the key
intersection, symmetry of that size, and counting lemmas.
-/
import PanqecVerif.Model.Lattices.Lat2DBase

namespace Panqec.Lat2D

/-! ### ranges and grids -/

theorem mem_pyRange2 {a b : Nat} {x : Int} :
    x ∈ pyRange2 a b ↔ (a : Int) ≤ x ∧ x < b ∧ x % 2 = (a : Int) % 2 := by
  unfold pyRange2
  simp only [List.mem_map, List.mem_range']
  constructor
  · rintro ⟨m, ⟨i, hi, rfl⟩, rfl⟩
    simp only [Int.ofNat_eq_natCast]
    omega
  · rintro ⟨h1, h2, h3⟩
    refine ⟨x.toNat, ⟨(x.toNat - a) / 2, ?_, ?_⟩, ?_⟩
    · omega
    · omega
    · simp only [Int.ofNat_eq_natCast]; omega

theorem nodup_pyRange2 (a b : Nat) : (pyRange2 a b).Nodup := by
  unfold pyRange2
  show List.Pairwise _ _
  rw [List.pairwise_map]
  refine List.Pairwise.imp ?_ (List.nodup_range' 2 (by omega))
  intro a b h h'
  have h'' : (a : Int) = (b : Int) := h'
  exact h (by omega)

theorem length_pyRange2 (a b : Nat) : (pyRange2 a b).length = (b - a + 1) / 2 := by
  simp [pyRange2]

theorem mem_gridIf {xs ys : List Int} {p : Int → Int → Bool} {q : Coord} :
    q ∈ gridIf xs ys p ↔ ∃ x y, x ∈ xs ∧ y ∈ ys ∧ p x y = true ∧ q = [x, y] := by
  unfold gridIf
  simp only [List.mem_flatMap, List.mem_map, List.mem_filter]
  constructor
  · rintro ⟨x, hx, y, ⟨hy, hp⟩, rfl⟩; exact ⟨x, y, hx, hy, hp, rfl⟩
  · rintro ⟨x, y, hx, hy, hp, rfl⟩; exact ⟨x, hx, y, ⟨hy, hp⟩, rfl⟩

theorem filter_const_true {α} (l : List α) : l.filter (fun _ => true) = l :=
  List.filter_eq_self.mpr (by simp)

theorem grid_eq_gridIf (xs ys : List Int) : grid xs ys = gridIf xs ys (fun _ _ => true) := by
  simp [grid, gridIf, filter_const_true]

theorem mem_grid {xs ys : List Int} {q : Coord} :
    q ∈ grid xs ys ↔ ∃ x y, x ∈ xs ∧ y ∈ ys ∧ q = [x, y] := by
  rw [grid_eq_gridIf, mem_gridIf]; simp

theorem nodup_gridIf {xs ys : List Int} (p : Int → Int → Bool) (hx : xs.Nodup) (hy : ys.Nodup) :
    (gridIf xs ys p).Nodup := by
  unfold gridIf
  show List.Pairwise _ _
  rw [List.pairwise_flatMap]
  constructor
  · intro x _
    rw [List.pairwise_map]
    exact (hy.sublist List.filter_sublist).imp (fun h h' => h (by simpa using h'))
  · refine List.Pairwise.imp ?_ hx
    intro a b hab q hq r hr
    simp only [List.mem_map, List.mem_filter] at hq hr
    obtain ⟨y, _, rfl⟩ := hq
    obtain ⟨y', _, rfl⟩ := hr
    intro h
    apply hab
    simpa using (List.cons.inj h).1

theorem nodup_grid {xs ys : List Int} (hx : xs.Nodup) (hy : ys.Nodup) : (grid xs ys).Nodup := by
  rw [grid_eq_gridIf]; exact nodup_gridIf _ hx hy

theorem length_grid (xs ys : List Int) : (grid xs ys).length = xs.length * ys.length := by
  unfold grid
  induction xs with
  | nil => simp
  | cons x xs ih => simp [List.flatMap_cons, ih, Nat.add_mul, Nat.add_comm]

theorem isIn_iff {l : List Coord} {q : Coord} : isIn l q = true ↔ q ∈ l := by
  simp [isIn]

/-! ### the dict-building loops -/

theorem insert_fresh (op : Op) (q : Coord) (p : Pauli) (h : q ∉ op.map Prod.fst) :
    op.insert q p = op ++ [(q, p)] := by
  unfold Op.insert
  have : op.any (fun e => e.1 == q) = false := by
    rw [List.any_eq_false]
    intro e he hq
    exact h (List.mem_map.mpr ⟨e, he, by simpa using hq⟩)
  simp [this]

theorem collect_aux (f : Coord → Bool) (P : Pauli) :
    ∀ (cands : List Coord) (acc : Op), cands.Nodup →
      (∀ q ∈ cands, q ∉ acc.map Prod.fst) →
      cands.foldl (fun op q => if f q then op.insert q P else op) acc
        = acc ++ (cands.filter f).map (fun q => (q, P))
  | [], acc, _, _ => by simp
  | q :: rest, acc, hnd, hfresh => by
    rw [List.nodup_cons] at hnd
    rw [List.foldl_cons]
    by_cases hq : f q = true
    · rw [if_pos hq, insert_fresh acc q P (hfresh q (List.mem_cons_self ..))]
      rw [collect_aux f P rest _ hnd.2]
      · simp [hq]
      · intro r hr
        simp only [List.map_append, List.map_cons, List.map_nil, List.mem_append,
          List.mem_singleton, not_or]
        exact ⟨hfresh r (List.mem_cons_of_mem _ hr), fun h => hnd.1 (h ▸ hr)⟩
    · rw [if_neg hq, collect_aux f P rest _ hnd.2]
      · simp [hq]
      · intro r hr; exact hfresh r (List.mem_cons_of_mem _ hr)

/-- distinct candidates: the dict is the filtered candidate list, in order -/
theorem collect_eq (cands : List Coord) (f : Coord → Bool) (P : Pauli) (h : cands.Nodup) :
    collect cands f P = (cands.filter f).map (fun q => (q, P)) := by
  unfold collect
  rw [collect_aux f P cands [] h (by simp)]; simp

theorem lineOp_eq (keys : List Coord) (P : Pauli) (h : keys.Nodup) :
    lineOp keys P = keys.map (fun q => (q, P)) := by
  have := collect_eq keys (fun _ => true) P h
  simpa [collect, lineOp, filter_const_true] using this

/-! ### anticommutation count of two single-letter operators -/

/-- number of elements of `A` that occur in `B` -/
def interCount (A B : List Coord) : Nat := A.countP (fun q => B.contains q)

theorem get?_const (B : List Coord) (Q : Pauli) (q : Coord) :
    Op.get? (B.map (fun b => (b, Q))) q = if B.contains q then some Q else none := by
  unfold Op.get?
  induction B with
  | nil => simp
  | cons b B ih =>
    simp only [List.map_cons, List.find?_cons, List.contains_cons]
    by_cases h : b = q
    · subst h; simp
    · have h' : (b == q) = false := by simpa using h
      have h'' : (q == b) = false := by simpa using fun e => h e.symm
      simp only [h', h'', Bool.false_or]
      exact ih

theorem opAntiCount_const (A B : List Coord) (P Q : Pauli) :
    opAntiCount (A.map (fun q => (q, P))) (B.map (fun q => (q, Q)))
      = if Pauli.anti P Q then interCount A B else 0 := by
  unfold opAntiCount interCount
  rw [List.filter_map, List.length_map, ← List.countP_eq_length_filter]
  by_cases h : Pauli.anti P Q = true
  · rw [if_pos h]
    apply List.countP_congr
    intro q _
    simp only [Function.comp, get?_const]
    by_cases hq : q ∈ B <;> simp [hq, h]
  · rw [if_neg h, List.countP_eq_zero]
    intro q _
    simp only [Function.comp, get?_const]
    by_cases hq : q ∈ B <;> simp [hq, h]

theorem opCommute_same (A B : List Coord) (P : Pauli) :
    opCommute (A.map (fun q => (q, P))) (B.map (fun q => (q, P))) = true := by
  unfold opCommute
  rw [opAntiCount_const]
  cases P <;> simp [Pauli.anti]

theorem countP_or_disjoint {α} (p q : α → Bool) (l : List α)
    (h : ∀ a ∈ l, ¬ (p a = true ∧ q a = true)) :
    l.countP (fun a => p a || q a) = l.countP p + l.countP q := by
  induction l with
  | nil => simp
  | cons a l ih =>
    have ih' := ih (fun b hb => h b (List.mem_cons_of_mem _ hb))
    have ha := h a (List.mem_cons_self ..)
    simp only [List.countP_cons, ih']
    cases hp : p a <;> cases hq : q a <;> simp_all <;> omega

theorem interCount_comm (A B : List Coord) (hA : A.Nodup) (hB : B.Nodup) :
    interCount A B = interCount B A := by
  unfold interCount
  induction A with
  | nil => simp
  | cons a A ih =>
    rw [List.nodup_cons] at hA
    rw [List.countP_cons, ih hA.2]
    have h1 : B.countP (fun q => (a :: A).contains q) =
        B.countP (fun q => q == a || A.contains q) := by
      apply List.countP_congr; intro q _; simp
    rw [h1, countP_or_disjoint (fun q => q == a) (fun q => A.contains q) B]
    · have h2 : B.countP (fun q => q == a) = B.count a := rfl
      rw [h2, hB.count]
      by_cases hab : a ∈ B <;> simp [hab] <;> omega
    · intro q _ ⟨h3, h4⟩
      have : q = a := by simpa using h3
      subst this
      exact hA.1 (by simpa using h4)

/-- exactly one element of a duplicate-free list satisfies `p` -/
theorem countP_eq_one {α} [DecidableEq α] (p : α → Bool) (l : List α) (a0 : α) (hl : l.Nodup)
    (h0 : a0 ∈ l) (hp : p a0 = true) (huniq : ∀ a ∈ l, p a = true → a = a0) :
    l.countP p = 1 := by
  have h1 : l.countP p = l.countP (fun a => a == a0) := by
    apply List.countP_congr
    intro a ha
    constructor
    · intro h; simpa using huniq a ha h
    · intro h; have : a = a0 := by simpa using h
      rw [this]; exact hp
  have h2 : l.countP (fun a => a == a0) = l.count a0 := rfl
  rw [h1, h2, hl.count]; simp [h0]

/-- `interCount` over an explicit filtered 4-element candidate list -/
theorem interCount_filter4 (c1 c2 c3 c4 : Coord) (f : Coord → Bool) (B : List Coord) :
    interCount ([c1, c2, c3, c4].filter f) B =
      (if f c1 = true ∧ c1 ∈ B then 1 else 0) + (if f c2 = true ∧ c2 ∈ B then 1 else 0) +
      (if f c3 = true ∧ c3 ∈ B then 1 else 0) + (if f c4 = true ∧ c4 ∈ B then 1 else 0) := by
  unfold interCount
  rw [List.countP_filter]
  simp only [List.countP_cons, List.countP_nil, Bool.and_eq_true, List.contains_eq_mem,
    decide_eq_true_eq]
  simp only [and_comm]
  omega

theorem mem_filter_map_fst {cands : List Coord} {f : Coord → Bool} {P : Pauli} {e : Coord × Pauli} :
    e ∈ (cands.filter f).map (fun q => (q, P)) ↔ e.1 ∈ cands ∧ f e.1 = true ∧ e.2 = P := by
  simp only [List.mem_map, List.mem_filter]
  constructor
  · rintro ⟨q, ⟨h1, h2⟩, rfl⟩; exact ⟨h1, h2, rfl⟩
  · rintro ⟨h1, h2, h3⟩; exact ⟨e.1, ⟨h1, h2⟩, by rw [← h3]⟩

end Panqec.Lat2D

namespace Panqec.Lat2D

theorem interCount_4 (c1 c2 c3 c4 : Coord) (B : List Coord) :
    interCount [c1, c2, c3, c4] B =
      (if c1 ∈ B then 1 else 0) + (if c2 ∈ B then 1 else 0) +
      (if c3 ∈ B then 1 else 0) + (if c4 ∈ B then 1 else 0) := by
  have h := interCount_filter4 c1 c2 c3 c4 (fun _ => true) B
  rw [filter_const_true] at h
  simpa using h

theorem nodup_map_pair {l : List Int} (f : Int → Coord) (hf : ∀ a b, f a = f b → a = b)
    (h : l.Nodup) : (l.map f).Nodup := by
  show List.Pairwise _ _
  rw [List.pairwise_map]
  exact List.Pairwise.imp (fun hab h' => hab (hf _ _ h')) h

end Panqec.Lat2D

namespace Panqec.Lat2D

theorem opCommute_const_of (A B : List Coord) (P Q : Pauli)
    (h : Pauli.anti P Q = true → interCount A B % 2 = 0) :
    opCommute (A.map (fun q => (q, P))) (B.map (fun q => (q, Q))) = true := by
  unfold opCommute
  rw [opAntiCount_const]
  by_cases hPQ : Pauli.anti P Q = true
  · rw [if_pos hPQ, h hPQ]; rfl
  · rw [if_neg hPQ]; rfl

theorem map_fst_const (A : List Coord) (P : Pauli) : (A.map (fun q => (q, P))).map Prod.fst = A := by
  induction A with
  | nil => rfl
  | cons a A ih => simp_all

end Panqec.Lat2D

namespace Panqec.Lat2D

/-! ### `get_deformation` -/

theorem deformBy_XZZX (qa : Coord → Option String) (axis : String) (loc : Coord)
    (hax : axis = "x" ∨ axis = "y") :
    deformBy qa "XZZX" axis loc =
      (qa loc).map (fun a => if a = axis then PauliMap.swapXZ else PauliMap.id) := by
  unfold deformBy
  have h : ¬ (axis ≠ "x" ∧ axis ≠ "y") := by
    rcases hax with rfl | rfl <;> simp
  rw [if_neg h, if_pos rfl]
  cases qa loc with
  | none => rfl
  | some a => by_cases ha : a = axis <;> simp [ha]

theorem deformBy_XY (qa : Coord → Option String) (axis : String) (loc : Coord)
    (hax : axis = "x" ∨ axis = "y") :
    deformBy qa "XY" axis loc = some PauliMap.swapYZ := by
  unfold deformBy
  have h : ¬ (axis ≠ "x" ∧ axis ≠ "y") := by
    rcases hax with rfl | rfl <;> simp
  rw [if_neg h, if_neg (by decide), if_pos rfl]

theorem deformBy_bad_axis (qa : Coord → Option String) (name axis : String) (loc : Coord)
    (hx : axis ≠ "x") (hy : axis ≠ "y") : deformBy qa name axis loc = none := by
  unfold deformBy
  rw [if_pos ⟨hx, hy⟩]

theorem deformBy_bad_name (qa : Coord → Option String) (name axis : String) (loc : Coord)
    (h1 : name ≠ "XZZX") (h2 : name ≠ "XY") : deformBy qa name axis loc = none := by
  unfold deformBy
  by_cases h : axis ≠ "x" ∧ axis ≠ "y"
  · rw [if_pos h]
  · rw [if_neg h, if_neg h1, if_neg h2]

end Panqec.Lat2D

namespace Panqec.Lat2D

/-- `interCount_filter4` with each membership condition replaced by an equivalent proposition -/
theorem interCount_filter4_iff (c1 c2 c3 c4 : Coord) (f : Coord → Bool) (B : List Coord)
    (P1 P2 P3 P4 : Prop) [Decidable P1] [Decidable P2] [Decidable P3] [Decidable P4]
    (h1 : (f c1 = true ∧ c1 ∈ B) ↔ P1) (h2 : (f c2 = true ∧ c2 ∈ B) ↔ P2)
    (h3 : (f c3 = true ∧ c3 ∈ B) ↔ P3) (h4 : (f c4 = true ∧ c4 ∈ B) ↔ P4) :
    interCount ([c1, c2, c3, c4].filter f) B =
      (if P1 then 1 else 0) + (if P2 then 1 else 0) + (if P3 then 1 else 0) +
      (if P4 then 1 else 0) := by
  rw [interCount_filter4]
  simp only [h1, h2, h3, h4]

end Panqec.Lat2D
