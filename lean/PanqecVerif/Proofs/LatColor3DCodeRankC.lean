/-
Color3DCode, rank clause, Z-type part: the `2·LxLyLz − 3` selected cells are GF(2)-independent
(`Cubic3D.OpsIndep`, by the triangular criterion with the witnesses and ranks of
`Proofs/LatColor3DCodeRankB.lean`).  Every side `≥ 2` (odd sides included).
-/
import PanqecVerif.Proofs.LatColor3DCodeRankB2

set_option linter.unusedVariables false

namespace Panqec.Color3DCode
open Panqec.Lat2D Panqec.Color

section
variable {Lx Ly Lz : Nat} {x y z : Int}

theorem wit_bulk (h : 8 ≤ z) : wit Ly x y z = [x - 1, wr Ly y, z - 2] := by
  unfold wit; rw [if_pos h]

theorem wit_slabA (h : z = 2 ∨ z = 6) (hx : x ≠ 6) :
    wit Ly x y z = [x - 2, y, (z + 4) / 2] := by
  unfold wit; rw [if_neg (by omega), if_neg (by omega), if_neg hx]

theorem wit_lineA (h : z = 2 ∨ z = 6) : wit Ly 6 y z = [6, y - 2, (z + 4) / 2] := by
  unfold wit; rw [if_neg (by omega), if_neg (by omega), if_pos rfl]

theorem wit_slabB (hx : 12 ≤ x) : wit Ly x y 4 = [x - 2, wr Ly y, 3] := by
  unfold wit
  rw [if_neg (by omega), if_pos rfl, if_neg (by omega), if_neg (by omega)]

theorem wit_lineB4 : wit Ly 4 y 4 = [5, y - 2, 4] := by
  unfold wit; rw [if_neg (by omega), if_pos rfl, if_pos rfl]

theorem wit_lineB8 (hy : y ≠ 4) : wit Ly 8 y 4 = [7, y - 2, 4] := by
  unfold wit
  rw [if_neg (by omega), if_pos rfl, if_neg (by omega), if_pos rfl, if_neg hy]

theorem wit_first : wit Ly 8 4 4 = [6, 3, 4] := by
  unfold wit
  rw [if_neg (by omega), if_pos rfl, if_neg (by omega), if_pos rfl, if_pos rfl]

/-- the classes of a selected cell -/
theorem IsK.cases (h : IsK Lx Ly Lz x y z) :
    8 ≤ z ∨ ((z = 2 ∨ z = 6) ∧ x ≠ 6) ∨ ((z = 2 ∨ z = 6) ∧ x = 6 ∧ 6 ≤ y) ∨
    (z = 4 ∧ 12 ≤ x) ∨ (z = 4 ∧ x = 4 ∧ 8 ≤ y) ∨ (z = 4 ∧ x = 8 ∧ 8 ≤ y) ∨
    (z = 4 ∧ x = 8 ∧ y = 4) := by
  obtain ⟨hc, k1, k2, k3⟩ := h
  obtain ⟨x0, x1, y0, y1, z0, z1, px, rx, ry⟩ := hc.cellR
  by_cases h8 : 8 ≤ z
  · exact Or.inl h8
  · right
    have hz : z = 2 ∨ z = 4 ∨ z = 6 := by omega
    rcases hz with rfl | rfl | rfl
    · by_cases h6 : x = 6
      · right; left
        have : 6 ≤ y := by omega
        exact ⟨Or.inl rfl, h6, this⟩
      · exact Or.inl ⟨Or.inl rfl, h6⟩
    · right; right
      have hx : x = 4 ∨ x = 8 ∨ 12 ≤ x := by omega
      rcases hx with rfl | rfl | hx
      · right; left
        have : 8 ≤ y := by omega
        exact ⟨rfl, rfl, this⟩
      · right; right
        have hy : y = 4 ∨ 8 ≤ y := by omega
        rcases hy with rfl | hy
        · exact Or.inr ⟨rfl, rfl, rfl⟩
        · exact Or.inl ⟨rfl, rfl, hy⟩
      · exact Or.inl ⟨rfl, hx⟩
    · by_cases h6 : x = 6
      · right; left
        have : 6 ≤ y := by omega
        exact ⟨Or.inr rfl, h6, this⟩
      · exact Or.inl ⟨Or.inr rfl, h6⟩

theorem wr_range {L : Nat} {v : Int} (h0 : 2 ≤ v) (h1 : v ≤ 4 * (L : Int)) :
    0 ≤ wr L v ∧ wr L v < 4 * (L : Int) := by
  unfold wr; by_cases h : v = 4 * (L : Int)
  · rw [if_pos h]; omega
  · rw [if_neg h]; omega

theorem wr_sub {L : Nat} {v : Int} : wr L v - v = 0 ∨ wr L v - v = -(4 * (L : Int)) := by
  unfold wr; by_cases h : v = 4 * (L : Int)
  · rw [if_pos h]; omega
  · rw [if_neg h]; omega

theorem DSpec.c2 {d1 d2 d3 : Int} (h1 : d1 = 0) (h2 : d2 = 2 ∨ d2 = -2) (h3 : d3 = 1 ∨ d3 = -1) :
    DSpec d1 d2 d3 := Or.inr (Or.inl ⟨h1, h2, h3⟩)
theorem DSpec.c3 {d1 d2 d3 : Int} (h2 : d2 = 0) (h1 : d1 = 1 ∨ d1 = -1) (h3 : d3 = 2 ∨ d3 = -2) :
    DSpec d1 d2 d3 := Or.inr (Or.inr (Or.inl ⟨h2, h1, h3⟩))
theorem DSpec.c4 {d1 d2 d3 : Int} (h2 : d2 = 0) (h1 : d1 = 2 ∨ d1 = -2) (h3 : d3 = 1 ∨ d3 = -1) :
    DSpec d1 d2 d3 := Or.inr (Or.inr (Or.inr (Or.inl ⟨h2, h1, h3⟩)))
theorem DSpec.c5 {d1 d2 d3 : Int} (h3 : d3 = 0) (h1 : d1 = 1 ∨ d1 = -1) (h2 : d2 = 2 ∨ d2 = -2) :
    DSpec d1 d2 d3 := Or.inr (Or.inr (Or.inr (Or.inr (Or.inl ⟨h3, h1, h2⟩))))
theorem DSpec.c6 {d1 d2 d3 : Int} (h3 : d3 = 0) (h1 : d1 = 2 ∨ d1 = -2) (h2 : d2 = 1 ∨ d2 = -1) :
    DSpec d1 d2 d3 := Or.inr (Or.inr (Or.inr (Or.inr (Or.inr ⟨h3, h1, h2⟩))))

/-- the witness with a wrapped `y`: the vertex `(x + d1, 4Ly, z + d3)` is written `(x + d1, 0, z + d3)` -/
theorem wit_mem_wr (hc : IsC Lx Ly Lz x y z) {d1 d3 : Int} (hd : (d1, (0 : Int), d3) ∈ deltaCell)
    (h1 : 0 ≤ x + d1 ∧ x + d1 < 4 * (Lx : Int)) (h3 : 0 ≤ z + d3 ∧ z + d3 < 4 * (Lz : Int)) :
    [x + d1, wr Ly y, z + d3] ∈ keys Lx Ly Lz x y z := by
  have hcl := hc.cellLoc
  obtain ⟨x0, x1, y0, y1, z0, z1, px, rx, ry⟩ := hc.cellR
  by_cases hyw : y = 4 * (Ly : Int)
  · rw [keys_cell Lx Ly Lz hcl, List.mem_map]
    refine ⟨(d1, 0, d3), hd, ?_⟩
    unfold wrapAt wr
    rw [if_pos hyw]
    simp only [List.cons.injEq, and_true]
    refine ⟨emod_small h1.1 h1.2, ?_, emod_small h3.1 h3.2⟩
    rw [hyw, Int.add_zero]; exact Int.emod_self
  · have e : wr Ly y = y := by unfold wr; rw [if_neg hyw]
    rw [e]
    have hs := deltaCell_spec _ hd
    exact cell_hits hcl (by rw [show x + d1 - x = d1 by omega, show y - y = 0 by omega,
      show z + d3 - z = d3 by omega]; exact hs) h1 (by omega) h3

theorem wit_mem_bulk (hc : IsC Lx Ly Lz x y z) (c : 8 ≤ z) :
    wit Ly x y z ∈ keys Lx Ly Lz x y z := by
  obtain ⟨x0, x1, y0, y1, z0, z1, px, rx, ry⟩ := hc.cellR
  rw [wit_bulk c]
  have := wit_mem_wr hc (d1 := -1) (d3 := -2) (by decide) (by omega) (by omega)
  rw [show x + -1 = x - 1 by omega, show z + -2 = z - 2 by omega] at this
  exact this

theorem wit_mem_slabB (hc : IsC Lx Ly Lz x y 4) (c : 12 ≤ x) :
    wit Ly x y 4 ∈ keys Lx Ly Lz x y 4 := by
  obtain ⟨x0, x1, y0, y1, z0, z1, px, rx, ry⟩ := hc.cellR
  rw [wit_slabB c]
  have := wit_mem_wr hc (d1 := -2) (d3 := -1) (by decide) (by omega) (by omega)
  rw [show x + -2 = x - 2 by omega, show (4 : Int) + -1 = 3 by omega] at this
  exact this

theorem wit_mem_slabA (hc : IsC Lx Ly Lz x y z) (c : z = 2 ∨ z = 6) (c' : x ≠ 6) :
    wit Ly x y z ∈ keys Lx Ly Lz x y z := by
  obtain ⟨x0, x1, y0, y1, z0, z1, px, rx, ry⟩ := hc.cellR
  rw [wit_slabA c c']
  have hyA : y < 4 * (Ly : Int) := by omega
  exact cell_hits hc.cellLoc (DSpec.c4 (by omega) (by omega) (by omega)) (by omega) (by omega)
    (by omega)

theorem wit_mem_lineA (hc : IsC Lx Ly Lz 6 y z) (c : z = 2 ∨ z = 6) (c' : 6 ≤ y) :
    wit Ly 6 y z ∈ keys Lx Ly Lz 6 y z := by
  obtain ⟨x0, x1, y0, y1, z0, z1, px, rx, ry⟩ := hc.cellR
  rw [wit_lineA c]
  exact cell_hits hc.cellLoc (DSpec.c2 (by omega) (by omega) (by omega)) (by omega) (by omega)
    (by omega)

theorem wit_mem_lineB4 (hLx : 2 ≤ Lx) (hLz : 2 ≤ Lz) (hc : IsC Lx Ly Lz 4 y 4) (c : 8 ≤ y) :
    wit Ly 4 y 4 ∈ keys Lx Ly Lz 4 y 4 := by
  obtain ⟨x0, x1, y0, y1, z0, z1, px, rx, ry⟩ := hc.cellR
  rw [wit_lineB4]
  exact cell_hits hc.cellLoc (DSpec.c5 (by omega) (by omega) (by omega)) (by omega) (by omega)
    (by omega)

theorem wit_mem_lineB8 (hLx : 2 ≤ Lx) (hLz : 2 ≤ Lz) (hc : IsC Lx Ly Lz 8 y 4) (c : 8 ≤ y) :
    wit Ly 8 y 4 ∈ keys Lx Ly Lz 8 y 4 := by
  obtain ⟨x0, x1, y0, y1, z0, z1, px, rx, ry⟩ := hc.cellR
  rw [wit_lineB8 (by omega)]
  exact cell_hits hc.cellLoc (DSpec.c5 (by omega) (by omega) (by omega)) (by omega) (by omega)
    (by omega)

theorem wit_mem_first (hLx : 2 ≤ Lx) (hLz : 2 ≤ Lz) (hc : IsC Lx Ly Lz 8 4 4) : wit Ly 8 4 4 ∈ keys Lx Ly Lz 8 4 4 := by
  obtain ⟨x0, x1, y0, y1, z0, z1, px, rx, ry⟩ := hc.cellR
  rw [wit_first]
  exact cell_hits hc.cellLoc (DSpec.c6 (by omega) (by omega) (by omega)) (by omega) (by omega)
    (by omega)

/-- the witness of a selected cell is one of its vertices -/
theorem wit_mem (hLx : 2 ≤ Lx) (hLz : 2 ≤ Lz) (h : IsK Lx Ly Lz x y z) : wit Ly x y z ∈ keys Lx Ly Lz x y z := by
  have hc := h.1
  rcases h.cases with c | ⟨c, c'⟩ | ⟨c, rfl, c'⟩ | ⟨rfl, c⟩ | ⟨rfl, rfl, c⟩ | ⟨rfl, rfl, c⟩ | ⟨rfl, rfl, rfl⟩
  · exact wit_mem_bulk hc c
  · exact wit_mem_slabA hc c c'
  · exact wit_mem_lineA hc c c'
  · exact wit_mem_slabB hc c
  · exact wit_mem_lineB4 hLx hLz hc c
  · exact wit_mem_lineB8 hLx hLz hc c
  · exact wit_mem_first hLx hLz hc

/-- every other selected cell on the witness of a selected cell has smaller rank -/
theorem wit_tri {tx ty tz : Int} (h : IsK Lx Ly Lz x y z) (ht : IsK Lx Ly Lz tx ty tz)
    (hq : wit Ly x y z ∈ keys Lx Ly Lz tx ty tz) :
    (tx = x ∧ ty = y ∧ tz = z) ∨ rk Lx Ly Lz tx ty tz < rk Lx Ly Lz x y z := by
  rcases h.cases with c | ⟨c, c'⟩ | ⟨c, rfl, c'⟩ | ⟨rfl, c⟩ | ⟨rfl, rfl, c⟩ | ⟨rfl, rfl, c⟩ | ⟨rfl, rfl, rfl⟩
  · rw [wit_bulk c] at hq
    exact tri_bulk h.1 c ht.1 hq
  · rw [wit_slabA c c'] at hq
    exact tri_slabA h.1 c' ht.1 (c := (z + 4) / 2) (by omega) hq
  · rw [wit_lineA c] at hq
    exact tri_lineA h.1 c' ht.1 (c := (z + 4) / 2) (by omega) hq
  · rw [wit_slabB c] at hq
    exact tri_slabB h.1 c ht.1 hq
  · rw [wit_lineB4] at hq
    exact tri_lineB h.1 c ht.1 (Or.inl ⟨rfl, rfl⟩) hq
  · rw [wit_lineB8 (by omega)] at hq
    exact tri_lineB h.1 c ht.1 (Or.inr ⟨rfl, rfl⟩) hq
  · rw [wit_first] at hq
    exact Or.inl (tri_first ht hq)

end

/-- the triangular property of the selected cells -/
theorem cells_triangular {Lx Ly Lz : Nat} (hx : 2 ≤ Lx) (hy : 2 ≤ Ly) (hz : 2 ≤ Lz) :
    ∀ s ∈ selCells Lx Ly Lz,
      Cubic3D.hit false ((lattice Lx Ly Lz).getStab s) (cellWit Ly s) = true ∧
      ∀ t ∈ selCells Lx Ly Lz, Cubic3D.hit false ((lattice Lx Ly Lz).getStab t) (cellWit Ly s) = true →
        t = s ∨ cellRank Lx Ly Lz t < cellRank Lx Ly Lz s := by
  intro s hs
  obtain ⟨x, y, z, rfl⟩ := shape_selCells hs
  have hk := mem_selCells.mp hs
  have hh : ∀ (op : Op) (q : Coord), Cubic3D.hit false op q = Cubic3D.hitZ op q := by
    intro op q; simp [Cubic3D.hit]
  refine ⟨?_, ?_⟩
  · rw [hh, hitZ_cell hx hy hz hk.1]
    exact wit_mem hx hz hk
  · intro t ht hhit
    obtain ⟨tx, ty, tz, rfl⟩ := shape_selCells ht
    have htk := mem_selCells.mp ht
    rw [hh, hitZ_cell hx hy hz htk.1] at hhit
    rcases wit_tri hk htk hhit with ⟨rfl, rfl, rfl⟩ | hlt
    · exact Or.inl rfl
    · exact Or.inr hlt

/-- the selected cells are GF(2)-independent -/
theorem cells_indep {Lx Ly Lz : Nat} (hx : 2 ≤ Lx) (hy : 2 ≤ Ly) (hz : 2 ≤ Lz) :
    Cubic3D.OpsIndep ((selCells Lx Ly Lz).map (lattice Lx Ly Lz).getStab) :=
  Cubic3D.opsIndep_of_triangular (nodup_selCells Lx Ly Lz) (cellRank Lx Ly Lz) (cellWit Ly)
    (fun _ => false) (cells_triangular hx hy hz)

end Panqec.Color3DCode
