/-
`HollowRhombicCode` for every size: the stabilizer list in closed form (cubes of the checkerboard
`(x+y+z) % 4 = 1` not entirely inside the hole; triangles selected by the number of their keys and
the boundary predicates), `get_stabilizer` as a filtered candidate list.  Core Lean only.
-/
import PanqecVerif.Proofs.LatHollowRhombicCodeA

set_option linter.unusedVariables false
set_option linter.unusedSimpArgs false

namespace Panqec.HollowRhombicCode
open Panqec.Cubic3D
open Panqec.Planar3DCode (inE inO inE2 inO1)

/-- `is_qubit` -/
def isq (Lx Ly Lz : Nat) (q : Coord) : Bool := (qubits Lx Ly Lz).contains q

theorem isq_iff {Lx Ly Lz : Nat} {q : Coord} : isq Lx Ly Lz q = true ↔ q ∈ qubits Lx Ly Lz := by
  unfold isq; simp

/-! ### cubes -/

/-- the location is listed by the cube loop -/
def CubeLoc (Lx Ly Lz : Nat) (x y z : Int) : Prop :=
  (1 ≤ x ∧ x < 2 * (Lx : Int) ∧ x % 2 = 1) ∧ (-1 ≤ y ∧ y < 2 * (Ly : Int) ∧ y % 2 = 1) ∧
  (1 ≤ z ∧ z < 2 * (Lz : Int) - 1 ∧ z % 2 = 1) ∧ (x + y + z) % 4 = 1 ∧
  ¬ (Hole Lx Ly Lz (x - 1) (y - 1) (z - 1) ∧ Hole Lx Ly Lz (x + 1) (y + 1) (z + 1))

theorem allCorners_iff {Lx Ly Lz : Nat} {x y z : Int} :
    allCornersInHole Lx Ly Lz x y z = true ↔
      (Hole Lx Ly Lz (x - 1) (y - 1) (z - 1) ∧ Hole Lx Ly Lz (x + 1) (y + 1) (z + 1)) := by
  unfold allCornersInHole
  simp only [List.all_cons, List.all_nil, Bool.and_true, Bool.and_eq_true, inHole_iff]
  unfold Hole
  constructor
  · intro h
    have h1 := h.1.1.1
    have h2 := h.2.2.2
    rw [show x + -1 = x - 1 by omega, show y + -1 = y - 1 by omega, show z + -1 = z - 1 by omega] at h1
    exact ⟨h1, h2⟩
  · rintro ⟨h1, h2⟩
    refine ⟨⟨⟨?_, ?_⟩, ⟨?_, ?_⟩⟩, ⟨⟨?_, ?_⟩, ⟨?_, ?_⟩⟩⟩ <;> omega

theorem keepCube_iff {Lx Ly Lz : Nat} {x y z : Int} (hz : 1 ≤ z ∧ z < 2 * (Lz : Int) - 1) :
    keepCube Lx Ly Lz x y z = true ↔ ((x + y + z) % 4 = 1 ∧
      ¬ (Hole Lx Ly Lz (x - 1) (y - 1) (z - 1) ∧ Hole Lx Ly Lz (x + 1) (y + 1) (z + 1))) := by
  unfold keepCube
  simp only [Bool.and_eq_true, decide_eq_true_eq, Bool.not_eq_true', Bool.or_eq_false_iff,
    Bool.and_eq_false_iff, beq_eq_false_iff_ne, ne_eq]
  rw [← Bool.not_eq_true, allCorners_iff]
  constructor
  · rintro ⟨⟨h1, _⟩, h2⟩; exact ⟨h1, h2⟩
  · rintro ⟨h1, h2⟩
    refine ⟨⟨h1, ⟨⟨?_, ?_⟩, ?_⟩, ?_⟩, h2⟩ <;> right <;> omega

theorem mem_cubes {Lx Ly Lz : Nat} {q : Coord} :
    q ∈ cubes Lx Ly Lz ↔ ∃ x y z, q = [x, y, z] ∧ CubeLoc Lx Ly Lz x y z := by
  unfold cubes CubeLoc
  simp only [List.mem_flatMap, List.mem_map, List.mem_filter, mem_range2]
  constructor
  · rintro ⟨x, hx, y, hy, z, ⟨hz, hk⟩, rfl⟩
    refine ⟨x, y, z, rfl, by omega, by omega, by omega, ?_⟩
    exact (keepCube_iff (by omega)).mp hk
  · rintro ⟨x, y, z, rfl, hx, hy, hz, hk⟩
    exact ⟨x, by omega, y, by omega, z, ⟨by omega, (keepCube_iff (by omega)).mpr hk⟩, rfl⟩

theorem mem_cubes' {Lx Ly Lz : Nat} {x y z : Int} :
    [x, y, z] ∈ cubes Lx Ly Lz ↔ CubeLoc Lx Ly Lz x y z := by
  rw [mem_cubes]
  constructor
  · rintro ⟨x', y', z', h, hq⟩
    simp only [List.cons.injEq, and_true] at h
    rw [h.1, h.2.1, h.2.2]; exact hq
  · intro h; exact ⟨x, y, z, rfl, h⟩

theorem sublist_flatMap {α β} {l : List α} {f g : α → List β} (h : ∀ a, (f a).Sublist (g a)) :
    (l.flatMap f).Sublist (l.flatMap g) := by
  induction l with
  | nil => exact List.Sublist.refl _
  | cons a l ih => rw [List.flatMap_cons, List.flatMap_cons]; exact (h a).append ih

theorem nodup_cubes (Lx Ly Lz : Nat) : (cubes Lx Ly Lz).Nodup := by
  unfold cubes
  have h := nodup_grid (nodup_range2 1 (2 * (Lx : Int))) (nodup_range2 (-1) (2 * (Ly : Int)))
    ((nodup_range2 1 (2 * (Lz : Int) - 1)))
  -- a sub-list of the full grid
  refine List.Nodup.sublist ?_ h
  unfold grid
  apply sublist_flatMap
  intro x
  apply sublist_flatMap
  intro y
  exact (List.filter_sublist).map _

/-! ### triangles -/

/-- the signs of the three deltas of the triangle `(axis, x, y, z)` -/
def sgnX (a : Int) : Int := if a = 0 ∨ a = 2 then 1 else -1
def sgnY (a : Int) : Int := if a = 0 ∨ a = 3 then 1 else -1
def sgnZ (a x y z : Int) : Int := if ((a = 0 ∨ a = 1) ↔ (x + y + z) % 4 = 0) then 1 else -1

theorem triDelta_eq {a x y z : Int} (ha : 0 ≤ a ∧ a < 4) :
    triDelta a x y z = some [(sgnX a, 0, 0), (0, sgnY a, 0), (0, 0, sgnZ a x y z)] := by
  have h : a = 0 ∨ a = 1 ∨ a = 2 ∨ a = 3 := by omega
  unfold triDelta triTable sgnX sgnY sgnZ
  by_cases hp : (x + y + z) % 4 = 0
  · rcases h with rfl | rfl | rfl | rfl <;> simp [hp]
  · rcases h with rfl | rfl | rfl | rfl <;> simp [hp]

/-- the candidate keys of a triangle, in delta order -/
def triCands (a x y z : Int) : List Coord :=
  [[x + sgnX a, y, z], [x, y + sgnY a, z], [x, y, z + sgnZ a x y z]]

theorem sgnX_cases (a : Int) : sgnX a = 1 ∨ sgnX a = -1 := by
  unfold sgnX; by_cases h : a = 0 ∨ a = 2 <;> simp [h]
theorem sgnY_cases (a : Int) : sgnY a = 1 ∨ sgnY a = -1 := by
  unfold sgnY; by_cases h : a = 0 ∨ a = 3 <;> simp [h]
theorem sgnZ_cases (a x y z : Int) : sgnZ a x y z = 1 ∨ sgnZ a x y z = -1 := by
  unfold sgnZ; by_cases h : ((a = 0 ∨ a = 1) ↔ (x + y + z) % 4 = 0) <;> simp [h]

theorem triCands_nodup (a x y z : Int) : (triCands a x y z).Nodup := by
  unfold triCands
  rcases sgnX_cases a with h1 | h1 <;> rcases sgnY_cases a with h2 | h2 <;>
    rcases sgnZ_cases a x y z with h3 | h3 <;> rw [h1, h2, h3] <;>
    simp only [List.nodup_cons, List.mem_cons, List.cons.injEq, and_true, List.not_mem_nil,
      or_false, not_false_eq_true, List.nodup_nil] <;> omega

/-- the twelve candidate keys of a cube, in delta order -/
def cubeCands (x y z : Int) : List Coord :=
  cubeDelta.map fun d => [x + d.1, y + d.2.1, z + d.2.2]

theorem cubeCands_nodup (x y z : Int) : (cubeCands x y z).Nodup := by
  unfold cubeCands cubeDelta
  simp only [List.map_cons, List.map_nil, List.nodup_cons, List.mem_cons, List.cons.injEq, and_true,
    List.not_mem_nil, or_false, not_false_eq_true, List.nodup_nil]
  omega

/-- `get_stabilizer` of a cube location -/
theorem getStab_cube (Lx Ly Lz : Nat) (x y z : Int) :
    getStabilizer Lx Ly Lz [x, y, z] =
      .op (uop ((cubeCands x y z).filter (isq Lx Ly Lz)) Pauli.X) := by
  show StabResult.op (collect (qubits Lx Ly Lz) Pauli.X (cubeCands x y z)) = _
  rw [collect_eq _ _ _ (cubeCands_nodup x y z)]
  rfl

/-- `get_stabilizer` of a triangle location -/
theorem getStab_tri (Lx Ly Lz : Nat) {a x y z : Int} (ha : 0 ≤ a ∧ a < 4) :
    getStabilizer Lx Ly Lz [a, x, y, z] =
      .op (uop ((triCands a x y z).filter (isq Lx Ly Lz)) Pauli.Z) := by
  have h : getStabilizer Lx Ly Lz [a, x, y, z] =
      (match triDelta a x y z with
       | some delta => StabResult.op (collectAt (qubits Lx Ly Lz) Pauli.Z x y z delta)
       | none => StabResult.indexError) := rfl
  rw [h, triDelta_eq ha]
  show StabResult.op (collect (qubits Lx Ly Lz) Pauli.Z
    [[x + sgnX a, y + 0, z + 0], [x + 0, y + sgnY a, z + 0], [x + 0, y + 0, z + sgnZ a x y z]]) = _
  simp only [Int.add_zero]
  have := collect_eq (qubits Lx Ly Lz) Pauli.Z _ (triCands_nodup a x y z)
  unfold triCands at this
  rw [this]
  rfl

/-- the keys of a triangle -/
def triKeys (Lx Ly Lz : Nat) (a x y z : Int) : List Coord := (triCands a x y z).filter (isq Lx Ly Lz)
/-- the keys of a cube -/
def cubeKeys (Lx Ly Lz : Nat) (x y z : Int) : List Coord := (cubeCands x y z).filter (isq Lx Ly Lz)

/-- the three potential qubits of the triangle `(a, x, y, z)` are qubits -/
def TX (Lx Ly Lz : Nat) (a x y z : Int) : Prop := Qx Lx Ly Lz (x + sgnX a) y z
def TY (Lx Ly Lz : Nat) (a x y z : Int) : Prop := Qy Lx Ly Lz x (y + sgnY a) z
def TZ (Lx Ly Lz : Nat) (a x y z : Int) : Prop := Qz Lx Ly Lz x y (z + sgnZ a x y z)

instance (Lx Ly Lz : Nat) (a x y z : Int) : Decidable (TX Lx Ly Lz a x y z) := by unfold TX; infer_instance
instance (Lx Ly Lz : Nat) (a x y z : Int) : Decidable (TY Lx Ly Lz a x y z) := by unfold TY; infer_instance
instance (Lx Ly Lz : Nat) (a x y z : Int) : Decidable (TZ Lx Ly Lz a x y z) := by unfold TZ; infer_instance

section
variable {Lx Ly Lz : Nat} {a x y z : Int} (hx : x % 2 = 0) (hy : y % 2 = 0) (hz : z % 2 = 0)
include hx hy hz

theorem isq_tx : isq Lx Ly Lz [x + sgnX a, y, z] = true ↔ TX Lx Ly Lz a x y z := by
  rw [isq_iff, mem_qubits_x (by rcases sgnX_cases a with h | h <;> omega) hy hz]; rfl
theorem isq_ty : isq Lx Ly Lz [x, y + sgnY a, z] = true ↔ TY Lx Ly Lz a x y z := by
  rw [isq_iff, mem_qubits_y hx (by rcases sgnY_cases a with h | h <;> omega) hz]; rfl
theorem isq_tz : isq Lx Ly Lz [x, y, z + sgnZ a x y z] = true ↔ TZ Lx Ly Lz a x y z := by
  rw [isq_iff, mem_qubits_z hx hy (by rcases sgnZ_cases a x y z with h | h <;> omega)]; rfl

/-- the keys of a triangle: the candidates that are qubits, in order -/
theorem triKeys_eq : triKeys Lx Ly Lz a x y z =
    (if TX Lx Ly Lz a x y z then [[x + sgnX a, y, z]] else []) ++
    (if TY Lx Ly Lz a x y z then [[x, y + sgnY a, z]] else []) ++
    (if TZ Lx Ly Lz a x y z then [[x, y, z + sgnZ a x y z]] else []) := by
  unfold triKeys triCands
  simp only [List.filter_cons, List.filter_nil]
  by_cases h1 : TX Lx Ly Lz a x y z <;> by_cases h2 : TY Lx Ly Lz a x y z <;>
    by_cases h3 : TZ Lx Ly Lz a x y z <;>
    simp [(isq_tx hx hy hz).mpr, (isq_ty hx hy hz).mpr, (isq_tz hx hy hz).mpr, h1, h2, h3,
      mt (isq_tx (Lx := Lx) (Ly := Ly) (Lz := Lz) (a := a) hx hy hz).mp,
      mt (isq_ty (Lx := Lx) (Ly := Ly) (Lz := Lz) (a := a) hx hy hz).mp,
      mt (isq_tz (Lx := Lx) (Ly := Ly) (Lz := Lz) (a := a) hx hy hz).mp]

end

/-- `_is_m_boundary` -/
def MB (Lx Ly Lz : Nat) (x y z : Int) : Prop :=
  y ≥ 2 * (Ly : Int) - 2 ∨ y ≤ 0 ∨ (2 * (Ly : Int) - 5 ≤ y ∧ y ≤ 2 * (Ly : Int) - 4) ∨ (2 ≤ y ∧ y ≤ 3) ∨
  (2 * (Lz : Int) - 5 ≤ z ∧ z ≤ 2 * (Lz : Int) - 4) ∨ (2 ≤ z ∧ z ≤ 3) ∨ (2 ≤ x ∧ x ≤ 3) ∨
  (2 * (Lx : Int) - 3 ≤ x ∧ x ≤ 2 * (Lx : Int) - 2)

instance (Lx Ly Lz : Nat) (x y z : Int) : Decidable (MB Lx Ly Lz x y z) := by unfold MB; infer_instance

theorem isMBoundary_iff {Lx Ly Lz : Nat} {x y z : Int} :
    isMBoundary Lx Ly Lz x y z = true ↔ MB Lx Ly Lz x y z := by
  unfold isMBoundary MB
  simp only [Bool.or_eq_true, Bool.and_eq_true, decide_eq_true_eq, ge_iff_le, or_assoc]

/-- `_is_e_boundary` -/
def EB (Lz : Nat) (z : Int) : Prop := z ≥ 2 * (Lz : Int) - 2 ∨ z ≤ 0

instance (Lz : Nat) (z : Int) : Decidable (EB Lz z) := by unfold EB; infer_instance

theorem isEBoundary_iff {Lz : Nat} {z : Int} : isEBoundary Lz z = true ↔ EB Lz z := by
  unfold isEBoundary EB
  simp only [Bool.or_eq_true, decide_eq_true_eq, ge_iff_le]

/-- the condition under which the triangle loop appends `(a, x, y, z)`, in terms of which of the
    three potential qubits exist -/
def TriKeep (Lx Ly Lz : Nat) (tx ty tz : Prop) (x y z : Int) : Prop :=
  -- at least two keys
  ((tx ∧ ty) ∨ (tx ∧ tz) ∨ (ty ∧ tz)) ∧
  -- not excluded as a two-key triangle of a magnetic boundary
  ¬ (MB Lx Ly Lz x y z ∧ ¬ (tx ∧ ty ∧ tz) ∧
      (¬ EB Lz z ∨ (((y = 0 ∨ y = 2 * (Ly : Int) - 2) ∧ (z = 0 ∨ z = 2 * (Lz : Int) - 2)) ∧
        (tz ∧ (tx ∨ ty))))) ∧
  ¬ Hole Lx Ly Lz x y z

theorem keepTriangle_iff {Lx Ly Lz : Nat} {a x y z : Int} (hx : x % 2 = 0) (hy : y % 2 = 0)
    (hz : z % 2 = 0) :
    keepTriangle Lx Ly Lz (triKeys Lx Ly Lz a x y z) x y z = true ↔
      TriKeep Lx Ly Lz (TX Lx Ly Lz a x y z) (TY Lx Ly Lz a x y z) (TZ Lx Ly Lz a x y z) x y z := by
  rw [triKeys_eq hx hy hz]
  unfold keepTriangle TriKeep
  have hs : z + sgnZ a x y z ≠ z := by rcases sgnZ_cases a x y z with h | h <;> omega
  have hmb : isMBoundary Lx Ly Lz x y z = decide (MB Lx Ly Lz x y z) := by
    rw [Bool.eq_iff_iff, isMBoundary_iff]; simp
  have heb : isEBoundary Lz z = decide (EB Lz z) := by
    rw [Bool.eq_iff_iff, isEBoundary_iff]; simp
  have hh : inHole Lx Ly Lz x y z = decide (Hole Lx Ly Lz x y z) := by
    rw [Bool.eq_iff_iff, inHole_iff]; simp
  rw [hmb, heb, hh]
  by_cases hm : MB Lx Ly Lz x y z <;> by_cases he : EB Lz z <;> by_cases hH : Hole Lx Ly Lz x y z <;>
    by_cases h1 : TX Lx Ly Lz a x y z <;> by_cases h2 : TY Lx Ly Lz a x y z <;>
    by_cases h3 : TZ Lx Ly Lz a x y z <;>
    simp [h1, h2, h3, hm, he, hH, hs, fun e : z = z + sgnZ a x y z => hs e.symm] <;> omega

theorem mem_triangles {Lx Ly Lz : Nat} {q : Coord} :
    q ∈ triangles Lx Ly Lz ↔ ∃ a x y z, q = [a, x, y, z] ∧ (0 ≤ a ∧ a < 4) ∧ inE2 Lx x ∧ inE Ly y ∧
      inE Lz z ∧
      TriKeep Lx Ly Lz (TX Lx Ly Lz a x y z) (TY Lx Ly Lz a x y z) (TZ Lx Ly Lz a x y z) x y z := by
  unfold triangles range1
  simp only [List.mem_flatMap, List.mem_map, List.mem_filter, Planar3DCode.mem_rangeE,
    Planar3DCode.mem_rangeE2]
  have hr : ∀ a : Int, a ∈ Color.pyRangeI 0 4 1 ↔ 0 ≤ a ∧ a < 4 := by
    intro a
    unfold Color.pyRangeI
    simp only [List.mem_map, List.mem_range]
    constructor
    · rintro ⟨i, hi, rfl⟩; omega
    · intro h; exact ⟨a.toNat, by omega, by omega⟩
  constructor
  · rintro ⟨a, ha, x, hx, y, hy, z, ⟨hz, hk⟩, rfl⟩
    have ha' := (hr a).mp ha
    refine ⟨a, x, y, z, rfl, ha', hx, hy, hz, ?_⟩
    unfold inE2 at hx; unfold inE at hy hz
    have e : ((getStabilizerIn (qubits Lx Ly Lz) [a, x, y, z]).getD.map Prod.fst) =
        triKeys Lx Ly Lz a x y z := by
      have := getStab_tri Lx Ly Lz (x := x) (y := y) (z := z) ha'
      unfold getStabilizer at this
      rw [this]; simp only [StabResult.getD, uop_keys]; rfl
    rw [e] at hk
    exact (keepTriangle_iff hx.2.2 hy.2.2 hz.2.2).mp hk
  · rintro ⟨a, x, y, z, rfl, ha, hx, hy, hz, hk⟩
    refine ⟨a, (hr a).mpr ha, x, hx, y, hy, z, ⟨hz, ?_⟩, rfl⟩
    have e : ((getStabilizerIn (qubits Lx Ly Lz) [a, x, y, z]).getD.map Prod.fst) =
        triKeys Lx Ly Lz a x y z := by
      have := getStab_tri Lx Ly Lz (x := x) (y := y) (z := z) ha
      unfold getStabilizer at this
      rw [this]; simp only [StabResult.getD, uop_keys]; rfl
    rw [e]
    unfold inE2 at hx; unfold inE at hy hz
    exact (keepTriangle_iff hx.2.2 hy.2.2 hz.2.2).mpr hk

end Panqec.HollowRhombicCode
