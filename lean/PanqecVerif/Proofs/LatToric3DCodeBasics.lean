/-
`Toric3DCode` for every size: arithmetic characterisation of the coordinate lists, and
`get_stabilizer` of each of the four stabilizer kinds as an explicit one-letter operator
(for `2 ≤ Lx, Ly, Lz`, where the six / four neighbours are pairwise distinct).
-/
import PanqecVerif.Proofs.LatCubic3D
import PanqecVerif.Model.Lattices.Toric3DCode

namespace Panqec.Toric3DCode
open Panqec.Cubic3D

/-! ### periodic neighbours without `%` -/

def predW (x P : Int) : Int := if x = 0 then P - 1 else x - 1
def succW (x P : Int) : Int := if x + 1 = P then 0 else x + 1

theorem predW_spec (x P : Int) :
    (x = 0 ∧ predW x P = P - 1) ∨ (x ≠ 0 ∧ predW x P = x - 1) := by
  unfold predW; split <;> simp_all
theorem succW_spec (x P : Int) :
    (x + 1 = P ∧ succW x P = 0) ∨ (x + 1 ≠ P ∧ succW x P = x + 1) := by
  unfold succW; split <;> simp_all

/-- even coordinate inside the period `2L` -/
def isE (L : Nat) (x : Int) : Prop := 0 ≤ x ∧ x < 2 * (L : Int) ∧ x % 2 = 0
/-- odd coordinate inside the period `2L` -/
def isO (L : Nat) (x : Int) : Prop := 0 ≤ x ∧ x < 2 * (L : Int) ∧ x % 2 = 1

theorem pmod_zero {L : Nat} {x : Int} (h0 : 0 ≤ x) (h1 : x < 2 * (L : Int)) :
    pmod (x + 0) (2 * L) = x := by
  unfold pmod
  rw [Int.add_zero]
  exact Int.emod_eq_of_lt h0 (by push_cast; exact h1)

theorem pmod_pred {L : Nat} {x : Int} (h0 : 0 ≤ x) (h1 : x < 2 * (L : Int)) :
    pmod (x + -1) (2 * L) = predW x (2 * (L : Int)) := by
  unfold pmod
  have hc : ((2 * L : Nat) : Int) = 2 * (L : Int) := by push_cast; rfl
  rw [hc]
  rcases predW_spec x (2 * (L : Int)) with ⟨hx, hp⟩ | ⟨hx, hp⟩
  · rw [hp, hx, ← Int.add_emod_right]
    exact Int.emod_eq_of_lt (by omega) (by omega)
  · rw [hp]
    exact Int.emod_eq_of_lt (by omega) (by omega)

theorem pmod_succ {L : Nat} {x : Int} (h0 : 0 ≤ x) (h1 : x < 2 * (L : Int)) :
    pmod (x + 1) (2 * L) = succW x (2 * (L : Int)) := by
  unfold pmod
  have hc : ((2 * L : Nat) : Int) = 2 * (L : Int) := by push_cast; rfl
  rw [hc]
  rcases succW_spec x (2 * (L : Int)) with ⟨hx, hp⟩ | ⟨hx, hp⟩
  · rw [hp, hx]; exact Int.emod_self
  · rw [hp]
    exact Int.emod_eq_of_lt (by omega) (by omega)

theorem succW_even {L : Nat} {x : Int} (h : isE L x) : succW x (2 * (L : Int)) = x + 1 := by
  unfold isE at h
  have := succW_spec x (2 * (L : Int)); omega
theorem predW_odd {L : Nat} {x : Int} (h : isO L x) : predW x (2 * (L : Int)) = x - 1 := by
  unfold isO at h
  have := predW_spec x (2 * (L : Int)); omega

/-! ### the coordinate lists -/

theorem mem_rangeE {L : Nat} {x : Int} : x ∈ range2 0 (2 * (L : Int)) ↔ isE L x := by
  rw [mem_range2]; unfold isE; omega
theorem mem_rangeO {L : Nat} {x : Int} : x ∈ range2 1 (2 * (L : Int)) ↔ isO L x := by
  rw [mem_range2]; unfold isO; omega

theorem mem_qubits {Lx Ly Lz : Nat} {x y z : Int} :
    [x, y, z] ∈ qubits Lx Ly Lz ↔
      (isO Lx x ∧ isE Ly y ∧ isE Lz z) ∨ (isE Lx x ∧ isO Ly y ∧ isE Lz z) ∨
      (isE Lx x ∧ isE Ly y ∧ isO Lz z) := by
  simp only [qubits, List.mem_append, mem_grid3, mem_rangeE, mem_rangeO, or_assoc]

theorem mem_stabs {Lx Ly Lz : Nat} {x y z : Int} :
    [x, y, z] ∈ stabs Lx Ly Lz ↔
      (isE Lx x ∧ isE Ly y ∧ isE Lz z) ∨ (isO Lx x ∧ isO Ly y ∧ isE Lz z) ∨
      (isE Lx x ∧ isO Ly y ∧ isO Lz z) ∨ (isO Lx x ∧ isE Ly y ∧ isO Lz z) := by
  simp only [stabs, List.mem_append, mem_grid3, mem_rangeE, mem_rangeO, or_assoc]

theorem shape_of_mem_qubits {Lx Ly Lz : Nat} {q : Coord} (h : q ∈ qubits Lx Ly Lz) :
    ∃ x y z, q = [x, y, z] := by
  simp only [qubits, List.mem_append, mem_grid] at h
  rcases h with (⟨x, _, y, _, z, _, rfl⟩ | ⟨x, _, y, _, z, _, rfl⟩) | ⟨x, _, y, _, z, _, rfl⟩ <;>
    exact ⟨x, y, z, rfl⟩

theorem shape_of_mem_stabs {Lx Ly Lz : Nat} {q : Coord} (h : q ∈ stabs Lx Ly Lz) :
    ∃ x y z, q = [x, y, z] := by
  simp only [stabs, List.mem_append, mem_grid] at h
  rcases h with ((⟨x, _, y, _, z, _, rfl⟩ | ⟨x, _, y, _, z, _, rfl⟩) | ⟨x, _, y, _, z, _, rfl⟩) |
    ⟨x, _, y, _, z, _, rfl⟩ <;> exact ⟨x, y, z, rfl⟩

/-! ### one axis at a time: the coordinate atoms that occur when two key lists are compared -/

section axis
set_option linter.unusedVariables false
variable {L : Nat} {e o c : Int}

/-! even vertex coordinate `e` against odd face coordinate `o` -/
theorem eo_p_m (hL : 2 ≤ L) (he : isE L e) (ho : isO L o) : ¬ (predW e (2 * (L : Int)) = o - 1) := by
  simp only [isE, isO] at he ho; have := predW_spec e (2 * (L : Int)); omega
theorem eo_p_s (hL : 2 ≤ L) (he : isE L e) (ho : isO L o) :
    ¬ (predW e (2 * (L : Int)) = succW o (2 * (L : Int))) := by
  simp only [isE, isO] at he ho
  have := predW_spec e (2 * (L : Int)); have := succW_spec o (2 * (L : Int)); omega
theorem eo_s_m (hL : 2 ≤ L) (he : isE L e) (ho : isO L o) : ¬ (e + 1 = o - 1) := by
  simp only [isE, isO] at he ho; omega
theorem eo_s_s (hL : 2 ≤ L) (he : isE L e) (ho : isO L o) :
    ¬ (e + 1 = succW o (2 * (L : Int))) := by
  simp only [isE, isO] at he ho; have := succW_spec o (2 * (L : Int)); omega
theorem eo_0_m (hL : 2 ≤ L) (he : isE L e) (ho : isO L o) : (e = o - 1) ↔ (e + 1 = o) := by omega
theorem eo_0_s (hL : 2 ≤ L) (he : isE L e) (ho : isO L o) :
    (e = succW o (2 * (L : Int))) ↔ (predW e (2 * (L : Int)) = o) := by
  simp only [isE, isO] at he ho
  have := predW_spec e (2 * (L : Int)); have := succW_spec o (2 * (L : Int)); omega
theorem eo_0_0 (hL : 2 ≤ L) (he : isE L e) (ho : isO L o) : ¬ (e = o) := by
  simp only [isE, isO] at he ho; omega
theorem eo_excl (hL : 2 ≤ L) (he : isE L e) (ho : isO L o) (h1 : predW e (2 * (L : Int)) = o)
    (h2 : e + 1 = o) : False := by
  simp only [isE, isO] at he ho; have := predW_spec e (2 * (L : Int)); omega

/-! even vertex coordinate `e` against even face coordinate `c` -/
theorem ee_p (hL : 2 ≤ L) (he : isE L e) (hc : isE L c) : ¬ (predW e (2 * (L : Int)) = c) := by
  simp only [isE] at he hc; have := predW_spec e (2 * (L : Int)); omega
theorem ee_s (hL : 2 ≤ L) (he : isE L e) (hc : isE L c) : ¬ (e + 1 = c) := by
  simp only [isE] at he hc; omega

/-! an even coordinate `e` and its neighbours against the logical X strings (odd / `0`) -/
theorem vO_p (hL : 1 ≤ L) (he : isE L e) : isO L (predW e (2 * (L : Int))) := by
  simp only [isE, isO] at *; have := predW_spec e (2 * (L : Int)); omega
theorem vO_s (he : isE L e) : isO L (e + 1) := by
  simp only [isE, isO] at *; omega
theorem vO_0 (he : isE L e) : ¬ isO L e := by
  simp only [isE, isO] at *; omega
theorem v0_p (hL : 1 ≤ L) (he : isE L e) : ¬ (predW e (2 * (L : Int)) = 0) := by
  simp only [isE] at *; have := predW_spec e (2 * (L : Int)); omega
theorem v0_s (he : isE L e) : ¬ (e + 1 = 0) := by
  simp only [isE] at *; omega

/-! an odd coordinate `o` and its neighbours against the logical Z planes (even / `1`) -/
theorem fE_m (ho : isO L o) : isE L (o - 1) := by
  simp only [isE, isO] at *; omega
theorem fE_s (ho : isO L o) : isE L (succW o (2 * (L : Int))) := by
  simp only [isE, isO] at *; have := succW_spec o (2 * (L : Int)); omega
theorem fE_0 (ho : isO L o) : ¬ isE L o := by
  simp only [isE, isO] at *; omega
theorem f1_m (ho : isO L o) : ¬ (o - 1 = 1) := by
  simp only [isO] at *; omega
theorem f1_s (ho : isO L o) : ¬ (succW o (2 * (L : Int)) = 1) := by
  simp only [isO] at *; have := succW_spec o (2 * (L : Int)); omega
theorem f1_e (he : isE L e) : ¬ (e = 1) := by
  simp only [isE] at *; omega

theorem isE_zero (hL : 1 ≤ L) : isE L 0 := by simp only [isE]; omega
theorem isO_one (hL : 1 ≤ L) : isO L 1 := by simp only [isO]; omega
end axis

end Panqec.Toric3DCode
