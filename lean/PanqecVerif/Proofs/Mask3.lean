/-
Lane arithmetic for the kernel-efficient checker `checkValidFast` (Model/Mask.lean):
`packLanes`, `repunit`, `foldAll`, `swapMask`, `laneSymp`, `zeroRows`, `deltaRows`,
`comboAcc`, `pickSorted`.  Core Lean only.

Conventions: `L` is the lane width in bits (`L = 2^s` in the checker), `W = 2^L`.
-/
import PanqecVerif.Proofs.Mask1
import PanqecVerif.Proofs.Mask2

namespace Panqec

/-! ### A. lanes -/

theorem getD_map_zero (f : Nat → Nat) (xs : List Nat) (i : Nat) :
    (xs.map f).getD i 0 = if i < xs.length then f (xs.getD i 0) else 0 := by
  by_cases h : i < xs.length
  · simp [List.getD_eq_getElem?_getD, h]
  · simp [List.getD_eq_getElem?_getD, h]

theorem getD_replicate_zero (m b i : Nat) :
    (List.replicate m b).getD i 0 = if i < m then b else 0 := by
  by_cases h : i < m
  · simp [List.getD_eq_getElem?_getD, h]
  · simp [List.getD_eq_getElem?_getD, h]

theorem getD_of_length_le (xs : List Nat) (i : Nat) (h : xs.length ≤ i) : xs.getD i 0 = 0 := by
  simp [List.getD_eq_getElem?_getD, h]

/-- bit `p` of the packed lanes is bit `p % L` of entry `p / L` -/
theorem testBit_packLanes (L : Nat) (hL : 0 < L) : ∀ (xs : List Nat) (p : Nat),
    (packLanes (2 ^ L) xs).testBit p = (xs.getD (p / L) 0).testBit (p % L)
  | [], p => by simp [packLanes]
  | x :: xs, p => by
    rw [packLanes, Nat.testBit_two_pow_mul_add _ (Nat.mod_lt _ (Nat.two_pow_pos L))]
    by_cases hp : p < L
    · rw [if_pos hp, Nat.div_eq_of_lt hp, Nat.mod_eq_of_lt hp, Nat.testBit_mod_two_pow]
      simp [hp]
    · have hp' : L ≤ p := Nat.le_of_not_lt hp
      rw [if_neg hp, testBit_packLanes L hL xs (p - L), Nat.div_eq_sub_div hL hp',
        Nat.mod_eq_sub_mod hp', List.getD_cons_succ]

theorem packLanes_zero (W : Nat) : ∀ (xs : List Nat), packLanes W (xs.map fun _ => 0) = 0
  | [] => rfl
  | _ :: xs => by simp [packLanes, packLanes_zero W xs]

/-- lane `i` of the packed lanes -/
theorem lane_packLanes (L : Nat) : ∀ (xs : List Nat) (i : Nat),
    (packLanes (2 ^ L) xs >>> (i * L)) % 2 ^ L = xs.getD i 0 % 2 ^ L
  | [], i => by simp [packLanes]
  | x :: xs, 0 => by
    simp [packLanes, Nat.mul_add_mod_self_left]
  | x :: xs, i + 1 => by
    have e : (i + 1) * L = L + i * L := by rw [Nat.add_mul]; omega
    have hdiv : (2 ^ L * packLanes (2 ^ L) xs + x % 2 ^ L) >>> L = packLanes (2 ^ L) xs := by
      rw [Nat.shiftRight_eq_div_pow, Nat.mul_add_div (Nat.two_pow_pos L),
        Nat.div_eq_of_lt (Nat.mod_lt _ (Nat.two_pow_pos L)), Nat.add_zero]
    rw [packLanes, e, Nat.shiftRight_add, hdiv, lane_packLanes L xs i, List.getD_cons_succ]

theorem lane_and (L i X Y : Nat) :
    ((X &&& Y) >>> (i * L)) % 2 ^ L = (X >>> (i * L)) % 2 ^ L &&& (Y >>> (i * L)) % 2 ^ L := by
  rw [Nat.shiftRight_and_distrib, Nat.and_mod_two_pow]

theorem repunit_eq (W : Nat) (hW : 1 < W) : ∀ m, repunit W m = packLanes W (List.replicate m 1)
  | 0 => rfl
  | m + 1 => by
    rw [repunit, repunit_eq W hW m, List.replicate_succ, packLanes, Nat.mod_eq_of_lt hW]

theorem one_lt_two_pow_of_pos (L : Nat) (hL : 0 < L) : 1 < 2 ^ L := by
  have : 2 ^ 1 ≤ 2 ^ L := Nat.pow_le_pow_right (by omega) hL
  omega

theorem testBit_repunit (L : Nat) (hL : 0 < L) (m p : Nat) :
    (repunit (2 ^ L) m).testBit p = decide (p % L = 0 ∧ p / L < m) := by
  rw [repunit_eq _ (one_lt_two_pow_of_pos L hL), testBit_packLanes L hL, getD_replicate_zero]
  by_cases h : p / L < m
  · rw [if_pos h]
    by_cases h0 : p % L = 0
    · simp [h0, h]
    · have : (1 : Nat).testBit (p % L) = false :=
        Nat.testBit_lt_two_pow (by
          have : 2 ^ 1 ≤ 2 ^ (p % L) := Nat.pow_le_pow_right (by omega) (by omega)
          omega)
      simp [this, h0]
  · simp [h]

/-- multiplying 0/1 lanes by `b < W` puts `b` into the selected lanes (no carries) -/
theorem packLanes_mul (W : Nat) (hW : 1 < W) (b : Nat) (hb : b < W) : ∀ (es : List Nat),
    (∀ e ∈ es, e < 2) → packLanes W es * b = packLanes W (es.map (· * b))
  | [], _ => by simp [packLanes]
  | e :: es, h => by
    have he : e < 2 := h e (by simp)
    have ih := packLanes_mul W hW b hb es (fun x hx => h x (by simp [hx]))
    have h1 : e % W = e := Nat.mod_eq_of_lt (by omega)
    have h2 : e * b % W = e * b := by
      apply Nat.mod_eq_of_lt
      have : e = 0 ∨ e = 1 := by omega
      rcases this with rfl | rfl
      · simp; omega
      · simpa using hb
    simp only [List.map_cons, packLanes, h1, h2, ← ih]
    rw [Nat.add_mul, Nat.mul_assoc]

theorem repunit_mul (L : Nat) (hL : 0 < L) (m b : Nat) (hb : b < 2 ^ L) :
    repunit (2 ^ L) m * b = packLanes (2 ^ L) (List.replicate m b) := by
  have hW := one_lt_two_pow_of_pos L hL
  rw [repunit_eq _ hW, packLanes_mul _ hW b hb _ (by simp), List.map_replicate, Nat.one_mul]

/-- equal packings of equally long lists have equal entries modulo `W` -/
theorem packLanes_inj (W : Nat) (hW : 0 < W) : ∀ (xs ys : List Nat), xs.length = ys.length →
    packLanes W xs = packLanes W ys → ∀ i, xs.getD i 0 % W = ys.getD i 0 % W
  | [], [], _, _, _ => rfl
  | [], _ :: _, h, _, _ => by simp at h
  | _ :: _, [], h, _, _ => by simp at h
  | x :: xs, y :: ys, hl, h, i => by
    simp only [packLanes] at h
    have hm : x % W = y % W := by
      have := congrArg (· % W) h
      simpa [Nat.mul_add_mod_self_left] using this
    have hd : packLanes W xs = packLanes W ys := by
      have := congrArg (· / W) h
      simpa [Nat.mul_add_div hW, Nat.div_eq_of_lt (Nat.mod_lt _ hW)] using this
    cases i with
    | zero => simpa using hm
    | succ i =>
      simpa using packLanes_inj W hW xs ys (by simpa using hl) hd i

/-! ### B. `foldAll` -/

theorem foldAll_shiftRight : ∀ (s x p : Nat), foldAll s x >>> p = foldAll s (x >>> p)
  | 0, _, _ => rfl
  | s + 1, x, p => by
    rw [foldAll, foldAll, foldAll_shiftRight s, Nat.shiftRight_xor_distrib,
      ← Nat.shiftRight_add, ← Nat.shiftRight_add, Nat.add_comm]

theorem foldAll_mod_two : ∀ (s x : Nat), foldAll s x % 2 = parityFold s x
  | 0, _ => rfl
  | s + 1, x => by rw [foldAll, parityFold, foldAll_mod_two s]

/-- bit `p` of `foldAll s x` is the parity of the `2^s` bits of `x` starting at `p` -/
theorem testBit_foldAll (s x p : Nat) :
    (foldAll s x).testBit p = decide (parityRec (2 ^ s) (x >>> p) = 1) := by
  rw [Nat.testBit_eq_decide_div_mod_eq, ← Nat.shiftRight_eq_div_pow, foldAll_shiftRight,
    foldAll_mod_two, parityFold_eq]

/-! ### C. parity depends on the low bits only -/

theorem parityRec_mod : ∀ (w x : Nat), parityRec w (x % 2 ^ w) = parityRec w x
  | 0, _ => rfl
  | w + 1, x => by
    simp only [parityRec]
    rw [Nat.pow_succ', Nat.mod_mul_right_mod, Nat.mod_mul_right_div_self, parityRec_mod w]

/-! ### D. the symplectic product through the swapped mask -/

theorem symp_eq_parity (n a b : Nat) :
    symp (unpackBits (2 * n) a) (unpackBits (2 * n) b) =
      (parityRec n (a % 2 ^ n &&& b >>> n) + parityRec n (a >>> n &&& b % 2 ^ n)) % 2 := by
  unfold symp
  rw [xPart_unpackBits', zPart_unpackBits', xPart_unpackBits', zPart_unpackBits',
    ← dot_unpack, ← dot_unpack]
  omega

theorem swapMask_lt (n b : Nat) : swapMask n (2 ^ n) b < 2 ^ (2 * n) := by
  unfold swapMask
  have h1 : b % 2 ^ n < 2 ^ n := Nat.mod_lt _ (Nat.two_pow_pos n)
  have h2 : (b >>> n) % 2 ^ n < 2 ^ n := Nat.mod_lt _ (Nat.two_pow_pos n)
  have e : 2 ^ (2 * n) = 2 ^ n * 2 ^ n := by rw [← Nat.pow_add]; congr 1; omega
  have h3 : 2 ^ n * (b % 2 ^ n + 1) ≤ 2 ^ n * 2 ^ n := Nat.mul_le_mul_left _ h1
  rw [Nat.mul_add, Nat.mul_one] at h3
  omega

/-- one `&&&` against the swapped mask, then the parity of `2n` bits -/
theorem parity_swap (n a b : Nat) :
    parityRec (2 * n) (a &&& swapMask n (2 ^ n) b) =
      symp (unpackBits (2 * n) a) (unpackBits (2 * n) b) := by
  have hpos := Nat.two_pow_pos n
  have hz : (b >>> n) % 2 ^ n < 2 ^ n := Nat.mod_lt _ hpos
  have hsr : swapMask n (2 ^ n) b >>> n = b % 2 ^ n := by
    unfold swapMask
    rw [Nat.shiftRight_eq_div_pow, Nat.mul_add_div hpos, Nat.div_eq_of_lt hz, Nat.add_zero]
  have hsm : swapMask n (2 ^ n) b % 2 ^ n = (b >>> n) % 2 ^ n := by
    unfold swapMask
    rw [Nat.mul_add_mod_self_left, Nat.mod_mod]
  have e : 2 * n = n + n := by omega
  rw [symp_eq_parity, e, parityRec_split, Nat.shiftRight_and_distrib, hsr,
    ← parityRec_mod n (a &&& _), Nat.and_mod_two_pow, hsm,
    ← parityRec_mod n (a % 2 ^ n &&& b >>> n), Nat.and_mod_two_pow, Nat.mod_mod]

end Panqec
