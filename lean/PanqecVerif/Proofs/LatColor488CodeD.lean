/-
Color488Code, all sizes `Lx, Ly ≥ 1`: the four lines of qubits carrying the logical operators
(columns `x = 3`, `x = 7`: `k3`, `k7`, weight `2Ly`; rows `y = 5`, `y = 1`: `r5`, `r1`, weight `2Lx`),
their overlaps (pairing table) and weights.
Core Lean only.
-/
import PanqecVerif.Proofs.LatColor488CodeC
import PanqecVerif.Proofs.LatColor666PlanarCodeCount

set_option linter.unusedVariables false

namespace Panqec.Color488Code
open Panqec.Lat2D Panqec.Color

/-- `x`-coordinate test / `y`-coordinate test -/
def πx (c : Int) (q : Coord) : Bool := match q with | [a, _] => decide (a = c) | _ => false
def πy (c : Int) (q : Coord) : Bool := match q with | [_, b] => decide (b = c) | _ => false

/-- the keys of the four families of logical operators, in loop order -/
def k3 (Lx Ly : Nat) : List Coord := (col3 Ly).filter (isQubit Lx Ly)
def k7 (Lx Ly : Nat) : List Coord := (col7 Ly).filter (isQubit Lx Ly)
def r5 (Lx Ly : Nat) : List Coord := (row5 Lx).filter (isQubit Lx Ly)
def r1 (Lx Ly : Nat) : List Coord := (row1 Lx).filter (isQubit Lx Ly)

theorem nodup_col3 (L : Nat) : (col3 L).Nodup :=
  nodup_map_pair _ (fun a b h => by simpa using h) (nodup_pyRangeStep _ _ _ (by decide))
theorem nodup_col7 (L : Nat) : (col7 L).Nodup :=
  nodup_map_pair _ (fun a b h => by simpa using h) (nodup_pyRangeStep _ _ _ (by decide))
theorem nodup_row5 (L : Nat) : (row5 L).Nodup :=
  nodup_map_pair _ (fun a b h => by simpa using h) (nodup_pyRangeStep _ _ _ (by decide))
theorem nodup_row1 (L : Nat) : (row1 L).Nodup :=
  nodup_map_pair _ (fun a b h => by simpa using h) (nodup_pyRangeStep _ _ _ (by decide))

theorem nodup_k3 (Lx Ly : Nat) : (k3 Lx Ly).Nodup := (nodup_col3 Ly).sublist List.filter_sublist
theorem nodup_k7 (Lx Ly : Nat) : (k7 Lx Ly).Nodup := (nodup_col7 Ly).sublist List.filter_sublist
theorem nodup_r5 (Lx Ly : Nat) : (r5 Lx Ly).Nodup := (nodup_row5 Lx).sublist List.filter_sublist
theorem nodup_r1 (Lx Ly : Nat) : (r1 Lx Ly).Nodup := (nodup_row1 Lx).sublist List.filter_sublist

theorem filter_qubits {Lx Ly : Nat} {l : List Coord} : ∀ q ∈ l.filter (isQubit Lx Ly), q ∈ qubits Lx Ly := by
  intro q hq
  have := (List.mem_filter.mp hq).2
  unfold isQubit at this
  exact isIn_iff.mp this

/-- a line is the set of qubits with the given `x` (or `y`) -/
theorem mem_k3 {Lx Ly : Nat} (hx : 1 ≤ Lx) (hy : 1 ≤ Ly) (q : Coord) : q ∈ k3 Lx Ly ↔ (q ∈ qubits Lx Ly ∧ πx 3 q = true) := by
  unfold k3 col3
  rw [List.mem_filter]; unfold isQubit; rw [isIn_iff]
  constructor
  · rintro ⟨h, hq⟩
    simp only [List.mem_map] at h
    obtain ⟨y, _, rfl⟩ := h
    exact ⟨hq, by simp [πx]⟩
  · rintro ⟨hq, hp⟩
    obtain ⟨a, b, rfl, h⟩ := (mem_qubits hx hy).mp hq
    simp only [πx, decide_eq_true_eq] at hp
    subst hp
    refine ⟨?_, hq⟩
    simp only [List.mem_map, mem_pyRangeStep2, List.cons.injEq, true_and, and_true]
    unfold IsQ at h
    exact ⟨b, by omega, rfl⟩

theorem mem_k7 {Lx Ly : Nat} (hx : 1 ≤ Lx) (hy : 1 ≤ Ly) (q : Coord) : q ∈ k7 Lx Ly ↔ (q ∈ qubits Lx Ly ∧ πx 7 q = true) := by
  unfold k7 col7
  rw [List.mem_filter]; unfold isQubit; rw [isIn_iff]
  constructor
  · rintro ⟨h, hq⟩
    simp only [List.mem_map] at h
    obtain ⟨y, _, rfl⟩ := h
    exact ⟨hq, by simp [πx]⟩
  · rintro ⟨hq, hp⟩
    obtain ⟨a, b, rfl, h⟩ := (mem_qubits hx hy).mp hq
    simp only [πx, decide_eq_true_eq] at hp
    subst hp
    refine ⟨?_, hq⟩
    simp only [List.mem_map, mem_pyRangeStep2, List.cons.injEq, true_and, and_true]
    unfold IsQ at h
    exact ⟨b, by omega, rfl⟩

theorem mem_r5 {Lx Ly : Nat} (hx : 1 ≤ Lx) (hy : 1 ≤ Ly) (q : Coord) : q ∈ r5 Lx Ly ↔ (q ∈ qubits Lx Ly ∧ πy 5 q = true) := by
  unfold r5 row5
  rw [List.mem_filter]; unfold isQubit; rw [isIn_iff]
  constructor
  · rintro ⟨h, hq⟩
    simp only [List.mem_map] at h
    obtain ⟨y, _, rfl⟩ := h
    exact ⟨hq, by simp [πy]⟩
  · rintro ⟨hq, hp⟩
    obtain ⟨a, b, rfl, h⟩ := (mem_qubits hx hy).mp hq
    simp only [πy, decide_eq_true_eq] at hp
    subst hp
    refine ⟨?_, hq⟩
    simp only [List.mem_map, mem_pyRangeStep2, List.cons.injEq, and_true]
    unfold IsQ at h
    exact ⟨a, by omega, rfl⟩

theorem mem_r1 {Lx Ly : Nat} (hx : 1 ≤ Lx) (hy : 1 ≤ Ly) (q : Coord) : q ∈ r1 Lx Ly ↔ (q ∈ qubits Lx Ly ∧ πy 1 q = true) := by
  unfold r1 row1
  rw [List.mem_filter]; unfold isQubit; rw [isIn_iff]
  constructor
  · rintro ⟨h, hq⟩
    simp only [List.mem_map] at h
    obtain ⟨y, _, rfl⟩ := h
    exact ⟨hq, by simp [πy]⟩
  · rintro ⟨hq, hp⟩
    obtain ⟨a, b, rfl, h⟩ := (mem_qubits hx hy).mp hq
    simp only [πy, decide_eq_true_eq] at hp
    subst hp
    refine ⟨?_, hq⟩
    simp only [List.mem_map, mem_pyRangeStep2, List.cons.injEq, and_true]
    unfold IsQ at h
    exact ⟨a, by omega, rfl⟩

/-- explicit membership -/
theorem mem_k3' {Lx Ly : Nat} (hx : 1 ≤ Lx) (hy : 1 ≤ Ly) {a b : Int} : [a, b] ∈ k3 Lx Ly ↔ (a = 3 ∧ IsQ Lx Ly a b) := by
  rw [mem_k3 hx hy, mem_qubits' hx hy]; simp only [πx, decide_eq_true_eq]; exact and_comm
theorem mem_k7' {Lx Ly : Nat} (hx : 1 ≤ Lx) (hy : 1 ≤ Ly) {a b : Int} : [a, b] ∈ k7 Lx Ly ↔ (a = 7 ∧ IsQ Lx Ly a b) := by
  rw [mem_k7 hx hy, mem_qubits' hx hy]; simp only [πx, decide_eq_true_eq]; exact and_comm
theorem mem_r5' {Lx Ly : Nat} (hx : 1 ≤ Lx) (hy : 1 ≤ Ly) {a b : Int} : [a, b] ∈ r5 Lx Ly ↔ (b = 5 ∧ IsQ Lx Ly a b) := by
  rw [mem_r5 hx hy, mem_qubits' hx hy]; simp only [πy, decide_eq_true_eq]; exact and_comm
theorem mem_r1' {Lx Ly : Nat} (hx : 1 ≤ Lx) (hy : 1 ≤ Ly) {a b : Int} : [a, b] ∈ r1 Lx Ly ↔ (b = 1 ∧ IsQ Lx Ly a b) := by
  rw [mem_r1 hx hy, mem_qubits' hx hy]; simp only [πy, decide_eq_true_eq]; exact and_comm

/-- a face meets a line of qubits in an even number of qubits -/
theorem supp_line_even {Lx Ly : Nat} (hx : 1 ≤ Lx) (hy : 1 ≤ Ly) {x y : Int} (hf : IsF Lx Ly x y) (K : List Coord)
    (π : Coord → Bool) (hK : ∀ q, q ∈ K ↔ (q ∈ qubits Lx Ly ∧ π q = true))
    (h : (∀ a b b', π [a, b] = π [a, b']) ∨ (∀ a a' b, π [a, b] = π [a', b])) :
    interCount (supp Lx Ly x y) K % 2 = 0 := by
  rw [interCount_pred (supp Lx Ly x y) K π (qubits Lx Ly)
    (fun q hq => (mem_qubits_faces hx hy).mpr ⟨x, y, hf, hq⟩) hK]
  exact countP_supp_even Lx Ly x y π h

theorem πx_col (c : Int) : (∀ a b b', πx c [a, b] = πx c [a, b']) ∨
    (∀ a a' b, πx c [a, b] = πx c [a', b]) := Or.inl (fun _ _ _ => rfl)
theorem πy_row (c : Int) : (∀ a b b', πy c [a, b] = πy c [a, b']) ∨
    (∀ a a' b, πy c [a, b] = πy c [a', b]) := Or.inr (fun _ _ _ => rfl)

/-! ### overlaps of two lines -/

theorem line_shape {Lx Ly : Nat} (hx : 1 ≤ Lx) (hy : 1 ≤ Ly) {K : List Coord} {π : Coord → Bool}
    (hK : ∀ q, q ∈ K ↔ (q ∈ qubits Lx Ly ∧ π q = true)) {q : Coord} (h : q ∈ K) :
    ∃ a b, q = [a, b] ∧ IsQ Lx Ly a b := (mem_qubits hx hy).mp ((hK q).mp h).1

/-- two lines meeting in exactly one qubit -/
theorem cross_one {L : Nat} (hL : 1 ≤ L) (A B : List Coord) (hA : A.Nodup) (q0 : Coord)
    (h0 : q0 ∈ A) (h0' : q0 ∈ B) (hu : ∀ q ∈ A, q ∈ B → q = q0) : interCount A B = 1 := by
  unfold interCount
  apply countP_eq_one _ _ q0 hA h0
  · simpa using h0'
  · intro a ha h
    exact hu a ha (by simpa using h)

theorem cross_zero (A B : List Coord) (hu : ∀ q ∈ A, q ∈ B → False) : interCount A B = 0 := by
  unfold interCount
  rw [List.countP_eq_zero]
  intro a ha h
  exact hu a ha (by simpa using h)

theorem k3_r5 {Lx Ly : Nat} (hx : 1 ≤ Lx) (hy : 1 ≤ Ly) : interCount (k3 Lx Ly) (r5 Lx Ly) = 1 := by
  apply cross_one hx _ _ (nodup_k3 Lx Ly) [3, 5]
  · rw [mem_k3' hx hy]; unfold IsQ; omega
  · rw [mem_r5' hx hy]; unfold IsQ; omega
  · intro q hq hq'
    obtain ⟨a, b, rfl, _⟩ := line_shape hx hy (mem_k3 hx hy) hq
    rw [mem_k3' hx hy] at hq; rw [mem_r5' hx hy] at hq'
    rw [hq.1, hq'.1]

theorem r5_k3 {Lx Ly : Nat} (hx : 1 ≤ Lx) (hy : 1 ≤ Ly) : interCount (r5 Lx Ly) (k3 Lx Ly) = 1 := by
  rw [interCount_comm _ _ (nodup_r5 Lx Ly) (nodup_k3 Lx Ly)]; exact k3_r5 hx hy

theorem k7_r1 {Lx Ly : Nat} (hx : 1 ≤ Lx) (hy : 1 ≤ Ly) : interCount (k7 Lx Ly) (r1 Lx Ly) = 1 := by
  apply cross_one hx _ _ (nodup_k7 Lx Ly) [7, 1]
  · rw [mem_k7' hx hy]; unfold IsQ; omega
  · rw [mem_r1' hx hy]; unfold IsQ; omega
  · intro q hq hq'
    obtain ⟨a, b, rfl, _⟩ := line_shape hx hy (mem_k7 hx hy) hq
    rw [mem_k7' hx hy] at hq; rw [mem_r1' hx hy] at hq'
    rw [hq.1, hq'.1]

theorem r1_k7 {Lx Ly : Nat} (hx : 1 ≤ Lx) (hy : 1 ≤ Ly) : interCount (r1 Lx Ly) (k7 Lx Ly) = 1 := by
  rw [interCount_comm _ _ (nodup_r1 Lx Ly) (nodup_k7 Lx Ly)]; exact k7_r1 hx hy

theorem k3_r1 {Lx Ly : Nat} (hx : 1 ≤ Lx) (hy : 1 ≤ Ly) : interCount (k3 Lx Ly) (r1 Lx Ly) = 0 := by
  apply cross_zero
  intro q hq hq'
  obtain ⟨a, b, rfl, _⟩ := line_shape hx hy (mem_k3 hx hy) hq
  rw [mem_k3' hx hy] at hq; rw [mem_r1' hx hy] at hq'
  have := hq.2; unfold IsQ at this; omega
theorem r1_k3 {Lx Ly : Nat} (hx : 1 ≤ Lx) (hy : 1 ≤ Ly) : interCount (r1 Lx Ly) (k3 Lx Ly) = 0 := by
  rw [interCount_comm _ _ (nodup_r1 Lx Ly) (nodup_k3 Lx Ly)]; exact k3_r1 hx hy

theorem k7_r5 {Lx Ly : Nat} (hx : 1 ≤ Lx) (hy : 1 ≤ Ly) : interCount (k7 Lx Ly) (r5 Lx Ly) = 0 := by
  apply cross_zero
  intro q hq hq'
  obtain ⟨a, b, rfl, _⟩ := line_shape hx hy (mem_k7 hx hy) hq
  rw [mem_k7' hx hy] at hq; rw [mem_r5' hx hy] at hq'
  have := hq.2; unfold IsQ at this; omega
theorem r5_k7 {Lx Ly : Nat} (hx : 1 ≤ Lx) (hy : 1 ≤ Ly) : interCount (r5 Lx Ly) (k7 Lx Ly) = 0 := by
  rw [interCount_comm _ _ (nodup_r5 Lx Ly) (nodup_k7 Lx Ly)]; exact k7_r5 hx hy

theorem k3_k7 {Lx Ly : Nat} (hx : 1 ≤ Lx) (hy : 1 ≤ Ly) : interCount (k3 Lx Ly) (k7 Lx Ly) = 0 := by
  apply cross_zero
  intro q hq hq'
  obtain ⟨a, b, rfl, _⟩ := line_shape hx hy (mem_k3 hx hy) hq
  rw [mem_k3' hx hy] at hq; rw [mem_k7' hx hy] at hq'
  omega
theorem k7_k3 {Lx Ly : Nat} (hx : 1 ≤ Lx) (hy : 1 ≤ Ly) : interCount (k7 Lx Ly) (k3 Lx Ly) = 0 := by
  rw [interCount_comm _ _ (nodup_k7 Lx Ly) (nodup_k3 Lx Ly)]; exact k3_k7 hx hy

theorem r5_r1 {Lx Ly : Nat} (hx : 1 ≤ Lx) (hy : 1 ≤ Ly) : interCount (r5 Lx Ly) (r1 Lx Ly) = 0 := by
  apply cross_zero
  intro q hq hq'
  obtain ⟨a, b, rfl, _⟩ := line_shape hx hy (mem_r5 hx hy) hq
  rw [mem_r5' hx hy] at hq; rw [mem_r1' hx hy] at hq'
  omega
theorem r1_r5 {Lx Ly : Nat} (hx : 1 ≤ Lx) (hy : 1 ≤ Ly) : interCount (r1 Lx Ly) (r5 Lx Ly) = 0 := by
  rw [interCount_comm _ _ (nodup_r1 Lx Ly) (nodup_r5 Lx Ly)]; exact r5_r1 hx hy

/-! ### weights -/

/-- two sites per period along a line -/
def niceLine (f : Int → Coord) (c1 c2 : Int) (L : Nat) : List Coord :=
  (List.range L).flatMap fun (i : Nat) => [f (8 * (i : Int) + c1), f (8 * (i : Int) + c2)]

theorem length_niceLine (f : Int → Coord) (c1 c2 : Int) (L : Nat) :
    (niceLine f c1 c2 L).length = 2 * L := by
  unfold niceLine
  rw [length_flatMap_range _ (fun _ => 2) (fun i => rfl), Color666PlanarCode.sum_const]

theorem mem_niceLine {f : Int → Coord} {c1 c2 : Int} {L : Nat} {q : Coord} :
    q ∈ niceLine f c1 c2 L ↔ ∃ i : Nat, i < L ∧ (q = f (8 * (i : Int) + c1) ∨ q = f (8 * (i : Int) + c2)) := by
  unfold niceLine
  simp only [List.mem_flatMap, List.mem_range, List.mem_cons, List.not_mem_nil, or_false]

theorem nodup_niceLine (f : Int → Coord) (hf : ∀ a b, f a = f b → a = b) (c1 c2 : Int)
    (h1 : 0 ≤ c1) (h2 : c1 < c2) (h3 : c2 < 8) (L : Nat) : (niceLine f c1 c2 L).Nodup := by
  unfold niceLine
  apply Color666PlanarCode.nodup_blocks
  · intro i
    simp only [List.nodup_cons, List.mem_cons, List.not_mem_nil, or_false, not_false_eq_true,
      List.nodup_nil, and_true]
    intro e; have := hf _ _ e; omega
  · intro i j _ _ hij q hq hr
    simp only [List.mem_cons, List.not_mem_nil, or_false] at hq hr
    rcases hq with rfl | rfl <;> rcases hr with e | e <;> have := hf _ _ e <;> omega

theorem length_k3 {Lx Ly : Nat} (hx : 1 ≤ Lx) (hy : 1 ≤ Ly) : (k3 Lx Ly).length = 2 * Ly := by
  rw [← length_niceLine (fun b => [3, b]) 3 5 Ly]
  apply length_eq_of_mem_iff (nodup_k3 Lx Ly)
    (nodup_niceLine _ (fun a b h => by simpa using h) 3 5 (by omega) (by omega) (by omega) Ly)
  intro q
  rw [mem_niceLine]
  constructor
  · intro h
    obtain ⟨a, b, rfl, _⟩ := line_shape hx hy (mem_k3 hx hy) h
    rw [mem_k3' hx hy] at h
    obtain ⟨rfl, hq⟩ := h
    unfold IsQ at hq
    refine ⟨(b / 8).toNat, by omega, ?_⟩
    simp only [List.cons.injEq, true_and, and_true]; omega
  · rintro ⟨i, hi, rfl | rfl⟩ <;> rw [mem_k3' hx hy] <;> unfold IsQ <;> omega

theorem length_k7 {Lx Ly : Nat} (hx : 1 ≤ Lx) (hy : 1 ≤ Ly) : (k7 Lx Ly).length = 2 * Ly := by
  rw [← length_niceLine (fun b => [7, b]) 1 7 Ly]
  apply length_eq_of_mem_iff (nodup_k7 Lx Ly)
    (nodup_niceLine _ (fun a b h => by simpa using h) 1 7 (by omega) (by omega) (by omega) Ly)
  intro q
  rw [mem_niceLine]
  constructor
  · intro h
    obtain ⟨a, b, rfl, _⟩ := line_shape hx hy (mem_k7 hx hy) h
    rw [mem_k7' hx hy] at h
    obtain ⟨rfl, hq⟩ := h
    unfold IsQ at hq
    refine ⟨(b / 8).toNat, by omega, ?_⟩
    simp only [List.cons.injEq, true_and, and_true]; omega
  · rintro ⟨i, hi, rfl | rfl⟩ <;> rw [mem_k7' hx hy] <;> unfold IsQ <;> omega

theorem length_r5 {Lx Ly : Nat} (hx : 1 ≤ Lx) (hy : 1 ≤ Ly) : (r5 Lx Ly).length = 2 * Lx := by
  rw [← length_niceLine (fun a => [a, 5]) 3 5 Lx]
  apply length_eq_of_mem_iff (nodup_r5 Lx Ly)
    (nodup_niceLine _ (fun a b h => by simpa using h) 3 5 (by omega) (by omega) (by omega) Lx)
  intro q
  rw [mem_niceLine]
  constructor
  · intro h
    obtain ⟨a, b, rfl, _⟩ := line_shape hx hy (mem_r5 hx hy) h
    rw [mem_r5' hx hy] at h
    obtain ⟨rfl, hq⟩ := h
    unfold IsQ at hq
    refine ⟨(a / 8).toNat, by omega, ?_⟩
    simp only [List.cons.injEq, and_true]; omega
  · rintro ⟨i, hi, rfl | rfl⟩ <;> rw [mem_r5' hx hy] <;> unfold IsQ <;> omega

theorem length_r1 {Lx Ly : Nat} (hx : 1 ≤ Lx) (hy : 1 ≤ Ly) : (r1 Lx Ly).length = 2 * Lx := by
  rw [← length_niceLine (fun a => [a, 1]) 1 7 Lx]
  apply length_eq_of_mem_iff (nodup_r1 Lx Ly)
    (nodup_niceLine _ (fun a b h => by simpa using h) 1 7 (by omega) (by omega) (by omega) Lx)
  intro q
  rw [mem_niceLine]
  constructor
  · intro h
    obtain ⟨a, b, rfl, _⟩ := line_shape hx hy (mem_r1 hx hy) h
    rw [mem_r1' hx hy] at h
    obtain ⟨rfl, hq⟩ := h
    unfold IsQ at hq
    refine ⟨(a / 8).toNat, by omega, ?_⟩
    simp only [List.cons.injEq, and_true]; omega
  · rintro ⟨i, hi, rfl | rfl⟩ <;> rw [mem_r1' hx hy] <;> unfold IsQ <;> omega

end Panqec.Color488Code
