/-
RotatedPlanar3DCode lattice model: a vertex operator and a vertical face operator share an even
number of qubits, for every lattice size.
-/
import PanqecVerif.Proofs.LatRotatedPlanar3DCode2
open Panqec Panqec.Lat3Db
namespace Panqec.RotatedPlanar3DCode

/-- vertex vs vertical face with `(a + b) % 4 = 0` (qubits `(a∓1, b∓1, c)`, `(a, b, c±1)`) -/
theorem vertex_faceX (Lx Ly Lz : Nat) (x y z a b c : Int) (hv : SV Lx Ly Lz x y z) (hf : SF Lx Ly Lz a b c)
    (h0 : (a + b) % 4 = 0) :
    ovl (faceXKeys Lx Ly Lz a b c) (vertexKeys Lx Ly Lz x y z) % 2 = 0 := by
  unfold faceXKeys vertexKeys
  rw [ovl_filter_filter, vertexKeys_def]
  simp only [faceXLocs, ovl_cons_ind, ovl_nil, mem_vertexKeys Lx Ly Lz x y z _ _ _ hv]
  unfold SV R0 R1 R2 at hv
  unfold SF R1 R2 at hf
  have h1 : a % 2 = 1 ∧ b % 2 = 1 ∧ c % 2 = 0 := by omega
  have h2 : x % 2 = 0 ∧ y % 2 = 0 ∧ z % 2 = 1 := by omega
  have h3 : 1 ≤ b ∧ b < 2 * Ly ∧ 2 ≤ c ∧ c < 2 * Lz := by omega
  have h4 : (x + y) % 4 = 2 := by omega
  clear hv hf
  rcases near2 a x with h | h | h <;> rcases near2 b y with h' | h' | h' <;>
    rcases near2 c z with h'' | h'' | h'' <;>
    first
    | omega
    | (simp (disch := omega) only [ind_pos, ind_neg])

/-- vertex vs vertical face with `(a + b) % 4 = 2` (qubits `(a∓1, b±1, c)`, `(a, b, c±1)`) -/
theorem vertex_faceY (Lx Ly Lz : Nat) (x y z a b c : Int) (hv : SV Lx Ly Lz x y z) (hf : SF Lx Ly Lz a b c)
    (h0 : (a + b) % 4 = 2) :
    ovl (faceYKeys Lx Ly Lz a b c) (vertexKeys Lx Ly Lz x y z) % 2 = 0 := by
  unfold faceYKeys vertexKeys
  rw [ovl_filter_filter, vertexKeys_def]
  simp only [faceYLocs, ovl_cons_ind, ovl_nil, mem_vertexKeys Lx Ly Lz x y z _ _ _ hv]
  unfold SV R0 R1 R2 at hv
  unfold SF R1 R2 at hf
  have h1 : a % 2 = 1 ∧ b % 2 = 1 ∧ c % 2 = 0 := by omega
  have h2 : x % 2 = 0 ∧ y % 2 = 0 ∧ z % 2 = 1 := by omega
  have h3 : 1 ≤ b ∧ b < 2 * Ly ∧ 2 ≤ c ∧ c < 2 * Lz := by omega
  have h4 : (x + y) % 4 = 2 := by omega
  clear hv hf
  rcases near2 a x with h | h | h <;> rcases near2 b y with h' | h' | h' <;>
    rcases near2 c z with h'' | h'' | h'' <;>
    first
    | omega
    | (simp (disch := omega) only [ind_pos, ind_neg])

end Panqec.RotatedPlanar3DCode
