/-
Color3DCode: the key lists of the six square membranes of `get_logicals_z` in closed form — all
vertices of the lattice in the planes `x = 0`, `x = 2` (`y = …`, `z = …`).  Core Lean only.
-/
import PanqecVerif.Proofs.LatColor3DCodeLine

set_option linter.unusedVariables false

namespace Panqec.Color3DCode
open Panqec.Lat2D Panqec.Color

theorem mem_membraneKeys {mk : Int → Int → Coord} {mu mv : Nat} {us vs : List Int} {q : Coord} :
    q ∈ membraneKeys mk mu mv us vs ↔ ∃ u v, u ∈ us ∧ v ∈ vs ∧
      (q = mk ((u + 1) % (4 * (mu : Int))) v ∨ q = mk ((u - 1) % (4 * (mu : Int))) v ∨
       q = mk u ((v + 1) % (4 * (mv : Int))) ∨ q = mk u ((v - 1) % (4 * (mv : Int)))) := by
  unfold membraneKeys
  simp only [List.mem_flatMap, List.mem_cons, List.not_mem_nil, or_false]
  constructor
  · rintro ⟨u, hu, v, hv, h⟩; exact ⟨u, v, hu, hv, h⟩
  · rintro ⟨u, v, hu, hv, h⟩; exact ⟨u, hu, v, hv, h⟩

/-- the in-plane pattern of the membrane through the squares `≡ ρ (mod 4)` -/
def PlanePat (ρ : Int) (mu mv : Nat) (p r : Int) : Prop :=
  0 ≤ p ∧ p < 4 * (mu : Int) ∧ 0 ≤ r ∧ r < 4 * (mv : Int) ∧
    ((p % 2 = 1 ∧ r % 4 = ρ) ∨ (p % 4 = ρ ∧ r % 2 = 1))

/-- yellow-red membrane: squares centred at `(u, v) ≡ (2, 2)` -/
theorem mem_membraneA {mk : Int → Int → Coord} {mu mv : Nat} (hu : 1 ≤ mu) (hv : 1 ≤ mv) {q : Coord} :
    q ∈ membraneKeys mk mu mv (rA mu) (rA mv) ↔ ∃ p r, q = mk p r ∧ PlanePat 2 mu mv p r := by
  rw [mem_membraneKeys]
  unfold PlanePat
  simp only [mem_rA, InA]
  constructor
  · rintro ⟨u, v, hu', hv', h | h | h | h⟩
    · refine ⟨_, _, h, ?_⟩
      have := wrap_range hu (u + 1); have e := emod_emod_2 (L := mu) (u + 1); omega
    · refine ⟨_, _, h, ?_⟩
      have := wrap_range hu (u - 1); have e := emod_emod_2 (L := mu) (u - 1); omega
    · refine ⟨_, _, h, ?_⟩
      have := wrap_range hv (v + 1); have e := emod_emod_2 (L := mv) (v + 1); omega
    · refine ⟨_, _, h, ?_⟩
      have := wrap_range hv (v - 1); have e := emod_emod_2 (L := mv) (v - 1); omega
  · rintro ⟨p, r, rfl, p0, p1, r0, r1, ⟨h1, h2⟩ | ⟨h1, h2⟩⟩
    · by_cases h4 : p % 4 = 1
      · refine ⟨p + 1, r, by omega, by omega, Or.inr (Or.inl ?_)⟩
        rw [show p + 1 - 1 = p by omega, emod_small p0 p1]
      · refine ⟨p - 1, r, by omega, by omega, Or.inl ?_⟩
        rw [show p - 1 + 1 = p by omega, emod_small p0 p1]
    · by_cases h4 : r % 4 = 1
      · refine ⟨p, r + 1, by omega, by omega, Or.inr (Or.inr (Or.inr ?_))⟩
        rw [show r + 1 - 1 = r by omega, emod_small r0 r1]
      · refine ⟨p, r - 1, by omega, by omega, Or.inr (Or.inr (Or.inl ?_))⟩
        rw [show r - 1 + 1 = r by omega, emod_small r0 r1]

theorem emod_neg_one {m : Int} (hm : 1 ≤ m) : (0 - 1) % m = m - 1 := by
  rw [emod_neg_small (by omega) (by omega)]; omega

/-- green-blue membrane: squares centred at `(u, v) ≡ (0, 0)`, the row `u = 0` reaches `4L − 1`
    through the wrap-around -/
theorem mem_membraneC {mk : Int → Int → Coord} {mu mv : Nat} (hu : 1 ≤ mu) (hv : 1 ≤ mv) {q : Coord} :
    q ∈ membraneKeys mk mu mv (rC mu) (rC mv) ↔ ∃ p r, q = mk p r ∧ PlanePat 0 mu mv p r := by
  rw [mem_membraneKeys]
  unfold PlanePat
  simp only [mem_rC, InC]
  constructor
  · rintro ⟨u, v, hu', hv', h | h | h | h⟩
    · refine ⟨_, _, h, ?_⟩
      have := wrap_range hu (u + 1); have e := emod_emod_2 (L := mu) (u + 1); omega
    · refine ⟨_, _, h, ?_⟩
      have := wrap_range hu (u - 1); have e := emod_emod_2 (L := mu) (u - 1); omega
    · refine ⟨_, _, h, ?_⟩
      have := wrap_range hv (v + 1); have e := emod_emod_2 (L := mv) (v + 1); omega
    · refine ⟨_, _, h, ?_⟩
      have := wrap_range hv (v - 1); have e := emod_emod_2 (L := mv) (v - 1); omega
  · rintro ⟨p, r, rfl, p0, p1, r0, r1, ⟨h1, h2⟩ | ⟨h1, h2⟩⟩
    · by_cases h4 : p % 4 = 1
      · refine ⟨p - 1, r, by omega, by omega, Or.inl ?_⟩
        rw [show p - 1 + 1 = p by omega, emod_small p0 p1]
      · by_cases hl : p = 4 * (mu : Int) - 1
        · refine ⟨0, r, by omega, by omega, Or.inr (Or.inl ?_)⟩
          rw [emod_neg_one (by omega), hl]
        · refine ⟨p + 1, r, by omega, by omega, Or.inr (Or.inl ?_)⟩
          rw [show p + 1 - 1 = p by omega, emod_small p0 p1]
    · by_cases h4 : r % 4 = 1
      · refine ⟨p, r - 1, by omega, by omega, Or.inr (Or.inr (Or.inl ?_))⟩
        rw [show r - 1 + 1 = r by omega, emod_small r0 r1]
      · by_cases hl : r = 4 * (mv : Int) - 1
        · refine ⟨p, 0, by omega, by omega, Or.inr (Or.inr (Or.inr ?_))⟩
          rw [emod_neg_one (by omega), hl]
        · refine ⟨p, r + 1, by omega, by omega, Or.inr (Or.inr (Or.inr ?_))⟩
          rw [show r + 1 - 1 = r by omega, emod_small r0 r1]

end Panqec.Color3DCode
