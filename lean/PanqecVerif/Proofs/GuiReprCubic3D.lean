/-
`Servable` for the cubic-lattice 3-D surface codes (`Toric3DCode`, `Planar3DCode`,
`HollowPlanar3DCode`), all sizes of their families.
-/
import PanqecVerif.Proofs.GuiReprSurface2D
import PanqecVerif.Properties.C01Toric3DCode
import PanqecVerif.Properties.C01Planar3DCode
import PanqecVerif.Properties.C01HollowPlanar3DCode

namespace Panqec.GuiRepr
open Panqec.Gui Panqec.Cubic3D

theorem cubicStabEdits_simple (rot : Bool) (s : Coord) (t : String) :
    (cubicStabEdits rot s t).all Edit.simple = true := by
  unfold cubicStabEdits
  split
  · split <;> rfl
  · rfl

theorem toric3D_tables : classTablesOk Generated.GuiFull.tables "Toric3DCode" surfaceTypes = true := by
  decide +kernel
theorem planar3D_tables : classTablesOk Generated.GuiFull.tables "Planar3DCode" surfaceTypes = true := by
  decide +kernel
theorem hollowPlanar3D_tables :
    classTablesOk Generated.GuiFull.tables "HollowPlanar3DCode" surfaceTypes = true := by
  decide +kernel

theorem cubicType_mem (t : StabType) : t.toString ∈ surfaceTypes := by
  cases t <;> decide

theorem toric3D_servable (Lx Ly Lz : Nat) (hx : 2 ≤ Lx) (hy : 2 ≤ Ly) (hz : 2 ≤ Lz) (name : String)
    (hn : name = "None" ∨ name = "XZZX") :
    Servable (toric3D Lx Ly Lz) Generated.GuiFull.tables surfaceTypes name where
  wf := C01Toric3DCode.wf Lx Ly Lz hx hy hz
  tables := toric3D_tables
  stab_types := by
    intro s hs
    show ∃ t ∈ surfaceTypes, (Toric3DCode.stabilizerType Lx Ly Lz s).map (·.toString) = some t
    rcases C01Toric3DCode.stabilizer_shape Lx Ly Lz hx hy hz hs with h | h <;> rw [h.1] <;>
      exact ⟨_, cubicType_mem _, rfl⟩
  qubit_axes := by
    intro q hq
    obtain ⟨a, ha, _⟩ := C01Toric3DCode.deformation_rule Lx Ly Lz hq Axis.y
    exact ⟨a.toString, by show (Toric3DCode.qubitAxis q).map (·.toString) = _; rw [ha]; rfl⟩
  stab_edits := cubicStabEdits_simple
  qubit_edits := noEdits_simple
  deformation := by
    rcases hn with h | h
    · exact Or.inl h
    · right
      intro q hq
      obtain ⟨a, _, hd⟩ := C01Toric3DCode.deformation_rule Lx Ly Lz hq Axis.y
      show (Toric3DCode.getDeformation name none q).isSome = true
      rw [h, C01Toric3DCode.deformation_default_axis]
      exact Option.isSome_iff_exists.mpr ⟨_, hd⟩

theorem planar3D_servable (Lx Ly Lz : Nat) (hx : 1 ≤ Lx) (hy : 1 ≤ Ly) (hz : 1 ≤ Lz) (name : String)
    (hn : name = "None" ∨ name = "XZZX") :
    Servable (planar3D Lx Ly Lz) Generated.GuiFull.tables surfaceTypes name where
  wf := C01Planar3DCode.wf Lx Ly Lz hx hy hz
  tables := planar3D_tables
  stab_types := by
    intro s hs
    show ∃ t ∈ surfaceTypes, (Planar3DCode.stabilizerType Lx Ly Lz s).map (·.toString) = some t
    rcases C01Planar3DCode.stabilizer_shape Lx Ly Lz hs with h | h <;> rw [h.1] <;>
      exact ⟨_, cubicType_mem _, rfl⟩
  qubit_axes := by
    intro q hq
    obtain ⟨a, ha, _⟩ := C01Planar3DCode.deformation_rule Lx Ly Lz hq Axis.z
    exact ⟨a.toString, by show (Planar3DCode.qubitAxis q).map (·.toString) = _; rw [ha]; rfl⟩
  stab_edits := cubicStabEdits_simple
  qubit_edits := noEdits_simple
  deformation := by
    rcases hn with h | h
    · exact Or.inl h
    · right
      intro q hq
      obtain ⟨a, _, hd⟩ := C01Planar3DCode.deformation_rule Lx Ly Lz hq Axis.z
      show (Planar3DCode.getDeformation name none q).isSome = true
      rw [h, C01Planar3DCode.deformation_default_axis]
      exact Option.isSome_iff_exists.mpr ⟨_, hd⟩

/-- `HollowPlanar3DCode` offers no deformation: only the undeformed code is requested -/
theorem hollowPlanar3D_servable (Lx Ly Lz : Nat) (hx : 1 ≤ Lx) (hy : 1 ≤ Ly) (hz : 1 ≤ Lz) :
    Servable (hollowPlanar3D Lx Ly Lz) Generated.GuiFull.tables surfaceTypes "None" where
  wf := C01HollowPlanar3DCode.wf Lx Ly Lz hx hy hz
  tables := hollowPlanar3D_tables
  stab_types := by
    intro s hs
    show ∃ t ∈ surfaceTypes, (HollowPlanar3DCode.stabilizerType Lx Ly Lz s).map (·.toString) = some t
    rcases C01HollowPlanar3DCode.stabilizer_shape Lx Ly Lz hs with h | h <;> rw [h.1] <;>
      exact ⟨_, cubicType_mem _, rfl⟩
  qubit_axes := by
    intro q hq
    have hq' : q ∈ HollowPlanar3DCode.qubits Lx Ly Lz := hq
    obtain ⟨x, y, z, rfl⟩ := HollowPlanar3DCode.shape_of_mem_qubits hq'
    have h := C01HollowPlanar3DCode.qubit_axis_rule Lx Ly Lz hq
    exact ⟨_, by show (HollowPlanar3DCode.qubitAxis [x, y, z]).map (·.toString) = _; rw [h]; rfl⟩
  stab_edits := cubicStabEdits_simple
  qubit_edits := noEdits_simple
  deformation := Or.inl rfl

end Panqec.GuiRepr
