/-
Helper lemmas for C18: enumeration of all Pauli strings has no repetitions; the proposal of
the splitting method multiplies one qubit by the drawn letter.
-/
import PanqecVerif.Proofs.NoiseProb
import Mathlib.Data.List.Nodup

namespace Panqec

theorem allPaulis_nodup : ∀ n, (allPaulis n).Nodup
  | 0 => by simp [allPaulis]
  | n + 1 => by
    have ih := allPaulis_nodup n
    have hm : ∀ σ : Pauli, ((allPaulis n).map (σ :: ·)).Nodup := fun σ =>
      List.Nodup.map (fun a b h => by simpa using h) ih
    simp only [allPaulis, List.flatMap_cons, List.flatMap_nil, List.append_nil]
    simp only [List.nodup_append, hm, true_and, List.mem_append, List.mem_map, ne_eq]
    refine ⟨⟨?_, ?_⟩, ?_⟩ <;>
      (intro a ha b hb heq; subst heq; obtain ⟨a', _, rfl⟩ := ha; simp at hb)

/-! ### `setAdd` -/

theorem zipWith_range_snd : ∀ (v : List Nat) (k : Nat),
    List.zipWith (fun (_ : Nat) a => a) (List.range' k v.length) v = v
  | [], _ => by simp
  | a :: v, k => by simp [List.range'_succ, zipWith_range_snd v (k + 1)]

theorem setAdd_eq (v : List Nat) (k : Nat) :
    setAdd v k = List.zipWith (fun j a => if j = k then a + 1 else a) (List.range' 0 v.length) v := by
  simp [setAdd, List.range_eq_range']

/-- generalised to an offset so that the induction goes through -/
def setAddFrom (o : Nat) (v : List Nat) (k : Nat) : List Nat :=
  List.zipWith (fun j a => if j = k then a + 1 else a) (List.range' o v.length) v

theorem setAddFrom_cons (o a : Nat) (v : List Nat) (k : Nat) :
    setAddFrom o (a :: v) k = (if o = k then a + 1 else a) :: setAddFrom (o + 1) v k := by
  simp [setAddFrom, List.range'_succ]

theorem setAddFrom_lt (o : Nat) : ∀ (v : List Nat) (k : Nat), k < o → setAddFrom o v k = v
  | [], _, _ => by simp [setAddFrom]
  | a :: v, k, h => by
    rw [setAddFrom_cons, setAddFrom_lt (o + 1) v k (by omega)]
    have : o ≠ k := by omega
    simp [this]

theorem setAddFrom_length (o : Nat) (v : List Nat) (k : Nat) : (setAddFrom o v k).length = v.length := by
  simp [setAddFrom]

theorem setAddFrom_append (o : Nat) : ∀ (a b : List Nat) (k : Nat),
    setAddFrom o (a ++ b) k = setAddFrom o a k ++ setAddFrom (o + a.length) b k
  | [], b, k => by simp [setAddFrom]
  | x :: a, b, k => by
    rw [List.cons_append, setAddFrom_cons, setAddFrom_cons, setAddFrom_append (o + 1) a b k]
    simp [Nat.add_assoc, Nat.add_comm 1]

theorem setAddFrom_ge (o : Nat) : ∀ (v : List Nat) (k : Nat), o + v.length ≤ k → setAddFrom o v k = v
  | [], _, _ => by simp [setAddFrom]
  | a :: v, k, h => by
    simp only [List.length_cons] at h
    rw [setAddFrom_cons, setAddFrom_ge (o + 1) v k (by omega)]
    have : o ≠ k := by omega
    simp [this]

/-- adding `b ∈ {0,1}` at position `k` of a bit vector read off a Pauli string, then reducing
    modulo 2, is reading the bits off the string with letter `k` replaced -/
theorem bump_map (g : Pauli → Nat) (b : Nat) (ρ τ : Pauli) (hρ : g ρ % 2 = (g τ + b) % 2) (hb : b < 2) :
    ∀ (o : Nat) (s : List Pauli) (k : Nat), s[k]? = some τ →
      ((if b = 1 then setAddFrom o (s.map g) (o + k) else s.map g).map (· % 2)) =
        (s.set k ρ).map (fun σ => g σ % 2)
  | _, [], _, h => by simp at h
  | o, σ0 :: s, 0, h => by
    simp only [List.getElem?_cons_zero, Option.some.injEq] at h
    subst h
    have hb' : b = 0 ∨ b = 1 := by omega
    rcases hb' with rfl | rfl
    · simp at hρ ⊢; exact hρ.symm
    · simp only [if_true, List.map_cons, setAddFrom_cons, Nat.add_zero, List.set_cons_zero]
      rw [setAddFrom_lt (o + 1) _ o (by omega)]
      simp [hρ]
  | o, σ0 :: s, k + 1, h => by
    simp only [List.getElem?_cons_succ] at h
    have ih := bump_map g b ρ τ hρ hb (o + 1) s k h
    have hb' : b = 0 ∨ b = 1 := by omega
    rcases hb' with rfl | rfl
    · simp at ih ⊢; exact ih
    · simp only [if_true, List.map_cons, setAddFrom_cons, List.set_cons_succ] at ih ⊢
      have hne : o ≠ o + 1 + k := by omega
      have he : o + (k + 1) = o + 1 + k := by omega
      simp only [he, hne, if_false, ih]

theorem mul_xBit (σ τ : Pauli) : (σ.mul τ).xBit % 2 = (τ.xBit + σ.xBit) % 2 := by
  cases σ <;> cases τ <;> decide

theorem mul_zBit (σ τ : Pauli) : (σ.mul τ).zBit % 2 = (τ.zBit + σ.zBit) % 2 := by
  cases σ <;> cases τ <;> decide

theorem map_xBit_mod (s : List Pauli) : s.map (fun σ => σ.xBit % 2) = s.map Pauli.xBit := by
  apply List.map_congr_left; intro σ _; cases σ <;> rfl

theorem map_zBit_mod (s : List Pauli) : s.map (fun σ => σ.zBit % 2) = s.map Pauli.zBit := by
  apply List.map_congr_left; intro σ _; cases σ <;> rfl

theorem proposeError_pauliToBsf (s : List Pauli) (idx : Nat) (σ τ : Pauli) (h : s[idx]? = some τ) :
    proposeError s.length (pauliToBsf s) idx σ = pauliToBsf (s.set idx (σ.mul τ)) := by
  have hidx : idx < s.length := by
    by_contra hc
    rw [List.getElem?_eq_none (by omega)] at h
    simp at h
  have hA : ∀ v k, setAdd v k = setAddFrom 0 v k := by
    intro v k; simp [setAdd_eq, setAddFrom]
  have hx : (σ = .X ∨ σ = .Y) ↔ σ.xBit = 1 := by cases σ <;> simp [Pauli.xBit]
  have hz : (σ = .Z ∨ σ = .Y) ↔ σ.zBit = 1 := by cases σ <;> simp [Pauli.zBit]
  have hbx : σ.xBit < 2 := by cases σ <;> decide
  have hbz : σ.zBit < 2 := by cases σ <;> decide
  simp only [proposeError, hx, hz, hA]
  have e1 : (if σ.xBit = 1 then setAddFrom 0 (pauliToBsf s) idx else pauliToBsf s) =
      (if σ.xBit = 1 then setAddFrom 0 (s.map Pauli.xBit) (0 + idx) else s.map Pauli.xBit) ++
        s.map Pauli.zBit := by
    unfold pauliToBsf
    split_ifs
    · rw [setAddFrom_append, setAddFrom_lt _ (s.map Pauli.zBit) idx (by simp; omega)]; simp
    · rfl
  rw [e1]
  generalize hxs1 : (if σ.xBit = 1 then setAddFrom 0 (s.map Pauli.xBit) (0 + idx)
    else s.map Pauli.xBit) = xs1
  have hl1 : xs1.length = s.length := by
    rw [← hxs1]; split_ifs <;> simp [setAddFrom_length]
  have e2 : (if σ.zBit = 1 then setAddFrom 0 (xs1 ++ s.map Pauli.zBit) (s.length + idx)
        else xs1 ++ s.map Pauli.zBit) =
      xs1 ++ (if σ.zBit = 1 then setAddFrom s.length (s.map Pauli.zBit) (s.length + idx)
        else s.map Pauli.zBit) := by
    split_ifs
    · rw [setAddFrom_append, setAddFrom_ge 0 xs1 _ (by omega), Nat.zero_add, hl1]
    · rfl
  rw [e2, List.map_append, ← hxs1,
    bump_map Pauli.xBit σ.xBit (σ.mul τ) τ (mul_xBit σ τ) hbx 0 s idx h,
    bump_map Pauli.zBit σ.zBit (σ.mul τ) τ (mul_zBit σ τ) hbz s.length s idx h,
    map_xBit_mod, map_zBit_mod]
  rfl

end Panqec
