/-
Color666ToricCode, square sizes `L ≥ 1`: counting.  `n_stabilizers = 2·(3L)·(3L)` directly from the
two nested ranges; the derived qubit list has the same members as `6L` explicit columns of `3L`
sites each (`x = 3t` and `x = 3t + 1`, `t < 3L`), hence `n = 18L²`.  Core Lean only.
-/
import PanqecVerif.Proofs.LatColor666ToricCodeC
import PanqecVerif.Proofs.LatColor666PlanarCodeCount

set_option linter.unusedVariables false
set_option linter.unusedSimpArgs false

namespace Panqec.Color666ToricCode
open Panqec.Lat2D Panqec.Color
open Panqec.Color666PlanarCode (col mem_col length_col nodup_col nodup_blocks sum_const length_both)

theorem length_flatMap_const {α β} (l : List α) (f : α → List β) (c : Nat)
    (h : ∀ x ∈ l, (f x).length = c) : (l.flatMap f).length = c * l.length := by
  induction l with
  | nil => simp
  | cons a l ih =>
    rw [List.flatMap_cons, List.length_append, h a (List.mem_cons_self ..),
      ih (fun x hx => h x (List.mem_cons_of_mem _ hx)), List.length_cons, Nat.mul_succ]
    omega

/-- `n_stabilizers = 18L²` -/
theorem length_stabs (L : Nat) : (stabs L L).length = 18 * (L * L) := by
  unfold stabs faces
  rw [length_both, length_flatMap_const _ _ (3 * L)]
  · have : (pyRangeStep 2 (9 * (L : Int)) 3).length = 3 * L := by
      unfold pyRangeStep
      simp only [List.length_map, List.length_range']
      omega
    rw [this]
    have e : 3 * L * (3 * L) = 9 * (L * L) := by rw [Nat.mul_mul_mul_comm]
    omega
  · intro x _
    unfold pyRangeI
    simp only [List.length_map, List.length_range]
    omega

/-- the two qubit columns `x = 3t`, `x = 3t + 1` -/
def qBlock (L t : Nat) : List Coord :=
  col (3 * (t : Int)) (if t = 0 then 2 else 2 * (t : Int) - 2) (3 * L) ++
  col (3 * (t : Int) + 1) (2 * (t : Int)) (3 * L)

def niceQubits (L : Nat) : List Coord := (List.range (3 * L)).flatMap (qBlock L)

theorem mem_qBlock {L t : Nat} {q : Coord} :
    q ∈ qBlock L t ↔ ∃ a b, q = [a, b] ∧
      ((a = 3 * (t : Int) ∧ ∃ m : Nat, m < 3 * L ∧
          b = (if t = 0 then 2 else 2 * (t : Int) - 2) + 4 * (m : Int)) ∨
       (a = 3 * (t : Int) + 1 ∧ ∃ m : Nat, m < 3 * L ∧ b = 2 * (t : Int) + 4 * (m : Int))) := by
  unfold qBlock
  rw [List.mem_append, mem_col, mem_col]
  constructor
  · rintro (⟨m, hm, rfl⟩ | ⟨m, hm, rfl⟩)
    · exact ⟨_, _, rfl, Or.inl ⟨rfl, m, hm, rfl⟩⟩
    · exact ⟨_, _, rfl, Or.inr ⟨rfl, m, hm, rfl⟩⟩
  · rintro ⟨a, b, rfl, ⟨rfl, m, hm, rfl⟩ | ⟨rfl, m, hm, rfl⟩⟩
    · exact Or.inl ⟨m, hm, rfl⟩
    · exact Or.inr ⟨m, hm, rfl⟩

theorem mem_niceQubits {L : Nat} (hL : 1 ≤ L) {q : Coord} : q ∈ niceQubits L ↔ q ∈ qubits L L := by
  unfold niceQubits
  rw [List.mem_flatMap, mem_qubits hL]
  constructor
  · rintro ⟨t, ht, hq⟩
    rw [List.mem_range] at ht
    obtain ⟨a, b, rfl, h⟩ := mem_qBlock.mp hq
    refine ⟨a, b, rfl, ?_⟩
    unfold IsQ InD skew
    rcases h with ⟨rfl, m, hm, rfl⟩ | ⟨rfl, m, hm, rfl⟩
    · by_cases h0 : t = 0
      · subst h0; simp only [if_true]; omega
      · rw [if_neg h0]; omega
    · omega
  · rintro ⟨a, b, rfl, h⟩
    unfold IsQ InD skew at h
    by_cases h3 : a % 3 = 0
    · refine ⟨(a / 3).toNat, List.mem_range.mpr (by omega), mem_qBlock.mpr ⟨a, b, rfl, Or.inl ⟨by omega, ?_⟩⟩⟩
      by_cases h0 : (a / 3).toNat = 0
      · rw [if_pos h0]
        exact ⟨((b - 2) / 4).toNat, by omega, by omega⟩
      · rw [if_neg h0]
        exact ⟨((b - (2 * (a / 3) - 2)) / 4).toNat, by omega, by omega⟩
    · refine ⟨(a / 3).toNat, List.mem_range.mpr (by omega), mem_qBlock.mpr ⟨a, b, rfl, Or.inr ⟨by omega, ?_⟩⟩⟩
      exact ⟨((b - 2 * (a / 3)) / 4).toNat, by omega, by omega⟩

theorem nodup_qBlock (L t : Nat) : (qBlock L t).Nodup := by
  unfold qBlock
  rw [List.nodup_append]
  refine ⟨nodup_col .., nodup_col .., ?_⟩
  intro a ha b hb e
  subst e
  obtain ⟨m, _, rfl⟩ := mem_col.mp ha
  obtain ⟨m', _, e⟩ := mem_col.mp hb
  simp only [List.cons.injEq, and_true] at e
  omega

theorem nodup_niceQubits (L : Nat) : (niceQubits L).Nodup := by
  unfold niceQubits
  apply nodup_blocks
  · intro t; exact nodup_qBlock L t
  · intro t t' _ _ htt q hq hr
    obtain ⟨a, b, rfl, h⟩ := mem_qBlock.mp hq
    obtain ⟨a', b', e, h'⟩ := mem_qBlock.mp hr
    simp only [List.cons.injEq, and_true] at e
    rcases h with ⟨h, _⟩ | ⟨h, _⟩ <;> rcases h' with ⟨h', _⟩ | ⟨h', _⟩ <;> omega

theorem length_qBlock (L t : Nat) : (qBlock L t).length = 6 * L := by
  unfold qBlock
  rw [List.length_append, length_col, length_col]; omega

/-- `n = 18L²` -/
theorem length_qubits {L : Nat} (hL : 1 ≤ L) : (qubits L L).length = 18 * (L * L) := by
  rw [← length_eq_of_mem_iff (nodup_niceQubits L) (nodup_qubits L) (fun q => mem_niceQubits hL)]
  unfold niceQubits
  rw [length_flatMap_range _ (fun _ => 6 * L) (length_qBlock L), sum_const]
  rw [Nat.mul_mul_mul_comm]

end Panqec.Color666ToricCode
