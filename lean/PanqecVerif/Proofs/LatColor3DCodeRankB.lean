/-
Color3DCode, rank clause, Z-type part: the witness qubit and the rank of a selected cell, and the
triangular property (`Proofs/LatCubic3DRank.lean`, `opsIndep_of_triangular`): every other selected
cell acting on the witness of `s` has smaller rank.

The cells are the vertices of the body-centred cubic lattice, the qubits its tetrahedra (two cells at
distance 4 along one axis, two at distance 4 along a second axis, the two pairs 2 apart along the
third).  Order:
* the LINE `x ∈ {4, 6, 8}`, `z ∈ {2, 4, 6}` (cells `(6, y, 2)`, `(6, y, 6)`, `(4, y, 4)`, `(8, y, 4)`),
  by increasing `y`: a cell `(6, y, 2)` / `(6, y, 6)` uses the tetrahedron below / above the two cells
  `(4, y−2, 4)`, `(8, y−2, 4)`; a cell `(4, y, 4)` / `(8, y, 4)` the tetrahedron it shares with
  `(6, y−2, 2)`, `(6, y−2, 6)`; the first cell `(8, 4, 4)` the tetrahedron of the three left-out cells;
* then the SLAB `z ∈ {2, 4, 6}` by increasing `x` (the column `x = 2` last): the tetrahedron towards
  smaller `x` in the plane `z = 3` / `z = 5`;
* then the layers `z ≥ 8` by increasing `z`: the tetrahedron `(x−1, y, z−2)`, whose other three cells
  lie in the two layers below.
-/
import PanqecVerif.Proofs.LatColor3DCodeRankA

set_option linter.unusedVariables false

namespace Panqec.Color3DCode
open Panqec.Lat2D Panqec.Color

/-- the cells of the starting line -/
def InLine (x z : Int) : Prop := (x = 6 ∧ (z = 2 ∨ z = 6)) ∨ ((x = 4 ∨ x = 8) ∧ z = 4)

instance (x z : Int) : Decidable (InLine x z) := by unfold InLine; infer_instance

/-- the stage offset of the rank -/
def rkB (Lx Ly Lz : Nat) : Nat := 4 * (Lx + Ly + Lz) + 16

/-- the rank of a cell -/
def rk (Lx Ly Lz : Nat) (x y z : Int) : Nat :=
  if 8 ≤ z then 2 * rkB Lx Ly Lz + z.toNat
  else if InLine x z then y.toNat
  else rkB Lx Ly Lz + (if x = 2 then 4 * Lx + 2 else x.toNat)

/-- a coordinate `4L` of a cell is the qubit coordinate `0` -/
def wr (L : Nat) (v : Int) : Int := if v = 4 * (L : Int) then 0 else v

/-- the witness qubit of a cell -/
def wit (Ly : Nat) (x y z : Int) : Coord :=
  if 8 ≤ z then [x - 1, wr Ly y, z - 2]
  else if z = 4 then
    (if x = 4 then [5, y - 2, 4]
     else if x = 8 then (if y = 4 then [6, 3, 4] else [7, y - 2, 4])
     else [x - 2, wr Ly y, 3])
  else if x = 6 then [6, y - 2, (z + 4) / 2]
  else [x - 2, y, (z + 4) / 2]

def cellRank (Lx Ly Lz : Nat) : Coord → Nat
  | [x, y, z] => rk Lx Ly Lz x y z
  | _ => 0

def cellWit (Ly : Nat) : Coord → Coord
  | [x, y, z] => wit Ly x y z
  | _ => []

/-! ### ranks -/

theorem rk_bulk {Lx Ly Lz : Nat} {x y z : Int} (h : 8 ≤ z) :
    rk Lx Ly Lz x y z = 2 * rkB Lx Ly Lz + z.toNat := by
  unfold rk; rw [if_pos h]

theorem rk_line {Lx Ly Lz : Nat} {x y z : Int} (h : z < 8) (hl : InLine x z) :
    rk Lx Ly Lz x y z = y.toNat := by
  unfold rk; rw [if_neg (by omega), if_pos hl]

theorem rk_slab {Lx Ly Lz : Nat} {x y z : Int} (h : z < 8) (hl : ¬ InLine x z) (h2 : x ≠ 2) :
    rk Lx Ly Lz x y z = rkB Lx Ly Lz + x.toNat := by
  unfold rk; rw [if_neg (by omega), if_neg hl, if_neg h2]

theorem rk_slab2 {Lx Ly Lz : Nat} {y z : Int} (h : z < 8) :
    rk Lx Ly Lz 2 y z = rkB Lx Ly Lz + (4 * Lx + 2) := by
  unfold rk
  have hl : ¬ InLine 2 z := by unfold InLine; omega
  rw [if_neg (by omega), if_neg hl, if_pos rfl]

/-- below the layers `z ≥ 8` the rank is at most the slab rank of the column -/
theorem rk_le {Lx Ly Lz : Nat} {x y z : Int} (r : CellR Lx Ly Lz x y z) (h : z < 8) (h2 : x ≠ 2) :
    rk Lx Ly Lz x y z ≤ rkB Lx Ly Lz + x.toNat := by
  unfold CellR at r
  by_cases hl : InLine x z
  · rw [rk_line h hl]; unfold rkB; omega
  · rw [rk_slab h hl h2]; exact Nat.le_refl _

theorem rk_lt_bulk {Lx Ly Lz : Nat} {x y z : Int} (r : CellR Lx Ly Lz x y z) (h : z < 8) :
    rk Lx Ly Lz x y z < 2 * rkB Lx Ly Lz := by
  unfold CellR at r
  by_cases h2 : x = 2
  · subst h2; rw [rk_slab2 h]; unfold rkB; omega
  · have := rk_le r h h2; unfold rkB at *; omega

/-! ### the four cells of a qubit -/

section geo
variable {Lx Ly Lz : Nat} {tx ty tz a b c : Int}

/-- a cell acting on a qubit with odd `z`: one layer below or above, and either the same `x`
    (when `a ≡ tz mod 4`) and `y` two apart, or the same `y` and `x` two apart — up to one period -/
theorem geo_zodd (ht : IsC Lx Ly Lz tx ty tz) (ha : a % 2 = 0) (hc : c % 2 = 1) (hc3 : 3 ≤ c)
    (hcm : c < 4 * (Lz : Int)) (hq : [a, b, c] ∈ keys Lx Ly Lz tx ty tz) :
    (tz = c - 1 ∨ tz = c + 1) ∧
    ((a % 4 = tz % 4 ∧ (tx = a ∨ tx = a + 4 * (Lx : Int)) ∧
        (ty = b - 2 ∨ ty = b + 2 ∨ ty = b - 2 + 4 * (Ly : Int) ∨ ty = b + 2 + 4 * (Ly : Int))) ∨
     (a % 4 ≠ tz % 4 ∧ (ty = b ∨ ty = b + 4 * (Ly : Int)) ∧
        (tx = a - 2 ∨ tx = a + 2 ∨ tx = a - 2 + 4 * (Lx : Int) ∨ tx = a + 2 + 4 * (Lx : Int)))) := by
  obtain ⟨d1, d2, d3, hsp, h1, h2, h3⟩ := cell_hit_cases ht hq
  have hb := hsp.bd
  obtain ⟨x0, x1, y0, y1, z0, z1, px, rx, ry⟩ := ht.cellR
  have h3' : tz + d3 = c := by omega
  have hd3 : d3 = 1 ∨ d3 = -1 := by omega
  have hsp' := hsp.of3 hd3
  refine ⟨by omega, ?_⟩
  have hm : (tx + d1) % 4 = a % 4 := by omega
  clear hsp hb h3 h3' hd3 hc hc3 hcm z0 z1 x0 x1 y0 y1 ry
  rcases hsp' with ⟨rfl, hd2⟩ | ⟨rfl, hd1⟩
  · left; omega
  · right; omega

/-- a cell acting on a qubit with odd `x` -/
theorem geo_xodd (ht : IsC Lx Ly Lz tx ty tz) (ha : a % 2 = 1) (hb2 : b % 2 = 0)
    (hq : [a, b, c] ∈ keys Lx Ly Lz tx ty tz) :
    (tx = a - 1 ∨ tx = a + 1 ∨ tx = a - 1 + 4 * (Lx : Int) ∨ tx = a + 1 + 4 * (Lx : Int)) ∧
    ((b % 4 = tx % 4 ∧ (ty = b ∨ ty = b + 4 * (Ly : Int)) ∧
        (tz = c - 2 ∨ tz = c + 2 ∨ tz = c - 2 + 4 * (Lz : Int) ∨ tz = c + 2 + 4 * (Lz : Int))) ∨
     (b % 4 ≠ tx % 4 ∧ (tz = c ∨ tz = c + 4 * (Lz : Int)) ∧
        (ty = b - 2 ∨ ty = b + 2 ∨ ty = b - 2 + 4 * (Ly : Int) ∨ ty = b + 2 + 4 * (Ly : Int)))) := by
  obtain ⟨d1, d2, d3, hsp, h1, h2, h3⟩ := cell_hit_cases ht hq
  have hb := hsp.bd
  obtain ⟨x0, x1, y0, y1, z0, z1, px, rx, ry⟩ := ht.cellR
  have hd1 : d1 = 1 ∨ d1 = -1 := by omega
  have hsp' := hsp.of1 hd1
  refine ⟨by omega, ?_⟩
  have hm : (ty + d2) % 4 = b % 4 := by omega
  clear hsp hb h1 hd1 ha z0 z1 x0 x1 y0 y1 px
  rcases hsp' with ⟨rfl, hd3⟩ | ⟨rfl, hd2⟩
  · left; omega
  · right; omega

/-- a cell acting on a qubit with odd `y` -/
theorem geo_yodd (ht : IsC Lx Ly Lz tx ty tz) (hb2 : b % 2 = 1) (ha : a % 2 = 0)
    (hq : [a, b, c] ∈ keys Lx Ly Lz tx ty tz) :
    (ty = b - 1 ∨ ty = b + 1 ∨ ty = b - 1 + 4 * (Ly : Int) ∨ ty = b + 1 + 4 * (Ly : Int)) ∧
    ((a % 4 = ty % 4 ∧ (tx = a ∨ tx = a + 4 * (Lx : Int)) ∧
        (tz = c - 2 ∨ tz = c + 2 ∨ tz = c - 2 + 4 * (Lz : Int) ∨ tz = c + 2 + 4 * (Lz : Int))) ∨
     (a % 4 ≠ ty % 4 ∧ (tz = c ∨ tz = c + 4 * (Lz : Int)) ∧
        (tx = a - 2 ∨ tx = a + 2 ∨ tx = a - 2 + 4 * (Lx : Int) ∨ tx = a + 2 + 4 * (Lx : Int)))) := by
  obtain ⟨d1, d2, d3, hsp, h1, h2, h3⟩ := cell_hit_cases ht hq
  have hb := hsp.bd
  obtain ⟨x0, x1, y0, y1, z0, z1, px, rx, ry⟩ := ht.cellR
  have hd2 : d2 = 1 ∨ d2 = -1 := by omega
  have hsp' := hsp.of2 hd2
  refine ⟨by omega, ?_⟩
  have hm : (tx + d1) % 4 = a % 4 := by omega
  clear hsp hb h2 hd2 hb2 z0 z1 x0 x1 y0 y1
  rcases hsp' with ⟨rfl, hd3⟩ | ⟨rfl, hd1⟩
  · left; omega
  · right; omega

end geo

/-! ### the other cells on the witness -/

section tri
variable {Lx Ly Lz : Nat} {x y z tx ty tz : Int}

/-- layers `z ≥ 8` -/
theorem tri_bulk (hs : IsC Lx Ly Lz x y z) (hz8 : 8 ≤ z) (ht : IsC Lx Ly Lz tx ty tz)
    (hq : [x - 1, wr Ly y, z - 2] ∈ keys Lx Ly Lz tx ty tz) :
    (tx = x ∧ ty = y ∧ tz = z) ∨ rk Lx Ly Lz tx ty tz < rk Lx Ly Lz x y z := by
  obtain ⟨sx0, sx1, sy0, sy1, sz0, sz1, spx, srx, sry⟩ := hs.cellR
  have rt' := ht.cellR
  obtain ⟨x0, x1, y0, y1, z0, z1, px, rx, ry⟩ := ht.cellR
  have hw : (wr Ly y = y ∧ y < 4 * (Ly : Int)) ∨ (wr Ly y = 0 ∧ y = 4 * (Ly : Int)) := by
    unfold wr; by_cases h : y = 4 * (Ly : Int)
    · rw [if_pos h]; exact Or.inr ⟨rfl, h⟩
    · rw [if_neg h]; left; omega
  generalize wr Ly y = b at hq hw
  obtain ⟨g1, g2⟩ := geo_xodd ht (by omega) (by omega) hq
  have G : (tx = x ∧ ty = y ∧ tz = z) ∨ tz < z := by
    clear hq rt' hs ht
    rcases g2 with ⟨m, hy, hz⟩ | ⟨m, hz, hy⟩
    · have e1 : tx = x := by omega
      have e2 : ty = y := by omega
      clear g1 hy
      omega
    · right; omega
  rcases G with hself | hlt
  · exact Or.inl hself
  · right
    rw [rk_bulk hz8]
    by_cases h8 : 8 ≤ tz
    · rw [rk_bulk h8]; omega
    · have := rk_lt_bulk rt' (by omega); omega

/-- slab, cells `(x, y, 2)` and `(x, y, 6)` with `x ≠ 6` (`c = 3` resp. `c = 5`), a cell of the layer
    `z = 4` on the witness -/
theorem slabA_mid (hx4 : x % 4 = 2) (hx0 : 2 ≤ x) (x0 : 2 ≤ tx) (x1 : tx ≤ 4 * (Lx : Int))
    (hx' : tx = x - 2 ∨ tx = x - 2 + 4 * (Lx : Int)) :
    tx ≠ 2 ∧ (tx < x ∨ (x = 2 ∧ tx ≤ 4 * (Lx : Int))) := by
  omega

/-- ... a cell of the same layer on the witness -/
theorem slabA_same (hx4 : x % 4 = 2) (hx0 : 2 ≤ x) (hx6 : x ≠ 6) (x0 : 2 ≤ tx)
    (x1 : tx ≤ 4 * (Lx : Int)) (hxx : tx ≠ x)
    (hx' : tx = x - 2 - 2 ∨ tx = x - 2 + 2 ∨ tx = x - 2 - 2 + 4 * (Lx : Int) ∨
      tx = x - 2 + 2 + 4 * (Lx : Int)) :
    tx ≠ 2 ∧ (tx < x ∨ (x = 2 ∧ tx ≤ 4 * (Lx : Int))) := by
  omega

theorem geo_slabA (hs : IsC Lx Ly Lz x y z) (hx6 : x ≠ 6)
    (ht : IsC Lx Ly Lz tx ty tz) {c : Int} (hc : (z = 2 ∧ c = 3) ∨ (z = 6 ∧ c = 5))
    (hq : [x - 2, y, c] ∈ keys Lx Ly Lz tx ty tz) :
    tz < 8 ∧ ((tx = x ∧ ty = y ∧ tz = z) ∨
      (tx ≠ 2 ∧ (tx < x ∨ (x = 2 ∧ tx ≤ 4 * (Lx : Int))))) := by
  obtain ⟨sx0, sx1, sy0, sy1, sz0, sz1, spx, srx, sry⟩ := hs.cellR
  obtain ⟨x0, x1, y0, y1, z0, z1, px, rx, ry⟩ := ht.cellR
  obtain ⟨g1, g2⟩ := geo_zodd ht (by omega) (by omega) (by omega) (by omega) hq
  have hx4 : x % 4 = 2 := by omega
  have hy4 : y % 4 = 2 := by omega
  refine ⟨by omega, ?_⟩
  clear hq hs ht
  rcases g2 with ⟨m, hx', hy'⟩ | ⟨m, hy', hx'⟩
  · right
    have hx'' : tx = x - 2 ∨ tx = x - 2 + 4 * (Lx : Int) := hx'
    exact slabA_mid hx4 sx0 x0 x1 hx''
  · have e3 : tz = z := by omega
    have e2 : ty = y := by omega
    by_cases hxx : tx = x
    · exact Or.inl ⟨hxx, e2, e3⟩
    · exact Or.inr (slabA_same hx4 sx0 hx6 x0 x1 hxx hx')

theorem tri_slabA (hs : IsC Lx Ly Lz x y z) (hx6 : x ≠ 6)
    (ht : IsC Lx Ly Lz tx ty tz) {c : Int} (hc : (z = 2 ∧ c = 3) ∨ (z = 6 ∧ c = 5))
    (hq : [x - 2, y, c] ∈ keys Lx Ly Lz tx ty tz) :
    (tx = x ∧ ty = y ∧ tz = z) ∨ rk Lx Ly Lz tx ty tz < rk Lx Ly Lz x y z := by
  obtain ⟨htz, G⟩ := geo_slabA hs hx6 ht hc hq
  have rt' := ht.cellR
  have x0 : 2 ≤ tx := ht.cellR.1
  have x1 : tx ≤ 4 * (Lx : Int) := ht.cellR.2.1
  have sx0 : 2 ≤ x := hs.cellR.1
  have hz8 : z < 8 := by omega
  have hnl : ¬ InLine x z := by unfold InLine; omega
  rcases G with hself | ⟨ht2, hlt⟩
  · exact Or.inl hself
  · right
    have hle := rk_le rt' htz ht2
    by_cases hx2 : x = 2
    · subst hx2
      rw [rk_slab2 hz8]
      omega
    · rw [rk_slab hz8 hnl hx2]
      omega

/-- slab, cells `(x, y, 4)` with `x ≥ 12` -/
theorem tri_slabB (hs : IsC Lx Ly Lz x y 4) (hx : 12 ≤ x) (ht : IsC Lx Ly Lz tx ty tz)
    (hq : [x - 2, wr Ly y, 3] ∈ keys Lx Ly Lz tx ty tz) :
    (tx = x ∧ ty = y ∧ tz = 4) ∨ rk Lx Ly Lz tx ty tz < rk Lx Ly Lz x y 4 := by
  obtain ⟨sx0, sx1, sy0, sy1, sz0, sz1, spx, srx, sry⟩ := hs.cellR
  have rt' := ht.cellR
  obtain ⟨x0, x1, y0, y1, z0, z1, px, rx, ry⟩ := ht.cellR
  have hw : (wr Ly y = y ∧ y < 4 * (Ly : Int)) ∨ (wr Ly y = 0 ∧ y = 4 * (Ly : Int)) := by
    unfold wr; by_cases h : y = 4 * (Ly : Int)
    · rw [if_pos h]; exact Or.inr ⟨rfl, h⟩
    · rw [if_neg h]; left; omega
  generalize wr Ly y = b at hq hw
  obtain ⟨g1, g2⟩ := geo_zodd ht (by omega) (by omega) (by omega) (by omega) hq
  have htz : tz < 8 := by omega
  have hnl : ¬ InLine x 4 := by unfold InLine; omega
  have G : (tx = x ∧ ty = y ∧ tz = 4) ∨ (tx ≠ 2 ∧ tx < x) := by
    clear hq rt' hnl hs ht
    rcases g2 with ⟨m, hx', hy'⟩ | ⟨m, hy', hx'⟩
    · right
      clear hy' hw
      omega
    · have e3 : tz = 4 := by omega
      have e2 : ty = y := by omega
      clear hy' hw g1 m
      omega
  rcases G with hself | ⟨ht2, hlt⟩
  · exact Or.inl hself
  · right
    have hle := rk_le rt' htz ht2
    rw [rk_slab (by omega) hnl (by omega)]
    omega

/-- line, cells `(6, y, 2)` and `(6, y, 6)` with `y ≥ 6` -/
theorem tri_lineA (hs : IsC Lx Ly Lz 6 y z) (hy : 6 ≤ y)
    (ht : IsC Lx Ly Lz tx ty tz) {c : Int} (hc : (z = 2 ∧ c = 3) ∨ (z = 6 ∧ c = 5))
    (hq : [6, y - 2, c] ∈ keys Lx Ly Lz tx ty tz) :
    (tx = 6 ∧ ty = y ∧ tz = z) ∨ rk Lx Ly Lz tx ty tz < rk Lx Ly Lz 6 y z := by
  obtain ⟨sx0, sx1, sy0, sy1, sz0, sz1, spx, srx, sry⟩ := hs.cellR
  obtain ⟨x0, x1, y0, y1, z0, z1, px, rx, ry⟩ := ht.cellR
  obtain ⟨g1, g2⟩ := geo_zodd ht (by omega) (by omega) (by omega) (by omega) hq
  have htz : tz < 8 := by omega
  have hl : InLine 6 z := by unfold InLine; omega
  have G : (tx = 6 ∧ ty = y ∧ tz = z) ∨
      (((tx = 6 ∧ (tz = 2 ∨ tz = 6)) ∨ ((tx = 4 ∨ tx = 8) ∧ tz = 4)) ∧ ty < y) := by
    clear hq hl hs ht
    rcases hc with ⟨rfl, rfl⟩ | ⟨rfl, rfl⟩ <;> omega
  rcases G with hself | ⟨hlt, hty⟩
  · exact Or.inl hself
  · right
    rw [rk_line htz hlt, rk_line (by omega) hl]
    omega

/-- line, cells `(4, y, 4)` and `(8, y, 4)` with `y ≥ 8`: `a = 5` resp. `a = 7` -/
theorem tri_lineB (hs : IsC Lx Ly Lz x y 4) (hy : 8 ≤ y)
    (ht : IsC Lx Ly Lz tx ty tz) {a : Int} (ha : (x = 4 ∧ a = 5) ∨ (x = 8 ∧ a = 7))
    (hq : [a, y - 2, 4] ∈ keys Lx Ly Lz tx ty tz) :
    (tx = x ∧ ty = y ∧ tz = 4) ∨ rk Lx Ly Lz tx ty tz < rk Lx Ly Lz x y 4 := by
  obtain ⟨sx0, sx1, sy0, sy1, sz0, sz1, spx, srx, sry⟩ := hs.cellR
  obtain ⟨x0, x1, y0, y1, z0, z1, px, rx, ry⟩ := ht.cellR
  obtain ⟨g1, g2⟩ := geo_xodd ht (by omega) (by omega) hq
  have hl : InLine x 4 := by unfold InLine; omega
  have G : (tx = x ∧ ty = y ∧ tz = 4) ∨
      (((tx = 6 ∧ (tz = 2 ∨ tz = 6)) ∨ ((tx = 4 ∨ tx = 8) ∧ tz = 4)) ∧ ty < y) := by
    clear hq hl hs ht
    rcases g2 with ⟨m, hy', hz⟩ | ⟨m, hz, hy'⟩
    · right
      have e1 : tx = 6 := by omega
      have e2 : ty = y - 2 := by omega
      clear g1 hy' m
      omega
    · have e1 : tx = x := by omega
      have e3 : tz = 4 := by omega
      have e2 : ty = y ∨ ty = y - 4 := by omega
      clear g1 hy' m hz
      omega
  rcases G with hself | ⟨hlt, hty⟩
  · exact Or.inl hself
  · right
    have htz : tz < 8 := by omega
    rw [rk_line htz hlt, rk_line (by omega) hl]
    omega

/-- the first cell `(8, 4, 4)`: the other three cells of its tetrahedron are left out -/
theorem tri_first (ht : IsK Lx Ly Lz tx ty tz) (hq : [6, 3, 4] ∈ keys Lx Ly Lz tx ty tz) :
    tx = 8 ∧ ty = 4 ∧ tz = 4 := by
  obtain ⟨x0, x1, y0, y1, z0, z1, px, rx, ry⟩ := ht.1.cellR
  obtain ⟨g1, g2⟩ := geo_yodd ht.1 (by omega) (by omega) hq
  obtain ⟨_, k1, k2, k3⟩ := ht
  rcases g2 with ⟨m, hx', hz'⟩ | ⟨m, hz', hx'⟩
  · exfalso
    have e2 : ty = 2 := by omega
    have e1 : tx = 6 := by omega
    have e3 : tz = 2 ∨ tz = 6 := by omega
    clear g1 m hx' hz' k3
    omega
  · have e2 : ty = 4 := by omega
    have e3 : tz = 4 := by omega
    have e1 : tx = 4 ∨ tx = 8 := by omega
    clear g1 m hx' hz' k1 k2
    omega

end tri

end Panqec.Color3DCode
