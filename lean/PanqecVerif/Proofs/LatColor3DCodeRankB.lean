/-
Color3DCode, rank clause, Z-type part: the witness qubit and the rank of a selected cell, and the
triangular property (`Proofs/LatCubic3DRank.lean`, `opsIndep_of_triangular`): every other selected
cell acting on the witness of `s` has smaller rank.

The cells are the vertices of the body-centred cubic lattice, the qubits its tetrahedra (two cells at
distance 4 along one axis, two at distance 4 along a second axis, the two pairs 2 apart along the
third).  Order:
* the LINE `x ∈ {4, 6, 8}`, `z ∈ {2, 4, 6}` (cells `(6, y, 2)`, `(6, y, 6)`, `(4, y, 4)`, `(8, y, 4)`),
  by increasing `y`: a cell `(6, y, 2)` / `(6, y, 6)` uses the tetrahedron below / above the two cells
  `(4, y−2, 4)`, `(8, y−2, 4)`; a cell `(4, y, 4)` / `(8, y, 4)` the tetrahedron it shares with
  `(6, y−2, 2)`, `(6, y−2, 6)`; the first cell `(8, 4, 4)` the tetrahedron of the three left-out cells;
* then the SLAB `z ∈ {2, 4, 6}` by increasing `x` (the column `x = 2` last): the tetrahedron towards
  smaller `x` in the plane `z = 3` / `z = 5`;
* then the layers `z ≥ 8` by increasing `z`: the tetrahedron `(x−1, y, z−2)`, whose other three cells
  lie in the two layers below.
-/
import PanqecVerif.Proofs.LatColor3DCodeRankA

set_option linter.unusedVariables false

namespace Panqec.Color3DCode
open Panqec.Lat2D Panqec.Color

/-- the cells of the starting line -/
def InLine (x z : Int) : Prop := (x = 6 ∧ (z = 2 ∨ z = 6)) ∨ ((x = 4 ∨ x = 8) ∧ z = 4)

instance (x z : Int) : Decidable (InLine x z) := by unfold InLine; infer_instance

/-- the stage offset of the rank -/
def rkB (Lx Ly Lz : Nat) : Nat := 4 * (Lx + Ly + Lz) + 16

/-- the rank of a cell -/
def rk (Lx Ly Lz : Nat) (x y z : Int) : Nat :=
  if 8 ≤ z then 2 * rkB Lx Ly Lz + z.toNat
  else if InLine x z then y.toNat
  else rkB Lx Ly Lz + (if x = 2 then 4 * Lx + 2 else x.toNat)

/-- a coordinate `4L` of a cell is the qubit coordinate `0` -/
def wr (L : Nat) (v : Int) : Int := if v = 4 * (L : Int) then 0 else v

/-- the witness qubit of a cell -/
def wit (Ly : Nat) (x y z : Int) : Coord :=
  if 8 ≤ z then [x - 1, wr Ly y, z - 2]
  else if z = 4 then
    (if x = 4 then [5, y - 2, 4]
     else if x = 8 then (if y = 4 then [6, 3, 4] else [7, y - 2, 4])
     else [x - 2, wr Ly y, 3])
  else if x = 6 then [6, y - 2, (z + 4) / 2]
  else [x - 2, y, (z + 4) / 2]

def cellRank (Lx Ly Lz : Nat) : Coord → Nat
  | [x, y, z] => rk Lx Ly Lz x y z
  | _ => 0

def cellWit (Ly : Nat) : Coord → Coord
  | [x, y, z] => wit Ly x y z
  | _ => []

/-! ### ranks -/

theorem rk_bulk {Lx Ly Lz : Nat} {x y z : Int} (h : 8 ≤ z) :
    rk Lx Ly Lz x y z = 2 * rkB Lx Ly Lz + z.toNat := by
  unfold rk; rw [if_pos h]

theorem rk_line {Lx Ly Lz : Nat} {x y z : Int} (h : z < 8) (hl : InLine x z) :
    rk Lx Ly Lz x y z = y.toNat := by
  unfold rk; rw [if_neg (by omega), if_pos hl]

theorem rk_slab {Lx Ly Lz : Nat} {x y z : Int} (h : z < 8) (hl : ¬ InLine x z) (h2 : x ≠ 2) :
    rk Lx Ly Lz x y z = rkB Lx Ly Lz + x.toNat := by
  unfold rk; rw [if_neg (by omega), if_neg hl, if_neg h2]

theorem rk_slab2 {Lx Ly Lz : Nat} {y z : Int} (h : z < 8) :
    rk Lx Ly Lz 2 y z = rkB Lx Ly Lz + (4 * Lx + 2) := by
  unfold rk
  have hl : ¬ InLine 2 z := by unfold InLine; omega
  rw [if_neg (by omega), if_neg hl, if_pos rfl]

/-- below the layers `z ≥ 8` the rank is at most the slab rank of the column -/
theorem rk_le {Lx Ly Lz : Nat} {x y z : Int} (r : CellR Lx Ly Lz x y z) (h : z < 8) (h2 : x ≠ 2) :
    rk Lx Ly Lz x y z ≤ rkB Lx Ly Lz + x.toNat := by
  unfold CellR at r
  by_cases hl : InLine x z
  · rw [rk_line h hl]; unfold rkB; omega
  · rw [rk_slab h hl h2]; exact Nat.le_refl _

theorem rk_lt_bulk {Lx Ly Lz : Nat} {x y z : Int} (r : CellR Lx Ly Lz x y z) (h : z < 8) :
    rk Lx Ly Lz x y z < 2 * rkB Lx Ly Lz := by
  unfold CellR at r
  by_cases h2 : x = 2
  · subst h2; rw [rk_slab2 h]; unfold rkB; omega
  · have := rk_le r h h2; unfold rkB at *; omega

/-! ### the four cells of a qubit -/

section geo
variable {Lx Ly Lz : Nat} {tx ty tz a b c : Int}

/-- a cell acting on a qubit with odd `z`: one layer below or above, and either the same `x`
    (when `a ≡ tz mod 4`) and `y` two apart, or the same `y` and `x` two apart — up to one period -/
theorem geo_zodd (ht : IsC Lx Ly Lz tx ty tz) (ha : a % 2 = 0) (hc : c % 2 = 1) (hc3 : 3 ≤ c)
    (hcm : c < 4 * (Lz : Int)) (hq : [a, b, c] ∈ keys Lx Ly Lz tx ty tz) :
    (tz = c - 1 ∨ tz = c + 1) ∧
    ((a % 4 = tz % 4 ∧ (tx = a ∨ tx = a + 4 * (Lx : Int)) ∧
        (ty = b - 2 ∨ ty = b + 2 ∨ ty = b - 2 + 4 * (Ly : Int) ∨ ty = b + 2 + 4 * (Ly : Int))) ∨
     (a % 4 ≠ tz % 4 ∧ (ty = b ∨ ty = b + 4 * (Ly : Int)) ∧
        (tx = a - 2 ∨ tx = a + 2 ∨ tx = a - 2 + 4 * (Lx : Int) ∨ tx = a + 2 + 4 * (Lx : Int)))) := by
  obtain ⟨d1, d2, d3, hsp, h1, h2, h3⟩ := cell_hit_cases ht hq
  have hb := hsp.bd
  obtain ⟨x0, x1, y0, y1, z0, z1, px, rx, ry⟩ := ht.cellR
  have h3' : tz + d3 = c := by omega
  have hd3 : d3 = 1 ∨ d3 = -1 := by omega
  have hsp' := hsp.of3 hd3
  refine ⟨by omega, ?_⟩
  have hm : (tx + d1) % 4 = a % 4 := by omega
  clear hsp hb h3 h3' hd3 hc hc3 hcm z0 z1 x0 x1 y0 y1 ry
  rcases hsp' with ⟨rfl, hd2⟩ | ⟨rfl, hd1⟩
  · left; omega
  · right; omega

/-- a cell acting on a qubit with odd `x` -/
theorem geo_xodd (ht : IsC Lx Ly Lz tx ty tz) (ha : a % 2 = 1) (hb2 : b % 2 = 0)
    (hq : [a, b, c] ∈ keys Lx Ly Lz tx ty tz) :
    (tx = a - 1 ∨ tx = a + 1 ∨ tx = a - 1 + 4 * (Lx : Int) ∨ tx = a + 1 + 4 * (Lx : Int)) ∧
    ((b % 4 = tx % 4 ∧ (ty = b ∨ ty = b + 4 * (Ly : Int)) ∧
        (tz = c - 2 ∨ tz = c + 2 ∨ tz = c - 2 + 4 * (Lz : Int) ∨ tz = c + 2 + 4 * (Lz : Int))) ∨
     (b % 4 ≠ tx % 4 ∧ (tz = c ∨ tz = c + 4 * (Lz : Int)) ∧
        (ty = b - 2 ∨ ty = b + 2 ∨ ty = b - 2 + 4 * (Ly : Int) ∨ ty = b + 2 + 4 * (Ly : Int)))) := by
  obtain ⟨d1, d2, d3, hsp, h1, h2, h3⟩ := cell_hit_cases ht hq
  have hb := hsp.bd
  obtain ⟨x0, x1, y0, y1, z0, z1, px, rx, ry⟩ := ht.cellR
  have hd1 : d1 = 1 ∨ d1 = -1 := by omega
  have hsp' := hsp.of1 hd1
  refine ⟨by omega, ?_⟩
  have hm : (ty + d2) % 4 = b % 4 := by omega
  clear hsp hb h1 hd1 ha z0 z1 x0 x1 y0 y1 px
  rcases hsp' with ⟨rfl, hd3⟩ | ⟨rfl, hd2⟩
  · left; omega
  · right; omega

/-- a cell acting on a qubit with odd `y` -/
theorem geo_yodd (ht : IsC Lx Ly Lz tx ty tz) (hb2 : b % 2 = 1) (ha : a % 2 = 0)
    (hq : [a, b, c] ∈ keys Lx Ly Lz tx ty tz) :
    (ty = b - 1 ∨ ty = b + 1 ∨ ty = b - 1 + 4 * (Ly : Int) ∨ ty = b + 1 + 4 * (Ly : Int)) ∧
    ((a % 4 = ty % 4 ∧ (tx = a ∨ tx = a + 4 * (Lx : Int)) ∧
        (tz = c - 2 ∨ tz = c + 2 ∨ tz = c - 2 + 4 * (Lz : Int) ∨ tz = c + 2 + 4 * (Lz : Int))) ∨
     (a % 4 ≠ ty % 4 ∧ (tz = c ∨ tz = c + 4 * (Lz : Int)) ∧
        (tx = a - 2 ∨ tx = a + 2 ∨ tx = a - 2 + 4 * (Lx : Int) ∨ tx = a + 2 + 4 * (Lx : Int)))) := by
  obtain ⟨d1, d2, d3, hsp, h1, h2, h3⟩ := cell_hit_cases ht hq
  have hb := hsp.bd
  obtain ⟨x0, x1, y0, y1, z0, z1, px, rx, ry⟩ := ht.cellR
  have hd2 : d2 = 1 ∨ d2 = -1 := by omega
  have hsp' := hsp.of2 hd2
  refine ⟨by omega, ?_⟩
  have hm : (tx + d1) % 4 = a % 4 := by omega
  clear hsp hb h2 hd2 hb2 z0 z1 x0 x1 y0 y1
  rcases hsp' with ⟨rfl, hd3⟩ | ⟨rfl, hd1⟩
  · left; omega
  · right; omega

end geo

end Panqec.Color3DCode
