/-
XCubeCode lattice model: a cube operator and a vertex operator (any of the three axes) share an even
number of qubits, for every size ≥ 2 (periodic wrap resolved through `up` / `dn`).
-/
import PanqecVerif.Proofs.LatXCubeCode2
import Mathlib.Tactic.Tauto
open Panqec Panqec.Lat3Db
namespace Panqec.XCubeCode

/-- `v` is one of the two cyclic neighbours of the odd coordinate `c` -/
def A (P : Nat) (c v : Int) : Prop := v = up P c ∨ v = c - 1
instance (P : Nat) (c v : Int) : Decidable (A P c v) := by unfold A; infer_instance

theorem mem_cubeLocs (Lx Ly Lz : Nat) (x y z p q r : Int) :
    [p, q, r] ∈ cubeLocs Lx Ly Lz x y z ↔
      (r = z ∧ A (2*Lx) x p ∧ A (2*Ly) y q) ∨ (q = y ∧ A (2*Lx) x p ∧ A (2*Lz) z r) ∨
      (p = x ∧ A (2*Ly) y q ∧ A (2*Lz) z r) := by
  unfold cubeLocs A
  generalize up (2*Lx) x = xu
  generalize up (2*Ly) y = yu
  generalize up (2*Lz) z = zu
  simp only [List.mem_cons, List.cons.injEq, and_true, List.not_mem_nil, or_false]
  constructor
  · rintro (⟨rfl, rfl, rfl⟩ | ⟨rfl, rfl, rfl⟩ | ⟨rfl, rfl, rfl⟩ | ⟨rfl, rfl, rfl⟩ | ⟨rfl, rfl, rfl⟩ | ⟨rfl, rfl, rfl⟩ |
      ⟨rfl, rfl, rfl⟩ | ⟨rfl, rfl, rfl⟩ | ⟨rfl, rfl, rfl⟩ | ⟨rfl, rfl, rfl⟩ | ⟨rfl, rfl, rfl⟩ | ⟨rfl, rfl, rfl⟩) <;> simp
  · rintro (⟨rfl, (rfl | rfl), (rfl | rfl)⟩ | ⟨rfl, (rfl | rfl), (rfl | rfl)⟩ | ⟨rfl, (rfl | rfl), (rfl | rfl)⟩) <;> simp

/-- parity bookkeeping for two pairs of neighbours -/
theorem parity4 (Ax B1 B2 C1 C2 : Prop) [Decidable Ax] [Decidable B1] [Decidable B2] [Decidable C1] [Decidable C2]
    (hB : ¬ (B1 ∧ B2)) (hC : ¬ (C1 ∧ C2)) :
    (ind (B1 ∧ Ax ∧ (C1 ∨ C2)) + ind (B2 ∧ Ax ∧ (C1 ∨ C2)) + ind (C1 ∧ Ax ∧ (B1 ∨ B2)) +
      ind (C2 ∧ Ax ∧ (B1 ∨ B2))) % 2 = 0 := by
  unfold ind
  by_cases h1 : Ax <;> by_cases h2 : B1 <;> by_cases h3 : B2 <;> by_cases h4 : C1 <;> by_cases h5 : C2 <;> simp_all

theorem parity4' (P1 P2 P3 P4 Ax B1 B2 C1 C2 : Prop) [Decidable P1] [Decidable P2] [Decidable P3] [Decidable P4]
    [Decidable Ax] [Decidable B1] [Decidable B2] [Decidable C1] [Decidable C2]
    (h1 : P1 ↔ B1 ∧ Ax ∧ (C1 ∨ C2)) (h2 : P2 ↔ B2 ∧ Ax ∧ (C1 ∨ C2)) (h3 : P3 ↔ C1 ∧ Ax ∧ (B1 ∨ B2))
    (h4 : P4 ↔ C2 ∧ Ax ∧ (B1 ∨ B2)) (hB : ¬ (B1 ∧ B2)) (hC : ¬ (C1 ∧ C2)) :
    (0 + ind P4 + ind P3 + ind P2 + ind P1) % 2 = 0 := by
  rw [ind_congr h1, ind_congr h2, ind_congr h3, ind_congr h4]
  have := parity4 Ax B1 B2 C1 C2 hB hC
  omega

/-- one-dimensional facts: even `v`, odd `c`, both in `[0, P)`, `P` even -/
theorem A_iff (P : Nat) (c v : Int) (hP : P % 2 = 0) (hc : R1 P c) (hv : R0 P v) :
    A P c v ↔ (v + 1 = c ∨ dn P v = c) := by
  unfold A; unfold R1 at hc; unfold R0 at hv
  have := up_spec P c; have := dn_spec P v
  omega

theorem succ_dn_excl (P : Nat) (c v : Int) (hP : 4 ≤ P) (hv : R0 P v) : ¬ (v + 1 = c ∧ dn P v = c) := by
  unfold R0 at hv
  have := dn_spec P v
  omega


theorem odd_ne_even (P Q : Nat) (c v : Int) (hc : R1 P c) (hv : R0 Q v) : ¬ v = c := by
  unfold R1 at hc; unfold R0 at hv; omega

/-- cube vs vertex operator of axis x -/
theorem cube_faceX (Lx Ly Lz : Nat) (cx cy cz vx vy vz : Int) (hy : 2 ≤ Ly) (hz : 2 ≤ Lz)
    (hc : SC Lx Ly Lz cx cy cz) (hv : SVx Lx Ly Lz vx vy vz) :
    ovl (faceLocsX Lx Ly Lz vx vy vz) (cubeLocs Lx Ly Lz cx cy cz) % 2 = 0 := by
  obtain ⟨hcx, hcy, hcz⟩ := hc
  obtain ⟨hvx, hvy, hvz⟩ := hv
  have nx := odd_ne_even _ _ cx vx hcx hvx
  have nz := odd_ne_even _ _ cz vz hcz hvz
  have ny := odd_ne_even _ _ cy vy hcy hvy
  have ay := A_iff (2*Ly) cy vy (by omega) hcy hvy
  have az := A_iff (2*Lz) cz vz (by omega) hcz hvz
  have hB := succ_dn_excl (2*Ly) cy vy (by omega) hvy
  have hC := succ_dn_excl (2*Lz) cz vz (by omega) hvz
  simp only [faceLocsX, ovl_cons_ind, ovl_nil, mem_cubeLocs, nx, ny, nz, false_and, false_or, or_false, ay, az]
  have := parity4 (A (2*Lx) cx vx) _ _ _ _ hB hC
  omega

/-- cube vs vertex operator of axis y -/
theorem cube_faceY (Lx Ly Lz : Nat) (cx cy cz vx vy vz : Int) (hx : 2 ≤ Lx) (hz : 2 ≤ Lz)
    (hc : SC Lx Ly Lz cx cy cz) (hv : SVx Lx Ly Lz vx vy vz) :
    ovl (faceLocsY Lx Ly Lz vx vy vz) (cubeLocs Lx Ly Lz cx cy cz) % 2 = 0 := by
  obtain ⟨hcx, hcy, hcz⟩ := hc
  obtain ⟨hvx, hvy, hvz⟩ := hv
  have nx := odd_ne_even _ _ cx vx hcx hvx
  have nz := odd_ne_even _ _ cz vz hcz hvz
  have ny := odd_ne_even _ _ cy vy hcy hvy
  have ax := A_iff (2*Lx) cx vx (by omega) hcx hvx
  have az := A_iff (2*Lz) cz vz (by omega) hcz hvz
  have hB := succ_dn_excl (2*Lx) cx vx (by omega) hvx
  have hC := succ_dn_excl (2*Lz) cz vz (by omega) hvz
  simp only [faceLocsY, ovl_cons_ind, ovl_nil, mem_cubeLocs, nx, ny, nz, false_and, false_or, or_false, ax, az]
  exact parity4' _ _ _ _ (A (2*Ly) cy vy) _ _ _ _ (by tauto) (by tauto) (by tauto) (by tauto) hB hC

/-- cube vs vertex operator of axis z -/
theorem cube_faceZ (Lx Ly Lz : Nat) (cx cy cz vx vy vz : Int) (hx : 2 ≤ Lx) (hy : 2 ≤ Ly)
    (hc : SC Lx Ly Lz cx cy cz) (hv : SVx Lx Ly Lz vx vy vz) :
    ovl (faceLocsZ Lx Ly Lz vx vy vz) (cubeLocs Lx Ly Lz cx cy cz) % 2 = 0 := by
  obtain ⟨hcx, hcy, hcz⟩ := hc
  obtain ⟨hvx, hvy, hvz⟩ := hv
  have nx := odd_ne_even _ _ cx vx hcx hvx
  have nz := odd_ne_even _ _ cz vz hcz hvz
  have ny := odd_ne_even _ _ cy vy hcy hvy
  have ax := A_iff (2*Lx) cx vx (by omega) hcx hvx
  have ay := A_iff (2*Ly) cy vy (by omega) hcy hvy
  have hB := succ_dn_excl (2*Lx) cx vx (by omega) hvx
  have hC := succ_dn_excl (2*Ly) cy vy (by omega) hvy
  simp only [faceLocsZ, ovl_cons_ind, ovl_nil, mem_cubeLocs, nx, ny, nz, false_and, false_or, or_false, ax, ay]
  exact parity4' _ _ _ _ (A (2*Lz) cz vz) _ _ _ _ (by tauto) (by tauto) (by tauto) (by tauto) hB hC
end Panqec.XCubeCode
