/-
Helper lemmas for C19, part 1: `read_range_input` over exact rationals and the noise
direction of a bias ratio.
-/
import PanqecVerif.Model.Cli
import Mathlib.Tactic.Linarith
import Mathlib.Tactic.Ring
import Mathlib.Tactic.FieldSimp
import Mathlib.Tactic.Positivity
import Mathlib.Algebra.Order.Field.Rat
import Mathlib.Data.Rat.Floor

namespace Panqec.Cli

theorem eps_pos : 0 < eps := by unfold eps; norm_num

/-- `⌈y⌉ = k + 1` when `k < y` and `⌊y⌋ = k` -/
theorem ceil_eq_of_floor {y : Rat} {k : Int} (hk : (k : Rat) < y) (hf : y.floor = k) :
    y.ceil = k + 1 := by
  apply Int.le_antisymm
  · rw [Rat.ceil_le_iff]
    have := Rat.lt_floor_add_one y
    rw [hf] at this
    exact le_of_lt this
  · have : k < y.ceil := Rat.lt_ceil_iff.mpr hk
    omega

/-- number of elements `np.arange(min, max + 1e-9*step, step)` has, when adding the tolerance
    does not move `(max-min)/step` across an integer -/
theorem arange_count {mn mx st : Rat} (hst : 0 < st)
    (htol : ((mx - mn) / st + eps).floor = ((mx - mn) / st).floor) :
    ((mx + eps * st - mn) / st).ceil = ((mx - mn) / st).floor + 1 := by
  have hx : (mx + eps * st - mn) / st = (mx - mn) / st + eps := by
    field_simp
    ring
  rw [hx]
  apply ceil_eq_of_floor _ htol
  have h1 := Rat.floor_le ((mx - mn) / st)
  have := eps_pos
  linarith

/-- below the count no element is clamped -/
theorem no_clamp {mn mx st : Rat} (hst : 0 < st) {i : Nat}
    (hi : (i : Int) ≤ ((mx - mn) / st).floor) : mn + (i : Rat) * st ≤ mx := by
  have h1 : ((i : Int) : Rat) ≤ (mx - mn) / st := Rat.le_floor_iff.mp hi
  have h2 : ((i : Int) : Rat) * st ≤ mx - mn := by
    rwa [le_div_iff₀ hst] at h1
  have h3 : ((i : Int) : Rat) = (i : Rat) := by norm_cast
  rw [h3] at h2
  linarith

/-- **the range is the progression** `min + i*step`, `i = 0 … ⌊(max-min)/step⌋` -/
theorem rangeValues_eq {mn mx st : Rat} (hst : 0 < st) (hle : mn ≤ mx)
    (htol : ((mx - mn) / st + eps).floor = ((mx - mn) / st).floor) :
    rangeValues mn mx st =
      (List.range (((mx - mn) / st).floor.toNat + 1)).map fun (i : Nat) => mn + (i : Rat) * st := by
  have hk : 0 ≤ ((mx - mn) / st).floor := by
    rw [Rat.le_floor_iff]
    have : 0 ≤ mx - mn := by linarith
    simpa using div_nonneg this (le_of_lt hst)
  unfold rangeValues arange
  rw [arange_count hst htol]
  have hn : (((mx - mn) / st).floor + 1).toNat = ((mx - mn) / st).floor.toNat + 1 := by omega
  rw [hn, List.map_map]
  apply List.map_congr_left
  intro i hi
  have hi' := List.mem_range.mp hi
  have : (i : Int) ≤ ((mx - mn) / st).floor := by omega
  simp only [Function.comp, no_clamp hst this, if_true]

/-- every element of the range is at most `max`, whatever the inputs -/
theorem rangeValues_le_max (mn mx st : Rat) : ∀ v ∈ rangeValues mn mx st, v ≤ mx := by
  intro v hv
  unfold rangeValues at hv
  obtain ⟨w, _, rfl⟩ := List.mem_map.mp hv
  by_cases h : w ≤ mx
  · simp [h]
  · simp [h]

/-- on a grid of unit `u` (`min = a·u`, `max = b·u`, `step = s·u`) with fewer than `10^9` units
    per step, the tolerance `1e-9·step` never crosses a grid point -/
theorem grid_tolerance {u : Rat} (hu : 0 < u) (a b : Int) (s : Nat) (hs : 0 < s)
    (hs9 : s < 1000000000) :
    (((b : Rat) * u - (a : Rat) * u) / ((s : Rat) * u) + eps).floor =
      (((b : Rat) * u - (a : Rat) * u) / ((s : Rat) * u)).floor := by
  have hsQ : (0 : Rat) < (s : Rat) := by exact_mod_cast hs
  have hx : ((b : Rat) * u - (a : Rat) * u) / ((s : Rat) * u) = ((b - a : Int) : Rat) / (s : Rat) := by
    push_cast
    field_simp
  rw [hx]
  generalize hxd : ((b - a : Int) : Rat) / (s : Rat) = x
  generalize hk : x.floor = k
  apply Int.le_antisymm
  · -- ⌊x + eps⌋ ≤ k  ⇔  x + eps < k + 1
    have hlt : x < ((k + 1 : Int) : Rat) := by rw [← hk]; exact Rat.lt_floor_add_one x
    -- integrality: (b - a) < (k+1)*s  ⇒  (b - a) + 1 ≤ (k+1)*s
    have h1 : ((b - a : Int) : Rat) < ((k + 1 : Int) : Rat) * (s : Rat) := by
      rw [← hxd, div_lt_iff₀ hsQ] at hlt; exact hlt
    have h2 : (b - a : Int) < (k + 1) * (s : Int) := by exact_mod_cast h1
    have h3 : (b - a : Int) + 1 ≤ (k + 1) * (s : Int) := by omega
    have h4 : ((b - a : Int) : Rat) + 1 ≤ ((k + 1 : Int) : Rat) * (s : Rat) := by exact_mod_cast h3
    have h5 : x + 1 / (s : Rat) ≤ ((k + 1 : Int) : Rat) := by
      rw [← hxd, ← add_div, div_le_iff₀ hsQ]; exact h4
    have h6 : eps < 1 / (s : Rat) := by
      unfold eps
      rw [div_lt_div_iff₀ (by norm_num) hsQ]
      have : (s : Rat) < 1000000000 := by exact_mod_cast hs9
      linarith
    have h7 : (x + eps).floor < k + 1 := by
      rw [Rat.floor_lt_iff]; linarith
    omega
  · rw [Rat.le_floor_iff]
    have := Rat.floor_le x
    rw [hk] at this
    have := eps_pos
    linarith

/-- on a grid `(max-min)/step` rounds down to the integer quotient of the unit counts -/
theorem grid_floor {u : Rat} (hu : 0 < u) (a b : Int) (s : Nat) (hs : 0 < s) :
    (((b : Rat) * u - (a : Rat) * u) / ((s : Rat) * u)).floor = (b - a) / (s : Int) := by
  have hsQ : (0 : Rat) < (s : Rat) := by exact_mod_cast hs
  have hx : ((b : Rat) * u - (a : Rat) * u) / ((s : Rat) * u) = ((b - a : Int) : Rat) / (s : Rat) := by
    push_cast
    field_simp
  rw [hx]
  exact Rat.floor_intCast_div_natCast (b - a) s

/-- the range of a grid specification, without any side condition on the tolerance -/
theorem rangeValues_on_grid {u : Rat} (hu : 0 < u) (a b : Int) (hab : a ≤ b) (s : Nat)
    (hs : 0 < s) (hs9 : s < 1000000000) :
    rangeValues ((a : Rat) * u) ((b : Rat) * u) ((s : Rat) * u) =
      (List.range (((b - a) / (s : Int)).toNat + 1)).map
        fun (i : Nat) => (a : Rat) * u + (i : Rat) * ((s : Rat) * u) := by
  have hsQ : (0 : Rat) < (s : Rat) := by exact_mod_cast hs
  have hst : 0 < (s : Rat) * u := mul_pos hsQ hu
  have hle : (a : Rat) * u ≤ (b : Rat) * u := by
    have : (a : Rat) ≤ (b : Rat) := by exact_mod_cast hab
    exact mul_le_mul_of_nonneg_right this (le_of_lt hu)
  rw [rangeValues_eq hst hle (grid_tolerance hu a b s hs hs9), grid_floor hu a b s hs]

/-! ### direction of a bias ratio -/

theorem direction_algebra {e : Rat} (h1 : 1 + e ≠ 0) :
    e / (1 + e) + (1 - e / (1 + e)) / 2 + (1 - e / (1 + e)) / 2 = 1 ∧
    e / (1 + e) = e * ((1 - e / (1 + e)) / 2 + (1 - e / (1 + e)) / 2) := by
  constructor
  · ring
  · field_simp
    ring

theorem direction_nonneg_algebra {e : Rat} (he : 0 ≤ e) :
    0 ≤ e / (1 + e) ∧ 0 ≤ (1 - e / (1 + e)) / 2 := by
  have h1 : 0 < 1 + e := by linarith
  constructor
  · exact div_nonneg he (le_of_lt h1)
  · have : e / (1 + e) ≤ 1 := by rw [div_le_one h1]; linarith
    linarith

end Panqec.Cli
