/-
RhombicToricCode lattice model, rank clause: the selected family is duplicate-free and has exactly
`n − k = 3·Lx·Ly·Lz − 3` members (sizes even `≥ 2`).
-/
import PanqecVerif.Proofs.LatRhombicToricCodeRank1
open Panqec Panqec.Lat3Db Panqec.Rhombic
namespace Panqec.RhombicToricCode

/-! ### distinctness -/

theorem nodup_append_of {l1 l2 : List Coord} (h1 : l1.Nodup) (h2 : l2.Nodup)
    (hd : ∀ a, a ∈ l1 → a ∈ l2 → False) : (l1 ++ l2).Nodup := by
  rw [List.nodup_append]
  exact ⟨h1, h2, fun a ha b hb e => hd a ha (e ▸ hb)⟩

theorem nodup_map_cons (a : Int) {l : List Coord} (h : l.Nodup) : (l.map fun c => a :: c).Nodup :=
  h.map (fun _ _ e => by simpa using e)

theorem nodup_g (xs ys zs : List Int) (p : Int → Int → Int → Bool) (h1 : xs.Nodup) (h2 : ys.Nodup)
    (h3 : zs.Nodup) : (grid3 xs ys zs p).Nodup := nodup_grid3 xs ys zs p h1 h2 h3

theorem nodup_verts (xs : List Int) (Ly Lz : Nat) (p : Int → Int → Int → Bool) (h : xs.Nodup) :
    (verts xs Ly Lz p).Nodup := nodup_g _ _ _ _ h (nodup_pyRange2 _ _) (nodup_pyRange2 _ _)

/-- a member of a block `(grid).map (a :: ·)` -/
theorem mem_block {a : Int} {l : List Coord} {s : Coord} (h : s ∈ l.map fun c => a :: c) :
    ∃ c ∈ l, s = a :: c := by
  rw [List.mem_map] at h
  obtain ⟨c, hc, rfl⟩ := h
  exact ⟨c, hc, rfl⟩

theorem nodup_selStabs (Lx Ly Lz : Nat) (hx : 2 ≤ Lx) (hy : 2 ≤ Ly) (hz : 2 ≤ Lz) :
    (selStabs Lx Ly Lz).Nodup := by
  have ncubes : (selCubes Lx Ly Lz).Nodup := by
    unfold selCubes
    exact (nodup_g _ _ _ _ (nodup_pyRange2 _ _) (nodup_pyRange2 _ _) (nodup_pyRange2 _ _)).filter _
  have nbulk : (selBulk Lx Ly Lz).Nodup := by
    unfold selBulk
    apply nodup_append_of (nodup_map_cons 1 (nodup_verts _ _ _ _ (nodup_pyRange2 _ _)))
    · apply nodup_append_of (nodup_map_cons 2 (nodup_verts _ _ _ _ (nodup_pyRange2 _ _)))
        (nodup_map_cons 3 (nodup_verts _ _ _ _ (nodup_pyRange2 _ _)))
      intro s h1 h2
      obtain ⟨c, _, rfl⟩ := mem_block h1
      obtain ⟨d, _, e⟩ := mem_block h2
      simp at e
    · intro s h1 h2
      obtain ⟨c, _, rfl⟩ := mem_block h1
      rcases List.mem_append.mp h2 with h2 | h2 <;> (obtain ⟨d, _, e⟩ := mem_block h2; simp at e)
  have nlast : (selLast Lx Ly Lz).Nodup := by
    unfold selLast
    apply nodup_append_of (nodup_map_cons 2 (nodup_verts _ _ _ _ (nodup_pyRange2 _ _)))
    · apply nodup_append_of (nodup_map_cons 3 (nodup_verts _ _ _ _ (nodup_pyRange2 _ _)))
        ((nodup_map_cons 1 (nodup_verts _ _ _ _ (nodup_pyRange2 _ _))).filter _)
      intro s h1 h2
      obtain ⟨c, _, rfl⟩ := mem_block h1
      obtain ⟨d, _, e⟩ := mem_block (List.mem_filter.mp h2).1
      simp at e
    · intro s h1 h2
      obtain ⟨c, _, rfl⟩ := mem_block h1
      rcases List.mem_append.mp h2 with h2 | h2
      · obtain ⟨d, _, e⟩ := mem_block h2; simp at e
      · obtain ⟨d, _, e⟩ := mem_block (List.mem_filter.mp h2).1; simp at e
  have nfirst : (selFirst Lx Ly Lz).Nodup := by
    have hs : ∀ s ∈ selFirst Lx Ly Lz, ∃ a x y z, s = [a, x, y, z] ∧ TK Lx Ly Lz a x y z := by
      intro s h
      have : ∃ a x y z, s = [a, x, y, z] := by
        unfold selFirst at h
        simp only [List.mem_append, List.mem_map] at h
        rcases h with ⟨c, hc, rfl⟩ | ⟨c, hc, rfl⟩ | ⟨c, hc, rfl⟩ | ⟨c, hc, rfl⟩ | ⟨c, hc, rfl⟩ | ⟨c, hc, rfl⟩ <;>
          (obtain ⟨p, q, r, rfl⟩ := shape_grid3 hc; exact ⟨_, p, q, r, rfl⟩)
      obtain ⟨a, x, y, z, rfl⟩ := this
      exact ⟨a, x, y, z, rfl, mem_selFirst hx hy hz h⟩
    unfold selFirst
    have g := fun (xs ys zs : List Int) (p : Int → Int → Int → Bool) =>
      nodup_g xs ys zs p
    -- the six blocks
    have n1 := nodup_map_cons 1 (nodup_verts (pyRange2 0 2) Ly Lz par0 (nodup_pyRange2 _ _))
    have n2 := nodup_map_cons 2 (nodup_verts (pyRange2 0 2) Ly Lz par2 (nodup_pyRange2 _ _))
    have n3 := nodup_map_cons 2 (g (pyRange2 0 2) (pyRange2 0 (2*Ly)) (pyRange2 2 (2*Lz)) par0
      (nodup_pyRange2 _ _) (nodup_pyRange2 _ _) (nodup_pyRange2 _ _))
    have n4 := nodup_map_cons 1 (g (pyRange2 0 2) (pyRange2 0 (2*Ly)) (pyRange2 2 (2*Lz)) par2
      (nodup_pyRange2 _ _) (nodup_pyRange2 _ _) (nodup_pyRange2 _ _))
    have n5 := nodup_map_cons 3 (g (pyRange2 0 2) (pyRange2 0 (2*Ly-2)) (pyRange2 (2*Lz-2) (2*Lz)) par2
      (nodup_pyRange2 _ _) (nodup_pyRange2 _ _) (nodup_pyRange2 _ _))
    have n6 := nodup_map_cons 0 (g (pyRange2 0 2) (pyRange2 0 (2*Ly-2)) (pyRange2 (2*Lz-2) (2*Lz)) par0
      (nodup_pyRange2 _ _) (nodup_pyRange2 _ _) (nodup_pyRange2 _ _))
    -- membership facts used to separate blocks with the same head
    have par_of : ∀ {xs ys zs : List Int} {p : Int → Int → Int → Bool} {a : Int} {s : Coord},
        s ∈ (grid3 xs ys zs p).map (fun c => a :: c) →
        ∃ x y z, s = [a, x, y, z] ∧ p x y z = true := by
      intro xs ys zs p a s h
      obtain ⟨c, hc, rfl⟩ := mem_block h
      rw [mem_grid3] at hc
      obtain ⟨x, y, z, rfl, _, _, _, hp⟩ := hc
      exact ⟨x, y, z, rfl, hp⟩
    apply nodup_append_of n1
    · apply nodup_append_of n2
      · apply nodup_append_of n3
        · apply nodup_append_of n4
          · apply nodup_append_of n5 n6
            intro s h1 h2
            obtain ⟨c, _, rfl⟩ := mem_block h1
            obtain ⟨d, _, e⟩ := mem_block h2
            simp at e
          · intro s h1 h2
            obtain ⟨c, _, rfl⟩ := mem_block h1
            rcases List.mem_append.mp h2 with h2 | h2 <;> (obtain ⟨d, _, e⟩ := mem_block h2; simp at e)
        · intro s h1 h2
          obtain ⟨x, y, z, rfl, hp⟩ := par_of h1
          rcases List.mem_append.mp h2 with h2 | h2
          · obtain ⟨d, _, e⟩ := mem_block h2; simp at e
          · rcases List.mem_append.mp h2 with h2 | h2 <;> (obtain ⟨d, _, e⟩ := mem_block h2; simp at e)
      · intro s h1 h2
        have h1' : s ∈ (grid3 (pyRange2 0 2) (pyRange2 0 (2*Ly)) (pyRange2 0 (2*Lz)) par2).map
            (fun c => (2 : Int) :: c) := h1
        obtain ⟨x, y, z, rfl, hp⟩ := par_of h1'
        rcases List.mem_append.mp h2 with h2 | h2
        · obtain ⟨x', y', z', e, hp'⟩ := par_of h2
          simp only [List.cons.injEq, and_true, true_and] at e
          obtain ⟨rfl, rfl, rfl⟩ := e
          simp only [par0, par2, beq_iff_eq] at hp hp'
          omega
        · rcases List.mem_append.mp h2 with h2 | h2
          · obtain ⟨d, _, e⟩ := mem_block h2; simp at e
          · rcases List.mem_append.mp h2 with h2 | h2 <;> (obtain ⟨d, _, e⟩ := mem_block h2; simp at e)
    · intro s h1 h2
      have h1' : s ∈ (grid3 (pyRange2 0 2) (pyRange2 0 (2*Ly)) (pyRange2 0 (2*Lz)) par0).map
          (fun c => (1 : Int) :: c) := h1
      obtain ⟨x, y, z, rfl, hp⟩ := par_of h1'
      rcases List.mem_append.mp h2 with h2 | h2
      · obtain ⟨d, _, e⟩ := mem_block h2; simp at e
      · rcases List.mem_append.mp h2 with h2 | h2
        · obtain ⟨d, _, e⟩ := mem_block h2; simp at e
        · rcases List.mem_append.mp h2 with h2 | h2
          · obtain ⟨x', y', z', e, hp'⟩ := par_of h2
            simp only [List.cons.injEq, and_true, true_and] at e
            obtain ⟨rfl, rfl, rfl⟩ := e
            simp only [par0, par2, beq_iff_eq] at hp hp'
            omega
          · rcases List.mem_append.mp h2 with h2 | h2 <;> (obtain ⟨d, _, e⟩ := mem_block h2; simp at e)
  -- triangles of the three column classes are separated by the x coordinate
  have xbulk : ∀ s ∈ selBulk Lx Ly Lz, ∃ a x y z, s = [a, x, y, z] ∧ 0 < x ∧ x < 2*(Lx:Int)-2 := by
    intro s h
    unfold selBulk at h
    simp only [List.mem_append, List.mem_map] at h
    rcases h with ⟨c, hc, rfl⟩ | ⟨c, hc, rfl⟩ | ⟨c, hc, rfl⟩ <;>
      (obtain ⟨p, q, r, rfl⟩ := shape_grid3 hc
       rw [mem_verts, mem_pyRange2] at hc
       exact ⟨_, p, q, r, rfl, by omega, by omega⟩)
  have xlast : ∀ s ∈ selLast Lx Ly Lz, ∃ a x y z, s = [a, x, y, z] ∧ x = 2*(Lx:Int)-2 := by
    intro s h
    unfold selLast at h
    simp only [List.mem_append, List.mem_map, List.mem_filter] at h
    rcases h with ⟨c, hc, rfl⟩ | ⟨c, hc, rfl⟩ | ⟨⟨c, hc, rfl⟩, _⟩ <;>
      (obtain ⟨p, q, r, rfl⟩ := shape_grid3 hc
       rw [mem_verts, mem_pyRange2] at hc
       exact ⟨_, p, q, r, rfl, by omega⟩)
  have xfirst : ∀ s ∈ selFirst Lx Ly Lz, ∃ a x y z, s = [a, x, y, z] ∧ x = 0 := by
    intro s h
    unfold selFirst at h
    simp only [List.mem_append, List.mem_map] at h
    rcases h with ⟨c, hc, rfl⟩ | ⟨c, hc, rfl⟩ | ⟨c, hc, rfl⟩ | ⟨c, hc, rfl⟩ | ⟨c, hc, rfl⟩ | ⟨c, hc, rfl⟩ <;>
      (obtain ⟨p, q, r, rfl⟩ := shape_grid3 hc
       first
         | (rw [mem_verts, mem_pyRange2] at hc; exact ⟨_, p, q, r, rfl, by omega⟩)
         | (rw [mem_grid3_cons] at hc; simp only [mem_pyRange2] at hc; exact ⟨_, p, q, r, rfl, by omega⟩))
  unfold selStabs
  apply nodup_append_of ncubes
  · apply nodup_append_of nbulk
    · apply nodup_append_of nlast nfirst
      intro s h1 h2
      obtain ⟨a, x, y, z, rfl, e1⟩ := xlast s h1
      obtain ⟨a', x', y', z', e, e2⟩ := xfirst _ h2
      simp only [List.cons.injEq, and_true] at e
      obtain ⟨_, rfl, _, _⟩ := e
      omega
    · intro s h1 h2
      obtain ⟨a, x, y, z, rfl, e1, e1'⟩ := xbulk s h1
      rcases List.mem_append.mp h2 with h2 | h2
      · obtain ⟨a', x', y', z', e, e2⟩ := xlast _ h2
        simp only [List.cons.injEq, and_true] at e
        obtain ⟨_, rfl, _, _⟩ := e
        omega
      · obtain ⟨a', x', y', z', e, e2⟩ := xfirst _ h2
        simp only [List.cons.injEq, and_true] at e
        obtain ⟨_, rfl, _, _⟩ := e
        omega
  · intro s h1 h2
    have hs : s ∈ grid3 (pyRange2 1 (2*Lx)) (pyRange2 1 (2*Ly)) (pyRange2 1 (2*Lz)) cubeKeep := by
      unfold selCubes at h1; exact (List.mem_filter.mp h1).1
    obtain ⟨x, y, z, rfl⟩ := shape_grid3 hs
    rcases List.mem_append.mp h2 with h2 | h2
    · obtain ⟨a', x', y', z', e, _⟩ := xbulk _ h2; simp at e
    · rcases List.mem_append.mp h2 with h2 | h2
      · obtain ⟨a', x', y', z', e, _⟩ := xlast _ h2; simp at e
      · obtain ⟨a', x', y', z', e, _⟩ := xfirst _ h2; simp at e

/-! ### size -/

theorem length_filter_ne (l : List Coord) (c : Coord) (hl : l.Nodup) (hc : c ∈ l) :
    (l.filter (· != c)).length + 1 = l.length := by
  rw [← List.countP_eq_length_filter]
  have h1 := List.length_eq_countP_add_countP (fun s => s != c) (l := l)
  have h2 : l.countP (fun s => ¬ (s != c) = true) = l.count c := by
    rw [List.count]
    apply List.countP_congr
    intro s _
    by_cases e : s = c <;> simp [e]
  have h3 := hl.count (a := c)
  simp only [hc, if_true] at h3
  omega

theorem half_compl (m : Nat) : half m true + half m false = m := by
  unfold half; simp only [if_true, Bool.false_eq_true, if_false]; omega

theorem half_even (m : Nat) (e : Bool) (h : m % 2 = 0) : 2 * half m e = m := by
  unfold half; cases e <;> simp <;> omega

/-- a box filtered by `(x+y+z) % 4 = 0` and by `= 2` (all coordinates even) together is the box -/
theorem length_par0_par2 (x0 y0 z0 : Int) (a b c : Nat) (hpar : (x0 + y0 + z0) % 2 = 0) :
    (grid3 (ap x0 a) (ap y0 b) (ap z0 c) par0).length + (grid3 (ap x0 a) (ap y0 b) (ap z0 c) par2).length =
      a * (b * c) := by
  have h0 := length_grid3_checker x0 y0 z0 0 a b c (by omega) (by omega)
  have h2 := length_grid3_checker x0 y0 z0 2 a b c (by omega) (by omega)
  unfold par0 par2
  rw [h0, h2]
  by_cases h : (x0 + y0 + z0) % 4 = 0
  · have e0 : ((x0 + y0 + z0) % 4 == 0) = true := by simpa using h
    have e2 : ((x0 + y0 + z0) % 4 == 2) = false := by simp; omega
    rw [e0, e2]; exact half_compl _
  · have e0 : ((x0 + y0 + z0) % 4 == 0) = false := by simpa using h
    have e2 : ((x0 + y0 + z0) % 4 == 2) = true := by simp; omega
    rw [e0, e2, Nat.add_comm]; exact half_compl _

theorem length_selCubes (Lx Ly Lz : Nat) (hx : 2 ≤ Lx) (hy : 1 ≤ Ly) (hz : 1 ≤ Lz) :
    (selCubes Lx Ly Lz).length + 1 = half (Lx * (Ly * Lz)) false := by
  have hmem : [3, 1, 1] ∈ grid3 (pyRange2 1 (2*Lx)) (pyRange2 1 (2*Ly)) (pyRange2 1 (2*Lz)) cubeKeep := by
    rw [mem_grid3_cons]
    simp only [mem_pyRange2_1, cubeKeep]
    unfold R1
    refine ⟨by omega, by omega, by omega, by decide⟩
  unfold selCubes
  rw [length_filter_ne _ _ (nodup_g _ _ _ _ (nodup_pyRange2 _ _) (nodup_pyRange2 _ _)
    (nodup_pyRange2 _ _)) hmem]
  rw [pyRange2_eq_ap, pyRange2_eq_ap, pyRange2_eq_ap]
  have e : ∀ L : Nat, (2 * L + 1 - 1) / 2 = L := fun L => by omega
  rw [e, e, e]
  have := length_grid3_checker ((1 : Nat) : Int) ((1 : Nat) : Int) ((1 : Nat) : Int) 1 Lx Ly Lz
    (by decide) (by decide)
  unfold cubeKeep
  rw [this]
  rfl

theorem length_verts_true (xs : List Int) (Ly Lz : Nat) :
    (verts xs Ly Lz allTrue).length = xs.length * Ly * Lz := by
  unfold verts allTrue
  rw [length_grid3_true, length_pyRange2, length_pyRange2]
  have e : ∀ L : Nat, (2 * L + 1 - 0) / 2 = L := fun L => by omega
  rw [e, e]

theorem length_selBulk (Lx Ly Lz : Nat) (hx : 2 ≤ Lx) :
    (selBulk Lx Ly Lz).length = half ((Lx - 2) * (Ly * Lz)) true + 2 * ((Lx - 2) * Ly * Lz) := by
  unfold selBulk
  simp only [List.length_append, List.length_map, length_verts_true, length_pyRange2]
  have e1 : (2 * Lx - 2 + 1 - 2) / 2 = Lx - 2 := by omega
  rw [e1]
  have h1 : (verts (pyRange2 2 (2*Lx-2)) Ly Lz par2).length = half ((Lx - 2) * (Ly * Lz)) true := by
    unfold verts
    rw [pyRange2_eq_ap, pyRange2_eq_ap, pyRange2_eq_ap]
    have e : ∀ L : Nat, (2 * L + 1 - 0) / 2 = L := fun L => by omega
    rw [e1, e, e]
    have := length_grid3_checker ((2 : Nat) : Int) ((0 : Nat) : Int) ((0 : Nat) : Int) 2 (Lx - 2) Ly Lz
      (by decide) (by decide)
    unfold par2
    rw [this]
    rfl
  rw [h1]
  omega

theorem length_selLast (Lx Ly Lz : Nat) (hx : 2 ≤ Lx) (hy : 1 ≤ Ly) (hz : 1 ≤ Lz) :
    (selLast Lx Ly Lz).length + 1 = 3 * (Ly * Lz) := by
  have e1 : (2 * Lx + 1 - (2 * Lx - 2)) / 2 = 1 := by omega
  have hmem : [1, 2*(Lx:Int)-2, 0, 0] ∈ (verts (pyRange2 (2*Lx-2) (2*Lx)) Ly Lz allTrue).map
      (fun c => (1 : Int) :: c) := by
    rw [List.mem_map]
    refine ⟨[2*(Lx:Int)-2, 0, 0], ?_, rfl⟩
    rw [mem_verts, mem_pyRange2]
    unfold R0 allTrue
    refine ⟨by omega, by omega, by omega, rfl⟩
  unfold selLast
  simp only [List.length_append, List.length_map, length_verts_true, length_pyRange2, e1]
  have := length_filter_ne _ _ (nodup_map_cons 1 (nodup_verts (pyRange2 (2*Lx-2) (2*Lx)) Ly Lz allTrue
    (nodup_pyRange2 _ _))) hmem
  rw [List.length_map, length_verts_true, length_pyRange2, e1] at this
  simp only [Nat.one_mul] at this ⊢
  generalize Ly * Lz = N at *
  generalize (List.filter _ _).length = F at this ⊢
  omega

theorem length_selFirst (Lx Ly Lz : Nat) (hy : 1 ≤ Ly) (hz : 1 ≤ Lz) :
    (selFirst Lx Ly Lz).length + 1 = 2 * (Ly * Lz) := by
  unfold selFirst verts
  simp only [List.length_append, List.length_map]
  rw [pyRange2_eq_ap 0 2, pyRange2_eq_ap 0 (2*Ly), pyRange2_eq_ap 0 (2*Lz), pyRange2_eq_ap 2 (2*Lz),
    pyRange2_eq_ap 0 (2*Ly-2), pyRange2_eq_ap (2*Lz-2) (2*Lz)]
  have e0 : (2 + 1 - 0) / 2 = 1 := by omega
  have e1 : (2 * Ly + 1 - 0) / 2 = Ly := by omega
  have e2 : (2 * Lz + 1 - 0) / 2 = Lz := by omega
  have e3 : (2 * Lz + 1 - 2) / 2 = Lz - 1 := by omega
  have e4 : (2 * Ly - 2 + 1 - 0) / 2 = Ly - 1 := by omega
  have e5 : (2 * Lz + 1 - (2 * Lz - 2)) / 2 = 1 := by omega
  rw [e0, e1, e2, e3, e4, e5]
  have a1 := length_par0_par2 ((0 : Nat) : Int) ((0 : Nat) : Int) ((0 : Nat) : Int) 1 Ly Lz (by decide)
  have a2 := length_par0_par2 ((0 : Nat) : Int) ((0 : Nat) : Int) ((2 : Nat) : Int) 1 Ly (Lz - 1) (by decide)
  have a3 := length_par0_par2 ((0 : Nat) : Int) ((0 : Nat) : Int) ((2 * Lz - 2 : Nat) : Int) 1 (Ly - 1) 1
    (by omega)
  obtain ⟨b, rfl⟩ : ∃ b, Ly = b + 1 := ⟨Ly - 1, by omega⟩
  obtain ⟨c, rfl⟩ : ∃ c, Lz = c + 1 := ⟨Lz - 1, by omega⟩
  simp only [Nat.add_sub_cancel, Nat.one_mul, Nat.mul_one] at a1 a2 a3 ⊢
  have hfin : (b + 1) * (c + 1) + (b + 1) * c + b + 1 = 2 * ((b + 1) * (c + 1)) := by ring
  omega

/-- the selected family has `n − k` members -/
theorem selStabs_count (Lx Ly Lz : Nat) (hx : 2 ≤ Lx) (hy : 2 ≤ Ly) (hz : 2 ≤ Lz)
    (hey : Ly % 2 = 0) :
    (selStabs Lx Ly Lz).length + (logX Lx Ly Lz).length = (qubits Lx Ly Lz).length := by
  rw [length_logX, length_qubits]
  unfold selStabs
  simp only [List.length_append]
  have h1 := length_selCubes Lx Ly Lz hx (by omega) (by omega)
  have h2 := length_selBulk Lx Ly Lz hx
  have h3 := length_selLast Lx Ly Lz hx (by omega) (by omega)
  have h4 := length_selFirst Lx Ly Lz (by omega) (by omega)
  have hN : (Ly * Lz) % 2 = 0 := by rw [Nat.mul_mod, hey]; simp
  have ev1 : (Lx * (Ly * Lz)) % 2 = 0 := by rw [Nat.mul_mod, hN]; simp
  have ev2 : ((Lx - 2) * (Ly * Lz)) % 2 = 0 := by rw [Nat.mul_mod, hN]; simp
  have k1 := half_even _ false ev1
  have k2 := half_even _ true ev2
  generalize half (Lx * (Ly * Lz)) false = H1 at *
  generalize half ((Lx - 2) * (Ly * Lz)) true = H2 at *
  obtain ⟨a, rfl⟩ : ∃ a, Lx = a + 2 := ⟨Lx - 2, by omega⟩
  simp only [Nat.add_sub_cancel] at *
  have e1 : (a + 2) * (Ly * Lz) = a * (Ly * Lz) + 2 * (Ly * Lz) := by ring
  have e2 : a * Ly * Lz = a * (Ly * Lz) := by ring
  have e3 : (a + 2) * Ly * Lz = a * (Ly * Lz) + 2 * (Ly * Lz) := by ring
  rw [e2] at h2
  rw [e3]
  rw [e1] at k1
  generalize a * (Ly * Lz) = P at *
  generalize Ly * Lz = N at *
  omega

end Panqec.RhombicToricCode
