/-
`XCubeMatchingDecoder.decode`, the projection loops ("Perform the projection"): every
`qubit_index` look-up succeeds, on every lattice (any sizes ≥ 1), when the matching locations are
toric-code qubits lifted to an odd plane and the components are non-empty sets of odd planes.
-/
import PanqecVerif.Proofs.XCubeDecPlane
import PanqecVerif.Proofs.LatToric2DCodeA

namespace Panqec.XCube

open Panqec

variable {W : Type}

/-- sizes of `self.toric_code[axis]` -/
def toricSizes (Lx Ly Lz : Nat) : Axis → Nat × Nat
  | .x => (Ly, Lz) | .y => (Lx, Lz) | .z => (Lx, Ly)

/-- what the proofs use of the object built by `__init__` for an undeformed `XCubeCode` -/
structure Geom (d : XCubeDec W) : Prop where
  qubits : d.qubits = XCubeCode.qubits d.Lx d.Ly d.Lz
  stabs : d.stabs = XCubeCode.stabs d.Lx d.Ly d.Lz
  toric : ∀ a, d.toric.get a = toricView (toricSizes d.Lx d.Ly d.Lz a).1 (toricSizes d.Lx d.Ly d.Lz a).2
  hx : 1 ≤ d.Lx
  hy : 1 ≤ d.Ly
  hz : 1 ≤ d.Lz

theorem toricView_qubits (La Lb : Nat) : (toricView La Lb).qubits = Toric2DCode.qubits La Lb := rfl
theorem toricView_stabs (La Lb : Nat) : (toricView La Lb).stabs = Toric2DCode.stabs La Lb := rfl

/-- a 3-D matching location of `axis`: a qubit `(a, b)` of the toric code of that axis, lifted to
    an odd plane of that axis -/
def MatchLoc (d : XCubeDec W) (axis : Axis) (loc : Coord) : Prop :=
  ∃ a b plane, loc = tupleInsert [a, b] axis.toNat plane ∧
    [a, b] ∈ (d.toric.get axis).qubits ∧ Lat3Db.R1 (2 * d.side axis) plane

theorem tupleInsert_get (a b p : Int) (ax : Axis) : (tupleInsert [a, b] ax.toNat p).getD ax.toNat 0 = p := by
  cases ax <;> simp [tupleInsert, Axis.toNat]

theorem tupleRemove_insert (a b p : Int) (ax : Axis) :
    tupleRemove (tupleInsert [a, b] ax.toNat p) ax.toNat = [a, b] := by
  cases ax <;> simp [tupleInsert, tupleRemove, Axis.toNat]

theorem mem_rangeI2 (a b x : Int) (h : x ∈ rangeI2 a b) : (x - a) % 2 = 0 := by
  unfold rangeI2 at h
  obtain ⟨k, _, rfl⟩ := List.mem_map.mp h
  omega

/-- a toric qubit of the axis, lifted to an even coordinate of that axis, is a qubit of the X-cube
    lattice -/
theorem lifted_even_is_qubit (d : XCubeDec W) (g : Geom d) (ax : Axis) (a b e : Int)
    (hq : [a, b] ∈ (d.toric.get ax).qubits) (he : Lat3Db.R0 (2 * d.side ax) e) :
    tupleInsert [a, b] ax.toNat e ∈ d.qubits := by
  rw [g.toric ax, toricView_qubits, Toric2DCode.mem_qubits'] at hq
  rw [g.qubits]
  unfold Toric2DCode.IsQ Toric2DCode.InBox at hq
  unfold Lat3Db.R0 at he
  cases ax
  · simp only [toricSizes] at hq
    simp only [tupleInsert, Axis.toNat, List.insertIdx_zero, XCubeDec.side] at he ⊢
    rw [XCubeCode.mem_qubits_iff]
    unfold XCubeCode.QX XCubeCode.QY XCubeCode.QZ Lat3Db.R0 Lat3Db.R1
    omega
  · simp only [toricSizes] at hq
    simp only [tupleInsert, Axis.toNat, List.insertIdx_succ_cons, List.insertIdx_zero, XCubeDec.side] at he ⊢
    rw [XCubeCode.mem_qubits_iff]
    unfold XCubeCode.QX XCubeCode.QY XCubeCode.QZ Lat3Db.R0 Lat3Db.R1
    omega
  · simp only [toricSizes] at hq
    simp only [tupleInsert, Axis.toNat, List.insertIdx_succ_cons, List.insertIdx_zero, XCubeDec.side] at he ⊢
    rw [XCubeCode.mem_qubits_iff]
    unfold XCubeCode.QX XCubeCode.QY XCubeCode.QZ Lat3Db.R0 Lat3Db.R1
    omega

theorem side_pos (d : XCubeDec W) (g : Geom d) (ax : Axis) : 1 ≤ d.side ax := by
  cases ax
  · exact g.hx
  · exact g.hy
  · exact g.hz

theorem errs_bumpRange (d : XCubeDec W) (g : Geom d) (proj : Axis) (a b : Int)
    (hq : [a, b] ∈ (d.toric.get proj).qubits) (planes : List Int)
    (hev : ∀ p ∈ planes, p % 2 = 0) (pc : Vec) :
    Errs (bumpRange d proj [a, b] planes pc) (fun _ => False) := by
  unfold bumpRange
  refine errs_forM' (fun _ => True) ?_ pc trivial
  intro st p hp _
  refine ⟨?_, post_true _⟩
  simp only
  have hs := side_pos d g proj
  have hmem := lifted_even_is_qubit d g proj a b (p % (2 * (d.side proj : Int))) hq (by
    have := hev p hp
    unfold Lat3Db.R0
    have h2 : (0 : Int) < 2 * (d.side proj : Int) := by omega
    refine ⟨?_, Int.emod_nonneg _ (by omega), ?_⟩
    · have := Int.emod_emod_of_dvd p (show (2 : Int) ∣ 2 * (d.side proj : Int) from ⟨_, rfl⟩)
      omega
    · have := Int.emod_lt_of_pos p h2
      push_cast; omega)
  cases hqi : qubitIndex? d.qubits (tupleInsert [a, b] proj.toNat (p % (2 * (d.side proj : Int)))) with
  | none => exact absurd hmem ((qubitIndex?_eq_none_iff _ _).mp hqi)
  | some i =>
    refine errs_bind ?_ (fun _ _ => errs_pure)
    intro e he; simp [orKeyError, Out.pure] at he

theorem errs_projectLoc (d : XCubeDec W) (g : Geom d) (proj : Axis) (comp : List Int) (pp : Int)
    (hpp : pp % 2 = 1) (pc : Vec) (loc : Coord) (hloc : MatchLoc d proj loc) :
    Errs (projectLoc d proj comp pp pc loc) (fun _ => False) := by
  obtain ⟨a, b, plane, rfl, hq, hplane⟩ := hloc
  unfold projectLoc
  simp only [tupleInsert_get, tupleRemove_insert]
  unfold Lat3Db.R1 at hplane
  split
  · split
    · apply errs_bumpRange d g proj a b hq
      intro p hp; have := mem_rangeI2 _ _ _ hp; omega
    · split
      · apply errs_bumpRange d g proj a b hq
        intro p hp; have := mem_rangeI2 _ _ _ hp; omega
      · exact errs_pure
  · exact errs_pure

/-- **the projection never raises**: all locations of the projection axis are lifted toric qubits,
    every component is headed by an odd plane -/
theorem errs_projectAll (d : XCubeDec W) (g : Geom d) (proj : Axis) (comps : List (List Int))
    (hcomps : ∀ comp ∈ comps, (comp.headD 0) % 2 = 1) (mp : List Coord)
    (hmp : ∀ loc ∈ mp, MatchLoc d proj loc) (pc : Vec) :
    Errs (projectAll d proj comps mp pc) (fun _ => False) := by
  unfold projectAll
  refine errs_forM' (fun _ => True) ?_ pc trivial
  intro st comp hcomp _
  refine ⟨?_, post_true _⟩
  refine errs_forM' (fun _ => True) ?_ st trivial
  intro st' loc hloc _
  exact ⟨errs_projectLoc d g proj comp _ (hcomps comp hcomp) st' loc (hmp loc hloc), post_true _⟩

end Panqec.XCube
