/-
Re-instantiation from recorded inputs: binding the arguments produced by a first
instantiation (`obj.params`) against the same signature gives the same arguments back.
-/
import PanqecVerif.Model.Spec
import Mathlib.Data.List.Nodup

namespace Panqec.Spec

open Panqec.Generated

theorem lookupKw_cons (k : String) (v : PV) (kw : List (String × PV)) (name : String) :
    lookupKw ((k, v) :: kw) name = if k = name then some v else lookupKw kw name := by
  unfold lookupKw
  by_cases h : k = name
  · simp [h]
  · simp [h]

/-- in an argument list with distinct names every entry is found under its own name -/
theorem lookupKw_of_mem : ∀ (b : List (String × PV)), (b.map (·.1)).Nodup →
    ∀ e ∈ b, lookupKw b e.1 = some e.2
  | [], _, e, he => by cases he
  | (k, v) :: b, hnd, e, he => by
    simp only [List.map_cons, List.nodup_cons] at hnd
    rw [lookupKw_cons]
    rcases List.mem_cons.mp he with h | h
    · subst h; simp
    · have hne : k ≠ e.1 := fun heq => hnd.1 (heq ▸ List.mem_map_of_mem (f := (·.1)) h)
      simp only [hne, if_false]
      exact lookupKw_of_mem b hnd.2 e h

theorem fillArgs_names : ∀ (sig : List (String × Option PV)) (pos : List PV)
    (kw b : List (String × PV)), fillArgs sig pos kw = .ok b → b.map (·.1) = sig.map (·.1)
  | [], _, _, b, h => by simp only [fillArgs] at h; cases h; rfl
  | (name, dflt) :: rest, p :: ps, kw, b, h => by
    simp only [fillArgs] at h
    cases hr : fillArgs rest ps kw with
    | error e => rw [hr] at h; cases h
    | ok b' =>
      rw [hr] at h; cases h
      simp [fillArgs_names rest ps kw b' hr]
  | (name, dflt) :: rest, [], kw, b, h => by
    simp only [fillArgs] at h
    cases hr : fillArgs rest [] kw with
    | error e =>
      rw [hr] at h
      cases hl : lookupKw kw name <;> cases dflt <;> simp [hl] at h
    | ok b' =>
      rw [hr] at h
      have ih := fillArgs_names rest [] kw b' hr
      cases hl : lookupKw kw name with
      | some v => simp [hl] at h; cases h; simp [ih]
      | none =>
        cases dflt with
        | none => simp [hl] at h
        | some d => simp [hl] at h; cases h; simp [ih]

/-- if every entry of `b` is found in `kw`, filling the signature from keywords gives `b` -/
theorem fillArgs_of_lookup : ∀ (sig : List (String × Option PV)) (b kw : List (String × PV)),
    b.map (·.1) = sig.map (·.1) → (∀ e ∈ b, lookupKw kw e.1 = some e.2) →
    fillArgs sig [] kw = .ok b
  | [], b, kw, hn, _ => by
    have : b = [] := by simpa using hn
    subst this; simp [fillArgs]
  | (name, dflt) :: rest, [], kw, hn, _ => by simp at hn
  | (name, dflt) :: rest, (k, v) :: b, kw, hn, hl => by
    simp only [List.map_cons, List.cons.injEq] at hn
    obtain ⟨hk, hrest⟩ := hn
    subst hk
    have h1 : lookupKw kw k = some v := hl (k, v) (by simp)
    have ih := fillArgs_of_lookup rest b kw hrest (fun e he => hl e (by simp [he]))
    simp [fillArgs, h1, ih]

theorem any_eq_self_of_mem (sig : List (String × Option PV)) (k : String)
    (h : k ∈ sig.map (·.1)) : sig.any (·.1 == k) = true := by
  simp only [List.any_eq_true, beq_iff_eq]
  obtain ⟨e, he, rfl⟩ := List.mem_map.mp h
  exact ⟨e, he, rfl⟩

/-- keyword arguments that name every formal parameter exactly once bind to themselves -/
theorem bindArgs_self (sig : List (String × Option PV)) (hsig : (sig.map (·.1)).Nodup)
    (b : List (String × PV)) (hn : b.map (·.1) = sig.map (·.1)) : bindArgs sig [] b = .ok b := by
  have hnd : (b.map (·.1)).Nodup := hn ▸ hsig
  unfold bindArgs
  have c1 : ¬ (([] : List PV).length > sig.length) := by simp
  have c2 : (b.any fun e => !(sig.any (·.1 == e.1))) = false := by
    rw [List.any_eq_false]
    intro e he
    have : e.1 ∈ sig.map (·.1) := hn ▸ List.mem_map_of_mem (f := (·.1)) he
    simp [any_eq_self_of_mem sig e.1 this]
  have c3 : (b.any fun e => (sig.take ([] : List PV).length).any (·.1 == e.1)) = false := by
    simp
  rw [if_neg c1, c2, c3]
  simp only [Bool.false_eq_true, if_false]
  exact fillArgs_of_lookup sig b b hn (lookupKw_of_mem b hnd)

theorem bindArgs_fill (sig : List (String × Option PV)) (pos : List PV) (kw b : List (String × PV))
    (h : bindArgs sig pos kw = .ok b) : fillArgs sig pos kw = .ok b := by
  unfold bindArgs at h
  split at h
  · cases h
  · split at h
    · cases h
    · split at h
      · cases h
      · exact h

/-- `cls(**obj.params)` binds to the same arguments as the call that built `obj` -/
theorem bindArgs_idem (sig : List (String × Option PV)) (hsig : (sig.map (·.1)).Nodup)
    (pos : List PV) (kw b : List (String × PV)) (h : bindArgs sig pos kw = .ok b) :
    bindArgs sig [] b = .ok b :=
  bindArgs_self sig hsig b (fillArgs_names sig pos kw b (bindArgs_fill sig pos kw b h))

theorem PV.isNone_iff (v : PV) : v.isNone = true ↔ v = PV.none := by
  cases v <;> simp [PV.isNone]

/-! ### the registry resolves a class name to that class -/

/-- the regenerated table: every registered name is the `__name__` of its class -/
theorem registry_names : ∀ e ∈ registry, e.key = e.cls := by decide

theorem lookupRegistry_eq (table key cls : String) (h : lookupRegistry table key = some cls) :
    cls = key := by
  unfold lookupRegistry at h
  cases hf : registry.find? (fun e => e.table == table && e.key == key) with
  | none => rw [hf] at h; cases h
  | some e =>
    rw [hf] at h
    cases h
    have hm := List.mem_of_find?_eq_some hf
    have hp := List.find?_some hf
    simp only [Bool.and_eq_true, beq_iff_eq] at hp
    rw [← registry_names e hm]; exact hp.2

theorem lookupRegistry_cls (table key cls : String) (h : lookupRegistry table key = some cls) :
    lookupRegistry table cls = some cls := by
  have := lookupRegistry_eq table key cls h
  subst this; exact h

/-! ### re-instantiation -/

theorem getArg_cons (k : String) (v : PV) (l : List (String × PV)) (name : String) :
    getArg ((k, v) :: l) name = if k = name then v else getArg l name := by
  unfold getArg
  rw [lookupKw_cons]
  by_cases h : k = name <;> simp [h]

theorem ite_isNone_idem (c : Bool) (x y : PV) :
    (if (if y.isNone && c then x else y).isNone && c then x else (if y.isNone && c then x else y)) =
      (if y.isNone && c then x else y) := by
  by_cases h : (y.isNone && c) = true
  · simp only [h, if_true]
    by_cases h2 : (x.isNone && c) = true <;> simp [h2]
  · simp only [h]
    simp [h]

theorem instCode_reinst (b : Block) (i : Inst) (h : instCode b = .ok i) :
    instCode ⟨some i.cls, some (.dict i.params)⟩ = .ok i := by
  unfold instCode at h
  cases hn : b.name with
  | none => rw [hn] at h; cases h
  | some name =>
    rw [hn] at h; simp only at h
    cases hl : lookupRegistry "CODES" name with
    | none => rw [hl] at h; cases h
    | some cls =>
      rw [hl] at h; simp only at h
      cases hs : splatArgs (b.params.getD (.list [])) with
      | error e => rw [hs] at h; cases h
      | ok pk =>
        obtain ⟨pos, kw⟩ := pk
        rw [hs] at h; simp only at h
        cases hb : bindArgs codeSig pos kw with
        | error e => rw [hb] at h; cases h
        | ok bound =>
          rw [hb] at h; simp only at h
          cases hd : lookupAssoc codeDimension cls with
          | none => rw [hd] at h; cases h
          | some dim =>
            rw [hd] at h; simp only at h
            cases h
            have hcls := lookupRegistry_cls "CODES" name cls hl
            generalize getArg bound "L_x" = lx
            generalize getArg bound "L_y" = ly
            generalize getArg bound "L_z" = lz
            have hy := ite_isNone_idem true lx ly
            have hz := ite_isNone_idem (dim == 3) lx lz
            simp only [Bool.and_true] at hy
            generalize (if ly.isNone = true then lx else ly) = ly' at hy ⊢
            generalize (if (lz.isNone && dim == 3) = true then lx else lz) = lz' at hz ⊢
            unfold instCode
            simp only [hcls, Option.getD_some, splatArgs, hd]
            have hbind : bindArgs codeSig [] [("L_x", lx), ("L_y", ly'), ("L_z", lz')] =
                .ok [("L_x", lx), ("L_y", ly'), ("L_z", lz')] :=
              bindArgs_self codeSig (by decide) _ rfl
            rw [hbind]
            simp only [getArg_cons, String.reduceEq, if_true, if_false]
            rw [hy, hz]

theorem instNoise_reinst (b : Block) (i : Inst) (h : instNoise b = .ok i) :
    instNoise ⟨some i.cls, some (.dict i.params)⟩ = .ok i := by
  unfold instNoise at h
  cases hn : b.name with
  | none => rw [hn] at h; cases h
  | some name =>
    rw [hn] at h; simp only at h
    cases hl : lookupRegistry "ERROR_MODELS" name with
    | none => rw [hl] at h; cases h
    | some cls =>
      rw [hl] at h; simp only at h
      by_cases hc : (cls != "PauliErrorModel") = true
      · rw [if_pos hc] at h; cases h
      · rw [if_neg hc] at h
        cases hs : splatArgs (b.params.getD (.list [])) with
        | error e => rw [hs] at h; cases h
        | ok pk =>
          obtain ⟨pos, kw⟩ := pk
          rw [hs] at h; simp only at h
          cases hb : bindArgs pauliSig pos kw with
          | error e => rw [hb] at h; cases h
          | ok bound =>
            rw [hb] at h; simp only at h
            generalize getArg bound "r_x" = rx at h
            generalize getArg bound "r_y" = ry at h
            generalize getArg bound "r_z" = rz at h
            generalize getArg bound "deformation_name" = dn at h
            generalize getArg bound "deformation_kwargs" = dk at h
            cases hx : rx.toRat? with
            | none => rw [hx] at h; cases h
            | some x =>
            cases hy : ry.toRat? with
            | none => rw [hx, hy] at h; cases h
            | some y =>
            cases hz : rz.toRat? with
            | none => rw [hx, hy, hz] at h; cases h
            | some z =>
              rw [hx, hy, hz] at h; simp only at h
              by_cases hclose : (!isCloseToOne (x + y + z)) = true
              · rw [if_pos hclose] at h; cases h
              · rw [if_neg hclose] at h
                cases h
                have hcls := lookupRegistry_cls "ERROR_MODELS" name cls hl
                have hk : (if (if dk.isNone = true then PV.dict [] else dk).isNone = true then PV.dict []
                    else (if dk.isNone = true then PV.dict [] else dk)) =
                    (if dk.isNone = true then PV.dict [] else dk) := by
                  by_cases hdk : dk.isNone = true
                  · rw [if_pos hdk]; rfl
                  · rw [if_neg hdk, if_neg hdk]
                generalize (if dk.isNone = true then PV.dict [] else dk) = dk' at hk ⊢
                unfold instNoise
                simp only [hcls, Option.getD_some, splatArgs, if_neg hc]
                have hbind : bindArgs pauliSig []
                    [("r_x", rx), ("r_y", ry), ("r_z", rz), ("deformation_name", dn),
                     ("deformation_kwargs", dk')] =
                    .ok [("r_x", rx), ("r_y", ry), ("r_z", rz), ("deformation_name", dn),
                     ("deformation_kwargs", dk')] :=
                  bindArgs_self pauliSig (by decide) _ rfl
                rw [hbind]
                simp only [getArg_cons, String.reduceEq, if_true, if_false]
                rw [hx, hy, hz]
                simp only [if_neg hclose]
                rw [hk]

theorem filter_implicit_id (b : List (String × PV))
    (h : ∀ e ∈ b, e.1 ∉ implicitDecoderArgs) :
    b.filter (fun e => !(implicitDecoderArgs.contains e.1)) = b := by
  rw [List.filter_eq_self]
  intro e he
  have := h e he
  simp only [Bool.not_eq_true', List.contains_eq_mem, decide_eq_false_iff_not]
  exact this

/-- the regenerated decoder signatures: distinct argument names, none of them one of the
    three arguments panqec supplies itself -/
theorem decoderSignature_wf : ∀ e ∈ decoderSignature,
    (e.2.map (·.1)).Nodup ∧ ∀ a ∈ e.2, a.1 ∉ implicitDecoderArgs := by decide

theorem lookupAssoc_mem {β : Type} (l : List (String × β)) (k : String) (v : β)
    (h : lookupAssoc l k = some v) : (k, v) ∈ l := by
  unfold lookupAssoc at h
  cases hf : l.find? (·.1 == k) with
  | none => rw [hf] at h; cases h
  | some e =>
    rw [hf] at h
    obtain ⟨k', v'⟩ := e
    cases h
    have hm := List.mem_of_find?_eq_some hf
    have hp := List.find?_some hf
    simp only [beq_iff_eq] at hp
    subst hp; exact hm

theorem instDecoder_reinst (b : Block) (i : Inst) (h : instDecoder b = .ok i) :
    instDecoder ⟨some i.cls, some (.dict i.params)⟩ = .ok i := by
  unfold instDecoder at h
  cases hn : b.name with
  | none => rw [hn] at h; cases h
  | some name =>
    rw [hn] at h; simp only at h
    cases hl : lookupRegistry "DECODERS" name with
    | none => rw [hl] at h; cases h
    | some cls =>
      rw [hl] at h; simp only at h
      cases hp : b.params.getD (.dict []) with
      | dict d =>
        rw [hp] at h; simp only at h
        cases hs : lookupAssoc decoderSignature cls with
        | none => rw [hs] at h; cases h
        | some sig =>
          rw [hs] at h; simp only at h
          cases hb : bindArgs (sig.map fun e => (e.1, some (PV.ofLit e.2))) []
              (d.filter fun e => !(implicitDecoderArgs.contains e.1)) with
          | error e => rw [hb] at h; cases h
          | ok bound =>
            rw [hb] at h; simp only at h
            cases h
            have hcls := lookupRegistry_cls "DECODERS" name cls hl
            have hwf := decoderSignature_wf (cls, sig) (lookupAssoc_mem _ _ _ hs)
            have hnames : ((sig.map fun e => (e.1, some (PV.ofLit e.2))).map (·.1)) = sig.map (·.1) := by
              simp [List.map_map, Function.comp_def]
            have hfill := bindArgs_fill _ _ _ _ hb
            have hbn := fillArgs_names _ _ _ _ hfill
            rw [hnames] at hbn
            have hfilter : bound.filter (fun e => !(implicitDecoderArgs.contains e.1)) = bound := by
              apply filter_implicit_id
              intro e he
              have hmem : e.1 ∈ sig.map (·.1) := hbn ▸ List.mem_map_of_mem (f := (·.1)) he
              obtain ⟨a, ha, hae⟩ := List.mem_map.mp hmem
              rw [← hae]; exact hwf.2 a ha
            unfold instDecoder
            simp only [hcls, Option.getD_some, hs, hfilter]
            rw [bindArgs_idem _ (by rw [hnames]; exact hwf.1) _ _ _ hb]
      | none => rw [hp] at h; cases h
      | bool _ => rw [hp] at h; cases h
      | int _ => rw [hp] at h; cases h
      | num _ => rw [hp] at h; cases h
      | str _ => rw [hp] at h; cases h
      | list _ => rw [hp] at h; cases h

end Panqec.Spec
