/-
RotatedToric3DCode, supported family, C17 (1/3): the parity constraints of one generator in the
SIGN picture of `commPair` (`Proofs/LatRotatedToric3DCode2-4.lean`).  For an operator `b` and a sign
`σ`, `hS b σ q` is 1 when `q` is a qubit and the letter `dl σ q` (Z if `σ` is the colour of `q`,
X otherwise) anticommutes with the letter of `b` on `q`.  A generator is a signed operator, so if
`b` commutes with it the indicators of its signed candidates add up to an even number
(`stab_sum`).  Written out: every layer generator (vertex or horizontal face alike, on or off a
defect line) gives `layer_even`, every vertical face `vface_even`.
-/
import PanqecVerif.Proofs.LatRotatedToric3DCodeRank1
import PanqecVerif.Proofs.Lat3DRankBridge
import PanqecVerif.Proofs.DistLat3Db

namespace Panqec.RotatedToric3DCode
open Panqec.Lat3Db

set_option linter.unusedVariables false
set_option linter.unusedSimpArgs false

/-- sign indicator restricted to the qubits: `0` outside the lattice -/
def hS (Lx Ly Lz : Nat) (b : Op) (σ : Bool) (q : Coord) : Nat :=
  if isQubit Lx Ly Lz q = true then
    (if Pauli.anti (dl σ q) (Op.letter b q) = true then 1 else 0) else 0

/-- X-component indicator: the sign opposite to the colour -/
def xH (Lx Ly Lz : Nat) (b : Op) (q : Coord) : Nat := hS Lx Ly Lz b (!col q) q

theorem hS_of_not {Lx Ly Lz : Nat} {b : Op} {σ : Bool} {x y z : Int}
    (h : ¬ (QH Lx Ly Lz x y z ∨ QV Lx Ly Lz x y z)) : hS Lx Ly Lz b σ [x, y, z] = 0 := by
  unfold hS; rw [if_neg (fun h' => h ((isQubit_iff Lx Ly Lz x y z).mp h'))]

theorem hS_le_one (Lx Ly Lz : Nat) (b : Op) (σ : Bool) (q : Coord) : hS Lx Ly Lz b σ q ≤ 1 := by
  unfold hS; split <;> (try split) <;> omega

/-- `b` commutes with every stabilizer generator of the lattice -/
def CommStabs (Lx Ly Lz : Nat) (b : Op) : Prop :=
  ∀ s ∈ (lattice Lx Ly Lz).stabs, opAntiCount ((lattice Lx Ly Lz).getStab s) b % 2 = 0

variable {Lx Ly Lz : Nat}

/-- the indicators of the signed candidates of a generator add up to an even number -/
theorem stab_sum (hF : Fam Lx Ly) {b : Op} (hb : CommStabs Lx Ly Lz b) {s : Coord}
    {K : List (Coord × Bool)} (hs : s ∈ stabs Lx Ly Lz) (hk : Kind Lx Ly Lz s K) :
    (K.map fun e => hS Lx Ly Lz b e.2 e.1).sum % 2 = 0 := by
  have h := hb s hs
  change opAntiCount (getStab Lx Ly Lz s) b % 2 = 0 at h
  obtain ⟨g, hg, hgl⟩ := (signed_of_kind hF hk).eq
  rw [hg, opAntiCount_eq_countP] at h
  unfold gop at h
  rw [List.countP_map, List.countP_filter, List.countP_map] at h
  have e1 : K.countP (((fun q => ((fun e : Coord × Pauli => Pauli.anti e.2 (Op.letter b e.1)) ∘
        fun q => (q, g q)) q && isQubit Lx Ly Lz q) ∘ Prod.fst)) =
      K.countP (fun e => Pauli.anti (dl e.2 e.1) (Op.letter b e.1) && isQubit Lx Ly Lz e.1) := by
    apply List.countP_congr
    intro e he
    simp only [Function.comp]
    rw [hgl e he]
  have e2 : K.countP (fun e => Pauli.anti (dl e.2 e.1) (Op.letter b e.1) && isQubit Lx Ly Lz e.1) =
      (K.map fun e => hS Lx Ly Lz b e.2 e.1).sum := by
    rw [← Cubic3D.sum_indicator_eq_countP]
    congr 1
    apply List.map_congr_left
    intro e _
    unfold hS
    by_cases hq : isQubit Lx Ly Lz e.1 = true
    · simp [hq]
    · have hq' : isQubit Lx Ly Lz e.1 = false := by simpa using hq
      simp [hq']
  rw [e1, e2] at h
  exact h

/-- the constraint of a layer generator at `(x, y, z)` — vertex or horizontal face, on or off a
    defect line: the two neighbours on the main diagonal with sign `true`, the two on the
    anti-diagonal with sign `false`, and the vertical neighbours (qubits only above / below a
    vertex) with sign `true` -/
theorem layer_even (hF : Fam Lx Ly) {b : Op} (hb : CommStabs Lx Ly Lz b) {x y z : Int}
    (hx : Ev Lx x) (hy : Ev Ly y) (hz : R1 (2 * Lz) z) :
    (hS Lx Ly Lz b true [x - 1, y - 1, z] + hS Lx Ly Lz b true [sw Lx x, sw Ly y, z]
      + hS Lx Ly Lz b false [x - 1, sw Ly y, z] + hS Lx Ly Lz b false [sw Lx x, y - 1, z]
      + hS Lx Ly Lz b true [x, y, z + 1] + hS Lx Ly Lz b true [x, y, z - 1]) % 2 = 0 := by
  have hx' := hx; have hy' := hy
  unfold Ev at hx' hy'
  rcases (show (x + y) % 4 = 2 ∨ (x + y) % 4 = 0 by omega) with h4 | h4
  · have hsv : SV Lx Ly Lz x y z := ⟨R2_Ev.mpr hx, R2_Ev.mpr hy, hz, h4⟩
    have h := stab_sum hF hb ((mem_stabs_iff Lx Ly Lz x y z).mpr (Or.inl hsv)) (Kind.vertex hsv)
    simp only [KV, List.map_cons, List.map_nil, List.sum_cons, List.sum_nil] at h
    omega
  · have hsh : SH Lx Ly Lz x y z := ⟨R2_Ev.mpr hx, R2_Ev.mpr hy, hz, h4⟩
    have h := stab_sum hF hb ((mem_stabs_iff Lx Ly Lz x y z).mpr (Or.inr (Or.inl hsh)))
      (Kind.hface hsh)
    simp only [KH, List.map_cons, List.map_nil, List.sum_cons, List.sum_nil] at h
    have e1 : hS Lx Ly Lz b true [x, y, z + 1] = 0 :=
      hS_of_not (by unfold QH QV R1 R2; omega)
    have e2 : hS Lx Ly Lz b true [x, y, z - 1] = 0 :=
      hS_of_not (by unfold QH QV R1 R2; omega)
    omega

/-- the constraint of a vertical face at `(f, g, h)`: the four diagonal neighbours in its layer
    (vertical qubits on one diagonal only) with sign `false`, the horizontal qubits below and
    above with their X component -/
theorem vface_even (hF : Fam Lx Ly) {b : Op} (hb : CommStabs Lx Ly Lz b) {f g h : Int}
    (hs : SF Lx Ly Lz f g h) :
    (hS Lx Ly Lz b false [pw Lx f, pw Ly g, h] + hS Lx Ly Lz b false [f + 1, g + 1, h]
      + hS Lx Ly Lz b false [pw Lx f, g + 1, h] + hS Lx Ly Lz b false [f + 1, pw Ly g, h]
      + xH Lx Ly Lz b [f, g, h - 1] + xH Lx Ly Lz b [f, g, h + 1]) % 2 = 0 := by
  obtain ⟨hLx, hLy, hodd⟩ := hF
  have hF : Fam Lx Ly := ⟨hLx, hLy, hodd⟩
  have hs' := hs
  obtain ⟨hf, hg, hh, hdrop⟩ := hs'
  unfold R1 at hf hg; unfold R2 at hh; unfold Dropped at hdrop
  have pf := pw_spec Lx f; have pg := pw_spec Ly g
  rcases SF_mod4 hs with h4 | h4
  · have hst := stab_sum hF hb ((mem_stabs_iff Lx Ly Lz f g h).mpr (Or.inr (Or.inr hs)))
      (Kind.vfaceX hs h4)
    simp only [KFX, List.map_cons, List.map_nil, List.sum_cons, List.sum_nil] at hst
    have e1 : hS Lx Ly Lz b false [pw Lx f, g + 1, h] = 0 :=
      hS_of_not (by unfold QH QV R1 R2; omega)
    have e2 : hS Lx Ly Lz b false [f + 1, pw Ly g, h] = 0 :=
      hS_of_not (by unfold QH QV R1 R2; omega)
    have c1 : col [f, g, h - 1] = true := by simp only [col, Bool.or_eq_true, beq_iff_eq]; omega
    have c2 : col [f, g, h + 1] = true := by simp only [col, Bool.or_eq_true, beq_iff_eq]; omega
    unfold xH
    rw [c1, c2, e1, e2]
    simp only [Bool.not_true]
    omega
  · have hst := stab_sum hF hb ((mem_stabs_iff Lx Ly Lz f g h).mpr (Or.inr (Or.inr hs)))
      (Kind.vfaceY hs h4)
    simp only [KFY, List.map_cons, List.map_nil, List.sum_cons, List.sum_nil] at hst
    have e1 : hS Lx Ly Lz b false [pw Lx f, pw Ly g, h] = 0 :=
      hS_of_not (by unfold QH QV R1 R2; omega)
    have e2 : hS Lx Ly Lz b false [f + 1, g + 1, h] = 0 :=
      hS_of_not (by unfold QH QV R1 R2; omega)
    have c1 : col [f, g, h - 1] = false := by
      rw [Bool.eq_false_iff]; simp only [col, ne_eq, Bool.or_eq_true, beq_iff_eq]; omega
    have c2 : col [f, g, h + 1] = false := by
      rw [Bool.eq_false_iff]; simp only [col, ne_eq, Bool.or_eq_true, beq_iff_eq]; omega
    unfold xH
    rw [c1, c2, e1, e2]
    simp only [Bool.not_false]
    omega

end Panqec.RotatedToric3DCode
