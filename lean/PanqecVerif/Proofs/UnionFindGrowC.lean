/-
Union-find internals (C05), growth phase, part C: the second half of `merge_clusters`
(`clusters.remove(biggest)`, `biggest.merge(clusters)`, re-insertion) and the specification of
the whole function on a well-formed state.
-/
import PanqecVerif.Proofs.UnionFindGrowB

namespace Panqec.UF

set_option linter.unusedSimpArgs false
set_option linter.unusedVariables false

theorem cnt_or_disjoint (m : Nat) (f g : Nat → Bool) (h : ∀ i, i < m → ¬ (f i = true ∧ g i = true)) :
    cnt m (fun i => f i || g i) = cnt m f + cnt m g := by
  induction m with
  | zero => rfl
  | succ m ih =>
    rw [cnt_succ', cnt_succ', cnt_succ', ih (fun i hi => h i (by omega))]
    have := h m (by omega)
    cases hf : f m <;> cases hg : g m <;> simp_all <;> omega

theorem b2n_xor (a b : Bool) : b2n (xor a b) % 2 = (b2n a + b2n b) % 2 := by
  cases a <;> cases b <;> rfl

/-- invariant of the loop `for c in clusters` of `Clustering_Tree.merge`; `rem` = records still to
    be absorbed into `bAcc` -/
structure AInv (m : Nat) (sy : Vec) (rep0 : Nat → Nat) (sPar0 : Nat → Int) (fr : List Cluster)
    (b : Nat) (b0bnd : List Int) (others rem : List Cluster) (sp : Nat → Int) (rp dp : Nat → Nat)
    (bAcc : Cluster) : Prop where
  uf : UFInv m sp rp dp
  b_root : sp b = (b : Int)
  coarse : ∀ i j, sPar0 i ≠ -1 → sPar0 j ≠ -1 → rep0 i = rep0 j → rp i = rp j
  live_mono : ∀ i, sPar0 i ≠ -1 → sp i ≠ -1
  rem_ok : ∀ k, k ∈ rem → k.root < m ∧ k.root ≠ b ∧
    ((sp k.root = (k.root : Int) ∧ b2n k.odd = clsCnt m sy sp rp k.root % 2) ∨
     (sp k.root = -1 ∧ k.odd = false))
  rem_nodup : (rem.map (·.root)).Nodup
  roots_iff : ∀ x, sp x = (x : Int) ↔
    ((∃ c, c ∈ fr ∧ c.root = x) ∨ x = b ∨ (∃ k, k ∈ rem ∧ k.root = x ∧ sp x = (x : Int)))
  odd_fr : ∀ c, c ∈ fr → b2n c.odd = clsCnt m sy sp rp c.root % 2
  odd_b : b2n bAcc.odd = clsCnt m sy sp rp b % 2
  acc_root : bAcc.root = b
  acc_size : 0 < bAcc.size
  defect_live : ∀ i, i < m → defect sy i = true → sp i ≠ -1
  done : ∀ k, k ∈ others → k ∉ rem → sp k.root ≠ -1 ∧ rp k.root = b
  rem_sub : ∀ k, k ∈ rem → k ∈ others
  fr_disj : ∀ c, c ∈ fr → ∀ k, k ∈ rem → c.root ≠ k.root
  fr_b : ∀ c, c ∈ fr → c.root ≠ b
  frame : ∀ i, sPar0 i ≠ -1 → rp i = rep0 i ∨ ∃ k, k ∈ others ∧ k.root = rep0 i
  newlive : ∀ i, sPar0 i = -1 → sp i ≠ -1 → ∃ k, k ∈ others ∧ k.root = i
  /-- `_boundary_list` of the accumulated record: the union of the absorbed ones (`b0bnd` = the
      boundary list of `biggest` before the merge) -/
  bnd_iff : ∀ x, x ∈ bAcc.bnd ↔ (x ∈ b0bnd ∨ ∃ k, k ∈ others ∧ k ∉ rem ∧ x ∈ k.bnd)

section
variable {m : Nat} {sy : Vec} {rep0 : Nat → Nat} {sPar0 : Nat → Int} {fr : List Cluster} {b : Nat}
  {b0bnd : List Int} {others : List Cluster}

/-- the defect count of a tree only looks at defects, which are never fresh -/
theorem clsCnt_congr {sp sp' : Nat → Int} {rp rp' : Nat → Nat} (x y : Nat)
    (h : ∀ i, i < m → defect sy i = true →
      ((sp' i ≠ -1 ∧ rp' i = y) ↔ (sp i ≠ -1 ∧ rp i = x))) :
    clsCnt m sy sp' rp' y = clsCnt m sy sp rp x := by
  unfold clsCnt
  apply cnt_congr
  intro i hi
  cases hd : defect sy i
  · simp
  · have := h i hi hd
    by_cases h1 : sp' i ≠ -1 ∧ rp' i = y
    · have h2 := this.mp h1
      simp [h1.1, h1.2, h2.1, h2.2]
    · have h2 : ¬ (sp i ≠ -1 ∧ rp i = x) := fun hh => h1 (this.mpr hh)
      simp only [Bool.true_and]
      by_cases a : sp' i = -1 <;> by_cases c : rp' i = y <;> by_cases e : sp i = -1 <;>
        by_cases f : rp i = x <;> simp_all

theorem AInv_step {k : Cluster} {rem : List Cluster} {sp : Nat → Int} {rp dp : Nat → Nat}
    {bAcc : Cluster}
    (I : AInv m sy rep0 sPar0 fr b b0bnd others (k :: rem) sp rp dp bAcc) :
    ∃ rp' dp', AInv m sy rep0 sPar0 fr b b0bnd others rem
      (fun i => if i = k.root then (b : Int) else sp i) rp' dp' (absorb bAcc k) := by
  obtain ⟨hkm, hkb, hkind⟩ := I.rem_ok k (by simp)
  have hnd := I.rem_nodup
  rw [List.map_cons, List.nodup_cons] at hnd
  have hxr : sp k.root = (k.root : Int) ∨ sp k.root = -1 := by
    rcases hkind with h | h
    · exact Or.inl h.1
    · exact Or.inr h.1
  have U' := link_spec I.uf I.b_root hkm hkb hxr
  have hbrep : rp b = b := I.uf.root_rep b I.b_root
  -- the class predicate on defects
  have hcls : ∀ i, i < m → defect sy i = true →
      ((i = k.root ∨ (sp i ≠ -1 ∧ rp i = k.root)) ↔ (sp i ≠ -1 ∧ rp i = k.root)) := by
    intro i hi hd
    constructor
    · rintro (h | h)
      · subst h
        have hl := I.defect_live _ hi hd
        rcases hxr with h | h
        · exact ⟨hl, I.uf.root_rep _ h⟩
        · exact absurd h hl
      · exact h
    · intro h; exact Or.inr h
  have hlive' : ∀ i, i < m → defect sy i = true →
      ((if i = k.root then (b : Int) else sp i) ≠ -1 ↔ sp i ≠ -1) := by
    intro i hi hd
    have hl := I.defect_live i hi hd
    by_cases h : i = k.root
    · simp only [h, if_true]
      constructor
      · intro _; rw [← h]; exact hl
      · intro _; omega
    · simp [h]
  -- defect counts of the other trees do not change
  have hother : ∀ y, y ≠ k.root → y ≠ b →
      clsCnt m sy (fun i => if i = k.root then (b : Int) else sp i)
        (fun i => if i = k.root ∨ (sp i ≠ -1 ∧ rp i = k.root) then b else rp i) y =
      clsCnt m sy sp rp y := by
    intro y hy1 hy2
    apply clsCnt_congr
    intro i hi hd
    rw [hlive' i hi hd]
    by_cases hc : i = k.root ∨ (sp i ≠ -1 ∧ rp i = k.root)
    · have := (hcls i hi hd).mp hc
      simp only [hc, if_true]
      constructor
      · rintro ⟨_, h⟩; exact absurd h.symm hy2
      · rintro ⟨_, h⟩; rw [this.2] at h; exact absurd h.symm hy1
    · simp only [hc, if_false]
  -- the tree of `b` gains the tree of `k.root`
  have hbcnt : clsCnt m sy (fun i => if i = k.root then (b : Int) else sp i)
        (fun i => if i = k.root ∨ (sp i ≠ -1 ∧ rp i = k.root) then b else rp i) b =
      clsCnt m sy sp rp b + clsCnt m sy sp rp k.root := by
    unfold clsCnt
    rw [← cnt_or_disjoint]
    · apply cnt_congr
      intro i hi
      cases hd : defect sy i
      · simp
      · have h1 := hlive' i hi hd
        have h2 := hcls i hi hd
        have hl := I.defect_live i hi hd
        by_cases hc : i = k.root ∨ (sp i ≠ -1 ∧ rp i = k.root)
        · have h3 := h2.mp hc
          have h4 : (if i = k.root then (b : Int) else sp i) ≠ -1 := h1.mpr hl
          have hne : ¬ rp i = b := by rw [h3.2]; exact hkb
          simp [hc, h4, h3.1, h3.2, hne]
        · have h4 : (if i = k.root then (b : Int) else sp i) ≠ -1 := h1.mpr hl
          have h5 : ¬ rp i = k.root := fun h => hc (Or.inr ⟨hl, h⟩)
          have h6 : ¬ i = k.root := fun h => hc (Or.inl h)
          simp [hc, h4, hl, h5, h6]
    · intro i _ ⟨h1, h2⟩
      simp only [Bool.and_eq_true, decide_eq_true_eq] at h1 h2
      exact hkb (h2.2.symm.trans h1.2)
  have hkcnt : b2n k.odd = clsCnt m sy sp rp k.root % 2 := by
    rcases hkind with h | h
    · exact h.2
    · rw [h.2]
      have : clsCnt m sy sp rp k.root = 0 := by
        unfold clsCnt
        apply cnt_eq_zero
        intro i _
        by_cases h1 : sp i = -1
        · simp [h1]
        · have := I.uf.rep_root i h1
          by_cases h2 : rp i = k.root
          · rw [h2, h.1] at this; omega
          · simp [h2]
      rw [this]; rfl
  refine ⟨_, _, ⟨U', ?_, ?_, ?_, ?_, hnd.2, ?_, ?_, ?_, I.acc_root, ?_, ?_, ?_, ?_,
    fun c hc k' hk' => I.fr_disj c hc k' (by simp [hk']), I.fr_b, ?_, ?_, ?_⟩⟩
  · -- b_root
    simp only [hkb.symm, if_false]; exact I.b_root
  · -- coarse
    intro i j hi hj hij
    have h1 := I.coarse i j hi hj hij
    have hi' := I.live_mono i hi
    have hj' := I.live_mono j hj
    by_cases hc : i = k.root ∨ (sp i ≠ -1 ∧ rp i = k.root)
    · have hci : rp i = k.root := by
        rcases hc with h | h
        · rcases hxr with hx | hx
          · rw [h]; exact I.uf.root_rep _ hx
          · rw [h] at hi'; exact absurd hx hi'
        · exact h.2
      have hc' : j = k.root ∨ (sp j ≠ -1 ∧ rp j = k.root) := Or.inr ⟨hj', by rw [← h1]; exact hci⟩
      simp only [hc, hc', if_true]
    · have hc' : ¬ (j = k.root ∨ (sp j ≠ -1 ∧ rp j = k.root)) := by
        rintro (h | h)
        · apply hc
          refine Or.inr ⟨hi', ?_⟩
          rw [h1, h]
          rcases hxr with hx | hx
          · exact I.uf.root_rep _ hx
          · rw [h] at hj'; exact absurd hx hj'
        · exact hc (Or.inr ⟨hi', by rw [h1]; exact h.2⟩)
      simp only [hc, hc', if_false]; exact h1
  · -- live_mono
    intro i hi
    by_cases h : i = k.root
    · simp only [h, if_true]; omega
    · simp only [h, if_false]; exact I.live_mono i hi
  · -- rem_ok
    intro k' hk'
    obtain ⟨h1, h2, h3⟩ := I.rem_ok k' (by simp [hk'])
    have hne : k'.root ≠ k.root := fun h => hnd.1 (List.mem_map.mpr ⟨k', hk', h⟩)
    refine ⟨h1, h2, ?_⟩
    simp only [hne, if_false]
    rcases h3 with h3 | h3
    · exact Or.inl ⟨h3.1, by rw [hother _ hne h2]; exact h3.2⟩
    · exact Or.inr h3
  · -- roots_iff
    intro x
    by_cases hx : x = k.root
    · subst hx
      simp only [if_true]
      constructor
      · intro h; omega
      · rintro (⟨c, hc, hcr⟩ | h | ⟨k', hk', hk'r, h⟩)
        · exact absurd hcr (I.fr_disj c hc k (by simp))
        · exact absurd h hkb
        · omega
    · simp only [hx, if_false]
      constructor
      · intro hsx
        rcases (I.roots_iff x).mp hsx with h | h | ⟨k', hk', hk'r, h⟩
        · exact Or.inl h
        · exact Or.inr (Or.inl h)
        · rcases List.mem_cons.mp hk' with rfl | hk'
          · exact absurd hk'r.symm hx
          · exact Or.inr (Or.inr ⟨k', hk', hk'r, h⟩)
      · rintro (h | h | ⟨k', hk', hk'r, h⟩)
        · exact (I.roots_iff x).mpr (Or.inl h)
        · exact (I.roots_iff x).mpr (Or.inr (Or.inl h))
        · exact h
  · -- odd_fr
    intro c hc
    rw [hother _ (I.fr_disj c hc k (by simp)) (I.fr_b c hc)]
    exact I.odd_fr c hc
  · -- odd_b
    show b2n (xor bAcc.odd k.odd) = _
    rw [hbcnt]
    have h1 := I.odd_b
    have h2 := b2n_xor bAcc.odd k.odd
    have h3 := b2n_le (xor bAcc.odd k.odd)
    omega
  · -- acc_size
    show 0 < bAcc.size + k.size
    have := I.acc_size; omega
  · -- defect_live
    intro i hi hd
    exact (hlive' i hi hd).mpr (I.defect_live i hi hd)
  · -- done
    intro k' hk' hk'r
    by_cases hkk : k' = k
    · subst hkk
      simp
    · have := I.done k' hk' (by simp [hkk, hk'r])
      constructor
      · by_cases h : k'.root = k.root
        · simp only [h, if_true]; omega
        · simp only [h, if_false]; exact this.1
      · by_cases hc : k'.root = k.root ∨ (sp k'.root ≠ -1 ∧ rp k'.root = k.root)
        · simp only [hc, if_true]
        · simp only [hc, if_false]; exact this.2
  · intro k' hk'; exact I.rem_sub k' (by simp [hk'])
  · -- frame
    intro i hi
    have hi' := I.live_mono i hi
    rcases I.frame i hi with h | h
    · by_cases hc : i = k.root ∨ (sp i ≠ -1 ∧ rp i = k.root)
      · refine Or.inr ⟨k, I.rem_sub k (by simp), ?_⟩
        rw [← h]
        rcases hc with hc | hc
        · rcases hxr with hx | hx
          · rw [hc]; exact (I.uf.root_rep _ hx).symm
          · rw [hc] at hi'; exact absurd hx hi'
        · exact hc.2.symm
      · simp only [hc, if_false]; exact Or.inl h
    · exact Or.inr h
  · -- newlive
    intro i hi hl
    by_cases h : i = k.root
    · exact ⟨k, I.rem_sub k (by simp), h.symm⟩
    · simp only [h, if_false] at hl; exact I.newlive i hi hl
  · -- bnd_iff
    intro x
    show x ∈ sunion bAcc.bnd k.bnd ↔ _
    rw [mem_sunion, I.bnd_iff]
    have hk_notin : k ∉ rem := fun h => hnd.1 (List.mem_map.mpr ⟨k, h, rfl⟩)
    constructor
    · rintro ((h | ⟨k', h1, h2, h3⟩) | h)
      · exact Or.inl h
      · exact Or.inr ⟨k', h1, fun hh => h2 (by simp [hh]), h3⟩
      · exact Or.inr ⟨k, I.rem_sub k (by simp), hk_notin, h⟩
    · rintro (h | ⟨k', h1, h2, h3⟩)
      · exact Or.inl (Or.inl h)
      · by_cases hkk : k' = k
        · subst hkk; exact Or.inr h3
        · exact Or.inl (Or.inr ⟨k', h1, by simp [hkk, h2], h3⟩)

theorem AInv_fold :
    ∀ (rem : List Cluster) (sp : Nat → Int) (rp dp : Nat → Nat) (bAcc : Cluster),
      AInv m sy rep0 sPar0 fr b b0bnd others rem sp rp dp bAcc →
      ∃ rp' dp', AInv m sy rep0 sPar0 fr b b0bnd others []
        (rem.foldl (fun p c => fun i => if i = c.root then (b : Int) else p i) sp) rp' dp'
        (rem.foldl absorb bAcc) := by
  intro rem
  induction rem with
  | nil => intro sp rp dp bAcc I; exact ⟨rp, dp, I⟩
  | cons k rem ih =>
    intro sp rp dp bAcc I
    obtain ⟨rp1, dp1, I1⟩ := AInv_step I
    simp only [List.foldl_cons]
    exact ih _ _ _ _ I1

end

end Panqec.UF
