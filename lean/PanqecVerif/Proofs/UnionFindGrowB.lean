/-
Union-find internals (C05), growth phase, part B: the cluster records (`cluster_forest`) and
the first half of `merge_clusters` (the loop `for s in s_l`: `find_root`, pop the cluster of the
root, remember the biggest).
-/
import PanqecVerif.Proofs.UnionFindGrowA
import PanqecVerif.Proofs.UnionFindDecodeA

namespace Panqec.UF

set_option linter.unusedSimpArgs false
set_option linter.unusedVariables false

/-- number of defects in the tree of root `x` -/
def clsCnt (m : Nat) (sy : Vec) (sPar : Nat → Int) (rep : Nat → Nat) (x : Nat) : Nat :=
  cnt m fun i => defect sy i && decide (sPar i ≠ -1) && decide (rep i = x)

/-- the dict `cluster_forest` describes the trees of `_s_parents`: one record per root, with the
    right parity flag -/
structure FInv (m : Nat) (sy : Vec) (sPar : Nat → Int) (rep : Nat → Nat) (forest : List Cluster) : Prop where
  roots_iff : ∀ x, (∃ c, c ∈ forest ∧ c.root = x) ↔ sPar x = (x : Int)
  roots_nodup : (forest.map (·.root)).Nodup
  size_pos : ∀ c, c ∈ forest → 0 < c.size
  odd_ok : ∀ c, c ∈ forest → b2n c.odd = clsCnt m sy sPar rep c.root % 2
  defect_live : ∀ i, i < m → defect sy i = true → sPar i ≠ -1

theorem mem_eraseP_root (l : List Cluster) (rt : Nat) (hnd : (l.map (·.root)).Nodup) (c : Cluster) :
    c ∈ l.eraseP (fun k => decide (k.root = rt)) ↔ (c ∈ l ∧ c.root ≠ rt) := by
  induction l with
  | nil => simp
  | cons a l ih =>
    rw [List.map_cons, List.nodup_cons] at hnd
    by_cases ha : a.root = rt
    · rw [List.eraseP_cons_of_pos (by simp [ha])]
      constructor
      · intro hc
        refine ⟨by simp [hc], ?_⟩
        intro h
        exact hnd.1 (List.mem_map.mpr ⟨c, hc, by rw [h, ha]⟩)
      · rintro ⟨hc, hne⟩
        rcases List.mem_cons.mp hc with rfl | hc
        · exact absurd ha hne
        · exact hc
    · rw [List.eraseP_cons_of_neg (by simp [ha]), List.mem_cons, ih hnd.2, List.mem_cons]
      constructor
      · rintro (rfl | ⟨h1, h2⟩)
        · exact ⟨Or.inl rfl, ha⟩
        · exact ⟨Or.inr h1, h2⟩
      · rintro ⟨rfl | h1, h2⟩
        · exact Or.inl rfl
        · exact Or.inr ⟨h1, h2⟩

/-- records with equal roots in a dict are the same record -/
theorem eq_of_root_eq : ∀ (l : List Cluster), (l.map (·.root)).Nodup → ∀ a b, a ∈ l → b ∈ l →
    a.root = b.root → a = b := by
  intro l
  induction l with
  | nil => intro _ a b ha; simp at ha
  | cons x l ih =>
    intro hnd a b ha hb hab
    rw [List.map_cons, List.nodup_cons] at hnd
    rcases List.mem_cons.mp ha with ha | ha <;> rcases List.mem_cons.mp hb with hb | hb
    · rw [ha, hb]
    · exact absurd (List.mem_map.mpr ⟨b, hb, by rw [← hab, ha]⟩) hnd.1
    · exact absurd (List.mem_map.mpr ⟨a, ha, by rw [hab, hb]⟩) hnd.1
    · exact ih hnd.2 a b ha hb hab

/-- the dummy record `Clustering_Tree(s, self, odd=False)` -/
def dummy (s : Nat) : Cluster := ⟨s, 1, false, [hashS s]⟩

/-- invariant of `for s in s_l` after the prefix `pre` -/
structure MInv (m : Nat) (sy : Vec) (rep d : Nat → Nat) (sPar0 : Nat → Int) (forest0 : List Cluster)
    (pre : List Nat) (acc : MergeAcc) : Prop where
  uf : UFInv m acc.sPar rep d
  fresh_iff : ∀ i, acc.sPar i = -1 ↔ sPar0 i = -1
  root_iff : ∀ i, acc.sPar i = (i : Int) ↔ sPar0 i = (i : Int)
  bad : acc.bad = false
  f_sub : acc.forest.Sublist forest0
  f_mem : ∀ c, c ∈ acc.forest ↔ (c ∈ forest0 ∧ ¬ ∃ k, k ∈ acc.clusters ∧ k.root = c.root)
  cl_src : ∀ k, k ∈ acc.clusters →
    (k ∈ forest0 ∧ ∃ s, s ∈ pre ∧ sPar0 s ≠ -1 ∧ rep s = k.root) ∨
    (∃ s, s ∈ pre ∧ sPar0 s = -1 ∧ k = dummy s)
  cl_nodup : (acc.clusters.map (·.root)).Nodup
  cl_real : ∀ s, s ∈ pre → sPar0 s ≠ -1 → ∃ k, k ∈ acc.clusters ∧ k ∈ forest0 ∧ k.root = rep s
  cl_dummy : ∀ s, s ∈ pre → sPar0 s = -1 → dummy s ∈ acc.clusters
  big_some : ∀ b, acc.biggest = some b → b ∈ acc.clusters ∧ b ∈ forest0
  big_none : acc.biggest = none → acc.max = 0 ∧ ∀ k, k ∈ acc.clusters → sPar0 k.root = -1

section
variable {m : Nat} {sy : Vec} {rep d : Nat → Nat} {sPar0 : Nat → Int} {forest0 : List Cluster}

theorem MInv_init (U : UFInv m sPar0 rep d) :
    MInv m sy rep d sPar0 forest0 [] ⟨sPar0, forest0, [], none, 0, false⟩ := by
  refine ⟨U, fun _ => Iff.rfl, fun _ => Iff.rfl, rfl, List.Sublist.refl _, ?_, by simp, by simp,
    by simp, by simp, by simp, by simp⟩
  intro c; simp

/-- a cluster of the forest has a root as its root -/
theorem forest_root (F : FInv m sy sPar0 rep forest0) {c : Cluster} (hc : c ∈ forest0) :
    sPar0 c.root = (c.root : Int) := (F.roots_iff c.root).mp ⟨c, hc, rfl⟩

theorem MInv_step (U0 : UFInv m sPar0 rep d) (F : FInv m sy sPar0 rep forest0)
    {pre : List Nat} {acc : MergeAcc} (I : MInv m sy rep d sPar0 forest0 pre acc)
    {s : Nat} (hs : s ∉ pre) :
    MInv m sy rep d sPar0 forest0 (pre ++ [s]) (mergeStep m acc s) := by
  by_cases hfresh : acc.sPar s = -1
  · -- fresh stabilizer: dummy cluster
    have h0 := (I.fresh_iff s).mp hfresh
    have hstep : mergeStep m acc s =
        { acc with clusters := acc.clusters ++ [dummy s] } := by
      unfold mergeStep
      rw [findRoot_fresh m acc.sPar s hfresh]
      simp [I.bad, dummy]
    rw [hstep]
    have hnew : ∀ k, k ∈ acc.clusters → k.root ≠ s := by
      intro k hk heq
      rcases I.cl_src k hk with ⟨hkf, _⟩ | ⟨s', hs', _, rfl⟩
      · have := forest_root F hkf
        rw [heq, h0] at this; omega
      · exact hs (by simpa [dummy] using heq ▸ hs')
    refine ⟨I.uf, I.fresh_iff, I.root_iff, I.bad, I.f_sub, ?_, ?_, ?_, ?_, ?_, ?_, ?_⟩
    · intro c
      rw [I.f_mem]
      constructor
      · rintro ⟨h1, h2⟩
        refine ⟨h1, ?_⟩
        rintro ⟨k, hk, hkr⟩
        rcases List.mem_append.mp hk with hk | hk
        · exact h2 ⟨k, hk, hkr⟩
        · simp at hk; subst hk
          have := forest_root F h1
          rw [← hkr] at this; simp [dummy] at this; rw [h0] at this; omega
      · rintro ⟨h1, h2⟩
        exact ⟨h1, fun ⟨k, hk, hkr⟩ => h2 ⟨k, List.mem_append.mpr (Or.inl hk), hkr⟩⟩
    · intro k hk
      rcases List.mem_append.mp hk with hk | hk
      · rcases I.cl_src k hk with ⟨h1, s', hs', h2⟩ | ⟨s', hs', h2⟩
        · exact Or.inl ⟨h1, s', List.mem_append.mpr (Or.inl hs'), h2⟩
        · exact Or.inr ⟨s', List.mem_append.mpr (Or.inl hs'), h2⟩
      · simp at hk; subst hk
        exact Or.inr ⟨s, by simp, h0, rfl⟩
    · show ((acc.clusters ++ [dummy s]).map (·.root)).Nodup
      rw [List.map_append, List.nodup_append]
      refine ⟨I.cl_nodup, by simp, ?_⟩
      intro a ha b hb hab
      simp [dummy] at hb
      obtain ⟨k, hk, rfl⟩ := List.mem_map.mp ha
      exact hnew k hk (hab.trans hb)
    · intro s' hs' hlive
      rcases List.mem_append.mp hs' with h | h
      · obtain ⟨k, hk, h1, h2⟩ := I.cl_real s' h hlive
        exact ⟨k, List.mem_append.mpr (Or.inl hk), h1, h2⟩
      · simp at h; subst h; exact absurd h0 hlive
    · intro s' hs' hf
      rcases List.mem_append.mp hs' with h | h
      · exact List.mem_append.mpr (Or.inl (I.cl_dummy s' h hf))
      · simp at h; subst h; simp
    · intro b hb
      obtain ⟨h1, h2⟩ := I.big_some b hb
      exact ⟨List.mem_append.mpr (Or.inl h1), h2⟩
    · intro hb
      obtain ⟨h1, h2⟩ := I.big_none hb
      refine ⟨h1, ?_⟩
      intro k hk
      rcases List.mem_append.mp hk with hk | hk
      · exact h2 k hk
      · simp at hk; subst hk; simpa [dummy] using h0
  · -- stabilizer that already belongs to a tree
    have h0 : sPar0 s ≠ -1 := fun h => hfresh ((I.fresh_iff s).mpr h)
    obtain ⟨par', hfr, U', hf', hr', _⟩ := findRoot_spec I.uf hfresh
    have hrep_root : sPar0 (rep s) = (rep s : Int) := U0.rep_root s h0
    obtain ⟨c0, hc0, hc0r⟩ := (F.roots_iff (rep s)).mpr hrep_root
    have hne1 : ¬ ((rep s : Int) = -1) := by omega
    have htn : ((rep s : Int)).toNat = rep s := by omega
    have hfi : ∀ i, par' i = -1 ↔ sPar0 i = -1 := fun i => (hf' i).trans (I.fresh_iff i)
    have hri : ∀ i, par' i = (i : Int) ↔ sPar0 i = (i : Int) := fun i => (hr' i).trans (I.root_iff i)
    cases hfind : acc.forest.find? (fun c => decide (c.root = rep s)) with
    | none =>
      -- "have popped"
      have hstep : mergeStep m acc s = { acc with sPar := par' } := by
        unfold mergeStep
        rw [hfr]
        simp only [hne1, if_false, htn, hfind]
      rw [hstep]
      have hpopped : ∃ k, k ∈ acc.clusters ∧ k.root = rep s := by
        by_contra hno
        have : c0 ∈ acc.forest := (I.f_mem c0).mpr ⟨hc0, by rw [hc0r]; exact hno⟩
        have := List.find?_eq_none.mp hfind c0 this
        simp [hc0r] at this
      refine ⟨U', hfi, hri, I.bad, I.f_sub, I.f_mem, ?_, I.cl_nodup, ?_, ?_, I.big_some, I.big_none⟩
      · intro k hk
        rcases I.cl_src k hk with ⟨h1, s', hs', h2⟩ | ⟨s', hs', h2⟩
        · exact Or.inl ⟨h1, s', List.mem_append.mpr (Or.inl hs'), h2⟩
        · exact Or.inr ⟨s', List.mem_append.mpr (Or.inl hs'), h2⟩
      · intro s' hs' hlive
        rcases List.mem_append.mp hs' with h | h
        · exact I.cl_real s' h hlive
        · simp at h; subst h
          obtain ⟨k, hk, hkr⟩ := hpopped
          rcases I.cl_src k hk with ⟨h1, _⟩ | ⟨s'', _, hs''f, rfl⟩
          · exact ⟨k, hk, h1, hkr⟩
          · simp [dummy] at hkr
            rw [hkr, hrep_root] at hs''f; omega
      · intro s' hs' hf
        rcases List.mem_append.mp hs' with h | h
        · exact I.cl_dummy s' h hf
        · simp at h; subst h; exact absurd hf h0
    | some c =>
      have hcmem : c ∈ acc.forest := List.mem_of_find?_eq_some hfind
      have hcroot : c.root = rep s := by
        have := List.find?_some hfind; simpa using this
      have hcf0 := ((I.f_mem c).mp hcmem).1
      have hcnew := ((I.f_mem c).mp hcmem).2
      have hstep : mergeStep m acc s =
          { acc with sPar := par',
                     forest := acc.forest.eraseP (fun c => decide (c.root = rep s)),
                     clusters := acc.clusters ++ [c],
                     biggest := if c.size > acc.max then some c else acc.biggest,
                     max := if c.size > acc.max then c.size else acc.max } := by
        unfold mergeStep
        rw [hfr]
        simp only [hne1, if_false, htn, hfind]
      rw [hstep]
      have hfnd : (acc.forest.map (·.root)).Nodup := (I.f_sub.map _).nodup F.roots_nodup
      refine ⟨U', hfi, hri, I.bad, (List.eraseP_sublist).trans I.f_sub, ?_, ?_, ?_, ?_, ?_, ?_, ?_⟩
      · intro c'
        show c' ∈ acc.forest.eraseP _ ↔ _
        rw [mem_eraseP_root acc.forest (rep s) hfnd, I.f_mem]
        constructor
        · rintro ⟨⟨h1, h2⟩, h3⟩
          refine ⟨h1, ?_⟩
          rintro ⟨k, hk, hkr⟩
          rcases List.mem_append.mp hk with hk | hk
          · exact h2 ⟨k, hk, hkr⟩
          · simp at hk; subst hk; exact h3 (hkr.symm.trans hcroot)
        · rintro ⟨h1, h2⟩
          refine ⟨⟨h1, fun ⟨k, hk, hkr⟩ => h2 ⟨k, List.mem_append.mpr (Or.inl hk), hkr⟩⟩, ?_⟩
          intro h3
          exact h2 ⟨c, by simp, hcroot.trans h3.symm⟩
      · intro k hk
        rcases List.mem_append.mp hk with hk | hk
        · rcases I.cl_src k hk with ⟨h1, s', hs', h2⟩ | ⟨s', hs', h2⟩
          · exact Or.inl ⟨h1, s', List.mem_append.mpr (Or.inl hs'), h2⟩
          · exact Or.inr ⟨s', List.mem_append.mpr (Or.inl hs'), h2⟩
        · simp at hk; subst hk
          exact Or.inl ⟨hcf0, s, by simp, h0, hcroot.symm⟩
      · show ((acc.clusters ++ [c]).map (·.root)).Nodup
        rw [List.map_append, List.nodup_append]
        refine ⟨I.cl_nodup, by simp, ?_⟩
        intro a ha b hb hab
        simp at hb
        obtain ⟨k, hk, rfl⟩ := List.mem_map.mp ha
        exact hcnew ⟨k, hk, hab.trans hb⟩
      · intro s' hs' hlive
        rcases List.mem_append.mp hs' with h | h
        · obtain ⟨k, hk, h1, h2⟩ := I.cl_real s' h hlive
          exact ⟨k, List.mem_append.mpr (Or.inl hk), h1, h2⟩
        · simp at h; subst h
          exact ⟨c, by simp, hcf0, hcroot⟩
      · intro s' hs' hf
        rcases List.mem_append.mp hs' with h | h
        · exact List.mem_append.mpr (Or.inl (I.cl_dummy s' h hf))
        · simp at h; subst h; exact absurd hf h0
      · intro b hb
        show b ∈ acc.clusters ++ [c] ∧ _
        by_cases hgt : c.size > acc.max
        · simp only [hgt, if_true, Option.some.injEq] at hb
          subst hb; exact ⟨by simp, hcf0⟩
        · simp only [hgt, if_false] at hb
          obtain ⟨h1, h2⟩ := I.big_some b hb
          exact ⟨List.mem_append.mpr (Or.inl h1), h2⟩
      · intro hb
        exfalso
        by_cases hgt : c.size > acc.max
        · simp [hgt] at hb
        · simp only [hgt, if_false] at hb
          have := (I.big_none hb).1
          have := F.size_pos c hcf0
          omega

/-- the whole loop `for s in s_l` -/
theorem MInv_fold (U0 : UFInv m sPar0 rep d) (F : FInv m sy sPar0 rep forest0) :
    ∀ (ss pre : List Nat) (acc : MergeAcc), MInv m sy rep d sPar0 forest0 pre acc →
      (pre ++ ss).Nodup → MInv m sy rep d sPar0 forest0 (pre ++ ss) (ss.foldl (mergeStep m) acc) := by
  intro ss
  induction ss with
  | nil => intro pre acc I _; simpa using I
  | cons s ss ih =>
    intro pre acc I hnd
    have hs : s ∉ pre := by
      intro h
      rw [List.nodup_append] at hnd
      exact hnd.2.2 s h s (by simp) rfl
    have := ih (pre ++ [s]) (mergeStep m acc s) (MInv_step U0 F I hs) (by simpa using hnd)
    simpa using this

end

end Panqec.UF
