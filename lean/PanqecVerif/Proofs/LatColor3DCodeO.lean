/-
Color3DCode, even sides `≥ 2`: every key of every logical operator is a qubit; `Lattice.WF` and
`Lattice.CommPair`.  Core Lean only.
-/
import PanqecVerif.Proofs.LatColor3DCodeN

set_option linter.unusedVariables false
set_option linter.unusedSectionVars false

namespace Panqec.Color3DCode
open Panqec.Lat2D Panqec.Color

theorem isQ_of {Lx Ly Lz : Nat} {a b c : Int} (hb : InBox Lx Ly Lz a b c)
    (h : (a % 2 = 1 ∧ b % 2 = 0 ∧ c % 2 = 0 ∧ (b - c) % 4 = 2) ∨
         (b % 2 = 1 ∧ a % 2 = 0 ∧ c % 2 = 0 ∧ (a - c) % 4 = 2) ∨
         (c % 2 = 1 ∧ a % 2 = 0 ∧ b % 2 = 0 ∧ (a - b) % 4 = 2)) : IsQ Lx Ly Lz a b c := by
  unfold InBox at hb
  unfold IsQ patR
  simp only [Bool.or_eq_true, Bool.and_eq_true, beq_iff_eq]
  omega

section
variable {Lx Ly Lz : Nat} (hx : 2 ≤ Lx) (hy : 2 ≤ Ly) (hz : 2 ≤ Lz) (ex : Lx % 2 = 0)
  (ey : Ly % 2 = 0) (ez : Lz % 2 = 0)
include hx hy hz ex ey ez

theorem sub_kZ1 : ∀ q ∈ kZ1 Lx Ly Lz, q ∈ qubits Lx Ly Lz := by
  intro q hq
  unfold kZ1 at hq
  obtain ⟨p, r, rfl, h⟩ := (mem_membraneA (by omega) (by omega)).mp hq
  unfold PlanePat at h
  exact (mem_qubits' hx hy hz).mpr (isQ_of (by unfold InBox; omega) (by omega))
theorem sub_kZ2 : ∀ q ∈ kZ2 Lx Ly Lz, q ∈ qubits Lx Ly Lz := by
  intro q hq
  unfold kZ2 at hq
  obtain ⟨p, r, rfl, h⟩ := (mem_membraneC (by omega) (by omega)).mp hq
  unfold PlanePat at h
  exact (mem_qubits' hx hy hz).mpr (isQ_of (by unfold InBox; omega) (by omega))
theorem sub_kZ4 : ∀ q ∈ kZ4 Lx Ly Lz, q ∈ qubits Lx Ly Lz := by
  intro q hq
  unfold kZ4 at hq
  obtain ⟨p, r, rfl, h⟩ := (mem_membraneA (by omega) (by omega)).mp hq
  unfold PlanePat at h
  exact (mem_qubits' hx hy hz).mpr (isQ_of (by unfold InBox; omega) (by omega))
theorem sub_kZ5 : ∀ q ∈ kZ5 Lx Ly Lz, q ∈ qubits Lx Ly Lz := by
  intro q hq
  unfold kZ5 at hq
  obtain ⟨p, r, rfl, h⟩ := (mem_membraneC (by omega) (by omega)).mp hq
  unfold PlanePat at h
  exact (mem_qubits' hx hy hz).mpr (isQ_of (by unfold InBox; omega) (by omega))
theorem sub_kZ7 : ∀ q ∈ kZ7 Lx Ly Lz, q ∈ qubits Lx Ly Lz := by
  intro q hq
  unfold kZ7 at hq
  obtain ⟨p, r, rfl, h⟩ := (mem_membraneA (by omega) (by omega)).mp hq
  unfold PlanePat at h
  exact (mem_qubits' hx hy hz).mpr (isQ_of (by unfold InBox; omega) (by omega))
theorem sub_kZ8 : ∀ q ∈ kZ8 Lx Ly Lz, q ∈ qubits Lx Ly Lz := by
  intro q hq
  unfold kZ8 at hq
  obtain ⟨p, r, rfl, h⟩ := (mem_membraneC (by omega) (by omega)).mp hq
  unfold PlanePat at h
  exact (mem_qubits' hx hy hz).mpr (isQ_of (by unfold InBox; omega) (by omega))

theorem sub_kZ3 : ∀ q ∈ kZ3 Lx Ly Lz, q ∈ qubits Lx Ly Lz := by
  intro q hq
  obtain ⟨y, z, h1, h2, _, hk⟩ := (mem_kZ3 hx hy hz ex ey ez).mp hq
  unfold InH at h1 h2
  exact (mem_qubits hx hy hz).mpr (isQ_of_key (by omega) (by omega) (by omega) (by omega) hk)
theorem sub_kZ6 : ∀ q ∈ kZ6 Lx Ly Lz, q ∈ qubits Lx Ly Lz := by
  intro q hq
  obtain ⟨y, z, h1, h2, _, hk⟩ := (mem_kZ6 hx hy hz ex ey ez).mp hq
  unfold InH at h1 h2
  exact (mem_qubits hx hy hz).mpr (isQ_of_key (by omega) (by omega) (by omega) (by omega) hk)
theorem sub_kZ9 : ∀ q ∈ kZ9 Lx Ly Lz, q ∈ qubits Lx Ly Lz := by
  intro q hq
  obtain ⟨y, z, h1, h2, _, hk⟩ := (mem_kZ9 hx hy hz ex ey ez).mp hq
  unfold InH at h1 h2
  exact (mem_qubits hx hy hz).mpr (isQ_of_key (by omega) (by omega) (by omega) (by omega) hk)

theorem sub_kX1 : ∀ q ∈ kX1 Lx Ly Lz, q ∈ qubits Lx Ly Lz := by
  intro q hq
  unfold kX1 at hq
  obtain ⟨p, w, rfl, h⟩ := (mem_stringA hx ex).mp hq
  unfold PatA at h
  exact (mem_qubits' hx hy hz).mpr (isQ_of (by unfold InBox; omega) (by omega))
theorem sub_kX2 : ∀ q ∈ kX2 Lx Ly Lz, q ∈ qubits Lx Ly Lz := by
  intro q hq
  unfold kX2 at hq
  obtain ⟨p, w, rfl, h⟩ := (mem_stringB hx ex).mp hq
  unfold PatB at h
  exact (mem_qubits' hx hy hz).mpr (isQ_of (by unfold InBox; omega) (by omega))
theorem sub_kX3 : ∀ q ∈ kX3 Lx Ly Lz, q ∈ qubits Lx Ly Lz := by
  intro q hq
  unfold kX3 at hq
  obtain ⟨p, rfl, h⟩ := mem_stringC.mp hq
  unfold PatC at h
  exact (mem_qubits' hx hy hz).mpr (isQ_of (by unfold InBox; omega) (by omega))
theorem sub_kX4 : ∀ q ∈ kX4 Lx Ly Lz, q ∈ qubits Lx Ly Lz := by
  intro q hq
  unfold kX4 at hq
  obtain ⟨p, w, rfl, h⟩ := (mem_stringA hy ey).mp hq
  unfold PatA at h
  exact (mem_qubits' hx hy hz).mpr (isQ_of (by unfold InBox; omega) (by omega))
theorem sub_kX5 : ∀ q ∈ kX5 Lx Ly Lz, q ∈ qubits Lx Ly Lz := by
  intro q hq
  unfold kX5 at hq
  obtain ⟨p, w, rfl, h⟩ := (mem_stringB hy ey).mp hq
  unfold PatB at h
  exact (mem_qubits' hx hy hz).mpr (isQ_of (by unfold InBox; omega) (by omega))
theorem sub_kX6 : ∀ q ∈ kX6 Lx Ly Lz, q ∈ qubits Lx Ly Lz := by
  intro q hq
  unfold kX6 at hq
  obtain ⟨p, rfl, h⟩ := mem_stringC.mp hq
  unfold PatC at h
  exact (mem_qubits' hx hy hz).mpr (isQ_of (by unfold InBox; omega) (by omega))
theorem sub_kX7 : ∀ q ∈ kX7 Lx Ly Lz, q ∈ qubits Lx Ly Lz := by
  intro q hq
  unfold kX7 at hq
  obtain ⟨p, w, rfl, h⟩ := (mem_stringA hz ez).mp hq
  unfold PatA at h
  exact (mem_qubits' hx hy hz).mpr (isQ_of (by unfold InBox; omega) (by omega))
theorem sub_kX8 : ∀ q ∈ kX8 Lx Ly Lz, q ∈ qubits Lx Ly Lz := by
  intro q hq
  unfold kX8 at hq
  obtain ⟨p, w, rfl, h⟩ := (mem_stringB hz ez).mp hq
  unfold PatB at h
  exact (mem_qubits' hx hy hz).mpr (isQ_of (by unfold InBox; omega) (by omega))
theorem sub_kX9 : ∀ q ∈ kX9 Lx Ly Lz, q ∈ qubits Lx Ly Lz := by
  intro q hq
  unfold kX9 at hq
  obtain ⟨p, rfl, h⟩ := mem_stringC.mp hq
  unfold PatC at h
  exact (mem_qubits' hx hy hz).mpr (isQ_of (by unfold InBox; omega) (by omega))

omit hx hy hz ex ey ez in
theorem lineOp_supported {K : List Coord} {P : Pauli} {Q : List Coord} (hP : P ≠ Pauli.I)
    (h : ∀ q ∈ K, q ∈ Q) : ∀ e ∈ lineOp K P, e.1 ∈ Q ∧ e.2 ≠ Pauli.I := by
  intro e he
  rw [lineOp_firstOcc] at he
  obtain ⟨q, hq, rfl⟩ := List.mem_map.mp he
  exact ⟨h q (mem_firstOcc.mp hq), hP⟩

omit hx hy hz ex ey ez in
theorem lineOp_keys_nodup (K : List Coord) (P : Pauli) : ((lineOp K P).map Prod.fst).Nodup := by
  rw [lineOp_firstOcc, map_fst_const]; exact nodup_firstOcc K

theorem wf_all : (lattice Lx Ly Lz).WF where
  qubits_nodup := nodup_qubits Lx Ly Lz
  stabs_nodup := nodup_stabs Lx Ly Lz
  disjoint := qubits_stabs_disjoint hx hy hz
  stab_keys := by
    intro s hs
    obtain ⟨x, y, z, rfl, _⟩ := mem_stabs.mp hs
    rw [getStab_eq hx hy hz hs, map_fst_const]
    exact nodup_keysOf hx hy hz x y z
  stab_supported := by
    intro s hs e he
    obtain ⟨x, y, z, rfl, hS⟩ := mem_stabs.mp hs
    rw [getStab_eq hx hy hz hs] at he
    obtain ⟨q, hq, rfl⟩ := List.mem_map.mp he
    exact ⟨(mem_qubits hx hy hz).mpr (isQ_of_key (by omega) (by omega) (by omega) (isS_parity hS) hq),
      letterOf_ne_I x y z⟩
  stab_nonempty := by
    intro s hs
    obtain ⟨x, y, z, rfl, _⟩ := mem_stabs.mp hs
    rw [getStab_eq hx hy hz hs]
    intro h
    exact keys_ne_nil Lx Ly Lz x y z (List.map_eq_nil_iff.mp h)
  log_keys := by
    intro a ha
    have ha' : a ∈ logX Lx Ly Lz ++ logZ Lx Ly Lz := ha
    rw [logX_eq, logZ_eq] at ha'
    simp only [List.mem_append, List.mem_cons, List.not_mem_nil, or_false] at ha'
    rcases ha' with (rfl | rfl | rfl | rfl | rfl | rfl | rfl | rfl | rfl) |
      (rfl | rfl | rfl | rfl | rfl | rfl | rfl | rfl | rfl) <;> exact lineOp_keys_nodup _ _
  log_supported := by
    intro a ha
    have ha' : a ∈ logX Lx Ly Lz ++ logZ Lx Ly Lz := ha
    rw [logX_eq, logZ_eq] at ha'
    simp only [List.mem_append, List.mem_cons, List.not_mem_nil, or_false] at ha'
    rcases ha' with (rfl | rfl | rfl | rfl | rfl | rfl | rfl | rfl | rfl) |
      (rfl | rfl | rfl | rfl | rfl | rfl | rfl | rfl | rfl)
    · exact lineOp_supported (by decide) (sub_kX1 hx hy hz ex ey ez)
    · exact lineOp_supported (by decide) (sub_kX2 hx hy hz ex ey ez)
    · exact lineOp_supported (by decide) (sub_kX3 hx hy hz ex ey ez)
    · exact lineOp_supported (by decide) (sub_kX4 hx hy hz ex ey ez)
    · exact lineOp_supported (by decide) (sub_kX5 hx hy hz ex ey ez)
    · exact lineOp_supported (by decide) (sub_kX6 hx hy hz ex ey ez)
    · exact lineOp_supported (by decide) (sub_kX7 hx hy hz ex ey ez)
    · exact lineOp_supported (by decide) (sub_kX8 hx hy hz ex ey ez)
    · exact lineOp_supported (by decide) (sub_kX9 hx hy hz ex ey ez)
    · exact lineOp_supported (by decide) (sub_kZ1 hx hy hz ex ey ez)
    · exact lineOp_supported (by decide) (sub_kZ2 hx hy hz ex ey ez)
    · exact lineOp_supported (by decide) (sub_kZ3 hx hy hz ex ey ez)
    · exact lineOp_supported (by decide) (sub_kZ4 hx hy hz ex ey ez)
    · exact lineOp_supported (by decide) (sub_kZ5 hx hy hz ex ey ez)
    · exact lineOp_supported (by decide) (sub_kZ6 hx hy hz ex ey ez)
    · exact lineOp_supported (by decide) (sub_kZ7 hx hy hz ex ey ez)
    · exact lineOp_supported (by decide) (sub_kZ8 hx hy hz ex ey ez)
    · exact lineOp_supported (by decide) (sub_kZ9 hx hy hz ex ey ez)

end

end Panqec.Color3DCode
