/-
`HollowRhombicCode`, rank clause, part A: which triangles are listed, in geometric form.  At a
vertex of the lattice the triangle `(a, x, y, z)` is listed iff neither the vertex nor one of its
three legs lies in the hole and its y leg does not point out of the lattice (`PT`); a listed
triangle has its x and y keys, and its z key unless that leg points out of the faces `z = 0`,
`z = 2Lz − 2`.  The Boolean tests of the model (`presB`, `selTri`) in propositional form.
Core Lean only.
-/
import PanqecVerif.Proofs.LatHollowRhombicCodeE

set_option linter.unusedVariables false
set_option linter.unusedSimpArgs false

namespace Panqec.HollowRhombicCode
open Panqec.Cubic3D
open Panqec.Planar3DCode (inE inO inE2 inO1)

theorem rsX_eq (a : Int) : rsX a = sgnX a := rfl
theorem rsY_eq (a : Int) : rsY a = sgnY a := rfl
theorem rsZ_eq (a x y z : Int) : rsZ a x y z = sgnZ a x y z := rfl

/-- the triangle `(a, x, y, z)` is listed (geometric form, at a vertex of the lattice) -/
def PT (Lx Ly Lz : Nat) (a x y z : Int) : Prop :=
  ¬ Hole Lx Ly Lz x y z ∧ ¬ Hole Lx Ly Lz (x + sgnX a) y z ∧ ¬ Hole Lx Ly Lz x (y + sgnY a) z ∧
  ¬ Hole Lx Ly Lz x y (z + sgnZ a x y z) ∧ 1 ≤ y + sgnY a ∧ y + sgnY a ≤ 2 * (Ly : Int) - 3

instance (Lx Ly Lz : Nat) (a x y z : Int) : Decidable (PT Lx Ly Lz a x y z) := by
  unfold PT; infer_instance

theorem presB_iff {Lx Ly Lz : Nat} {a x y z : Int} :
    presB Lx Ly Lz a x y z = true ↔ PT Lx Ly Lz a x y z := by
  unfold presB PT
  simp only [Bool.and_eq_true, Bool.not_eq_true', inHole_false_iff, decide_eq_true_eq, and_assoc]
  simp only [rsX_eq, rsY_eq, rsZ_eq]

theorem presB_false_iff {Lx Ly Lz : Nat} {a x y z : Int} :
    presB Lx Ly Lz a x y z = false ↔ ¬ PT Lx Ly Lz a x y z := by
  rw [← presB_iff]; simp

section
variable {Lx Ly Lz : Nat} {a x y z : Int}

theorem tx_iff (hv : VertexLoc Lx Ly Lz x y z) :
    TX Lx Ly Lz a x y z ↔ ¬ Hole Lx Ly Lz (x + sgnX a) y z := by
  unfold VertexLoc inE2 inE at hv
  unfold TX Qx
  rcases sgnX_cases a with h | h <;> rw [h] <;> constructor
  · exact fun h => h.2.2.2.2.2.2
  · exact fun h => ⟨by omega, by omega, by omega, by omega, by omega, by omega, h⟩
  · exact fun h => h.2.2.2.2.2.2
  · exact fun h => ⟨by omega, by omega, by omega, by omega, by omega, by omega, h⟩

theorem ty_iff (hv : VertexLoc Lx Ly Lz x y z) :
    TY Lx Ly Lz a x y z ↔ (1 ≤ y + sgnY a ∧ y + sgnY a ≤ 2 * (Ly : Int) - 3 ∧
      ¬ Hole Lx Ly Lz x (y + sgnY a) z) := by
  unfold VertexLoc inE2 inE at hv
  unfold TY Qy
  constructor
  · intro h
    have hp : (y + sgnY a) % 2 = 1 := by rcases sgnY_cases a with e | e <;> omega
    exact ⟨h.2.2.1, by omega, h.2.2.2.2.2.2⟩
  · intro h
    exact ⟨by omega, by omega, by omega, by omega, by omega, by omega, h.2.2⟩

theorem tz_iff (hv : VertexLoc Lx Ly Lz x y z) :
    TZ Lx Ly Lz a x y z ↔ (1 ≤ z + sgnZ a x y z ∧ z + sgnZ a x y z ≤ 2 * (Lz : Int) - 3 ∧
      ¬ Hole Lx Ly Lz x y (z + sgnZ a x y z)) := by
  unfold VertexLoc inE2 inE at hv
  unfold TZ Qz
  constructor
  · intro h
    have hp : (z + sgnZ a x y z) % 2 = 1 := by rcases sgnZ_cases a x y z with e | e <;> omega
    exact ⟨h.2.2.2.2.1, by omega, h.2.2.2.2.2.2⟩
  · intro h
    exact ⟨by omega, by omega, by omega, by omega, by omega, by omega, h.2.2⟩

/-- a leg that points out of the faces `z = 0`, `z = 2Lz − 2` is not in the hole -/
theorem hole_z_range (h : Hole Lx Ly Lz x y z) : 1 ≤ z ∧ z ≤ 2 * (Lz : Int) - 3 := by
  unfold Hole at h; omega

/-- listed ⇒ geometric form -/
theorem pt_of_keep (hv : VertexLoc Lx Ly Lz x y z)
    (hk : TriKeep Lx Ly Lz (TX Lx Ly Lz a x y z) (TY Lx Ly Lz a x y z) (TZ Lx Ly Lz a x y z) x y z) :
    PT Lx Ly Lz a x y z := by
  have hxy := keep_xy hv (sgnX_cases a) (sgnY_cases a) (sgnZ_cases a x y z) hk
  have hyz := fun hc => keep_yz hv (sgnX_cases a) (sgnY_cases a) (sgnZ_cases a x y z) hc hk
  obtain ⟨h2, _, h4⟩ := hk
  have htx : TX Lx Ly Lz a x y z := by
    rcases h2 with h | h | h
    · exact h.1
    · exact h.1
    · exact hxy.mpr h.1
  have hty : TY Lx Ly Lz a x y z := hxy.mp htx
  have h1 := (tx_iff hv).mp htx
  have h3 := (ty_iff hv).mp hty
  refine ⟨h4, h1, h3.2.2, ?_, h3.1, h3.2.1⟩
  by_cases hc : 1 ≤ z + sgnZ a x y z ∧ z + sgnZ a x y z < 2 * (Lz : Int) - 1
  · exact ((tz_iff hv).mp ((hyz hc).mp hty)).2.2
  · intro hh
    have := hole_z_range hh
    omega

/-- geometric form ⇒ listed -/
theorem keep_of_pt (hv : VertexLoc Lx Ly Lz x y z) (h : PT Lx Ly Lz a x y z) :
    TriKeep Lx Ly Lz (TX Lx Ly Lz a x y z) (TY Lx Ly Lz a x y z) (TZ Lx Ly Lz a x y z) x y z := by
  obtain ⟨h0, h1, h2, h3, h4, h5⟩ := h
  have htx : TX Lx Ly Lz a x y z := (tx_iff hv).mpr h1
  have hty : TY Lx Ly Lz a x y z := (ty_iff hv).mpr ⟨h4, h5, h2⟩
  refine ⟨Or.inl ⟨htx, hty⟩, ?_, h0⟩
  rintro ⟨_, hn, hc⟩
  by_cases htz : TZ Lx Ly Lz a x y z
  · exact hn ⟨htx, hty, htz⟩
  · rcases hc with hc | hc
    · apply hc
      have : ¬ (1 ≤ z + sgnZ a x y z ∧ z + sgnZ a x y z ≤ 2 * (Lz : Int) - 3) :=
        fun hr => htz ((tz_iff hv).mpr ⟨hr.1, hr.2, h3⟩)
      unfold VertexLoc inE2 inE at hv
      unfold EB
      rcases sgnZ_cases a x y z with e | e <;> omega
    · exact htz hc.2.1

/-- a triangle location at a vertex of the lattice is listed iff `PT` -/
theorem mem_triangles_iff (ha : 0 ≤ a ∧ a < 4) (hv : VertexLoc Lx Ly Lz x y z) :
    [a, x, y, z] ∈ triangles Lx Ly Lz ↔ PT Lx Ly Lz a x y z := by
  rw [mem_triangles]
  constructor
  · rintro ⟨a', x', y', z', e, _, _, _, _, hk⟩
    simp only [List.cons.injEq, and_true] at e
    obtain ⟨rfl, rfl, rfl, rfl⟩ := e
    exact pt_of_keep hv hk
  · intro h
    exact ⟨a, x, y, z, rfl, ha, hv.1, hv.2.1, hv.2.2, keep_of_pt hv h⟩

/-- the members of the triangle list -/
theorem mem_triangles' {s : Coord} :
    s ∈ triangles Lx Ly Lz ↔ ∃ a x y z, s = [a, x, y, z] ∧ (0 ≤ a ∧ a < 4) ∧
      VertexLoc Lx Ly Lz x y z ∧ PT Lx Ly Lz a x y z := by
  constructor
  · intro h
    obtain ⟨a, x, y, z, rfl, ha, hx, hy, hz, hk⟩ := mem_triangles.mp h
    exact ⟨a, x, y, z, rfl, ha, ⟨hx, hy, hz⟩, pt_of_keep ⟨hx, hy, hz⟩ hk⟩
  · rintro ⟨a, x, y, z, rfl, ha, hv, h⟩
    exact (mem_triangles_iff ha hv).mpr h

/-- the keys of a listed triangle -/
theorem triKeys_pt (hv : VertexLoc Lx Ly Lz x y z) (h : PT Lx Ly Lz a x y z) :
    triKeys Lx Ly Lz a x y z = [[x + sgnX a, y, z], [x, y + sgnY a, z]] ++
      (if TZ Lx Ly Lz a x y z then [[x, y, z + sgnZ a x y z]] else []) := by
  have hv' := hv
  unfold VertexLoc inE2 inE at hv'
  rw [triKeys_eq hv'.1.2.2 hv'.2.1.2.2 hv'.2.2.2.2,
    if_pos ((tx_iff hv).mpr h.2.1), if_pos ((ty_iff hv).mpr ⟨h.2.2.2.2.1, h.2.2.2.2.2, h.2.2.1⟩)]
  rfl

end

end Panqec.HollowRhombicCode
