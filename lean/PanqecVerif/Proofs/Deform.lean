/-
Helper lemmas for C08: the per-qubit relabelling `deformBsf` on BSF vectors
(symplectic form, GF(2)-linearity, invertibility, validity / syndrome / logical effect
of the relabelled code).  Core Lean only.

Everything lives in namespace `Panqec.Deform`; the property theorems are restated in
`Properties/C08.lean`.
-/
import PanqecVerif.Model.Code
import PanqecVerif.Model.Deform
import PanqecVerif.Proofs.Bits
import PanqecVerif.Proofs.ValidCode

namespace Panqec.Deform

open Panqec

/-! ### single letters -/

/-- 1 iff the two letters anticommute -/
def acomm (p q : Pauli) : Nat := (p.xBit * q.zBit + p.zBit * q.xBit) % 2

/-- product of two letters up to phase -/
def pmul (p q : Pauli) : Pauli := Pauli.ofBits (p.xBit + q.xBit) (p.zBit + q.zBit)

/-- number of positions where the letters anticommute -/
def acommCount : List Pauli → List Pauli → Nat
  | p :: ps, q :: qs => acomm p q + acommCount ps qs
  | _, _ => 0

/-- a permutation of {X,Y,Z} preserves (anti)commutation of letters -/
theorem acomm_apply (D : PauliMap) (h : D.isPerm = true) (p q : Pauli) :
    acomm (D.apply p) (D.apply q) = acomm p q := by
  rcases D with ⟨x, y, z⟩
  cases x <;> cases y <;> cases z <;>
    first
    | exact absurd h (by decide)
    | (cases p <;> cases q <;> rfl)

/-- a permutation of {X,Y,Z} fixing I is multiplicative (= GF(2)-linear on the bits) -/
theorem apply_pmul (D : PauliMap) (h : D.isPerm = true) (p q : Pauli) :
    D.apply (pmul p q) = pmul (D.apply p) (D.apply q) := by
  rcases D with ⟨x, y, z⟩
  cases x <;> cases y <;> cases z <;>
    first
    | exact absurd h (by decide)
    | (cases p <;> cases q <;> rfl)

theorem inv_isPerm (D : PauliMap) (h : D.isPerm = true) : D.inv.isPerm = true := by
  rcases D with ⟨x, y, z⟩
  cases x <;> cases y <;> cases z <;>
    first
    | exact absurd h (by decide)
    | rfl

theorem inv_apply (D : PauliMap) (h : D.isPerm = true) (p : Pauli) :
    D.inv.apply (D.apply p) = p := by
  rcases D with ⟨x, y, z⟩
  cases x <;> cases y <;> cases z <;>
    first
    | exact absurd h (by decide)
    | (cases p <;> rfl)

theorem apply_inv (D : PauliMap) (h : D.isPerm = true) (p : Pauli) :
    D.apply (D.inv.apply p) = p := by
  rcases D with ⟨x, y, z⟩
  cases x <;> cases y <;> cases z <;>
    first
    | exact absurd h (by decide)
    | (cases p <;> rfl)

theorem inv_inv (D : PauliMap) (h : D.isPerm = true) : D.inv.inv = D := by
  rcases D with ⟨x, y, z⟩
  cases x <;> cases y <;> cases z <;>
    first
    | exact absurd h (by decide)
    | rfl

theorem id_isPerm : PauliMap.id.isPerm = true := by decide
theorem swapXZ_isPerm : PauliMap.swapXZ.isPerm = true := by decide
theorem swapYZ_isPerm : PauliMap.swapYZ.isPerm = true := by decide

theorem xBit_lt_two (p : Pauli) : p.xBit < 2 := by cases p <;> simp [Pauli.xBit]
theorem zBit_lt_two (p : Pauli) : p.zBit < 2 := by cases p <;> simp [Pauli.zBit]

theorem ofBits_xBit (x z : Nat) : (Pauli.ofBits x z).xBit = x % 2 := by
  unfold Pauli.ofBits
  split <;> split <;> simp [Pauli.xBit] <;> omega

theorem ofBits_zBit (x z : Nat) : (Pauli.ofBits x z).zBit = z % 2 := by
  unfold Pauli.ofBits
  split <;> split <;> simp [Pauli.zBit] <;> omega

theorem ofBits_congr {x z x' z' : Nat} (hx : x % 2 = x' % 2) (hz : z % 2 = z' % 2) :
    Pauli.ofBits x z = Pauli.ofBits x' z' := by
  unfold Pauli.ofBits
  rw [hx, hz]

theorem ofBits_mod (x z : Nat) : Pauli.ofBits (x % 2) (z % 2) = Pauli.ofBits x z :=
  ofBits_congr (by omega) (by omega)

theorem pmul_xBit (p q : Pauli) : (pmul p q).xBit = (p.xBit + q.xBit) % 2 := ofBits_xBit _ _
theorem pmul_zBit (p q : Pauli) : (pmul p q).zBit = (p.zBit + q.zBit) % 2 := ofBits_zBit _ _

theorem ofBits_vxor (x x' z z' : Nat) :
    Pauli.ofBits ((x + x') % 2) ((z + z') % 2) =
      pmul (Pauli.ofBits x z) (Pauli.ofBits x' z') := by
  unfold pmul
  rw [ofBits_xBit, ofBits_xBit, ofBits_zBit, ofBits_zBit]
  exact ofBits_congr (by omega) (by omega)

/-! ### the symplectic form counts anticommuting positions -/

theorem dot_bits_acommCount : ∀ ps qs : List Pauli,
    (dot (ps.map Pauli.xBit) (qs.map Pauli.zBit) +
      dot (ps.map Pauli.zBit) (qs.map Pauli.xBit)) % 2 = acommCount ps qs % 2
  | [], qs => by simp [dot, acommCount]
  | p :: ps, [] => by simp [dot_nil_right, acommCount]
  | p :: ps, q :: qs => by
    have ih := dot_bits_acommCount ps qs
    simp only [List.map_cons, dot_cons, acommCount, acomm]
    omega

/-- `symp` of two Pauli strings is the parity of the number of positions where the two
    letters anticommute -/
theorem symp_pauliToBsf (ps qs : List Pauli) :
    symp (pauliToBsf ps) (pauliToBsf qs) = acommCount ps qs % 2 := by
  unfold symp
  rw [xPart_pauliToBsf, zPart_pauliToBsf, xPart_pauliToBsf, zPart_pauliToBsf]
  exact dot_bits_acommCount ps qs

/-! ### the letterwise action -/

/-- apply the i-th map to the i-th letter -/
def applyAll (Ds : List PauliMap) (ps : List Pauli) : List Pauli :=
  List.zipWith (fun (D : PauliMap) p => D.apply p) Ds ps

theorem deformBsf_eq (Ds : List PauliMap) (v : List Nat) :
    deformBsf Ds v = pauliToBsf (applyAll Ds (bsfToPauli v)) := rfl

@[simp] theorem applyAll_nil_left (ps : List Pauli) : applyAll [] ps = [] := by simp [applyAll]
@[simp] theorem applyAll_nil_right (Ds : List PauliMap) : applyAll Ds [] = [] := by
  simp [applyAll]
@[simp] theorem applyAll_cons (D : PauliMap) (Ds : List PauliMap) (p : Pauli) (ps : List Pauli) :
    applyAll (D :: Ds) (p :: ps) = D.apply p :: applyAll Ds ps := by simp [applyAll]

theorem applyAll_length (Ds : List PauliMap) (ps : List Pauli) :
    (applyAll Ds ps).length = min Ds.length ps.length := by simp [applyAll]

theorem bsfToPauli_length {n : Nat} {v : List Nat} (h : v.length = 2 * n) :
    (bsfToPauli v).length = n := by
  unfold bsfToPauli
  rw [List.length_zipWith, xPart_length, zPart_length]
  omega

theorem acommCount_applyAll : ∀ (Ds : List PauliMap) (ps qs : List Pauli),
    (∀ D ∈ Ds, D.isPerm = true) → ps.length = Ds.length → qs.length = Ds.length →
    acommCount (applyAll Ds ps) (applyAll Ds qs) = acommCount ps qs
  | [], ps, qs, _, hp, hq => by
    have : ps = [] := by cases ps with | nil => rfl | cons _ _ => simp at hp
    subst this
    simp [acommCount]
  | D :: Ds, [], _, _, hp, _ => by simp at hp
  | D :: Ds, _ :: _, [], _, _, hq => by simp at hq
  | D :: Ds, p :: ps, q :: qs, h, hp, hq => by
    simp at hp hq
    have ih := acommCount_applyAll Ds ps qs (fun D' hD' => h D' (by simp [hD'])) hp hq
    simp only [applyAll_cons, acommCount, ih, acomm_apply D (h D (by simp))]

theorem applyAll_zipWith_pmul : ∀ (Ds : List PauliMap) (ps qs : List Pauli),
    (∀ D ∈ Ds, D.isPerm = true) →
    applyAll Ds (List.zipWith pmul ps qs) =
      List.zipWith pmul (applyAll Ds ps) (applyAll Ds qs)
  | [], ps, qs, _ => by simp
  | D :: Ds, [], qs, _ => by simp
  | D :: Ds, p :: ps, [], _ => by simp
  | D :: Ds, p :: ps, q :: qs, h => by
    have ih := applyAll_zipWith_pmul Ds ps qs (fun D' hD' => h D' (by simp [hD']))
    simp only [List.zipWith_cons_cons, applyAll_cons, ih, apply_pmul D (h D (by simp))]

theorem applyAll_inv : ∀ (Ds : List PauliMap) (ps : List Pauli),
    (∀ D ∈ Ds, D.isPerm = true) → ps.length = Ds.length →
    applyAll (Ds.map PauliMap.inv) (applyAll Ds ps) = ps
  | [], ps, _, hp => by
    have : ps = [] := by cases ps with | nil => rfl | cons _ _ => simp at hp
    subst this; simp
  | D :: Ds, [], _, hp => by simp at hp
  | D :: Ds, p :: ps, h, hp => by
    simp at hp
    have ih := applyAll_inv Ds ps (fun D' hD' => h D' (by simp [hD'])) hp
    simp only [List.map_cons, applyAll_cons, ih, inv_apply D (h D (by simp))]

/-! ### binary vectors: vxor and the blocks -/

theorem vxor_length' (a b : List Nat) (h : a.length = b.length) :
    (vxor a b).length = a.length := by
  simp [vxor, vadd_length a b h]

theorem vxor_binary' (a b : List Nat) : ∀ x ∈ vxor a b, x < 2 := by
  intro x hx
  simp only [vxor, List.mem_map] at hx
  obtain ⟨y, _, rfl⟩ := hx
  omega

theorem xPart_vxor' (a b : List Nat) (h : a.length = b.length) :
    xPart (vxor a b) = vxor (xPart a) (xPart b) := by
  unfold vxor; rw [xPart_map, xPart_vadd a b h]

theorem zPart_vxor' (a b : List Nat) (h : a.length = b.length) :
    zPart (vxor a b) = vxor (zPart a) (zPart b) := by
  unfold vxor; rw [zPart_map, zPart_vadd a b h]

theorem vadd_append' : ∀ (a b c d : List Nat), a.length = c.length →
    vadd (a ++ b) (c ++ d) = vadd a c ++ vadd b d
  | [], b, c, d, h => by
    have : c = [] := by cases c with | nil => rfl | cons _ _ => simp at h
    subst this; simp
  | a :: as, b, [], d, h => by simp at h
  | a :: as, b, c :: cs, d, h => by
    simp at h
    simp [vadd_append' as b cs d h]

theorem vxor_append' (a b c d : List Nat) (h : a.length = c.length) :
    vxor (a ++ b) (c ++ d) = vxor a c ++ vxor b d := by
  simp [vxor, vadd_append' a b c d h]

theorem vxor_self : ∀ w : List Nat, vxor w w = vzero w.length
  | [] => by simp [vxor, vzero]
  | a :: as => by
    have ih := vxor_self as
    simp only [vxor, vzero] at ih ⊢
    simp only [vadd_cons, List.map_cons, List.length_cons, List.replicate_succ, ih]
    congr 1; omega

theorem zipWith_ofBits_vxor : ∀ (xs xs' zs zs' : List Nat),
    xs.length = xs'.length → zs.length = zs'.length → xs.length = zs.length →
    List.zipWith Pauli.ofBits (vxor xs xs') (vxor zs zs') =
      List.zipWith pmul (List.zipWith Pauli.ofBits xs zs) (List.zipWith Pauli.ofBits xs' zs')
  | [], xs', zs, zs', h1, _, _ => by
    have : xs' = [] := by cases xs' with | nil => rfl | cons _ _ => simp at h1
    subst this; simp [vxor]
  | x :: xs, [], _, _, h1, _, _ => by simp at h1
  | x :: xs, x' :: xs', [], _, _, _, h3 => by simp at h3
  | x :: xs, x' :: xs', z :: zs, [], _, h2, _ => by simp at h2
  | x :: xs, x' :: xs', z :: zs, z' :: zs', h1, h2, h3 => by
    simp at h1 h2 h3
    have ih := zipWith_ofBits_vxor xs xs' zs zs' h1 h2 h3
    simp only [vxor] at ih ⊢
    simp only [vadd_cons, List.map_cons, List.zipWith_cons_cons, ih, ofBits_vxor]

theorem bsfToPauli_vxor (a b : List Nat) (h : a.length = b.length) (he : a.length % 2 = 0) :
    bsfToPauli (vxor a b) = List.zipWith pmul (bsfToPauli a) (bsfToPauli b) := by
  unfold bsfToPauli
  rw [xPart_vxor' a b h, zPart_vxor' a b h]
  apply zipWith_ofBits_vxor
  · simp [xPart_length, h]
  · simp [zPart_length, h]
  · rw [xPart_length, zPart_length]; omega

theorem map_xBit_zipWith_pmul : ∀ ps qs : List Pauli,
    (List.zipWith pmul ps qs).map Pauli.xBit = vxor (ps.map Pauli.xBit) (qs.map Pauli.xBit)
  | [], qs => by simp [vxor]
  | p :: ps, [] => by simp [vxor]
  | p :: ps, q :: qs => by
    have ih := map_xBit_zipWith_pmul ps qs
    simp only [vxor] at ih ⊢
    simp only [List.zipWith_cons_cons, List.map_cons, vadd_cons, ih, pmul_xBit]

theorem map_zBit_zipWith_pmul : ∀ ps qs : List Pauli,
    (List.zipWith pmul ps qs).map Pauli.zBit = vxor (ps.map Pauli.zBit) (qs.map Pauli.zBit)
  | [], qs => by simp [vxor]
  | p :: ps, [] => by simp [vxor]
  | p :: ps, q :: qs => by
    have ih := map_zBit_zipWith_pmul ps qs
    simp only [vxor] at ih ⊢
    simp only [List.zipWith_cons_cons, List.map_cons, vadd_cons, ih, pmul_zBit]

theorem pauliToBsf_zipWith_pmul (ps qs : List Pauli) (h : ps.length = qs.length) :
    pauliToBsf (List.zipWith pmul ps qs) = vxor (pauliToBsf ps) (pauliToBsf qs) := by
  unfold pauliToBsf
  rw [vxor_append' _ _ _ _ (by simp [h]), map_xBit_zipWith_pmul, map_zBit_zipWith_pmul]

theorem pauliToBsf_binary (ps : List Pauli) : ∀ x ∈ pauliToBsf ps, x < 2 := by
  intro x hx
  simp only [pauliToBsf, List.mem_append, List.mem_map] at hx
  rcases hx with ⟨p, _, rfl⟩ | ⟨p, _, rfl⟩
  · exact xBit_lt_two p
  · exact zBit_lt_two p

/-! ### `deformBsf`: the theorems on vectors

Standing hypotheses: `Ds.length = n`, every `D ∈ Ds` a permutation of {X,Y,Z}. -/

theorem deformBsf_binary (Ds : List PauliMap) (v : List Nat) : ∀ x ∈ deformBsf Ds v, x < 2 :=
  pauliToBsf_binary _

theorem deformBsf_length {n : Nat} {Ds : List PauliMap} (hlen : Ds.length = n) {v : List Nat}
    (hv : v.length = 2 * n) : (deformBsf Ds v).length = 2 * n := by
  rw [deformBsf_eq, pauliToBsf_length, applyAll_length, bsfToPauli_length hv, hlen]
  omega

/-- entries are only read modulo 2 -/
theorem bsfToPauli_map_mod (v : List Nat) : bsfToPauli (v.map (· % 2)) = bsfToPauli v := by
  unfold bsfToPauli
  rw [xPart_map, zPart_map]
  generalize xPart v = xs
  generalize zPart v = zs
  induction xs generalizing zs with
  | nil => simp
  | cons x xs ih =>
    cases zs with
    | nil => simp
    | cons z zs => simp only [List.map_cons, List.zipWith_cons_cons, ih zs, ofBits_mod]

theorem deformBsf_map_mod (Ds : List PauliMap) (v : List Nat) :
    deformBsf Ds (v.map (· % 2)) = deformBsf Ds v := by
  rw [deformBsf_eq, deformBsf_eq, bsfToPauli_map_mod]

/-- **commutation is preserved** (binary vectors of length `2n`) -/
theorem symp_deformBsf {n : Nat} {Ds : List PauliMap} (hlen : Ds.length = n)
    (hperm : ∀ D ∈ Ds, D.isPerm = true) {a b : List Nat}
    (ha : a.length = 2 * n) (hab : ∀ x ∈ a, x < 2)
    (hb : b.length = 2 * n) (hbb : ∀ x ∈ b, x < 2) :
    symp (deformBsf Ds a) (deformBsf Ds b) = symp a b := by
  rw [deformBsf_eq, deformBsf_eq, symp_pauliToBsf,
    acommCount_applyAll Ds _ _ hperm (by rw [bsfToPauli_length ha, hlen])
      (by rw [bsfToPauli_length hb, hlen]),
    ← symp_pauliToBsf, pauliToBsf_bsfToPauli a (by omega) hab,
    pauliToBsf_bsfToPauli b (by omega) hbb]

theorem map_mod_binary (v : List Nat) : ∀ x ∈ v.map (· % 2), x < 2 := by
  intro x hx
  simp only [List.mem_map] at hx
  obtain ⟨y, _, rfl⟩ := hx
  omega

/-- the same for arbitrary integer entries (numpy arrays are not forced to be 0/1):
    both sides only depend on the entries modulo 2 -/
theorem symp_deformBsf_any {n : Nat} {Ds : List PauliMap} (hlen : Ds.length = n)
    (hperm : ∀ D ∈ Ds, D.isPerm = true) {a b : List Nat}
    (ha : a.length = 2 * n) (hb : b.length = 2 * n) :
    symp (deformBsf Ds a) (deformBsf Ds b) = symp a b := by
  rw [← deformBsf_map_mod Ds a, ← deformBsf_map_mod Ds b,
    symp_deformBsf hlen hperm (by simpa using ha) (map_mod_binary a) (by simpa using hb)
      (map_mod_binary b),
    symp_map_mod_left, symp_comm, symp_map_mod_left, symp_comm]

/-- **GF(2)-linearity** -/
theorem deformBsf_vxor {n : Nat} {Ds : List PauliMap}
    (hperm : ∀ D ∈ Ds, D.isPerm = true) {a b : List Nat}
    (ha : a.length = 2 * n) (hb : b.length = 2 * n) :
    deformBsf Ds (vxor a b) = vxor (deformBsf Ds a) (deformBsf Ds b) := by
  rw [deformBsf_eq, deformBsf_eq, deformBsf_eq,
    bsfToPauli_vxor a b (by omega) (by omega), applyAll_zipWith_pmul Ds _ _ hperm,
    pauliToBsf_zipWith_pmul]
  rw [applyAll_length, applyAll_length, bsfToPauli_length ha, bsfToPauli_length hb]

/-- **invertibility**: relabelling by the inverse maps undoes the relabelling -/
theorem deformBsf_inverse {n : Nat} {Ds : List PauliMap} (hlen : Ds.length = n)
    (hperm : ∀ D ∈ Ds, D.isPerm = true) {a : List Nat}
    (ha : a.length = 2 * n) (hab : ∀ x ∈ a, x < 2) :
    deformBsf (Ds.map PauliMap.inv) (deformBsf Ds a) = a := by
  rw [deformBsf_eq, deformBsf_eq, bsfToPauli_pauliToBsf,
    applyAll_inv Ds _ hperm (by rw [bsfToPauli_length ha, hlen]),
    pauliToBsf_bsfToPauli a (by omega) hab]

theorem map_inv_isPerm {Ds : List PauliMap} (hperm : ∀ D ∈ Ds, D.isPerm = true) :
    ∀ D ∈ Ds.map PauliMap.inv, D.isPerm = true := by
  intro D hD
  simp only [List.mem_map] at hD
  obtain ⟨D', hD', rfl⟩ := hD
  exact inv_isPerm D' (hperm D' hD')

theorem map_inv_inv : ∀ {Ds : List PauliMap}, (∀ D ∈ Ds, D.isPerm = true) →
    (Ds.map PauliMap.inv).map PauliMap.inv = Ds
  | [], _ => rfl
  | D :: Ds, h => by
    have ih : (Ds.map PauliMap.inv).map PauliMap.inv = Ds :=
      map_inv_inv (fun D' hD' => h D' (by simp [hD']))
    simp only [List.map_cons, inv_inv D (h D (by simp)), ih]

/-- the other composition: `deformBsf Ds` is onto the binary vectors of length `2n` -/
theorem deformBsf_inverse_right {n : Nat} {Ds : List PauliMap} (hlen : Ds.length = n)
    (hperm : ∀ D ∈ Ds, D.isPerm = true) {a : List Nat}
    (ha : a.length = 2 * n) (hab : ∀ x ∈ a, x < 2) :
    deformBsf Ds (deformBsf (Ds.map PauliMap.inv) a) = a := by
  have h := deformBsf_inverse (Ds := Ds.map PauliMap.inv) (by simpa using hlen)
    (map_inv_isPerm hperm) ha hab
  rwa [map_inv_inv hperm] at h

theorem deformBsf_injective {n : Nat} {Ds : List PauliMap} (hlen : Ds.length = n)
    (hperm : ∀ D ∈ Ds, D.isPerm = true) {a b : List Nat}
    (ha : a.length = 2 * n) (hab : ∀ x ∈ a, x < 2)
    (hb : b.length = 2 * n) (hbb : ∀ x ∈ b, x < 2)
    (h : deformBsf Ds a = deformBsf Ds b) : a = b := by
  rw [← deformBsf_inverse hlen hperm ha hab, ← deformBsf_inverse hlen hperm hb hbb, h]

theorem vzero_length (m : Nat) : (vzero m).length = m := by simp [vzero]
theorem vzero_binary' (m : Nat) : ∀ x ∈ vzero m, x < 2 := by
  intro x hx
  simp only [vzero, List.mem_replicate] at hx
  omega

theorem deformBsf_vzero {n : Nat} {Ds : List PauliMap} (hlen : Ds.length = n)
    (hperm : ∀ D ∈ Ds, D.isPerm = true) :
    deformBsf Ds (vzero (2 * n)) = vzero (2 * n) := by
  have hz : vxor (vzero (2 * n)) (vzero (2 * n)) = vzero (2 * n) := by
    simpa [vzero_length] using vxor_self (vzero (2 * n))
  have h := deformBsf_vxor (n := n) hperm (vzero_length _) (vzero_length _)
  rw [hz, vxor_self, deformBsf_length hlen (vzero_length _)] at h
  exact h

/-! ### stacks of rows -/

theorem wfRows_map {n : Nat} {Ds : List PauliMap} (hlen : Ds.length = n)
    {rows : List (List Nat)} (h : WFRows n rows) : WFRows n (rows.map (deformBsf Ds)) := by
  intro r hr
  simp only [List.mem_map] at hr
  obtain ⟨r', hr', rfl⟩ := hr
  exact ⟨deformBsf_length hlen (h r' hr').1, deformBsf_binary Ds r'⟩

theorem xorCombo_length' (m : Nat) : ∀ (sel : List Bool) (rows : List (List Nat)),
    (∀ r ∈ rows, r.length = m) → (xorCombo m sel rows).length = m
  | [], _, _ => by simp [xorCombo, vzero]
  | _ :: _, [], _ => by simp [xorCombo, vzero]
  | s :: sel, r :: rows, h => by
    have ih := xorCombo_length' m sel rows (fun r' hr' => h r' (by simp [hr']))
    unfold xorCombo
    split
    · rw [vxor_length' _ _ (by rw [ih]; exact h r (by simp))]; exact h r (by simp)
    · exact ih

theorem xorCombo_binary' (m : Nat) : ∀ (sel : List Bool) (rows : List (List Nat)),
    ∀ x ∈ xorCombo m sel rows, x < 2
  | [], _ => by simpa [xorCombo] using vzero_binary' m
  | _ :: _, [] => by simpa [xorCombo] using vzero_binary' m
  | s :: sel, r :: rows => by
    unfold xorCombo
    split
    · exact vxor_binary' _ _
    · exact xorCombo_binary' m sel rows

/-- a linear map commutes with GF(2) combinations -/
theorem xorCombo_map {n : Nat} {Ds : List PauliMap} (hlen : Ds.length = n)
    (hperm : ∀ D ∈ Ds, D.isPerm = true) : ∀ (sel : List Bool) (rows : List (List Nat)),
    (∀ r ∈ rows, r.length = 2 * n) →
    xorCombo (2 * n) sel (rows.map (deformBsf Ds)) =
      deformBsf Ds (xorCombo (2 * n) sel rows)
  | [], _, _ => by simp [xorCombo, deformBsf_vzero hlen hperm]
  | _ :: _, [], _ => by simp [xorCombo, deformBsf_vzero hlen hperm]
  | s :: sel, r :: rows, h => by
    have hrows : ∀ r' ∈ rows, r'.length = 2 * n := fun r' hr' => h r' (by simp [hr'])
    have ih := xorCombo_map hlen hperm sel rows hrows
    simp only [List.map_cons, xorCombo]
    cases s
    · simpa using ih
    · simp only [if_true]
      rw [ih, deformBsf_vxor hperm (h r (by simp)) (xorCombo_length' _ sel rows hrows)]

theorem inSpan_map {n : Nat} {Ds : List PauliMap} (hlen : Ds.length = n)
    (hperm : ∀ D ∈ Ds, D.isPerm = true) {rows : List (List Nat)} {v : List Nat}
    (hw : ∀ r ∈ rows, r.length = 2 * n) (h : InSpan (2 * n) rows v) :
    InSpan (2 * n) (rows.map (deformBsf Ds)) (deformBsf Ds v) := by
  obtain ⟨sel, hs, hv⟩ := h
  exact ⟨sel, by simpa using hs, by rw [xorCombo_map hlen hperm sel rows hw, hv]⟩

theorem indep_map {n : Nat} {Ds : List PauliMap} (hlen : Ds.length = n)
    (hperm : ∀ D ∈ Ds, D.isPerm = true) {rows : List (List Nat)}
    (hw : ∀ r ∈ rows, r.length = 2 * n) (h : Indep (2 * n) rows) :
    Indep (2 * n) (rows.map (deformBsf Ds)) := by
  intro sel hs hz
  apply h sel (by simpa using hs)
  rw [xorCombo_map hlen hperm sel rows hw, ← deformBsf_vzero hlen hperm] at hz
  exact deformBsf_injective hlen hperm (xorCombo_length' _ sel rows hw)
    (xorCombo_binary' _ sel rows) (vzero_length _) (vzero_binary' _) hz

theorem hasRank_map {n r : Nat} {Ds : List PauliMap} (hlen : Ds.length = n)
    (hperm : ∀ D ∈ Ds, D.isPerm = true) {rows : List (List Nat)}
    (hw : ∀ r ∈ rows, r.length = 2 * n) (h : HasRank (2 * n) rows r) :
    HasRank (2 * n) (rows.map (deformBsf Ds)) r := by
  obtain ⟨basis, hsub, hl, hind, hspan⟩ := h
  have hwb : ∀ r ∈ basis, r.length = 2 * n := fun r hr => hw r (hsub.subset hr)
  refine ⟨basis.map (deformBsf Ds), hsub.map _, by simpa using hl,
    indep_map hlen hperm hwb hind, ?_⟩
  intro v hv
  simp only [List.mem_map] at hv
  obtain ⟨v', hv', rfl⟩ := hv
  exact inSpan_map hlen hperm hwb (hspan v' hv')

theorem getD_map_deform (f : List Nat → List Nat) (L : List (List Nat)) {i : Nat}
    (hi : i < L.length) : (L.map f).getD i [] = f (L.getD i []) := by
  simp [List.getD, List.getElem?_map, List.getElem?_eq_getElem hi]

/-- **validity is preserved**: every clause of C01, including the rank -/
theorem validCode_deform {n k : Nat} {Ds : List PauliMap} (hlen : Ds.length = n)
    (hperm : ∀ D ∈ Ds, D.isPerm = true) {H Lx Lz : List (List Nat)}
    (hv : ValidCodeL n k H Lx Lz) :
    ValidCodeL n k (H.map (deformBsf Ds)) (Lx.map (deformBsf Ds)) (Lz.map (deformBsf Ds)) := by
  have pres : ∀ {A B : List (List Nat)}, WFRows n A → WFRows n B →
      (∀ a ∈ A, ∀ b ∈ B, symp a b = 0) →
      ∀ a ∈ A.map (deformBsf Ds), ∀ b ∈ B.map (deformBsf Ds), symp a b = 0 := by
    intro A B hA hB h a ha b hb
    simp only [List.mem_map] at ha hb
    obtain ⟨a', ha', rfl⟩ := ha
    obtain ⟨b', hb', rfl⟩ := hb
    rw [symp_deformBsf hlen hperm (hA a' ha').1 (hA a' ha').2 (hB b' hb').1 (hB b' hb').2]
    exact h a' ha' b' hb'
  refine
    { wfH := wfRows_map hlen hv.wfH
      wfX := wfRows_map hlen hv.wfX
      wfZ := wfRows_map hlen hv.wfZ
      kX := by simpa using hv.kX
      kZ := by simpa using hv.kZ
      stab_comm := pres hv.wfH hv.wfH hv.stab_comm
      logX_comm := pres hv.wfX hv.wfH hv.logX_comm
      logZ_comm := pres hv.wfZ hv.wfH hv.logZ_comm
      pairing := ?_
      logXX := pres hv.wfX hv.wfX hv.logXX
      logZZ := pres hv.wfZ hv.wfZ hv.logZZ
      rank := hasRank_map hlen hperm (fun r hr => (hv.wfH r hr).1) hv.rank
      k_le := hv.k_le }
  intro i j hi hj
  have hiX : i < Lx.length := by rw [hv.kX]; exact hi
  have hjZ : j < Lz.length := by rw [hv.kZ]; exact hj
  rw [getD_map_deform _ Lx hiX, getD_map_deform _ Lz hjZ]
  have hx : Lx.getD i [] ∈ Lx := by
    simp [List.getD, List.getElem?_eq_getElem hiX]
  have hz : Lz.getD j [] ∈ Lz := by
    simp [List.getD, List.getElem?_eq_getElem hjZ]
  rw [symp_deformBsf hlen hperm (hv.wfX _ hx).1 (hv.wfX _ hx).2 (hv.wfZ _ hz).1 (hv.wfZ _ hz).2]
  exact hv.pairing i j hi hj

/-! ### syndrome and logical effect -/

theorem measureSyndrome_eq (H : List (List Nat)) (e : List Nat) :
    measureSyndrome H e = H.map fun r => symp r e := by
  simp [measureSyndrome, bsProdRows, bsProdSparse_eq_symp]

theorem bsProdRows_dense_eq (dt : DType) (L : List (List Nat)) (e : List Nat) :
    bsProdRows dt false L e = L.map fun r => symp r e := by
  simp [bsProdRows, bsProdDense_eq_symp]

theorem map_symp_deform {n : Nat} {Ds : List PauliMap} (hlen : Ds.length = n)
    (hperm : ∀ D ∈ Ds, D.isPerm = true) {L : List (List Nat)} (hL : WFRows n L)
    {e : List Nat} (he : e.length = 2 * n) (heb : ∀ x ∈ e, x < 2) :
    ((L.map (deformBsf Ds)).map fun r => symp r (deformBsf Ds e)) = L.map fun r => symp r e := by
  rw [List.map_map]
  apply List.map_congr_left
  intro r hr
  exact symp_deformBsf hlen hperm (hL r hr).1 (hL r hr).2 he heb

/-- **same syndrome**: the relabelled code sees the relabelled error as the original code
    sees the original error -/
theorem syndrome_deform {n : Nat} {Ds : List PauliMap} (hlen : Ds.length = n)
    (hperm : ∀ D ∈ Ds, D.isPerm = true) {H : List (List Nat)} (hH : WFRows n H)
    {e : List Nat} (he : e.length = 2 * n) (heb : ∀ x ∈ e, x < 2) :
    measureSyndrome (H.map (deformBsf Ds)) (deformBsf Ds e) = measureSyndrome H e := by
  rw [measureSyndrome_eq, measureSyndrome_eq, map_symp_deform hlen hperm hH he heb]

/-- **same logical effect** -/
theorem logicalErrors_deform {n : Nat} {Ds : List PauliMap} (hlen : Ds.length = n)
    (hperm : ∀ D ∈ Ds, D.isPerm = true) (dt : DType) {Lx Lz : List (List Nat)}
    (hX : WFRows n Lx) (hZ : WFRows n Lz)
    {e : List Nat} (he : e.length = 2 * n) (heb : ∀ x ∈ e, x < 2) :
    logicalErrors dt (Lx.map (deformBsf Ds)) (Lz.map (deformBsf Ds)) (deformBsf Ds e) =
      logicalErrors dt Lx Lz e := by
  unfold logicalErrors
  rw [bsProdRows_dense_eq, bsProdRows_dense_eq, bsProdRows_dense_eq, bsProdRows_dense_eq,
    map_symp_deform hlen hperm hX he heb, map_symp_deform hlen hperm hZ he heb]

theorem inCodespace_deform {n : Nat} {Ds : List PauliMap} (hlen : Ds.length = n)
    (hperm : ∀ D ∈ Ds, D.isPerm = true) {H : List (List Nat)} (hH : WFRows n H)
    {e : List Nat} (he : e.length = 2 * n) (heb : ∀ x ∈ e, x < 2) :
    inCodespace (H.map (deformBsf Ds)) (deformBsf Ds e) = inCodespace H e := by
  unfold inCodespace
  rw [syndrome_deform hlen hperm hH he heb]

theorem isLogicalError_deform {n : Nat} {Ds : List PauliMap} (hlen : Ds.length = n)
    (hperm : ∀ D ∈ Ds, D.isPerm = true) (dt : DType) {Lx Lz : List (List Nat)}
    (hX : WFRows n Lx) (hZ : WFRows n Lz)
    {e : List Nat} (he : e.length = 2 * n) (heb : ∀ x ∈ e, x < 2) :
    isLogicalError dt (Lx.map (deformBsf Ds)) (Lz.map (deformBsf Ds)) (deformBsf Ds e) =
      isLogicalError dt Lx Lz e := by
  unfold isLogicalError
  rw [logicalErrors_deform hlen hperm dt hX hZ he heb]

/-- **same verdict** -/
theorem isSuccess_deform {n : Nat} {Ds : List PauliMap} (hlen : Ds.length = n)
    (hperm : ∀ D ∈ Ds, D.isPerm = true) (dt : DType) {H Lx Lz : List (List Nat)}
    (hH : WFRows n H) (hX : WFRows n Lx) (hZ : WFRows n Lz)
    {e : List Nat} (he : e.length = 2 * n) (heb : ∀ x ∈ e, x < 2) :
    isSuccess dt (H.map (deformBsf Ds)) (Lx.map (deformBsf Ds)) (Lz.map (deformBsf Ds))
        (deformBsf Ds e) = isSuccess dt H Lx Lz e := by
  unfold isSuccess
  rw [inCodespace_deform hlen hperm hH he heb, isLogicalError_deform hlen hperm dt hX hZ he heb]

end Panqec.Deform
