/-
Color3DCode, even sides `≥ 2`: every face shares an even number of qubits with each of the nine
membranes of `get_logicals_z` (finite checks over the parameters of the face location).
Core Lean only.
-/
import PanqecVerif.Proofs.LatColor3DCodeRed

set_option linter.unusedVariables false
set_option linter.unusedSectionVars false

namespace Panqec.Color3DCode
open Panqec.Lat2D Panqec.Color

def MZ1 (ta rb rc : Int) : Bool := TP 2 ta rb rc
def MZ2 (ta rb rc : Int) : Bool := TP 0 ta rb rc
def MZ3 (ta rb rc : Int) : Bool := TH1 ta rb rc
def MZ4 (ra tb rc : Int) : Bool := TP 2 tb ra rc
def MZ5 (ra tb rc : Int) : Bool := TP 0 tb ra rc
def MZ6 (ra tb rc : Int) : Bool := TH2 ra tb rc
def MZ7 (ra rb tc : Int) : Bool := TP 2 tc ra rb
def MZ8 (ra rb tc : Int) : Bool := TP 0 tc ra rb
def MZ9 (ra rb tc : Int) : Bool := TH3 ra rb tc

section
variable {Lx Ly Lz : Nat} (hx : 2 ≤ Lx) (hy : 2 ≤ Ly) (hz : 2 ≤ Lz) (ex : Lx % 2 = 0)
  (ey : Ly % 2 = 0) (ez : Lz % 2 = 0)
include hx hy hz ex ey ez

theorem NFZ1 : NF Lx Ly Lz (kZ1 Lx Ly Lz) MZ1 (.thin 0 0) .thick .thick :=
  fun a b c hb => nfZ1 hx hy hz hb
theorem NFZ2 : NF Lx Ly Lz (kZ2 Lx Ly Lz) MZ2 (.thin 2 0) .thick .thick :=
  fun a b c hb => nfZ2 hx hy hz hb
theorem NFZ3 : NF Lx Ly Lz (kZ3 Lx Ly Lz) MZ3 (.thin 3 1) .thick .thick :=
  fun a b c hb => nfZ3 hx hy hz ex ey ez hb
theorem NFZ4 : NF Lx Ly Lz (kZ4 Lx Ly Lz) MZ4 .thick (.thin 0 0) .thick :=
  fun a b c hb => nfZ4 hx hy hz hb
theorem NFZ5 : NF Lx Ly Lz (kZ5 Lx Ly Lz) MZ5 .thick (.thin 2 0) .thick :=
  fun a b c hb => nfZ5 hx hy hz hb
theorem NFZ6 : NF Lx Ly Lz (kZ6 Lx Ly Lz) MZ6 .thick (.thin 3 1) .thick :=
  fun a b c hb => nfZ6 hx hy hz ex ey ez hb
theorem NFZ7 : NF Lx Ly Lz (kZ7 Lx Ly Lz) MZ7 .thick .thick (.thin 0 0) :=
  fun a b c hb => nfZ7 hx hy hz hb
theorem NFZ8 : NF Lx Ly Lz (kZ8 Lx Ly Lz) MZ8 .thick .thick (.thin 2 0) :=
  fun a b c hb => nfZ8 hx hy hz hb
theorem NFZ9 : NF Lx Ly Lz (kZ9 Lx Ly Lz) MZ9 .thick .thick (.thin 3 1) :=
  fun a b c hb => nfZ9 hx hy hz ex ey ez hb

end

set_option maxRecDepth 100000 in
theorem chkZ1 : chkFaces MZ1 (.thin 0 0) .thick .thick = true := by decide +kernel
set_option maxRecDepth 100000 in
theorem chkZ2 : chkFaces MZ2 (.thin 2 0) .thick .thick = true := by decide +kernel
set_option maxRecDepth 100000 in
theorem chkZ3 : chkFaces MZ3 (.thin 3 1) .thick .thick = true := by decide +kernel
set_option maxRecDepth 100000 in
theorem chkZ4 : chkFaces MZ4 .thick (.thin 0 0) .thick = true := by decide +kernel
set_option maxRecDepth 100000 in
theorem chkZ5 : chkFaces MZ5 .thick (.thin 2 0) .thick = true := by decide +kernel
set_option maxRecDepth 100000 in
theorem chkZ6 : chkFaces MZ6 .thick (.thin 3 1) .thick = true := by decide +kernel
set_option maxRecDepth 100000 in
theorem chkZ7 : chkFaces MZ7 .thick .thick (.thin 0 0) = true := by decide +kernel
set_option maxRecDepth 100000 in
theorem chkZ8 : chkFaces MZ8 .thick .thick (.thin 2 0) = true := by decide +kernel
set_option maxRecDepth 100000 in
theorem chkZ9 : chkFaces MZ9 .thick .thick (.thin 3 1) = true := by decide +kernel

end Panqec.Color3DCode
