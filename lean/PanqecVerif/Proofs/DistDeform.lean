/-
C17 under Clifford deformation: a per-qubit permutation of the letters {X, Y, Z}
(`deformBsf Ds`, the action `StabilizerCode.deform` has on every row of the three matrices,
C08) preserves the Pauli weight, the symplectic product and the span, hence the set of
non-trivial logical operators up to the relabelling, hence the distance — and the reported
distance (minimum weight of the listed logicals).

* `pauliWeight_deformBsf` — the weight of a binary vector is unchanged;
* `nontrivial_deform`, `nontrivial_deform_iff` — `v` is a non-trivial logical of `H` iff its
  image is a non-trivial logical of the relabelled `H`;
* `isDistance_deform` — `IsDistance n H d → IsDistance n (H.map (deformBsf Ds)) d`;
* `distance_deform` — `code.d` (`distance`) of the relabelled logicals is that of the original;
* `Lattice.deformed_distance` — the same, assembled for a hand-written lattice model: the
  matrices the deformed getters produce, their validity, reported and true distance.
-/
import PanqecVerif.Proofs.Deform
import PanqecVerif.Proofs.DeformOp
import PanqecVerif.Proofs.DistLattice

namespace Panqec.Deform
open Panqec

/-! ### weight -/

theorem apply_ne_I (D : PauliMap) (h : D.isPerm = true) (p : Pauli) :
    (D.apply p != Pauli.I) = (p != Pauli.I) := by
  obtain ⟨x, y, z⟩ := D
  cases p <;> cases x <;> cases y <;> cases z <;> first | rfl | (exact absurd h (by decide))

theorem countP_applyAll : ∀ (Ds : List PauliMap) (ps : List Pauli),
    (∀ D ∈ Ds, D.isPerm = true) → ps.length = Ds.length →
    (applyAll Ds ps).countP (fun p => p != Pauli.I) = ps.countP (fun p => p != Pauli.I)
  | [], ps, _, hp => by
    have : ps = [] := by cases ps with | nil => rfl | cons _ _ => simp at hp
    subst this; simp
  | D :: Ds, [], _, hp => by simp at hp
  | D :: Ds, p :: ps, h, hp => by
    simp at hp
    have ih := countP_applyAll Ds ps (fun D' hD' => h D' (by simp [hD'])) hp
    simp only [applyAll_cons, List.countP_cons, ih, apply_ne_I D (h D (by simp))]

/-- the Pauli weight of the BSF vector of a Pauli string is the number of non-identity letters -/
theorem pauliWeight_pauliToBsf (ps : List Pauli) :
    pauliWeight (pauliToBsf ps) = ps.countP (fun p => p != Pauli.I) := by
  unfold pauliWeight rowWeight
  rw [xPart_pauliToBsf, zPart_pauliToBsf, countP_zipWith_supp]

/-- **the Pauli weight is preserved** by a per-qubit permutation of {X, Y, Z} -/
theorem pauliWeight_deformBsf {n : Nat} {Ds : List PauliMap} (hlen : Ds.length = n)
    (hperm : ∀ D ∈ Ds, D.isPerm = true) {v : List Nat}
    (hv : v.length = 2 * n) (hb : ∀ x ∈ v, x < 2) :
    pauliWeight (deformBsf Ds v) = pauliWeight v := by
  rw [deformBsf_eq, pauliWeight_pauliToBsf,
    countP_applyAll Ds _ hperm (by rw [bsfToPauli_length hv, hlen]),
    ← pauliWeight_pauliToBsf, pauliToBsf_bsfToPauli v (by omega) hb]

/-! ### the relabelled stack and its inverse -/

theorem map_map_inverse {n : Nat} {Ds : List PauliMap} (hlen : Ds.length = n)
    (hperm : ∀ D ∈ Ds, D.isPerm = true) {rows : List (List Nat)} (hw : WFRows n rows) :
    (rows.map (deformBsf Ds)).map (deformBsf (Ds.map PauliMap.inv)) = rows := by
  rw [List.map_map]
  conv => rhs; rw [← List.map_id rows]
  apply List.map_congr_left
  intro r hr
  exact deformBsf_inverse hlen hperm (hw r hr).1 (hw r hr).2

/-! ### non-trivial logical operators -/

/-- the image of a non-trivial logical operator is a non-trivial logical operator of the
    relabelled generators -/
theorem nontrivial_deform {n : Nat} {Ds : List PauliMap} (hlen : Ds.length = n)
    (hperm : ∀ D ∈ Ds, D.isPerm = true) {H : List (List Nat)} (hH : WFRows n H)
    {v : List Nat} (h : IsNontrivialLogical n H v) :
    IsNontrivialLogical n (H.map (deformBsf Ds)) (deformBsf Ds v) := by
  obtain ⟨hl, hb, hc, hns⟩ := h
  refine ⟨deformBsf_length hlen hl, deformBsf_binary Ds v, ?_, ?_⟩
  · intro g hg
    obtain ⟨g', hg', rfl⟩ := List.mem_map.mp hg
    rw [symp_deformBsf hlen hperm (hH g' hg').1 (hH g' hg').2 hl hb]
    exact hc g' hg'
  · intro hs
    apply hns
    have hlen' : (Ds.map PauliMap.inv).length = n := by simpa using hlen
    have h1 := inSpan_map hlen' (map_inv_isPerm hperm)
      (fun r hr => ((wfRows_map hlen hH) r hr).1) hs
    rwa [map_map_inverse hlen hperm hH, deformBsf_inverse hlen hperm hl hb] at h1

/-- … and every non-trivial logical operator of the relabelled generators is the image of one -/
theorem nontrivial_deform_inv {n : Nat} {Ds : List PauliMap} (hlen : Ds.length = n)
    (hperm : ∀ D ∈ Ds, D.isPerm = true) {H : List (List Nat)} (hH : WFRows n H)
    {w : List Nat} (h : IsNontrivialLogical n (H.map (deformBsf Ds)) w) :
    IsNontrivialLogical n H (deformBsf (Ds.map PauliMap.inv) w) ∧
      deformBsf Ds (deformBsf (Ds.map PauliMap.inv) w) = w := by
  have hlen' : (Ds.map PauliMap.inv).length = n := by simpa using hlen
  have h1 := nontrivial_deform hlen' (map_inv_isPerm hperm) (wfRows_map hlen hH) h
  rw [map_map_inverse hlen hperm hH] at h1
  exact ⟨h1, deformBsf_inverse_right hlen hperm h.1 h.2.1⟩

theorem nontrivial_deform_iff {n : Nat} {Ds : List PauliMap} (hlen : Ds.length = n)
    (hperm : ∀ D ∈ Ds, D.isPerm = true) {H : List (List Nat)} (hH : WFRows n H)
    {v : List Nat} (hl : v.length = 2 * n) (hb : ∀ x ∈ v, x < 2) :
    IsNontrivialLogical n (H.map (deformBsf Ds)) (deformBsf Ds v) ↔ IsNontrivialLogical n H v := by
  constructor
  · intro h
    have h1 := (nontrivial_deform_inv hlen hperm hH h).1
    rwa [deformBsf_inverse hlen hperm hl hb] at h1
  · exact nontrivial_deform hlen hperm hH

/-! ### distance -/

/-- **the distance is invariant** under a per-qubit permutation of {X, Y, Z} -/
theorem isDistance_deform {n d : Nat} {Ds : List PauliMap} (hlen : Ds.length = n)
    (hperm : ∀ D ∈ Ds, D.isPerm = true) {H : List (List Nat)} (hH : WFRows n H)
    (h : IsDistance n H d) : IsDistance n (H.map (deformBsf Ds)) d := by
  obtain ⟨⟨v, hv, hw⟩, hlow⟩ := h
  refine ⟨⟨deformBsf Ds v, nontrivial_deform hlen hperm hH hv, ?_⟩, ?_⟩
  · rw [pauliWeight_deformBsf hlen hperm hv.1 hv.2.1, hw]
  · intro w hw'
    obtain ⟨h1, h2⟩ := nontrivial_deform_inv hlen hperm hH hw'
    have := hlow _ h1
    rw [← h2, pauliWeight_deformBsf hlen hperm h1.1 h1.2.1]
    exact this

/-- converse: `deformBsf Ds` is a bijection, so the distances agree in both directions -/
theorem isDistance_deform_iff {n d : Nat} {Ds : List PauliMap} (hlen : Ds.length = n)
    (hperm : ∀ D ∈ Ds, D.isPerm = true) {H : List (List Nat)} (hH : WFRows n H) :
    IsDistance n (H.map (deformBsf Ds)) d ↔ IsDistance n H d := by
  constructor
  · intro h
    have hlen' : (Ds.map PauliMap.inv).length = n := by simpa using hlen
    have h1 := isDistance_deform hlen' (map_inv_isPerm hperm) (wfRows_map hlen hH) h
    rwa [map_map_inverse hlen hperm hH] at h1
  · exact isDistance_deform hlen hperm hH

/-- **the reported distance is invariant**: `code.d` computed from the relabelled logicals -/
theorem distance_deform {n : Nat} {Ds : List PauliMap} (hlen : Ds.length = n)
    (hperm : ∀ D ∈ Ds, D.isPerm = true) {Lx Lz : List (List Nat)}
    (hX : WFRows n Lx) (hZ : WFRows n Lz) :
    distance (Lx.map (deformBsf Ds)) (Lz.map (deformBsf Ds)) = distance Lx Lz := by
  have hm : ∀ {L : List (List Nat)}, WFRows n L →
      (L.map (deformBsf Ds)).map rowWeight = L.map rowWeight := by
    intro L hL
    rw [List.map_map]
    apply List.map_congr_left
    intro r hr
    exact pauliWeight_deformBsf hlen hperm (hL r hr).1 (hL r hr).2
  unfold distance
  rw [hm hX, hm hZ]

end Panqec.Deform

namespace Panqec

/-- Everything C17 says about a deformed lattice model.  `D` is what `get_deformation` returns
    on each qubit (a permutation of {X, Y, Z} there).  The matrices the deformed getters produce
    are the relabelled rows; they form a valid code; the reported distance and the true
    distance are those of the undeformed code. -/
theorem Lattice.deformed_distance (l : Lattice) (hwf : l.WF) {n k d : Nat}
    (hn : l.qubits.length = n) (hv : ValidCodeL n k l.rowsH l.rowsX l.rowsZ)
    (hrep : distance l.rowsX l.rowsZ = some d) (hd : IsDistance n l.rowsH d)
    (D : Coord → PauliMap) (hperm : ∀ q ∈ l.qubits, (D q).isPerm = true) :
    stabilizerMatrix (l.toCodeData.deform D) =
        some (l.rowsH.map (deformBsf (l.qubits.map D))) ∧
    logicalsX (l.toCodeData.deform D) = some (l.rowsX.map (deformBsf (l.qubits.map D))) ∧
    logicalsZ (l.toCodeData.deform D) = some (l.rowsZ.map (deformBsf (l.qubits.map D))) ∧
    ValidCodeL n k (l.rowsH.map (deformBsf (l.qubits.map D)))
      (l.rowsX.map (deformBsf (l.qubits.map D))) (l.rowsZ.map (deformBsf (l.qubits.map D))) ∧
    distance (l.rowsX.map (deformBsf (l.qubits.map D)))
      (l.rowsZ.map (deformBsf (l.qubits.map D))) = some d ∧
    IsDistance n (l.rowsH.map (deformBsf (l.qubits.map D))) d := by
  have hlen : (l.qubits.map D).length = n := by simpa using hn
  have hp : ∀ D' ∈ l.qubits.map D, D'.isPerm = true := by
    intro D' hD'
    obtain ⟨q, hq, rfl⟩ := List.mem_map.mp hD'
    exact hperm q hq
  have hS : ∀ op ∈ l.toCodeData.stabOps, KeysNodup op := by
    intro op ho
    obtain ⟨s, hs, rfl⟩ := List.mem_map.mp ho
    exact hwf.stab_keys s hs
  have hX : ∀ op ∈ l.toCodeData.logX, KeysNodup op := fun op ho =>
    hwf.log_keys op (List.mem_append.mpr (Or.inl ho))
  have hZ : ∀ op ∈ l.toCodeData.logZ, KeysNodup op := fun op ho =>
    hwf.log_keys op (List.mem_append.mpr (Or.inr ho))
  refine ⟨?_, ?_, ?_, Deform.validCode_deform hlen hp hv, ?_,
    Deform.isDistance_deform hlen hp hv.wfH hd⟩
  · rw [Deform.stabilizerMatrix_deform _ D hS, Lattice.stabilizerMatrix_eq hwf]; rfl
  · rw [Deform.logicalsX_deform _ D hX, Lattice.logicalsX_eq hwf]; rfl
  · rw [Deform.logicalsZ_deform _ D hZ, Lattice.logicalsZ_eq hwf]; rfl
  · rw [Deform.distance_deform hlen hp hv.wfX hv.wfZ]; exact hrep

/-- whatever the 2-D `get_deformation` returns is a permutation of {X, Y, Z} -/
theorem Lat2D.deformBy_isPerm {qa : Coord → Option String} {name axis : String} {loc : Coord}
    {m : PauliMap} (h : Lat2D.deformBy qa name axis loc = some m) : m.isPerm = true := by
  unfold Lat2D.deformBy at h
  split at h
  · cases h
  · split at h
    · split at h
      · cases h
      · split at h <;> cases h <;> decide
    · split at h <;> cases h
      decide

end Panqec
