/-
Color666ToricCode, square sizes `L ≥ 1`: a face meets the logical string `C` (columns `x = 3, 4`)
in an even number of qubits: only the faces of the columns `x = 2` and `x = 5` touch it, each in
exactly two qubits.  Core Lean only.
-/
import PanqecVerif.Proofs.LatColor666ToricCodeE

set_option linter.unusedVariables false
set_option linter.unusedSimpArgs false

namespace Panqec.Color666ToricCode
open Panqec.Lat2D Panqec.Color

theorem PC_transfer {a b px py : Int} (w : a = px ∨ (a < 2 ∧ 9 ≤ px))
    (hy : a = px → b % 12 = py % 12) : PC a b ↔ PC px py := by
  unfold PC
  constructor
  · rintro (⟨h1, h2⟩ | ⟨h1, h2⟩)
    · have e : a = px := by omega
      have := hy e
      left; omega
    · have e : a = px := by omega
      have := hy e
      right; omega
  · rintro (⟨h1, h2⟩ | ⟨h1, h2⟩)
    · have e : a = px := by omega
      have := hy e
      left; omega
    · have e : a = px := by omega
      have := hy e
      right; omega

theorem PC_def (a b : Int) : PC a b ↔ ((a = 3 ∧ (b % 12 = 4 ∨ b % 12 = 8)) ∨ (a = 4 ∧ (b % 12 = 2 ∨ b % 12 = 10))) := Iff.rfl

theorem face_C_even {L : Nat} (hL : 1 ≤ L) {x y : Int} (h : IsF L x y) :
    (supp L x y).countP πC % 2 = 0 := by
  obtain ⟨a1, b1, e1, -, -, w1, y1⟩ := corner_inv hL h (dx := -1) (dy := -2) (by omega)
  obtain ⟨a2, b2, e2, -, -, w2, y2⟩ := corner_inv hL h (dx := 1) (dy := -2) (by omega)
  obtain ⟨a3, b3, e3, -, -, w3, y3⟩ := corner_inv hL h (dx := 2) (dy := 0) (by omega)
  obtain ⟨a4, b4, e4, -, -, w4, y4⟩ := corner_inv hL h (dx := 1) (dy := 2) (by omega)
  obtain ⟨a5, b5, e5, -, -, w5, y5⟩ := corner_inv hL h (dx := -1) (dy := 2) (by omega)
  obtain ⟨a6, b6, e6, -, -, w6, y6⟩ := corner_inv hL h (dx := -2) (dy := 0) (by omega)
  have r1 : PC a1 b1 ↔ PC (x + -1) (y + -2) := PC_transfer w1 y1
  have r2 : PC a2 b2 ↔ PC (x + 1) (y + -2) := PC_transfer w2 y2
  have r3 : PC a3 b3 ↔ PC (x + 2) (y + 0) := PC_transfer w3 y3
  have r4 : PC a4 b4 ↔ PC (x + 1) (y + 2) := PC_transfer w4 y4
  have r5 : PC a5 b5 ↔ PC (x + -1) (y + 2) := PC_transfer w5 y5
  have r6 : PC a6 b6 ↔ PC (x + -2) (y + 0) := PC_transfer w6 y6
  unfold supp
  rw [e1, e2, e3, e4, e5, e6]
  simp only [List.countP_cons, List.countP_nil, πC, decide_eq_true_eq, r1, r2, r3, r4, r5, r6]
  unfold IsF skew at h
  clear e1 e2 e3 e4 e5 e6 w1 w2 w3 w4 w5 w6 y1 y2 y3 y4 y5 y6 r1 r2 r3 r4 r5 r6
  simp only [PC_def]
  by_cases hx2 : x = 2
  · subst hx2
    have hy : y % 12 = 2 ∨ y % 12 = 6 ∨ y % 12 = 10 := by omega
    clear h
    simp only [Int.reduceAdd, Int.reduceEq, false_and, true_and, or_false, false_or, if_false,
      Int.add_zero]
    rcases hy with hy | hy | hy <;> (repeat' split) <;> omega
  · by_cases hx5 : x = 5
    · subst hx5
      have hy : y % 12 = 4 ∨ y % 12 = 8 ∨ y % 12 = 0 := by omega
      clear h
      simp only [Int.reduceAdd, Int.reduceEq, false_and, true_and, or_false, false_or, if_false,
        Int.add_zero]
      rcases hy with hy | hy | hy <;> (repeat' split) <;> omega
    · have h3 : x % 3 = 2 := h.1
      clear h
      split
      · omega
      split
      · omega
      split
      · omega
      split
      · omega
      split
      · omega
      split
      · omega
      rfl

end Panqec.Color666ToricCode
