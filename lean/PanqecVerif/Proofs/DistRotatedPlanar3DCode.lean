/-
RotatedPlanar3DCode, all sizes, C17: translates of the two listed logical operators, the parity
argument, weights of the listed logicals.

Horizontal qubits sit at odd/odd/odd coordinates (layers `z = 2k + 1`, each a rotated planar
2-D code), vertical qubits at even/even/even coordinates with `(x + y) % 4 = 2` between layers.

`X̄` (X on the row `y = 1` of the layer `z = 1`, weight `Lx`) has the `Ly·Lz` translates
`(y, z) = (2j + 1, 2k + 1)`.  Moving up one layer multiplies by the row of vertical face
generators between the two rows: consecutive faces share one vertical qubit (zig-zag), the two
outermost vertical positions are not qubits.  Moving to the next row inside the layer `z = 1`
multiplies by the horizontal face generators between the rows, which tile both rows like dominoes
(as in the 2-D rotated code).

`Z̄` (Z on the plane `x = 1`, weight `Ly·Lz`) has the `Lx` translates `x = 2i + 1`; the vertex
generators of the slab `x = 2i + 2` tile the two neighbouring planes like dominoes in every layer,
and each vertical qubit of the slab belongs to the two vertices above and below it.
So the distance is `min Lx (Ly·Lz)`.
-/
import PanqecVerif.Proofs.DistLat3Db
import PanqecVerif.Proofs.LatRotatedPlanar3DCode5
import PanqecVerif.Proofs.LatRotatedPlanar3DCode6

namespace Panqec.RotatedPlanar3DCode
open Panqec.Lat3Db
open Panqec.Lat2D (rsum rsum2 rsum_congr rsum2_congr rsum_even rsum_add rsum2_add rsum_pairs
  rsum_shift_open ladder chain slab_domino)
open Panqec.Cubic3D (RepsOK uopReps opAntiCount_uop_hit uop)

/-- indicator restricted to the qubits: `0` outside the lattice -/
def indQ (Lx Ly Lz : Nat) (P : Pauli) (b : Op) (q : Coord) : Nat :=
  if isQubit Lx Ly Lz q = true then Lat2D.ind P b q else 0

theorem indQ_of {Lx Ly Lz : Nat} {x y z : Int} (P : Pauli) (b : Op)
    (h : QH Lx Ly Lz x y z ∨ QV Lx Ly Lz x y z) :
    indQ Lx Ly Lz P b [x, y, z] = Lat2D.ind P b [x, y, z] := by
  unfold indQ; rw [if_pos ((isQubit_iff Lx Ly Lz x y z).mpr h)]

theorem indQ_of_not {Lx Ly Lz : Nat} {x y z : Int} (P : Pauli) (b : Op)
    (h : ¬ (QH Lx Ly Lz x y z ∨ QV Lx Ly Lz x y z)) : indQ Lx Ly Lz P b [x, y, z] = 0 := by
  unfold indQ; rw [if_neg (fun h' => h ((isQubit_iff Lx Ly Lz x y z).mp h'))]

theorem ite_and_bool (p q : Bool) :
    (if (p && q) = true then 1 else 0) = if q = true then (if p = true then 1 else 0) else 0 := by
  cases p <;> cases q <;> rfl

/-- `b` commutes with every stabilizer generator of the lattice -/
def CommStabs (Lx Ly Lz : Nat) (b : Op) : Prop :=
  ∀ s ∈ (lattice Lx Ly Lz).stabs, opAntiCount ((lattice Lx Ly Lz).getStab s) b % 2 = 0

variable {Lx Ly Lz : Nat}

/-! ### one generator (neighbours given by name) -/

theorem vertex_even {b : Op} (hb : CommStabs Lx Ly Lz b) {x y z : Int} (hv : SV Lx Ly Lz x y z)
    {xm xp ym yp zm zp : Int} (e1 : x - 1 = xm) (e2 : x + 1 = xp) (e3 : y - 1 = ym)
    (e4 : y + 1 = yp) (e5 : z - 1 = zm) (e6 : z + 1 = zp) :
    (indQ Lx Ly Lz Pauli.Z b [xm, ym, z] + indQ Lx Ly Lz Pauli.Z b [xm, yp, z]
      + indQ Lx Ly Lz Pauli.Z b [xp, ym, z] + indQ Lx Ly Lz Pauli.Z b [xp, yp, z]
      + indQ Lx Ly Lz Pauli.Z b [x, y, zm] + indQ Lx Ly Lz Pauli.Z b [x, y, zp]) % 2 = 0 := by
  have h : opAntiCount (getStab Lx Ly Lz [x, y, z]) b % 2 = 0 :=
    hb [x, y, z] ((mem_stabs_iff Lx Ly Lz x y z).mpr (Or.inl hv))
  rw [getStab_vertex Lx Ly Lz x y z hv, opAntiCount_constOp_hit] at h
  subst e1 e2 e3 e4 e5 e6
  unfold vertexKeys vertexLocs at h
  rw [List.countP_filter] at h
  simp only [List.countP_cons, List.countP_nil, ite_and_bool] at h
  unfold indQ Lat2D.ind
  omega

theorem faceZ_even {b : Op} (hb : CommStabs Lx Ly Lz b) {x y z : Int} (hv : SH Lx Ly Lz x y z)
    {xm xp ym yp : Int} (e1 : x - 1 = xm) (e2 : x + 1 = xp) (e3 : y - 1 = ym) (e4 : y + 1 = yp) :
    (indQ Lx Ly Lz Pauli.X b [xm, ym, z] + indQ Lx Ly Lz Pauli.X b [xp, yp, z]
      + indQ Lx Ly Lz Pauli.X b [xm, yp, z] + indQ Lx Ly Lz Pauli.X b [xp, ym, z]) % 2 = 0 := by
  have h : opAntiCount (getStab Lx Ly Lz [x, y, z]) b % 2 = 0 :=
    hb [x, y, z] ((mem_stabs_iff Lx Ly Lz x y z).mpr (Or.inr (Or.inl hv)))
  rw [getStab_faceZ Lx Ly Lz x y z hv, opAntiCount_constOp_hit] at h
  subst e1 e2 e3 e4
  unfold faceZKeys faceZLocs at h
  rw [List.countP_filter] at h
  simp only [List.countP_cons, List.countP_nil, ite_and_bool] at h
  unfold indQ Lat2D.ind
  omega

theorem faceX_even {b : Op} (hb : CommStabs Lx Ly Lz b) {x y z : Int} (hv : SF Lx Ly Lz x y z)
    (h4 : (x + y) % 4 = 0) {xm xp ym yp zm zp : Int} (e1 : x - 1 = xm) (e2 : x + 1 = xp)
    (e3 : y - 1 = ym) (e4 : y + 1 = yp) (e5 : z - 1 = zm) (e6 : z + 1 = zp) :
    (indQ Lx Ly Lz Pauli.X b [xm, ym, z] + indQ Lx Ly Lz Pauli.X b [xp, yp, z]
      + indQ Lx Ly Lz Pauli.X b [x, y, zm] + indQ Lx Ly Lz Pauli.X b [x, y, zp]) % 2 = 0 := by
  have h : opAntiCount (getStab Lx Ly Lz [x, y, z]) b % 2 = 0 :=
    hb [x, y, z] ((mem_stabs_iff Lx Ly Lz x y z).mpr (Or.inr (Or.inr hv)))
  rw [getStab_faceX Lx Ly Lz x y z hv h4, opAntiCount_constOp_hit] at h
  subst e1 e2 e3 e4 e5 e6
  unfold faceXKeys faceXLocs at h
  rw [List.countP_filter] at h
  simp only [List.countP_cons, List.countP_nil, ite_and_bool] at h
  unfold indQ Lat2D.ind
  omega

theorem faceY_even {b : Op} (hb : CommStabs Lx Ly Lz b) {x y z : Int} (hv : SF Lx Ly Lz x y z)
    (h4 : (x + y) % 4 = 2) {xm xp ym yp zm zp : Int} (e1 : x - 1 = xm) (e2 : x + 1 = xp)
    (e3 : y - 1 = ym) (e4 : y + 1 = yp) (e5 : z - 1 = zm) (e6 : z + 1 = zp) :
    (indQ Lx Ly Lz Pauli.X b [xm, yp, z] + indQ Lx Ly Lz Pauli.X b [xp, ym, z]
      + indQ Lx Ly Lz Pauli.X b [x, y, zm] + indQ Lx Ly Lz Pauli.X b [x, y, zp]) % 2 = 0 := by
  have h : opAntiCount (getStab Lx Ly Lz [x, y, z]) b % 2 = 0 :=
    hb [x, y, z] ((mem_stabs_iff Lx Ly Lz x y z).mpr (Or.inr (Or.inr hv)))
  rw [getStab_faceY Lx Ly Lz x y z hv h4, opAntiCount_constOp_hit] at h
  subst e1 e2 e3 e4 e5 e6
  unfold faceYKeys faceYLocs at h
  rw [List.countP_filter] at h
  simp only [List.countP_cons, List.countP_nil, ite_and_bool] at h
  unfold indQ Lat2D.ind
  omega

/-! ### the translates -/

/-- `X̄` translated to the row `y = 2j + 1` of the layer `z = 2k + 1` -/
def lineX (Lx : Nat) (j k : Nat) : List Coord :=
  (pyRange2 1 (2 * Lx)).map fun x => [x, 2 * (j : Int) + 1, 2 * (k : Int) + 1]
/-- `Z̄` translated to the plane `x = 2i + 1` -/
def planeX (Ly Lz : Nat) (i : Nat) : List Coord :=
  (pyRange2 1 (2 * Lz)).flatMap fun z => (pyRange2 1 (2 * Ly)).map fun y => [2 * (i : Int) + 1, y, z]

theorem logXKeys_eq (Lx : Nat) : logXKeys Lx = lineX Lx 0 0 := rfl
theorem logZKeys_eq (Ly Lz : Nat) : logZKeys Ly Lz = planeX Ly Lz 0 := rfl

theorem mem_lineX {Lx j k : Nat} {q : Coord} :
    q ∈ lineX Lx j k ↔ ∃ x, R1 (2 * Lx) x ∧ q = [x, 2 * (j : Int) + 1, 2 * (k : Int) + 1] := by
  simp only [lineX, List.mem_map, mem_pyRange2_1]
  constructor
  · rintro ⟨x, hx, rfl⟩; exact ⟨x, hx, rfl⟩
  · rintro ⟨x, hx, rfl⟩; exact ⟨x, hx, rfl⟩
theorem mem_planeX {Ly Lz i : Nat} {q : Coord} :
    q ∈ planeX Ly Lz i ↔
      ∃ y z, R1 (2 * Ly) y ∧ R1 (2 * Lz) z ∧ q = [2 * (i : Int) + 1, y, z] := by
  simp only [planeX, List.mem_flatMap, List.mem_map, mem_pyRange2_1]
  constructor
  · rintro ⟨z, hz, y, hy, rfl⟩; exact ⟨y, z, hy, hz, rfl⟩
  · rintro ⟨y, z, hy, hz, rfl⟩; exact ⟨z, hz, y, hy, rfl⟩

theorem lineX_nodup (Lx j k : Nat) : (lineX Lx j k).Nodup :=
  List.Nodup.map (fun a b h => by simpa using h) (nodup_pyRange2 _ _)

theorem planeX_nodup (Ly Lz i : Nat) : (planeX Ly Lz i).Nodup := by
  unfold planeX
  rw [List.nodup_flatMap]
  refine ⟨fun z _ => ?_, ?_⟩
  · refine List.Nodup.map ?_ (nodup_pyRange2 _ _)
    intro a b h; simpa using h
  · refine List.Pairwise.imp_of_mem ?_ (nodup_pyRange2 1 (2 * Lz))
    intro a b _ _ hab
    simp only [Function.onFun, List.Disjoint, List.mem_map]
    rintro c ⟨y, _, rfl⟩ ⟨y', _, h⟩
    simp only [List.cons.injEq, and_true] at h
    exact hab h.2.2.symm

theorem lineX_sub {j k : Nat} (hj : j < Ly) (hk : k < Lz) :
    ∀ q ∈ lineX Lx j k, q ∈ qubits Lx Ly Lz := by
  intro q hq
  obtain ⟨x, hx, rfl⟩ := mem_lineX.mp hq
  rw [mem_qubits_iff]
  left
  unfold QH R1 at *
  omega
theorem planeX_sub {i : Nat} (hi : i < Lx) : ∀ q ∈ planeX Ly Lz i, q ∈ qubits Lx Ly Lz := by
  intro q hq
  obtain ⟨y, z, hy, hz, rfl⟩ := mem_planeX.mp hq
  rw [mem_qubits_iff]
  left
  unfold QH R1 at *
  omega

/-! ### `X̄`: moving up one layer -/

/-- the `y` coordinate of the vertical qubit shared by the vertical faces `x = 2a - 1` and
    `x = 2a + 1` of the row `y = 2j + 1` -/
def zig (j a : Nat) : Int := if (a + j) % 2 = 1 then 2 * (j : Int) else 2 * (j : Int) + 2

theorem parity_Xz {b : Op} (hb : CommStabs Lx Ly Lz b) (j : Nat) (hj : j < Ly) (i : Nat)
    (hi : i < Lz) :
    (lineX Lx j i).countP (opHit Pauli.X b) % 2 = (lineX Lx j 0).countP (opHit Pauli.X b) % 2 := by
  unfold lineX
  rw [countP_lineO, countP_lineO]
  have h := ladder Lx Lz
    (fun i a => indQ Lx Ly Lz Pauli.X b [2 * (a : Int) + 1, 2 * (j : Int) + 1, 2 * (i : Int) + 1])
    (fun i a => indQ Lx Ly Lz Pauli.X b [2 * (a : Int), zig j a, 2 * (i : Int) + 2])
    (fun i a => indQ Lx Ly Lz Pauli.X b [2 * ((a + 1 : Nat) : Int), zig j (a + 1), 2 * (i : Int) + 2])
    ?_ ?_ i hi
  · have e : ∀ i : Nat, i < Lz → rsum Lx (fun a =>
          if opHit Pauli.X b [2 * (a : Int) + 1, 2 * (j : Int) + 1, 2 * (i : Int) + 1] = true
            then 1 else 0) =
        rsum Lx (fun a =>
          indQ Lx Ly Lz Pauli.X b [2 * (a : Int) + 1, 2 * (j : Int) + 1, 2 * (i : Int) + 1]) :=
      fun i hi => rsum_congr Lx (fun a ha => by
        rw [indQ_of _ _ (Or.inl (by unfold QH R1; omega))]
        rfl)
    rw [e i hi, e 0 (by omega)]
    exact h
  · intro i _
    exact rsum_shift_open
      (fun a => indQ Lx Ly Lz Pauli.X b [2 * (a : Int), zig j a, 2 * (i : Int) + 2]) Lx
      (indQ_of_not _ _ (by unfold QH QV R1 R2; omega))
      (indQ_of_not _ _ (by unfold QH QV R1 R2; omega))
  · intro i hi a ha
    have hf : SF Lx Ly Lz (2 * (a : Int) + 1) (2 * (j : Int) + 1) (2 * (i : Int) + 2) := by
      unfold SF R1 R2; omega
    by_cases hp : (a + j) % 2 = 1
    · have z1 : zig j a = 2 * (j : Int) := by unfold zig; rw [if_pos hp]
      have z2 : zig j (a + 1) = 2 * (j : Int) + 2 := by unfold zig; rw [if_neg (by omega)]
      have h := faceX_even hb hf (by omega) (xm := 2 * (a : Int))
        (xp := 2 * ((a + 1 : Nat) : Int)) (ym := 2 * (j : Int)) (yp := 2 * (j : Int) + 2)
        (zm := 2 * (i : Int) + 1) (zp := 2 * ((i + 1 : Nat) : Int) + 1)
        (by omega) (by omega) (by omega) (by omega) (by omega) (by omega)
      rw [z1, z2]
      omega
    · have z1 : zig j a = 2 * (j : Int) + 2 := by unfold zig; rw [if_neg hp]
      have z2 : zig j (a + 1) = 2 * (j : Int) := by unfold zig; rw [if_pos (by omega)]
      have h := faceY_even hb hf (by omega) (xm := 2 * (a : Int))
        (xp := 2 * ((a + 1 : Nat) : Int)) (ym := 2 * (j : Int)) (yp := 2 * (j : Int) + 2)
        (zm := 2 * (i : Int) + 1) (zp := 2 * ((i + 1 : Nat) : Int) + 1)
        (by omega) (by omega) (by omega) (by omega) (by omega) (by omega)
      rw [z1, z2]
      omega

/-! ### `X̄`: moving to the next row inside the layer `z = 1` -/

/-- two consecutive rows of the bottom layer: the horizontal faces between them tile both -/
theorem pair_X (hLz : 1 ≤ Lz) {b : Op} (hb : CommStabs Lx Ly Lz b) (i : Nat) (hi : i + 1 < Ly) :
    (rsum Lx (fun a => indQ Lx Ly Lz Pauli.X b
        [2 * (a : Int) + 1, 2 * (i : Int) + 1, 2 * ((0 : Nat) : Int) + 1]) +
      rsum Lx (fun a => indQ Lx Ly Lz Pauli.X b
        [2 * (a : Int) + 1, 2 * ((i + 1 : Nat) : Int) + 1, 2 * ((0 : Nat) : Int) + 1])) % 2 = 0 := by
  have hp := rsum_pairs ((i + 1) % 2) (Nat.mod_lt _ (by omega)) Lx
    (fun w => indQ Lx Ly Lz Pauli.X b [w, 2 * (i : Int) + 1, 2 * ((0 : Nat) : Int) + 1]
      + indQ Lx Ly Lz Pauli.X b [w, 2 * (i : Int) + 3, 2 * ((0 : Nat) : Int) + 1])
    (by rw [indQ_of_not _ _ (by unfold QH QV R1 R2; omega),
      indQ_of_not _ _ (by unfold QH QV R1 R2; omega)])
    (by rw [indQ_of_not _ _ (by unfold QH QV R1 R2; omega),
      indQ_of_not _ _ (by unfold QH QV R1 R2; omega)])
  have e : (2 * ((i + 1 : Nat) : Int) + 1) = 2 * (i : Int) + 3 := by omega
  rw [e, ← rsum_add, ← hp]
  apply rsum_even
  intro k hk
  by_cases hke : k % 2 = (i + 1) % 2
  · rw [if_pos hke]
    have hs : SH Lx Ly Lz (2 * (k : Int)) (2 * (i : Int) + 2) (2 * ((0 : Nat) : Int) + 1) := by
      unfold SH R0 R1 R2; omega
    have h := faceZ_even hb hs (xm := 2 * (k : Int) - 1) (xp := 2 * (k : Int) + 1)
      (ym := 2 * (i : Int) + 1) (yp := 2 * (i : Int) + 3) rfl rfl (by omega) (by omega)
    omega
  · rw [if_neg hke]

theorem parity_Xy (hLz : 1 ≤ Lz) {b : Op} (hb : CommStabs Lx Ly Lz b) (i : Nat) (hi : i < Ly) :
    (lineX Lx i 0).countP (opHit Pauli.X b) % 2 = (lineX Lx 0 0).countP (opHit Pauli.X b) % 2 := by
  unfold lineX
  rw [countP_lineO, countP_lineO]
  have h := chain Ly (fun i => rsum Lx (fun a => indQ Lx Ly Lz Pauli.X b
    [2 * (a : Int) + 1, 2 * (i : Int) + 1, 2 * ((0 : Nat) : Int) + 1]))
    (fun i hi => pair_X hLz hb i hi) i hi
  have e : ∀ i : Nat, i < Ly → rsum Lx (fun a =>
        if opHit Pauli.X b [2 * (a : Int) + 1, 2 * (i : Int) + 1, 2 * ((0 : Nat) : Int) + 1] = true
          then 1 else 0) =
      rsum Lx (fun a => indQ Lx Ly Lz Pauli.X b
        [2 * (a : Int) + 1, 2 * (i : Int) + 1, 2 * ((0 : Nat) : Int) + 1]) :=
    fun i hi => rsum_congr Lx (fun a ha => by
      rw [indQ_of _ _ (Or.inl (by unfold QH R1; omega))]
      rfl)
  rw [e i hi, e 0 (by omega)]
  exact h

/-! ### `Z̄`: the slab of vertices between two planes -/

theorem pair_Z {b : Op} (hb : CommStabs Lx Ly Lz b) (i : Nat) (hi : i + 1 < Lx) :
    (rsum2 Lz Ly (fun k j => indQ Lx Ly Lz Pauli.Z b
        [2 * (i : Int) + 1, 2 * (j : Int) + 1, 2 * (k : Int) + 1]) +
      rsum2 Lz Ly (fun k j => indQ Lx Ly Lz Pauli.Z b
        [2 * ((i + 1 : Nat) : Int) + 1, 2 * (j : Int) + 1, 2 * (k : Int) + 1])) % 2 = 0 := by
  have hd := slab_domino (i % 2) (Nat.mod_lt _ (by omega)) Lz Ly
    (fun k w => indQ Lx Ly Lz Pauli.Z b [2 * (i : Int) + 1, w, 2 * (k : Int) + 1]
      + indQ Lx Ly Lz Pauli.Z b [2 * (i : Int) + 3, w, 2 * (k : Int) + 1])
    (fun k m => indQ Lx Ly Lz Pauli.Z b [2 * (i : Int) + 2, 2 * (m : Int), 2 * (k : Int)])
    (fun k _ => by rw [indQ_of_not _ _ (by unfold QH QV R0 R1 R2; omega),
      indQ_of_not _ _ (by unfold QH QV R0 R1 R2; omega)])
    (fun k _ => by rw [indQ_of_not _ _ (by unfold QH QV R0 R1 R2; omega),
      indQ_of_not _ _ (by unfold QH QV R0 R1 R2; omega)])
    (fun m _ => indQ_of_not _ _ (by unfold QH QV R0 R1 R2; omega))
    (fun m _ => indQ_of_not _ _ (by unfold QH QV R0 R1 R2; omega))
    (fun k m hk hm hme => by
      have hv : SV Lx Ly Lz (2 * (i : Int) + 2) (2 * (m : Int)) (2 * (k : Int) + 1) := by
        unfold SV R0 R1 R2; omega
      have h := vertex_even hb hv (xm := 2 * (i : Int) + 1) (xp := 2 * (i : Int) + 3)
        (ym := 2 * (m : Int) - 1) (yp := 2 * (m : Int) + 1) (zm := 2 * (k : Int))
        (zp := 2 * ((k + 1 : Nat) : Int)) (by omega) (by omega) rfl rfl (by omega) (by omega)
      omega)
  have e : (2 * ((i + 1 : Nat) : Int) + 1) = 2 * (i : Int) + 3 := by omega
  rw [e, ← rsum2_add]
  exact hd

theorem parity_Z {b : Op} (hb : CommStabs Lx Ly Lz b) (i : Nat) (hi : i < Lx) :
    (planeX Ly Lz i).countP (opHit Pauli.Z b) % 2 =
      (planeX Ly Lz 0).countP (opHit Pauli.Z b) % 2 := by
  unfold planeX
  rw [countP_planeO, countP_planeO]
  have h := chain Lx (fun i => rsum2 Lz Ly (fun k j => indQ Lx Ly Lz Pauli.Z b
    [2 * (i : Int) + 1, 2 * (j : Int) + 1, 2 * (k : Int) + 1])) (fun i hi => pair_Z hb i hi) i hi
  have e : ∀ i : Nat, i < Lx → rsum2 Lz Ly (fun k j =>
        if opHit Pauli.Z b [2 * (i : Int) + 1, 2 * (j : Int) + 1, 2 * (k : Int) + 1] = true
          then 1 else 0) =
      rsum2 Lz Ly (fun k j => indQ Lx Ly Lz Pauli.Z b
        [2 * (i : Int) + 1, 2 * (j : Int) + 1, 2 * (k : Int) + 1]) :=
    fun i hi => rsum2_congr (fun k j hk hj => by
      rw [indQ_of _ _ (Or.inl (by unfold QH R1; omega))]
      rfl)
  rw [e i hi, e 0 (by omega)]
  exact h

/-! ### the packing bound -/

/-- the `Ly·Lz` translates of `X̄`, indexed by `i = j·Lz + k` -/
def lineFam (Lx Lz : Nat) (i : Nat) : List Coord := lineX Lx (i / Lz) (i % Lz)

theorem repsX (hLz : 1 ≤ Lz) (P : Pauli) :
    RepsOK (qubits Lx Ly Lz) (lineFam Lx Lz) (Ly * Lz) P :=
  uopReps _ _ _ P (fun i => lineX_nodup Lx _ _)
    (fun i hi => lineX_sub (Nat.div_lt_of_lt_mul (by rw [Nat.mul_comm]; exact hi))
      (Nat.mod_lt _ (by omega)))
    (fun i i' h q hq hq' => by
      obtain ⟨x, _, rfl⟩ := mem_lineX.mp hq
      obtain ⟨x', _, e⟩ := mem_lineX.mp hq'
      simp only [List.cons.injEq, and_true] at e
      have h1 := Nat.div_add_mod i Lz
      have h2 := Nat.div_add_mod i' Lz
      have e1 : i / Lz = i' / Lz := by omega
      have e2 : i % Lz = i' % Lz := by omega
      rw [e1, e2] at h1
      omega)

theorem repsZ (P : Pauli) : RepsOK (qubits Lx Ly Lz) (planeX Ly Lz) Lx P :=
  uopReps _ _ _ P (planeX_nodup Ly Lz) (fun i hi => planeX_sub hi)
    (fun i i' h q hq hq' => by
      obtain ⟨y, z, _, _, rfl⟩ := mem_planeX.mp hq
      obtain ⟨y', z', _, _, e⟩ := mem_planeX.mp hq'
      simp only [List.cons.injEq, and_true] at e; omega)

/-- every non-trivial logical operator of the `Lx × Ly × Lz` rotated 3-D planar code has weight
    `≥ min Lx (Ly·Lz)` -/
theorem lower_bound (hLz : 1 ≤ Lz) (hwf : (lattice Lx Ly Lz).WF)
    {n : Nat} (hn : (qubits Lx Ly Lz).length = n)
    (hv : ValidCodeL n 1 (lattice Lx Ly Lz).rowsH (lattice Lx Ly Lz).rowsX
      (lattice Lx Ly Lz).rowsZ) :
    ∀ v, IsNontrivialLogical n (lattice Lx Ly Lz).rowsH v → min Lx (Ly * Lz) ≤ pauliWeight v := by
  apply Lattice.packing_bound (lattice Lx Ly Lz) hwf hn hv
  intro a ha
  change a ∈ logX Lx Ly Lz ++ logZ Lx Ly Lz at ha
  change ∃ reps : List Op, _ ∧ (∀ r ∈ reps, KeysNodup r ∧ opSupported (qubits Lx Ly Lz) r = true) ∧ _
  rw [logX_eq, logZ_eq] at ha
  simp only [List.cons_append, List.nil_append, List.mem_cons, List.not_mem_nil, or_false] at ha
  rcases ha with rfl | rfl
  · obtain ⟨h1, h2, h3⟩ := repsX (Lx := Lx) (Ly := Ly) (Lz := Lz) hLz Pauli.X
    refine ⟨_, by rw [h1]; exact Nat.min_le_right _ _, h2, h3, ?_⟩
    intro b _ _ hb r hr
    obtain ⟨i, hi, rfl⟩ := List.mem_map.mp hr
    have hi' := List.mem_range.mp hi
    have hj : i / Lz < Ly := Nat.div_lt_of_lt_mul (by rw [Nat.mul_comm]; exact hi')
    have hk : i % Lz < Lz := Nat.mod_lt _ (by omega)
    rw [logXKeys_eq, opAntiCount_uop_hit, opAntiCount_constOp_hit]
    unfold lineFam
    rw [parity_Xz hb _ hj _ hk, parity_Xy hLz hb _ hj]
  · obtain ⟨h1, h2, h3⟩ := repsZ (Lx := Lx) (Ly := Ly) (Lz := Lz) Pauli.Z
    refine ⟨_, by rw [h1]; exact Nat.min_le_left _ _, h2, h3, ?_⟩
    intro b _ _ hb r hr
    obtain ⟨i, hi, rfl⟩ := List.mem_map.mp hr
    rw [logZKeys_eq, opAntiCount_uop_hit, opAntiCount_constOp_hit]
    exact parity_Z hb i (List.mem_range.mp hi)

/-! ### weights of the listed logicals, reported distance -/

theorem length_constOp (ks : List Coord) (p : Pauli) : (constOp ks p).length = ks.length := by
  simp [constOp]

theorem length_logZKeys (Ly Lz : Nat) : (logZKeys Ly Lz).length = Ly * Lz := by
  rw [logZKeys_eq]
  have h := countP_planeO (fun _ => true) (fun y z => [2 * ((0 : Nat) : Int) + 1, y, z]) Lz Ly
  rw [List.countP_eq_length.mpr (fun _ _ => rfl)] at h
  unfold planeX
  rw [h]
  unfold rsum2
  simp only [if_true]
  have c : ∀ L : Nat, rsum L (fun _ => 1) = L := by
    intro L; induction L with
    | zero => rfl
    | succ L ih => simp only [rsum, ih]
  have c2 : ∀ L : Nat, rsum L (fun _ => Ly) = L * Ly := by
    intro L; induction L with
    | zero => simp [rsum]
    | succ L ih => simp only [rsum, ih, Nat.succ_mul]
  rw [rsum_congr Lz (fun k _ => c Ly), c2, Nat.mul_comm]

/-- the row of `logicals_x` has weight `Lx` (a line), the row of `logicals_z` weight `Ly·Lz`
    (a plane) -/
theorem weights_listed (hwf : (lattice Lx Ly Lz).WF) :
    (lattice Lx Ly Lz).rowsX.map pauliWeight = [Lx] ∧
    (lattice Lx Ly Lz).rowsZ.map pauliWeight = [Ly * Lz] := by
  have hX : (lattice Lx Ly Lz).logX = logX Lx Ly Lz := rfl
  have hZ : (lattice Lx Ly Lz).logZ = logZ Lx Ly Lz := rfl
  have hw : ∀ a ∈ (lattice Lx Ly Lz).logX ++ (lattice Lx Ly Lz).logZ,
      pauliWeight (opRow (lattice Lx Ly Lz).qubits a) = a.length := fun a ha =>
    pauliWeight_opRow _ hwf.qubits_nodup a (hwf.log_keys a ha) (hwf.log_supported a ha)
  rw [hX, hZ, logX_eq, logZ_eq] at hw
  unfold Lattice.rowsX Lattice.rowsZ
  rw [hX, hZ, logX_eq, logZ_eq]
  simp only [List.map_cons, List.map_nil]
  rw [hw _ (by simp), hw _ (by simp)]
  simp only [length_constOp, length_logZKeys, logXKeys, List.length_map, length_pyRange2_odd]
  exact ⟨trivial, trivial⟩

/-- `code.d` (minimum weight of the listed logicals) is `min Lx (Ly·Lz)` -/
theorem reported_distance (hwf : (lattice Lx Ly Lz).WF) :
    distance (lattice Lx Ly Lz).rowsX (lattice Lx Ly Lz).rowsZ = some (min Lx (Ly * Lz)) := by
  obtain ⟨h1, h2⟩ := weights_listed hwf
  unfold distance
  show (match listMin ((lattice Lx Ly Lz).rowsX.map pauliWeight),
    listMin ((lattice Lx Ly Lz).rowsZ.map pauliWeight) with
    | some a, some b => some (min a b)
    | _, _ => none) = _
  rw [h1, h2]
  rfl

end Panqec.RotatedPlanar3DCode
