/-
`Toric3DCode`, every size with `2 ≤ Lx, Ly, Lz`: the clauses of `Lattice.CommPair`, assembled from
the overlap lemmas (`LatToric3DCodeComm`, `LatToric3DCodeLog`).
-/
import PanqecVerif.Proofs.LatToric3DCodeWF

set_option linter.unusedVariables false

namespace Panqec.Toric3DCode
open Panqec.Cubic3D

section
variable {Lx Ly Lz : Nat} (hLx : 2 ≤ Lx) (hLy : 2 ≤ Ly) (hLz : 2 ≤ Lz)
include hLx hLy hLz

/-- a stabilizer generator is either a vertex operator (letter Z) or a face operator (letter X)
    that overlaps every vertex operator on an even number of qubits and every logical Z plane on an
    even number of qubits -/
theorem getStab_kind {s : Coord} (hs : s ∈ stabs Lx Ly Lz) :
    (∃ x y z, isVertex Lx Ly Lz x y z ∧
      getStab Lx Ly Lz s = uop (vertexKeys Lx Ly Lz x y z) Pauli.Z) ∨
    (∃ ks, getStab Lx Ly Lz s = uop ks Pauli.X ∧ ks.Nodup ∧
      (∀ x y z, isVertex Lx Ly Lz x y z → ov (vertexKeys Lx Ly Lz x y z) ks % 2 = 0) ∧
      ov ks (lzK0 Ly Lz) % 2 = 0 ∧ ov ks (lzK1 Lz Lx) % 2 = 0 ∧ ov ks (lzK2 Lx Ly) % 2 = 0) := by
  obtain ⟨x, y, z, rfl, h | h | h | h⟩ := stab_cases hs
  · exact Or.inl ⟨x, y, z, h, getStab_vertex hLx hLy hLz h⟩
  · exact Or.inr ⟨_, getStab_faceXY hLx hLy hLz h, faceXYKeys_nodup hLx hLy hLz h,
      fun _ _ _ hv => ov_vertex_faceXY hLx hLy hLz hv h, ov_faceXY_lzK0 hLx hLy hLz h,
      ov_faceXY_lzK1 hLx hLy hLz h, ov_faceXY_lzK2 hLx hLy hLz h⟩
  · exact Or.inr ⟨_, getStab_faceYZ hLx hLy hLz h, faceYZKeys_nodup hLx hLy hLz h,
      fun _ _ _ hv => ov_vertex_faceYZ hLx hLy hLz hv h, ov_faceYZ_lzK0 hLx hLy hLz h,
      ov_faceYZ_lzK1 hLx hLy hLz h, ov_faceYZ_lzK2 hLx hLy hLz h⟩
  · exact Or.inr ⟨_, getStab_faceXZ hLx hLy hLz h, faceXZKeys_nodup hLx hLy hLz h,
      fun _ _ _ hv => ov_vertex_faceXZ hLx hLy hLz hv h, ov_faceXZ_lzK0 hLx hLy hLz h,
      ov_faceXZ_lzK1 hLx hLy hLz h, ov_faceXZ_lzK2 hLx hLy hLz h⟩

theorem stab_comm {s t : Coord} (hs : s ∈ stabs Lx Ly Lz) (ht : t ∈ stabs Lx Ly Lz) :
    opCommute (getStab Lx Ly Lz s) (getStab Lx Ly Lz t) = true := by
  rcases getStab_kind hLx hLy hLz hs with ⟨x, y, z, hv, e⟩ | ⟨ks, e, hn, hov, _⟩ <;>
    rcases getStab_kind hLx hLy hLz ht with ⟨x', y', z', hv', e'⟩ | ⟨ks', e', hn', hov', _⟩ <;>
    rw [e, e']
  · exact opCommute_uop_same _ _ _
  · exact opCommute_uop_of_even _ _ (hov' _ _ _ hv)
  · refine opCommute_uop_of_even _ _ ?_
    rw [ov_comm hn (vertexKeys_nodup hLx hLy hLz hv')]
    exact hov _ _ _ hv'
  · exact opCommute_uop_same _ _ _

theorem logX_comm {a : Op} (ha : a ∈ logX Lx Ly Lz) {s : Coord} (hs : s ∈ stabs Lx Ly Lz) :
    opCommute a (getStab Lx Ly Lz s) = true := by
  rw [logX_eq] at ha
  simp only [List.mem_cons, List.not_mem_nil, or_false] at ha
  rcases getStab_kind hLx hLy hLz hs with ⟨x, y, z, hv, e⟩ | ⟨ks, e, _⟩ <;> rw [e]
  · have hn := vertexKeys_nodup hLx hLy hLz hv
    rcases ha with rfl | rfl | rfl <;> refine opCommute_uop_of_even _ _ ?_
    · rw [ov_comm (lxK0_nodup _) hn]; exact ov_vertex_lxK0 hLx hLy hLz hv
    · rw [ov_comm (lxK1_nodup _) hn]; exact ov_vertex_lxK1 hLx hLy hLz hv
    · rw [ov_comm (lxK2_nodup _) hn]; exact ov_vertex_lxK2 hLx hLy hLz hv
  · rcases ha with rfl | rfl | rfl <;> exact opCommute_uop_same _ _ _

theorem logZ_comm {a : Op} (ha : a ∈ logZ Lx Ly Lz) {s : Coord} (hs : s ∈ stabs Lx Ly Lz) :
    opCommute a (getStab Lx Ly Lz s) = true := by
  rw [logZ_eq] at ha
  simp only [List.mem_cons, List.not_mem_nil, or_false] at ha
  rcases getStab_kind hLx hLy hLz hs with ⟨x, y, z, hv, e⟩ | ⟨ks, e, hn, _, h0, h1, h2⟩ <;> rw [e]
  · rcases ha with rfl | rfl | rfl <;> exact opCommute_uop_same _ _ _
  · rcases ha with rfl | rfl | rfl <;> refine opCommute_uop_of_even _ _ ?_
    · rw [ov_comm (lzK0_nodup _ _) hn]; exact h0
    · rw [ov_comm (lzK1_nodup _ _) hn]; exact h1
    · rw [ov_comm (lzK2_nodup _ _) hn]; exact h2

end

/-- the pairing table (needs only `1 ≤ L`) -/
theorem pairing {Lx Ly Lz : Nat} (hx : 1 ≤ Lx) (hy : 1 ≤ Ly) (hz : 1 ≤ Lz) (i j : Nat)
    (hi : i < 3) (hj : j < 3) :
    opAntiCount ((logX Lx Ly Lz).getD i []) ((logZ Lx Ly Lz).getD j []) % 2 =
      if i = j then 1 else 0 := by
  rw [logX_eq, logZ_eq]
  have hanti : Pauli.anti Pauli.X Pauli.Z = true := rfl
  rcases i with _ | _ | _ | i <;> rcases j with _ | _ | _ | j <;>
    first
    | omega
    | simp [opAntiCount_uop, hanti, ov_lxK0_lzK0 hx hy hz, ov_lxK1_lzK1 hx hy hz,
        ov_lxK2_lzK2 hx hy hz, ov_lxK0_lzK1 Lx Ly Lz, ov_lxK0_lzK2 Lx Ly Lz,
        ov_lxK1_lzK0 Lx Ly Lz, ov_lxK1_lzK2 Lx Ly Lz, ov_lxK2_lzK0 Lx Ly Lz,
        ov_lxK2_lzK1 Lx Ly Lz]

theorem logXX {Lx Ly Lz : Nat} {a b : Op} (ha : a ∈ logX Lx Ly Lz) (hb : b ∈ logX Lx Ly Lz) :
    opCommute a b = true := by
  rw [logX_eq] at ha hb
  simp only [List.mem_cons, List.not_mem_nil, or_false] at ha hb
  rcases ha with rfl | rfl | rfl <;> rcases hb with rfl | rfl | rfl <;>
    exact opCommute_uop_same _ _ _

theorem logZZ {Lx Ly Lz : Nat} {a b : Op} (ha : a ∈ logZ Lx Ly Lz) (hb : b ∈ logZ Lx Ly Lz) :
    opCommute a b = true := by
  rw [logZ_eq] at ha hb
  simp only [List.mem_cons, List.not_mem_nil, or_false] at ha hb
  rcases ha with rfl | rfl | rfl <;> rcases hb with rfl | rfl | rfl <;>
    exact opCommute_uop_same _ _ _

/-- `qubit_axis` on the three blocks of `get_qubit_coordinates` -/
theorem qubitAxis_of_mem_qubits {Lx Ly Lz : Nat} {x y z : Int} (h : [x, y, z] ∈ qubits Lx Ly Lz) :
    qubitAxis [x, y, z] =
      some (if x % 2 = 1 then Axis.x else if y % 2 = 1 then Axis.y else Axis.z) := by
  rw [mem_qubits] at h
  simp only [isE, isO] at h
  unfold qubitAxis
  rcases h with ⟨hx, hy, hz⟩ | ⟨hx, hy, hz⟩ | ⟨hx, hy, hz⟩
  · rw [Cubic3D.qubitAxis_x hx.2.2 hy.2.2 hz.2.2]; simp [hx.2.2]
  · rw [Cubic3D.qubitAxis_y hx.2.2 hy.2.2 hz.2.2]; simp [hx.2.2, hy.2.2]
  · rw [Cubic3D.qubitAxis_z hx.2.2 hy.2.2 hz.2.2]; simp [hx.2.2, hy.2.2]

/-- `stabilizer_type` and the letter / weight of `get_stabilizer` for the four kinds -/
theorem stab_shape {Lx Ly Lz : Nat} (hLx : 2 ≤ Lx) (hLy : 2 ≤ Ly) (hLz : 2 ≤ Lz) {s : Coord}
    (hs : s ∈ stabs Lx Ly Lz) :
    (stabilizerType Lx Ly Lz s = some StabType.vertex ∧
      ∃ ks, getStab Lx Ly Lz s = uop ks Pauli.Z ∧ ks.length = 6) ∨
    (stabilizerType Lx Ly Lz s = some StabType.face ∧
      ∃ ks, getStab Lx Ly Lz s = uop ks Pauli.X ∧ ks.length = 4) := by
  obtain ⟨x, y, z, rfl, h | h | h | h⟩ := stab_cases hs
  · left
    refine ⟨?_, _, getStab_vertex hLx hLy hLz h, rfl⟩
    obtain ⟨hx, hy, _⟩ := h
    simp only [isE] at hx hy
    simp [stabilizerType, hs, typeOf, hx.2.2, hy.2.2]
  · right
    refine ⟨?_, _, getStab_faceXY hLx hLy hLz h, rfl⟩
    obtain ⟨hx, hy, _⟩ := h
    simp only [isO] at hx hy
    simp [stabilizerType, hs, typeOf, hx.2.2, hy.2.2]
  · right
    refine ⟨?_, _, getStab_faceYZ hLx hLy hLz h, rfl⟩
    obtain ⟨hx, hy, _⟩ := h
    simp only [isE, isO] at hx hy
    simp [stabilizerType, hs, typeOf, hx.2.2, hy.2.2]
  · right
    refine ⟨?_, _, getStab_faceXZ hLx hLy hLz h, rfl⟩
    obtain ⟨hx, hy, _⟩ := h
    simp only [isE, isO] at hx hy
    simp [stabilizerType, hs, typeOf, hx.2.2, hy.2.2]

end Panqec.Toric3DCode
