/-
Color666ToricCode, all square sizes `L ≥ 1`, C17 part B: frames and the zig-zag ladder.

A FRAME `f` relabels the faces of the `3L × 3L` torus (`f = false`: the face coordinates of part A;
`f = true`: the picture rotated by 240° — face `(a, j)` of the frame is the face `(j, −a−j)`) so
that the six corners of the face `(a, j)` of the frame are, in both frames,
`fR a j, fL a j, fL (a+1) j, fL (a+1) (j−1), fR (a−1) (j+1), fR (a−1) j`.  One argument then
covers the strings `kC`, `kD` (vertical zig-zags, `f = false`) and `kA`, `kB` (zig-zags along the
anti-diagonal, `f = true`).

The zig-zag `Z c t` of a frame consists of the blocks `fR t J, fL (t+1) J, fL (t+1) (J+1),
fR t (J+2)` with `J = t + c + 3i`, `i < L` (`4L` qubits).  `Z c t` and `Z c (t+1)` differ by the
faces `(t+1, J)`, `(t+1, J+1)` of the column between them (two of their corners are counted twice,
two are shifted cyclically by one block): a dict operator that commutes with every generator
anticommutes (mod 2) with every `Z c t` on as many qubits as with `Z c 0` (`zig_parity`).
-/
import PanqecVerif.Proofs.DistColor666ToricCodeA
import PanqecVerif.Proofs.DistLines

set_option linter.unusedVariables false

namespace Panqec.Color666ToricCode
open Panqec.Lat2D Panqec.Color

/-! ### frames -/

/-- the right corner of the face `(a, j)` of the frame `f` -/
def fR (L : Nat) (f : Bool) (a j : Int) : Coord := if f then qR L (j - 1) (-a - j) else qR L a j
/-- the left corner of the face `(a, j)` of the frame `f` -/
def fL (L : Nat) (f : Bool) (a j : Int) : Coord := if f then qL L (j + 1) (-a - j) else qL L a j

theorem fR_eq_iff {L : Nat} (hL : 1 ≤ L) (f : Bool) (a j a' j' : Int) :
    fR L f a j = fR L f a' j' ↔ (Cg L (a' - a) ∧ Cg L (j' - j)) := by
  cases f
  · simp only [fR, Bool.false_eq_true, if_false]; exact qR_eq_iff hL a j a' j'
  · simp only [fR, if_true]
    rw [qR_eq_iff hL]
    constructor
    · rintro ⟨h1, h2⟩
      exact ⟨((h1.add h2).neg).congr (by ring), h1.congr (by ring)⟩
    · rintro ⟨h1, h2⟩
      exact ⟨h2.congr (by ring), ((h1.add h2).neg).congr (by ring)⟩

theorem fL_eq_iff {L : Nat} (hL : 1 ≤ L) (f : Bool) (a j a' j' : Int) :
    fL L f a j = fL L f a' j' ↔ (Cg L (a' - a) ∧ Cg L (j' - j)) := by
  cases f
  · simp only [fL, Bool.false_eq_true, if_false]; exact qL_eq_iff hL a j a' j'
  · simp only [fL, if_true]
    rw [qL_eq_iff hL]
    constructor
    · rintro ⟨h1, h2⟩
      exact ⟨((h1.add h2).neg).congr (by ring), h1.congr (by ring)⟩
    · rintro ⟨h1, h2⟩
      exact ⟨h2.congr (by ring), ((h1.add h2).neg).congr (by ring)⟩

theorem fR_ne_fL {L : Nat} (hL : 1 ≤ L) (f : Bool) (a j a' j' : Int) :
    fR L f a j ≠ fL L f a' j' := by
  cases f
  · simp only [fR, fL, Bool.false_eq_true, if_false]; exact qR_ne_qL hL _ _ _ _
  · simp only [fR, fL, if_true]; exact qR_ne_qL hL _ _ _ _

theorem fR_qubit {L : Nat} (hL : 1 ≤ L) (f : Bool) (a j : Int) : fR L f a j ∈ qubits L L := by
  cases f
  · simp only [fR, Bool.false_eq_true, if_false]; exact qR_qubit hL _ _
  · simp only [fR, if_true]; exact qR_qubit hL _ _

theorem fL_qubit {L : Nat} (hL : 1 ≤ L) (f : Bool) (a j : Int) : fL L f a j ∈ qubits L L := by
  cases f
  · simp only [fL, Bool.false_eq_true, if_false]; exact qL_qubit hL _ _
  · simp only [fL, if_true]; exact qL_qubit hL _ _

/-- periodicity: congruent face coordinates give the same qubit -/
theorem fR_congr {L : Nat} (hL : 1 ≤ L) (f : Bool) {a j a' j' : Int} (h1 : Cg L (a' - a))
    (h2 : Cg L (j' - j)) : fR L f a j = fR L f a' j' := (fR_eq_iff hL f a j a' j').mpr ⟨h1, h2⟩
theorem fL_congr {L : Nat} (hL : 1 ≤ L) (f : Bool) {a j a' j' : Int} (h1 : Cg L (a' - a))
    (h2 : Cg L (j' - j)) : fL L f a j = fL L f a' j' := (fL_eq_iff hL f a j a' j').mpr ⟨h1, h2⟩

/-- the corners of the face `(a, j)` of the frame `f` -/
def cornersF (L : Nat) (f : Bool) (a j : Int) : List Coord :=
  [fR L f a j, fL L f a j, fL L f (a + 1) j, fL L f (a + 1) (j - 1), fR L f (a - 1) (j + 1),
   fR L f (a - 1) j]

theorem corners_frame (L : Nat) (f : Bool) (a j : Int) (p : Coord → Bool) :
    (corners L (if f then j else a) (if f then -a - j else j)).countP p =
      (cornersF L f a j).countP p := by
  cases f
  · simp only [Bool.false_eq_true, if_false, corners, cornersF, fR, fL, List.countP_cons,
      List.countP_nil]
    omega
  · simp only [if_true, corners, cornersF, fR, fL, List.countP_cons, List.countP_nil]
    rw [show -(a + 1) - j = -a - j - 1 by ring, show -(a + 1) - (j - 1) = -a - j by ring,
      show j - 1 + 1 = j by ring, show -(a - 1) - (j + 1) = -a - j by ring,
      show j + 1 - 1 = j by ring, show -(a - 1) - j = -a - j + 1 by ring]
    omega

/-- every face of a frame is a generator location -/
theorem isF_of_faceF {L : Nat} (hL : 1 ≤ L) (f : Bool) (a j : Int) :
    ∃ x y, IsF L x y ∧ ∀ p, (supp L x y).countP p = (cornersF L f a j).countP p := by
  obtain ⟨x, y, hf, hs⟩ := isF_of_face hL (if f then j else a) (if f then -a - j else j)
  exact ⟨x, y, hf, fun p => by rw [hs, corners_frame]⟩

/-- every generator location is a face of the frame -/
theorem faceF_of_isF {L : Nat} (hL : 1 ≤ L) (f : Bool) {x y : Int} (hf : IsF L x y) :
    ∃ a j, ∀ p, (supp L x y).countP p = (cornersF L f a j).countP p := by
  obtain ⟨a0, j0, hs⟩ := face_of_isF hL hf
  cases f
  · exact ⟨a0, j0, fun p => by rw [hs, ← corners_frame L false a0 j0]; rfl⟩
  · refine ⟨-a0 - j0, a0, fun p => ?_⟩
    rw [hs, ← corners_frame L true (-a0 - j0) a0]
    simp only [if_true]
    rw [show -(-a0 - j0) - a0 = j0 by ring]

/-! ### operators commuting with every generator -/

/-- `b` commutes with every stabilizer generator of the lattice -/
def CommStabs (L : Nat) (b : Op) : Prop :=
  ∀ s ∈ (lattice L L).stabs, opAntiCount ((lattice L L).getStab s) b % 2 = 0

/-- the six corners of a face of a frame, named: an even number of them is hit by `b` -/
theorem face_even {L : Nat} (hL : 1 ≤ L) (f : Bool) {b : Op} (hb : CommStabs L b) {p : Int}
    (hp : p = 0 ∨ p = 1) (a j : Int) {am ap jm jp : Int} (e1 : am = a - 1) (e2 : ap = a + 1)
    (e3 : jm = j - 1) (e4 : jp = j + 1) :
    (ind (letter p) b (fR L f a j) + ind (letter p) b (fL L f a j)
      + ind (letter p) b (fL L f ap j) + ind (letter p) b (fL L f ap jm)
      + ind (letter p) b (fR L f am jp) + ind (letter p) b (fR L f am j)) % 2 = 0 := by
  subst e1 e2 e3 e4
  obtain ⟨x, y, hf, hs⟩ := isF_of_faceF hL f a j
  have hm : [x, y, p] ∈ stabs L L := mem_stabs'.mpr ⟨hf, hp⟩
  have h := hb [x, y, p] hm
  rw [getStab_eq hL hm, opAntiCount_line, hs] at h
  unfold cornersF at h
  simp only [List.countP_cons, List.countP_nil] at h
  unfold ind
  omega

/-! ### the zig-zag ladder -/

/-- `g 1 + … + g L = g 0 + … + g (L−1)` when `g L = g 0` -/
theorem rsum_shift1 (g : Nat → Nat) (L : Nat) (h : g L = g 0) :
    rsum L (fun i => g (i + 1)) = rsum L g := by
  have h1 := rsum_succ' g L
  have h2 : rsum (L + 1) g = rsum L g + g L := rfl
  omega

/-- the hits of `b` on the block of the zig-zag at the face column `a`, height `J` -/
def blk (L : Nat) (f : Bool) (P : Pauli) (b : Op) (a J : Int) : Nat :=
  ind P b (fR L f a J) + ind P b (fL L f (a + 1) J) + ind P b (fL L f (a + 1) (J + 1))
    + ind P b (fR L f a (J + 2))

/-- the number of hits of `b` on the zig-zag `Z c t` -/
def zigS (L : Nat) (f : Bool) (P : Pauli) (b : Op) (c t : Int) : Nat :=
  rsum L (fun i => blk L f P b t (t + c + 3 * (i : Int)))

/-- consecutive zig-zags differ by the column of faces between them -/
theorem zig_link {L : Nat} (hL : 1 ≤ L) (f : Bool) {b : Op} (hb : CommStabs L b) {p : Int}
    (hp : p = 0 ∨ p = 1) (c t : Int) :
    (zigS L f (letter p) b c t + zigS L f (letter p) b c (t + 1)) % 2 = 0 := by
  let G : Nat → Nat := fun i => ind (letter p) b (fL L f (t + 2) (t + c + 3 * (i : Int) - 1))
  let H : Nat → Nat := fun i => ind (letter p) b (fR L f (t + 1) (t + c + 3 * (i : Int)))
  let A : Nat → Nat := fun i =>
    ind (letter p) b (fR L f (t + 1) (t + c + 3 * (i : Int) + 1))
      + ind (letter p) b (fL L f (t + 2) (t + c + 3 * (i : Int) + 1))
  have hG : G L = G 0 := by
    simp only [G]
    rw [fL_congr hL f (a := t + 2) (j := t + c + 3 * (L : Int) - 1) (a' := t + 2)
      (j' := t + c + 3 * ((0 : Nat) : Int) - 1) ((cg_zero L).congr (by ring))
      ((cg_period L).neg.congr (by push_cast; ring))]
  have hH : H L = H 0 := by
    simp only [H]
    rw [fR_congr hL f (a := t + 1) (j := t + c + 3 * (L : Int)) (a' := t + 1)
      (j' := t + c + 3 * ((0 : Nat) : Int)) ((cg_zero L).congr (by ring))
      ((cg_period L).neg.congr (by push_cast; ring))]
  have e2 : zigS L f (letter p) b c (t + 1) =
      rsum L A + rsum L (fun i => G (i + 1)) + rsum L (fun i => H (i + 1)) := by
    unfold zigS
    rw [← rsum_add, ← rsum_add]
    apply rsum_congr
    intro i _
    simp only [A, G, H, blk]
    rw [show t + 1 + c + 3 * (i : Int) = t + c + 3 * (i : Int) + 1 by ring,
      show t + 1 + 1 = t + 2 by ring,
      show t + c + 3 * (i : Int) + 1 + 1 = t + c + 3 * ((i + 1 : Nat) : Int) - 1 by push_cast; ring,
      show t + c + 3 * (i : Int) + 1 + 2 = t + c + 3 * ((i + 1 : Nat) : Int) by push_cast; ring]
  have he := rsum_even L (g := fun i => blk L f (letter p) b t (t + c + 3 * (i : Int))
      + (A i + G i + H i)) (fun i _ => by
    have h1 := face_even hL f hb hp (t + 1) (t + c + 3 * (i : Int)) (am := t) (ap := t + 2)
      (jm := t + c + 3 * (i : Int) - 1) (jp := t + c + 3 * (i : Int) + 1)
      (by ring) (by ring) (by ring) (by ring)
    have h2 := face_even hL f hb hp (t + 1) (t + c + 3 * (i : Int) + 1) (am := t) (ap := t + 2)
      (jm := t + c + 3 * (i : Int)) (jp := t + c + 3 * (i : Int) + 2)
      (by ring) (by ring) (by ring) (by ring)
    simp only [A, G, H, blk]
    omega)
  rw [rsum_add, rsum_add, rsum_add] at he
  rw [e2, rsum_shift1 G L hG, rsum_shift1 H L hH]
  unfold zigS
  omega

/-- every zig-zag of the family has the parity of the first one -/
theorem zig_parity {L : Nat} (hL : 1 ≤ L) (f : Bool) {b : Op} (hb : CommStabs L b) {p : Int}
    (hp : p = 0 ∨ p = 1) (c : Int) (M : Nat) (t : Nat) (ht : t < M) :
    zigS L f (letter p) b c (t : Int) % 2 = zigS L f (letter p) b c 0 % 2 := by
  have := chain M (fun t => zigS L f (letter p) b c (t : Int)) (fun i _ => by
    have := zig_link hL f hb hp c (i : Int)
    rw [show ((i + 1 : Nat) : Int) = (i : Int) + 1 by push_cast; ring]
    exact this) t ht
  simpa using this

end Panqec.Color666ToricCode
