/-
C12 helper lemmas, part 3: progress.  A process that is not interrupted or killed reaches
`done` after finitely many micro-steps.
-/
import PanqecVerif.Proofs.BatchInv

set_option linter.unusedSimpArgs false

namespace Panqec.Batch

def stepN : Nat → World → World
  | 0, w => w
  | k + 1, w => stepN k (step w)

/-- program points of a process that has not been interrupted -/
def Pc.quiet : Pc → Bool
  | .trial _ => true
  | .save _ _ retry _ => !retry
  | .done => true
  | _ => false

def remWr : Wr → Nat
  | .create => 4
  | .part => 3
  | .full => 2
  | .rename => 1

def remPh : SavePh → Nat
  | .chk => 9
  | .first w => 4 + remWr w
  | .second w => remWr w

/-- termination measure (lexicographic): iterations left, then work left in the iteration -/
def measure (w : World) : Nat × Nat :=
  match w.proc.pc with
  | .trial i => (w.proc.n - i, w.proc.back.length + 100)
  | .save i more _ ph => (w.proc.n - i, more * 10 + remPh ph)
  | _ => (0, 0)

theorem lex_zero {a b : Nat} (hb : 0 < b) : Prod.Lex (· < ·) (· < ·) ((0 : Nat), (0 : Nat)) (a, b) := by
  cases a with
  | zero => exact Prod.Lex.right _ hb
  | succ a => exact Prod.Lex.left _ _ (Nat.succ_pos a)

theorem savesDue_le (n sf i : Nat) : savesDue n sf i ≤ 2 := by
  unfold savesDue; split <;> split <;> omega

theorem measure_afterIter {fmt atomic dk next spec n sf i fr bk} {b : Nat} (hb : 0 < b) :
    Prod.Lex (· < ·) (· < ·)
      (measure ⟨fmt, atomic, dk, next, ⟨spec, n, sf, afterIter n i, fr, bk⟩⟩) (n - i, b) := by
  unfold afterIter
  split
  · rename_i h
    exact Prod.Lex.left _ _ (by simp only [measure]; omega)
  · exact lex_zero hb

theorem measure_afterSave {fmt atomic dk next spec n sf i more retry fr bk} {b : Nat}
    (hb : more * 10 < b) :
    Prod.Lex (· < ·) (· < ·)
      (measure ⟨fmt, atomic, dk, next, ⟨spec, n, sf, afterSave n i more retry, fr, bk⟩⟩) (n - i, b) := by
  unfold afterSave
  split
  · exact lex_zero (by omega)
  · split
    · exact Prod.Lex.right _ (by simp only [measure, remPh]; omega)
    · exact measure_afterIter (by omega)

theorem measure_step (w : World) (h : w.proc.pc.terminal = false) :
    Prod.Lex (· < ·) (· < ·) (measure (step w)) (measure w) := by
  obtain ⟨fmt, atomic, ⟨file, tmp⟩, next, ⟨spec, n, sf, pc, front, back⟩⟩ := w
  cases pc with
  | trial i =>
    cases back with
    | nil =>
      simp only [step]
      split
      · exact lex_zero (by simp)
      · split
        · exact measure_afterIter (by simp)
        · have := savesDue_le n sf i
          exact Prod.Lex.right _ (by simp only [measure, remPh, List.length_nil]; omega)
    | cons s rest =>
      simp only [step]
      split
      · exact Prod.Lex.right _ (by simp [measure])
      · exact Prod.Lex.right _ (by simp [measure])
  | save i more retry ph =>
    cases ph with
    | chk =>
      simp only [step]
      split
      · exact Prod.Lex.right _ (by simp [measure, remPh, remWr])
      · exact Prod.Lex.right _ (by simp [measure, remPh, remWr])
    | first wr =>
      cases wr <;> cases atomic <;> simp only [step, writeStep] <;>
        first
        | exact Prod.Lex.right _ (by simp [measure, remPh, remWr])
        | exact Prod.Lex.right _ (by simp [measure, remPh, remWr]; omega)
    | second wr =>
      cases wr <;> cases atomic <;> simp only [step, writeStep] <;>
        first
        | exact Prod.Lex.right _ (by simp [measure, remPh, remWr])
        | exact measure_afterSave (by simp [remPh, remWr])
  | done => cases h
  | paused => cases h
  | failed e => cases h
  | killed => cases h

theorem quiet_step (w : World) (hq : w.proc.pc.quiet = true) :
    (step w).proc.pc.quiet = true ∨ ∃ e, (step w).proc.pc = .failed e := by
  obtain ⟨fmt, atomic, ⟨file, tmp⟩, next, ⟨spec, n, sf, pc, front, back⟩⟩ := w
  have hai : ∀ i, (afterIter n i).quiet = true := by
    intro i; unfold afterIter; split <;> rfl
  have has : ∀ i more, (afterSave n i more false).quiet = true := by
    intro i more
    unfold afterSave
    simp only [Bool.false_eq_true, if_false]
    split
    · rfl
    · exact hai i
  cases pc with
  | trial i =>
    cases back with
    | nil =>
      simp only [step]
      split
      · exact Or.inr ⟨_, rfl⟩
      · left
        simp only
        split
        · exact hai i
        · rfl
    | cons s rest =>
      simp only [step]
      split <;> exact Or.inl rfl
  | save i more retry ph =>
    cases retry with
    | true => cases hq
    | false =>
      left
      cases ph with
      | chk => simp only [step]; rfl
      | first wr => cases wr <;> cases atomic <;> simp only [step, writeStep] <;> rfl
      | second wr =>
        cases wr <;> cases atomic <;> simp only [step, writeStep] <;> first | rfl | exact has i more
  | done => exact Or.inl rfl
  | paused => cases hq
  | failed e => cases hq
  | killed => cases hq

/-- an uninterrupted process runs to completion -/
theorem reaches_done (w : World) (h : Inv w) (hq : w.proc.pc.quiet = true) :
    ∃ k, (stepN k w).proc.pc = .done ∧ Inv (stepN k w) ∧
      FileLE w.disk.file (stepN k w).disk.file := by
  by_cases ht : w.proc.pc.terminal = true
  · refine ⟨0, ?_, h, FileLE.rfl' _⟩
    show w.proc.pc = .done
    cases hp : w.proc.pc <;> simp_all [Pc.terminal, Pc.quiet]
  · have ht' : w.proc.pc.terminal = false := by simpa using ht
    have hdec := measure_step w ht'
    obtain ⟨hi, hle⟩ := inv_step h
    have hq' : (step w).proc.pc.quiet = true := by
      rcases quiet_step w hq with a | ⟨e, he⟩
      · exact a
      · have := hi.loopOK
        simp only [LoopOK, he] at this
    obtain ⟨k, hk, hik, hlek⟩ := reaches_done (step w) hi hq'
    exact ⟨k + 1, hk, hik, hle.trans hlek⟩
termination_by measure w
decreasing_by exact hdec

theorem step_spec_n (w : World) : (step w).proc.spec = w.proc.spec ∧ (step w).proc.n = w.proc.n := by
  obtain ⟨fmt, atomic, ⟨file, tmp⟩, next, ⟨spec, n, sf, pc, front, back⟩⟩ := w
  cases pc with
  | trial i =>
    cases back with
    | nil => simp only [step]; split <;> exact ⟨rfl, rfl⟩
    | cons s rest => simp only [step]; split <;> exact ⟨rfl, rfl⟩
  | save i more retry ph =>
    cases ph with
    | chk => exact ⟨rfl, rfl⟩
    | first wr => cases wr <;> cases atomic <;> exact ⟨rfl, rfl⟩
    | second wr => cases wr <;> cases atomic <;> exact ⟨rfl, rfl⟩
  | done => exact ⟨rfl, rfl⟩
  | paused => exact ⟨rfl, rfl⟩
  | failed e => exact ⟨rfl, rfl⟩
  | killed => exact ⟨rfl, rfl⟩

theorem stepN_spec_n : ∀ (k : Nat) (w : World),
    (stepN k w).proc.spec = w.proc.spec ∧ (stepN k w).proc.n = w.proc.n
  | 0, _ => ⟨rfl, rfl⟩
  | k + 1, w => by
    obtain ⟨a, b⟩ := stepN_spec_n k (step w)
    obtain ⟨c, d⟩ := step_spec_n w
    exact ⟨a.trans c, b.trans d⟩

theorem stepN_eq_runEvs : ∀ (k : Nat) (w : World), stepN k w = runEvs w (List.replicate k .step)
  | 0, _ => rfl
  | k + 1, w => by
    rw [stepN, stepN_eq_runEvs k (step w)]
    simp [runEvs, List.replicate_succ, apply]

theorem allOK_steps : ∀ (k : Nat) (w : World), AllOK w (List.replicate k .step)
  | 0, _ => trivial
  | k + 1, _ => ⟨trivial, allOK_steps k _⟩

theorem start_spec_n (w : World) (spec : List Nat) (n sf : Nat) :
    (startProc w spec n sf).proc.spec = spec ∧ (startProc w spec n sf).proc.n = n := by
  unfold startProc
  split
  · exact ⟨rfl, rfl⟩
  · split <;> exact ⟨rfl, rfl⟩

theorem start_quiet (w : World) (spec : List Nat) (n sf : Nat) :
    (startProc w spec n sf).proc.pc.quiet = true ∨ ∃ e, (startProc w spec n sf).proc.pc = .failed e := by
  unfold startProc
  split
  · exact Or.inr ⟨_, rfl⟩
  · split
    · exact Or.inr ⟨_, rfl⟩
    · left
      simp only
      split <;> rfl

end Panqec.Batch
