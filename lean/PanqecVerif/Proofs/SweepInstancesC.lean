/-
Kernel-evaluated geometry instances for RotatedToric3DCode with the repaired
`RotatedSweepDecoder3D` (`_wrap`): even × even, odd × even, even × odd sizes, and one odd × odd
size (outside the family the class supports).  Independent of the coordinate argument of
`Proofs/SweepRotToric*.lean`.
-/
import PanqecVerif.Proofs.SweepInstances

namespace Panqec.Sweep

set_option maxRecDepth 100000

/-- RotatedToric3DCode sizes checked by the kernel -/
def rotToricSizes : List (Nat × Nat × Nat) :=
  [(2, 2, 2), (2, 4, 2), (2, 3, 2), (3, 2, 2), (3, 4, 2), (4, 2, 3), (3, 3, 2)]

theorem rotToric_geometry_instances :
    ∀ s ∈ rotToricSizes, GeometryOKRot (rotToric3D s.1 s.2.1 s.2.2) = true := by decide +kernel

end Panqec.Sweep
