/-
Kernel-evaluated geometry instances for RotatedToric3DCode with the repaired
`RotatedSweepDecoder3D` (`_wrap`): even × even, odd × even, even × odd sizes, and one odd × odd
size (outside the family the class supports).  Independent of the coordinate argument of
`Proofs/SweepRotToric*.lean`.
-/
import PanqecVerif.Proofs.SweepInstances

namespace Panqec.Sweep

set_option maxRecDepth 100000

/-- RotatedToric3DCode sizes checked by the kernel -/
def rotToricSizes : List (Nat × Nat × Nat) :=
  [(2, 2, 2), (2, 4, 2), (2, 3, 2), (3, 2, 2), (3, 4, 2), (4, 2, 3), (3, 3, 2)]

theorem rotToric_geometry_instances :
    ∀ s ∈ rotToricSizes, GeometryOKRot (rotToric3D s.1 s.2.1 s.2.2) = true := by decide +kernel

/-- a side of length 1 (outside the family `L_x, L_y ≥ 2`): two candidates of a face coincide
    and the flip table is inconsistent on 4 of the 5 edges, with or without `_wrap` -/
theorem rotToric_side_one_bad :
    flipTableBadRot (rotToric3D 1 2 2) (flipFacesRot (rotToric3D 1 2 2)) =
      [(1, 1, 1), (1, 1, 3), (1, 3, 1), (1, 3, 3)] ∧
    flipTableBadRot (rotToric3D 2 1 2) (flipFacesRot (rotToric3D 2 1 2)) =
      [(1, 1, 1), (1, 1, 3), (3, 1, 1), (3, 1, 3)] := by decide +kernel

/-- Z on the edge `(1, 5, 1)` of RotatedToric3DCode 2×3×2 (`L_y` odd) -/
def witnessDefectFace : Loc → Bool := fun q => q == (1, 5, 1)

/-- row 8 of RotatedToric3DCode 2×3×2 is the generator `(2, 6, 1)` of type `'face'` on the defect
    line `y = 2 L_y`: it carries Z on the two edges across the seam, so it is flagged in
    `z_indices`; it anticommutes with Z on `(1, 5, 1)`.  The initial state by `z_indices` (before
    the repair) blanks that excitation, the initial state by type keeps it. -/
theorem oldInitialState_blanks_defect_face :
    (rotToric3D 2 3 2).stabs[8]? = some (2, 6, 1) ∧ (rotToric3D 2 3 2).isFace (2, 6, 1) = true ∧
    (rotToric3D 2 3 2).zIndex (2, 6, 1) = true ∧
    (syndromeOf (rotToric3D 2 3 2) (fun _ => false) witnessDefectFace).getD 8 false = true ∧
    (initialState (rotToric3D 2 3 2)
      (syndromeOf (rotToric3D 2 3 2) (fun _ => false) witnessDefectFace)).getD 8 false = false ∧
    (initialStateRot (rotToric3D 2 3 2)
      (syndromeOf (rotToric3D 2 3 2) (fun _ => false) witnessDefectFace)).getD 8 false = true := by
  decide +kernel

end Panqec.Sweep
