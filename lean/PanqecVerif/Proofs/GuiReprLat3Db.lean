/-
`Servable` for `XCubeCode`, `RotatedPlanar3DCode`, `RotatedToric3DCode`, `RhombicToricCode`,
`RhombicPlanarCode`, all sizes of their families.
-/
import PanqecVerif.Proofs.GuiReprSurface2D
import PanqecVerif.Properties.C01XCubeCode
import PanqecVerif.Properties.C01RotatedPlanar3DCode
import PanqecVerif.Properties.C01RotatedToric3DCode
import PanqecVerif.Properties.C01RhombicToricCode
import PanqecVerif.Properties.C01RhombicPlanarCode

namespace Panqec.GuiRepr
open Panqec.Gui

/-! ### the overrides are simple assignments -/

theorem xcubeStabEdits_simple (rot : Bool) (s : Coord) (t : String) :
    (xcubeStabEdits rot s t).all Edit.simple = true := by
  unfold xcubeStabEdits
  repeat' split
  all_goals simp [Edit.simple]

theorem rotated3DStabEdits_simple (rot : Bool) (s : Coord) (t : String) :
    (rotated3DStabEdits rot s t).all Edit.simple = true := by
  unfold rotated3DStabEdits stretchedLocation
  repeat' split
  all_goals simp [Edit.simple]

theorem rotated3DQubitEdits_simple (rot : Bool) (s : Coord) (a : String) :
    (rotated3DQubitEdits rot s a).all Edit.simple = true := by
  unfold rotated3DQubitEdits stretchedLocation
  repeat' split
  all_goals simp [Edit.simple]

theorem rhombicToricStabEdits_simple (rot : Bool) (s : Coord) (t : String) :
    (rhombicToricStabEdits rot s t).all Edit.simple = true := by
  unfold rhombicToricStabEdits
  repeat' split
  all_goals simp [Edit.simple]

theorem rhombicPlanarStabEdits_simple (Ly Lz : Nat) (rot : Bool) (s : Coord) (t : String) :
    (rhombicPlanarStabEdits Ly Lz rot s t).all Edit.simple = true := by
  unfold rhombicPlanarStabEdits
  repeat' split
  all_goals simp [Edit.simple]

/-! ### tables -/

def fractonTypes : List String := ["cube", "face"]
def rhombicTypes : List String := ["cube", "triangle"]

theorem xcube_tables : classTablesOk Generated.GuiFull.tables "XCubeCode" fractonTypes = true := by
  decide +kernel
theorem rotatedPlanar3D_tables :
    classTablesOk Generated.GuiFull.tables "RotatedPlanar3DCode" surfaceTypes = true := by decide +kernel
theorem rotatedToric3D_tables :
    classTablesOk Generated.GuiFull.tables "RotatedToric3DCode" surfaceTypes = true := by decide +kernel
theorem rhombicToric_tables :
    classTablesOk Generated.GuiFull.tables "RhombicToricCode" rhombicTypes = true := by decide +kernel
theorem rhombicPlanar_tables :
    classTablesOk Generated.GuiFull.tables "RhombicPlanarCode" rhombicTypes = true := by decide +kernel

/-! ### classes -/

theorem xcube_servable (Lx Ly Lz : Nat) (hx : 2 ≤ Lx) (hy : 2 ≤ Ly) (hz : 2 ≤ Lz) (name : String)
    (hn : name = "None" ∨ name = "XZZX") :
    Servable (xcube Lx Ly Lz) Generated.GuiFull.tables fractonTypes name where
  wf := C01XCubeCode.wf Lx Ly Lz hx hy hz
  tables := xcube_tables
  stab_types := by
    intro s hs
    have hin : XCubeCode.isStab Lx Ly Lz s = true := List.contains_iff_mem.mpr hs
    show ∃ t ∈ fractonTypes, XCubeCode.stabilizerType Lx Ly Lz s = some t
    unfold XCubeCode.stabilizerType
    simp only [hin, Bool.not_true, Bool.false_eq_true, if_false]
    by_cases h : (s.length == 4) = true
    · exact ⟨"face", by decide, by simp [h]⟩
    · exact ⟨"cube", by decide, by simp [h]⟩
  qubit_axes := by
    intro q hq
    obtain ⟨x, y, z, rfl⟩ := XCubeCode.mem_qubits_shape Lx Ly Lz q hq
    exact ⟨_, C01XCubeCode.qubit_axis_rule Lx Ly Lz x y z hq⟩
  stab_edits := xcubeStabEdits_simple
  qubit_edits := noEdits_simple
  deformation := by
    rcases hn with h | h
    · exact Or.inl h
    · right
      intro q hq
      obtain ⟨x, y, z, rfl⟩ := XCubeCode.mem_qubits_shape Lx Ly Lz q hq
      show (XCubeCode.getDeformation name none [x, y, z]).isSome = true
      rw [C01XCubeCode.deformation_default_axis, h, C01XCubeCode.deformation_rule, C01XCubeCode.qubit_axis_rule Lx Ly Lz x y z hq]
      simp

theorem rotatedPlanar3D_servable (Lx Ly Lz : Nat) (hx : 1 ≤ Lx) (hy : 1 ≤ Ly) (hz : 1 ≤ Lz)
    (name : String) (hn : name = "None" ∨ name = "XZZX") :
    Servable (rotatedPlanar3D Lx Ly Lz) Generated.GuiFull.tables surfaceTypes name where
  wf := C01RotatedPlanar3DCode.wf Lx Ly Lz hx hy hz
  tables := rotatedPlanar3D_tables
  stab_types := by
    intro s hs
    have hin : RotatedPlanar3DCode.isStab Lx Ly Lz s = true := List.contains_iff_mem.mpr hs
    obtain ⟨x, y, z, rfl⟩ := RotatedPlanar3DCode.mem_stabs_shape Lx Ly Lz s hs
    show ∃ t ∈ surfaceTypes, RotatedPlanar3DCode.stabilizerType Lx Ly Lz [x, y, z] = some t
    unfold RotatedPlanar3DCode.stabilizerType
    simp only [hin, Bool.not_true, Bool.false_eq_true, if_false]
    by_cases h : RotatedPlanar3DCode.isVertexXYZ x y z = true
    · exact ⟨"vertex", by decide, by simp [h]⟩
    · exact ⟨"face", by decide, by simp [h]⟩
  qubit_axes := by
    intro q hq
    obtain ⟨x, y, z, rfl⟩ := RotatedPlanar3DCode.mem_qubits_shape Lx Ly Lz q hq
    exact ⟨_, C01RotatedPlanar3DCode.qubit_axis_rule Lx Ly Lz x y z hq⟩
  stab_edits := rotated3DStabEdits_simple
  qubit_edits := rotated3DQubitEdits_simple
  deformation := by
    rcases hn with h | h
    · exact Or.inl h
    · right
      intro q hq
      obtain ⟨x, y, z, rfl⟩ := RotatedPlanar3DCode.mem_qubits_shape Lx Ly Lz q hq
      show (RotatedPlanar3DCode.getDeformation Lx Ly Lz name "z" [x, y, z]).isSome = true
      rw [h, C01RotatedPlanar3DCode.deformation_rule,
        C01RotatedPlanar3DCode.qubit_axis_rule Lx Ly Lz x y z hq]
      simp

theorem rotatedToric3D_servable (Lx Ly Lz : Nat) (hx : 2 ≤ Lx) (hy : 2 ≤ Ly)
    (hodd : ¬ (Lx % 2 = 1 ∧ Ly % 2 = 1)) (name : String) (hn : name = "None" ∨ name = "XZZX") :
    Servable (rotatedToric3D Lx Ly Lz) Generated.GuiFull.tables surfaceTypes name where
  wf := C01RotatedToric3DCode.wf Lx Ly Lz hx hy hodd
  tables := rotatedToric3D_tables
  stab_types := by
    intro s hs
    have hin : RotatedToric3DCode.isStab Lx Ly Lz s = true := List.contains_iff_mem.mpr hs
    obtain ⟨x, y, z, rfl⟩ := RotatedToric3DCode.mem_stabs_shape Lx Ly Lz s hs
    show ∃ t ∈ surfaceTypes, RotatedToric3DCode.stabilizerType Lx Ly Lz [x, y, z] = some t
    unfold RotatedToric3DCode.stabilizerType
    simp only [hin, Bool.not_true, Bool.false_eq_true, if_false]
    by_cases h : RotatedToric3DCode.isVertexXYZ x y z = true
    · exact ⟨"vertex", by decide, by simp [h]⟩
    · exact ⟨"face", by decide, by simp [h]⟩
  qubit_axes := by
    intro q hq
    obtain ⟨x, y, z, rfl⟩ := RotatedToric3DCode.mem_qubits_shape Lx Ly Lz q hq
    exact ⟨_, C01RotatedToric3DCode.qubit_axis_rule Lx Ly Lz x y z hq⟩
  stab_edits := rotated3DStabEdits_simple
  qubit_edits := rotated3DQubitEdits_simple
  deformation := by
    rcases hn with h | h
    · exact Or.inl h
    · right
      intro q hq
      obtain ⟨x, y, z, rfl⟩ := RotatedToric3DCode.mem_qubits_shape Lx Ly Lz q hq
      show (RotatedToric3DCode.getDeformation Lx Ly Lz name none [x, y, z]).isSome = true
      rw [h, C01RotatedToric3DCode.deformation_rule,
        C01RotatedToric3DCode.qubit_axis_rule Lx Ly Lz x y z hq]
      simp

theorem rhombicType_mem (s : Coord) : Rhombic.typeOf s ∈ rhombicTypes := by
  unfold Rhombic.typeOf
  split <;> decide

theorem rhombicToric_servable (Lx Ly Lz : Nat) (hx : 2 ≤ Lx) (hy : 2 ≤ Ly) (hz : 2 ≤ Lz)
    (name : String) (hn : name = "None" ∨ name = "Checkerboard XZZX") :
    Servable (rhombicToric Lx Ly Lz) Generated.GuiFull.tables rhombicTypes name where
  wf := C01RhombicToricCode.wf Lx Ly Lz hx hy hz
  tables := rhombicToric_tables
  stab_types := by
    intro s hs
    have hin : RhombicToricCode.isStab Lx Ly Lz s = true := List.contains_iff_mem.mpr hs
    refine ⟨_, rhombicType_mem s, ?_⟩
    show RhombicToricCode.stabilizerType Lx Ly Lz s = some _
    unfold RhombicToricCode.stabilizerType
    simp only [hin, Bool.not_true, Bool.false_eq_true, if_false]
  qubit_axes := by
    intro q hq
    obtain ⟨x, y, z, rfl⟩ := RhombicToricCode.mem_qubits_shape Lx Ly Lz q hq
    exact ⟨_, C01RhombicToricCode.qubit_axis_rule Lx Ly Lz x y z hq⟩
  stab_edits := rhombicToricStabEdits_simple
  qubit_edits := noEdits_simple
  deformation := by
    rcases hn with h | h
    · exact Or.inl h
    · right
      intro q hq
      obtain ⟨x, y, z, rfl⟩ := RhombicToricCode.mem_qubits_shape Lx Ly Lz q hq
      show (RhombicToricCode.getDeformation name [x, y, z]).isSome = true
      rw [h, C01RhombicToricCode.deformation_on_qubits Lx Ly Lz x y z hq]; rfl

theorem rhombicPlanar_servable (Lx Ly Lz : Nat) (hx : 2 ≤ Lx) (hy : 2 ≤ Ly) (_hz : 1 ≤ Lz)
    (name : String) (hn : name = "None" ∨ name = "Checkerboard XZZX") :
    Servable (rhombicPlanar Lx Ly Lz) Generated.GuiFull.tables rhombicTypes name where
  wf := C01RhombicPlanarCode.wf Lx Ly Lz (by omega) (by omega)
  tables := rhombicPlanar_tables
  stab_types := by
    intro s hs
    have hin : RhombicPlanarCode.isStab Lx Ly Lz s = true := List.contains_iff_mem.mpr hs
    refine ⟨_, rhombicType_mem s, ?_⟩
    show RhombicPlanarCode.stabilizerType Lx Ly Lz s = some _
    unfold RhombicPlanarCode.stabilizerType
    simp only [hin, Bool.not_true, Bool.false_eq_true, if_false]
  qubit_axes := by
    intro q hq
    obtain ⟨x, y, z, rfl⟩ := RhombicPlanarCode.mem_qubits_shape Lx Ly Lz q hq
    exact ⟨_, C01RhombicPlanarCode.qubit_axis_rule Lx Ly Lz x y z hq⟩
  stab_edits := rhombicPlanarStabEdits_simple Ly Lz
  qubit_edits := noEdits_simple
  deformation := by
    rcases hn with h | h
    · exact Or.inl h
    · right
      intro q hq
      obtain ⟨x, y, z, rfl⟩ := RhombicPlanarCode.mem_qubits_shape Lx Ly Lz q hq
      show (RhombicPlanarCode.getDeformation name [x, y, z]).isSome = true
      rw [h, C01RhombicPlanarCode.deformation_on_qubits Lx Ly Lz x y z hq]; rfl

end Panqec.GuiRepr
