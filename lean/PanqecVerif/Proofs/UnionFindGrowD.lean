/-
Union-find internals (C05), growth phase, part D: specification of `Support.merge_clusters`.
-/
import PanqecVerif.Proofs.UnionFindGrowC

namespace Panqec.UF

set_option linter.unusedSimpArgs false
set_option linter.unusedVariables false

/-- what `merge_clusters(ss, cluster_forest)` does to a well-formed state -/
structure MergeSpec (m : Nat) (sy : Vec) (sPar : Nat → Int) (rep : Nat → Nat) (forest : List Cluster)
    (ss : List Nat) (rt : Int) (sPar' : Nat → Int) (forest' : List Cluster) (rep' d' : Nat → Nat) : Prop where
  uf : UFInv m sPar' rep' d'
  fi : FInv m sy sPar' rep' forest'
  live_mono : ∀ i, sPar i ≠ -1 → sPar' i ≠ -1
  coarse : ∀ i j, sPar i ≠ -1 → sPar j ≠ -1 → rep i = rep j → rep' i = rep' j
  merged : (∃ s, s ∈ ss ∧ sPar s ≠ -1) → ∃ b : Nat, rt = (b : Int) ∧ sPar' b = (b : Int) ∧
    (∀ s, s ∈ ss → sPar' s ≠ -1 ∧ rep' s = b) ∧ ∃ sb, sb ∈ ss ∧ sPar sb ≠ -1 ∧ rep sb = b
  none : (∀ s, s ∈ ss → sPar s = -1) → rt = -1 ∧ ∀ i, sPar' i = -1 ↔ sPar i = -1
  frame : ∀ i, sPar i ≠ -1 → rep' i = rep i ∨ ∃ s, s ∈ ss ∧ sPar s ≠ -1 ∧ rep s = rep i
  newlive : ∀ i, sPar i = -1 → sPar' i ≠ -1 → i ∈ ss
  /-- boundary lists are kept (in the record of the new root of their tree) -/
  bnd_keep : ∀ c, c ∈ forest → ∀ x, x ∈ c.bnd →
    ∃ c', c' ∈ forest' ∧ c'.root = rep' c.root ∧ x ∈ c'.bnd
  /-- a fresh stabilizer that joins a tree brings itself into the boundary list -/
  bnd_fresh : ∀ s, s ∈ ss → sPar s = -1 → sPar' s ≠ -1 →
    ∃ c', c' ∈ forest' ∧ c'.root = rep' s ∧ hashS s ∈ c'.bnd
  /-- and nothing else enters a boundary list -/
  bnd_src : ∀ c', c' ∈ forest' → ∀ x, x ∈ c'.bnd →
    (∃ c, c ∈ forest ∧ x ∈ c.bnd ∧ rep' c.root = c'.root) ∨
    (∃ s, s ∈ ss ∧ sPar s = -1 ∧ sPar' s ≠ -1 ∧ x = hashS s ∧ rep' s = c'.root)

theorem clsCnt_fresh_congr (m : Nat) (sy : Vec) (sp sp' : Nat → Int) (rp : Nat → Nat) (x : Nat)
    (h : ∀ i, sp' i = -1 ↔ sp i = -1) : clsCnt m sy sp' rp x = clsCnt m sy sp rp x := by
  apply clsCnt_congr
  intro i _ _
  have := h i
  constructor
  · rintro ⟨h1, h2⟩; exact ⟨fun hh => h1 (this.mpr hh), h2⟩
  · rintro ⟨h1, h2⟩; exact ⟨fun hh => h1 (this.mp hh), h2⟩

theorem mergeClusters_spec {m : Nat} {sy : Vec} {sPar : Nat → Int} {rep d : Nat → Nat}
    {forest : List Cluster} (U : UFInv m sPar rep d) (F : FInv m sy sPar rep forest)
    (ss : List Nat) (hss : ∀ s, s ∈ ss → s < m) (hnd : ss.Nodup) :
    ∃ rep' d', MergeSpec m sy sPar rep forest ss (mergeClusters m sPar forest ss).1
        (mergeClusters m sPar forest ss).2.1 (mergeClusters m sPar forest ss).2.2.1 rep' d' ∧
      (mergeClusters m sPar forest ss).2.2.2 = false := by
  have I := MInv_fold U F ss [] _ (MInv_init (sy := sy) (forest0 := forest) U) (by simpa using hnd)
  simp only [List.nil_append] at I
  unfold mergeClusters
  generalize ss.foldl (mergeStep m) ⟨sPar, forest, [], none, 0, false⟩ = acc at I
  have hcc : ∀ x, clsCnt m sy acc.sPar rep x = clsCnt m sy sPar rep x :=
    fun x => clsCnt_fresh_congr m sy sPar acc.sPar rep x I.fresh_iff
  cases hbig : acc.biggest with
  | none =>
    obtain ⟨_, hall⟩ := I.big_none hbig
    have hallfresh : ∀ s, s ∈ ss → sPar s = -1 := by
      intro s hs
      by_contra h
      obtain ⟨k, hk, hkf, _⟩ := I.cl_real s hs h
      have := forest_root F hkf
      rw [hall k hk] at this; omega
    simp only [hbig]
    have hkeepmem : ∀ c, c ∈ forest → c ∈ acc.forest := by
      intro c hc
      refine (I.f_mem c).mpr ⟨hc, ?_⟩
      rintro ⟨k, hk, hkr⟩
      have := forest_root F hc
      rw [← hkr, hall k hk] at this; omega
    refine ⟨rep, d, ⟨I.uf, ⟨?_, ?_, ?_, ?_, ?_⟩, ?_, fun _ _ _ _ h => h, ?_, ?_, fun i _ => Or.inl rfl, ?_,
      ?_, ?_, ?_⟩, I.bad⟩
    · intro x
      rw [I.root_iff, ← F.roots_iff]
      constructor
      · rintro ⟨c, hc, hcr⟩; exact ⟨c, ((I.f_mem c).mp hc).1, hcr⟩
      · rintro ⟨c, hc, hcr⟩
        refine ⟨c, (I.f_mem c).mpr ⟨hc, ?_⟩, hcr⟩
        rintro ⟨k, hk, hkr⟩
        have := forest_root F hc
        rw [← hkr, hall k hk] at this; omega
    · exact (I.f_sub.map _).nodup F.roots_nodup
    · intro c hc; exact F.size_pos c ((I.f_mem c).mp hc).1
    · intro c hc; rw [hcc]; exact F.odd_ok c ((I.f_mem c).mp hc).1
    · intro i hi hd h; exact F.defect_live i hi hd ((I.fresh_iff i).mp h)
    · intro i hi h; exact hi ((I.fresh_iff i).mp h)
    · rintro ⟨s, hs, hlive⟩; exact absurd (hallfresh s hs) hlive
    · intro _; exact ⟨rfl, I.fresh_iff⟩
    · intro i hi hl; exact absurd ((I.fresh_iff i).mpr hi) hl
    · intro c hc x hx
      exact ⟨c, hkeepmem c hc, (U.root_rep _ (forest_root F hc)).symm, hx⟩
    · intro s _ hs hl; exact absurd ((I.fresh_iff s).mpr hs) hl
    · intro c' hc' x hx
      have hc0 := ((I.f_mem c').mp hc').1
      exact Or.inl ⟨c', hc0, hx, U.root_rep _ (forest_root F hc0)⟩
  | some b =>
    obtain ⟨hbcl, hbf⟩ := I.big_some b hbig
    have hbroot0 := forest_root F hbf
    have hbroot : acc.sPar b.root = (b.root : Int) := (I.root_iff _).mpr hbroot0
    have hmemo : ∀ k, k ∈ acc.clusters.eraseP (fun c => decide (c.root = b.root)) ↔
        (k ∈ acc.clusters ∧ k.root ≠ b.root) := mem_eraseP_root acc.clusters b.root I.cl_nodup
    -- the class of `b` was reached through some `s ∈ ss`
    have hsb : ∃ sb, sb ∈ ss ∧ sPar sb ≠ -1 ∧ rep sb = b.root := by
      rcases I.cl_src b hbcl with ⟨_, s, hs, h1, h2⟩ | ⟨s, hs, h1, h2⟩
      · exact ⟨s, hs, h1, h2⟩
      · rw [h2] at hbroot0; simp [dummy] at hbroot0; rw [h1] at hbroot0; omega
    have A0 : AInv m sy rep sPar acc.forest b.root b.bnd
        (acc.clusters.eraseP (fun c => decide (c.root = b.root)))
        (acc.clusters.eraseP (fun c => decide (c.root = b.root))) acc.sPar rep d b := by
      refine ⟨I.uf, hbroot, fun _ _ _ _ h => h, fun i hi h => hi ((I.fresh_iff i).mp h), ?_, ?_, ?_,
        ?_, ?_, rfl, F.size_pos b hbf, ?_, fun k hk hk' => absurd hk hk', fun k hk => hk, ?_, ?_,
        fun i _ => Or.inl rfl, ?_, ?_⟩
      · -- rem_ok
        intro k hk
        obtain ⟨hkc, hkb⟩ := (hmemo k).mp hk
        rcases I.cl_src k hkc with ⟨hkf, _⟩ | ⟨s, hs, hsf, rfl⟩
        · have hr0 := forest_root F hkf
          have hr : acc.sPar k.root = (k.root : Int) := (I.root_iff _).mpr hr0
          exact ⟨I.uf.lt (by rw [hr]; omega), hkb, Or.inl ⟨hr, by rw [hcc]; exact F.odd_ok k hkf⟩⟩
        · exact ⟨hss s hs, hkb, Or.inr ⟨(I.fresh_iff s).mpr hsf, rfl⟩⟩
      · exact ((List.eraseP_sublist).map _).nodup I.cl_nodup
      · -- roots_iff
        intro x
        constructor
        · intro hx
          have hx0 := (I.root_iff x).mp hx
          obtain ⟨c, hc, hcr⟩ := (F.roots_iff x).mpr hx0
          by_cases hk : ∃ k, k ∈ acc.clusters ∧ k.root = x
          · obtain ⟨k, hk, hkr⟩ := hk
            by_cases hxb : x = b.root
            · exact Or.inr (Or.inl hxb)
            · exact Or.inr (Or.inr ⟨k, (hmemo k).mpr ⟨hk, by rw [hkr]; exact hxb⟩, hkr, hx⟩)
          · exact Or.inl ⟨c, (I.f_mem c).mpr ⟨hc, by rw [hcr]; exact hk⟩, hcr⟩
        · rintro (⟨c, hc, hcr⟩ | h | ⟨k, _, _, h⟩)
          · rw [← hcr]; exact (I.root_iff _).mpr (forest_root F ((I.f_mem c).mp hc).1)
          · rw [h]; exact hbroot
          · exact h
      · intro c hc; rw [hcc]; exact F.odd_ok c ((I.f_mem c).mp hc).1
      · rw [hcc]; exact F.odd_ok b hbf
      · intro i hi hd h; exact F.defect_live i hi hd ((I.fresh_iff i).mp h)
      · intro c hc k hk heq
        exact ((I.f_mem c).mp hc).2 ⟨k, ((hmemo k).mp hk).1, heq.symm⟩
      · intro c hc heq
        exact ((I.f_mem c).mp hc).2 ⟨b, hbcl, heq.symm⟩
      · intro i hi hl; exact absurd ((I.fresh_iff i).mpr hi) hl
      · intro x
        constructor
        · intro h; exact Or.inl h
        · rintro (h | ⟨k, h1, h2, _⟩)
          · exact h
          · exact absurd h1 h2
    obtain ⟨rpF, dpF, A⟩ := AInv_fold _ _ _ _ _ A0
    simp only [hbig]
    have hbF0 : rpF b.root = b.root := A.uf.root_rep _ A.b_root
    have hmerged_mem : ∀ x, x ∈ (List.foldl absorb b
        (acc.clusters.eraseP (fun c => decide (c.root = b.root)))).bnd ↔
        (x ∈ b.bnd ∨ ∃ k, k ∈ acc.clusters.eraseP (fun c => decide (c.root = b.root)) ∧ x ∈ k.bnd) := by
      intro x
      rw [A.bnd_iff]
      constructor
      · rintro (h | ⟨k, h1, _, h3⟩)
        · exact Or.inl h
        · exact Or.inr ⟨k, h1, h3⟩
      · rintro (h | ⟨k, h1, h3⟩)
        · exact Or.inl h
        · exact Or.inr ⟨k, h1, by simp, h3⟩
    refine ⟨rpF, dpF, ⟨A.uf, ⟨?_, ?_, ?_, ?_, A.defect_live⟩, A.live_mono, A.coarse, ?_, ?_, ?_, ?_,
      ?_, ?_, ?_⟩, I.bad⟩
    · -- roots_iff
      intro x
      rw [A.roots_iff]
      constructor
      · rintro ⟨c, hc, hcr⟩
        rcases List.mem_append.mp hc with hc | hc
        · exact Or.inl ⟨c, hc, hcr⟩
        · simp at hc; subst hc; exact Or.inr (Or.inl (hcr.symm.trans A.acc_root))
      · rintro (⟨c, hc, hcr⟩ | h | ⟨k, hk, _⟩)
        · exact ⟨c, List.mem_append.mpr (Or.inl hc), hcr⟩
        · exact ⟨_, List.mem_append.mpr (Or.inr (by simp)), A.acc_root.trans h.symm⟩
        · simp at hk
    · rw [List.map_append, List.nodup_append]
      refine ⟨(I.f_sub.map _).nodup F.roots_nodup, by simp, ?_⟩
      intro a ha x hx hax
      simp at hx
      obtain ⟨c, hc, rfl⟩ := List.mem_map.mp ha
      exact A.fr_b c hc (hax.trans (hx.trans A.acc_root))
    · intro c hc
      rcases List.mem_append.mp hc with hc | hc
      · exact F.size_pos c ((I.f_mem c).mp hc).1
      · simp at hc; subst hc; exact A.acc_size
    · intro c hc
      rcases List.mem_append.mp hc with hc | hc
      · exact A.odd_fr c hc
      · simp at hc; subst hc; rw [A.acc_root]; exact A.odd_b
    · -- merged
      intro _
      have hbF : rpF b.root = b.root := A.uf.root_rep _ A.b_root
      refine ⟨b.root, rfl, A.b_root, ?_, hsb⟩
      intro s hs
      by_cases hlive : sPar s = -1
      · have hd := I.cl_dummy s hs hlive
        have hne : (dummy s).root ≠ b.root := by
          intro h; simp [dummy] at h; rw [← h, hlive] at hbroot0; omega
        have := A.done (dummy s) ((hmemo _).mpr ⟨hd, hne⟩) (by simp)
        simpa [dummy] using this
      · refine ⟨A.live_mono s hlive, ?_⟩
        obtain ⟨k, hk, hkf, hkr⟩ := I.cl_real s hs hlive
        have h1 : rpF s = rpF (rep s) :=
          A.coarse s (rep s) hlive (by rw [U.rep_root s hlive]; omega) (U.rep_rep hlive).symm
        rw [h1, ← hkr]
        by_cases hkb : k.root = b.root
        · rw [hkb]; exact hbF
        · exact (A.done k ((hmemo k).mpr ⟨hk, hkb⟩) (by simp)).2
    · -- none
      intro hall
      obtain ⟨sb, hsb1, hsb2, _⟩ := hsb
      exact absurd (hall sb hsb1) hsb2
    · -- frame
      intro i hi
      rcases A.frame i hi with h | ⟨k, hk, hkr⟩
      · exact Or.inl h
      · obtain ⟨hkc, hkb⟩ := (hmemo k).mp hk
        rcases I.cl_src k hkc with ⟨_, s, hs, h1, h2⟩ | ⟨s, hs, h1, rfl⟩
        · exact Or.inr ⟨s, hs, h1, h2.trans hkr⟩
        · exfalso
          simp [dummy] at hkr
          have := U.rep_root i hi
          rw [← hkr, h1] at this; omega
    · -- newlive
      intro i hi hl
      obtain ⟨k, hk, hkr⟩ := A.newlive i hi hl
      obtain ⟨hkc, _⟩ := (hmemo k).mp hk
      rcases I.cl_src k hkc with ⟨hkf, _⟩ | ⟨s, hs, _, rfl⟩
      · have := forest_root F hkf
        rw [hkr, hi] at this; omega
      · simp [dummy] at hkr; rw [← hkr]; exact hs
    · -- bnd_keep
      intro c hc x hx
      by_cases hk : ∃ k, k ∈ acc.clusters ∧ k.root = c.root
      · obtain ⟨k, hk, hkr⟩ := hk
        have hkc : k = c := by
          rcases I.cl_src k hk with ⟨hkf, _⟩ | ⟨s, _, hsf, rfl⟩
          · exact eq_of_root_eq forest F.roots_nodup k c hkf hc hkr
          · exfalso
            have := forest_root F hc
            rw [← hkr] at this; simp [dummy] at this; rw [hsf] at this; omega
        subst hkc
        refine ⟨(List.foldl absorb b (acc.clusters.eraseP (fun c => decide (c.root = b.root)))), List.mem_append.mpr (Or.inr (by simp)), ?_, ?_⟩
        · rw [A.acc_root]
          by_cases hkb : k.root = b.root
          · rw [hkb, hbF0]
          · exact (A.done k ((hmemo k).mpr ⟨hk, hkb⟩) (by simp)).2.symm
        · rw [hmerged_mem]
          by_cases hkb : k.root = b.root
          · have : k = b := eq_of_root_eq forest F.roots_nodup k b hc hbf hkb
            rw [← this]; exact Or.inl hx
          · exact Or.inr ⟨k, (hmemo k).mpr ⟨hk, hkb⟩, hx⟩
      · have hcf : c ∈ acc.forest := (I.f_mem c).mpr ⟨hc, hk⟩
        refine ⟨c, List.mem_append.mpr (Or.inl hcf), ?_, hx⟩
        exact (A.uf.root_rep _ ((A.roots_iff _).mpr (Or.inl ⟨c, hcf, rfl⟩))).symm
    · -- bnd_fresh
      intro s hs hsf _
      have hd := I.cl_dummy s hs hsf
      have hne : (dummy s).root ≠ b.root := by
        intro h; simp [dummy] at h; rw [← h, hsf] at hbroot0; omega
      have hdo := (hmemo _).mpr ⟨hd, hne⟩
      refine ⟨(List.foldl absorb b (acc.clusters.eraseP (fun c => decide (c.root = b.root)))), List.mem_append.mpr (Or.inr (by simp)), ?_, ?_⟩
      · rw [A.acc_root]
        have := (A.done (dummy s) hdo (by simp)).2
        simpa [dummy] using this.symm
      · rw [hmerged_mem]
        exact Or.inr ⟨dummy s, hdo, by simp [dummy]⟩
    · -- bnd_src
      intro c' hc' x hx
      rcases List.mem_append.mp hc' with hc' | hc'
      · have hc0 := ((I.f_mem c').mp hc').1
        exact Or.inl ⟨c', hc0, hx,
          A.uf.root_rep _ ((A.roots_iff _).mpr (Or.inl ⟨c', hc', rfl⟩))⟩
      · simp at hc'; subst hc'
        rw [A.acc_root]
        rcases (hmerged_mem x).mp hx with h | ⟨k, hk, hkx⟩
        · exact Or.inl ⟨b, hbf, h, hbF0⟩
        · obtain ⟨hkc, hkb⟩ := (hmemo k).mp hk
          have hdone := A.done k hk (by simp)
          rcases I.cl_src k hkc with ⟨hkf, _⟩ | ⟨s, hs, hsf, rfl⟩
          · exact Or.inl ⟨k, hkf, hkx, hdone.2⟩
          · simp [dummy] at hkx hdone
            exact Or.inr ⟨s, hs, hsf, hdone.1, hkx, hdone.2⟩

end Panqec.UF
