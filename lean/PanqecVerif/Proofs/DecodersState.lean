/-
The BP-OSD decoder object as a state machine: the correction returned by
`decode` is a function of the immutable attributes and the syndrome only, for
every reachable state (`Model/Decoders.lean`).  Core Lean only.
-/
import PanqecVerif.Model.Decoders

namespace Panqec

/-- what every reachable state of a `BeliefPropagationOSDDecoder` satisfies: once
    initialised, the ldpc objects are the ones built from `Hx`, `Hz` (CSS) or the full
    matrix (non-CSS).  Channel probabilities and result buffers are arbitrary. -/
def BpDec_dec.Good (d : BpDec_dec) (st : BpSt) : Prop :=
  st.initialized = true →
    (isCss d.H = true → ∃ xd zd, st.xDec = some xd ∧ st.zDec = some zd ∧
        xd.matrix = Hz d.H ∧ xd.serial = true ∧ zd.matrix = Hx d.H ∧ zd.serial = true) ∧
    (isCss d.H = false → ∃ dd, st.dec = some dd ∧ dd.matrix = d.H ∧ dd.serial = false)

theorem BpDec_dec.good_init (d : BpDec_dec) : d.Good BpSt.init := by
  intro h; simp [BpSt.init] at h

theorem BpDec_dec.initialize_initialized (d : BpDec_dec) (st : BpSt) :
    (d.initialize st).1.initialized = true := by
  unfold BpDec_dec.initialize; split <;> rfl

theorem BpDec_dec.good_initialize (d : BpDec_dec) (st : BpSt) : d.Good (d.initialize st).1 := by
  intro _
  unfold BpDec_dec.initialize
  cases h : isCss d.H
  · simp [Ldpc.new]
  · simp [Ldpc.new]

theorem BpDec_dec.ready_spec (d : BpDec_dec) (st : BpSt) (hg : d.Good st) :
    (d.ready st).1.initialized = true ∧ d.Good (d.ready st).1 := by
  unfold BpDec_dec.ready
  cases h : st.initialized
  · simp [BpDec_dec.initialize_initialized, BpDec_dec.good_initialize]
  · simp [h, hg]

/-- for an initialised good state the correction is the pure function of the syndrome,
    and the next state is good -/
theorem BpDec_dec.decodeReady_eq_pure (S : BpSolver) (d : BpDec_dec) (st : BpSt) (s : Vec)
    (hi : st.initialized = true) (hg : d.Good st) :
    (d.decodeReady S st s).2.2 = d.pureDecode S s ∧ d.Good (d.decodeReady S st s).1 := by
  have hg' := hg hi
  unfold BpDec_dec.decodeReady BpDec_dec.pureDecode
  cases hcss : isCss d.H
  · obtain ⟨dd, hdd, hm, hs⟩ := hg'.2 hcss
    simp only [hdd, Bool.false_eq_true, if_false]
    unfold BpDec_dec.decodeFull
    by_cases hl : s.length = d.H.length
    · simp only [hl, if_true]
      refine ⟨by simp [Ldpc.decode, Ldpc.update, hm, hs], ?_⟩
      intro _
      refine ⟨fun h => by simp [hcss] at h, fun _ => ⟨_, rfl, ?_, ?_⟩⟩ <;>
        simp [Ldpc.decode, Ldpc.update, hm, hs]
    · simp only [hl, if_false]
      refine ⟨trivial, ?_⟩
      intro _
      refine ⟨fun h => by simp [hcss] at h, fun _ => ⟨_, rfl, ?_, ?_⟩⟩ <;> simp [Ldpc.update, hm, hs]
  · obtain ⟨xd, zd, hxd, hzd, hxm, hxs, hzm, hzs⟩ := hg'.1 hcss
    simp only [if_true]
    by_cases hl : s.length = d.H.length
    · simp only [hl, if_true, hxd, hzd]
      unfold BpDec_dec.decodeCss
      constructor
      · cases hcu : d.cfg.channelUpdate <;>
          simp [Ldpc.decode, Ldpc.update, hxm, hxs, hzm, hzs]
      · intro _
        refine ⟨fun _ => ⟨_, _, rfl, rfl, ?_, ?_, ?_, ?_⟩, fun h => by simp [hcss] at h⟩ <;>
          cases hcu : d.cfg.channelUpdate <;>
          simp [Ldpc.decode, Ldpc.update, hxm, hxs, hzm, hzs]
    · simp only [hl, if_false]
      exact ⟨trivial, hg⟩

/-- every good state: the returned correction only depends on the syndrome, and the
    next state is good again -/
theorem BpDec_dec.decode_eq_pure (S : BpSolver) (d : BpDec_dec) (st : BpSt) (s : Vec) (hg : d.Good st) :
    (d.decode S st s).2.2 = d.pureDecode S s ∧ d.Good (d.decode S st s).1 := by
  obtain ⟨hi, hgr⟩ := d.ready_spec st hg
  exact d.decodeReady_eq_pure S (d.ready st).1 s hi hgr

theorem BpDec_dec.run_good (S : BpSolver) (d : BpDec_dec) : ∀ (hist : List Vec) (st : BpSt),
    d.Good st → d.Good (d.run S st hist)
  | [], st, hg => hg
  | s :: rest, st, hg => by
    unfold BpDec_dec.run
    exact BpDec_dec.run_good S d rest _ (d.decode_eq_pure S st s hg).2

end Panqec
