/-
`HollowRhombicCode`, rank clause, part P: the sizes with `Lz = 4` (the hole is the slab `z = 3`) that are
not deficient and have a hole at least two unit cells wide in `x` and `y`: `(4, Ly, 4)`, `Ly ≥ 5`, and
`(Lx, 5, 4)`, `Lx ≥ 5`.  The triangles of axis 0 as boxes (the kept lower triangles under one hole edge
are the box `0Da` resp. `0Db` of part K), the partition of the selected triangles, and the count
`n − 1` of `rankFamily`.
-/
import PanqecVerif.Proofs.LatHollowRhombicCodeRankO

set_option linter.unusedVariables false
set_option linter.unusedSimpArgs false
set_option linter.unnecessarySeqFocus false

namespace Panqec.HollowRhombicCode
open Panqec.Lat3Db Panqec.Rhombic
open Panqec.Planar3DCode (inE inO inE2 inO1)

section
variable {Lx Ly Lz : Nat}

/-- the boxes of the triangles of axis 0, `Lz = 4`, `Lx = 4` -/
def B0y (Lx Ly Lz : Nat) (x y z : Int) : Prop :=
  (InAp (2 * Lx - 2) 1 x ∧ InAp 0 (Ly - 1) y ∧ InAp 0 Lz z) ∨
  (InAp 2 (Lx - 2) x ∧ InAp 0 (Ly - 1) y ∧ InAp 2 (Lz - 1) z ∧ (x + y + z) % 4 = 2) ∨
  (InAp 2 1 x ∧ InAp 4 (Ly - 4) y ∧ InAp 2 1 z ∧ (x + y + z) % 4 = 0)

/-- the boxes of the triangles of axis 0, `Lz = 4`, `Ly = 5` -/
def B0x (Lx Ly Lz : Nat) (x y z : Int) : Prop :=
  (InAp (2 * Lx - 2) 1 x ∧ InAp 0 (Ly - 1) y ∧ InAp 0 Lz z) ∨
  (InAp 2 (Lx - 2) x ∧ InAp 0 (Ly - 1) y ∧ InAp 2 (Lz - 1) z ∧ (x + y + z) % 4 = 2) ∨
  (InAp 4 (Lx - 3) x ∧ InAp 2 1 y ∧ InAp 2 1 z ∧ (x + y + z) % 4 = 0)

/-- a selected triangle of axis 0 of a size with `Lz = 4`, `Lx ≥ 4`, `Ly ≥ 5`: last column, upper
    triangle, or one of the kept lower triangles -/
theorem ax0z_mp (hx : 4 ≤ Lx) (hy : 5 ≤ Ly) (hz : Lz = 4) (x y z : Int)
    (h : TS Lx Ly Lz 0 x y z) :
    (InAp (2 * Lx - 2) 1 x ∧ InAp 0 (Ly - 1) y ∧ InAp 0 Lz z) ∨
    (InAp 2 (Lx - 2) x ∧ InAp 0 (Ly - 1) y ∧ InAp 2 (Lz - 1) z ∧ (x + y + z) % 4 = 2) ∨
    QY Lx Ly Lz x y z ∨ QX Lx Ly Lz x y z := by
  obtain ⟨_, hv, hp, hc⟩ := h
  have hv' := hv
  unfold VertexLoc inE2 inE at hv'
  unfold PT at hp
  rw [sgnX_0, sgnY_0, sgnZ_01 (Or.inl rfl)] at hp
  obtain ⟨p1, p2, p3, p4, p5, p6⟩ := hp
  unfold SelC at hc
  rcases hc with hc | hc | ⟨hc, _⟩ | ⟨_, hc | ⟨h2, hz2⟩ | ⟨h0, hzt, hn⟩ | hq | hqy | hqx⟩
  · omega
  · omega
  · omega
  · left; unfold InAp; omega
  · by_cases hl : x = 2 * (Lx : Int) - 2
    · left; unfold InAp; omega
    · right; left; unfold InAp; omega
  · exfalso
    rw [if_pos h0] at p4
    have hcol : ¬ (x + y + (z + 2)) % 4 = 0 := by omega
    apply hn
    unfold PT; rw [sgnX_0, sgnY_0, sgnZ_01 (Or.inl rfl), if_neg hcol]
    have e : z + 2 + -1 = z + 1 := by omega
    rw [e]
    refine ⟨?_, ?_, ?_, p4, p5, p6⟩ <;> (intro hh; unfold Hole at hh; omega)
  · exfalso; unfold QC at hq; omega
  · exact Or.inr (Or.inr (Or.inl hqy))
  · exact Or.inr (Or.inr (Or.inr hqx))

theorem ax0z_abs (hx : 4 ≤ Lx) (hy : 5 ≤ Ly) (hz : Lz = 4) (x y z : Int)
    (h : P0 Lx Ly Lz x y z) :
    InAp 2 (Lx - 2) x ∧ InAp 0 (Ly - 1) y ∧ InAp 2 (Lz - 1) z ∧ (x + y + z) % 4 = 2 := by
  unfold P0 at h
  rcases h with h | h | h | h <;> unfold InAp at h ⊢ <;> omega

/-- the last column -/
theorem ax0z_last (hx : 4 ≤ Lx) (hy : 5 ≤ Ly) (hz : Lz = 4) (x y z : Int)
    (h : InAp (2 * Lx - 2) 1 x ∧ InAp 0 (Ly - 1) y ∧ InAp 0 Lz z) : TS Lx Ly Lz 0 x y z := by
  unfold InAp at h
  refine ⟨by decide, ?_, ?_, ?_⟩
  · unfold VertexLoc inE2 inE; omega
  · unfold PT; rw [sgnX_0, sgnY_0]
    refine ⟨?_, ?_, ?_, ?_, by omega, by omega⟩ <;> (intro hh; unfold Hole at hh; omega)
  · unfold SelC; right; right; right; exact ⟨rfl, Or.inl (by omega)⟩

/-- the upper triangles -/
theorem ax0z_upper (hx : 4 ≤ Lx) (hy : 5 ≤ Ly) (hz : Lz = 4) (x y z : Int)
    (h : InAp 2 (Lx - 2) x ∧ InAp 0 (Ly - 1) y ∧ InAp 2 (Lz - 1) z ∧ (x + y + z) % 4 = 2) :
    TS Lx Ly Lz 0 x y z ∨ P0 Lx Ly Lz x y z := by
  obtain ⟨hX, hY, hZ, hc2⟩ := h
  unfold InAp at hX hY hZ
  have hcol : ¬ (x + y + z) % 4 = 0 := by omega
  by_cases h4 : Hole Lx Ly Lz x y (z + -1)
  · right; unfold P0; right; right; right; unfold Hole at h4; unfold InAp; omega
  left
  refine ⟨by decide, ?_, ?_, ?_⟩
  · unfold VertexLoc inE2 inE; omega
  · unfold PT; rw [sgnX_0, sgnY_0, sgnZ_01 (Or.inl rfl), if_neg hcol]
    refine ⟨?_, ?_, ?_, h4, by omega, by omega⟩ <;> (intro hh; unfold Hole at hh; omega)
  · unfold SelC; right; right; right; exact ⟨rfl, Or.inr (Or.inl ⟨hc2, by omega⟩)⟩

/-- a kept lower triangle is listed -/
theorem ax0z_lower (hx : 4 ≤ Lx) (hy : 5 ≤ Ly) (hz : Lz = 4) (x y z : Int)
    (h : QY Lx Ly Lz x y z ∨ QX Lx Ly Lz x y z) : TS Lx Ly Lz 0 x y z := by
  have hc0 : (x + y + z) % 4 = 0 := by
    rcases h with h | h
    · exact h.2.2.2.2.1
    · exact h.2.2.2.2.1
  have hr : 2 ≤ x ∧ x ≤ 2 * (Lx : Int) - 4 ∧ 2 ≤ y ∧ y ≤ 2 * (Ly : Int) - 6 ∧ z = 2 ∧ x % 2 = 0 ∧
      y % 2 = 0 := by
    rcases h with h | h
    · unfold QY at h; omega
    · unfold QX at h; omega
  refine ⟨by decide, ?_, ?_, ?_⟩
  · unfold VertexLoc inE2 inE; omega
  · unfold PT; rw [sgnX_0, sgnY_0, sgnZ_01 (Or.inl rfl), if_pos hc0]
    refine ⟨?_, ?_, ?_, ?_, by omega, by omega⟩
    · intro hh; unfold Hole at hh; omega
    · intro hh; unfold Hole at hh; omega
    · intro hh; unfold Hole at hh; omega
    · intro hh; unfold Hole at hh
      rcases h with h | h
      · unfold QY at h; omega
      · unfold QX at h; omega
  · unfold SelC; right; right; right
    rcases h with h | h
    · exact ⟨rfl, Or.inr (Or.inr (Or.inr (Or.inr (Or.inl h))))⟩
    · exact ⟨rfl, Or.inr (Or.inr (Or.inr (Or.inr (Or.inr h))))⟩

theorem ax0y (hx : Lx = 4) (hy : 5 ≤ Ly) (hz : Lz = 4) (x y z : Int) :
    (TS Lx Ly Lz 0 x y z ∨ P0 Lx Ly Lz x y z) ↔ B0y Lx Ly Lz x y z := by
  unfold B0y
  constructor
  · rintro (h | h)
    · rcases ax0z_mp (by omega) hy hz x y z h with h | h | h | h
      · exact Or.inl h
      · exact Or.inr (Or.inl h)
      · right; right; unfold QY at h; unfold InAp; omega
      · exfalso; unfold QX at h; omega
    · exact Or.inr (Or.inl (ax0z_abs (by omega) hy hz x y z h))
  · rintro (h | h | h)
    · exact Or.inl (ax0z_last (by omega) hy hz x y z h)
    · exact ax0z_upper (by omega) hy hz x y z h
    · left; apply ax0z_lower (by omega) hy hz x y z
      left; unfold InAp at h; unfold QY; omega

theorem ax0x (hx : 5 ≤ Lx) (hy : Ly = 5) (hz : Lz = 4) (x y z : Int) :
    (TS Lx Ly Lz 0 x y z ∨ P0 Lx Ly Lz x y z) ↔ B0x Lx Ly Lz x y z := by
  unfold B0x
  constructor
  · rintro (h | h)
    · rcases ax0z_mp (by omega) (by omega) hz x y z h with h | h | h | h
      · exact Or.inl h
      · exact Or.inr (Or.inl h)
      · exfalso; unfold QY at h; omega
      · right; right; unfold QX at h; unfold InAp; omega
    · exact Or.inr (Or.inl (ax0z_abs (by omega) (by omega) hz x y z h))
  · rintro (h | h | h)
    · exact Or.inl (ax0z_last (by omega) (by omega) hz x y z h)
    · exact ax0z_upper (by omega) (by omega) hz x y z h
    · left; apply ax0z_lower (by omega) (by omega) hz x y z
      right; unfold InAp at h; unfold QX; omega

/-- the boxes of the triangles of axis 0, as lists -/
def LB0y (Lx Ly Lz : Nat) : List Coord :=
  bx 0 (2 * Lx - 2) 1 0 (Ly - 1) 0 Lz tt ++ (bx 0 2 (Lx - 2) 0 (Ly - 1) 2 (Lz - 1) (chk 2) ++
  bx 0 2 1 4 (Ly - 4) 2 1 (chk 0))

def LB0x (Lx Ly Lz : Nat) : List Coord :=
  bx 0 (2 * Lx - 2) 1 0 (Ly - 1) 0 Lz tt ++ (bx 0 2 (Lx - 2) 0 (Ly - 1) 2 (Lz - 1) (chk 2) ++
  bx 0 4 (Lx - 3) 2 1 2 1 (chk 0))

theorem or3_and {p A B C : Prop} : ((p ∧ A) ∨ ((p ∧ B) ∨ (p ∧ C))) ↔ (p ∧ (A ∨ B ∨ C)) := by
  constructor
  · rintro (⟨h, a⟩ | ⟨h, a⟩ | ⟨h, a⟩)
    · exact ⟨h, Or.inl a⟩
    · exact ⟨h, Or.inr (Or.inl a)⟩
    · exact ⟨h, Or.inr (Or.inr a)⟩
  · rintro ⟨h, a | a | a⟩
    · exact Or.inl ⟨h, a⟩
    · exact Or.inr (Or.inl ⟨h, a⟩)
    · exact Or.inr (Or.inr ⟨h, a⟩)

theorem spec_LB0y (hx : 4 ≤ Lx) (hy : 5 ≤ Ly) (hz : Lz = 4) :
    Spec (LB0y Lx Ly Lz) (fun a x y z => a = 0 ∧ B0y Lx Ly Lz x y z) := by
  unfold LB0y
  have h := (spec_bx 0 (2 * Lx - 2) 1 0 (Ly - 1) 0 Lz tt).append
    ((spec_bx 0 2 (Lx - 2) 0 (Ly - 1) 2 (Lz - 1) (chk 2)).append
    (spec_bx 0 2 1 4 (Ly - 4) 2 1 (chk 0))
    (by intro a x y z h1 h2; simp only [chk_iff, tt_iff] at h1 h2; unfold InAp at h1 h2; omega))
    (by intro a x y z h1 h2; simp only [chk_iff, tt_iff] at h1 h2; unfold InAp at h1 h2; omega)
  refine h.congr ?_
  intro a x y z
  unfold B0y
  simp only [chk_iff, tt_iff, and_true]
  exact or3_and

theorem spec_LB0x (hx : 4 ≤ Lx) (hy : 5 ≤ Ly) (hz : Lz = 4) :
    Spec (LB0x Lx Ly Lz) (fun a x y z => a = 0 ∧ B0x Lx Ly Lz x y z) := by
  unfold LB0x
  have h := (spec_bx 0 (2 * Lx - 2) 1 0 (Ly - 1) 0 Lz tt).append
    ((spec_bx 0 2 (Lx - 2) 0 (Ly - 1) 2 (Lz - 1) (chk 2)).append
    (spec_bx 0 4 (Lx - 3) 2 1 2 1 (chk 0))
    (by intro a x y z h1 h2; simp only [chk_iff, tt_iff] at h1 h2; unfold InAp at h1 h2; omega))
    (by intro a x y z h1 h2; simp only [chk_iff, tt_iff] at h1 h2; unfold InAp at h1 h2; omega)
  refine h.congr ?_
  intro a x y z
  unfold B0x
  simp only [chk_iff, tt_iff, and_true]
  exact or3_and

/-- the partition of the selected triangles, given the boxes of axis 0 -/
theorem partition_z4 (hx : 4 ≤ Lx) (hy : 5 ≤ Ly) (hz : Lz = 4) {LB : List Coord}
    {B : Int → Int → Int → Prop} (hLB : Spec LB (fun a x y z => a = 0 ∧ B x y z))
    (hB : ∀ x y z, (TS Lx Ly Lz 0 x y z ∨ P0 Lx Ly Lz x y z) ↔ B x y z) :
    ((triangles Lx Ly Lz).filter (selTri Lx Ly Lz)).length +
      ((L3 Lx Ly Lz).length + ((L2 Lx Ly Lz).length + (L0 Lx Ly Lz).length)) =
    (bx 3 2 (Lx - 1) 0 (Ly - 1) 0 Lz tt).length + ((bx 2 2 (Lx - 1) 2 (Ly - 1) 0 Lz tt).length +
      ((L1 Lx Ly Lz).length + LB.length)) := by
  have h3 : 3 ≤ Lx := by omega
  have h4 : 4 ≤ Ly := by omega
  have h5 : 4 ≤ Lz := by omega
  have hA := (spec_selTriangles Lx Ly Lz).append
    ((spec_L3 h3 h4 h5).append ((spec_L2 h3 h4 h5).append (spec_L0 h3 h4 h5)
      (by intro a x y z h1 h2; omega))
      (by intro a x y z h1 h2; omega))
    (by
      intro a x y z h1 h2
      rcases h2 with ⟨rfl, h2⟩ | ⟨rfl, h2⟩ | ⟨rfl, h2⟩
      · exact ax3_disj h3 h4 h5 x y z h1 h2
      · exact ax2_disj h3 h4 h5 x y z h1 h2
      · exact ax0_disj h3 h4 h5 x y z h1 h2)
  have hBx := (spec_bx 3 2 (Lx - 1) 0 (Ly - 1) 0 Lz tt).append
    ((spec_bx 2 2 (Lx - 1) 2 (Ly - 1) 0 Lz tt).append
      ((spec_L1 h3 h4 h5).append hLB (by intro a x y z h1 h2; omega))
      (by intro a x y z h1 h2; omega))
    (by intro a x y z h1 h2; omega)
  have h := hA.length_eq hBx (by
    intro a x y z
    simp only [tt_iff, and_true]
    constructor
    · rintro (h | ⟨rfl, h⟩ | ⟨rfl, h⟩ | ⟨rfl, h⟩)
      · have ha := h.1
        have h4' : a = 0 ∨ a = 1 ∨ a = 2 ∨ a = 3 := by omega
        rcases h4' with rfl | rfl | rfl | rfl
        · exact Or.inr (Or.inr (Or.inr ⟨rfl, (hB x y z).mp (Or.inl h)⟩))
        · exact Or.inr (Or.inr (Or.inl ⟨rfl, (ax1 h3 h4 h5 x y z).mp h⟩))
        · exact Or.inr (Or.inl ⟨rfl, (ax2 h3 h4 h5 x y z).mp (Or.inl h)⟩)
        · exact Or.inl ⟨rfl, (ax3 h3 h4 h5 x y z).mp (Or.inl h)⟩
      · exact Or.inl ⟨rfl, (ax3 h3 h4 h5 x y z).mp (Or.inr h)⟩
      · exact Or.inr (Or.inl ⟨rfl, (ax2 h3 h4 h5 x y z).mp (Or.inr h)⟩)
      · exact Or.inr (Or.inr (Or.inr ⟨rfl, (hB x y z).mp (Or.inr h)⟩))
    · rintro (⟨rfl, h⟩ | ⟨rfl, h⟩ | ⟨rfl, h⟩ | ⟨rfl, h⟩)
      · rcases (ax3 h3 h4 h5 x y z).mpr h with h | h
        · exact Or.inl h
        · exact Or.inr (Or.inl ⟨rfl, h⟩)
      · rcases (ax2 h3 h4 h5 x y z).mpr h with h | h
        · exact Or.inl h
        · exact Or.inr (Or.inr (Or.inl ⟨rfl, h⟩))
      · exact Or.inl ((ax1 h3 h4 h5 x y z).mpr h)
      · rcases (hB x y z).mpr h with h | h
        · exact Or.inl h
        · exact Or.inr (Or.inr (Or.inr ⟨rfl, h⟩)))
  simpa only [List.length_append] using h

theorem length_LB0y (Lx Ly Lz : Nat) : (LB0y Lx Ly Lz).length =
    1 * (Ly - 1) * Lz + (half ((Lx - 2) * ((Ly - 1) * (Lz - 1))) false +
      half (1 * ((Ly - 4) * 1)) true) := by
  unfold LB0y
  simp only [List.length_append, length_bx_tt]
  rw [length_bx_chk _ _ _ _ _ _ _ _ (by decide) (by decide),
    length_bx_chk _ _ _ _ _ _ _ _ (by decide) (by decide)]
  rfl

theorem length_LB0x (Lx Ly Lz : Nat) : (LB0x Lx Ly Lz).length =
    1 * (Ly - 1) * Lz + (half ((Lx - 2) * ((Ly - 1) * (Lz - 1))) false +
      half ((Lx - 3) * (1 * 1)) true) := by
  unfold LB0x
  simp only [List.length_append, length_bx_tt]
  rw [length_bx_chk _ _ _ _ _ _ _ _ (by decide) (by decide),
    length_bx_chk _ _ _ _ _ _ _ _ (by decide) (by decide)]
  rfl

theorem lz4_bool : ((((4 : Int) + 4 + (2 * ((4 : Nat) : Int) - 4)) % 4 == 0) = true) ∧
    ((((4 : Int) + 4 + (2 * ((4 : Nat) : Int) - 4)) % 4 == 2) = false) := by decide

/-- `(4, Ly, 4)`, `Ly ≥ 5` -/
theorem count_4_L_4 (Ly : Nat) (hy : 5 ≤ Ly) :
    (rankFamily 4 Ly 4).length + 1 = (qubits 4 Ly 4).length := by
  have h1 := cubes_count 4 Ly 4
  have h2 := partition_z4 (Lx := 4) (Ly := Ly) (Lz := 4) (by decide) hy rfl
    (spec_LB0y (by decide) hy rfl) (ax0y rfl hy rfl)
  have h3 := qubits_length_add 4 Ly 4
  rw [length_L3, length_L2, length_L1, length_L0, length_LB0y, length_bx_tt, length_bx_tt,
    lz4_bool.1, lz4_bool.2] at h2
  unfold rankFamily
  rw [List.length_append]
  generalize (cubes 4 Ly 4).length = C at *
  generalize ((triangles 4 Ly 4).filter (selTri 4 Ly 4)).length = T at *
  generalize (qubits 4 Ly 4).length = N at *
  simp only [Nat.reduceSub, Nat.reduceMul, Nat.reduceAdd, Nat.zero_mul, Nat.mul_zero, Nat.one_mul,
    Nat.mul_one, Nat.add_zero, Nat.zero_add, half_zero] at h1 h2 h3
  unfold half at h1 h2
  simp only [if_true, Bool.false_eq_true, if_false] at h1 h2
  omega

/-- `(Lx, 5, 4)`, `Lx ≥ 5` -/
theorem count_L_5_4 (Lx : Nat) (hx : 5 ≤ Lx) :
    (rankFamily Lx 5 4).length + 1 = (qubits Lx 5 4).length := by
  have h1 := cubes_count Lx 5 4
  have h2 := partition_z4 (Lx := Lx) (Ly := 5) (Lz := 4) (by omega) (by decide) rfl
    (spec_LB0x (by omega) (by decide) rfl) (ax0x hx rfl rfl)
  have h3 := qubits_length_add Lx 5 4
  rw [length_L3, length_L2, length_L1, length_L0, length_LB0x, length_bx_tt, length_bx_tt,
    lz4_bool.1, lz4_bool.2] at h2
  unfold rankFamily
  rw [List.length_append]
  generalize (cubes Lx 5 4).length = C at *
  generalize ((triangles Lx 5 4).filter (selTri Lx 5 4)).length = T at *
  generalize (qubits Lx 5 4).length = N at *
  simp only [Nat.reduceSub, Nat.reduceMul, Nat.reduceAdd, Nat.zero_mul, Nat.mul_zero, Nat.one_mul,
    Nat.mul_one, Nat.add_zero, Nat.zero_add, half_zero] at h1 h2 h3
  unfold half at h1 h2
  simp only [if_true, Bool.false_eq_true, if_false] at h1 h2
  omega

end

end Panqec.HollowRhombicCode
