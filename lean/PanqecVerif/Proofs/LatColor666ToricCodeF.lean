/-
Color666ToricCode, square sizes `L ≥ 1`: the logical operators as dicts (distinct keys), their
overlaps with the faces and with each other (pairing table).  Core Lean only.
-/
import PanqecVerif.Proofs.LatColor666ToricCodeEA
import PanqecVerif.Proofs.LatColor666ToricCodeEB
import PanqecVerif.Proofs.LatColor666ToricCodeEC
import PanqecVerif.Proofs.LatColor666ToricCodeED
import PanqecVerif.Proofs.LatColor488CodeD

set_option linter.unusedVariables false
set_option linter.unusedSimpArgs false

namespace Panqec.Color666ToricCode
open Panqec.Lat2D Panqec.Color
open Panqec.Color488Code (interCount_pred cross_one cross_zero)

/-! ### distinct keys -/

theorem nodup_flatMap_of {α β} (xs : List α) (f : α → List β) (hx : xs.Nodup)
    (h1 : ∀ x ∈ xs, (f x).Nodup)
    (h2 : ∀ x ∈ xs, ∀ x' ∈ xs, x ≠ x' → ∀ q ∈ f x, q ∈ f x' → False) : (xs.flatMap f).Nodup := by
  show List.Pairwise _ _
  rw [List.pairwise_flatMap]
  refine ⟨h1, ?_⟩
  refine List.Pairwise.imp_of_mem ?_ hx
  intro a b ha hb hab q hq r hr e
  subst e
  exact h2 a ha b hb hab q hq hr

/-- the first block element lists of the string `A`, with the `is_qubit` branch as a parameter -/
def blockA (L : Nat) (c : Bool) (x : Int) : List Coord :=
  let y := 12 * (L : Int) - 6 - (6 * (x - 8)) / 9
  [[x - 4, y + 4], [x - 2, y + 4]] ++ (if c then [[x + 1, y + 2], [x + 2, y]] else [[0, 2], [1, 0]])

theorem kA_eq (L : Nat) : kA L = (pyRangeStep 8 (9 * (L : Int)) 9).flatMap fun x =>
    blockA L (isQubit L L [x + 1, 12 * (L : Int) - 6 - (6 * (x - 8)) / 9 + 2]) x := rfl

theorem mem_blockA {L : Nat} {c : Bool} {x : Int} {q : Coord} (h : q ∈ blockA L c x) :
    ∃ a b, q = [a, b] ∧
      (a = x - 4 ∨ a = x - 2 ∨ a = x + 1 ∨ a = x + 2 ∨ (c = false ∧ (a = 0 ∨ a = 1))) := by
  unfold blockA at h
  cases c <;> simp only [List.mem_append, List.mem_cons, List.not_mem_nil, or_false, if_true,
    if_false, Bool.false_eq_true] at h
  · rcases h with (rfl | rfl) | rfl | rfl <;> exact ⟨_, _, rfl, by simp⟩
  · rcases h with (rfl | rfl) | rfl | rfl <;> exact ⟨_, _, rfl, by omega⟩

theorem nodup_blockA (L : Nat) (c : Bool) (x : Int) (hx : 8 ≤ x) : (blockA L c x).Nodup := by
  unfold blockA
  cases c <;> simp only [if_true, if_false, Bool.false_eq_true, List.cons_append, List.nil_append,
    List.nodup_cons, List.mem_cons, List.cons.injEq, and_true, List.not_mem_nil, or_false,
    not_false_eq_true, List.nodup_nil] <;> omega

/-- the `is_qubit` branch of the first string fails only in the last block -/
theorem branchA_false {L : Nat} (hL : 1 ≤ L) {x : Int} (h1 : 8 ≤ x) (h2 : x < 9 * (L : Int))
    (h3 : (x - 8) % 9 = 0)
    (hc : isQubit L L [x + 1, 12 * (L : Int) - 6 - (6 * (x - 8)) / 9 + 2] = false) :
    x = 9 * (L : Int) - 1 := by
  by_cases hx : x = 9 * (L : Int) - 1
  · exact hx
  · exfalso
    have : isQubit L L [x + 1, 12 * (L : Int) - 6 - (6 * (x - 8)) / 9 + 2] = true := by
      rw [isQubit_iff hL, isQ_unfold]; omega
    rw [this] at hc; exact absurd hc (by decide)

theorem nodup_kA {L : Nat} (hL : 1 ≤ L) : (kA L).Nodup := by
  rw [kA_eq]
  apply nodup_flatMap_of _ _ (nodup_pyRangeStep _ _ _ (by decide))
  · intro x hx
    rw [mem_pyRangeStep9] at hx
    exact nodup_blockA L _ x (by omega)
  · intro x hx x' hx' hne q hq hq'
    rw [mem_pyRangeStep9] at hx hx'
    obtain ⟨a, b, rfl, h⟩ := mem_blockA hq
    obtain ⟨a', b', e, h'⟩ := mem_blockA hq'
    simp only [List.cons.injEq, and_true] at e
    have f1 := fun hc => branchA_false hL (x := x) (by omega) (by omega) (by omega) hc
    have f2 := fun hc => branchA_false hL (x := x') (by omega) (by omega) (by omega) hc
    rcases h with h | h | h | h | ⟨hc, h⟩ <;> rcases h' with h' | h' | h' | h' | ⟨hc', h'⟩ <;>
      first
      | omega
      | (have := f1 hc; omega)
      | (have := f2 hc'; omega)
      | (have := f1 hc; have := f2 hc'; omega)

theorem nodup_kB (L : Nat) : (kB L).Nodup := by
  unfold kB keysB
  apply nodup_flatMap_of _ _ (nodup_pyRangeStep _ _ _ (by decide))
  · intro x hx
    simp only [List.nodup_cons, List.mem_cons, List.cons.injEq, and_true, List.not_mem_nil,
      or_false, not_false_eq_true, List.nodup_nil]
    omega
  · intro x hx x' hx' hne q hq hq'
    rw [mem_pyRangeStep9] at hx hx'
    simp only [List.mem_cons, List.not_mem_nil, or_false] at hq hq'
    rcases hq with rfl | rfl | rfl | rfl <;> rcases hq' with e | e | e | e <;>
      simp only [List.cons.injEq, and_true] at e <;> omega

theorem nodup_kC (L : Nat) : (kC L).Nodup := by
  unfold kC keysC
  apply nodup_flatMap_of _ _ (nodup_pyRangeStep _ _ _ (by decide))
  · intro x hx
    simp only [List.nodup_cons, List.mem_cons, List.cons.injEq, and_true, List.not_mem_nil,
      or_false, not_false_eq_true, List.nodup_nil]
    omega
  · intro x hx x' hx' hne q hq hq'
    rw [mem_pyRangeStep12] at hx hx'
    simp only [List.mem_cons, List.not_mem_nil, or_false] at hq hq'
    rcases hq with rfl | rfl | rfl | rfl <;> rcases hq' with e | e | e | e <;>
      simp only [List.cons.injEq, and_true] at e <;> omega

theorem nodup_kD (L : Nat) : (kD L).Nodup := by
  unfold kD keysD
  apply nodup_flatMap_of _ _ (nodup_pyRangeStep _ _ _ (by decide))
  · intro x hx
    simp only [List.nodup_cons, List.mem_cons, List.cons.injEq, and_true, List.not_mem_nil,
      or_false, not_false_eq_true, List.nodup_nil]
    omega
  · intro x hx x' hx' hne q hq hq'
    rw [mem_pyRangeStep12] at hx hx'
    simp only [List.mem_cons, List.not_mem_nil, or_false] at hq hq'
    rcases hq with rfl | rfl | rfl | rfl <;> rcases hq' with e | e | e | e <;>
      simp only [List.cons.injEq, and_true] at e <;> omega

theorem logX_eq {L : Nat} (hL : 1 ≤ L) : logX L L =
    [(kA L).map (fun q => (q, Pauli.X)), (kB L).map (fun q => (q, Pauli.X)),
     (kC L).map (fun q => (q, Pauli.X)), (kD L).map (fun q => (q, Pauli.X))] := by
  show [lineOp (kA L) Pauli.X, lineOp (kB L) Pauli.X, lineOp (kC L) Pauli.X, lineOp (kD L) Pauli.X] = _
  rw [lineOp_eq _ _ (nodup_kA hL), lineOp_eq _ _ (nodup_kB L), lineOp_eq _ _ (nodup_kC L),
    lineOp_eq _ _ (nodup_kD L)]

theorem logZ_eq {L : Nat} (hL : 1 ≤ L) : logZ L L =
    [(kC L).map (fun q => (q, Pauli.Z)), (kD L).map (fun q => (q, Pauli.Z)),
     (kA L).map (fun q => (q, Pauli.Z)), (kB L).map (fun q => (q, Pauli.Z))] := by
  show [lineOp (kC L) Pauli.Z, lineOp (kD L) Pauli.Z, lineOp (kA L) Pauli.Z, lineOp (kB L) Pauli.Z] = _
  rw [lineOp_eq _ _ (nodup_kA hL), lineOp_eq _ _ (nodup_kB L), lineOp_eq _ _ (nodup_kC L),
    lineOp_eq _ _ (nodup_kD L)]

/-! ### the strings as sets of qubits -/

theorem mem_kA_π {L : Nat} (hL : 1 ≤ L) (q : Coord) :
    q ∈ kA L ↔ (q ∈ qubits L L ∧ πA L q = true) := by
  rw [mem_kA hL, mem_qubits hL]
  constructor
  · rintro ⟨a, b, rfl, hq, hp⟩
    exact ⟨⟨a, b, rfl, hq⟩, by simp only [πA, decide_eq_true_eq]; exact (PA_iff hL hq).mp hp⟩
  · rintro ⟨⟨a, b, rfl, hq⟩, hp⟩
    simp only [πA, decide_eq_true_eq] at hp
    exact ⟨a, b, rfl, hq, (PA_iff hL hq).mpr hp⟩

theorem mem_kB_π {L : Nat} (hL : 1 ≤ L) (q : Coord) :
    q ∈ kB L ↔ (q ∈ qubits L L ∧ πB L q = true) := by
  rw [mem_kB hL, mem_qubits hL]
  constructor
  · rintro ⟨a, b, rfl, hq, hp⟩
    exact ⟨⟨a, b, rfl, hq⟩, by simp only [πB, decide_eq_true_eq]; exact (PB_iff hL hq).mp hp⟩
  · rintro ⟨⟨a, b, rfl, hq⟩, hp⟩
    simp only [πB, decide_eq_true_eq] at hp
    exact ⟨a, b, rfl, hq, (PB_iff hL hq).mpr hp⟩

theorem mem_kC_π {L : Nat} (hL : 1 ≤ L) (q : Coord) :
    q ∈ kC L ↔ (q ∈ qubits L L ∧ πC q = true) := by
  rw [mem_kC hL, mem_qubits hL]
  constructor
  · rintro ⟨a, b, rfl, hq, hp⟩
    exact ⟨⟨a, b, rfl, hq⟩, by simp only [πC, decide_eq_true_eq]; exact hp⟩
  · rintro ⟨⟨a, b, rfl, hq⟩, hp⟩
    simp only [πC, decide_eq_true_eq] at hp
    exact ⟨a, b, rfl, hq, hp⟩

theorem mem_kD_π {L : Nat} (hL : 1 ≤ L) (q : Coord) :
    q ∈ kD L ↔ (q ∈ qubits L L ∧ πD q = true) := by
  rw [mem_kD hL, mem_qubits hL]
  constructor
  · rintro ⟨a, b, rfl, hq, hp⟩
    exact ⟨⟨a, b, rfl, hq⟩, by simp only [πD, decide_eq_true_eq]; exact hp⟩
  · rintro ⟨⟨a, b, rfl, hq⟩, hp⟩
    simp only [πD, decide_eq_true_eq] at hp
    exact ⟨a, b, rfl, hq, hp⟩

/-- a face meets each logical string in an even number of qubits -/
theorem face_string_even {L : Nat} (hL : 1 ≤ L) {x y : Int} (hf : IsF L x y) {K : List Coord}
    (hK : K = kA L ∨ K = kB L ∨ K = kC L ∨ K = kD L) : interCount (supp L x y) K % 2 = 0 := by
  have hA : ∀ q ∈ supp L x y, q ∈ qubits L L :=
    fun q hq => (mem_qubits_faces hL).mpr ⟨x, y, hf, hq⟩
  rcases hK with rfl | rfl | rfl | rfl
  · rw [interCount_pred _ _ (πA L) _ hA (mem_kA_π hL)]; exact face_A_even hL hf
  · rw [interCount_pred _ _ (πB L) _ hA (mem_kB_π hL)]; exact face_B_even hL hf
  · rw [interCount_pred _ _ πC _ hA (mem_kC_π hL)]; exact face_C_even hL hf
  · rw [interCount_pred _ _ πD _ hA (mem_kD_π hL)]; exact face_D_even hL hf

end Panqec.Color666ToricCode
