/-
Soundness of the exhaustive check `checkExhaustive` (Model/Dist.lean), part 1 (core Lean):

* `exhB_cover`: the enumeration visits (the effect of) every Pauli operator of weight `≤ b`;
* `effList_table`: the xor of the table entries selected by an operator `v = (xs | zs)` is the
  packed vector of the symplectic products of `v` with all rows (`effVec`).
-/
import PanqecVerif.Model.Dist
import PanqecVerif.Proofs.Dist1

namespace Panqec

/-! ### operators as two aligned lists (X bits, Z bits) -/

/-- Pauli weight of the operator with X bits `xs` and Z bits `zs` -/
def wtXZ (xs zs : List Nat) : Nat :=
  (List.zipWith (fun x z => x != 0 || z != 0) xs zs).countP id

/-- xor of the table entries selected by the operator `(xs | zs)` -/
def effList : List (Nat × Nat) → List Nat → List Nat → Nat
  | (ex, ez) :: t, x :: xs, z :: zs =>
    (if x ≠ 0 then ex else 0) ^^^ (if z ≠ 0 then ez else 0) ^^^ effList t xs zs
  | _, _, _ => 0

theorem rowWeight_eq_wtXZ (v : List Nat) : rowWeight v = wtXZ (xPart v) (zPart v) := rfl

theorem wtXZ_cons (x z : Nat) (xs zs : List Nat) :
    wtXZ (x :: xs) (z :: zs) = (if (x != 0 || z != 0) = true then 1 else 0) + wtXZ xs zs := by
  simp only [wtXZ, List.zipWith_cons_cons, List.countP_cons, id]
  omega

theorem effList_of_wt_zero : ∀ (tbl : List (Nat × Nat)) (xs zs : List Nat), wtXZ xs zs = 0 →
    effList tbl xs zs = 0
  | [], _, _, _ => by simp [effList]
  | _ :: _, [], _, _ => by simp [effList]
  | _ :: _, _ :: _, [], _ => by simp [effList]
  | (ex, ez) :: t, x :: xs, z :: zs, h => by
    rw [wtXZ_cons] at h
    by_cases hx : x = 0
    · by_cases hz : z = 0
      · subst hx; subst hz
        have h' : wtXZ xs zs = 0 := by simpa using h
        simp [effList, effList_of_wt_zero t xs zs h']
      · simp [hz] at h
    · simp [hx] at h

/-! ### the enumeration covers every operator of weight `≤ b` -/

theorem exhTails_cover (T b : Nat) (f : List (Nat × Nat) → Nat → Bool)
    (hf : ∀ tbl acc, f tbl acc = true → ∀ xs zs, wtXZ xs zs ≤ b →
      goodEff T (acc ^^^ effList tbl xs zs) = true) :
    ∀ (tbl : List (Nat × Nat)) (acc : Nat), goodEff T acc = true →
      exhTails f tbl acc = true → ∀ xs zs, wtXZ xs zs ≤ b + 1 →
      goodEff T (acc ^^^ effList tbl xs zs) = true
  | [], acc, hg, _, xs, zs, _ => by simpa [effList] using hg
  | _ :: _, acc, hg, _, [], zs, _ => by simpa [effList] using hg
  | _ :: _, acc, hg, _, _ :: _, [], _ => by simpa [effList] using hg
  | (ex, ez) :: t, acc, hg, h, x :: xs, z :: zs, hw => by
    simp only [exhTails, forceNat_eq, Bool.and_eq_true] at h
    obtain ⟨⟨⟨h1, h2⟩, h3⟩, h4⟩ := h
    rw [wtXZ_cons] at hw
    by_cases hx : x = 0
    · by_cases hz : z = 0
      · subst hx; subst hz
        have hw' : wtXZ xs zs ≤ b + 1 := by simpa using hw
        have := exhTails_cover T b f hf t acc hg h4 xs zs hw'
        simpa [effList] using this
      · subst hx
        have hw' : wtXZ xs zs ≤ b := by simp [hz] at hw; omega
        have := hf t _ h2 xs zs hw'
        simpa [effList, hz, Nat.xor_assoc] using this
    · by_cases hz : z = 0
      · subst hz
        have hw' : wtXZ xs zs ≤ b := by simp [hx] at hw; omega
        have := hf t _ h1 xs zs hw'
        simpa [effList, hx, Nat.xor_assoc] using this
      · have hw' : wtXZ xs zs ≤ b := by simp [hx] at hw; omega
        have := hf t _ h3 xs zs hw'
        simpa [effList, hx, hz, Nat.xor_assoc] using this

/-- `exhB` accepts only if every operator of weight `≤ b` (composed with `acc`) is harmless -/
theorem exhB_cover (T : Nat) : ∀ (b : Nat) (tbl : List (Nat × Nat)) (acc : Nat),
    exhB T b tbl acc = true → ∀ xs zs, wtXZ xs zs ≤ b →
      goodEff T (acc ^^^ effList tbl xs zs) = true
  | 0, tbl, acc, h, xs, zs, hw => by
    rw [effList_of_wt_zero tbl xs zs (by omega), Nat.xor_zero]
    simpa [exhB] using h
  | b + 1, tbl, acc, h, xs, zs, hw => by
    simp only [exhB, Bool.and_eq_true] at h
    exact exhTails_cover T b (exhB T b) (fun tbl acc => exhB_cover T b tbl acc) tbl acc h.1 h.2
      xs zs hw

/-! ### the table -/

/-- `x·(Z bit q of r) + z·(X bit q of r) + …` over the qubits `q, q+1, …`: the (unreduced)
    symplectic product of row `r` with the operator `(xs | zs)` living on those qubits -/
def rowEff (r n : Nat) : Nat → List Nat → List Nat → Nat
  | q, x :: xs, z :: zs =>
    x * ((r >>> (n + q)) % 2) + z * ((r >>> q) % 2) + rowEff r n (q + 1) xs zs
  | _, _, _ => 0

/-- packed vector of the products of all rows with `(xs | zs)` -/
def effVec (rows : List Nat) (n q : Nat) (xs zs : List Nat) : Nat :=
  packBits (rows.map fun r => rowEff r n q xs zs)

theorem packBits_map_zero : ∀ m : Nat, packBits (List.replicate m 0) = 0
  | 0 => rfl
  | m + 1 => by simp [List.replicate_succ, packBits, packBits_map_zero m]

theorem lowBitsAt_eq (p : Nat) : ∀ rows : List Nat,
    lowBitsAt p rows = packBits (rows.map fun r => (r >>> p) % 2)
  | [] => rfl
  | r :: rs => by simp [lowBitsAt, packBits, lowBitsAt_eq p rs]

theorem xor_pack (p q P Q : Nat) (hp : p < 2) (hq : q < 2) :
    (p + 2 * P) ^^^ (q + 2 * Q) = (p + q) % 2 + 2 * (P ^^^ Q) := by
  have h1 : ((p + 2 * P) ^^^ (q + 2 * Q)) % 2 = (p + q) % 2 := by rw [xor_mod_two]; omega
  have h2 : ((p + 2 * P) ^^^ (q + 2 * Q)) / 2 = P ^^^ Q := by
    rw [Nat.xor_div_two]
    congr 1 <;> omega
  omega

theorem zero_xor_pack (q Q : Nat) : 0 ^^^ (q % 2 + 2 * Q) = q % 2 + 2 * Q := Nat.zero_xor _

/-- one qubit of the operator: its table entries are xor-ed in -/
theorem effVec_cons (n q x z : Nat) (xs zs : List Nat) (hx : x < 2) (hz : z < 2) :
    ∀ rows : List Nat, effVec rows n q (x :: xs) (z :: zs) =
      (if x ≠ 0 then lowBitsAt (n + q) rows else 0) ^^^
        (if z ≠ 0 then lowBitsAt q rows else 0) ^^^ effVec rows n (q + 1) xs zs
  | [] => by simp [effVec, packBits, lowBitsAt]
  | r :: rs => by
    have ih := effVec_cons n q x z xs zs hx hz rs
    simp only [effVec, List.map_cons, packBits, rowEff, lowBitsAt] at ih ⊢
    rw [ih]
    have hbx : (r >>> (n + q)) % 2 < 2 := Nat.mod_lt _ (by omega)
    have hbz : (r >>> q) % 2 < 2 := Nat.mod_lt _ (by omega)
    have hR : rowEff r n (q + 1) xs zs % 2 < 2 := Nat.mod_lt _ (by omega)
    have hx' : x = 0 ∨ x = 1 := by omega
    have hz' : z = 0 ∨ z = 1 := by omega
    rcases hx' with rfl | rfl <;> rcases hz' with rfl | rfl
    · simp
    · simp only [ne_eq, not_true_eq_false, if_false, Nat.zero_xor, Nat.succ_ne_zero,
        not_false_eq_true, if_true, Nat.zero_mul, Nat.one_mul, Nat.zero_add]
      rw [xor_pack _ _ _ _ hbz hR]
      omega
    · simp only [ne_eq, not_true_eq_false, if_false, Nat.xor_zero, Nat.succ_ne_zero,
        not_false_eq_true, if_true, Nat.zero_mul, Nat.one_mul, Nat.add_zero]
      rw [xor_pack _ _ _ _ hbx hR]
      omega
    · simp only [ne_eq, Nat.succ_ne_zero, not_false_eq_true, if_true, Nat.one_mul]
      rw [xor_pack _ _ _ _ hbx hbz, xor_pack _ _ _ _ (Nat.mod_lt _ (by omega)) hR]
      omega

theorem effVec_nil_left (rows : List Nat) (n q : Nat) (zs : List Nat) :
    effVec rows n q [] zs = 0 := by
  simp [effVec, rowEff, packBits_map_zero]

theorem effVec_nil_right (rows : List Nat) (n q : Nat) (xs : List Nat) :
    effVec rows n q xs [] = 0 := by
  cases xs <;> simp [effVec, rowEff, packBits_map_zero]

/-- the xor of the selected table entries is the packed vector of symplectic products -/
theorem effList_table (rows : List Nat) (n : Nat) : ∀ (len : Nat), len ≤ n →
    ∀ xs zs : List Nat, xs.length = len → zs.length = len →
      (∀ x ∈ xs, x < 2) → (∀ z ∈ zs, z < 2) →
      effList (effTableAt rows n len) xs zs = effVec rows n (n - len) xs zs
  | 0, _, [], zs, _, _, _, _ => by simp [effTableAt, effList, effVec_nil_left]
  | len + 1, hl, x :: xs, z :: zs, hxl, hzl, hx, hz => by
    have ih := effList_table rows n len (by omega) xs zs (by simpa using hxl) (by simpa using hzl)
      (fun a ha => hx a (by simp [ha])) (fun a ha => hz a (by simp [ha]))
    have e : n - (len + 1) + 1 = n - len := by omega
    rw [effVec_cons n _ x z xs zs (hx x (by simp)) (hz z (by simp)) rows, e, ← ih]
    simp [effTableAt, effList]

end Panqec
