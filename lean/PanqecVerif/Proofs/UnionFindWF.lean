/-
Union-find internals (C05): the decidable well-formedness predicate `multigraphLike` on a
parity-check matrix (rectangular, 0/1 entries, every column of weight ≤ 2, two rows sharing
fewer than 256 columns; `graphLike`: at most one) implies the hypotheses `GraphOK`, `RectBin` of
the correctness proofs; and the final statements for `Support.decode()`.
-/
import PanqecVerif.Proofs.UnionFindGrowG

namespace Panqec.UF

set_option linter.unusedSimpArgs false
set_option linter.unusedVariables false

theorem cnt_ge_two (m : Nat) (f : Nat → Bool) (a b : Nat) (ha : a < m) (hb' : b < m) (hab : a ≠ b)
    (hfa : f a = true) (hfb : f b = true) : 2 ≤ cnt m f := by
  have h1 : cnt m (fun i => decide (i = a)) < cnt m (fun i => decide (i = a) || decide (i = b)) :=
    cnt_lt m _ _ (fun i _ h => by simp at h ⊢; exact Or.inl h) b hb' (by simp) (by simp; exact fun h => hab h.symm)
  have h0 : 0 < cnt m (fun i => decide (i = a)) := cnt_pos m _ a ha (by simp)
  have h2 : cnt m (fun i => decide (i = a) || decide (i = b)) ≤ cnt m f :=
    cnt_mono m _ _ (fun i _ h => by
      simp at h
      rcases h with h | h <;> subst h <;> assumption)
  omega

theorem cnt_ge_three (m : Nat) (f : Nat → Bool) (a b c : Nat) (ha : a < m) (hb' : b < m) (hc : c < m)
    (hab : a ≠ b) (hac : a ≠ c) (hbc : b ≠ c)
    (hfa : f a = true) (hfb : f b = true) (hfc : f c = true) : 3 ≤ cnt m f := by
  have h1 := cnt_ge_two m (fun i => decide (i = a) || decide (i = b)) a b ha hb' hab (by simp) (by simp)
  have h2 : cnt m (fun i => decide (i = a) || decide (i = b)) <
      cnt m (fun i => decide (i = a) || decide (i = b) || decide (i = c)) :=
    cnt_lt m _ _ (fun i _ h => by simp at h ⊢; exact Or.inl h) c hc (by simp)
      (by simp; exact ⟨fun h => hac h.symm, fun h => hbc h.symm⟩)
  have h3 : cnt m (fun i => decide (i = a) || decide (i = b) || decide (i = c)) ≤ cnt m f :=
    cnt_mono m _ _ (fun i _ h => by
      simp at h
      rcases h with (h | h) | h <;> subst h <;> assumption)
  omega

theorem multigraphLike_ok {H : Mat} (h : multigraphLike H = true) : GraphOK H ∧ RectBin H := by
  unfold multigraphLike at h
  simp only [Bool.and_eq_true, List.all_eq_true, decide_eq_true_eq, List.mem_range,
    Bool.or_eq_true] at h
  obtain ⟨⟨hrows, hcols⟩, hpairs⟩ := h
  have hR : RectBin H := ⟨fun r hr => (hrows r hr).1, fun r hr => (hrows r hr).2⟩
  have hrange : ∀ s q, hb H s q = true → s < H.length ∧ q < ncols H := by
    intro s q hsq
    have hs := hb_lt hsq
    refine ⟨hs, ?_⟩
    have hrow : H.getD s [] ∈ H := by
      rw [List.getD_eq_getElem?_getD, List.getElem?_eq_getElem hs]
      exact List.getElem_mem hs
    have hlen := hR.rect _ hrow
    by_contra hq
    unfold hb at hsq
    have hn : (H.getD s [])[q]? = none := List.getElem?_eq_none (by omega)
    rw [List.getD_eq_getElem?_getD (l := H.getD s []), hn] at hsq
    simp at hsq
  refine ⟨⟨hrange, ?_, ?_⟩, hR⟩
  · intro q s1 s2 s3 h1 h2 h3
    by_contra hne
    push Not at hne
    have hq := (hrange s1 q h1).2
    have := cnt_ge_three H.length (fun s => hb H s q) s1 s2 s3 (hrange s1 q h1).1 (hrange s2 q h2).1
      (hrange s3 q h3).1 hne.1 hne.2.1 hne.2.2 h1 h2 h3
    have := hcols q hq
    omega
  · intro i j hij
    by_cases hi : i < H.length
    · by_cases hj : j < H.length
      · rcases hpairs i hi j hj with h | h
        · exact absurd h hij
        · exact h
      · have : cnt (ncols H) (fun q => hb H i q && hb H j q) = 0 := by
          apply cnt_eq_zero
          intro q _
          cases h2 : hb H j q
          · simp
          · exact absurd (hb_lt h2) hj
        omega
    · have : cnt (ncols H) (fun q => hb H i q && hb H j q) = 0 := by
        apply cnt_eq_zero
        intro q _
        cases h1 : hb H i q
        · simp
        · exact absurd (hb_lt h1) hi
      omega

/-- a simple graph is a multigraph -/
theorem graphLike_multi {H : Mat} (h : graphLike H = true) : multigraphLike H = true := by
  unfold graphLike at h
  unfold multigraphLike
  simp only [Bool.and_eq_true, List.all_eq_true, decide_eq_true_eq, List.mem_range,
    Bool.or_eq_true] at h ⊢
  refine ⟨h.1, ?_⟩
  intro i hi j hj
  rcases h.2 i hi j hj with h' | h'
  · exact Or.inl h'
  · exact Or.inr (by omega)

theorem closedGraph_multi {H : Mat} (h : closedGraph H = true) : closedMultigraph H = true := by
  unfold closedGraph at h
  unfold closedMultigraph
  rw [Bool.and_eq_true] at h ⊢
  exact ⟨graphLike_multi h.1, h.2⟩

theorem graphLike_ok {H : Mat} (h : graphLike H = true) : GraphOK H ∧ RectBin H :=
  multigraphLike_ok (graphLike_multi h)

/-- two different rows sharing two different columns: not a simple graph -/
theorem graphLike_simple {H : Mat} (h : graphLike H = true) (i j q q' : Nat) (hij : i ≠ j)
    (h1 : hb H i q = true) (h2 : hb H j q = true) (h3 : hb H i q' = true)
    (h4 : hb H j q' = true) : q = q' := by
  obtain ⟨G, _⟩ := graphLike_ok h
  unfold graphLike at h
  simp only [Bool.and_eq_true, List.all_eq_true, decide_eq_true_eq, List.mem_range,
    Bool.or_eq_true] at h
  by_contra hne
  have hi := (G.inRange i q h1).1
  have hj := (G.inRange j q h2).1
  have := cnt_ge_two (ncols H) (fun q => hb H i q && hb H j q) q q' (G.inRange i q h1).2
    (G.inRange i q' h3).2 hne (by simp [h1, h2]) (by simp [h3, h4])
  rcases h.2 i hi j hj with h' | h'
  · exact hij h'
  · omega

/-- a binary syndrome is its own list of defect flags -/
theorem defect_flags (m : Nat) (sy : Vec) (hlen : sy.length = m) (hbin : ∀ x, x ∈ sy → x < 2) :
    ((List.range m).map fun s => b2n (defect sy s)) = sy := by
  apply List.ext_getElem
  · simp [hlen]
  · intro i h1 h2
    simp only [List.getElem_map, List.getElem_range]
    have hx := hbin sy[i] (List.getElem_mem h2)
    unfold defect
    rw [List.getD_eq_getElem?_getD, List.getElem?_eq_getElem h2]
    simp only [Option.getD_some]
    rcases Nat.lt_succ_iff_lt_or_eq.mp hx with h | h
    · have : sy[i] = 0 := by omega
      simp [this]
    · simp [h]

theorem sectorSyndrome_binary (M : Mat) (v : Vec) : ∀ x, x ∈ sectorSyndrome M v → x < 2 := by
  intro x hx
  unfold sectorSyndrome at hx
  rw [List.mem_map] at hx
  obtain ⟨r, _, rfl⟩ := hx
  omega

/-- **`Support(sy, H).decode()`, partial correctness** for every multigraph-like matrix
    (parallel and dangling edges allowed), every
    syndrome vector of the right length and EVERY schedule of set iteration orders: either the
    growth loop does not terminate within the fuel, or the peeling of every cluster succeeds
    (no divergence of `_build_tree` / `peel`, no shape error) and the returned vector is binary, of
    length `n`, with syndrome exactly the defect flags; the run never leaves the modelled fragment. -/
theorem decodeWith_partial {H : Mat} (hG : multigraphLike H = true) (sy : Vec) (sched : List (List Int)) :
    ((decodeWith H sy sched).outcome = .growthDiverges ∨
      ∃ c, (decodeWith H sy sched).outcome = .ok c ∧ c.length = ncols H ∧ (∀ x, x ∈ c → x < 2) ∧
        sectorSyndrome H c = (List.range H.length).map fun s => b2n (defect sy s)) ∧
    (decodeWith H sy sched).bad = false := by
  obtain ⟨G, R⟩ := multigraphLike_ok hG
  unfold decodeWith
  simp only []
  cases hterm : (clustering H sy sched).terminated
  · -- the growth loop ran out of fuel
    have hbad : (clustering H sy sched).bad = false := by
      -- the invariant also gives `bad = false` without termination
      obtain ⟨rep, d, I, _⟩ := clusterLoop_inv (growFuel H) _ _ _ (GInv_init H sy sched)
      unfold clustering
      simp only []
      generalize clusterLoop H (growFuel H) (initState H sy sched) = r at I ⊢
      obtain ⟨st, term⟩ := r
      simp only [] at I ⊢
      have hroots : ∀ x, x ∈ st.forest.map (·.root) ↔ st.sPar x = (x : Int) := by
        intro x
        rw [← I.fi.roots_iff, List.mem_map]
      rw [I.nbad]
      obtain ⟨sp1, hrun1, U1, hf1, hr1, _, _⟩ := updateSParents_spec (List.range H.length) st.sPar
        I.uf hroots
      rw [hrun1]
      obtain ⟨qp2, sp2, hrun2, _⟩ := updateParents_spec
        (List.range (ncols H)) st.qPar sp1 List.nodup_range U1 (by intro x; rw [hr1 x]; exact hroots x)
        (by
          intro q
          rcases I.qrng q with h | ⟨x, h1, h2⟩
          · exact Or.inl h
          · exact Or.inr ⟨x, h1, fun h => h2 ((hf1 x).mp h)⟩)
      simp only []
      rw [hrun2]
    simp [hbad]
  · obtain ⟨P, hbad⟩ := clustering_post G sy sched hterm
    obtain ⟨ts, hts, hsyn⟩ := peeling_correct G R sy _ _ _ P
    simp only [Bool.not_true, Bool.false_eq_true, if_false, hts]
    exact ⟨Or.inr ⟨_, rfl, indicator_length _ _, indicator_binary _ _, hsyn⟩, hbad⟩

end Panqec.UF
