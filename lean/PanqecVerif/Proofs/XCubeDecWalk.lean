/-
The fuel of the `get_matched_pairs` walk in `Model/XCubeDecoder.lean` is exact: the walk is a
deterministic function of the state (stabilizer, previous qubit); a proper matrix with `rows` rows
and `cols` columns has at most `rows · (cols + 1)` such states, so a walk that is still running
after that many steps has repeated a state and runs forever (pigeonhole).  Hence `XErr.hang` is
reported exactly for the inputs on which the Python `while` loop does not terminate.
-/
import Mathlib.Data.Finset.Card
import PanqecVerif.Proofs.XCubeDecMatch

namespace Panqec.XCube

open Panqec

/-- state of the walk: current stabilizer, previous qubit -/
abbrev WState := Nat × Option Nat

/-- one round of the `while` loop as a partial function on states (`none` = the loop ends) -/
def wstep (H : Mat) (corr : Vec) (s : WState) : Option WState :=
  (walkStep H corr s.1 s.2).map fun p => (p.1, some p.2)

/-- state after `k` rounds (`none` = the loop ended earlier) -/
def witer (H : Mat) (corr : Vec) : Nat → WState → Option WState
  | 0, s => some s
  | k + 1, s => (wstep H corr s).bind (witer H corr k)

theorem walk_none_iff (H : Mat) (corr : Vec) : ∀ (fuel : Nat) (s : WState),
    walk H corr fuel s.1 s.2 = none ↔ (witer H corr fuel s).isSome = true
  | 0, s => by simp [walk, witer]
  | fuel + 1, s => by
    unfold walk witer wstep
    cases h : walkStep H corr s.1 s.2 with
    | none => simp
    | some p =>
      simp only [Option.map_some, Option.bind_some]
      exact walk_none_iff H corr fuel (p.1, some p.2)

theorem witer_add (H : Mat) (corr : Vec) : ∀ (a b : Nat) (s : WState),
    witer H corr (a + b) s = (witer H corr a s).bind (witer H corr b)
  | 0, b, s => by simp [witer]
  | a + 1, b, s => by
    have h1 : witer H corr (a + 1 + b) s = (wstep H corr s).bind (witer H corr (a + b)) := by
      rw [Nat.add_right_comm]; rfl
    have h2 : witer H corr (a + 1) s = (wstep H corr s).bind (witer H corr a) := rfl
    rw [h1, h2]
    cases h : wstep H corr s with
    | none => simp
    | some t => simp only [Option.bind_some]; exact witer_add H corr a b t

theorem witer_isSome_mono (H : Mat) (corr : Vec) (a b : Nat) (s : WState) (hab : a ≤ b)
    (h : (witer H corr b s).isSome = true) : (witer H corr a s).isSome = true := by
  obtain ⟨c, rfl⟩ := Nat.exists_eq_add_of_le hab
  rw [witer_add] at h
  cases ha : witer H corr a s with
  | none => rw [ha] at h; simp at h
  | some t => simp

/-- the states of a walk that starts at a row of a proper matrix -/
def WBounded (rows cols : Nat) (s : WState) : Prop := s.1 < rows ∧ ∀ q, s.2 = some q → q < cols

theorem wstep_bounded (H : Mat) (corr : Vec) (cols : Nat) (hcols : ∀ r ∈ H, r.length = cols)
    (s t : WState) (hs : WBounded H.length cols s) (h : wstep H corr s = some t) :
    WBounded H.length cols t := by
  unfold wstep at h
  cases hw : walkStep H corr s.1 s.2 with
  | none => rw [hw] at h; cases h
  | some p =>
    rw [hw] at h
    simp only [Option.map_some, Option.some.injEq] at h
    subst h
    unfold walkStep at hw
    split at hw
    · cases hw
    · rename_i q hq
      simp only [Option.some.injEq] at hw
      subst hw
      have hqmem := List.mem_of_find?_eq_some hq
      have hqlt : q < cols := by
        unfold rowNonzero at hqmem
        have := mem_nonzeroIdx hqmem
        have hrow : (H.getD s.1 []).length = cols := by
          simp only [List.getD, List.getElem?_eq_getElem hs.1, Option.getD_some]
          exact hcols _ (List.getElem_mem _)
        omega
      refine ⟨?_, fun q' hq' => by simp only [Option.some.injEq] at hq'; omega⟩
      simp only
      cases hf : (colNonzero H q).find? (· != s.1) with
      | none => simpa using hs.1
      | some i => simpa using mem_colNonzero (List.mem_of_find?_eq_some hf)

theorem witer_bounded (H : Mat) (corr : Vec) (cols : Nat) (hcols : ∀ r ∈ H, r.length = cols) :
    ∀ (k : Nat) (s t : WState), WBounded H.length cols s → witer H corr k s = some t →
      WBounded H.length cols t
  | 0, s, t, hs, h => by simp only [witer, Option.some.injEq] at h; exact h ▸ hs
  | k + 1, s, t, hs, h => by
    unfold witer at h
    cases hw : wstep H corr s with
    | none => rw [hw] at h; cases h
    | some u =>
      rw [hw] at h
      exact witer_bounded H corr cols hcols k u t (wstep_bounded H corr cols hcols s u hs hw) h

/-- injective code of a bounded state -/
def wcode (cols : Nat) (s : WState) : Nat :=
  s.1 * (cols + 1) + (match s.2 with | none => 0 | some q => q + 1)

theorem wcode_lt (rows cols : Nat) (s : WState) (h : WBounded rows cols s) :
    wcode cols s < rows * (cols + 1) := by
  unfold wcode
  have h2 : (match s.2 with | none => 0 | some q => q + 1) < cols + 1 := by
    cases hq : s.2 with
    | none => simp
    | some q => have := h.2 q hq; simp; omega
  calc s.1 * (cols + 1) + _ < s.1 * (cols + 1) + (cols + 1) := by omega
    _ = (s.1 + 1) * (cols + 1) := by rw [Nat.add_mul]; omega
    _ ≤ rows * (cols + 1) := Nat.mul_le_mul_right _ h.1

theorem wcode_inj (rows cols : Nat) (s t : WState) (hs : WBounded rows cols s) (ht : WBounded rows cols t)
    (h : wcode cols s = wcode cols t) : s = t := by
  unfold wcode at h
  have hs2 : (match s.2 with | none => 0 | some q => q + 1) < cols + 1 := by
    cases hq : s.2 with
    | none => simp
    | some q => have := hs.2 q hq; simp; omega
  have ht2 : (match t.2 with | none => 0 | some q => q + 1) < cols + 1 := by
    cases hq : t.2 with
    | none => simp
    | some q => have := ht.2 q hq; simp; omega
  have h1 : s.1 = t.1 := by
    have := congrArg (fun v => v / (cols + 1)) h
    rwa [Nat.mul_comm s.1, Nat.mul_comm t.1, Nat.mul_add_div (by omega), Nat.mul_add_div (by omega),
      Nat.div_eq_of_lt hs2, Nat.div_eq_of_lt ht2, Nat.add_zero, Nat.add_zero] at this
  have h2 : (match s.2 with | none => 0 | some q => q + 1) = (match t.2 with | none => 0 | some q => q + 1) := by
    rw [h1] at h; omega
  obtain ⟨s1, s2⟩ := s
  obtain ⟨t1, t2⟩ := t
  try simp only at h1 h2 ⊢
  subst h1
  cases s2 <;> cases t2 <;> simp_all

/-- **pigeonhole**: a walk still running after `rows · (cols + 1)` rounds runs forever -/
theorem witer_alive_forever (H : Mat) (corr : Vec) (cols : Nat) (hcols : ∀ r ∈ H, r.length = cols)
    (s : WState) (hs : WBounded H.length cols s)
    (h : (witer H corr (H.length * (cols + 1)) s).isSome = true) :
    ∀ k, (witer H corr k s).isSome = true := by
  set N := H.length * (cols + 1) with hN
  -- the states of rounds 0 … N
  have hstate : ∀ i, i ≤ N → ∃ t, witer H corr i s = some t ∧ WBounded H.length cols t := by
    intro i hi
    have := witer_isSome_mono H corr i N s hi h
    cases ht : witer H corr i s with
    | none => rw [ht] at this; simp at this
    | some t => exact ⟨t, rfl, witer_bounded H corr cols hcols i s t hs ht⟩
  let f : Nat → Nat := fun i => match witer H corr i s with
    | some t => wcode cols t
    | none => 0
  have hmaps : Set.MapsTo f (Finset.range (N + 1) : Finset Nat) (Finset.range N : Finset Nat) := by
    intro i hi
    simp only [Finset.coe_range, Set.mem_Iio] at hi ⊢
    obtain ⟨t, ht, hb⟩ := hstate i (by omega)
    simp only [f, ht]
    exact wcode_lt _ _ t hb
  obtain ⟨i, hi, j, hj, hij, hf⟩ := Finset.exists_ne_map_eq_of_card_lt_of_maps_to
    (by simp : (Finset.range N).card < (Finset.range (N + 1)).card) hmaps
  simp only [Finset.mem_range] at hi hj
  -- wlog i < j
  have key : ∀ i j, i < j → j ≤ N → f i = f j → ∀ k, (witer H corr k s).isSome = true := by
    intro i j hlt hjN hf
    obtain ⟨ti, hti, hbi⟩ := hstate i (by omega)
    obtain ⟨tj, htj, hbj⟩ := hstate j hjN
    simp only [f, hti, htj] at hf
    have heq : ti = tj := wcode_inj _ _ ti tj hbi hbj hf
    subst heq
    intro k
    induction k using Nat.strong_induction_on with
    | _ k ih =>
      by_cases hk : k ≤ j
      · exact witer_isSome_mono H corr k N s (by omega) h
      · obtain ⟨m, rfl⟩ := Nat.exists_eq_add_of_le (Nat.le_of_lt (Nat.lt_of_not_le hk))
        rw [witer_add, htj, ← hti, ← witer_add]
        exact ih (i + m) (by omega)
  rcases Nat.lt_or_gt_of_ne hij with hlt | hgt
  · exact key i j hlt (by omega) hf
  · exact key j i hgt (by omega) hf.symm

/-- **the fuel is exact**: on a proper matrix, if the model's walk runs out of its fuel
    `walkFuel H = rows · (cols + 1) + 1` it would run out of *every* fuel, i.e. the Python `while`
    loop does not terminate; conversely a walk that ends within some fuel ends within `walkFuel`. -/
theorem walk_fuel_exact (H : Mat) (corr : Vec) (hcols : ∀ r ∈ H, r.length = (H.headD []).length)
    (sp : Nat) (hsp : sp < H.length) (h : walk H corr (walkFuel H) sp none = none) :
    ∀ fuel, walk H corr fuel sp none = none := by
  intro fuel
  have hb : WBounded H.length (H.headD []).length (sp, none) := ⟨hsp, fun q hq => by cases hq⟩
  rw [walk_none_iff H corr _ (sp, none)] at h ⊢
  unfold walkFuel at h
  exact witer_alive_forever H corr _ hcols (sp, none) hb
    (witer_isSome_mono H corr _ _ _ (Nat.le_succ _) h) fuel

end Panqec.XCube
