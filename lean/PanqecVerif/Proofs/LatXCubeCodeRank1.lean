/-
XCubeCode lattice model, rank clause: the selected family of `n − k` generators, its membership in
arithmetic form, distinctness, and its size.

Cubes (Z-type; `Lx·Ly·Lz − (Lx + Ly + Lz) + 2` of them): all cubes `(x, y, z)` with at most one
coordinate equal to 1 — the products of the cubes of a plane are trivial, `Lx + Ly + Lz − 2`
independent relations.
Vertex operators (X-type; `2·Lx·Ly·Lz − (Lx + Ly + Lz) + 1` of them): none of axis 2 (the product
of the three operators of a vertex is trivial); of axis 1 those with `x ≥ 2` or `z ≥ 2`; of axis 0
those with `y ≥ 2`, or `x ≥ 2` and `z ≥ 2` (plane relations).
-/
import Mathlib.Tactic.Ring
import PanqecVerif.Proofs.LatXCubeCode9
open Panqec Panqec.Lat3Db
namespace Panqec.XCubeCode

/-- member of `range(3, b, 2)` -/
def R3 (b : Nat) (x : Int) : Prop := x % 2 = 1 ∧ 3 ≤ x ∧ x < b

theorem mem_pyRange2_3 (b : Nat) (x : Int) : x ∈ pyRange2 3 b ↔ R3 b x := by
  rw [mem_pyRange2]; unfold R3; omega

/-! `selCubes`, `selFaces0`, `selFaces1`, `selStabs`: defined in `Model/Lattices/XCubeCode.lean` (linked into
    the driver, op `rankfamily`) -/

/-- selected cube -/
def CK (Lx Ly Lz : Nat) (x y z : Int) : Prop :=
  (R1 (2*Lx) x ∧ R3 (2*Ly) y ∧ R3 (2*Lz) z) ∨ (R3 (2*Lx) x ∧ y = 1 ∧ R3 (2*Lz) z) ∨
    (R3 (2*Lx) x ∧ R3 (2*Ly) y ∧ z = 1)
/-- selected axis-0 vertex operator -/
def F0 (Lx Ly Lz : Nat) (x y z : Int) : Prop :=
  (R0 (2*Lx) x ∧ R2 (2*Ly) y ∧ R0 (2*Lz) z) ∨ (R2 (2*Lx) x ∧ y = 0 ∧ R2 (2*Lz) z)
/-- selected axis-1 vertex operator -/
def F1 (Lx Ly Lz : Nat) (x y z : Int) : Prop :=
  (R2 (2*Lx) x ∧ R0 (2*Ly) y ∧ R0 (2*Lz) z) ∨ (x = 0 ∧ R0 (2*Ly) y ∧ R2 (2*Lz) z)

theorem mem_selCubes_iff (Lx Ly Lz : Nat) (x y z : Int) :
    [x, y, z] ∈ selCubes Lx Ly Lz ↔ CK Lx Ly Lz x y z := by
  unfold selCubes CK
  simp only [List.mem_append, mem_grid3_cons, mem_pyRange2_1, mem_pyRange2_3, List.mem_singleton,
    and_true]

theorem mem_selFaces0_iff (Lx Ly Lz : Nat) (x y z : Int) :
    [x, y, z] ∈ selFaces0 Lx Ly Lz ↔ F0 Lx Ly Lz x y z := by
  unfold selFaces0 F0
  simp only [List.mem_append, mem_grid3_cons, mem_pyRange2_0, mem_pyRange2_2, List.mem_singleton,
    and_true]

theorem mem_selFaces1_iff (Lx Ly Lz : Nat) (x y z : Int) :
    [x, y, z] ∈ selFaces1 Lx Ly Lz ↔ F1 Lx Ly Lz x y z := by
  unfold selFaces1 F1
  simp only [List.mem_append, mem_grid3_cons, mem_pyRange2_0, mem_pyRange2_2, List.mem_singleton,
    and_true]

theorem shape_grid3 {xs ys zs : List Int} {p : Int → Int → Int → Bool} {a : Coord}
    (h : a ∈ grid3 xs ys zs p) : ∃ x y z, a = [x, y, z] := by
  rw [mem_grid3] at h
  obtain ⟨x, y, z, rfl, _⟩ := h
  exact ⟨x, y, z, rfl⟩

theorem shape_selCubes {Lx Ly Lz : Nat} {a : Coord} (h : a ∈ selCubes Lx Ly Lz) :
    ∃ x y z, a = [x, y, z] := by
  unfold selCubes at h
  simp only [List.mem_append] at h
  rcases h with h | h | h <;> exact shape_grid3 h

theorem shape_selFaces0 {Lx Ly Lz : Nat} {a : Coord} (h : a ∈ selFaces0 Lx Ly Lz) :
    ∃ x y z, a = [x, y, z] := by
  unfold selFaces0 at h
  simp only [List.mem_append] at h
  rcases h with h | h <;> exact shape_grid3 h

theorem shape_selFaces1 {Lx Ly Lz : Nat} {a : Coord} (h : a ∈ selFaces1 Lx Ly Lz) :
    ∃ x y z, a = [x, y, z] := by
  unfold selFaces1 at h
  simp only [List.mem_append] at h
  rcases h with h | h <;> exact shape_grid3 h

/-- the members of the selected family -/
theorem mem_selStabs_cases {Lx Ly Lz : Nat} {s : Coord} (h : s ∈ selStabs Lx Ly Lz) :
    (∃ x y z, s = [x, y, z] ∧ CK Lx Ly Lz x y z) ∨
    (∃ x y z, s = [0, x, y, z] ∧ F0 Lx Ly Lz x y z) ∨
    (∃ x y z, s = [1, x, y, z] ∧ F1 Lx Ly Lz x y z) := by
  unfold selStabs at h
  simp only [List.mem_append, List.mem_map] at h
  rcases h with h | ⟨c, hc, rfl⟩ | ⟨c, hc, rfl⟩
  · obtain ⟨x, y, z, rfl⟩ := shape_selCubes h
    exact Or.inl ⟨x, y, z, rfl, (mem_selCubes_iff _ _ _ _ _ _).mp h⟩
  · obtain ⟨x, y, z, rfl⟩ := shape_selFaces0 hc
    exact Or.inr (Or.inl ⟨x, y, z, rfl, (mem_selFaces0_iff _ _ _ _ _ _).mp hc⟩)
  · obtain ⟨x, y, z, rfl⟩ := shape_selFaces1 hc
    exact Or.inr (Or.inr ⟨x, y, z, rfl, (mem_selFaces1_iff _ _ _ _ _ _).mp hc⟩)

theorem CK.sc {Lx Ly Lz : Nat} {x y z : Int} (hy : 1 ≤ Ly) (hz : 1 ≤ Lz) (h : CK Lx Ly Lz x y z) : SC Lx Ly Lz x y z := by
  unfold CK R1 R3 at h; unfold SC R1; omega

theorem F0.sv {Lx Ly Lz : Nat} {x y z : Int} (hy : 1 ≤ Ly) (h : F0 Lx Ly Lz x y z) : SVx Lx Ly Lz x y z := by
  unfold F0 R0 R2 at h; unfold SVx R0; omega

theorem F1.sv {Lx Ly Lz : Nat} {x y z : Int} (hx : 1 ≤ Lx) (h : F1 Lx Ly Lz x y z) : SVx Lx Ly Lz x y z := by
  unfold F1 R0 R2 at h; unfold SVx R0; omega

theorem selStabs_sub {Lx Ly Lz : Nat} (hx : 1 ≤ Lx) (hy : 1 ≤ Ly) (hz : 1 ≤ Lz) {s : Coord}
    (h : s ∈ selStabs Lx Ly Lz) :
    s ∈ stabs Lx Ly Lz := by
  rcases mem_selStabs_cases h with ⟨x, y, z, rfl, hk⟩ | ⟨x, y, z, rfl, hk⟩ | ⟨x, y, z, rfl, hk⟩
  · exact (mem_stabs_cube _ _ _ _ _ _).mpr (hk.sc hy hz)
  · exact (mem_stabs_face _ _ _ _ _ _ _).mpr ⟨Or.inl rfl, hk.sv hy⟩
  · exact (mem_stabs_face _ _ _ _ _ _ _).mpr ⟨Or.inr (Or.inl rfl), hk.sv hx⟩

/-! ### distinctness -/

theorem nodup_append_of {l1 l2 : List Coord} (h1 : l1.Nodup) (h2 : l2.Nodup)
    (hs : ∀ a ∈ l1, ∃ x y z, a = [x, y, z])
    (hd : ∀ x y z : Int, [x, y, z] ∈ l1 → [x, y, z] ∈ l2 → False) : (l1 ++ l2).Nodup := by
  rw [List.nodup_append]
  refine ⟨h1, h2, ?_⟩
  intro a ha b hb hab
  subst hab
  obtain ⟨x, y, z, rfl⟩ := hs a ha
  exact hd x y z ha hb

theorem nodup_g (xs ys zs : List Int) (hx : xs.Nodup) (hy : ys.Nodup) (hz : zs.Nodup) :
    (grid3 xs ys zs fun _ _ _ => true).Nodup := nodup_grid3 _ _ _ _ hx hy hz

theorem nodup_selCubes (Lx Ly Lz : Nat) : (selCubes Lx Ly Lz).Nodup := by
  unfold selCubes
  apply nodup_append_of (nodup_g _ _ _ (nodup_pyRange2 _ _) (nodup_pyRange2 _ _) (nodup_pyRange2 _ _))
  · apply nodup_append_of
      (nodup_g _ _ _ (nodup_pyRange2 _ _) (List.nodup_singleton _) (nodup_pyRange2 _ _))
      (nodup_g _ _ _ (nodup_pyRange2 _ _) (nodup_pyRange2 _ _) (List.nodup_singleton _))
      (fun a ha => shape_grid3 ha)
    intro x y z h1 h2
    simp only [mem_grid3_cons, mem_pyRange2_3, List.mem_singleton] at h1 h2
    unfold R3 at h1 h2; omega
  · exact fun a ha => shape_grid3 ha
  · intro x y z h1 h2
    simp only [List.mem_append, mem_grid3_cons, mem_pyRange2_1, mem_pyRange2_3, List.mem_singleton] at h1 h2
    unfold R3 at h1 h2; omega

theorem nodup_selFaces0 (Lx Ly Lz : Nat) : (selFaces0 Lx Ly Lz).Nodup := by
  unfold selFaces0
  apply nodup_append_of (nodup_g _ _ _ (nodup_pyRange2 _ _) (nodup_pyRange2 _ _) (nodup_pyRange2 _ _))
    (nodup_g _ _ _ (nodup_pyRange2 _ _) (List.nodup_singleton _) (nodup_pyRange2 _ _))
    (fun a ha => shape_grid3 ha)
  intro x y z h1 h2
  simp only [mem_grid3_cons, mem_pyRange2_0, mem_pyRange2_2, List.mem_singleton] at h1 h2
  unfold R2 at h1 h2; omega

theorem nodup_selFaces1 (Lx Ly Lz : Nat) : (selFaces1 Lx Ly Lz).Nodup := by
  unfold selFaces1
  apply nodup_append_of (nodup_g _ _ _ (nodup_pyRange2 _ _) (nodup_pyRange2 _ _) (nodup_pyRange2 _ _))
    (nodup_g _ _ _ (List.nodup_singleton _) (nodup_pyRange2 _ _) (nodup_pyRange2 _ _))
    (fun a ha => shape_grid3 ha)
  intro x y z h1 h2
  simp only [mem_grid3_cons, mem_pyRange2_0, mem_pyRange2_2, List.mem_singleton] at h1 h2
  unfold R2 at h1 h2; omega

theorem nodup_selStabs (Lx Ly Lz : Nat) : (selStabs Lx Ly Lz).Nodup := by
  unfold selStabs
  rw [List.nodup_append, List.nodup_append]
  refine ⟨nodup_selCubes Lx Ly Lz, ⟨?_, ?_, ?_⟩, ?_⟩
  · exact (nodup_selFaces0 Lx Ly Lz).map (fun a b h => by simpa using h)
  · exact (nodup_selFaces1 Lx Ly Lz).map (fun a b h => by simpa using h)
  · intro a ha b hb hab
    simp only [List.mem_map] at ha hb
    obtain ⟨c, _, rfl⟩ := ha
    obtain ⟨d, _, rfl⟩ := hb
    simp at hab
  · intro a ha b hb hab
    subst hab
    obtain ⟨x, y, z, rfl⟩ := shape_selCubes ha
    simp only [List.mem_append, List.mem_map] at hb
    rcases hb with ⟨c, hc, h⟩ | ⟨c, hc, h⟩
    · obtain ⟨p, q, r, rfl⟩ := shape_selFaces0 hc; simp at h
    · obtain ⟨p, q, r, rfl⟩ := shape_selFaces1 hc; simp at h

/-! ### size -/

theorem length_selStabs (Lx Ly Lz : Nat) :
    (selStabs Lx Ly Lz).length =
      (Lx * (Ly - 1) * (Lz - 1) + ((Lx - 1) * 1 * (Lz - 1) + (Lx - 1) * (Ly - 1) * 1)) +
      ((Lx * (Ly - 1) * Lz + (Lx - 1) * 1 * (Lz - 1)) + ((Lx - 1) * Ly * Lz + 1 * Ly * (Lz - 1))) := by
  unfold selStabs selCubes selFaces0 selFaces1
  simp only [List.length_append, List.length_map, length_grid3_true, length_pyRange2,
    List.length_cons, List.length_nil]
  have e0 : (2 * Lx + 1 - 0) / 2 = Lx := by omega
  have e1 : (2 * Lx + 1 - 1) / 2 = Lx := by omega
  have e2 : (2 * Lx + 1 - 2) / 2 = Lx - 1 := by omega
  have e3 : (2 * Lx + 1 - 3) / 2 = Lx - 1 := by omega
  have f0 : (2 * Ly + 1 - 0) / 2 = Ly := by omega
  have f2 : (2 * Ly + 1 - 2) / 2 = Ly - 1 := by omega
  have f3 : (2 * Ly + 1 - 3) / 2 = Ly - 1 := by omega
  have g0 : (2 * Lz + 1 - 0) / 2 = Lz := by omega
  have g2 : (2 * Lz + 1 - 2) / 2 = Lz - 1 := by omega
  have g3 : (2 * Lz + 1 - 3) / 2 = Lz - 1 := by omega
  simp only [e0, e1, e2, e3, f0, f2, f3, g0, g2, g3, Nat.zero_add]

/-- the selected family has `n − k` members -/
theorem selStabs_count (Lx Ly Lz : Nat) (hx : 1 ≤ Lx) (hy : 1 ≤ Ly) (hz : 1 ≤ Lz) :
    (selStabs Lx Ly Lz).length + (logX Lx Ly Lz).length = (qubits Lx Ly Lz).length := by
  rw [length_selStabs, length_logX Lx Ly Lz hx hy hz, length_qubits]
  obtain ⟨a, rfl⟩ : ∃ a, Lx = a + 1 := ⟨Lx - 1, by omega⟩
  obtain ⟨b, rfl⟩ : ∃ b, Ly = b + 1 := ⟨Ly - 1, by omega⟩
  obtain ⟨c, rfl⟩ : ∃ c, Lz = c + 1 := ⟨Lz - 1, by omega⟩
  have : 2 * (a + 1 + (b + 1) + (c + 1)) - 3 = 2 * (a + b + c) + 3 := by omega
  rw [this]
  simp only [Nat.add_sub_cancel]
  ring

end Panqec.XCubeCode
