/-
`HollowRhombicCode(3, 6, 6)` — inside the supported family, hole one layer thin in `x` and four unit
cells wide in `y` and `z` — encodes a SECOND logical qubit that the class does not declare: the
operators `X2` (weight 10) and `Z2` (weight 6) below commute with every generator and with the
declared logical pair and anticommute with each other.  With the rank bound from commutation and
pairing (`hasRank_le_of_commute_pairing`) the GF(2) rank of the generators is at most `n − 2 = 222`,
so the rank clause `rank = n − k = 223` of C01 FAILS for this size (recorded known finding).
The commutation of the declared operators is the all-sizes theorem; the statements about `X2`, `Z2`
are finite checks over the 288 vertex × axis pairs and the 105 cube positions of this size,
evaluated by the kernel.  Core Lean + the generic bridge `Proofs/OpComm.lean`.
-/
import PanqecVerif.Proofs.LatHollowRhombicCodeE
import PanqecVerif.Proofs.OpComm
import PanqecVerif.Proofs.CodeAlgebra

set_option linter.unusedVariables false
set_option linter.unusedSimpArgs false

namespace Panqec.HollowRhombicCode
open Panqec.Cubic3D
open Panqec.Planar3DCode (inE inO inE2 inO1)

instance (Lx Ly Lz : Nat) (x y z : Int) : Decidable (CubeLoc Lx Ly Lz x y z) := by
  unfold CubeLoc; infer_instance

instance (Lx Ly Lz : Nat) (tx ty tz : Prop) [Decidable tx] [Decidable ty] [Decidable tz] (x y z : Int) :
    Decidable (TriKeep Lx Ly Lz tx ty tz x y z) := by
  unfold TriKeep; infer_instance

/-- the undeclared logical X of `HollowRhombicCode(3, 6, 6)` -/
def X2keys : List Coord := [[1, 2, 4], [1, 2, 6], [1, 4, 4], [1, 4, 6], [2, 3, 4], [2, 3, 6], [2, 5, 4], [2, 5, 6], [2, 2, 5], [2, 6, 5]]
/-- the undeclared logical Z of `HollowRhombicCode(3, 6, 6)` -/
def Z2keys : List Coord := [[1, 2, 0], [1, 4, 2], [5, 2, 0], [5, 4, 2], [2, 5, 4], [4, 5, 4]]

theorem X2keys_sub : ∀ q ∈ X2keys, q ∈ qubits 3 6 6 := by
  intro q hq
  unfold X2keys at hq
  simp only [List.mem_cons, List.not_mem_nil, or_false] at hq
  rcases hq with rfl | rfl | rfl | rfl | rfl | rfl | rfl | rfl | rfl | rfl
  · rw [mem_qubits_x (by decide) (by decide) (by decide)]; decide
  · rw [mem_qubits_x (by decide) (by decide) (by decide)]; decide
  · rw [mem_qubits_x (by decide) (by decide) (by decide)]; decide
  · rw [mem_qubits_x (by decide) (by decide) (by decide)]; decide
  · rw [mem_qubits_y (by decide) (by decide) (by decide)]; decide
  · rw [mem_qubits_y (by decide) (by decide) (by decide)]; decide
  · rw [mem_qubits_y (by decide) (by decide) (by decide)]; decide
  · rw [mem_qubits_y (by decide) (by decide) (by decide)]; decide
  · rw [mem_qubits_z (by decide) (by decide) (by decide)]; decide
  · rw [mem_qubits_z (by decide) (by decide) (by decide)]; decide

theorem Z2keys_sub : ∀ q ∈ Z2keys, q ∈ qubits 3 6 6 := by
  intro q hq
  unfold Z2keys at hq
  simp only [List.mem_cons, List.not_mem_nil, or_false] at hq
  rcases hq with rfl | rfl | rfl | rfl | rfl | rfl
  · rw [mem_qubits_x (by decide) (by decide) (by decide)]; decide
  · rw [mem_qubits_x (by decide) (by decide) (by decide)]; decide
  · rw [mem_qubits_x (by decide) (by decide) (by decide)]; decide
  · rw [mem_qubits_x (by decide) (by decide) (by decide)]; decide
  · rw [mem_qubits_y (by decide) (by decide) (by decide)]; decide
  · rw [mem_qubits_y (by decide) (by decide) (by decide)]; decide

theorem X2keys_nodup : X2keys.Nodup := by decide
theorem Z2keys_nodup : Z2keys.Nodup := by decide

def evens6 : List Int := [0, 2, 4, 6, 8, 10]

/-- `X2` against every listed triangle of the size -/
theorem X2_tri_check :
    ([(0 : Int), 1, 2, 3].all fun a => [(2 : Int), 4].all fun x => evens6.all fun y => evens6.all fun z =>
      !decide (TriKeep 3 6 6 (TX 3 6 6 a x y z) (TY 3 6 6 a x y z) (TZ 3 6 6 a x y z) x y z) ||
      (X2keys.countP fun q => decide (q ∈ triCands a x y z)) % 2 == 0) = true := by
  decide +kernel

/-- `Z2` against every listed cube of the size -/
theorem Z2_cube_check :
    ([(1 : Int), 3, 5].all fun x => [(-1 : Int), 1, 3, 5, 7, 9, 11].all fun y =>
      [(1 : Int), 3, 5, 7, 9].all fun z =>
      !decide (CubeLoc 3 6 6 x y z) ||
      (Z2keys.countP fun q => decide (q ∈ cubeCands x y z)) % 2 == 0) = true := by
  decide +kernel

/-- overlap with the keys of a generator, for a key list consisting of qubits -/
theorem ov_qubit_keys {Lx Ly Lz : Nat} (K cands : List Coord) (hK : ∀ q ∈ K, q ∈ qubits Lx Ly Lz) :
    ov K (cands.filter (isq Lx Ly Lz)) = K.countP fun q => decide (q ∈ cands) := by
  unfold ov
  apply List.countP_congr
  intro q hq
  simp only [List.mem_filter, decide_eq_true_eq, isq_iff]
  constructor
  · intro h; exact h.1
  · intro h; exact ⟨h, hK q hq⟩

theorem X2_tri_even {a x y z : Int} (ha : 0 ≤ a ∧ a < 4) (hv : VertexLoc 3 6 6 x y z)
    (hk : TriKeep 3 6 6 (TX 3 6 6 a x y z) (TY 3 6 6 a x y z) (TZ 3 6 6 a x y z) x y z) :
    ov X2keys (triKeys 3 6 6 a x y z) % 2 = 0 := by
  unfold triKeys
  rw [ov_qubit_keys _ _ X2keys_sub]
  have h := X2_tri_check
  simp only [List.all_eq_true] at h
  unfold VertexLoc inE2 inE at hv
  have h1 := h a (by simp only [List.mem_cons, List.not_mem_nil, or_false]; omega)
    x (by simp only [List.mem_cons, List.not_mem_nil, or_false]; omega)
    y (by unfold evens6; simp only [List.mem_cons, List.not_mem_nil, or_false]; omega)
    z (by unfold evens6; simp only [List.mem_cons, List.not_mem_nil, or_false]; omega)
  simp only [Bool.or_eq_true, Bool.not_eq_true', decide_eq_false_iff_not, beq_iff_eq] at h1
  rcases h1 with h1 | h1
  · exact absurd hk h1
  · exact h1

theorem Z2_cube_even {x y z : Int} (hc : CubeLoc 3 6 6 x y z) :
    ov Z2keys (cubeKeys 3 6 6 x y z) % 2 = 0 := by
  unfold cubeKeys
  rw [ov_qubit_keys _ _ Z2keys_sub]
  have h := Z2_cube_check
  simp only [List.all_eq_true] at h
  have hc' := hc
  unfold CubeLoc at hc'
  have h1 := h x (by simp only [List.mem_cons, List.not_mem_nil, or_false]; omega)
    y (by simp only [List.mem_cons, List.not_mem_nil, or_false]; omega)
    z (by simp only [List.mem_cons, List.not_mem_nil, or_false]; omega)
  simp only [Bool.or_eq_true, Bool.not_eq_true', decide_eq_false_iff_not, beq_iff_eq] at h1
  rcases h1 with h1 | h1
  · exact absurd hc h1
  · exact h1

/-- the lattice `(3, 6, 6)` with the second logical pair added -/
def lat2 : Lattice where
  qubits := (lattice 3 6 6).qubits
  stabs := (lattice 3 6 6).stabs
  getStab := (lattice 3 6 6).getStab
  logX := (lattice 3 6 6).logX ++ [uop X2keys Pauli.X]
  logZ := (lattice 3 6 6).logZ ++ [uop Z2keys Pauli.Z]

theorem lat2_logX : lat2.logX = [uop (sheetKeys 3 6 6) Pauli.X, uop X2keys Pauli.X] := by
  show logX 3 6 6 ++ _ = _
  rw [logX_eq]; rfl
theorem lat2_logZ : lat2.logZ = [uop (lineKeys 3 6 6) Pauli.Z, uop Z2keys Pauli.Z] := by
  show logZ 3 6 6 ++ _ = _
  rw [logZ_eq]; rfl

theorem sheetKeys_nodup (Lx Ly Lz : Nat) : (sheetKeys Lx Ly Lz).Nodup := (nodup_sheetCands Lx Ly).filter _

theorem lat2_wf : lat2.WF := by
  have h := wf_all (Lx := 3) (Ly := 6) (Lz := 6) (by decide) (by decide) (by decide)
  refine ⟨h.qubits_nodup, h.stabs_nodup, h.disjoint, h.stab_keys, h.stab_supported, h.stab_nonempty, ?_, ?_⟩
  · intro a ha
    rw [lat2_logX, lat2_logZ] at ha
    simp only [List.mem_append, List.mem_cons, List.not_mem_nil, or_false] at ha
    rcases ha with (rfl | rfl) | (rfl | rfl)
    · rw [uop_keys]; exact sheetKeys_nodup _ _ _
    · rw [uop_keys]; exact X2keys_nodup
    · rw [uop_keys]; exact nodup_lineKeys _ _ _
    · rw [uop_keys]; exact Z2keys_nodup
  · intro a ha e he
    rw [lat2_logX, lat2_logZ] at ha
    simp only [List.mem_append, List.mem_cons, List.not_mem_nil, or_false] at ha
    rcases ha with (rfl | rfl) | (rfl | rfl)
    · obtain ⟨h1, h2⟩ := mem_uop.mp he
      exact ⟨isq_iff.mp (List.mem_filter.mp h1).2, by rw [h2]; decide⟩
    · obtain ⟨h1, h2⟩ := mem_uop.mp he
      exact ⟨X2keys_sub _ h1, by rw [h2]; decide⟩
    · obtain ⟨h1, h2⟩ := mem_uop.mp he
      exact ⟨lineKeys_sub (by decide) (by decide) _ h1, by rw [h2]; decide⟩
    · obtain ⟨h1, h2⟩ := mem_uop.mp he
      exact ⟨Z2keys_sub _ h1, by rw [h2]; decide⟩

/-- the four pairing counts -/
theorem pair_11 : ov (sheetKeys 3 6 6) (lineKeys 3 6 6) = 1 := sheet_line_one (by decide) (by decide) (by decide)
set_option maxRecDepth 100000 in
theorem pair_12 : ov (sheetKeys 3 6 6) Z2keys % 2 = 0 := by
  rw [ov_comm (sheetKeys_nodup _ _ _) Z2keys_nodup]
  unfold sheetKeys
  rw [ov_qubit_keys _ _ Z2keys_sub]
  decide +kernel
set_option maxRecDepth 100000 in
theorem pair_21 : ov X2keys (lineKeys 3 6 6) = 0 := by
  apply ov_eq_zero
  intro q hq hl
  obtain ⟨z, rfl, _⟩ := mem_lineKeys.mp hl
  unfold X2keys at hq
  simp only [List.mem_cons, List.cons.injEq, and_true, List.not_mem_nil, or_false] at hq
  omega
set_option maxRecDepth 100000 in
theorem pair_22 : ov X2keys Z2keys = 1 := by decide +kernel

theorem lat2_commPair : lat2.CommPair := by
  have h := commPair_all (Lx := 3) (Ly := 6) (Lz := 6) (by decide) (by decide) (by decide)
  refine ⟨h.stab_comm, ?_, ?_, by rw [lat2_logX, lat2_logZ]; rfl, ?_, ?_, ?_⟩
  · intro a ha s hs
    rw [lat2_logX] at ha
    simp only [List.mem_cons, List.not_mem_nil, or_false] at ha
    rcases ha with rfl | rfl
    · apply h.logX_comm _ _ s hs
      show _ ∈ logX 3 6 6
      rw [logX_eq]; simp
    · rcases mem_stabs.mp hs with ⟨x, y, z, rfl, hc⟩ | ⟨a, x, y, z, rfl, ha, hv, hk⟩
      · show opCommute _ ((lattice 3 6 6).getStab [x, y, z]) = true
        rw [getStab_cube']; exact opCommute_uop_same _ _ _
      · show opCommute _ ((lattice 3 6 6).getStab [a, x, y, z]) = true
        rw [getStab_tri' _ _ _ ha]
        exact opCommute_uop_of_even _ _ (X2_tri_even ha hv hk)
  · intro a ha s hs
    rw [lat2_logZ] at ha
    simp only [List.mem_cons, List.not_mem_nil, or_false] at ha
    rcases ha with rfl | rfl
    · apply h.logZ_comm _ _ s hs
      show _ ∈ logZ 3 6 6
      rw [logZ_eq]; simp
    · rcases mem_stabs.mp hs with ⟨x, y, z, rfl, hc⟩ | ⟨a, x, y, z, rfl, ha, hv, hk⟩
      · show opCommute _ ((lattice 3 6 6).getStab [x, y, z]) = true
        rw [getStab_cube']
        exact opCommute_uop_of_even _ _ (Z2_cube_even hc)
      · show opCommute _ ((lattice 3 6 6).getStab [a, x, y, z]) = true
        rw [getStab_tri' _ _ _ ha]; exact opCommute_uop_same _ _ _
  · intro i j hi hj
    rw [lat2_logX] at hi ⊢
    rw [lat2_logZ] at hj ⊢
    have hi' : i = 0 ∨ i = 1 := by simp at hi; omega
    have hj' : j = 0 ∨ j = 1 := by simp at hj; omega
    rcases hi' with rfl | rfl <;> rcases hj' with rfl | rfl
    · show opAntiCount (uop (sheetKeys 3 6 6) Pauli.X) (uop (lineKeys 3 6 6) Pauli.Z) % 2 = 1
      rw [opAntiCount_uop, pair_11]; rfl
    · show opAntiCount (uop (sheetKeys 3 6 6) Pauli.X) (uop Z2keys Pauli.Z) % 2 = 0
      rw [opAntiCount_uop]; exact pair_12
    · show opAntiCount (uop X2keys Pauli.X) (uop (lineKeys 3 6 6) Pauli.Z) % 2 = 0
      rw [opAntiCount_uop, pair_21]; rfl
    · show opAntiCount (uop X2keys Pauli.X) (uop Z2keys Pauli.Z) % 2 = 1
      rw [opAntiCount_uop, pair_22]; rfl
  · intro a ha b hb
    rw [lat2_logX] at ha hb
    simp only [List.mem_cons, List.not_mem_nil, or_false] at ha hb
    rcases ha with rfl | rfl <;> rcases hb with rfl | rfl <;> exact opCommute_uop_same _ _ _
  · intro a ha b hb
    rw [lat2_logZ] at ha hb
    simp only [List.mem_cons, List.not_mem_nil, or_false] at ha hb
    rcases ha with rfl | rfl <;> rcases hb with rfl | rfl <;> exact opCommute_uop_same _ _ _

theorem n_366 : (lattice 3 6 6).qubits.length = 224 := by
  have := qubits_length_add 3 6 6
  show (qubits 3 6 6).length = 224
  omega

/-- the GF(2) rank of the generators of `HollowRhombicCode(3, 6, 6)` is at most `n − 2` -/
theorem rank_le_366 (r : Nat) (h : HasRank (2 * 224) (lattice 3 6 6).rowsH r) : r ≤ 222 := by
  have hc := Lattice.commPairL_rows lat2_wf lat2_commPair
  have hn : lat2.qubits.length = 224 := n_366
  have hk : lat2.logX.length = 2 := by rw [lat2_logX]; rfl
  rw [hn, hk] at hc
  have := hasRank_le_of_commute_pairing hc (r := r) h
  omega

end Panqec.HollowRhombicCode
