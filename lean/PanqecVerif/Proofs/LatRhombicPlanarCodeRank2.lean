/-
RhombicPlanarCode lattice model, rank clause for every size `Lx, Ly ≥ 2`, `Lz ≥ 1`: single-qubit
probes and ranks that form a triangular family (`Lat2D.TriangularProbes`) on the selected
generators of `Proofs/LatRhombicPlanarCodeRank1.lean`, which are therefore independent.

Cube `(x, y, z)`: probe `Z` on the x edge `(x, y−1, z−1)` (`(x, 0, z−1)` for a half cube `y = −1`);
the only other coloured cube containing it is `(x, y−2, z−2)`: rank `z`.
Triangle `(a, x, y, z)`: probe `X` on the x leg `(x−1, y, z)` for the axes 3 and 1, on the y leg
`(x, y−1, z)` for axis 2, on the x leg `(x+1, y, z)` for axis 0 in the last column and on the z leg
`(x, y, z−1)` for axis 0 elsewhere; rank lexicographic in `(x, y, axis order 1 < 2 < 3 < 0)`.
-/
import PanqecVerif.Proofs.LatRhombicPlanarCodeRank1
import PanqecVerif.Proofs.Lat2DRank
open Panqec Panqec.Lat3Db Panqec.Rhombic
namespace Panqec.RhombicPlanarCode

/-- the witness qubit and probe letter of a selected generator -/
def probe (Lx : Nat) : Coord → Coord × Pauli
  | [x, y, z] => (if y = -1 then [x, 0, z - 1] else [x, y - 1, z - 1], Pauli.Z)
  | [a, x, y, z] =>
    (if a = 3 ∨ a = 1 then [x - 1, y, z]
     else if a = 2 then [x, y - 1, z]
     else if x = 2*(Lx:Int)-2 then [x + 1, y, z]
     else [x, y, z - 1], Pauli.X)
  | _ => ([], Pauli.I)

/-- order of the axes inside a vertex -/
def rk (a : Int) : Nat := if a = 1 then 0 else if a = 2 then 1 else if a = 3 then 2 else 3

/-- the rank of a selected generator -/
def mu (Ly : Nat) : Coord → Nat
  | [_, _, z] => z.toNat
  | [a, x, y, _] => (x.toNat * (2*Ly+1) + y.toNat) * 4 + rk a
  | _ => 0

/-- kinds of selected generators -/
def Kind (Lx Ly Lz : Nat) (s : Coord) : Prop :=
  (∃ x y z, s = [x, y, z] ∧ SC Lx Ly Lz x y z) ∨
  (∃ a x y z, s = [a, x, y, z] ∧ TK Lx Ly Lz a x y z)

def keysOf (Lx Ly Lz : Nat) : Coord → List Coord
  | [x, y, z] => cubeKeys Lx Ly Lz x y z
  | [a, x, y, z] => triKeys Lx Ly Lz a x y z
  | _ => []

def letterOf (s : Coord) : Pauli := if s.length = 3 then Pauli.X else Pauli.Z

theorem getStab_eq {Lx Ly Lz : Nat} (hy : 2 ≤ Ly) {s : Coord} (h : Kind Lx Ly Lz s) :
    getStab Lx Ly Lz s = constOp (keysOf Lx Ly Lz s) (letterOf s) := by
  rcases h with ⟨x, y, z, rfl, hk⟩ | ⟨a, x, y, z, rfl, hk⟩
  · exact getStab_cube Lx Ly Lz x y z hk
  · exact getStab_tri Lx Ly Lz a x y z (hk.st hy)

theorem keysOf_qubits {Lx Ly Lz : Nat} {s : Coord} (h : Kind Lx Ly Lz s) :
    ∀ q ∈ keysOf Lx Ly Lz s, q ∈ qubits Lx Ly Lz := by
  intro q hq
  apply mem_qubits_of_isQubit
  rcases h with ⟨x, y, z, rfl, _⟩ | ⟨a, x, y, z, rfl, _⟩ <;> exact (List.mem_filter.mp hq).2

/-- the legs of a triangle operator -/
theorem mem_triKeys {Lx Ly Lz : Nat} {b u v w p q r : Int} (h : [p, q, r] ∈ triKeys Lx Ly Lz b u v w) :
    (p = u + sgnX b ∧ q = v ∧ r = w) ∨ (p = u ∧ q = v + sgnY b ∧ r = w) ∨
    (p = u ∧ q = v ∧ r = w + sgnZ b u v w) := by
  unfold triKeys triLocs at h
  have := (List.mem_filter.mp h).1
  simpa using this

theorem mem_triKeys_of {Lx Ly Lz : Nat} {b u v w p q r : Int}
    (h : (p = u + sgnX b ∧ q = v ∧ r = w) ∨ (p = u ∧ q = v + sgnY b ∧ r = w) ∨
      (p = u ∧ q = v ∧ r = w + sgnZ b u v w))
    (hq : QX Lx Ly Lz p q r ∨ QY Lx Ly Lz p q r ∨ QZ Lx Ly Lz p q r) :
    [p, q, r] ∈ triKeys Lx Ly Lz b u v w := by
  unfold triKeys triLocs
  rw [List.mem_filter, isQubit_iff]
  refine ⟨?_, hq⟩
  simpa using h

theorem rk_lt (a : Int) : rk a < 4 := by unfold rk; split <;> [omega; (split <;> [omega; (split <;> omega)])]

/-- the probe sits on a qubit of its generator, with an anticommuting letter -/
theorem probe_diag {Lx Ly Lz : Nat} (hy : 2 ≤ Ly) {s : Coord} (h : Kind Lx Ly Lz s) :
    Pauli.anti (probe Lx s).2 (letterOf s) = true ∧ (probe Lx s).2 ≠ Pauli.I ∧
      (probe Lx s).1 ∈ keysOf Lx Ly Lz s := by
  rcases h with ⟨x, y, z, rfl, hk⟩ | ⟨a, x, y, z, rfl, hk⟩
  · refine ⟨rfl, fun e => Pauli.noConfusion e, ?_⟩
    obtain ⟨hx, hyy, hz, _⟩ := hk
    unfold R1 RM at *
    simp only [probe, keysOf, cubeKeys]
    split
    · rename_i h1
      rw [List.mem_filter, isQubit_iff]
      refine ⟨by subst h1; simp [cubeLocs], Or.inl ?_⟩
      unfold QX R0 R1; omega
    · rw [List.mem_filter, isQubit_iff]
      refine ⟨by simp [cubeLocs], Or.inl ?_⟩
      unfold QX R0 R1; omega
  · refine ⟨rfl, fun e => Pauli.noConfusion e, ?_⟩
    have ha := (hk.st hy).1
    obtain ⟨hx, hyy, hz, hc⟩ := hk
    have hs := sgn_facts a x y z ha
    unfold R0 R2 at *
    simp only [probe, keysOf]
    rcases hc with ⟨rfl, hc⟩ | ⟨rfl, hc⟩ | ⟨rfl, hc⟩ | ⟨rfl, hc⟩
    · simp only [true_or, if_true]
      apply mem_triKeys_of
      · left; omega
      · left; unfold QX R0 R1; omega
    · have e1 : ¬ ((2 : Int) = 3 ∨ (2 : Int) = 1) := by decide
      simp only [e1, if_false, if_true]
      apply mem_triKeys_of
      · right; left; omega
      · right; left; unfold QY R0 R1 R2; omega
    · simp only [or_true, if_true]
      apply mem_triKeys_of
      · left; omega
      · left; unfold QX R0 R1; omega
    · have e1 : ¬ ((0 : Int) = 3 ∨ (0 : Int) = 1) := by decide
      have e2 : ¬ ((0 : Int) = 2) := by decide
      simp only [e1, e2, if_false]
      split
      · apply mem_triKeys_of
        · left; omega
        · left; unfold QX R0 R1; omega
      · apply mem_triKeys_of
        · right; right; omega
        · right; right; unfold QZ R0 R1 R2; omega

theorem probe_snd3 (Lx : Nat) (x y z : Int) : (probe Lx [x, y, z]).2 = Pauli.Z := rfl
theorem probe_snd4 (Lx : Nat) (a x y z : Int) : (probe Lx [a, x, y, z]).2 = Pauli.X := rfl

/-- no coloured cube of rank `≥` contains the probe of another cube -/
theorem later_cube_cube {Lx Ly Lz : Nat} {x y z u v w : Int} (hs : SC Lx Ly Lz x y z)
    (ht : SC Lx Ly Lz u v w) (hne : ¬ (x = u ∧ y = v ∧ z = w)) (hle : z.toNat ≤ w.toNat)
    (hmem : (probe Lx [x, y, z]).1 ∈ cubeKeys Lx Ly Lz u v w) : False := by
  obtain ⟨hx, hy, hz, hp⟩ := hs
  obtain ⟨hu, hv, hw, hp'⟩ := ht
  unfold R1 RM at *
  simp only [probe] at hmem
  unfold cubeKeys at hmem
  split at hmem
  · have := (List.mem_filter.mp hmem).1
    rw [mem_cubeLocs] at this
    unfold U at this
    omega
  · have := (List.mem_filter.mp hmem).1
    rw [mem_cubeLocs] at this
    unfold U at this
    omega

/-! ### no selected triangle of rank `≥` contains the probe of another selected triangle -/

theorem later_tri_3 {Lx Ly Lz : Nat} (hy : 2 ≤ Ly) {a x y z b u v w : Int} (hs : TK Lx Ly Lz a x y z)
    (ht : TK Lx Ly Lz b u v w) (hne : ¬ (a = b ∧ x = u ∧ y = v ∧ z = w))
    (hle : mu Ly [a, x, y, z] ≤ mu Ly [b, u, v, w]) (ha : a = 3)
    (hmem : [x - 1, y, z] ∈ triKeys Lx Ly Lz b u v w) : False := by
  have hb := (ht.st hy).1
  have hfb := sgn_facts b u v w hb
  obtain ⟨hx, hyy, hz, hc⟩ := hs
  obtain ⟨hu, hv, hw, hd⟩ := ht
  unfold R0 R2 at *
  simp only [mu] at hle
  have hlex := lex_of_le (M := 2*Ly+1) (by omega) (by omega) (rk_lt a) (rk_lt b) hle
  have hlex' : x < u ∨ (x = u ∧ (y < v ∨ (y = v ∧ rk a ≤ rk b))) := by omega
  clear hlex hle
  have h3 := mem_triKeys hmem
  clear hmem
  generalize sgnX b = sx at *
  generalize sgnY b = sy at *
  generalize sgnZ b u v w = sz at *
  subst ha
  rcases hfb with ⟨rfl, hf⟩ | ⟨rfl, hf⟩ | ⟨rfl, hf⟩ | ⟨rfl, hf⟩ <;> simp [rk] at hlex' <;>
    rcases h3 with h3 | h3 | h3 <;> omega

theorem later_tri_1 {Lx Ly Lz : Nat} (hy : 2 ≤ Ly) {a x y z b u v w : Int} (hs : TK Lx Ly Lz a x y z)
    (ht : TK Lx Ly Lz b u v w) (hne : ¬ (a = b ∧ x = u ∧ y = v ∧ z = w))
    (hle : mu Ly [a, x, y, z] ≤ mu Ly [b, u, v, w]) (ha : a = 1)
    (hmem : [x - 1, y, z] ∈ triKeys Lx Ly Lz b u v w) : False := by
  have hb := (ht.st hy).1
  have hfb := sgn_facts b u v w hb
  obtain ⟨hx, hyy, hz, hc⟩ := hs
  obtain ⟨hu, hv, hw, hd⟩ := ht
  unfold R0 R2 at *
  simp only [mu] at hle
  have hlex := lex_of_le (M := 2*Ly+1) (by omega) (by omega) (rk_lt a) (rk_lt b) hle
  have hlex' : x < u ∨ (x = u ∧ (y < v ∨ (y = v ∧ rk a ≤ rk b))) := by omega
  clear hlex hle
  have h3 := mem_triKeys hmem
  clear hmem
  generalize sgnX b = sx at *
  generalize sgnY b = sy at *
  generalize sgnZ b u v w = sz at *
  subst ha
  rcases hfb with ⟨rfl, hf⟩ | ⟨rfl, hf⟩ | ⟨rfl, hf⟩ | ⟨rfl, hf⟩ <;> simp [rk] at hlex' <;>
    rcases h3 with h3 | h3 | h3 <;> omega

theorem later_tri_2 {Lx Ly Lz : Nat} (hy : 2 ≤ Ly) {a x y z b u v w : Int} (hs : TK Lx Ly Lz a x y z)
    (ht : TK Lx Ly Lz b u v w) (hne : ¬ (a = b ∧ x = u ∧ y = v ∧ z = w))
    (hle : mu Ly [a, x, y, z] ≤ mu Ly [b, u, v, w]) (ha : a = 2)
    (hmem : [x, y - 1, z] ∈ triKeys Lx Ly Lz b u v w) : False := by
  have hb := (ht.st hy).1
  have hfb := sgn_facts b u v w hb
  obtain ⟨hx, hyy, hz, hc⟩ := hs
  obtain ⟨hu, hv, hw, hd⟩ := ht
  unfold R0 R2 at *
  simp only [mu] at hle
  have hlex := lex_of_le (M := 2*Ly+1) (by omega) (by omega) (rk_lt a) (rk_lt b) hle
  have hlex' : x < u ∨ (x = u ∧ (y < v ∨ (y = v ∧ rk a ≤ rk b))) := by omega
  clear hlex hle
  have h3 := mem_triKeys hmem
  clear hmem
  generalize sgnX b = sx at *
  generalize sgnY b = sy at *
  generalize sgnZ b u v w = sz at *
  subst ha
  rcases hfb with ⟨rfl, hf⟩ | ⟨rfl, hf⟩ | ⟨rfl, hf⟩ | ⟨rfl, hf⟩ <;> simp [rk] at hlex' <;>
    rcases h3 with h3 | h3 | h3 <;> omega

theorem later_tri_0a {Lx Ly Lz : Nat} (hy : 2 ≤ Ly) {a x y z b u v w : Int} (hs : TK Lx Ly Lz a x y z)
    (ht : TK Lx Ly Lz b u v w) (hne : ¬ (a = b ∧ x = u ∧ y = v ∧ z = w))
    (hle : mu Ly [a, x, y, z] ≤ mu Ly [b, u, v, w]) (ha : a = 0 ∧ x = 2*(Lx:Int)-2)
    (hmem : [x + 1, y, z] ∈ triKeys Lx Ly Lz b u v w) : False := by
  have hb := (ht.st hy).1
  have hfb := sgn_facts b u v w hb
  obtain ⟨hx, hyy, hz, hc⟩ := hs
  obtain ⟨hu, hv, hw, hd⟩ := ht
  unfold R0 R2 at *
  simp only [mu] at hle
  have hlex := lex_of_le (M := 2*Ly+1) (by omega) (by omega) (rk_lt a) (rk_lt b) hle
  have hlex' : x < u ∨ (x = u ∧ (y < v ∨ (y = v ∧ rk a ≤ rk b))) := by omega
  clear hlex hle
  have h3 := mem_triKeys hmem
  clear hmem
  generalize sgnX b = sx at *
  generalize sgnY b = sy at *
  generalize sgnZ b u v w = sz at *
  obtain ⟨ha, hxx⟩ := ha
  subst ha
  rcases hfb with ⟨rfl, hf⟩ | ⟨rfl, hf⟩ | ⟨rfl, hf⟩ | ⟨rfl, hf⟩ <;> simp [rk] at hlex' <;>
    rcases h3 with h3 | h3 | h3 <;> omega

theorem later_tri_0b {Lx Ly Lz : Nat} (hy : 2 ≤ Ly) {a x y z b u v w : Int} (hs : TK Lx Ly Lz a x y z)
    (ht : TK Lx Ly Lz b u v w) (hne : ¬ (a = b ∧ x = u ∧ y = v ∧ z = w))
    (hle : mu Ly [a, x, y, z] ≤ mu Ly [b, u, v, w]) (ha : a = 0 ∧ x ≠ 2*(Lx:Int)-2)
    (hmem : [x, y, z - 1] ∈ triKeys Lx Ly Lz b u v w) : False := by
  have hb := (ht.st hy).1
  have hfb := sgn_facts b u v w hb
  obtain ⟨hx, hyy, hz, hc⟩ := hs
  obtain ⟨hu, hv, hw, hd⟩ := ht
  unfold R0 R2 at *
  simp only [mu] at hle
  have hlex := lex_of_le (M := 2*Ly+1) (by omega) (by omega) (rk_lt a) (rk_lt b) hle
  have hlex' : x < u ∨ (x = u ∧ (y < v ∨ (y = v ∧ rk a ≤ rk b))) := by omega
  clear hlex hle
  have h3 := mem_triKeys hmem
  clear hmem
  generalize sgnX b = sx at *
  generalize sgnY b = sy at *
  generalize sgnZ b u v w = sz at *
  obtain ⟨ha, hxx⟩ := ha
  subst ha
  rcases hfb with ⟨rfl, hf⟩ | ⟨rfl, hf⟩ | ⟨rfl, hf⟩ | ⟨rfl, hf⟩ <;> simp [rk] at hlex' <;>
    rcases h3 with h3 | h3 | h3 <;> omega

theorem later_tri_tri {Lx Ly Lz : Nat} (hy : 2 ≤ Ly) {a x y z b u v w : Int} (hs : TK Lx Ly Lz a x y z)
    (ht : TK Lx Ly Lz b u v w) (hne : ¬ (a = b ∧ x = u ∧ y = v ∧ z = w))
    (hle : mu Ly [a, x, y, z] ≤ mu Ly [b, u, v, w])
    (hmem : (probe Lx [a, x, y, z]).1 ∈ triKeys Lx Ly Lz b u v w) : False := by
  simp only [probe] at hmem
  have hc := hs.2.2.2
  have ha : a = 3 ∨ a = 2 ∨ a = 1 ∨ a = 0 := by omega
  rcases ha with rfl | rfl | rfl | rfl
  · simp only [true_or, if_true] at hmem
    exact later_tri_3 hy hs ht hne hle rfl hmem
  · have e1 : ¬ ((2 : Int) = 3 ∨ (2 : Int) = 1) := by decide
    simp only [e1, if_false, if_true] at hmem
    exact later_tri_2 hy hs ht hne hle rfl hmem
  · simp only [or_true, if_true] at hmem
    exact later_tri_1 hy hs ht hne hle rfl hmem
  · have e1 : ¬ ((0 : Int) = 3 ∨ (0 : Int) = 1) := by decide
    have e2 : ¬ ((0 : Int) = 2) := by decide
    simp only [e1, e2, if_false] at hmem
    split at hmem
    · rename_i hxx
      exact later_tri_0a hy hs ht hne hle ⟨rfl, hxx⟩ hmem
    · rename_i hxx
      exact later_tri_0b hy hs ht hne hle ⟨rfl, hxx⟩ hmem

/-- a selected generator other than `s` whose letter anticommutes with the probe of `s` and whose
    rank is not smaller does not reach the witness qubit of `s` -/
theorem later_core {Lx Ly Lz : Nat} (hy : 2 ≤ Ly) {s t : Coord} (hs : Kind Lx Ly Lz s)
    (ht : Kind Lx Ly Lz t) (hne : s ≠ t) (hle : mu Ly s ≤ mu Ly t) :
    ¬ (Pauli.anti (probe Lx s).2 (letterOf t) = true ∧ (probe Lx s).1 ∈ keysOf Lx Ly Lz t) := by
  rintro ⟨hanti, hmem⟩
  rcases hs with ⟨x, y, z, rfl, hs⟩ | ⟨a, x, y, z, rfl, hs⟩ <;>
  rcases ht with ⟨u, v, w, rfl, ht⟩ | ⟨b, u, v, w, rfl, ht⟩
  · have hne' : ¬ (x = u ∧ y = v ∧ z = w) := by
      rintro ⟨rfl, rfl, rfl⟩; exact hne rfl
    exact later_cube_cube hs ht hne' hle hmem
  · rw [probe_snd3] at hanti; simp [letterOf, Pauli.anti] at hanti
  · rw [probe_snd4] at hanti; simp [letterOf, Pauli.anti] at hanti
  · have hne' : ¬ (a = b ∧ x = u ∧ y = v ∧ z = w) := by
      rintro ⟨rfl, rfl, rfl, rfl⟩; exact hne rfl
    exact later_tri_tri hy hs ht hne' hle hmem

theorem opAntiCount_single (q : Coord) (P Q : Pauli) (B : List Coord) :
    opAntiCount [(q, P)] (constOp B Q) = if Pauli.anti P Q = true ∧ q ∈ B then 1 else 0 :=
  Lat2D.opAntiCount_probe q P Q B

theorem triangular (Lx Ly Lz : Nat) (hx : 2 ≤ Lx) (hy : 2 ≤ Ly) :
    Lat2D.TriangularProbes (lattice Lx Ly Lz) (selStabs Lx Ly Lz) (probe Lx) (mu Ly) where
  on_qubits := by
    intro s hs
    have hk : Kind Lx Ly Lz s := mem_selStabs_cases hx hy hs
    have hd := probe_diag hy hk
    exact ⟨keysOf_qubits hk _ hd.2.2, hd.2.1⟩
  diag := by
    intro s hs
    have hk : Kind Lx Ly Lz s := mem_selStabs_cases hx hy hs
    have hd := probe_diag hy hk
    change opAntiCount [((probe Lx s).1, (probe Lx s).2)] (getStab Lx Ly Lz s) % 2 = 1
    rw [getStab_eq hy hk, opAntiCount_single, if_pos ⟨hd.1, hd.2.2⟩]
  later := by
    intro s hs t ht hne hle
    have hks : Kind Lx Ly Lz s := mem_selStabs_cases hx hy hs
    have hkt : Kind Lx Ly Lz t := mem_selStabs_cases hx hy ht
    change opAntiCount [((probe Lx s).1, (probe Lx s).2)] (getStab Lx Ly Lz t) % 2 = 0
    rw [getStab_eq hy hkt, opAntiCount_single, if_neg (later_core hy hks hkt hne hle)]

/-- the selected generators are independent, every size `Lx, Ly ≥ 2` -/
theorem indep_sel (Lx Ly Lz : Nat) (hx : 2 ≤ Lx) (hy : 2 ≤ Ly) :
    Lat2D.IndepGenerators (lattice Lx Ly Lz) (selStabs Lx Ly Lz) :=
  Lat2D.indep_of_triangular (triangular Lx Ly Lz hx hy)

end Panqec.RhombicPlanarCode
