/-
Geometry of C10 on RotatedPlanar3DCode, every size — the edges proposed by the rotated sweep
rule.  `RotatedSweepDecoder3D.sweep_move` only applies the rule at a vertex when the three
faces in the sweep direction are face stabilizers AND the three edges are qubits
(`all(faces_valid) and all(edges_valid)`), so nothing has to be assumed about the proposed
edges for the invariant.  What is proved here is that on RotatedPlanar3DCode the second guard
is implied by the first: at every vertex and for each of the eight sweep directions of
`decode`, if the three faces exist then the three edges are edges of the lattice.
-/
import PanqecVerif.Proofs.SweepRotPlanarBase

namespace Panqec.Sweep

set_option linter.unusedSimpArgs false
set_option linter.unusedVariables false

theorem rotPlanar_isStabFace_mem (Lx Ly Lz : Nat) (s : Loc)
    (h : (rotPlanar3D Lx Ly Lz).isStabFace s = true) : s ∈ rotPlanarStabs Lx Ly Lz := by
  simp only [Lattice.isStabFace, rotPlanar3D, Bool.and_eq_true, List.contains_iff_mem] at h
  exact h.1

/-- a stabilizer location with even z is a vertical face -/
theorem rotPlanarStabs_even (Lx Ly Lz : Nat) (x y z : Int) (h : (x, y, z) ∈ rotPlanarStabs Lx Ly Lz)
    (hz : z % 2 = 0) :
    1 ≤ x ∧ x < 2 * (Lx : Int) + 1 ∧ x % 2 = 1 ∧ 1 ≤ y ∧ y < 2 * (Ly : Int) ∧ y % 2 = 1 ∧
      2 ≤ z ∧ z < 2 * (Lz : Int) := by
  rw [mem_rotPlanarStabs] at h
  omega

/-- a stabilizer location with odd z and `(x + y) % 4 = 0` is a horizontal face -/
theorem rotPlanarStabs_hface (Lx Ly Lz : Nat) (x y z : Int) (h : (x, y, z) ∈ rotPlanarStabs Lx Ly Lz)
    (hz : z % 2 = 1) (h4 : (x + y) % 4 = 0) :
    0 ≤ x ∧ x < 2 * (Lx : Int) + 1 ∧ 2 ≤ y ∧ y < 2 * (Ly : Int) := by
  rw [mem_rotPlanarStabs] at h
  omega

/-- the rule at one vertex in one sweep direction -/
theorem rotPlanar_sweepEdges_at (Lx Ly Lz : Nat) (a b c : Int)
    (hv : 2 ≤ a ∧ a < 2 * (Lx : Int) ∧ a % 2 = 0 ∧ 0 ≤ b ∧ b < 2 * (Ly : Int) + 1 ∧ b % 2 = 0 ∧
      1 ≤ c ∧ c < 2 * (Lz : Int) ∧ c % 2 = 1 ∧ (a + b) % 4 = 2)
    (F1 F2 F3 E1 E2 E3 : Loc)
    (hgeo : F1 ∈ rotPlanarStabs Lx Ly Lz → F2 ∈ rotPlanarStabs Lx Ly Lz →
      F3 ∈ rotPlanarStabs Lx Ly Lz → E1 ∈ rotPlanarQubits Lx Ly Lz ∧
      E2 ∈ rotPlanarQubits Lx Ly Lz ∧ E3 ∈ rotPlanarQubits Lx Ly Lz) :
    (!((rotPlanar3D Lx Ly Lz).isStabFace F1 && (rotPlanar3D Lx Ly Lz).isStabFace F2 &&
        (rotPlanar3D Lx Ly Lz).isStabFace F3) ||
      ((rotPlanar3D Lx Ly Lz).isQubit E1 && (rotPlanar3D Lx Ly Lz).isQubit E2 &&
        (rotPlanar3D Lx Ly Lz).isQubit E3)) = true := by
  cases hF : ((rotPlanar3D Lx Ly Lz).isStabFace F1 && (rotPlanar3D Lx Ly Lz).isStabFace F2 &&
      (rotPlanar3D Lx Ly Lz).isStabFace F3)
  · rfl
  · simp only [Bool.and_eq_true] at hF
    obtain ⟨⟨h1, h2⟩, h3⟩ := hF
    obtain ⟨g1, g2, g3⟩ := hgeo (rotPlanar_isStabFace_mem _ _ _ _ h1)
      (rotPlanar_isStabFace_mem _ _ _ _ h2) (rotPlanar_isStabFace_mem _ _ _ _ h3)
    simp only [Lattice.isQubit, rotPlanar3D, List.contains_iff_mem.mpr g1,
      List.contains_iff_mem.mpr g2, List.contains_iff_mem.mpr g3, Bool.not_true, Bool.and_self,
      Bool.or_true]

/-- sweep directions `(1, 0, ±1)`: three existing faces imply three existing edges -/
theorem rotPlanar_sweepEdges_px (Lx Ly Lz : Nat) (a b c sz : Int) (hsz : sz = 1 ∨ sz = -1)
    (hvert : 2 ≤ a ∧ a < 2 * (Lx : Int) ∧ a % 2 = 0 ∧ 0 ≤ b ∧ b < 2 * (Ly : Int) + 1 ∧ b % 2 = 0 ∧
      1 ≤ c ∧ c < 2 * (Lz : Int) ∧ c % 2 = 1 ∧ (a + b) % 4 = 2) :
    (oldSweepFacesRot (a, b, c) (1, 0, sz)).1 ∈ rotPlanarStabs Lx Ly Lz →
    (oldSweepFacesRot (a, b, c) (1, 0, sz)).2.1 ∈ rotPlanarStabs Lx Ly Lz →
    (oldSweepFacesRot (a, b, c) (1, 0, sz)).2.2 ∈ rotPlanarStabs Lx Ly Lz →
      (oldSweepEdgesRot (a, b, c) (1, 0, sz)).1 ∈ rotPlanarQubits Lx Ly Lz ∧
      (oldSweepEdgesRot (a, b, c) (1, 0, sz)).2.1 ∈ rotPlanarQubits Lx Ly Lz ∧
      (oldSweepEdgesRot (a, b, c) (1, 0, sz)).2.2 ∈ rotPlanarQubits Lx Ly Lz := by
  simp +decide only [oldSweepFacesRot, oldSweepEdgesRot, ↓reduceIte]
  intro h1 h2 h3
  have k1 := rotPlanarStabs_even _ _ _ _ _ _ h1 (by omega)
  have k2 := rotPlanarStabs_even _ _ _ _ _ _ h2 (by omega)
  have k3 := rotPlanarStabs_hface _ _ _ _ _ _ h3 (by omega) (by omega)
  clear h1 h2 h3
  simp only [mem_rotPlanarQubits]
  refine ⟨?_, ?_, ?_⟩ <;> omega

/-- sweep directions `(0, 1, ±1)`: three existing faces imply three existing edges -/
theorem rotPlanar_sweepEdges_py (Lx Ly Lz : Nat) (a b c sz : Int) (hsz : sz = 1 ∨ sz = -1)
    (hvert : 2 ≤ a ∧ a < 2 * (Lx : Int) ∧ a % 2 = 0 ∧ 0 ≤ b ∧ b < 2 * (Ly : Int) + 1 ∧ b % 2 = 0 ∧
      1 ≤ c ∧ c < 2 * (Lz : Int) ∧ c % 2 = 1 ∧ (a + b) % 4 = 2) :
    (oldSweepFacesRot (a, b, c) (0, 1, sz)).1 ∈ rotPlanarStabs Lx Ly Lz →
    (oldSweepFacesRot (a, b, c) (0, 1, sz)).2.1 ∈ rotPlanarStabs Lx Ly Lz →
    (oldSweepFacesRot (a, b, c) (0, 1, sz)).2.2 ∈ rotPlanarStabs Lx Ly Lz →
      (oldSweepEdgesRot (a, b, c) (0, 1, sz)).1 ∈ rotPlanarQubits Lx Ly Lz ∧
      (oldSweepEdgesRot (a, b, c) (0, 1, sz)).2.1 ∈ rotPlanarQubits Lx Ly Lz ∧
      (oldSweepEdgesRot (a, b, c) (0, 1, sz)).2.2 ∈ rotPlanarQubits Lx Ly Lz := by
  simp +decide only [oldSweepFacesRot, oldSweepEdgesRot, ↓reduceIte]
  intro h1 h2 h3
  have k1 := rotPlanarStabs_even _ _ _ _ _ _ h1 (by omega)
  have k2 := rotPlanarStabs_even _ _ _ _ _ _ h2 (by omega)
  have k3 := rotPlanarStabs_hface _ _ _ _ _ _ h3 (by omega) (by omega)
  clear h1 h2 h3
  simp only [mem_rotPlanarQubits]
  refine ⟨?_, ?_, ?_⟩ <;> omega

/-- sweep directions `(-1, 0, ±1)`: three existing faces imply three existing edges -/
theorem rotPlanar_sweepEdges_mx (Lx Ly Lz : Nat) (a b c sz : Int) (hsz : sz = 1 ∨ sz = -1)
    (hvert : 2 ≤ a ∧ a < 2 * (Lx : Int) ∧ a % 2 = 0 ∧ 0 ≤ b ∧ b < 2 * (Ly : Int) + 1 ∧ b % 2 = 0 ∧
      1 ≤ c ∧ c < 2 * (Lz : Int) ∧ c % 2 = 1 ∧ (a + b) % 4 = 2) :
    (oldSweepFacesRot (a, b, c) (-1, 0, sz)).1 ∈ rotPlanarStabs Lx Ly Lz →
    (oldSweepFacesRot (a, b, c) (-1, 0, sz)).2.1 ∈ rotPlanarStabs Lx Ly Lz →
    (oldSweepFacesRot (a, b, c) (-1, 0, sz)).2.2 ∈ rotPlanarStabs Lx Ly Lz →
      (oldSweepEdgesRot (a, b, c) (-1, 0, sz)).1 ∈ rotPlanarQubits Lx Ly Lz ∧
      (oldSweepEdgesRot (a, b, c) (-1, 0, sz)).2.1 ∈ rotPlanarQubits Lx Ly Lz ∧
      (oldSweepEdgesRot (a, b, c) (-1, 0, sz)).2.2 ∈ rotPlanarQubits Lx Ly Lz := by
  simp +decide only [oldSweepFacesRot, oldSweepEdgesRot, ↓reduceIte]
  intro h1 h2 h3
  have k1 := rotPlanarStabs_even _ _ _ _ _ _ h1 (by omega)
  have k2 := rotPlanarStabs_even _ _ _ _ _ _ h2 (by omega)
  have k3 := rotPlanarStabs_hface _ _ _ _ _ _ h3 (by omega) (by omega)
  clear h1 h2 h3
  simp only [mem_rotPlanarQubits]
  refine ⟨?_, ?_, ?_⟩ <;> omega

/-- sweep directions `(0, -1, ±1)`: three existing faces imply three existing edges -/
theorem rotPlanar_sweepEdges_my (Lx Ly Lz : Nat) (a b c sz : Int) (hsz : sz = 1 ∨ sz = -1)
    (hvert : 2 ≤ a ∧ a < 2 * (Lx : Int) ∧ a % 2 = 0 ∧ 0 ≤ b ∧ b < 2 * (Ly : Int) + 1 ∧ b % 2 = 0 ∧
      1 ≤ c ∧ c < 2 * (Lz : Int) ∧ c % 2 = 1 ∧ (a + b) % 4 = 2) :
    (oldSweepFacesRot (a, b, c) (0, -1, sz)).1 ∈ rotPlanarStabs Lx Ly Lz →
    (oldSweepFacesRot (a, b, c) (0, -1, sz)).2.1 ∈ rotPlanarStabs Lx Ly Lz →
    (oldSweepFacesRot (a, b, c) (0, -1, sz)).2.2 ∈ rotPlanarStabs Lx Ly Lz →
      (oldSweepEdgesRot (a, b, c) (0, -1, sz)).1 ∈ rotPlanarQubits Lx Ly Lz ∧
      (oldSweepEdgesRot (a, b, c) (0, -1, sz)).2.1 ∈ rotPlanarQubits Lx Ly Lz ∧
      (oldSweepEdgesRot (a, b, c) (0, -1, sz)).2.2 ∈ rotPlanarQubits Lx Ly Lz := by
  simp +decide only [oldSweepFacesRot, oldSweepEdgesRot, ↓reduceIte]
  intro h1 h2 h3
  have k1 := rotPlanarStabs_even _ _ _ _ _ _ h1 (by omega)
  have k2 := rotPlanarStabs_even _ _ _ _ _ _ h2 (by omega)
  have k3 := rotPlanarStabs_hface _ _ _ _ _ _ h3 (by omega) (by omega)
  clear h1 h2 h3
  simp only [mem_rotPlanarQubits]
  refine ⟨?_, ?_, ?_⟩ <;> omega

/-- RotatedPlanar3DCode, every size: whenever the three faces the rotated sweep rule looks at
    exist, the three edges it may propose are edges of the lattice -/
theorem rotPlanar_sweepEdgesOK (Lx Ly Lz : Nat) : sweepEdgesOKRot (rotPlanar3D Lx Ly Lz) = true := by
  unfold sweepEdgesOKRot
  rw [List.all_eq_true]
  rintro ⟨a, b, c⟩ hv
  unfold sweepVerticesRot at hv
  rw [List.mem_filter] at hv
  obtain ⟨hs, hnf⟩ := hv
  rw [show (rotPlanar3D Lx Ly Lz).stabs = rotPlanarStabs Lx Ly Lz from rfl, mem_rotPlanarStabs] at hs
  have hvert : 2 ≤ a ∧ a < 2 * (Lx : Int) ∧ a % 2 = 0 ∧ 0 ≤ b ∧ b < 2 * (Ly : Int) + 1 ∧ b % 2 = 0 ∧
      1 ≤ c ∧ c < 2 * (Lz : Int) ∧ c % 2 = 1 ∧ (a + b) % 4 = 2 := by
    rcases hs with h | h | h
    · exact h
    · exfalso
      have e02 : ((0 : Int) == 2) = false := by decide
      have h4 : (a + b) % 4 = 0 := by omega
      simp [rotPlanar3D, rotIsFace, xyMod4, h4, e02] at hnf
    · exfalso
      have e01 : ((0 : Int) == 1) = false := by decide
      have hc : c % 2 = 0 := by omega
      simp [rotPlanar3D, rotIsFace, hc, e01] at hnf
  rw [List.all_eq_true]
  intro sd hsd
  rw [sweepFacesRot_noSeam _ rfl, sweepEdgesRot_noSeam _ rfl]
  apply rotPlanar_sweepEdges_at Lx Ly Lz a b c hvert
  simp only [sweepDirections, List.mem_cons, List.not_mem_nil, or_false] at hsd
  rcases hsd with rfl | rfl | rfl | rfl | rfl | rfl | rfl | rfl
  · exact rotPlanar_sweepEdges_px Lx Ly Lz a b c 1 (Or.inl rfl) hvert
  · exact rotPlanar_sweepEdges_px Lx Ly Lz a b c (-1) (Or.inr rfl) hvert
  · exact rotPlanar_sweepEdges_py Lx Ly Lz a b c 1 (Or.inl rfl) hvert
  · exact rotPlanar_sweepEdges_py Lx Ly Lz a b c (-1) (Or.inr rfl) hvert
  · exact rotPlanar_sweepEdges_mx Lx Ly Lz a b c 1 (Or.inl rfl) hvert
  · exact rotPlanar_sweepEdges_mx Lx Ly Lz a b c (-1) (Or.inr rfl) hvert
  · exact rotPlanar_sweepEdges_my Lx Ly Lz a b c 1 (Or.inl rfl) hvert
  · exact rotPlanar_sweepEdges_my Lx Ly Lz a b c (-1) (Or.inr rfl) hvert

end Panqec.Sweep
