/-
RhombicPlanarCode lattice model: the number of stabilizer generators for every size (`Ly ≥ 1`):
the coloured cubes of the box `Lx × (Ly+1) × (Lz−1)` (half of it, rounded up: the corner
`(1, −1, 1)` is coloured) and `Ly − 1` of the `Ly` vertices of each line along y for each of the
four axes.
-/
import PanqecVerif.Proofs.LatRhombicPlanarCodeRank1
open Panqec Panqec.Lat3Db Panqec.Rhombic
namespace Panqec.RhombicPlanarCode

theorem grid3_congr (xs ys zs : List Int) (p q : Int → Int → Int → Bool)
    (h : ∀ x ∈ xs, ∀ y ∈ ys, ∀ z ∈ zs, p x y z = q x y z) : grid3 xs ys zs p = grid3 xs ys zs q := by
  unfold grid3
  rw [List.flatMap_def, List.flatMap_def]
  congr 1
  apply List.map_congr_left
  intro x hx
  rw [List.flatMap_def, List.flatMap_def]
  congr 1
  apply List.map_congr_left
  intro y hy
  congr 1
  apply List.filter_congr
  intro z hz
  exact h x hx y hy z hz

theorem cubes_eq_selCubes (Lx Ly Lz : Nat) :
    grid3 (pyRange2 1 (2*Lx)) (rangeM1 (2*Ly)) (pyRange2 1 (2*Lz-1)) (cubeKeep Ly Lz) = selCubes Lx Ly Lz := by
  unfold selCubes
  apply grid3_congr
  intro x _ y _ z hz
  rw [mem_pyRange2_1] at hz
  have := cubeKeep_iff Ly Lz x y z hz
  by_cases h : (x + y + z) % 4 = 1
  · have h1 : ((x + y + z) % 4 == 1) = true := by simpa using h
    rw [h1]; exact this.mpr h
  · have h1 : ((x + y + z) % 4 == 1) = false := by simpa using h
    rw [h1]
    cases hk : cubeKeep Ly Lz x y z
    · rfl
    · exact absurd (this.mp hk) h

/-- the filter of the triangle loop only looks at the axis and `y` -/
def notRough (Ly : Nat) (a : Int) : Int → Int → Bool := fun _ y => !roughTriangle Ly a y

theorem tri_eq (Lx Ly Lz : Nat) (a : Int) :
    grid3 (pyRange2 2 (2*Lx)) (pyRange2 0 (2*Ly)) (pyRange2 0 (2*Lz)) (triKeep Ly Lz a) =
    grid3 (pyRange2 2 (2*Lx)) (pyRange2 0 (2*Ly)) (pyRange2 0 (2*Lz)) (fun x y _ => notRough Ly a x y) := by
  apply grid3_congr
  intro x _ y _ z _
  have h1 := triKeep_iff Ly Lz a x y z
  have h2 : roughTriangle Ly a y = true ↔ Rough Ly a y := by simp [roughTriangle, Rough]
  unfold notRough
  cases hk : triKeep Ly Lz a x y z <;> cases hr : roughTriangle Ly a y <;> simp_all

theorem countP_ne (l : List Int) (c : Int) (hl : l.Nodup) (hc : c ∈ l) :
    l.countP (fun y => !(y == c)) = l.length - 1 := by
  have h1 := List.length_eq_countP_add_countP (fun y => y == c) (l := l)
  have h2 := countP_eq_point l c hl hc
  have h3 : l.countP (fun y => ¬ (y == c) = true) = l.countP (fun y => !(y == c)) := by
    apply List.countP_congr; intro y _; simp
  omega

theorem countP_notRough (Ly : Nat) (hy : 1 ≤ Ly) (a x : Int) (ha : IsAxis a) :
    (pyRange2 0 (2*Ly)).countP (notRough Ly a x) = Ly - 1 := by
  have hlen : (pyRange2 0 (2*Ly)).length = Ly := by rw [length_pyRange2]; omega
  have h0 : (0 : Int) ∈ pyRange2 0 (2*Ly) := by rw [mem_pyRange2_0]; unfold R0; omega
  have h1 : (2*(Ly:Int)-2) ∈ pyRange2 0 (2*Ly) := by rw [mem_pyRange2_0]; unfold R0; omega
  unfold notRough roughTriangle
  rcases ha with rfl | rfl | rfl | rfl
  · rw [List.countP_congr (q := fun y => !(y == 2*(Ly:Int)-2)) (by intro y _; simp),
      countP_ne _ _ (nodup_pyRange2 _ _) h1, hlen]
  · rw [List.countP_congr (q := fun y => !(y == 0)) (by intro y _; simp),
      countP_ne _ _ (nodup_pyRange2 _ _) h0, hlen]
  · rw [List.countP_congr (q := fun y => !(y == 0)) (by intro y _; simp),
      countP_ne _ _ (nodup_pyRange2 _ _) h0, hlen]
  · rw [List.countP_congr (q := fun y => !(y == 2*(Ly:Int)-2)) (by intro y _; simp),
      countP_ne _ _ (nodup_pyRange2 _ _) h1, hlen]

theorem length_tri (Lx Ly Lz : Nat) (hy : 1 ≤ Ly) (a : Int) (ha : IsAxis a) :
    (grid3 (pyRange2 2 (2*Lx)) (pyRange2 0 (2*Ly)) (pyRange2 0 (2*Lz)) (triKeep Ly Lz a)).length =
      (Lx - 1) * (Ly - 1) * Lz := by
  rw [tri_eq, length_grid3_xy]
  unfold cnt2
  have : ((pyRange2 2 (2*Lx)).map fun x => (pyRange2 0 (2*Ly)).countP (notRough Ly a x)) =
      (pyRange2 2 (2*Lx)).map fun _ => Ly - 1 := by
    apply List.map_congr_left
    intro x _
    exact countP_notRough Ly hy a x ha
  rw [this, List.map_const', List.sum_replicate_nat, length_pyRange2, length_pyRange2]
  have e1 : (2 * Lx + 1 - 2) / 2 = Lx - 1 := by omega
  have e2 : (2 * Lz + 1 - 0) / 2 = Lz := by omega
  rw [e1, e2]

/-- the number of stabilizer generators -/
theorem length_stabs (Lx Ly Lz : Nat) (hy : 1 ≤ Ly) :
    (stabs Lx Ly Lz).length =
      (Lx * ((Ly + 1) * (Lz - 1)) + 1) / 2 + 4 * ((Lx - 1) * (Ly - 1) * Lz) := by
  unfold stabs
  rw [List.length_append, cubes_eq_selCubes, length_selCubes]
  simp only [List.flatMap_cons, List.flatMap_nil, List.length_append, List.length_map, List.length_nil,
    length_tri Lx Ly Lz hy 0 (Or.inl rfl), length_tri Lx Ly Lz hy 1 (Or.inr (Or.inl rfl)),
    length_tri Lx Ly Lz hy 2 (Or.inr (Or.inr (Or.inl rfl))),
    length_tri Lx Ly Lz hy 3 (Or.inr (Or.inr (Or.inr rfl)))]
  unfold half
  simp only [if_true]
  omega

end Panqec.RhombicPlanarCode
