/-
Color488Code, all square sizes `L ≥ 1`, C17 part B: the `2L` lines of each family are sets of
qubits with pairwise disjoint supports, the listed logicals are members of the families
(`lower_bound`, through `Lattice.packing_bound`), every listed logical has weight `2L`
(`reported_distance`).
-/
import PanqecVerif.Proofs.DistColor488CodeA
import PanqecVerif.Proofs.Lat2DRankBridge

namespace Panqec.Color488Code
open Panqec.Lat2D Panqec.Color

variable {L : Nat}

/-- `lineReps` with the hypotheses restricted to the indices `< M` -/
theorem lineRepsB (qs : List Coord) (K : Nat → List Coord) (M : Nat) (P : Pauli)
    (hnd : ∀ i, i < M → (K i).Nodup) (hq : ∀ i, i < M → ∀ q ∈ K i, q ∈ qs)
    (hdis : ∀ i i', i < i' → i' < M → ∀ q ∈ K i, q ∉ K i') :
    ((List.range M).map fun i => (K i).map (fun q => (q, P))).length = M ∧
    (∀ r ∈ (List.range M).map fun i => (K i).map (fun q => (q, P)),
      KeysNodup r ∧ opSupported qs r = true) ∧
    ((List.range M).map fun i => (K i).map (fun q => (q, P))).Pairwise KeysDisjoint := by
  refine ⟨by simp, ?_, ?_⟩
  · intro r hr
    obtain ⟨i, hi, rfl⟩ := List.mem_map.mp hr
    have hi := List.mem_range.mp hi
    exact ⟨keysNodup_line P (hnd i hi), opSupported_line P (hq i hi)⟩
  · rw [List.pairwise_map]
    refine List.Pairwise.imp_of_mem ?_ List.pairwise_lt_range
    intro i i' _ hi' hii q h1 h2
    rw [Lat2D.map_fst_const] at h1 h2
    exact hdis i i' hii (List.mem_range.mp hi') q h1 h2

/-! ### the lines as sets of qubits -/

theorem mk_inj {tr : Bool} {a b a' b' : Int} (h : mk tr a b = mk tr a' b') : a = a' ∧ b = b' := by
  cases tr
  · simp only [mk, Bool.false_eq_true, if_false, List.cons.injEq, and_true] at h; exact h
  · simp only [mk, if_true, List.cons.injEq, and_true] at h; exact ⟨h.2, h.1⟩

theorem isQ_symm {a b : Int} (h : IsQ L a b) : IsQ L b a := by unfold IsQ at *; omega

theorem mk_qubit (hL : 1 ≤ L) (tr : Bool) {a b : Int} (h : IsQ L a b) : mk tr a b ∈ qubits L L := by
  cases tr
  · simp only [mk, Bool.false_eq_true, if_false]; exact (mem_qubits' hL).mpr h
  · simp only [mk, if_true]; exact (mem_qubits' hL).mpr (isQ_symm h)

theorem xc_range {s : Int} (hs : s = 0 ∨ s = 4) {t : Nat} (ht : t < 2 * L) :
    3 ≤ xc s t ∧ xc s t < 8 * (L : Int) + 2 ∧ (xc s t % 8 = (3 + s) % 8 ∨ xc s t % 8 = (5 + s) % 8) := by
  unfold xc
  by_cases h : t % 2 = 0
  · rw [if_pos h]; omega
  · rw [if_neg h]; omega

theorem mem_lineK {tr : Bool} {s : Int} {t : Nat} {q : Coord} :
    q ∈ lineK L tr s t ↔ ∃ i : Nat, i < L ∧
      (q = mk tr (W L (xc s t)) (W L (8 * (i : Int) + 3 + s)) ∨
       q = mk tr (W L (xc s t)) (W L (8 * (i : Int) + 5 + s))) := by
  unfold lineK
  simp only [List.mem_flatMap, List.mem_range, List.mem_cons, List.not_mem_nil, or_false]

/-- a line of the family is the set of all qubits with that first coordinate -/
theorem mem_lineK_iff (hL : 1 ≤ L) {tr : Bool} {s : Int} (hs : s = 0 ∨ s = 4) {t : Nat}
    (ht : t < 2 * L) {q : Coord} :
    q ∈ lineK L tr s t ↔ ∃ a b, q = mk tr a b ∧ a = W L (xc s t) ∧ IsQ L a b := by
  have hx := xc_range hs ht
  have rx := W_range hL (xc s t)
  rw [mem_lineK]
  constructor
  · rintro ⟨i, hi, rfl | rfl⟩
    · have r := W_range hL (8 * (i : Int) + 3 + s)
      exact ⟨_, _, rfl, rfl, by unfold IsQ; omega⟩
    · have r := W_range hL (8 * (i : Int) + 5 + s)
      exact ⟨_, _, rfl, rfl, by unfold IsQ; omega⟩
  · rintro ⟨a, b, rfl, rfl, hq⟩
    unfold IsQ at hq
    rcases hs with rfl | rfl
    · -- rows 8i+3, 8i+5: no wrap
      by_cases hb : b % 8 = 3
      · refine ⟨(b / 8).toNat, by omega, Or.inl ?_⟩
        rw [W_small (v := 8 * ((b / 8).toNat : Int) + 3 + 0) (by omega) (by omega)]
        congr 1; omega
      · refine ⟨(b / 8).toNat, by omega, Or.inr ?_⟩
        rw [W_small (v := 8 * ((b / 8).toNat : Int) + 5 + 0) (by omega) (by omega)]
        congr 1; omega
    · -- rows 8i+7, 8i+9: the last one wraps to 1
      by_cases hb : b % 8 = 7
      · refine ⟨(b / 8).toNat, by omega, Or.inl ?_⟩
        rw [W_small (v := 8 * ((b / 8).toNat : Int) + 3 + 4) (by omega) (by omega)]
        congr 1; omega
      · by_cases hb1 : b = 1
        · refine ⟨L - 1, by omega, Or.inr ?_⟩
          rcases W_cases (L := L) (v := 8 * ((L - 1 : Nat) : Int) + 5 + 4) (by omega) (by omega)
            with ⟨h1, _⟩ | ⟨_, h2⟩
          · omega
          · rw [h2]; congr 1; omega
        · refine ⟨(b / 8).toNat - 1, by omega, Or.inr ?_⟩
          rw [W_small (v := 8 * (((b / 8).toNat - 1 : Nat) : Int) + 5 + 4) (by omega) (by omega)]
          congr 1; omega

theorem lineK_qubits (hL : 1 ≤ L) {tr : Bool} {s : Int} (hs : s = 0 ∨ s = 4) {t : Nat}
    (ht : t < 2 * L) : ∀ q ∈ lineK L tr s t, q ∈ qubits L L := by
  intro q hq
  obtain ⟨a, b, rfl, _, h⟩ := (mem_lineK_iff hL hs ht).mp hq
  exact mk_qubit hL tr h

/-- the wrapped running coordinates of a line are pairwise distinct -/
theorem W_run_inj (hL : 1 ≤ L) {s : Int} (hs : s = 0 ∨ s = 4) {i j : Nat} (hi : i < L) (hj : j < L)
    {c c' : Int} (hc : c = 3 ∨ c = 5) (hc' : c' = 3 ∨ c' = 5)
    (h : W L (8 * (i : Int) + c + s) = W L (8 * (j : Int) + c' + s)) : i = j ∧ c = c' := by
  have r1 := W_range hL (8 * (i : Int) + c + s)
  have r2 := W_range hL (8 * (j : Int) + c' + s)
  have hcc : c = c' := by omega
  subst hcc
  rcases W_cases (L := L) (v := 8 * (i : Int) + c + s) (by omega) (by omega) with ⟨_, e1⟩ | ⟨_, e1⟩ <;>
  rcases W_cases (L := L) (v := 8 * (j : Int) + c + s) (by omega) (by omega) with ⟨_, e2⟩ | ⟨_, e2⟩ <;>
  exact ⟨by omega, rfl⟩

theorem nodup_lineK (hL : 1 ≤ L) (tr : Bool) {s : Int} (hs : s = 0 ∨ s = 4) (t : Nat) :
    (lineK L tr s t).Nodup := by
  unfold lineK
  apply Color666PlanarCode.nodup_blocks
  · intro i
    simp only [List.nodup_cons, List.mem_cons, List.not_mem_nil, or_false, not_false_eq_true,
      List.nodup_nil, and_true]
    intro e
    have r1 := W_range hL (8 * (i : Int) + 3 + s)
    have r2 := W_range hL (8 * (i : Int) + 5 + s)
    have := (mk_inj e).2
    omega
  · intro i j hi hj hij q hq hr
    simp only [List.mem_cons, List.not_mem_nil, or_false] at hq hr
    rcases hq with rfl | rfl <;> rcases hr with e | e
    · exact hij (W_run_inj hL hs hi hj (Or.inl rfl) (Or.inl rfl) (mk_inj e).2).1
    · have := (W_run_inj hL hs hi hj (Or.inl rfl) (Or.inr rfl) (mk_inj e).2).2; omega
    · have := (W_run_inj hL hs hi hj (Or.inr rfl) (Or.inl rfl) (mk_inj e).2).2; omega
    · exact hij (W_run_inj hL hs hi hj (Or.inr rfl) (Or.inr rfl) (mk_inj e).2).1

/-- different lines of a family have different (wrapped) coordinates -/
theorem W_xc_inj {s : Int} (hs : s = 0 ∨ s = 4) {t t' : Nat} (ht : t < 2 * L)
    (ht' : t' < 2 * L) (h : W L (xc s t) = W L (xc s t')) : t = t' := by
  have h1 := xc_range hs ht
  have h2 := xc_range hs ht'
  have d1 : xc s t = 8 * ((t / 2 : Nat) : Int) + (if t % 2 = 0 then 3 else 5) + s := rfl
  have d2 : xc s t' = 8 * ((t' / 2 : Nat) : Int) + (if t' % 2 = 0 then 3 else 5) + s := rfl
  rcases W_cases (L := L) (v := xc s t) (by omega) (by omega) with ⟨_, e1⟩ | ⟨_, e1⟩ <;>
  rcases W_cases (L := L) (v := xc s t') (by omega) (by omega) with ⟨_, e2⟩ | ⟨_, e2⟩ <;>
  (rw [e1, e2] at h
   generalize xc s t = X at *
   generalize xc s t' = X' at *
   by_cases p1 : t % 2 = 0 <;> by_cases p2 : t' % 2 = 0 <;>
     simp only [p1, p2, if_true, if_false] at d1 d2 <;> omega)

/-- the side conditions of `Lattice.packing_bound` for the `2L` lines of a family -/
theorem repsLines (hL : 1 ≤ L) (tr : Bool) {s : Int} (hs : s = 0 ∨ s = 4) (P : Pauli) :
    ((List.range (2 * L)).map fun t => (lineK L tr s t).map (fun q => (q, P))).length = 2 * L ∧
    (∀ r ∈ (List.range (2 * L)).map fun t => (lineK L tr s t).map (fun q => (q, P)),
      KeysNodup r ∧ opSupported (qubits L L) r = true) ∧
    ((List.range (2 * L)).map fun t => (lineK L tr s t).map (fun q => (q, P))).Pairwise
      KeysDisjoint :=
  lineRepsB _ _ _ P (fun t _ => nodup_lineK hL tr hs t) (fun t ht => lineK_qubits hL hs ht)
    (fun t t' htt ht' q hq hq' => by
      obtain ⟨a, b, rfl, ha, _⟩ := (mem_lineK_iff hL hs (by omega : t < 2 * L)).mp hq
      obtain ⟨a', b', e, ha', _⟩ := (mem_lineK_iff hL hs ht').mp hq'
      have := (mk_inj e).1
      have := W_xc_inj hs (by omega : t < 2 * L) ht' (by rw [← ha, ← ha', this])
      omega)

/-! ### the listed lines are members of the families -/

theorem xc_zero (s : Int) : xc s 0 = 3 + s := by unfold xc; simp
theorem xc_one (s : Int) : xc s 1 = 5 + s := by unfold xc; simp
theorem xc_last (hL : 1 ≤ L) (s : Int) : xc s (2 * L - 1) = 8 * (L : Int) - 3 + s := by
  unfold xc
  rw [if_neg (by omega)]
  omega

theorem k3_perm (hL : 1 ≤ L) : (k3 L).Perm (lineK L false 0 0) := by
  rw [List.perm_ext_iff_of_nodup (nodup_k3 L) (nodup_lineK hL false (Or.inl rfl) 0)]
  intro q
  rw [mem_lineK_iff hL (Or.inl rfl) (by omega), xc_zero, W_small (by omega) (by omega)]
  constructor
  · intro h
    obtain ⟨a, b, rfl, _⟩ := line_shape hL (mem_k3 hL) h
    obtain ⟨rfl, hq⟩ := (mem_k3' hL).mp h
    exact ⟨3, b, rfl, rfl, hq⟩
  · rintro ⟨a, b, rfl, rfl, hq⟩
    exact (mem_k3' hL).mpr ⟨rfl, hq⟩

theorem k7_perm (hL : 1 ≤ L) : (k7 L).Perm (lineK L false 4 0) := by
  rw [List.perm_ext_iff_of_nodup (nodup_k7 L) (nodup_lineK hL false (Or.inr rfl) 0)]
  intro q
  rw [mem_lineK_iff hL (Or.inr rfl) (by omega), xc_zero, W_small (by omega) (by omega)]
  constructor
  · intro h
    obtain ⟨a, b, rfl, _⟩ := line_shape hL (mem_k7 hL) h
    obtain ⟨rfl, hq⟩ := (mem_k7' hL).mp h
    exact ⟨7, b, rfl, rfl, hq⟩
  · rintro ⟨a, b, rfl, rfl, hq⟩
    exact (mem_k7' hL).mpr ⟨rfl, hq⟩

theorem r5_perm (hL : 1 ≤ L) : (r5 L).Perm (lineK L true 0 1) := by
  rw [List.perm_ext_iff_of_nodup (nodup_r5 L) (nodup_lineK hL true (Or.inl rfl) 1)]
  intro q
  rw [mem_lineK_iff hL (Or.inl rfl) (by omega), xc_one, W_small (by omega) (by omega)]
  constructor
  · intro h
    obtain ⟨a, b, rfl, _⟩ := line_shape hL (mem_r5 hL) h
    obtain ⟨rfl, hq⟩ := (mem_r5' hL).mp h
    exact ⟨5, a, rfl, rfl, isQ_symm hq⟩
  · rintro ⟨a, b, rfl, rfl, hq⟩
    exact (mem_r5' hL).mpr ⟨rfl, isQ_symm hq⟩

theorem r1_perm (hL : 1 ≤ L) : (r1 L).Perm (lineK L true 4 (2 * L - 1)) := by
  rw [List.perm_ext_iff_of_nodup (nodup_r1 L) (nodup_lineK hL true (Or.inr rfl) (2 * L - 1))]
  intro q
  have hW : W L (8 * (L : Int) - 3 + 4) = 1 := by
    rcases W_cases (L := L) (v := 8 * (L : Int) - 3 + 4) (by omega) (by omega) with ⟨h1, _⟩ | ⟨_, h2⟩
    · omega
    · rw [h2]; omega
  rw [mem_lineK_iff hL (Or.inr rfl) (by omega), xc_last hL, hW]
  constructor
  · intro h
    obtain ⟨a, b, rfl, _⟩ := line_shape hL (mem_r1 hL) h
    obtain ⟨rfl, hq⟩ := (mem_r1' hL).mp h
    exact ⟨1, a, rfl, rfl, isQ_symm hq⟩
  · rintro ⟨a, b, rfl, rfl, hq⟩
    exact (mem_r1' hL).mpr ⟨rfl, isQ_symm hq⟩

/-! ### the packing bound -/

/-- the parity of `b` with a member `t0` of a family is the parity with every member -/
theorem line_parity' (tr : Bool) (hL : 1 ≤ L) {b : Op} (hb : CommStabs L b) {p : Int}
    (hp : p = 0 ∨ p = 1) {s : Int} (hs : s = 0 ∨ s = 4) {t0 : Nat} (ht0 : t0 < 2 * L) (t : Nat)
    (ht : t < 2 * L) :
    (lineK L tr s t).countP (opHit (letter p) b) % 2 =
      (lineK L tr s t0).countP (opHit (letter p) b) % 2 := by
  rw [countP_lineK, countP_lineK, line_parity tr hL hb hp hs t ht, line_parity tr hL hb hp hs t0 ht0]

/-- one listed logical: `2L` disjoint representatives -/
theorem reps_of (hL : 1 ≤ L) (tr : Bool) {s : Int} (hs : s = 0 ∨ s = 4) {p : Int}
    (hp : p = 0 ∨ p = 1) {K : List Coord} {t0 : Nat} (ht0 : t0 < 2 * L)
    (hK : K.Perm (lineK L tr s t0)) :
    ∃ reps : List Op, 2 * L ≤ reps.length ∧
      (∀ r ∈ reps, KeysNodup r ∧ opSupported (qubits L L) r = true) ∧
      reps.Pairwise KeysDisjoint ∧
      ∀ b : Op, KeysNodup b → opSupported (qubits L L) b = true → CommStabs L b →
        ∀ r ∈ reps, opAntiCount r b % 2 = opAntiCount (K.map (fun q => (q, letter p))) b % 2 := by
  obtain ⟨h1, h2, h3⟩ := repsLines hL tr hs (letter p)
  refine ⟨_, by rw [h1], h2, h3, ?_⟩
  intro b _ _ hb r hr
  obtain ⟨t, ht, rfl⟩ := List.mem_map.mp hr
  rw [opAntiCount_line, opAntiCount_line, hK.countP_eq]
  exact line_parity' tr hL hb hp hs ht0 t (List.mem_range.mp ht)

/-- every non-trivial logical operator of the `L × L` 4.8.8 colour code has weight `≥ 2L` -/
theorem lower_bound (hL : 1 ≤ L) (hwf : (lattice L L).WF) {n k : Nat}
    (hn : (qubits L L).length = n)
    (hv : ValidCodeL n k (lattice L L).rowsH (lattice L L).rowsX (lattice L L).rowsZ) :
    ∀ v, IsNontrivialLogical n (lattice L L).rowsH v → 2 * L ≤ pauliWeight v := by
  apply Lattice.packing_bound (lattice L L) hwf hn hv
  intro a ha
  change a ∈ logX L L ++ logZ L L at ha
  change ∃ reps : List Op, _ ∧ (∀ r ∈ reps, KeysNodup r ∧ opSupported (qubits L L) r = true) ∧
    _ ∧ ∀ b : Op, _ → _ → CommStabs L b → _
  rw [logX_eq, logZ_eq] at ha
  simp only [List.cons_append, List.nil_append, List.mem_cons, List.not_mem_nil, or_false] at ha
  have p0 : (0 : Int) = 0 ∨ (0 : Int) = 1 := Or.inl rfl
  have p1 : (1 : Int) = 0 ∨ (1 : Int) = 1 := Or.inr rfl
  rcases ha with rfl | rfl | rfl | rfl | rfl | rfl | rfl | rfl
  · exact reps_of hL false (Or.inl rfl) p0 (by omega) (k3_perm hL)
  · exact reps_of hL false (Or.inr rfl) p0 (by omega) (k7_perm hL)
  · exact reps_of hL true (Or.inl rfl) p0 (by omega) (r5_perm hL)
  · exact reps_of hL true (Or.inr rfl) p0 (by omega) (r1_perm hL)
  · exact reps_of hL true (Or.inl rfl) p1 (by omega) (r5_perm hL)
  · exact reps_of hL true (Or.inr rfl) p1 (by omega) (r1_perm hL)
  · exact reps_of hL false (Or.inl rfl) p1 (by omega) (k3_perm hL)
  · exact reps_of hL false (Or.inr rfl) p1 (by omega) (k7_perm hL)

/-! ### weights of the listed logicals, reported distance -/

theorem weight_listed (hwf : (lattice L L).WF) {a : Op}
    (ha : a ∈ (lattice L L).logX ++ (lattice L L).logZ) :
    pauliWeight (opRow (lattice L L).qubits a) = a.length :=
  pauliWeight_opRow _ hwf.qubits_nodup a (hwf.log_keys a ha) (hwf.log_supported a ha)

/-- every row of `logicals_x` and of `logicals_z` has weight `2L` -/
theorem weights_listed (hL : 1 ≤ L) (hwf : (lattice L L).WF) :
    (lattice L L).rowsX.map pauliWeight = [2 * L, 2 * L, 2 * L, 2 * L] ∧
    (lattice L L).rowsZ.map pauliWeight = [2 * L, 2 * L, 2 * L, 2 * L] := by
  have hw := fun a ha => weight_listed hwf (a := a) ha
  change ∀ a, a ∈ logX L L ++ logZ L L → _ at hw
  rw [logX_eq, logZ_eq] at hw
  unfold Lattice.rowsX Lattice.rowsZ
  change (List.map (opRow (lattice L L).qubits) (logX L L)).map pauliWeight = _ ∧
    (List.map (opRow (lattice L L).qubits) (logZ L L)).map pauliWeight = _
  rw [logX_eq, logZ_eq]
  simp only [List.map_cons, List.map_nil]
  rw [hw _ (by simp), hw _ (by simp), hw _ (by simp), hw _ (by simp), hw _ (by simp),
    hw _ (by simp), hw _ (by simp), hw _ (by simp)]
  simp only [List.length_map, length_k3 hL, length_k7 hL, length_r5 hL, length_r1 hL]
  exact ⟨trivial, trivial⟩

/-- `code.d` (minimum weight of the listed logicals) is `2L` -/
theorem reported_distance (hL : 1 ≤ L) (hwf : (lattice L L).WF) :
    distance (lattice L L).rowsX (lattice L L).rowsZ = some (2 * L) := by
  obtain ⟨h1, h2⟩ := weights_listed hL hwf
  unfold distance
  show (match listMin ((lattice L L).rowsX.map pauliWeight),
    listMin ((lattice L L).rowsZ.map pauliWeight) with
    | some a, some b => some (min a b)
    | _, _ => none) = _
  rw [h1, h2]
  simp only [listMin, List.foldl_cons, List.foldl_nil]
  congr 1
  omega

end Panqec.Color488Code
