/-
Color488Code, all sizes `Lx, Ly ≥ 1`, C17 part B: the `2·La` lines of each family (`La = Lx` for
the columns, `La = Ly` for the rows) are sets of qubits with pairwise disjoint supports, the listed
logicals are members of the families (`lower_bound`: `min (2Lx) (2Ly)`, through
`Lattice.packing_bound`), the listed columns have weight `2Ly` and the listed rows weight `2Lx`
(`reported_distance`: `min (2Lx) (2Ly)`).
-/
import PanqecVerif.Proofs.DistColor488CodeA
import PanqecVerif.Proofs.Lat2DRankBridge

namespace Panqec.Color488Code
open Panqec.Lat2D Panqec.Color

variable {La Lb : Nat}

/-- `lineReps` with the hypotheses restricted to the indices `< M` -/
theorem lineRepsB (qs : List Coord) (K : Nat → List Coord) (M : Nat) (P : Pauli)
    (hnd : ∀ i, i < M → (K i).Nodup) (hq : ∀ i, i < M → ∀ q ∈ K i, q ∈ qs)
    (hdis : ∀ i i', i < i' → i' < M → ∀ q ∈ K i, q ∉ K i') :
    ((List.range M).map fun i => (K i).map (fun q => (q, P))).length = M ∧
    (∀ r ∈ (List.range M).map fun i => (K i).map (fun q => (q, P)),
      KeysNodup r ∧ opSupported qs r = true) ∧
    ((List.range M).map fun i => (K i).map (fun q => (q, P))).Pairwise KeysDisjoint := by
  refine ⟨by simp, ?_, ?_⟩
  · intro r hr
    obtain ⟨i, hi, rfl⟩ := List.mem_map.mp hr
    have hi := List.mem_range.mp hi
    exact ⟨keysNodup_line P (hnd i hi), opSupported_line P (hq i hi)⟩
  · rw [List.pairwise_map]
    refine List.Pairwise.imp_of_mem ?_ List.pairwise_lt_range
    intro i i' _ hi' hii q h1 h2
    rw [Lat2D.map_fst_const] at h1 h2
    exact hdis i i' hii (List.mem_range.mp hi') q h1 h2

/-! ### the lines as sets of qubits -/

theorem mk_inj {tr : Bool} {a b a' b' : Int} (h : mk tr a b = mk tr a' b') : a = a' ∧ b = b' := by
  cases tr
  · simp only [mk, Bool.false_eq_true, if_false, List.cons.injEq, and_true] at h; exact h
  · simp only [mk, if_true, List.cons.injEq, and_true] at h; exact ⟨h.2, h.1⟩

theorem isQ_symm {Lx Ly : Nat} {a b : Int} (h : IsQ Lx Ly a b) : IsQ Ly Lx b a := by
  unfold IsQ at *; omega

theorem mk_qubit (hA : 1 ≤ La) (hB : 1 ≤ Lb) (tr : Bool) {a b : Int} (h : IsQ La Lb a b) :
    mk tr a b ∈ qubits (sx tr La Lb) (sy tr La Lb) := by
  cases tr
  · simp only [mk, Bool.false_eq_true, if_false]
    show [a, b] ∈ qubits La Lb
    exact (mem_qubits' hA hB).mpr h
  · simp only [mk, if_true]
    show [b, a] ∈ qubits Lb La
    exact (mem_qubits' hB hA).mpr (isQ_symm h)

theorem xc_range {s : Int} (hs : s = 0 ∨ s = 4) {t : Nat} (ht : t < 2 * La) :
    3 ≤ xc s t ∧ xc s t < 8 * (La : Int) + 2 ∧ (xc s t % 8 = (3 + s) % 8 ∨ xc s t % 8 = (5 + s) % 8) := by
  unfold xc
  by_cases h : t % 2 = 0
  · rw [if_pos h]; omega
  · rw [if_neg h]; omega

theorem mem_lineK {tr : Bool} {s : Int} {t : Nat} {q : Coord} :
    q ∈ lineK La Lb tr s t ↔ ∃ i : Nat, i < Lb ∧
      (q = mk tr (W La (xc s t)) (W Lb (8 * (i : Int) + 3 + s)) ∨
       q = mk tr (W La (xc s t)) (W Lb (8 * (i : Int) + 5 + s))) := by
  unfold lineK
  simp only [List.mem_flatMap, List.mem_range, List.mem_cons, List.not_mem_nil, or_false]

/-- a line of the family is the set of all qubits with that first coordinate -/
theorem mem_lineK_iff (hA : 1 ≤ La) (hB : 1 ≤ Lb) {tr : Bool} {s : Int} (hs : s = 0 ∨ s = 4) {t : Nat}
    (ht : t < 2 * La) {q : Coord} :
    q ∈ lineK La Lb tr s t ↔ ∃ a b, q = mk tr a b ∧ a = W La (xc s t) ∧ IsQ La Lb a b := by
  have hx := xc_range hs ht
  have rx := W_range hA (xc s t)
  rw [mem_lineK]
  constructor
  · rintro ⟨i, hi, rfl | rfl⟩
    · have r := W_range hB (8 * (i : Int) + 3 + s)
      exact ⟨_, _, rfl, rfl, by unfold IsQ; omega⟩
    · have r := W_range hB (8 * (i : Int) + 5 + s)
      exact ⟨_, _, rfl, rfl, by unfold IsQ; omega⟩
  · rintro ⟨a, b, rfl, rfl, hq⟩
    unfold IsQ at hq
    rcases hs with rfl | rfl
    · -- rows 8i+3, 8i+5: no wrap
      by_cases hb : b % 8 = 3
      · refine ⟨(b / 8).toNat, by omega, Or.inl ?_⟩
        rw [W_small (v := 8 * ((b / 8).toNat : Int) + 3 + 0) (by omega) (by omega)]
        congr 1; omega
      · refine ⟨(b / 8).toNat, by omega, Or.inr ?_⟩
        rw [W_small (v := 8 * ((b / 8).toNat : Int) + 5 + 0) (by omega) (by omega)]
        congr 1; omega
    · -- rows 8i+7, 8i+9: the last one wraps to 1
      by_cases hb : b % 8 = 7
      · refine ⟨(b / 8).toNat, by omega, Or.inl ?_⟩
        rw [W_small (v := 8 * ((b / 8).toNat : Int) + 3 + 4) (by omega) (by omega)]
        congr 1; omega
      · by_cases hb1 : b = 1
        · refine ⟨Lb - 1, by omega, Or.inr ?_⟩
          rcases W_cases (L := Lb) (v := 8 * ((Lb - 1 : Nat) : Int) + 5 + 4) (by omega) (by omega)
            with ⟨h1, _⟩ | ⟨_, h2⟩
          · omega
          · rw [h2]; congr 1; omega
        · refine ⟨(b / 8).toNat - 1, by omega, Or.inr ?_⟩
          rw [W_small (v := 8 * (((b / 8).toNat - 1 : Nat) : Int) + 5 + 4) (by omega) (by omega)]
          congr 1; omega

theorem lineK_qubits (hA : 1 ≤ La) (hB : 1 ≤ Lb) {tr : Bool} {s : Int} (hs : s = 0 ∨ s = 4) {t : Nat}
    (ht : t < 2 * La) : ∀ q ∈ lineK La Lb tr s t, q ∈ qubits (sx tr La Lb) (sy tr La Lb) := by
  intro q hq
  obtain ⟨a, b, rfl, _, h⟩ := (mem_lineK_iff hA hB hs ht).mp hq
  exact mk_qubit hA hB tr h

/-- the wrapped running coordinates of a line are pairwise distinct -/
theorem W_run_inj {L : Nat} (hL : 1 ≤ L) {s : Int} (hs : s = 0 ∨ s = 4) {i j : Nat} (hi : i < L)
    (hj : j < L) {c c' : Int} (hc : c = 3 ∨ c = 5) (hc' : c' = 3 ∨ c' = 5)
    (h : W L (8 * (i : Int) + c + s) = W L (8 * (j : Int) + c' + s)) : i = j ∧ c = c' := by
  have r1 := W_range hL (8 * (i : Int) + c + s)
  have r2 := W_range hL (8 * (j : Int) + c' + s)
  have hcc : c = c' := by omega
  subst hcc
  rcases W_cases (L := L) (v := 8 * (i : Int) + c + s) (by omega) (by omega) with ⟨_, e1⟩ | ⟨_, e1⟩ <;>
  rcases W_cases (L := L) (v := 8 * (j : Int) + c + s) (by omega) (by omega) with ⟨_, e2⟩ | ⟨_, e2⟩ <;>
  exact ⟨by omega, rfl⟩

theorem nodup_lineK (hB : 1 ≤ Lb) (tr : Bool) {s : Int} (hs : s = 0 ∨ s = 4) (t : Nat) :
    (lineK La Lb tr s t).Nodup := by
  unfold lineK
  apply Color666PlanarCode.nodup_blocks
  · intro i
    simp only [List.nodup_cons, List.mem_cons, List.not_mem_nil, or_false, not_false_eq_true,
      List.nodup_nil, and_true]
    intro e
    have r1 := W_range hB (8 * (i : Int) + 3 + s)
    have r2 := W_range hB (8 * (i : Int) + 5 + s)
    have := (mk_inj e).2
    omega
  · intro i j hi hj hij q hq hr
    simp only [List.mem_cons, List.not_mem_nil, or_false] at hq hr
    rcases hq with rfl | rfl <;> rcases hr with e | e
    · exact hij (W_run_inj hB hs hi hj (Or.inl rfl) (Or.inl rfl) (mk_inj e).2).1
    · have := (W_run_inj hB hs hi hj (Or.inl rfl) (Or.inr rfl) (mk_inj e).2).2; omega
    · have := (W_run_inj hB hs hi hj (Or.inr rfl) (Or.inl rfl) (mk_inj e).2).2; omega
    · exact hij (W_run_inj hB hs hi hj (Or.inr rfl) (Or.inr rfl) (mk_inj e).2).1

/-- different lines of a family have different (wrapped) coordinates -/
theorem W_xc_inj {s : Int} (hs : s = 0 ∨ s = 4) {t t' : Nat} (ht : t < 2 * La)
    (ht' : t' < 2 * La) (h : W La (xc s t) = W La (xc s t')) : t = t' := by
  have h1 := xc_range hs ht
  have h2 := xc_range hs ht'
  have d1 : xc s t = 8 * ((t / 2 : Nat) : Int) + (if t % 2 = 0 then 3 else 5) + s := rfl
  have d2 : xc s t' = 8 * ((t' / 2 : Nat) : Int) + (if t' % 2 = 0 then 3 else 5) + s := rfl
  rcases W_cases (L := La) (v := xc s t) (by omega) (by omega) with ⟨_, e1⟩ | ⟨_, e1⟩ <;>
  rcases W_cases (L := La) (v := xc s t') (by omega) (by omega) with ⟨_, e2⟩ | ⟨_, e2⟩ <;>
  (rw [e1, e2] at h
   generalize xc s t = X at *
   generalize xc s t' = X' at *
   by_cases p1 : t % 2 = 0 <;> by_cases p2 : t' % 2 = 0 <;>
     simp only [p1, p2, if_true, if_false] at d1 d2 <;> omega)

/-- the side conditions of `Lattice.packing_bound` for the `2·La` lines of a family -/
theorem repsLines (hA : 1 ≤ La) (hB : 1 ≤ Lb) (tr : Bool) {s : Int} (hs : s = 0 ∨ s = 4) (P : Pauli) :
    ((List.range (2 * La)).map fun t => (lineK La Lb tr s t).map (fun q => (q, P))).length = 2 * La ∧
    (∀ r ∈ (List.range (2 * La)).map fun t => (lineK La Lb tr s t).map (fun q => (q, P)),
      KeysNodup r ∧ opSupported (qubits (sx tr La Lb) (sy tr La Lb)) r = true) ∧
    ((List.range (2 * La)).map fun t => (lineK La Lb tr s t).map (fun q => (q, P))).Pairwise
      KeysDisjoint :=
  lineRepsB _ _ _ P (fun t _ => nodup_lineK hB tr hs t) (fun t ht => lineK_qubits hA hB hs ht)
    (fun t t' htt ht' q hq hq' => by
      obtain ⟨a, b, rfl, ha, _⟩ := (mem_lineK_iff hA hB hs (by omega : t < 2 * La)).mp hq
      obtain ⟨a', b', e, ha', _⟩ := (mem_lineK_iff hA hB hs ht').mp hq'
      have := (mk_inj e).1
      have := W_xc_inj hs (by omega : t < 2 * La) ht' (by rw [← ha, ← ha', this])
      omega)

/-! ### the listed lines are members of the families -/

theorem xc_zero (s : Int) : xc s 0 = 3 + s := by unfold xc; simp
theorem xc_one (s : Int) : xc s 1 = 5 + s := by unfold xc; simp
theorem xc_last {L : Nat} (hL : 1 ≤ L) (s : Int) : xc s (2 * L - 1) = 8 * (L : Int) - 3 + s := by
  unfold xc
  rw [if_neg (by omega)]
  omega

section listed
variable {Lx Ly : Nat}

theorem k3_perm (hx : 1 ≤ Lx) (hy : 1 ≤ Ly) : (k3 Lx Ly).Perm (lineK Lx Ly false 0 0) := by
  rw [List.perm_ext_iff_of_nodup (nodup_k3 Lx Ly) (nodup_lineK hy false (Or.inl rfl) 0)]
  intro q
  rw [mem_lineK_iff hx hy (Or.inl rfl) (by omega), xc_zero, W_small (by omega) (by omega)]
  constructor
  · intro h
    obtain ⟨a, b, rfl, _⟩ := line_shape hx hy (mem_k3 hx hy) h
    obtain ⟨rfl, hq⟩ := (mem_k3' hx hy).mp h
    exact ⟨3, b, rfl, rfl, hq⟩
  · rintro ⟨a, b, rfl, rfl, hq⟩
    exact (mem_k3' hx hy).mpr ⟨rfl, hq⟩

theorem k7_perm (hx : 1 ≤ Lx) (hy : 1 ≤ Ly) : (k7 Lx Ly).Perm (lineK Lx Ly false 4 0) := by
  rw [List.perm_ext_iff_of_nodup (nodup_k7 Lx Ly) (nodup_lineK hy false (Or.inr rfl) 0)]
  intro q
  rw [mem_lineK_iff hx hy (Or.inr rfl) (by omega), xc_zero, W_small (by omega) (by omega)]
  constructor
  · intro h
    obtain ⟨a, b, rfl, _⟩ := line_shape hx hy (mem_k7 hx hy) h
    obtain ⟨rfl, hq⟩ := (mem_k7' hx hy).mp h
    exact ⟨7, b, rfl, rfl, hq⟩
  · rintro ⟨a, b, rfl, rfl, hq⟩
    exact (mem_k7' hx hy).mpr ⟨rfl, hq⟩

theorem r5_perm (hx : 1 ≤ Lx) (hy : 1 ≤ Ly) : (r5 Lx Ly).Perm (lineK Ly Lx true 0 1) := by
  rw [List.perm_ext_iff_of_nodup (nodup_r5 Lx Ly) (nodup_lineK hx true (Or.inl rfl) 1)]
  intro q
  rw [mem_lineK_iff hy hx (Or.inl rfl) (by omega), xc_one, W_small (by omega) (by omega)]
  constructor
  · intro h
    obtain ⟨a, b, rfl, _⟩ := line_shape hx hy (mem_r5 hx hy) h
    obtain ⟨rfl, hq⟩ := (mem_r5' hx hy).mp h
    exact ⟨5, a, rfl, rfl, isQ_symm hq⟩
  · rintro ⟨a, b, rfl, rfl, hq⟩
    exact (mem_r5' hx hy).mpr ⟨rfl, isQ_symm hq⟩

theorem r1_perm (hx : 1 ≤ Lx) (hy : 1 ≤ Ly) :
    (r1 Lx Ly).Perm (lineK Ly Lx true 4 (2 * Ly - 1)) := by
  rw [List.perm_ext_iff_of_nodup (nodup_r1 Lx Ly) (nodup_lineK hx true (Or.inr rfl) (2 * Ly - 1))]
  intro q
  have hW : W Ly (8 * (Ly : Int) - 3 + 4) = 1 := by
    rcases W_cases (L := Ly) (v := 8 * (Ly : Int) - 3 + 4) (by omega) (by omega) with ⟨h1, _⟩ | ⟨_, h2⟩
    · omega
    · rw [h2]; omega
  rw [mem_lineK_iff hy hx (Or.inr rfl) (by omega), xc_last hy, hW]
  constructor
  · intro h
    obtain ⟨a, b, rfl, _⟩ := line_shape hx hy (mem_r1 hx hy) h
    obtain ⟨rfl, hq⟩ := (mem_r1' hx hy).mp h
    exact ⟨1, a, rfl, rfl, isQ_symm hq⟩
  · rintro ⟨a, b, rfl, rfl, hq⟩
    exact (mem_r1' hx hy).mpr ⟨rfl, isQ_symm hq⟩

end listed

/-! ### the packing bound -/

/-- the parity of `b` with a member `t0` of a family is the parity with every member -/
theorem line_parity' (tr : Bool) (hA : 1 ≤ La) (hB : 1 ≤ Lb) {b : Op}
    (hb : CommStabs (sx tr La Lb) (sy tr La Lb) b) {p : Int}
    (hp : p = 0 ∨ p = 1) {s : Int} (hs : s = 0 ∨ s = 4) {t0 : Nat} (ht0 : t0 < 2 * La) (t : Nat)
    (ht : t < 2 * La) :
    (lineK La Lb tr s t).countP (opHit (letter p) b) % 2 =
      (lineK La Lb tr s t0).countP (opHit (letter p) b) % 2 := by
  rw [countP_lineK, countP_lineK, line_parity tr hA hB hb hp hs t ht,
    line_parity tr hA hB hb hp hs t0 ht0]

/-- one listed logical: `2·La` disjoint representatives -/
theorem reps_of (hA : 1 ≤ La) (hB : 1 ≤ Lb) (tr : Bool) {s : Int} (hs : s = 0 ∨ s = 4) {p : Int}
    (hp : p = 0 ∨ p = 1) {K : List Coord} {t0 : Nat} (ht0 : t0 < 2 * La)
    (hK : K.Perm (lineK La Lb tr s t0)) :
    ∃ reps : List Op, 2 * La ≤ reps.length ∧
      (∀ r ∈ reps, KeysNodup r ∧ opSupported (qubits (sx tr La Lb) (sy tr La Lb)) r = true) ∧
      reps.Pairwise KeysDisjoint ∧
      ∀ b : Op, KeysNodup b → opSupported (qubits (sx tr La Lb) (sy tr La Lb)) b = true →
        CommStabs (sx tr La Lb) (sy tr La Lb) b →
        ∀ r ∈ reps, opAntiCount r b % 2 = opAntiCount (K.map (fun q => (q, letter p))) b % 2 := by
  obtain ⟨h1, h2, h3⟩ := repsLines hA hB tr hs (letter p)
  refine ⟨_, by rw [h1], h2, h3, ?_⟩
  intro b _ _ hb r hr
  obtain ⟨t, ht, rfl⟩ := List.mem_map.mp hr
  rw [opAntiCount_line, opAntiCount_line, hK.countP_eq]
  exact line_parity' tr hA hB hb hp hs ht0 t (List.mem_range.mp ht)

/-- the same with the common bound `min (2Lx) (2Ly)`, columns (`tr = false`) -/
theorem reps_col {Lx Ly : Nat} (hx : 1 ≤ Lx) (hy : 1 ≤ Ly) {s : Int} (hs : s = 0 ∨ s = 4) {p : Int}
    (hp : p = 0 ∨ p = 1) {K : List Coord} {t0 : Nat} (ht0 : t0 < 2 * Lx)
    (hK : K.Perm (lineK Lx Ly false s t0)) :
    ∃ reps : List Op, min (2 * Lx) (2 * Ly) ≤ reps.length ∧
      (∀ r ∈ reps, KeysNodup r ∧ opSupported (qubits Lx Ly) r = true) ∧
      reps.Pairwise KeysDisjoint ∧
      ∀ b : Op, KeysNodup b → opSupported (qubits Lx Ly) b = true → CommStabs Lx Ly b →
        ∀ r ∈ reps, opAntiCount r b % 2 = opAntiCount (K.map (fun q => (q, letter p))) b % 2 := by
  obtain ⟨reps, h1, h2⟩ := reps_of hx hy false hs hp ht0 hK
  exact ⟨reps, by omega, h2⟩

/-- the same, rows (`tr = true`: `2Ly` translates of a row) -/
theorem reps_row {Lx Ly : Nat} (hx : 1 ≤ Lx) (hy : 1 ≤ Ly) {s : Int} (hs : s = 0 ∨ s = 4) {p : Int}
    (hp : p = 0 ∨ p = 1) {K : List Coord} {t0 : Nat} (ht0 : t0 < 2 * Ly)
    (hK : K.Perm (lineK Ly Lx true s t0)) :
    ∃ reps : List Op, min (2 * Lx) (2 * Ly) ≤ reps.length ∧
      (∀ r ∈ reps, KeysNodup r ∧ opSupported (qubits Lx Ly) r = true) ∧
      reps.Pairwise KeysDisjoint ∧
      ∀ b : Op, KeysNodup b → opSupported (qubits Lx Ly) b = true → CommStabs Lx Ly b →
        ∀ r ∈ reps, opAntiCount r b % 2 = opAntiCount (K.map (fun q => (q, letter p))) b % 2 := by
  obtain ⟨reps, h1, h2⟩ := reps_of hy hx true hs hp ht0 hK
  exact ⟨reps, by omega, h2⟩

section bound
variable {Lx Ly : Nat}

/-- every non-trivial logical operator of the `Lx × Ly` 4.8.8 colour code has weight
    `≥ min (2Lx) (2Ly)`: it anticommutes with a listed column (which has `2Lx` disjoint translates)
    or with a listed row (`2Ly` disjoint translates) -/
theorem lower_bound (hx : 1 ≤ Lx) (hy : 1 ≤ Ly) (hwf : (lattice Lx Ly).WF) {n k : Nat}
    (hn : (qubits Lx Ly).length = n)
    (hv : ValidCodeL n k (lattice Lx Ly).rowsH (lattice Lx Ly).rowsX (lattice Lx Ly).rowsZ) :
    ∀ v, IsNontrivialLogical n (lattice Lx Ly).rowsH v → min (2 * Lx) (2 * Ly) ≤ pauliWeight v := by
  apply Lattice.packing_bound (lattice Lx Ly) hwf hn hv
  intro a ha
  change a ∈ logX Lx Ly ++ logZ Lx Ly at ha
  change ∃ reps : List Op, _ ∧ (∀ r ∈ reps, KeysNodup r ∧ opSupported (qubits Lx Ly) r = true) ∧
    _ ∧ ∀ b : Op, _ → _ → CommStabs Lx Ly b → _
  rw [logX_eq, logZ_eq] at ha
  simp only [List.cons_append, List.nil_append, List.mem_cons, List.not_mem_nil, or_false] at ha
  have p0 : (0 : Int) = 0 ∨ (0 : Int) = 1 := Or.inl rfl
  have p1 : (1 : Int) = 0 ∨ (1 : Int) = 1 := Or.inr rfl
  rcases ha with rfl | rfl | rfl | rfl | rfl | rfl | rfl | rfl
  · exact reps_col hx hy (Or.inl rfl) p0 (by omega) (k3_perm hx hy)
  · exact reps_col hx hy (Or.inr rfl) p0 (by omega) (k7_perm hx hy)
  · exact reps_row hx hy (Or.inl rfl) p0 (by omega) (r5_perm hx hy)
  · exact reps_row hx hy (Or.inr rfl) p0 (by omega) (r1_perm hx hy)
  · exact reps_row hx hy (Or.inl rfl) p1 (by omega) (r5_perm hx hy)
  · exact reps_row hx hy (Or.inr rfl) p1 (by omega) (r1_perm hx hy)
  · exact reps_col hx hy (Or.inl rfl) p1 (by omega) (k3_perm hx hy)
  · exact reps_col hx hy (Or.inr rfl) p1 (by omega) (k7_perm hx hy)

/-! ### weights of the listed logicals, reported distance -/

theorem weight_listed (hwf : (lattice Lx Ly).WF) {a : Op}
    (ha : a ∈ (lattice Lx Ly).logX ++ (lattice Lx Ly).logZ) :
    pauliWeight (opRow (lattice Lx Ly).qubits a) = a.length :=
  pauliWeight_opRow _ hwf.qubits_nodup a (hwf.log_keys a ha) (hwf.log_supported a ha)

/-- the rows of `logicals_x` have weights `2Ly, 2Ly, 2Lx, 2Lx` (two columns, two rows of qubits),
    those of `logicals_z` weights `2Lx, 2Lx, 2Ly, 2Ly` -/
theorem weights_listed (hx : 1 ≤ Lx) (hy : 1 ≤ Ly) (hwf : (lattice Lx Ly).WF) :
    (lattice Lx Ly).rowsX.map pauliWeight = [2 * Ly, 2 * Ly, 2 * Lx, 2 * Lx] ∧
    (lattice Lx Ly).rowsZ.map pauliWeight = [2 * Lx, 2 * Lx, 2 * Ly, 2 * Ly] := by
  have hw := fun a ha => weight_listed hwf (a := a) ha
  change ∀ a, a ∈ logX Lx Ly ++ logZ Lx Ly → _ at hw
  rw [logX_eq, logZ_eq] at hw
  unfold Lattice.rowsX Lattice.rowsZ
  change (List.map (opRow (lattice Lx Ly).qubits) (logX Lx Ly)).map pauliWeight = _ ∧
    (List.map (opRow (lattice Lx Ly).qubits) (logZ Lx Ly)).map pauliWeight = _
  rw [logX_eq, logZ_eq]
  simp only [List.map_cons, List.map_nil]
  rw [hw _ (by simp), hw _ (by simp), hw _ (by simp), hw _ (by simp), hw _ (by simp),
    hw _ (by simp), hw _ (by simp), hw _ (by simp)]
  simp only [List.length_map, length_k3 hx hy, length_k7 hx hy, length_r5 hx hy, length_r1 hx hy]
  exact ⟨trivial, trivial⟩

/-- `code.d` (minimum weight of the listed logicals) is `min (2Lx) (2Ly)` -/
theorem reported_distance (hx : 1 ≤ Lx) (hy : 1 ≤ Ly) (hwf : (lattice Lx Ly).WF) :
    distance (lattice Lx Ly).rowsX (lattice Lx Ly).rowsZ = some (min (2 * Lx) (2 * Ly)) := by
  obtain ⟨h1, h2⟩ := weights_listed hx hy hwf
  unfold distance
  show (match listMin ((lattice Lx Ly).rowsX.map pauliWeight),
    listMin ((lattice Lx Ly).rowsZ.map pauliWeight) with
    | some a, some b => some (min a b)
    | _, _ => none) = _
  rw [h1, h2]
  simp only [listMin, List.foldl_cons, List.foldl_nil]
  congr 1
  omega

end bound

end Panqec.Color488Code
