/-
Color3DCode, every side `≥ 2`: a cell and a face share an even number of qubits, hence all
generators commute.  The overlap is the finite function `ov` of the residue class of the cell and of
the centred difference of the two locations (`LatColor3DCodeWrap`): 2 × 7³ cases, kernel-checked.
Core Lean only.
-/
import PanqecVerif.Proofs.LatColor3DCodeA

set_option linter.unusedVariables false

namespace Panqec.Color3DCode
open Panqec.Lat2D Panqec.Color

def rng7 : List Int := [-3, -2, -1, 0, 1, 2, 3]

theorem mem_rng7 {c : Int} (h1 : -3 ≤ c) (h2 : c ≤ 3) : c ∈ rng7 := by
  unfold rng7
  simp only [List.mem_cons, List.not_mem_nil, or_false]
  omega

set_option maxRecDepth 100000 in
/-- a cell (residue class `ra ∈ {0, 2}`) and the generator at centred difference `c` (components
    of equal parity: generator locations are all-even or all-odd): even overlap -/
theorem ov_cell_check :
    ([0, 2].all fun ra => rng7.all fun cx => rng7.all fun cy => rng7.all fun cz =>
      !(cx % 2 == cy % 2 && cy % 2 == cz % 2) ||
      ov deltaCell (shape (ra + cx) (ra + cy) (ra + cz)) (cx, cy, cz) % 2 == 0) = true := by
  decide +kernel

theorem ov_cell_even {ra cx cy cz : Int} (hr : ra = 0 ∨ ra = 2) (hx : -3 ≤ cx ∧ cx ≤ 3)
    (hy : -3 ≤ cy ∧ cy ≤ 3) (hz : -3 ≤ cz ∧ cz ≤ 3) (hp : cx % 2 = cy % 2 ∧ cy % 2 = cz % 2) :
    ov deltaCell (shape (ra + cx) (ra + cy) (ra + cz)) (cx, cy, cz) % 2 = 0 := by
  have h := ov_cell_check
  simp only [List.all_eq_true] at h
  have h1 := h ra (by rcases hr with rfl | rfl <;> simp) cx (mem_rng7 hx.1 hx.2) cy
    (mem_rng7 hy.1 hy.2) cz (mem_rng7 hz.1 hz.2)
  simp only [Bool.or_eq_true, Bool.not_eq_true', Bool.and_eq_false_iff, beq_eq_false_iff_ne,
    beq_iff_eq] at h1
  rcases h1 with (h1 | h1) | h1
  · exact absurd hp.1 h1
  · exact absurd hp.2 h1
  · exact h1

/-- generator locations are all-odd (hexagons) or all-even (cells, squares) -/
theorem isS_parity {Lx Ly Lz : Nat} {x y z : Int} (h : IsS Lx Ly Lz x y z) :
    x % 2 = y % 2 ∧ y % 2 = z % 2 := by
  unfold IsS InA InB InC InH at h
  omega

theorem shape_cell {x y z : Int} (h : IsCellLoc x y z) : shape x y z = deltaCell := by
  unfold shape
  unfold IsCellLoc at h
  rw [if_neg h.1, if_pos ⟨h.2.1, h.2.2⟩]

/-- a cell and a face share an even number of qubits -/
theorem cell_face_even {Lx Ly Lz : Nat} (hx : 2 ≤ Lx) (hy : 2 ≤ Ly) (hz : 2 ≤ Lz)
    {ax ay az bx by' bz : Int} (ha : IsCellLoc ax ay az) (hb : ¬ IsCellLoc bx by' bz)
    (hp : bx % 2 = by' % 2 ∧ by' % 2 = bz % 2) :
    interCount (keys Lx Ly Lz ax ay az) (keys Lx Ly Lz bx by' bz) % 2 = 0 := by
  have mx : 8 ≤ 4 * (Lx : Int) := by omega
  have my : 8 ≤ 4 * (Ly : Int) := by omega
  have mz : 8 ≤ 4 * (Lz : Int) := by omega
  unfold keys
  rw [interCount_keys mx my mz _ _ _ _ _ _ _ _ (shape_bd ax ay az) (shape_face_bd hb), shape_cell ha]
  unfold cvec
  rcases cd_range (4 * (Lx : Int)) ax bx mx with rx | rx
  · rcases cd_range (4 * (Ly : Int)) ay by' my with ry | ry
    · rcases cd_range (4 * (Lz : Int)) az bz mz with rz | rz
      · have ex := cd_emod (k := 4) ⟨(Lx : Int), rfl⟩ (by omega : cd (4 * (Lx : Int)) ax bx ≠ 100)
        have ey := cd_emod (k := 4) ⟨(Ly : Int), rfl⟩ (by omega : cd (4 * (Ly : Int)) ay by' ≠ 100)
        have ez := cd_emod (k := 4) ⟨(Lz : Int), rfl⟩ (by omega : cd (4 * (Lz : Int)) az bz ≠ 100)
        generalize cd (4 * (Lx : Int)) ax bx = cx at *
        generalize cd (4 * (Ly : Int)) ay by' = cy at *
        generalize cd (4 * (Lz : Int)) az bz = cz at *
        unfold IsCellLoc at ha
        have hr : ax % 4 = 0 ∨ ax % 4 = 2 := by omega
        have e1 : bx % 4 = (ax % 4 + cx) % 4 := by omega
        have e2 : by' % 4 = (ax % 4 + cy) % 4 := by omega
        have e3 : bz % 4 = (ax % 4 + cz) % 4 := by omega
        rw [shape_congr e1 e2 e3]
        exact ov_cell_even hr rx ry rz (by omega)
      · rw [ov_far _ _ _ deltaCell_bd (shape_face_bd hb) (Or.inr (Or.inr rz))]
    · rw [ov_far _ _ _ deltaCell_bd (shape_face_bd hb) (Or.inr (Or.inl ry))]
  · rw [ov_far _ _ _ deltaCell_bd (shape_face_bd hb) (Or.inl rx)]

/-- all generators commute (every side `≥ 2`) -/
theorem stab_comm_all {Lx Ly Lz : Nat} (hx : 2 ≤ Lx) (hy : 2 ≤ Ly) (hz : 2 ≤ Lz) :
    ∀ s ∈ (lattice Lx Ly Lz).stabs, ∀ t ∈ (lattice Lx Ly Lz).stabs,
      opCommute ((lattice Lx Ly Lz).getStab s) ((lattice Lx Ly Lz).getStab t) = true := by
  intro s hs t ht
  obtain ⟨ax, ay, az, rfl, ha⟩ := mem_stabs.mp hs
  obtain ⟨bx, by', bz, rfl, hb⟩ := mem_stabs.mp ht
  rw [getStab_eq hx hy hz hs, getStab_eq hx hy hz ht]
  apply opCommute_const_of
  intro hanti
  by_cases ca : IsCellLoc ax ay az
  · by_cases cb : IsCellLoc bx by' bz
    · rw [letterOf_cell ca, letterOf_cell cb] at hanti; exact absurd hanti (by decide)
    · exact cell_face_even hx hy hz ca cb (isS_parity hb)
  · by_cases cb : IsCellLoc bx by' bz
    · rw [interCount_comm _ _ (nodup_keysOf hx hy hz _ _ _) (nodup_keysOf hx hy hz _ _ _)]
      exact cell_face_even hx hy hz cb ca (isS_parity ha)
    · rw [letterOf_face ca, letterOf_face cb] at hanti; exact absurd hanti (by decide)

end Panqec.Color3DCode
