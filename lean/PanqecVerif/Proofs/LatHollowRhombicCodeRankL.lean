/-
`HollowRhombicCode`, rank clause, part L: the number of selected triangles of a size with a thick
hole (`Lx ≥ 4`, `Ly, Lz ≥ 5`): the selected triangles together with the boxes next to the hole where
a triangle of axis 3, 2 or an upper triangle of axis 0 is not listed are as many as the boxes of
parts I–K.
-/
import PanqecVerif.Proofs.LatHollowRhombicCodeRankK

set_option linter.unusedVariables false
set_option linter.unusedSimpArgs false

namespace Panqec.HollowRhombicCode
open Panqec.Lat3Db Panqec.Rhombic
open Panqec.Planar3DCode (inE inO inE2 inO1)

theorem or5_and {p A B C D E : Prop} :
    ((p ∧ A) ∨ ((p ∧ B) ∨ ((p ∧ C) ∨ ((p ∧ D) ∨ (p ∧ E))))) ↔ (p ∧ (A ∨ B ∨ C ∨ D ∨ E)) := by
  constructor
  · rintro (⟨h, a⟩ | ⟨h, a⟩ | ⟨h, a⟩ | ⟨h, a⟩ | ⟨h, a⟩)
    · exact ⟨h, Or.inl a⟩
    · exact ⟨h, Or.inr (Or.inl a)⟩
    · exact ⟨h, Or.inr (Or.inr (Or.inl a))⟩
    · exact ⟨h, Or.inr (Or.inr (Or.inr (Or.inl a)))⟩
    · exact ⟨h, Or.inr (Or.inr (Or.inr (Or.inr a)))⟩
  · rintro ⟨h, a | a | a | a | a⟩
    · exact Or.inl ⟨h, a⟩
    · exact Or.inr (Or.inl ⟨h, a⟩)
    · exact Or.inr (Or.inr (Or.inl ⟨h, a⟩))
    · exact Or.inr (Or.inr (Or.inr (Or.inl ⟨h, a⟩)))
    · exact Or.inr (Or.inr (Or.inr (Or.inr ⟨h, a⟩)))

theorem or4_and {p A B C D : Prop} :
    ((p ∧ A) ∨ ((p ∧ B) ∨ ((p ∧ C) ∨ (p ∧ D)))) ↔ (p ∧ (A ∨ B ∨ C ∨ D)) := by
  constructor
  · rintro (⟨h, a⟩ | ⟨h, a⟩ | ⟨h, a⟩ | ⟨h, a⟩)
    · exact ⟨h, Or.inl a⟩
    · exact ⟨h, Or.inr (Or.inl a)⟩
    · exact ⟨h, Or.inr (Or.inr (Or.inl a))⟩
    · exact ⟨h, Or.inr (Or.inr (Or.inr a))⟩
  · rintro ⟨h, a | a | a | a⟩
    · exact Or.inl ⟨h, a⟩
    · exact Or.inr (Or.inl ⟨h, a⟩)
    · exact Or.inr (Or.inr (Or.inl ⟨h, a⟩))
    · exact Or.inr (Or.inr (Or.inr ⟨h, a⟩))

/-- the kept lower triangles along the hole edge `x = y = 3`, as a list -/
def qlist (Lx Ly Lz : Nat) : List Coord :=
  (List.range (qn Lx Ly Lz)).map fun (i : Nat) => [0, 2, 2, 8 + 4 * (i : Int)]

theorem spec_qlist (Lx Ly Lz : Nat) :
    Spec (qlist Lx Ly Lz) (fun a x y z => a = 0 ∧ QR Lx Ly Lz x y z) where
  nodup := by
    unfold qlist
    refine List.Nodup.map ?_ List.nodup_range
    intro i j h
    simp only [List.cons.injEq, and_true, true_and] at h
    omega
  mem := by
    intro s
    unfold qlist QR
    simp only [List.mem_map, List.mem_range]
    constructor
    · rintro ⟨i, hi, rfl⟩
      exact ⟨0, 2, 2, 8 + 4 * (i : Int), rfl, rfl, rfl, rfl, by omega, by omega, by omega⟩
    · rintro ⟨a, x, y, z, rfl, rfl, rfl, rfl, h1, h2, h3⟩
      exact ⟨((z - 8) / 4).toNat, by omega, by
        have : (8 : Int) + 4 * (((z - 8) / 4).toNat : Int) = z := by omega
        rw [this]⟩

theorem length_qlist (Lx Ly Lz : Nat) : (qlist Lx Ly Lz).length = qn Lx Ly Lz := by simp [qlist]

section
variable (Lx Ly Lz : Nat)

/-- the boxes next to the hole where the triangle of axis 3 is not listed -/
def L3 : List Coord :=
  bx 3 4 (Lx - 3) 4 (Ly - 4) 4 (Lz - 4) tt ++ (bx 3 (2 * Lx - 2) 1 4 (Ly - 4) 4 (Lz - 4) tt ++
  (bx 3 4 (Lx - 3) 2 1 4 (Lz - 4) tt ++ (bx 3 4 (Lx - 3) 4 (Ly - 4) 2 1 (chk 2) ++
  bx 3 4 (Lx - 3) 4 (Ly - 4) (2 * Lz - 4) 1 (chk 0))))

/-- the boxes next to the hole where the triangle of axis 2 is not listed -/
def L2 : List Coord :=
  bx 2 4 (Lx - 3) 4 (Ly - 4) 4 (Lz - 4) tt ++ (bx 2 2 1 4 (Ly - 4) 4 (Lz - 4) tt ++
  (bx 2 4 (Lx - 3) (2 * Ly - 4) 1 4 (Lz - 4) tt ++ (bx 2 4 (Lx - 3) 4 (Ly - 4) 2 1 (chk 2) ++
  bx 2 4 (Lx - 3) 4 (Ly - 4) (2 * Lz - 4) 1 (chk 0))))

/-- the boxes of the selected triangles of axis 1 -/
def L1 : List Coord :=
  bx 1 2 (Lx - 1) (2 * Ly - 2) 1 0 Lz tt ++ (bx 1 4 (Lx - 3) 2 1 4 (Lz - 4) tt ++
  (bx 1 2 1 4 (Ly - 4) 4 (Lz - 4) tt ++ (bx 1 4 (Lx - 3) 4 (Ly - 4) 2 1 (chk 2) ++
  bx 1 4 (Lx - 3) 4 (Ly - 4) (2 * Lz - 4) 1 (chk 0))))

/-- the boxes next to the hole where the upper triangle of axis 0 is not listed -/
def L0 : List Coord :=
  bx 0 4 (Lx - 3) 4 (Ly - 4) 4 (Lz - 4) (chk 2) ++ (bx 0 2 1 4 (Ly - 4) 4 (Lz - 4) (chk 2) ++
  (bx 0 4 (Lx - 3) 2 1 4 (Lz - 4) (chk 2) ++ bx 0 4 (Lx - 3) 4 (Ly - 4) (2 * Lz - 4) 1 (chk 2)))

/-- the boxes of the triangles of axis 0 -/
def LB0 : List Coord :=
  bx 0 (2 * Lx - 2) 1 0 (Ly - 1) 0 Lz tt ++ (bx 0 2 (Lx - 2) 0 (Ly - 1) 2 (Lz - 1) (chk 2) ++
  (bx 0 2 1 4 (Ly - 4) 2 1 (chk 0) ++ (bx 0 4 (Lx - 3) 2 1 2 1 (chk 0) ++ qlist Lx Ly Lz)))

end

section
variable {Lx Ly Lz : Nat}

theorem spec_L3 (hx : 3 ≤ Lx) (hy : 4 ≤ Ly) (hz : 4 ≤ Lz) :
    Spec (L3 Lx Ly Lz) (fun a x y z => a = 3 ∧ P3 Lx Ly Lz x y z) := by
  unfold L3
  have h := (spec_bx 3 4 (Lx - 3) 4 (Ly - 4) 4 (Lz - 4) tt).append
    ((spec_bx 3 (2 * Lx - 2) 1 4 (Ly - 4) 4 (Lz - 4) tt).append
    ((spec_bx 3 4 (Lx - 3) 2 1 4 (Lz - 4) tt).append
    ((spec_bx 3 4 (Lx - 3) 4 (Ly - 4) 2 1 (chk 2)).append
    (spec_bx 3 4 (Lx - 3) 4 (Ly - 4) (2 * Lz - 4) 1 (chk 0))
    (by intro a x y z h1 h2; simp only [chk_iff, tt_iff] at h1 h2; unfold InAp at h1 h2; omega))
    (by intro a x y z h1 h2; simp only [chk_iff, tt_iff] at h1 h2; unfold InAp at h1 h2; omega))
    (by intro a x y z h1 h2; simp only [chk_iff, tt_iff] at h1 h2; unfold InAp at h1 h2; omega))
    (by intro a x y z h1 h2; simp only [chk_iff, tt_iff] at h1 h2; unfold InAp at h1 h2; omega)
  refine h.congr ?_
  intro a x y z
  unfold P3
  simp only [chk_iff, tt_iff, and_true]
  exact or5_and

theorem spec_L2 (hx : 3 ≤ Lx) (hy : 4 ≤ Ly) (hz : 4 ≤ Lz) :
    Spec (L2 Lx Ly Lz) (fun a x y z => a = 2 ∧ P2 Lx Ly Lz x y z) := by
  unfold L2
  have h := (spec_bx 2 4 (Lx - 3) 4 (Ly - 4) 4 (Lz - 4) tt).append
    ((spec_bx 2 2 1 4 (Ly - 4) 4 (Lz - 4) tt).append
    ((spec_bx 2 4 (Lx - 3) (2 * Ly - 4) 1 4 (Lz - 4) tt).append
    ((spec_bx 2 4 (Lx - 3) 4 (Ly - 4) 2 1 (chk 2)).append
    (spec_bx 2 4 (Lx - 3) 4 (Ly - 4) (2 * Lz - 4) 1 (chk 0))
    (by intro a x y z h1 h2; simp only [chk_iff, tt_iff] at h1 h2; unfold InAp at h1 h2; omega))
    (by intro a x y z h1 h2; simp only [chk_iff, tt_iff] at h1 h2; unfold InAp at h1 h2; omega))
    (by intro a x y z h1 h2; simp only [chk_iff, tt_iff] at h1 h2; unfold InAp at h1 h2; omega))
    (by intro a x y z h1 h2; simp only [chk_iff, tt_iff] at h1 h2; unfold InAp at h1 h2; omega)
  refine h.congr ?_
  intro a x y z
  unfold P2
  simp only [chk_iff, tt_iff, and_true]
  exact or5_and

theorem spec_L1 (hx : 3 ≤ Lx) (hy : 4 ≤ Ly) (hz : 4 ≤ Lz) :
    Spec (L1 Lx Ly Lz) (fun a x y z => a = 1 ∧ P1 Lx Ly Lz x y z) := by
  unfold L1
  have h := (spec_bx 1 2 (Lx - 1) (2 * Ly - 2) 1 0 Lz tt).append
    ((spec_bx 1 4 (Lx - 3) 2 1 4 (Lz - 4) tt).append
    ((spec_bx 1 2 1 4 (Ly - 4) 4 (Lz - 4) tt).append
    ((spec_bx 1 4 (Lx - 3) 4 (Ly - 4) 2 1 (chk 2)).append
    (spec_bx 1 4 (Lx - 3) 4 (Ly - 4) (2 * Lz - 4) 1 (chk 0))
    (by intro a x y z h1 h2; simp only [chk_iff, tt_iff] at h1 h2; unfold InAp at h1 h2; omega))
    (by intro a x y z h1 h2; simp only [chk_iff, tt_iff] at h1 h2; unfold InAp at h1 h2; omega))
    (by intro a x y z h1 h2; simp only [chk_iff, tt_iff] at h1 h2; unfold InAp at h1 h2; omega))
    (by intro a x y z h1 h2; simp only [chk_iff, tt_iff] at h1 h2; unfold InAp at h1 h2; omega)
  refine h.congr ?_
  intro a x y z
  unfold P1
  simp only [chk_iff, tt_iff, and_true]
  exact or5_and

theorem spec_L0 (hx : 3 ≤ Lx) (hy : 4 ≤ Ly) (hz : 4 ≤ Lz) :
    Spec (L0 Lx Ly Lz) (fun a x y z => a = 0 ∧ P0 Lx Ly Lz x y z) := by
  unfold L0
  have h := (spec_bx 0 4 (Lx - 3) 4 (Ly - 4) 4 (Lz - 4) (chk 2)).append
    ((spec_bx 0 2 1 4 (Ly - 4) 4 (Lz - 4) (chk 2)).append
    ((spec_bx 0 4 (Lx - 3) 2 1 4 (Lz - 4) (chk 2)).append
    (spec_bx 0 4 (Lx - 3) 4 (Ly - 4) (2 * Lz - 4) 1 (chk 2))
    (by intro a x y z h1 h2; simp only [chk_iff, tt_iff] at h1 h2; unfold InAp at h1 h2; omega))
    (by intro a x y z h1 h2; simp only [chk_iff, tt_iff] at h1 h2; unfold InAp at h1 h2; omega))
    (by intro a x y z h1 h2; simp only [chk_iff, tt_iff] at h1 h2; unfold InAp at h1 h2; omega)
  refine h.congr ?_
  intro a x y z
  unfold P0
  simp only [chk_iff, tt_iff, and_true]
  exact or4_and

theorem spec_LB0 (hx : 3 ≤ Lx) (hy : 4 ≤ Ly) (hz : 5 ≤ Lz) :
    Spec (LB0 Lx Ly Lz) (fun a x y z => a = 0 ∧ B0 Lx Ly Lz x y z) := by
  unfold LB0
  have h := (spec_bx 0 (2 * Lx - 2) 1 0 (Ly - 1) 0 Lz tt).append
    ((spec_bx 0 2 (Lx - 2) 0 (Ly - 1) 2 (Lz - 1) (chk 2)).append
    ((spec_bx 0 2 1 4 (Ly - 4) 2 1 (chk 0)).append
    ((spec_bx 0 4 (Lx - 3) 2 1 2 1 (chk 0)).append (spec_qlist Lx Ly Lz)
    (by intro a x y z h1 h2; simp only [chk_iff, tt_iff] at h1 h2; unfold InAp at h1
        unfold QR at h2; omega))
    (by intro a x y z h1 h2; simp only [chk_iff, tt_iff] at h1 h2; unfold InAp at h1 h2
        unfold QR at h2; omega))
    (by intro a x y z h1 h2; simp only [chk_iff, tt_iff] at h1 h2; unfold InAp at h1 h2
        unfold QR at h2; omega))
    (by intro a x y z h1 h2; simp only [chk_iff, tt_iff] at h1 h2; unfold InAp at h1 h2
        unfold QR at h2; omega)
  refine h.congr ?_
  intro a x y z
  unfold B0
  simp only [chk_iff, tt_iff, and_true]
  exact or5_and

/-- selected triangles and not-listed boxes against the boxes -/
theorem selTriangles_partition (hx : 3 ≤ Lx) (hy : 4 ≤ Ly) (hz : 5 ≤ Lz) :
    ((triangles Lx Ly Lz).filter (selTri Lx Ly Lz)).length +
      ((L3 Lx Ly Lz).length + ((L2 Lx Ly Lz).length + (L0 Lx Ly Lz).length)) =
    (bx 3 2 (Lx - 1) 0 (Ly - 1) 0 Lz tt).length + ((bx 2 2 (Lx - 1) 2 (Ly - 1) 0 Lz tt).length +
      ((L1 Lx Ly Lz).length + (LB0 Lx Ly Lz).length)) := by
  have hA := (spec_selTriangles Lx Ly Lz).append
    ((spec_L3 hx hy (Nat.le_of_succ_le hz)).append ((spec_L2 hx hy (Nat.le_of_succ_le hz)).append (spec_L0 hx hy (Nat.le_of_succ_le hz))
      (by intro a x y z h1 h2; omega))
      (by intro a x y z h1 h2; omega))
    (by
      intro a x y z h1 h2
      rcases h2 with ⟨rfl, h2⟩ | ⟨rfl, h2⟩ | ⟨rfl, h2⟩
      · exact ax3_disj hx hy (Nat.le_of_succ_le hz) x y z h1 h2
      · exact ax2_disj hx hy (Nat.le_of_succ_le hz) x y z h1 h2
      · exact ax0_disj hx hy (Nat.le_of_succ_le hz) x y z h1 h2)
  have hB := (spec_bx 3 2 (Lx - 1) 0 (Ly - 1) 0 Lz tt).append
    ((spec_bx 2 2 (Lx - 1) 2 (Ly - 1) 0 Lz tt).append
      ((spec_L1 hx hy (Nat.le_of_succ_le hz)).append (spec_LB0 hx hy hz) (by intro a x y z h1 h2; omega))
      (by intro a x y z h1 h2; omega))
    (by intro a x y z h1 h2; omega)
  have h := hA.length_eq hB (by
    intro a x y z
    simp only [tt_iff, and_true]
    constructor
    · rintro (h | ⟨rfl, h⟩ | ⟨rfl, h⟩ | ⟨rfl, h⟩)
      · have ha := h.1
        have h4 : a = 0 ∨ a = 1 ∨ a = 2 ∨ a = 3 := by omega
        rcases h4 with rfl | rfl | rfl | rfl
        · exact Or.inr (Or.inr (Or.inr ⟨rfl, (ax0 hx hy hz x y z).mp (Or.inl h)⟩))
        · exact Or.inr (Or.inr (Or.inl ⟨rfl, (ax1 hx hy (Nat.le_of_succ_le hz) x y z).mp h⟩))
        · exact Or.inr (Or.inl ⟨rfl, (ax2 hx hy (Nat.le_of_succ_le hz) x y z).mp (Or.inl h)⟩)
        · exact Or.inl ⟨rfl, (ax3 hx hy (Nat.le_of_succ_le hz) x y z).mp (Or.inl h)⟩
      · exact Or.inl ⟨rfl, (ax3 hx hy (Nat.le_of_succ_le hz) x y z).mp (Or.inr h)⟩
      · exact Or.inr (Or.inl ⟨rfl, (ax2 hx hy (Nat.le_of_succ_le hz) x y z).mp (Or.inr h)⟩)
      · exact Or.inr (Or.inr (Or.inr ⟨rfl, (ax0 hx hy hz x y z).mp (Or.inr h)⟩))
    · rintro (⟨rfl, h⟩ | ⟨rfl, h⟩ | ⟨rfl, h⟩ | ⟨rfl, h⟩)
      · rcases (ax3 hx hy (Nat.le_of_succ_le hz) x y z).mpr h with h | h
        · exact Or.inl h
        · exact Or.inr (Or.inl ⟨rfl, h⟩)
      · rcases (ax2 hx hy (Nat.le_of_succ_le hz) x y z).mpr h with h | h
        · exact Or.inl h
        · exact Or.inr (Or.inr (Or.inl ⟨rfl, h⟩))
      · exact Or.inl ((ax1 hx hy (Nat.le_of_succ_le hz) x y z).mpr h)
      · rcases (ax0 hx hy hz x y z).mpr h with h | h
        · exact Or.inl h
        · exact Or.inr (Or.inr (Or.inr ⟨rfl, h⟩)))
  simpa only [List.length_append] using h

end

end Panqec.HollowRhombicCode
