/-
`find_connected_components` on the `connected_planes` dict: when every element of every
neighbour set is a key of the dict, no look-up fails, and every component is a non-empty list of
keys (whatever order `list(set)` produces).
-/
import PanqecVerif.Proofs.XCubeDecPlane

namespace Panqec.XCube

open Panqec

variable {W α : Type}

/-- the keys of a plane dict -/
def keysOf (pd : PlaneDict α) : List Int := pd.map (·.1)

theorem get?_eq_some_mem {pd : PlaneDict α} {k : Int} {v : α} (h : pd.get? k = some v) : (k, v) ∈ pd := by
  unfold PlaneDict.get? at h
  cases hf : pd.find? (·.1 == k) with
  | none => rw [hf] at h; cases h
  | some e =>
    rw [hf] at h
    simp only [Option.map_some, Option.some.injEq] at h
    have hm := List.mem_of_find?_eq_some hf
    have hk := List.find?_some hf
    simp only [beq_iff_eq] at hk
    rw [← hk, ← h]; exact hm

theorem get?_isSome_of_mem {pd : PlaneDict α} {k : Int} (h : k ∈ keysOf pd) : ∃ v, pd.get? k = some v := by
  unfold keysOf at h
  obtain ⟨e, he, rfl⟩ := List.mem_map.mp h
  unfold PlaneDict.get?
  cases hf : pd.find? (·.1 == e.1) with
  | none =>
    have := List.find?_eq_none.mp hf e he
    simp at this
  | some e' => exact ⟨e'.2, rfl⟩

theorem keysOf_put (pd : PlaneDict α) (k : Int) (v : α) : keysOf (pd.put k v) = keysOf pd := by
  unfold keysOf PlaneDict.put
  rw [List.map_map]
  apply List.map_congr_left
  intro e _
  simp only [Function.comp]
  split
  · rename_i h; simp only [beq_iff_eq] at h; exact h.symm
  · rfl

theorem mem_put {pd : PlaneDict α} {k : Int} {v : α} {e : Int × α} (h : e ∈ pd.put k v) :
    e ∈ pd ∨ e = (k, v) := by
  unfold PlaneDict.put at h
  obtain ⟨e', he', rfl⟩ := List.mem_map.mp h
  split
  · right; rfl
  · left; exact he'

theorem errs_get_key {pd : PlaneDict α} {k : Int} (h : k ∈ keysOf pd) (E : XErr → Prop) :
    Errs (orKeyError [k] (pd.get? k) : Out W α) E := by
  obtain ⟨v, hv⟩ := get?_isSome_of_mem h
  rw [hv]; exact errs_pure

theorem mem_setAdd {l : List Int} {v x : Int} : x ∈ setAdd l v ↔ x ∈ l ∨ x = v := by
  unfold setAdd
  split
  · rename_i h
    constructor
    · exact Or.inl
    · rintro (h1 | rfl)
      · exact h1
      · exact List.contains_iff_mem.mp h
  · simp

theorem mem_foldl_setAdd {new : List Int} : ∀ {rest : List Int} {x : Int},
    x ∈ new.foldl setAdd rest → x ∈ rest ∨ x ∈ new := by
  induction new with
  | nil => intro rest x h; exact Or.inl h
  | cons a new ih =>
    intro rest x h
    simp only [List.foldl_cons] at h
    rcases ih h with h1 | h1
    · rcases mem_setAdd.mp h1 with h2 | rfl
      · exact Or.inl h2
      · exact Or.inr (List.mem_cons_self ..)
    · exact Or.inr (List.mem_cons_of_mem _ h1)

/-- every element of every neighbour set is a key -/
def CpOk (nb : PlaneDict (List Int)) : Prop := ∀ e ∈ nb, ∀ v ∈ e.2, v ∈ keysOf nb

theorem errs_post_component (nb : PlaneDict (List Int)) (hnb : CpOk nb) :
    ∀ (fuel : Nat) (nodes seen inComp : List Int),
      (∀ x ∈ nodes, x ∈ keysOf nb) → (∀ x ∈ inComp, x ∈ keysOf nb) →
      Errs (component nb fuel nodes seen inComp : Out W _) NoKeyError ∧
      Post (component nb fuel nodes seen inComp : Out W _)
        (fun r => (∀ x ∈ r.1, x ∈ keysOf nb) ∧ ∀ x ∈ inComp, x ∈ r.1) := by
  intro fuel
  induction fuel with
  | zero =>
    intro nodes seen inComp hn hc
    cases nodes with
    | nil => unfold component; exact ⟨errs_pure, post_pure ⟨hc, fun x hx => hx⟩⟩
    | cons a rest => unfold component; exact ⟨errs_raise (fun k h => by cases h), post_raise⟩
  | succ fuel ih =>
    intro nodes seen inComp hn hc
    cases nodes with
    | nil => unfold component; exact ⟨errs_pure, post_pure ⟨hc, fun x hx => hx⟩⟩
    | cons node rest =>
      unfold component
      simp only
      have hnode : node ∈ keysOf nb := hn node (List.mem_cons_self ..)
      have step : ∀ ns, nb.get? node = some ns →
          (∀ x ∈ (ns.filter fun v => !(setAdd seen node).contains v).foldl setAdd rest, x ∈ keysOf nb) ∧
          (∀ x ∈ setAdd inComp node, x ∈ keysOf nb) := by
        intro ns hns
        have hmem := get?_eq_some_mem hns
        refine ⟨fun x hx => ?_, fun x hx => ?_⟩
        · rcases mem_foldl_setAdd hx with h | h
          · exact hn x (List.mem_cons_of_mem _ h)
          · exact hnb _ hmem x (List.mem_filter.mp h).1
        · rcases mem_setAdd.mp hx with h | rfl
          · exact hc x h
          · exact hnode
      constructor
      · refine errs_bind (errs_get_key hnode _) fun ns hns => ?_
        obtain ⟨v, hv⟩ := get?_isSome_of_mem hnode
        have hns' : nb.get? node = some ns := by
          rw [hv] at hns ⊢; simp [orKeyError, Out.pure] at hns; rw [hns]
        exact (ih _ _ _ (step ns hns').1 (step ns hns').2).1
      · refine post_bind (Q := fun ns => nb.get? node = some ns) (post_orKeyError fun a ha => ha) fun ns hns => ?_
        refine post_mono (ih _ _ _ (step ns hns).1 (step ns hns).2).2 ?_
        intro r hr
        exact ⟨hr.1, fun x hx => hr.2 x (mem_setAdd.mpr (Or.inl hx))⟩

/-- **`find_connected_components` never raises `KeyError`**, and every component it returns is
    non-empty and consists of keys — for every `list(set)` order that keeps the elements -/
theorem errs_post_connectedComponents (order : List Int → List Int)
    (horder : ∀ l x, x ∈ order l ↔ x ∈ l) (nb : PlaneDict (List Int)) (hnb : CpOk nb) :
    Errs (connectedComponents order nb : Out W _) NoKeyError ∧
    Post (connectedComponents order nb : Out W _)
      (fun comps => ∀ comp ∈ comps, comp ≠ [] ∧ ∀ x ∈ comp, x ∈ keysOf nb) := by
  unfold connectedComponents
  let I : List (List Int) × List Int → Prop :=
    fun st => ∀ comp ∈ st.1, comp ≠ [] ∧ ∀ x ∈ comp, x ∈ keysOf nb
  have hstep : ∀ (st : List (List Int) × List Int) (node : Int), node ∈ nb.map (·.1) → I st →
      Errs (if st.2.contains node then Out.pure st
        else Out.bind (component nb (nb.length + 1) [node] st.2 [node]) fun r =>
          (Out.pure (st.1 ++ [order r.1], r.2) : Out W _)) NoKeyError ∧
      Post (if st.2.contains node then Out.pure st
        else Out.bind (component nb (nb.length + 1) [node] st.2 [node]) fun r =>
          (Out.pure (st.1 ++ [order r.1], r.2) : Out W _)) I := by
    intro st node hnode hI
    have hk : ∀ x ∈ [node], x ∈ keysOf nb := by
      intro x hx; simp only [List.mem_singleton] at hx; subst hx; exact hnode
    obtain ⟨he, hp⟩ := errs_post_component (W := W) nb hnb (nb.length + 1) [node] st.2 [node] hk hk
    split
    · exact ⟨errs_pure, post_pure hI⟩
    · refine ⟨errs_bind he (fun _ _ => errs_pure), post_bind hp fun r hr => post_pure ?_⟩
      intro comp hcomp
      rcases List.mem_append.mp hcomp with h | h
      · exact hI comp h
      · simp only [List.mem_singleton] at h
        subst h
        have hnode_in : node ∈ order r.1 := (horder _ _).mpr (hr.2 node (List.mem_singleton.mpr rfl))
        refine ⟨fun hnil => ?_, fun x hx => hr.1 x ((horder _ _).mp hx)⟩
        rw [hnil] at hnode_in; cases hnode_in
  constructor
  · refine errs_bind ?_ (fun _ _ => errs_pure)
    exact errs_forM' I (fun st a ha hst => hstep st a ha hst) _ (by intro comp h; cases h)
  · refine post_bind (Q := I) ?_ (fun st hst => post_pure hst)
    exact post_forM' I (fun st a ha hst => (hstep st a ha hst).2) _ (by intro comp h; cases h)

end Panqec.XCube
