/-
Straight lines of qubits on a 2-D lattice as key lists (`colKeys`, `rowKeys`), shared by the
all-sizes distance proofs of the 2-D surface codes: membership, distinctness, disjointness of
parallel lines, and the anticommutation count of a line operator as a sum of indicators.
-/
import PanqecVerif.Proofs.DistLadder
import PanqecVerif.Proofs.DistLattice

namespace Panqec.Lat2D

/-- 0/1 indicator: the letter `P` anticommutes with the letter of `b` on `q` -/
def ind (P : Pauli) (b : Op) (q : Coord) : Nat := if opHit P b q = true then 1 else 0

/-! ### key lists of the translates -/

/-- the vertical line at `x = u`, positions `y = 2j + p` -/
def colKeys (u : Int) (p L : Nat) : List Coord :=
  (List.range L).map (fun j => [u, ((2 * j + p : Nat) : Int)])
/-- the horizontal line at `y = u`, positions `x = 2j + p` -/
def rowKeys (u : Int) (p L : Nat) : List Coord :=
  (List.range L).map (fun j => [((2 * j + p : Nat) : Int), u])


theorem mem_colKeys {u : Int} {p L : Nat} {q : Coord} :
    q ∈ colKeys u p L ↔ ∃ j, j < L ∧ q = [u, ((2 * j + p : Nat) : Int)] := by
  unfold colKeys
  simp only [List.mem_map, List.mem_range]
  constructor
  · rintro ⟨j, hj, rfl⟩; exact ⟨j, hj, rfl⟩
  · rintro ⟨j, hj, rfl⟩; exact ⟨j, hj, rfl⟩
theorem mem_rowKeys {u : Int} {p L : Nat} {q : Coord} :
    q ∈ rowKeys u p L ↔ ∃ j, j < L ∧ q = [((2 * j + p : Nat) : Int), u] := by
  unfold rowKeys
  simp only [List.mem_map, List.mem_range]
  constructor
  · rintro ⟨j, hj, rfl⟩; exact ⟨j, hj, rfl⟩
  · rintro ⟨j, hj, rfl⟩; exact ⟨j, hj, rfl⟩

theorem nodup_colKeys (u : Int) (p L : Nat) : (colKeys u p L).Nodup := by
  unfold colKeys
  show List.Pairwise _ _
  rw [List.pairwise_map]
  refine List.Pairwise.imp ?_ List.nodup_range
  intro a b hab h
  simp only [List.cons.injEq, and_true, true_and] at h
  exact hab (by omega)
theorem nodup_rowKeys (u : Int) (p L : Nat) : (rowKeys u p L).Nodup := by
  unfold rowKeys
  show List.Pairwise _ _
  rw [List.pairwise_map]
  refine List.Pairwise.imp ?_ List.nodup_range
  intro a b hab h
  simp only [List.cons.injEq, and_true] at h
  exact hab (by omega)

theorem countP_colKeys (P : Pauli) (b : Op) (u : Int) (p L : Nat) :
    (colKeys u p L).countP (opHit P b) =
      rsum L (fun j => ind P b [u, ((2 * j + p : Nat) : Int)]) :=
  countP_range_map _ _ L
theorem countP_rowKeys (P : Pauli) (b : Op) (u : Int) (p L : Nat) :
    (rowKeys u p L).countP (opHit P b) =
      rsum L (fun j => ind P b [((2 * j + p : Nat) : Int), u]) :=
  countP_range_map _ _ L

theorem length_colKeys (u : Int) (p L : Nat) : (colKeys u p L).length = L := by
  simp [colKeys]
theorem length_rowKeys (u : Int) (p L : Nat) : (rowKeys u p L).length = L := by
  simp [rowKeys]

theorem colKeys_disjoint (p L : Nat) (c : Int) (i i' : Nat) (h : i < i') :
    ∀ q ∈ colKeys (2 * i + c) p L, q ∉ colKeys (2 * i' + c) p L := by
  intro q hq hq'
  obtain ⟨j, _, rfl⟩ := mem_colKeys.mp hq
  obtain ⟨j', _, e⟩ := mem_colKeys.mp hq'
  simp only [List.cons.injEq, and_true] at e
  omega

theorem rowKeys_disjoint (p L : Nat) (c : Int) (i i' : Nat) (h : i < i') :
    ∀ q ∈ rowKeys (2 * i + c) p L, q ∉ rowKeys (2 * i' + c) p L := by
  intro q hq hq'
  obtain ⟨j, _, rfl⟩ := mem_rowKeys.mp hq
  obtain ⟨j', _, e⟩ := mem_rowKeys.mp hq'
  simp only [List.cons.injEq, and_true] at e
  omega

end Panqec.Lat2D
