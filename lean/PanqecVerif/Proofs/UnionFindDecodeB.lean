/-
Union-find internals (C05), assembly, part B: from the index list to the correction vector
(`correction[correction_ind] = 1`) and its syndrome; `Support.decode()` is correct whenever the
growth phase terminates with `ClusterPost`.
-/
import PanqecVerif.Proofs.UnionFindDecodeA

namespace Panqec.UF

set_option linter.unusedSimpArgs false
set_option linter.unusedVariables false
set_option linter.unnecessarySeqFocus false

/-- rows of equal length with entries 0/1 -/
structure RectBin (H : Mat) : Prop where
  rect : ∀ r, r ∈ H → r.length = ncols H
  bin : ∀ r, r ∈ H → ∀ x, x ∈ r → x ≤ 1

theorem dot_indicator_aux : ∀ (r : List Nat) (p : Nat → Bool), (∀ x, x ∈ r → x ≤ 1) →
    dot r ((List.range r.length).map fun q => if p q = true then 1 else 0) =
      (List.range r.length).countP fun q => r.getD q 0 != 0 && p q := by
  intro r
  induction r with
  | nil => intro p _; simp [dot]
  | cons a as ih =>
    intro p hbin
    have ha : a ≤ 1 := hbin a (by simp)
    have ih' := ih (fun q => p (q + 1)) (fun x hx => hbin x (by simp [hx]))
    simp only [List.length_cons, List.range_succ_eq_map, List.map_cons, List.map_map, dot,
      List.countP_cons, List.countP_map]
    have h1 : (List.map ((fun q => if p q = true then 1 else 0) ∘ Nat.succ) (List.range as.length)) =
        (List.range as.length).map fun q => if p (q + 1) = true then 1 else 0 := rfl
    have h2 : List.countP ((fun q => (a :: as).getD q 0 != 0 && p q) ∘ Nat.succ) (List.range as.length) =
        List.countP (fun q => as.getD q 0 != 0 && p (q + 1)) (List.range as.length) := rfl
    rw [h1, h2, ih']
    have h3 : (a :: as).getD 0 0 = a := rfl
    rw [h3]
    rcases Nat.le_one_iff_eq_zero_or_eq_one.mp ha with h | h <;> subst h <;> cases p 0 <;> simp <;> omega

theorem countP_range_mem (n : Nat) (l : List Nat) (hl : l.Nodup) (hlt : ∀ q, q ∈ l → q < n)
    (p : Nat → Bool) :
    (List.range n).countP (fun q => p q && decide (q ∈ l)) = l.countP p := by
  have hperm : ((List.range n).filter fun q => decide (q ∈ l)).Perm l := by
    rw [List.perm_ext_iff_of_nodup ((List.nodup_range).filter _) hl]
    intro a
    simp only [List.mem_filter, List.mem_range, decide_eq_true_eq]
    exact ⟨fun h => h.2, fun h => ⟨hlt a h, h⟩⟩
  rw [← hperm.countP_eq, List.countP_filter]

/-- the syndrome bit of row `s` of `correction[ind] = 1` is the parity of the listed qubits in
    that row -/
theorem row_indicator {H : Mat} (R : RectBin H) (s : Nat) (hs : s < H.length) (ind : List Nat)
    (hnd : ind.Nodup) (hlt : ∀ q, q ∈ ind → q < ncols H) :
    dot (H.getD s []) (indicator (ncols H) ind) = ind.countP (fun q => hb H s q) := by
  have hrow : H.getD s [] ∈ H := by
    rw [List.getD_eq_getElem?_getD, List.getElem?_eq_getElem hs]
    exact List.getElem_mem hs
  have hlen := R.rect _ hrow
  have h1 := dot_indicator_aux (H.getD s []) (fun q => decide (q ∈ ind)) (R.bin _ hrow)
  rw [hlen] at h1
  have h2 : ((List.range (ncols H)).map fun q => if decide (q ∈ ind) = true then 1 else 0) =
      indicator (ncols H) ind := by
    unfold indicator
    apply List.map_congr_left
    intro q _
    by_cases h : q ∈ ind <;> simp [h]
  rw [h2] at h1
  rw [h1]
  exact countP_range_mem (ncols H) ind hnd hlt (fun q => hb H s q)

theorem indicator_length (n : Nat) (ind : List Nat) : (indicator n ind).length = n := by
  unfold indicator; simp

theorem indicator_binary (n : Nat) (ind : List Nat) : ∀ x, x ∈ indicator n ind → x < 2 := by
  intro x hx
  unfold indicator at hx
  rw [List.mem_map] at hx
  obtain ⟨q, _, rfl⟩ := hx
  split <;> omega

/-- **`Support.decode()` given the post-condition of the growth phase**: the peeling of every
    cluster succeeds and the assembled vector has exactly the defects as its syndrome. -/
theorem peeling_correct {H : Mat} (G : GraphOK H) (R : RectBin H) (sy : Vec)
    (roots : List Nat) (sPar qPar : Nat → Int) (P : ClusterPost H sy roots sPar qPar) :
    ∃ ts, peelAll H sy sPar qPar roots = .ok ts ∧
      sectorSyndrome H (indicator (ncols H) (ts.flatMap (·.corr))) =
        (List.range H.length).map fun s => b2n (defect sy s) := by
  obtain ⟨ts, hts, hnd, hmem, hbd⟩ := peelAll_spec G sy sPar qPar roots P.roots_nodup P.root_self
    P.conn P.even
  refine ⟨ts, hts, ?_⟩
  have hlt : ∀ q, q ∈ ts.flatMap (·.corr) → q < ncols H := by
    intro q hq
    obtain ⟨r, _, h⟩ := hmem q hq
    unfold qubitsOf at h; simp at h; exact h.1
  unfold sectorSyndrome
  apply List.ext_getElem
  · simp
  · intro s h1 h2
    simp only [List.length_map] at h1
    simp only [List.getElem_map, List.getElem_range]
    have hrow : H[s] = H.getD s [] := by
      rw [List.getD_eq_getElem?_getD, List.getElem?_eq_getElem h1]; rfl
    rw [hrow, row_indicator R s h1 _ hnd hlt, hbd s, count_clusters P s h1]
    have := b2n_le (defect sy s)
    omega

end Panqec.UF
