/-
Toric2DCode, all sizes `Lx, Ly ≥ 2`: the two SECTOR matrices `code.Hz`, `code.Hx` of the assembled
parity-check matrix `(lattice Lx Ly).rowsH` — the matrices `UnionFindDecoder.decode` hands to
`Support` — are the vertex/qubit and face/qubit incidence matrices of the lattice:

    Hz rowsH = incMat (verts Lx Ly) (qubits Lx Ly) (inc Lx Ly)     (Z rows = vertices, Z block)
    Hx rowsH = incMat (faces Lx Ly) (qubits Lx Ly) (inc Lx Ly)     (X rows = faces,   X block)

with `inc s q` = "`q` is one of the four wrapped neighbours of `s`"; the matrix is CSS.
-/
import PanqecVerif.Proofs.LatToric2DCodeD
import PanqecVerif.Proofs.OpComm
import PanqecVerif.Proofs.Decoders
import PanqecVerif.Proofs.UnionFindIncidence

namespace Panqec.Toric2DCode
open Panqec.Lat2D Panqec.UF

/-- vertex locations, in the order of `get_stabilizer_coordinates` -/
def verts (Lx Ly : Nat) : List Coord := grid (pyRange2 0 (2 * Lx)) (pyRange2 0 (2 * Ly))
/-- face locations -/
def faces (Lx Ly : Nat) : List Coord := grid (pyRange2 1 (2 * Lx)) (pyRange2 1 (2 * Ly))

theorem stabs_eq (Lx Ly : Nat) : stabs Lx Ly = verts Lx Ly ++ faces Lx Ly := rfl

/-- the four wrapped neighbours of a location given as a list -/
def nbrsOf (Lx Ly : Nat) (s : Coord) : List Coord := nbrs Lx Ly (s.getD 0 0) (s.getD 1 0)

/-- incidence of a generator location and a qubit location -/
def inc (Lx Ly : Nat) (s q : Coord) : Bool := (nbrsOf Lx Ly s).contains q

theorem inc_iff {Lx Ly : Nat} {bx by' qx qy : Int} :
    inc Lx Ly [bx, by'] [qx, qy] = true ↔ nbr (2 * (Lx : Int)) (2 * (Ly : Int)) bx by' qx qy := by
  unfold inc nbrsOf
  rw [List.contains_iff_mem]
  exact mem_nbrs

theorem mem_verts {Lx Ly : Nat} {q : Coord} :
    q ∈ verts Lx Ly ↔ ∃ x y, q = [x, y] ∧ IsV Lx Ly x y := by
  unfold verts IsV InBox
  simp only [mem_grid, mem_pyRange2]
  constructor
  · rintro ⟨x, y, hx, hy, rfl⟩; exact ⟨x, y, rfl, by omega⟩
  · rintro ⟨x, y, rfl, h⟩; exact ⟨x, y, by omega, by omega, rfl⟩

theorem mem_faces {Lx Ly : Nat} {q : Coord} :
    q ∈ faces Lx Ly ↔ ∃ x y, q = [x, y] ∧ IsF Lx Ly x y := by
  unfold faces IsF InBox
  simp only [mem_grid, mem_pyRange2]
  constructor
  · rintro ⟨x, y, hx, hy, rfl⟩; exact ⟨x, y, rfl, by omega⟩
  · rintro ⟨x, y, rfl, h⟩; exact ⟨x, y, by omega, by omega, rfl⟩

theorem nodup_verts (Lx Ly : Nat) : (verts Lx Ly).Nodup :=
  nodup_grid (nodup_pyRange2 ..) (nodup_pyRange2 ..)
theorem nodup_faces (Lx Ly : Nat) : (faces Lx Ly).Nodup :=
  nodup_grid (nodup_pyRange2 ..) (nodup_pyRange2 ..)

theorem verts_ne_nil {Lx Ly : Nat} (hx : 1 ≤ Lx) (hy : 1 ≤ Ly) : verts Lx Ly ≠ [] := by
  intro h
  have : [0, 0] ∈ verts Lx Ly := mem_verts.mpr ⟨0, 0, rfl, by unfold IsV InBox; omega⟩
  rw [h] at this; simp at this

theorem faces_ne_nil {Lx Ly : Nat} (hx : 1 ≤ Lx) (hy : 1 ≤ Ly) : faces Lx Ly ≠ [] := by
  intro h
  have : [1, 1] ∈ faces Lx Ly := mem_faces.mpr ⟨1, 1, rfl, by unfold IsF InBox; omega⟩
  rw [h] at this; simp at this

/-! ### the two blocks of a single-letter row -/

theorem letter_const (K : List Coord) (P : Pauli) (q : Coord) :
    Op.letter (K.map (fun k => (k, P))) q = if K.contains q then P else Pauli.I := by
  unfold Op.letter
  rw [get?_const]
  split <;> rfl

theorem xPart_opRow (Q : List Coord) (op : Op) :
    xPart (opRow Q op) = Q.map (fun q => (Op.letter op q).xBit) := by
  unfold opRow opString
  rw [xPart_pauliToBsf, List.map_map]; rfl

theorem zPart_opRow (Q : List Coord) (op : Op) :
    zPart (opRow Q op) = Q.map (fun q => (Op.letter op q).zBit) := by
  unfold opRow opString
  rw [zPart_pauliToBsf, List.map_map]; rfl

theorem zPart_rowZ (Q K : List Coord) :
    zPart (opRow Q (K.map (fun k => (k, Pauli.Z)))) =
      Q.map (fun q => if K.contains q then 1 else 0) := by
  rw [zPart_opRow]
  apply List.map_congr_left
  intro q _
  rw [letter_const]
  split <;> rfl

theorem xPart_rowZ (Q K : List Coord) :
    xPart (opRow Q (K.map (fun k => (k, Pauli.Z)))) = Q.map (fun _ => 0) := by
  rw [xPart_opRow]
  apply List.map_congr_left
  intro q _
  rw [letter_const]
  split <;> rfl

theorem xPart_rowX (Q K : List Coord) :
    xPart (opRow Q (K.map (fun k => (k, Pauli.X)))) =
      Q.map (fun q => if K.contains q then 1 else 0) := by
  rw [xPart_opRow]
  apply List.map_congr_left
  intro q _
  rw [letter_const]
  split <;> rfl

theorem zPart_rowX (Q K : List Coord) :
    zPart (opRow Q (K.map (fun k => (k, Pauli.X)))) = Q.map (fun _ => 0) := by
  rw [zPart_opRow]
  apply List.map_congr_left
  intro q _
  rw [letter_const]
  split <;> rfl

theorem any_zero (Q : List Coord) : (Q.map (fun _ => 0)).any (· ≠ 0) = false := by
  rw [List.any_eq_false]
  intro x hx
  rw [List.mem_map] at hx
  obtain ⟨_, _, rfl⟩ := hx
  simp

theorem any_ind (Q K : List Coord) (q : Coord) (hq : q ∈ Q) (hk : q ∈ K) :
    (Q.map (fun q => if K.contains q then 1 else 0)).any (· ≠ 0) = true := by
  rw [List.any_eq_true]
  refine ⟨1, ?_, by simp⟩
  rw [List.mem_map]
  exact ⟨q, hq, by simp [hk]⟩

/-! ### the rows of the lattice -/

/-- the assembled row of the generator at `s` -/
def rowOf (Lx Ly : Nat) (s : Coord) : List Nat :=
  opRow (qubits Lx Ly) ((lattice Lx Ly).getStab s)

theorem rowsH_eq (Lx Ly : Nat) :
    (lattice Lx Ly).rowsH = (verts Lx Ly ++ faces Lx Ly).map (rowOf Lx Ly) := by
  unfold Lattice.rowsH rowOf
  rw [List.map_map]
  rfl

theorem getStab_vert {Lx Ly : Nat} (hx : 2 ≤ Lx) (hy : 2 ≤ Ly) {s : Coord} (hs : s ∈ verts Lx Ly) :
    (lattice Lx Ly).getStab s = (nbrsOf Lx Ly s).map (fun q => (q, Pauli.Z)) := by
  obtain ⟨x, y, rfl, h⟩ := mem_verts.mp hs
  rw [getStab_eq hx hy (mem_stabs'.mpr (Or.inl h))]
  have : letter x = Pauli.Z := by unfold letter; rw [if_pos h.2.1]
  rw [this]; rfl

theorem getStab_face {Lx Ly : Nat} (hx : 2 ≤ Lx) (hy : 2 ≤ Ly) {s : Coord} (hs : s ∈ faces Lx Ly) :
    (lattice Lx Ly).getStab s = (nbrsOf Lx Ly s).map (fun q => (q, Pauli.X)) := by
  obtain ⟨x, y, rfl, h⟩ := mem_faces.mp hs
  rw [getStab_eq hx hy (mem_stabs'.mpr (Or.inr h))]
  have : letter x = Pauli.X := by
    unfold letter; rw [if_neg (by have := h.2.1; omega)]
  rw [this]; rfl

/-- the first neighbour of a generator location is a qubit of the lattice -/
theorem first_nbr {Lx Ly : Nat} (hx : 1 ≤ Lx) (hy : 1 ≤ Ly) {s : Coord}
    (hs : s ∈ verts Lx Ly ∨ s ∈ faces Lx Ly) :
    ∃ q, q ∈ qubits Lx Ly ∧ q ∈ nbrsOf Lx Ly s := by
  have hxy : ∃ x y, s = [x, y] ∧ (IsV Lx Ly x y ∨ IsF Lx Ly x y) := by
    rcases hs with hs | hs
    · obtain ⟨x, y, rfl, h⟩ := mem_verts.mp hs; exact ⟨x, y, rfl, Or.inl h⟩
    · obtain ⟨x, y, rfl, h⟩ := mem_faces.mp hs; exact ⟨x, y, rfl, Or.inr h⟩
  obtain ⟨x, y, rfl, h⟩ := hxy
  refine ⟨[predW x (2 * (Lx : Int)), y], ?_, by simp [nbrsOf, nbrs]⟩
  have := nbrs_isQ hx hy h [predW x (2 * (Lx : Int)), y] (by simp [nbrs])
  unfold isQubit at this
  exact isIn_iff.mp this

theorem zFlag_vert {Lx Ly : Nat} (hx : 2 ≤ Lx) (hy : 2 ≤ Ly) {s : Coord} (hs : s ∈ verts Lx Ly) :
    zFlag_dec (rowOf Lx Ly s) = true := by
  unfold zFlag_dec rowOf
  rw [getStab_vert hx hy hs, zPart_rowZ]
  obtain ⟨q, hq, hk⟩ := first_nbr (by omega) (by omega) (Or.inl hs)
  exact any_ind _ _ q hq hk

theorem xFlag_vert {Lx Ly : Nat} (hx : 2 ≤ Lx) (hy : 2 ≤ Ly) {s : Coord} (hs : s ∈ verts Lx Ly) :
    xFlag_dec (rowOf Lx Ly s) = false := by
  unfold xFlag_dec rowOf
  rw [getStab_vert hx hy hs, xPart_rowZ]
  exact any_zero _

theorem xFlag_face {Lx Ly : Nat} (hx : 2 ≤ Lx) (hy : 2 ≤ Ly) {s : Coord} (hs : s ∈ faces Lx Ly) :
    xFlag_dec (rowOf Lx Ly s) = true := by
  unfold xFlag_dec rowOf
  rw [getStab_face hx hy hs, xPart_rowX]
  obtain ⟨q, hq, hk⟩ := first_nbr (by omega) (by omega) (Or.inr hs)
  exact any_ind _ _ q hq hk

theorem zFlag_face {Lx Ly : Nat} (hx : 2 ≤ Lx) (hy : 2 ≤ Ly) {s : Coord} (hs : s ∈ faces Lx Ly) :
    zFlag_dec (rowOf Lx Ly s) = false := by
  unfold zFlag_dec rowOf
  rw [getStab_face hx hy hs, zPart_rowX]
  exact any_zero _

theorem filter_append_left {α : Type} (p : α → Bool) (A B : List α) (hA : ∀ a ∈ A, p a = true)
    (hB : ∀ b ∈ B, p b = false) : (A ++ B).filter p = A := by
  rw [List.filter_append, List.filter_eq_self.mpr hA, List.filter_eq_nil_iff.mpr (by
    intro b hb; rw [hB b hb]; simp), List.append_nil]

theorem filter_append_right {α : Type} (p : α → Bool) (A B : List α) (hA : ∀ a ∈ A, p a = false)
    (hB : ∀ b ∈ B, p b = true) : (A ++ B).filter p = B := by
  rw [List.filter_append, List.filter_eq_self.mpr hB, List.filter_eq_nil_iff.mpr (by
    intro a ha; rw [hA a ha]; simp), List.nil_append]

/-- **`code.Hz`** of the assembled matrix is the vertex/qubit incidence matrix -/
theorem Hz_rowsH {Lx Ly : Nat} (hx : 2 ≤ Lx) (hy : 2 ≤ Ly) :
    Hz (lattice Lx Ly).rowsH = incMat (verts Lx Ly) (qubits Lx Ly) (inc Lx Ly) := by
  rw [Hz_eq_dec, rowsH_eq, List.filter_map, List.map_map,
    filter_append_left (zFlag_dec ∘ rowOf Lx Ly) _ _ (fun s hs => zFlag_vert hx hy hs) (fun s hs => zFlag_face hx hy hs)]
  unfold incMat
  apply List.map_congr_left
  intro s hs
  show zPart (rowOf Lx Ly s) = _
  unfold rowOf
  rw [getStab_vert hx hy hs, zPart_rowZ]
  rfl

/-- **`code.Hx`** of the assembled matrix is the face/qubit incidence matrix -/
theorem Hx_rowsH {Lx Ly : Nat} (hx : 2 ≤ Lx) (hy : 2 ≤ Ly) :
    Hx (lattice Lx Ly).rowsH = incMat (faces Lx Ly) (qubits Lx Ly) (inc Lx Ly) := by
  rw [Hx_eq_dec, rowsH_eq, List.filter_map, List.map_map,
    filter_append_right (xFlag_dec ∘ rowOf Lx Ly) _ _ (fun s hs => xFlag_vert hx hy hs) (fun s hs => xFlag_face hx hy hs)]
  unfold incMat
  apply List.map_congr_left
  intro s hs
  show xPart (rowOf Lx Ly s) = _
  unfold rowOf
  rw [getStab_face hx hy hs, xPart_rowX]
  rfl

/-- the assembled matrix is CSS (`code.is_css`) -/
theorem isCss_rowsH {Lx Ly : Nat} (hx : 2 ≤ Lx) (hy : 2 ≤ Ly) :
    isCss (lattice Lx Ly).rowsH = true := by
  rw [isCss_iff_dec, rowsH_eq]
  intro r hr
  rw [List.mem_map] at hr
  obtain ⟨s, hs, rfl⟩ := hr
  rw [List.mem_append] at hs
  rcases hs with hs | hs
  · rw [xFlag_vert hx hy hs]; simp
  · rw [zFlag_face hx hy hs]; simp

theorem ncols_Hz {Lx Ly : Nat} (hx : 2 ≤ Lx) (hy : 2 ≤ Ly) :
    ncols (Hz (lattice Lx Ly).rowsH) = 2 * Lx * Ly := by
  rw [Hz_rowsH hx hy, ncols_incMat _ _ _ (verts_ne_nil (by omega) (by omega)), length_qubits]

theorem ncols_Hx {Lx Ly : Nat} (hx : 2 ≤ Lx) (hy : 2 ≤ Ly) :
    ncols (Hx (lattice Lx Ly).rowsH) = 2 * Lx * Ly := by
  rw [Hx_rowsH hx hy, ncols_incMat _ _ _ (faces_ne_nil (by omega) (by omega)), length_qubits]

end Panqec.Toric2DCode
