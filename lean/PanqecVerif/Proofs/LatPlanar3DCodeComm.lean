/-
`Planar3DCode`, every size: a vertex operator and a face operator overlap on an even number of
qubits.  The untruncated neighbourhoods overlap on 0 or 2 locations (coordinate atoms decided by
parity, finite case split); a location in both neighbourhoods of a valid vertex and a valid face is
always a qubit, so the boundary truncation removes none of them.
-/
import PanqecVerif.Proofs.LatPlanar3DCodeStab

set_option linter.unusedVariables false
set_option linter.unusedSimpArgs false
set_option linter.unusedTactic false
set_option linter.unreachableTactic false
set_option linter.unnecessarySeqFocus false

namespace Panqec.Planar3DCode
open Panqec.Cubic3D

theorem ov_cands_vertex_faceXY {x y z a b c : Int} (hx : x % 2 = 0) (hy : y % 2 = 0)
    (hz : z % 2 = 0) (ha : a % 2 = 1) (hb : b % 2 = 1) (hc : c % 2 = 0) :
    ov (vertexCands x y z) (faceXYCands a b c) % 2 = 0 := by
  unfold ov vertexCands faceXYCands
  simp only [List.countP_cons, List.countP_nil, List.mem_cons, List.cons.injEq, List.not_mem_nil,
    and_true, or_false, decide_eq_true_eq, Nat.zero_add,
    eo_p_m hx ha,
    eo_p_p hx ha,
    eo_m_m hx ha,
    eo_m_p hx ha,
    eo_0_m hx ha,
    eo_0_p hx ha,
    eo_0_0 hx ha,
    eo_p_m hy hb,
    eo_p_p hy hb,
    eo_m_m hy hb,
    eo_m_p hy hb,
    eo_0_m hy hb,
    eo_0_p hy hb,
    eo_0_0 hy hb,
    ee_p hz hc,
    ee_m hz hc,
    false_and, and_false, false_or, or_false]
  have nx : x + 1 = a → x - 1 = a → False := fun h1 h2 => eo_excl h1 h2
  have ny : y + 1 = b → y - 1 = b → False := fun h1 h2 => eo_excl h1 h2
  by_cases hx1 : x + 1 = a <;> by_cases hx2 : x - 1 = a <;> by_cases hy1 : y + 1 = b <;> by_cases hy2 : y - 1 = b <;> by_cases hz0 : z = c <;> simp_all

theorem shared_vertex_faceXY {Lx Ly Lz : Nat} {x y z a b c : Int}
    (hv : isVertex Lx Ly Lz x y z) (hf : isFaceXY Lx Ly Lz a b c) :
    ∀ q ∈ vertexCands x y z, q ∈ faceXYCands a b c → isq Lx Ly Lz q = true := by
  obtain ⟨hx', hy', hz'⟩ := hv
  obtain ⟨ha', hb', hc'⟩ := hf
  simp only [inE, inO, inE2, inO1] at hx' hy' hz' ha' hb' hc'
  have hx := hx'.2.2; have hy := hy'.2.2; have hz := hz'.2.2
  have ha := ha'.2.2; have hb := hb'.2.2; have hc := hc'.2.2
  intro q hq
  simp only [vertexCands, List.mem_cons, List.not_mem_nil, or_false] at hq
  rcases hq with rfl | rfl | rfl | rfl | rfl | rfl
  · intro hq
    simp only [faceXYCands, List.mem_cons, List.cons.injEq, List.not_mem_nil, and_true, or_false,
      eo_p_m hx ha,
    eo_p_p hx ha,
    eo_m_m hx ha,
    eo_m_p hx ha,
    eo_0_m hx ha,
    eo_0_p hx ha,
    eo_0_0 hx ha,
    eo_p_m hy hb,
    eo_p_p hy hb,
    eo_m_m hy hb,
    eo_m_p hy hb,
    eo_0_m hy hb,
    eo_0_p hy hb,
    eo_0_0 hy hb,
    ee_p hz hc,
    ee_m hz hc,
      false_and, and_false, false_or, or_false] at hq <;>
    (rw [isq_iff, mem_qubits_x (by omega) (by omega) (by omega)]; omega)
  · intro hq
    simp only [faceXYCands, List.mem_cons, List.cons.injEq, List.not_mem_nil, and_true, or_false,
      eo_p_m hx ha,
    eo_p_p hx ha,
    eo_m_m hx ha,
    eo_m_p hx ha,
    eo_0_m hx ha,
    eo_0_p hx ha,
    eo_0_0 hx ha,
    eo_p_m hy hb,
    eo_p_p hy hb,
    eo_m_m hy hb,
    eo_m_p hy hb,
    eo_0_m hy hb,
    eo_0_p hy hb,
    eo_0_0 hy hb,
    ee_p hz hc,
    ee_m hz hc,
      false_and, and_false, false_or, or_false] at hq <;>
    (rw [isq_iff, mem_qubits_x (by omega) (by omega) (by omega)]; omega)
  · intro hq
    simp only [faceXYCands, List.mem_cons, List.cons.injEq, List.not_mem_nil, and_true, or_false,
      eo_p_m hx ha,
    eo_p_p hx ha,
    eo_m_m hx ha,
    eo_m_p hx ha,
    eo_0_m hx ha,
    eo_0_p hx ha,
    eo_0_0 hx ha,
    eo_p_m hy hb,
    eo_p_p hy hb,
    eo_m_m hy hb,
    eo_m_p hy hb,
    eo_0_m hy hb,
    eo_0_p hy hb,
    eo_0_0 hy hb,
    ee_p hz hc,
    ee_m hz hc,
      false_and, and_false, false_or, or_false] at hq <;>
    (rw [isq_iff, mem_qubits_y (by omega) (by omega) (by omega)]; omega)
  · intro hq
    simp only [faceXYCands, List.mem_cons, List.cons.injEq, List.not_mem_nil, and_true, or_false,
      eo_p_m hx ha,
    eo_p_p hx ha,
    eo_m_m hx ha,
    eo_m_p hx ha,
    eo_0_m hx ha,
    eo_0_p hx ha,
    eo_0_0 hx ha,
    eo_p_m hy hb,
    eo_p_p hy hb,
    eo_m_m hy hb,
    eo_m_p hy hb,
    eo_0_m hy hb,
    eo_0_p hy hb,
    eo_0_0 hy hb,
    ee_p hz hc,
    ee_m hz hc,
      false_and, and_false, false_or, or_false] at hq <;>
    (rw [isq_iff, mem_qubits_y (by omega) (by omega) (by omega)]; omega)
  · intro hq
    simp only [faceXYCands, List.mem_cons, List.cons.injEq, List.not_mem_nil, and_true, or_false,
      eo_p_m hx ha,
    eo_p_p hx ha,
    eo_m_m hx ha,
    eo_m_p hx ha,
    eo_0_m hx ha,
    eo_0_p hx ha,
    eo_0_0 hx ha,
    eo_p_m hy hb,
    eo_p_p hy hb,
    eo_m_m hy hb,
    eo_m_p hy hb,
    eo_0_m hy hb,
    eo_0_p hy hb,
    eo_0_0 hy hb,
    ee_p hz hc,
    ee_m hz hc,
      false_and, and_false, false_or, or_false] at hq <;>
    (rw [isq_iff, mem_qubits_z (by omega) (by omega) (by omega)]; omega)
  · intro hq
    simp only [faceXYCands, List.mem_cons, List.cons.injEq, List.not_mem_nil, and_true, or_false,
      eo_p_m hx ha,
    eo_p_p hx ha,
    eo_m_m hx ha,
    eo_m_p hx ha,
    eo_0_m hx ha,
    eo_0_p hx ha,
    eo_0_0 hx ha,
    eo_p_m hy hb,
    eo_p_p hy hb,
    eo_m_m hy hb,
    eo_m_p hy hb,
    eo_0_m hy hb,
    eo_0_p hy hb,
    eo_0_0 hy hb,
    ee_p hz hc,
    ee_m hz hc,
      false_and, and_false, false_or, or_false] at hq <;>
    (rw [isq_iff, mem_qubits_z (by omega) (by omega) (by omega)]; omega)

theorem ov_vertex_faceXY {Lx Ly Lz : Nat} {x y z a b c : Int}
    (hv : isVertex Lx Ly Lz x y z) (hf : isFaceXY Lx Ly Lz a b c) :
    ov (vertexKeys Lx Ly Lz x y z) (faceXYKeys Lx Ly Lz a b c) % 2 = 0 := by
  unfold vertexKeys faceXYKeys
  rw [ov_filter_both _ (shared_vertex_faceXY hv hf)]
  obtain ⟨hx, hy, hz⟩ := hv
  obtain ⟨ha, hb, hc⟩ := hf
  simp only [inE, inO, inE2, inO1] at hx hy hz ha hb hc
  exact ov_cands_vertex_faceXY hx.2.2 hy.2.2 hz.2.2 ha.2.2 hb.2.2 hc.2.2

theorem ov_cands_vertex_faceYZ {x y z a b c : Int} (hx : x % 2 = 0) (hy : y % 2 = 0)
    (hz : z % 2 = 0) (ha : a % 2 = 0) (hb : b % 2 = 1) (hc : c % 2 = 1) :
    ov (vertexCands x y z) (faceYZCands a b c) % 2 = 0 := by
  unfold ov vertexCands faceYZCands
  simp only [List.countP_cons, List.countP_nil, List.mem_cons, List.cons.injEq, List.not_mem_nil,
    and_true, or_false, decide_eq_true_eq, Nat.zero_add,
    ee_p hx ha,
    ee_m hx ha,
    eo_p_m hy hb,
    eo_p_p hy hb,
    eo_m_m hy hb,
    eo_m_p hy hb,
    eo_0_m hy hb,
    eo_0_p hy hb,
    eo_0_0 hy hb,
    eo_p_m hz hc,
    eo_p_p hz hc,
    eo_m_m hz hc,
    eo_m_p hz hc,
    eo_0_m hz hc,
    eo_0_p hz hc,
    eo_0_0 hz hc,
    false_and, and_false, false_or, or_false]
  have ny : y + 1 = b → y - 1 = b → False := fun h1 h2 => eo_excl h1 h2
  have nz : z + 1 = c → z - 1 = c → False := fun h1 h2 => eo_excl h1 h2
  by_cases hx0 : x = a <;> by_cases hy1 : y + 1 = b <;> by_cases hy2 : y - 1 = b <;> by_cases hz1 : z + 1 = c <;> by_cases hz2 : z - 1 = c <;> simp_all

theorem shared_vertex_faceYZ {Lx Ly Lz : Nat} {x y z a b c : Int}
    (hv : isVertex Lx Ly Lz x y z) (hf : isFaceYZ Lx Ly Lz a b c) :
    ∀ q ∈ vertexCands x y z, q ∈ faceYZCands a b c → isq Lx Ly Lz q = true := by
  obtain ⟨hx', hy', hz'⟩ := hv
  obtain ⟨ha', hb', hc'⟩ := hf
  simp only [inE, inO, inE2, inO1] at hx' hy' hz' ha' hb' hc'
  have hx := hx'.2.2; have hy := hy'.2.2; have hz := hz'.2.2
  have ha := ha'.2.2; have hb := hb'.2.2; have hc := hc'.2.2
  intro q hq
  simp only [vertexCands, List.mem_cons, List.not_mem_nil, or_false] at hq
  rcases hq with rfl | rfl | rfl | rfl | rfl | rfl
  · intro hq
    simp only [faceYZCands, List.mem_cons, List.cons.injEq, List.not_mem_nil, and_true, or_false,
      ee_p hx ha,
    ee_m hx ha,
    eo_p_m hy hb,
    eo_p_p hy hb,
    eo_m_m hy hb,
    eo_m_p hy hb,
    eo_0_m hy hb,
    eo_0_p hy hb,
    eo_0_0 hy hb,
    eo_p_m hz hc,
    eo_p_p hz hc,
    eo_m_m hz hc,
    eo_m_p hz hc,
    eo_0_m hz hc,
    eo_0_p hz hc,
    eo_0_0 hz hc,
      false_and, and_false, false_or, or_false] at hq <;>
    (rw [isq_iff, mem_qubits_x (by omega) (by omega) (by omega)]; omega)
  · intro hq
    simp only [faceYZCands, List.mem_cons, List.cons.injEq, List.not_mem_nil, and_true, or_false,
      ee_p hx ha,
    ee_m hx ha,
    eo_p_m hy hb,
    eo_p_p hy hb,
    eo_m_m hy hb,
    eo_m_p hy hb,
    eo_0_m hy hb,
    eo_0_p hy hb,
    eo_0_0 hy hb,
    eo_p_m hz hc,
    eo_p_p hz hc,
    eo_m_m hz hc,
    eo_m_p hz hc,
    eo_0_m hz hc,
    eo_0_p hz hc,
    eo_0_0 hz hc,
      false_and, and_false, false_or, or_false] at hq <;>
    (rw [isq_iff, mem_qubits_x (by omega) (by omega) (by omega)]; omega)
  · intro hq
    simp only [faceYZCands, List.mem_cons, List.cons.injEq, List.not_mem_nil, and_true, or_false,
      ee_p hx ha,
    ee_m hx ha,
    eo_p_m hy hb,
    eo_p_p hy hb,
    eo_m_m hy hb,
    eo_m_p hy hb,
    eo_0_m hy hb,
    eo_0_p hy hb,
    eo_0_0 hy hb,
    eo_p_m hz hc,
    eo_p_p hz hc,
    eo_m_m hz hc,
    eo_m_p hz hc,
    eo_0_m hz hc,
    eo_0_p hz hc,
    eo_0_0 hz hc,
      false_and, and_false, false_or, or_false] at hq <;>
    (rw [isq_iff, mem_qubits_y (by omega) (by omega) (by omega)]; omega)
  · intro hq
    simp only [faceYZCands, List.mem_cons, List.cons.injEq, List.not_mem_nil, and_true, or_false,
      ee_p hx ha,
    ee_m hx ha,
    eo_p_m hy hb,
    eo_p_p hy hb,
    eo_m_m hy hb,
    eo_m_p hy hb,
    eo_0_m hy hb,
    eo_0_p hy hb,
    eo_0_0 hy hb,
    eo_p_m hz hc,
    eo_p_p hz hc,
    eo_m_m hz hc,
    eo_m_p hz hc,
    eo_0_m hz hc,
    eo_0_p hz hc,
    eo_0_0 hz hc,
      false_and, and_false, false_or, or_false] at hq <;>
    (rw [isq_iff, mem_qubits_y (by omega) (by omega) (by omega)]; omega)
  · intro hq
    simp only [faceYZCands, List.mem_cons, List.cons.injEq, List.not_mem_nil, and_true, or_false,
      ee_p hx ha,
    ee_m hx ha,
    eo_p_m hy hb,
    eo_p_p hy hb,
    eo_m_m hy hb,
    eo_m_p hy hb,
    eo_0_m hy hb,
    eo_0_p hy hb,
    eo_0_0 hy hb,
    eo_p_m hz hc,
    eo_p_p hz hc,
    eo_m_m hz hc,
    eo_m_p hz hc,
    eo_0_m hz hc,
    eo_0_p hz hc,
    eo_0_0 hz hc,
      false_and, and_false, false_or, or_false] at hq <;>
    (rw [isq_iff, mem_qubits_z (by omega) (by omega) (by omega)]; omega)
  · intro hq
    simp only [faceYZCands, List.mem_cons, List.cons.injEq, List.not_mem_nil, and_true, or_false,
      ee_p hx ha,
    ee_m hx ha,
    eo_p_m hy hb,
    eo_p_p hy hb,
    eo_m_m hy hb,
    eo_m_p hy hb,
    eo_0_m hy hb,
    eo_0_p hy hb,
    eo_0_0 hy hb,
    eo_p_m hz hc,
    eo_p_p hz hc,
    eo_m_m hz hc,
    eo_m_p hz hc,
    eo_0_m hz hc,
    eo_0_p hz hc,
    eo_0_0 hz hc,
      false_and, and_false, false_or, or_false] at hq <;>
    (rw [isq_iff, mem_qubits_z (by omega) (by omega) (by omega)]; omega)

theorem ov_vertex_faceYZ {Lx Ly Lz : Nat} {x y z a b c : Int}
    (hv : isVertex Lx Ly Lz x y z) (hf : isFaceYZ Lx Ly Lz a b c) :
    ov (vertexKeys Lx Ly Lz x y z) (faceYZKeys Lx Ly Lz a b c) % 2 = 0 := by
  unfold vertexKeys faceYZKeys
  rw [ov_filter_both _ (shared_vertex_faceYZ hv hf)]
  obtain ⟨hx, hy, hz⟩ := hv
  obtain ⟨ha, hb, hc⟩ := hf
  simp only [inE, inO, inE2, inO1] at hx hy hz ha hb hc
  exact ov_cands_vertex_faceYZ hx.2.2 hy.2.2 hz.2.2 ha.2.2 hb.2.2 hc.2.2

theorem ov_cands_vertex_faceXZ {x y z a b c : Int} (hx : x % 2 = 0) (hy : y % 2 = 0)
    (hz : z % 2 = 0) (ha : a % 2 = 1) (hb : b % 2 = 0) (hc : c % 2 = 1) :
    ov (vertexCands x y z) (faceXZCands a b c) % 2 = 0 := by
  unfold ov vertexCands faceXZCands
  simp only [List.countP_cons, List.countP_nil, List.mem_cons, List.cons.injEq, List.not_mem_nil,
    and_true, or_false, decide_eq_true_eq, Nat.zero_add,
    eo_p_m hx ha,
    eo_p_p hx ha,
    eo_m_m hx ha,
    eo_m_p hx ha,
    eo_0_m hx ha,
    eo_0_p hx ha,
    eo_0_0 hx ha,
    ee_p hy hb,
    ee_m hy hb,
    eo_p_m hz hc,
    eo_p_p hz hc,
    eo_m_m hz hc,
    eo_m_p hz hc,
    eo_0_m hz hc,
    eo_0_p hz hc,
    eo_0_0 hz hc,
    false_and, and_false, false_or, or_false]
  have nx : x + 1 = a → x - 1 = a → False := fun h1 h2 => eo_excl h1 h2
  have nz : z + 1 = c → z - 1 = c → False := fun h1 h2 => eo_excl h1 h2
  by_cases hx1 : x + 1 = a <;> by_cases hx2 : x - 1 = a <;> by_cases hy0 : y = b <;> by_cases hz1 : z + 1 = c <;> by_cases hz2 : z - 1 = c <;> simp_all

theorem shared_vertex_faceXZ {Lx Ly Lz : Nat} {x y z a b c : Int}
    (hv : isVertex Lx Ly Lz x y z) (hf : isFaceXZ Lx Ly Lz a b c) :
    ∀ q ∈ vertexCands x y z, q ∈ faceXZCands a b c → isq Lx Ly Lz q = true := by
  obtain ⟨hx', hy', hz'⟩ := hv
  obtain ⟨ha', hb', hc'⟩ := hf
  simp only [inE, inO, inE2, inO1] at hx' hy' hz' ha' hb' hc'
  have hx := hx'.2.2; have hy := hy'.2.2; have hz := hz'.2.2
  have ha := ha'.2.2; have hb := hb'.2.2; have hc := hc'.2.2
  intro q hq
  simp only [vertexCands, List.mem_cons, List.not_mem_nil, or_false] at hq
  rcases hq with rfl | rfl | rfl | rfl | rfl | rfl
  · intro hq
    simp only [faceXZCands, List.mem_cons, List.cons.injEq, List.not_mem_nil, and_true, or_false,
      eo_p_m hx ha,
    eo_p_p hx ha,
    eo_m_m hx ha,
    eo_m_p hx ha,
    eo_0_m hx ha,
    eo_0_p hx ha,
    eo_0_0 hx ha,
    ee_p hy hb,
    ee_m hy hb,
    eo_p_m hz hc,
    eo_p_p hz hc,
    eo_m_m hz hc,
    eo_m_p hz hc,
    eo_0_m hz hc,
    eo_0_p hz hc,
    eo_0_0 hz hc,
      false_and, and_false, false_or, or_false] at hq <;>
    (rw [isq_iff, mem_qubits_x (by omega) (by omega) (by omega)]; omega)
  · intro hq
    simp only [faceXZCands, List.mem_cons, List.cons.injEq, List.not_mem_nil, and_true, or_false,
      eo_p_m hx ha,
    eo_p_p hx ha,
    eo_m_m hx ha,
    eo_m_p hx ha,
    eo_0_m hx ha,
    eo_0_p hx ha,
    eo_0_0 hx ha,
    ee_p hy hb,
    ee_m hy hb,
    eo_p_m hz hc,
    eo_p_p hz hc,
    eo_m_m hz hc,
    eo_m_p hz hc,
    eo_0_m hz hc,
    eo_0_p hz hc,
    eo_0_0 hz hc,
      false_and, and_false, false_or, or_false] at hq <;>
    (rw [isq_iff, mem_qubits_x (by omega) (by omega) (by omega)]; omega)
  · intro hq
    simp only [faceXZCands, List.mem_cons, List.cons.injEq, List.not_mem_nil, and_true, or_false,
      eo_p_m hx ha,
    eo_p_p hx ha,
    eo_m_m hx ha,
    eo_m_p hx ha,
    eo_0_m hx ha,
    eo_0_p hx ha,
    eo_0_0 hx ha,
    ee_p hy hb,
    ee_m hy hb,
    eo_p_m hz hc,
    eo_p_p hz hc,
    eo_m_m hz hc,
    eo_m_p hz hc,
    eo_0_m hz hc,
    eo_0_p hz hc,
    eo_0_0 hz hc,
      false_and, and_false, false_or, or_false] at hq <;>
    (rw [isq_iff, mem_qubits_y (by omega) (by omega) (by omega)]; omega)
  · intro hq
    simp only [faceXZCands, List.mem_cons, List.cons.injEq, List.not_mem_nil, and_true, or_false,
      eo_p_m hx ha,
    eo_p_p hx ha,
    eo_m_m hx ha,
    eo_m_p hx ha,
    eo_0_m hx ha,
    eo_0_p hx ha,
    eo_0_0 hx ha,
    ee_p hy hb,
    ee_m hy hb,
    eo_p_m hz hc,
    eo_p_p hz hc,
    eo_m_m hz hc,
    eo_m_p hz hc,
    eo_0_m hz hc,
    eo_0_p hz hc,
    eo_0_0 hz hc,
      false_and, and_false, false_or, or_false] at hq <;>
    (rw [isq_iff, mem_qubits_y (by omega) (by omega) (by omega)]; omega)
  · intro hq
    simp only [faceXZCands, List.mem_cons, List.cons.injEq, List.not_mem_nil, and_true, or_false,
      eo_p_m hx ha,
    eo_p_p hx ha,
    eo_m_m hx ha,
    eo_m_p hx ha,
    eo_0_m hx ha,
    eo_0_p hx ha,
    eo_0_0 hx ha,
    ee_p hy hb,
    ee_m hy hb,
    eo_p_m hz hc,
    eo_p_p hz hc,
    eo_m_m hz hc,
    eo_m_p hz hc,
    eo_0_m hz hc,
    eo_0_p hz hc,
    eo_0_0 hz hc,
      false_and, and_false, false_or, or_false] at hq <;>
    (rw [isq_iff, mem_qubits_z (by omega) (by omega) (by omega)]; omega)
  · intro hq
    simp only [faceXZCands, List.mem_cons, List.cons.injEq, List.not_mem_nil, and_true, or_false,
      eo_p_m hx ha,
    eo_p_p hx ha,
    eo_m_m hx ha,
    eo_m_p hx ha,
    eo_0_m hx ha,
    eo_0_p hx ha,
    eo_0_0 hx ha,
    ee_p hy hb,
    ee_m hy hb,
    eo_p_m hz hc,
    eo_p_p hz hc,
    eo_m_m hz hc,
    eo_m_p hz hc,
    eo_0_m hz hc,
    eo_0_p hz hc,
    eo_0_0 hz hc,
      false_and, and_false, false_or, or_false] at hq <;>
    (rw [isq_iff, mem_qubits_z (by omega) (by omega) (by omega)]; omega)

theorem ov_vertex_faceXZ {Lx Ly Lz : Nat} {x y z a b c : Int}
    (hv : isVertex Lx Ly Lz x y z) (hf : isFaceXZ Lx Ly Lz a b c) :
    ov (vertexKeys Lx Ly Lz x y z) (faceXZKeys Lx Ly Lz a b c) % 2 = 0 := by
  unfold vertexKeys faceXZKeys
  rw [ov_filter_both _ (shared_vertex_faceXZ hv hf)]
  obtain ⟨hx, hy, hz⟩ := hv
  obtain ⟨ha, hb, hc⟩ := hf
  simp only [inE, inO, inE2, inO1] at hx hy hz ha hb hc
  exact ov_cands_vertex_faceXZ hx.2.2 hy.2.2 hz.2.2 ha.2.2 hb.2.2 hc.2.2

end Panqec.Planar3DCode
