/-
C08 helper lemmas, part 2: relabelling an operator dict entry by entry (`deformOp`, what
the wrappers installed by `StabilizerCode.deform` do) is the relabelling `deformBsf` of its
BSF vector; hence the matrices of a deformed `CodeData`; and `apply_deformation` of
`bpauli.py` is the Hadamard relabelling on the flagged qubits.  Core Lean only.
-/
import PanqecVerif.Proofs.Deform

namespace Panqec.Deform

open Panqec

/-- a Python dict has distinct keys -/
def KeysNodup (op : Op) : Prop := (op.map Prod.fst).Nodup

/-- an `Operator` dict only lists the qubits of its support -/
def NoIdentity (op : Op) : Prop := ∀ e ∈ op, e.2 ≠ Pauli.I

/-- the letter an operator dict assigns to a qubit (`I` off the support) -/
def letterAt (op : Op) (q : Coord) : Pauli :=
  match op.find? (fun e => e.1 == q) with
  | some e => e.2
  | none => .I

theorem opCount_eq_zero_of_not_mem (op : Op) (q : Coord) (f : Pauli → Nat)
    (h : q ∉ op.map Prod.fst) : opCount op q f = 0 := by
  unfold opCount
  rw [List.length_eq_zero_iff, List.filter_eq_nil_iff]
  intro e he
  have : e.1 ≠ q := fun heq => h (heq ▸ List.mem_map_of_mem he)
  simp [this]

/-- with distinct keys each slot is incremented at most once: by the bit of the letter -/
theorem opCount_eq_letterAt (f : Pauli → Nat) (hI : f .I = 0) (h01 : ∀ p, f p = 0 ∨ f p = 1) :
    ∀ (op : Op) (q : Coord), KeysNodup op → opCount op q f = f (letterAt op q)
  | [], q, _ => by simp [opCount, letterAt, hI]
  | e :: op, q, hk => by
    have hk' : e.1 ∉ op.map Prod.fst ∧ KeysNodup op := by
      simpa [KeysNodup] using hk
    by_cases heq : e.1 = q
    · have h0 := opCount_eq_zero_of_not_mem op q f (heq ▸ hk'.1)
      have hl : letterAt (e :: op) q = e.2 := by simp [letterAt, heq]
      unfold opCount at h0 ⊢
      rw [hl, List.filter_cons]
      rcases h01 e.2 with h | h <;> simp [heq, h, h0]
    · have ih := opCount_eq_letterAt f hI h01 op q hk'.2
      have hl : letterAt (e :: op) q = letterAt op q := by
        simp [letterAt, heq]
      unfold opCount at ih ⊢
      rw [hl, List.filter_cons]
      simp [heq, ih]

theorem xBit_01 (p : Pauli) : p.xBit = 0 ∨ p.xBit = 1 := by cases p <;> simp [Pauli.xBit]
theorem zBit_01 (p : Pauli) : p.zBit = 0 ∨ p.zBit = 1 := by cases p <;> simp [Pauli.zBit]

/-- `to_bsf` of a dict with distinct keys is the BSF of its letter string -/
theorem toBsf_eq_pauliToBsf (qs : List Coord) (op : Op) (hk : KeysNodup op) :
    toBsf qs op =
      if opSupported qs op then some (pauliToBsf (qs.map (letterAt op))) else none := by
  unfold toBsf pauliToBsf
  have hx : (qs.map fun q => opCount op q Pauli.xBit) = (qs.map (letterAt op)).map Pauli.xBit := by
    rw [List.map_map]
    exact List.map_congr_left fun q _ => opCount_eq_letterAt _ rfl xBit_01 op q hk
  have hz : (qs.map fun q => opCount op q Pauli.zBit) = (qs.map (letterAt op)).map Pauli.zBit := by
    rw [List.map_map]
    exact List.map_congr_left fun q _ => opCount_eq_letterAt _ rfl zBit_01 op q hk
  rw [hx, hz]

theorem keys_deformOp (D : Coord → PauliMap) (op : Op) :
    (deformOp D op).map Prod.fst = op.map Prod.fst := by
  simp [deformOp, List.map_map, Function.comp_def]

theorem keysNodup_deformOp (D : Coord → PauliMap) (op : Op) (h : KeysNodup op) :
    KeysNodup (deformOp D op) := by
  unfold KeysNodup; rw [keys_deformOp]; exact h

theorem opSupported_deformOp (qs : List Coord) (D : Coord → PauliMap) (op : Op) :
    opSupported qs (deformOp D op) = opSupported qs op := by
  simp [opSupported, deformOp, List.all_map, Function.comp_def]

theorem letterAt_cons (e : Coord × Pauli) (op : Op) (q : Coord) :
    letterAt (e :: op) q = if e.1 = q then e.2 else letterAt op q := by
  by_cases h : e.1 = q <;> simp [letterAt, h]

theorem deformOp_cons (D : Coord → PauliMap) (e : Coord × Pauli) (op : Op) :
    deformOp D (e :: op) = (e.1, (D e.1).apply e.2) :: deformOp D op := rfl

theorem letterAt_deformOp (D : Coord → PauliMap) : ∀ (op : Op) (q : Coord),
    letterAt (deformOp D op) q = (D q).apply (letterAt op q)
  | [], q => by simp [letterAt, deformOp, PauliMap.apply]
  | e :: op, q => by
    have ih := letterAt_deformOp D op q
    rw [deformOp_cons, letterAt_cons, letterAt_cons]
    by_cases heq : e.1 = q
    · simp [heq]
    · simp [heq, ih]

theorem applyAll_map_map (D : Coord → PauliMap) (g : Coord → Pauli) : ∀ qs : List Coord,
    applyAll (qs.map D) (qs.map g) = qs.map fun q => (D q).apply (g q)
  | [] => by simp
  | q :: qs => by simp [applyAll_map_map D g qs]

/-- the strong form: distinct dict keys are all that is needed -/
theorem toBsf_deformOp_of_keysNodup (qs : List Coord) (op : Op) (D : Coord → PauliMap)
    (hk : KeysNodup op) :
    toBsf qs (deformOp D op) = (toBsf qs op).map (deformBsf (qs.map D)) := by
  rw [toBsf_eq_pauliToBsf qs _ (keysNodup_deformOp D op hk), toBsf_eq_pauliToBsf qs op hk,
    opSupported_deformOp]
  split
  · simp only [Option.map_some, deformBsf_eq, bsfToPauli_pauliToBsf, applyAll_map_map]
    congr 2
    exact List.map_congr_left fun q _ => letterAt_deformOp D op q
  · rfl

/-- **relabelling the dict = relabelling the vector**, with the hypotheses as listed in the
    task (only `KeysNodup` is used). -/
theorem toBsf_deformOp (qs : List Coord) (op : Op) (D : Coord → PauliMap)
    (_ : qs.Nodup) (hk : KeysNodup op) (_ : NoIdentity op) (_ : ∀ q, (D q).isPerm = true) :
    toBsf qs (deformOp D op) = (toBsf qs op).map (deformBsf (qs.map D)) :=
  toBsf_deformOp_of_keysNodup qs op D hk

theorem toBsf_binary (qs : List Coord) (op : Op) (hk : KeysNodup op) (v : List Nat)
    (h : toBsf qs op = some v) : ∀ x ∈ v, x < 2 := by
  rw [toBsf_eq_pauliToBsf qs op hk] at h
  split at h
  · simp only [Option.some.injEq] at h
    subst h
    exact pauliToBsf_binary _
  · simp at h

theorem map_mod_of_binary : ∀ (v : List Nat), (∀ x ∈ v, x < 2) → v.map (· % 2) = v
  | [], _ => rfl
  | a :: as, h => by
    have ha : a < 2 := h a (by simp)
    simp only [List.map_cons, map_mod_of_binary as (fun x hx => h x (by simp [hx]))]
    congr 1; omega

/-- for a dict with distinct keys the `data %= 2` of `stabilizer_matrix` changes nothing -/
theorem stabRow_eq_toBsf (qs : List Coord) (op : Op) (hk : KeysNodup op) :
    stabRow qs op = toBsf qs op := by
  unfold stabRow
  cases h : toBsf qs op with
  | none => rfl
  | some v => simp [map_mod_of_binary v (toBsf_binary qs op hk v h)]

theorem stabRow_deformOp (qs : List Coord) (op : Op) (D : Coord → PauliMap)
    (hk : KeysNodup op) :
    stabRow qs (deformOp D op) = (stabRow qs op).map (deformBsf (qs.map D)) := by
  rw [stabRow_eq_toBsf qs _ (keysNodup_deformOp D op hk), stabRow_eq_toBsf qs op hk,
    toBsf_deformOp_of_keysNodup qs op D hk]

theorem mapM_map_deform (g : Op → Option (List Nat)) (f : List Nat → List Nat)
    (D : Coord → PauliMap) : ∀ ops : List Op,
    (∀ op ∈ ops, g (deformOp D op) = (g op).map f) →
    (ops.map (deformOp D)).mapM g = (ops.mapM g).map (List.map f)
  | [], _ => by simp
  | op :: ops, h => by
    have ih := mapM_map_deform g f D ops (fun o ho => h o (by simp [ho]))
    simp only [List.map_cons, List.mapM_cons, ih, h op (by simp)]
    cases g op <;> cases List.mapM g ops <;> simp

/-- `stabilizer_matrix` of the deformed getters = rows of the undeformed matrix relabelled -/
theorem stabilizerMatrix_deform (c : CodeData) (D : Coord → PauliMap)
    (hk : ∀ op ∈ c.stabOps, KeysNodup op) :
    stabilizerMatrix (c.deform D) =
      (stabilizerMatrix c).map (List.map (deformBsf (c.qubits.map D))) := by
  unfold stabilizerMatrix
  exact mapM_map_deform _ _ D c.stabOps fun op ho => stabRow_deformOp c.qubits op D (hk op ho)

theorem logicalsX_deform (c : CodeData) (D : Coord → PauliMap)
    (hk : ∀ op ∈ c.logX, KeysNodup op) :
    logicalsX (c.deform D) = (logicalsX c).map (List.map (deformBsf (c.qubits.map D))) := by
  unfold logicalsX
  exact mapM_map_deform _ _ D c.logX fun op ho =>
    toBsf_deformOp_of_keysNodup c.qubits op D (hk op ho)

theorem logicalsZ_deform (c : CodeData) (D : Coord → PauliMap)
    (hk : ∀ op ∈ c.logZ, KeysNodup op) :
    logicalsZ (c.deform D) = (logicalsZ c).map (List.map (deformBsf (c.qubits.map D))) := by
  unfold logicalsZ
  exact mapM_map_deform _ _ D c.logZ fun op ho =>
    toBsf_deformOp_of_keysNodup c.qubits op D (hk op ho)

/-! ### `apply_deformation` -/

/-- the relabelling `apply_deformation(indices, ·)` performs on each qubit -/
def hadamardMaps (flags : List Bool) : List PauliMap :=
  flags.map fun f => if f then PauliMap.swapXZ else PauliMap.id

theorem hadamardMaps_isPerm (flags : List Bool) : ∀ D ∈ hadamardMaps flags, D.isPerm = true := by
  intro D hD
  simp only [hadamardMaps, List.mem_map] at hD
  obtain ⟨f, _, rfl⟩ := hD
  cases f <;> decide

theorem hadamard_bits (f : Bool) (x z : Nat) (hx : x < 2) (hz : z < 2) :
    ((if f then PauliMap.swapXZ else PauliMap.id).apply (Pauli.ofBits x z)).xBit
        = (if f then z else x) ∧
    ((if f then PauliMap.swapXZ else PauliMap.id).apply (Pauli.ofBits x z)).zBit
        = (if f then x else z) := by
  have hx' : x = 0 ∨ x = 1 := by omega
  have hz' : z = 0 ∨ z = 1 := by omega
  rcases hx' with rfl | rfl <;> rcases hz' with rfl | rfl <;> cases f <;> decide

theorem applyAll_hadamard_bits : ∀ (flags : List Bool) (xs zs : List Nat),
    xs.length = flags.length → zs.length = flags.length →
    (∀ x ∈ xs, x < 2) → (∀ z ∈ zs, z < 2) →
    (applyAll (hadamardMaps flags) (List.zipWith Pauli.ofBits xs zs)).map Pauli.xBit =
      List.zipWith (fun f (p : Nat × Nat) => if f then p.2 else p.1) flags (xs.zip zs) ∧
    (applyAll (hadamardMaps flags) (List.zipWith Pauli.ofBits xs zs)).map Pauli.zBit =
      List.zipWith (fun f (p : Nat × Nat) => if f then p.1 else p.2) flags (xs.zip zs)
  | [], xs, zs, _, _, _, _ => by simp [hadamardMaps]
  | f :: flags, [], _, h, _, _, _ => by simp at h
  | f :: flags, _ :: _, [], _, h, _, _ => by simp at h
  | f :: flags, x :: xs, z :: zs, h1, h2, hx, hz => by
    simp at h1 h2
    have ih := applyAll_hadamard_bits flags xs zs h1 h2
      (fun a ha => hx a (by simp [ha])) (fun a ha => hz a (by simp [ha]))
    have hb := hadamard_bits f x z (hx x (by simp)) (hz z (by simp))
    simp only [hadamardMaps] at ih ⊢
    simp only [List.map_cons, List.zipWith_cons_cons, List.zip_cons_cons, applyAll_cons,
      ih.1, ih.2, hb.1, hb.2, and_self]

/-- **`apply_deformation` is the Hadamard relabelling on the index set** -/
theorem applyDeformation_eq (flags : List Bool) (v : List Nat)
    (hv : v.length = 2 * flags.length) (hb : ∀ x ∈ v, x < 2) :
    applyDeformation flags v = some (deformBsf (hadamardMaps flags) v) := by
  have hx : xPart v = v.take flags.length := by unfold xPart; rw [hv]; congr 1; omega
  have hz : zPart v = v.drop flags.length := by unfold zPart; rw [hv]; congr 1; omega
  have h := applyAll_hadamard_bits flags (v.take flags.length) (v.drop flags.length)
    (by simp; omega) (by simp; omega)
    (fun a ha => hb a (List.mem_of_mem_take ha)) (fun a ha => hb a (List.mem_of_mem_drop ha))
  unfold applyDeformation
  simp only [hv, ne_eq, not_true_eq_false, if_false]
  rw [deformBsf_eq, pauliToBsf, bsfToPauli, hx, hz, h.1, h.2]

/-- the error case: `ValueError` exactly when the length is not `2 * len(indices)` -/
theorem applyDeformation_eq_none_iff (flags : List Bool) (v : List Nat) :
    applyDeformation flags v = none ↔ v.length ≠ 2 * flags.length := by
  unfold applyDeformation
  by_cases h : v.length = 2 * flags.length <;> simp [h]

end Panqec.Deform
