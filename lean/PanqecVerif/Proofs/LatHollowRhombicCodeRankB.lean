/-
`HollowRhombicCode`, rank clause, part B: the selected family in propositional form (`TS`), its
probes and ranks.

Triangle `(a, x, y, z)`: probe `X` on the x leg `(x−1, y, z)` for axis 3 and for axis 1 where the
triangle of axis 3 is not listed, on the y leg `(x, y−1, z)` for axis 2 and for axis 1 where the
triangle of axis 3 is listed (that of axis 2 is not), on the x leg `(x+1, y, z)` for axis 0 in the
last column, on the z leg `(x, y, z∓1)` for the other triangles of axis 0; the lower triangles
`(0, 2, 2, z)` along the hole edge `x = y = 3` have the three-qubit probe
`X(3,2,z) X(4,2,z−1) X(3,2,z−2)` (for `Lx ≥ 4`) or `X(2,3,z) X(2,4,z−1) X(2,3,z−2)` (for `Lx = 3`).  Rank: lexicographic in `(x, y, axis order 1 < 2 < 3 < 0, z)`.
Cube `(x, y, z)`: probe `Z` on the first of its lower edges `(x, y∓1, z−1)`, `(x∓1, y, z−1)` that is a
qubit, else on an upper edge `(x, y∓1, z+1)`; the cubes of the top layer `z = 2Lz−3` use an upper
edge; rank `z`, and 0 for the top layer.
Core Lean only.
-/
import PanqecVerif.Proofs.LatHollowRhombicCodeRankA
import PanqecVerif.Proofs.Lat2DRankOp

set_option linter.unusedVariables false
set_option linter.unusedSimpArgs false

namespace Panqec.HollowRhombicCode
open Panqec.Cubic3D
open Panqec.Planar3DCode (inE inO inE2 inO1)

/-- the lower axis-0 triangles along the hole edge `x = y = 3` that are kept -/
def QC (Lx Ly Lz : Nat) (x y z : Int) : Prop :=
  x = 2 ∧ y = 2 ∧ z % 4 = 0 ∧ 8 ≤ z ∧ z ≤ 2 * (Lz : Int) - 6 ∧ ((4 ≤ Lx ∧ 4 ≤ Ly) ∨ (Lx = 3 ∧ 5 ≤ Ly))

instance (Lx Ly Lz : Nat) (x y z : Int) : Decidable (QC Lx Ly Lz x y z) := by unfold QC; infer_instance

/-- `Lz = 4`, `Lx = 4`, `Ly ≥ 5`: the kept lower axis-0 triangles under the hole edge `(3, ·, 3)` -/
def QY (Lx Ly Lz : Nat) (x y z : Int) : Prop :=
  x = 2 ∧ 4 ≤ y ∧ y ≤ 2 * (Ly : Int) - 6 ∧ z = 2 ∧ (x + y + z) % 4 = 0 ∧ Lz = 4 ∧ Lx = 4 ∧ 5 ≤ Ly

/-- `Lz = 4`, `Ly = 5`, `Lx ≥ 5`: the kept lower axis-0 triangles under the hole edge `(·, 3, 3)` -/
def QX (Lx Ly Lz : Nat) (x y z : Int) : Prop :=
  4 ≤ x ∧ x ≤ 2 * (Lx : Int) - 4 ∧ y = 2 ∧ z = 2 ∧ (x + y + z) % 4 = 0 ∧ Lz = 4 ∧ Ly = 5 ∧ 5 ≤ Lx

instance (Lx Ly Lz : Nat) (x y z : Int) : Decidable (QY Lx Ly Lz x y z) := by unfold QY; infer_instance
instance (Lx Ly Lz : Nat) (x y z : Int) : Decidable (QX Lx Ly Lz x y z) := by unfold QX; infer_instance

/-- the selection clause of a listed triangle -/
def SelC (Lx Ly Lz : Nat) (a x y z : Int) : Prop :=
  a = 3 ∨ a = 2 ∨ (a = 1 ∧ (¬ PT Lx Ly Lz 3 x y z ∨ ¬ PT Lx Ly Lz 2 x y z)) ∨
  (a = 0 ∧ (x = 2 * (Lx : Int) - 2 ∨ ((x + y + z) % 4 = 2 ∧ 2 ≤ z) ∨
    ((x + y + z) % 4 = 0 ∧ z < 2 * (Lz : Int) - 2 ∧ ¬ PT Lx Ly Lz 0 x y (z + 2)) ∨ QC Lx Ly Lz x y z ∨
    QY Lx Ly Lz x y z ∨ QX Lx Ly Lz x y z))

theorem selTri_iff {Lx Ly Lz : Nat} {a x y z : Int} (ha : 0 ≤ a ∧ a < 4) :
    selTri Lx Ly Lz [a, x, y, z] = true ↔ SelC Lx Ly Lz a x y z := by
  have h : a = 0 ∨ a = 1 ∨ a = 2 ∨ a = 3 := by omega
  unfold SelC QC QY QX
  rcases h with rfl | rfl | rfl | rfl
  · simp [selTri, presB_false_iff, and_assoc, or_assoc]
  · simp [selTri, presB_false_iff]
  · simp [selTri]
  · simp [selTri]

/-- a selected triangle -/
def TS (Lx Ly Lz : Nat) (a x y z : Int) : Prop :=
  (0 ≤ a ∧ a < 4) ∧ VertexLoc Lx Ly Lz x y z ∧ PT Lx Ly Lz a x y z ∧ SelC Lx Ly Lz a x y z

theorem mem_rankFamily {Lx Ly Lz : Nat} {s : Coord} :
    s ∈ rankFamily Lx Ly Lz ↔ (∃ x y z, s = [x, y, z] ∧ CubeLoc Lx Ly Lz x y z) ∨
      (∃ a x y z, s = [a, x, y, z] ∧ TS Lx Ly Lz a x y z) := by
  unfold rankFamily
  rw [List.mem_append, mem_cubes, List.mem_filter, mem_triangles']
  constructor
  · rintro (h | ⟨⟨a, x, y, z, rfl, ha, hv, hp⟩, hs⟩)
    · exact Or.inl h
    · exact Or.inr ⟨a, x, y, z, rfl, ha, hv, hp, (selTri_iff ha).mp hs⟩
  · rintro (h | ⟨a, x, y, z, rfl, ha, hv, hp, hs⟩)
    · exact Or.inl h
    · exact Or.inr ⟨⟨a, x, y, z, rfl, ha, hv, hp⟩, (selTri_iff ha).mpr hs⟩

theorem rankFamily_sub {Lx Ly Lz : Nat} {s : Coord} (h : s ∈ rankFamily Lx Ly Lz) :
    s ∈ stabs Lx Ly Lz := by
  unfold rankFamily at h; unfold stabs
  rcases List.mem_append.mp h with h | h
  · exact List.mem_append_left _ h
  · exact List.mem_append_right _ (List.mem_filter.mp h).1

theorem nodup_rankFamily (Lx Ly Lz : Nat) : (rankFamily Lx Ly Lz).Nodup := by
  have h := nodup_stabs Lx Ly Lz
  unfold stabs at h; unfold rankFamily
  exact h.sublist (List.Sublist.append (List.Sublist.refl _) List.filter_sublist)

/-! ### probes and ranks -/

/-- the qubits of the probe of a selected triangle -/
def probeKeys (Lx Ly Lz : Nat) (a x y z : Int) : List Coord :=
  if a = 3 then [[x - 1, y, z]]
  else if a = 2 then [[x, y - 1, z]]
  else if a = 1 then (if PT Lx Ly Lz 3 x y z then [[x, y - 1, z]] else [[x - 1, y, z]])
  else if x = 2 * (Lx : Int) - 2 then [[x + 1, y, z]]
  else if (x + y + z) % 4 = 2 then [[x, y, z - 1]]
  else if QC Lx Ly Lz x y z then
    (if 4 ≤ Lx then [[3, 2, z], [4, 2, z - 1], [3, 2, z - 2]] else [[2, 3, z], [2, 4, z - 1], [2, 3, z - 2]])
  else if QY Lx Ly Lz x y z then [[3, y, 2], [4, y - 1, 2], [3, y - 2, 2]]
  else if QX Lx Ly Lz x y z then [[x, 3, 2], [x - 1, 4, 2]]
  else [[x, y, z + 1]]

/-- the qubit of the probe of a cube -/
def cubeProbe (Lx Ly Lz : Nat) (x y z : Int) : Coord :=
  if z = 2 * (Lz : Int) - 3 then
    (if isq Lx Ly Lz [x, y - 1, z + 1] then [x, y - 1, z + 1] else [x, y + 1, z + 1])
  else if isq Lx Ly Lz [x, y - 1, z - 1] then [x, y - 1, z - 1]
  else if isq Lx Ly Lz [x, y + 1, z - 1] then [x, y + 1, z - 1]
  else if isq Lx Ly Lz [x - 1, y, z - 1] then [x - 1, y, z - 1]
  else if isq Lx Ly Lz [x + 1, y, z - 1] then [x + 1, y, z - 1]
  else if isq Lx Ly Lz [x, y - 1, z + 1] then [x, y - 1, z + 1]
  else [x, y + 1, z + 1]

/-- the probe operator of a member of the family -/
def probe (Lx Ly Lz : Nat) : Coord → Op
  | [x, y, z] => [(cubeProbe Lx Ly Lz x y z, Pauli.Z)]
  | [a, x, y, z] => uop (probeKeys Lx Ly Lz a x y z) Pauli.X
  | _ => []

/-- order of the axes inside a vertex -/
def rk (a : Int) : Nat := if a = 1 then 0 else if a = 2 then 1 else if a = 3 then 2 else 3

theorem rk_lt (a : Int) : rk a < 4 := by
  unfold rk; split <;> [omega; (split <;> [omega; (split <;> omega)])]

/-- the rank of a member of the family -/
def mu (Ly Lz : Nat) : Coord → Nat
  | [_, _, z] => if z = 2 * (Lz : Int) - 3 then 0 else z.toNat
  | [a, x, y, z] => ((x.toNat * (2 * Ly + 1) + y.toNat) * 4 + rk a) * (2 * Lz + 1) + z.toNat
  | _ => 0

theorem lex_step {P Q M a b : Nat} (ha : a < M) (hb : b < M) (h : P * M + a ≤ Q * M + b) :
    P < Q ∨ (P = Q ∧ a ≤ b) := by
  rcases Nat.lt_trichotomy P Q with h1 | h1 | h1
  · exact Or.inl h1
  · subst h1; right; exact ⟨rfl, by omega⟩
  · exfalso
    have : (Q + 1) * M ≤ P * M := Nat.mul_le_mul_right M h1
    rw [Nat.succ_mul] at this
    generalize P * M = p at *
    generalize Q * M = q at *
    omega

theorem lex_step_lt {P Q M a b : Nat} (ha : a < M) (hb : b < M) (h : P * M + a < Q * M + b) :
    P < Q ∨ (P = Q ∧ a < b) := by
  rcases Nat.lt_trichotomy P Q with h1 | h1 | h1
  · exact Or.inl h1
  · subst h1; right; exact ⟨rfl, by omega⟩
  · exfalso
    have : (Q + 1) * M ≤ P * M := Nat.mul_le_mul_right M h1
    rw [Nat.succ_mul] at this
    generalize P * M = p at *
    generalize Q * M = q at *
    omega

/-- the order of two triangles at vertices of the lattice -/
theorem mu_lex {Lx Ly Lz : Nat} {a x y z b u v w : Int} (hs : VertexLoc Lx Ly Lz x y z)
    (ht : VertexLoc Lx Ly Lz u v w) (h : mu Ly Lz [a, x, y, z] ≤ mu Ly Lz [b, u, v, w]) :
    x < u ∨ (x = u ∧ (y < v ∨ (y = v ∧ (rk a < rk b ∨ (rk a = rk b ∧ z ≤ w))))) := by
  unfold VertexLoc inE2 inE at hs ht
  simp only [mu] at h
  have h1 := lex_step (M := 2 * Lz + 1) (by omega) (by omega) h
  rcases h1 with h1 | ⟨h1, h1z⟩
  · have h2 := lex_step_lt (M := 4) (rk_lt a) (rk_lt b) h1
    rcases h2 with h2 | ⟨h2, h2r⟩
    · have h3 := lex_step_lt (M := 2 * Ly + 1) (a := y.toNat) (b := v.toNat) (by omega) (by omega) h2
      omega
    · have h3 := lex_step (M := 2 * Ly + 1) (a := y.toNat) (b := v.toNat) (by omega) (by omega)
        (Nat.le_of_eq h2)
      have h4 := lex_step (M := 2 * Ly + 1) (a := v.toNat) (b := y.toNat) (by omega) (by omega)
        (Nat.le_of_eq h2.symm)
      omega
  · have h2 := lex_step (M := 4) (rk_lt a) (rk_lt b) (Nat.le_of_eq h1)
    have h2' := lex_step (M := 4) (rk_lt b) (rk_lt a) (Nat.le_of_eq h1.symm)
    rcases h2 with h2 | ⟨h2, h2r⟩
    · have h3 := lex_step_lt (M := 2 * Ly + 1) (a := y.toNat) (b := v.toNat) (by omega) (by omega) h2
      omega
    · have h3 := lex_step (M := 2 * Ly + 1) (a := y.toNat) (b := v.toNat) (by omega) (by omega)
        (Nat.le_of_eq h2)
      have h4 := lex_step (M := 2 * Ly + 1) (a := v.toNat) (b := y.toNat) (by omega) (by omega)
        (Nat.le_of_eq h2.symm)
      omega

/-! ### signs and keys -/

/-- the signs of the legs, by axis and colour of the vertex -/
theorem sgn_table {b u v w : Int} (hb : 0 ≤ b ∧ b < 4) (hp : (u + v + w) % 2 = 0) :
    (b = 0 ∧ sgnX b = 1 ∧ sgnY b = 1 ∧ (((u + v + w) % 4 = 0 ∧ sgnZ b u v w = 1) ∨
      ((u + v + w) % 4 = 2 ∧ sgnZ b u v w = -1))) ∨
    (b = 1 ∧ sgnX b = -1 ∧ sgnY b = -1 ∧ (((u + v + w) % 4 = 0 ∧ sgnZ b u v w = 1) ∨
      ((u + v + w) % 4 = 2 ∧ sgnZ b u v w = -1))) ∨
    (b = 2 ∧ sgnX b = 1 ∧ sgnY b = -1 ∧ (((u + v + w) % 4 = 0 ∧ sgnZ b u v w = -1) ∨
      ((u + v + w) % 4 = 2 ∧ sgnZ b u v w = 1))) ∨
    (b = 3 ∧ sgnX b = -1 ∧ sgnY b = 1 ∧ (((u + v + w) % 4 = 0 ∧ sgnZ b u v w = -1) ∨
      ((u + v + w) % 4 = 2 ∧ sgnZ b u v w = 1))) := by
  have h : b = 0 ∨ b = 1 ∨ b = 2 ∨ b = 3 := by omega
  have hq : (u + v + w) % 4 = 0 ∨ (u + v + w) % 4 = 2 := by omega
  unfold sgnX sgnY sgnZ
  rcases h with rfl | rfl | rfl | rfl <;> rcases hq with hq | hq <;> simp [hq]

/-- a key of a triangle is one of its three legs -/
theorem mem_triKeys {Lx Ly Lz : Nat} {b u v w p q r : Int}
    (h : [p, q, r] ∈ triKeys Lx Ly Lz b u v w) :
    (p = u + sgnX b ∧ q = v ∧ r = w) ∨ (p = u ∧ q = v + sgnY b ∧ r = w) ∨
    (p = u ∧ q = v ∧ r = w + sgnZ b u v w) := by
  unfold triKeys triCands at h
  have := (List.mem_filter.mp h).1
  simpa using this

theorem mem_triKeys_of {Lx Ly Lz : Nat} {b u v w p q r : Int}
    (h : (p = u + sgnX b ∧ q = v ∧ r = w) ∨ (p = u ∧ q = v + sgnY b ∧ r = w) ∨
      (p = u ∧ q = v ∧ r = w + sgnZ b u v w))
    (hq : [p, q, r] ∈ qubits Lx Ly Lz) : [p, q, r] ∈ triKeys Lx Ly Lz b u v w := by
  unfold triKeys triCands
  rw [List.mem_filter, isq_iff]
  refine ⟨?_, hq⟩
  simpa using h

end Panqec.HollowRhombicCode
