/-
Finite instance facts for C10 (kernel evaluation, `decide +kernel`): geometry hypotheses of
the generic theorems on small RotatedPlanar3DCode lattices, and the two
documented regressions (old assignment update D9; rotated-toric seam D10: the flip table
before the repair, and the repaired one on the same lattice).
-/
import PanqecVerif.Proofs.SweepGeneric

namespace Panqec.Sweep

set_option maxRecDepth 100000

/-- the three decidable hypotheses of the `SweepDecoder3D` theorems -/
def GeometryOK3D (lat : Lattice) : Bool :=
  decide lat.stabs.Nodup && flipTableOK lat (flipFaces3D lat) && sweepEdgesOK3D lat

/-- the two decidable hypotheses of the `RotatedSweepDecoder3D` theorems -/
def GeometryOKRot (lat : Lattice) : Bool :=
  decide lat.stabs.Nodup && flipTableOKRot lat (flipFacesRot lat)

theorem geometryOK3D_spec (lat : Lattice) (h : GeometryOK3D lat = true) :
    lat.stabs.Nodup ∧ flipTableOK lat (flipFaces3D lat) = true ∧ sweepEdgesOK3D lat = true := by
  unfold GeometryOK3D at h
  simp only [Bool.and_eq_true, decide_eq_true_eq] at h
  exact ⟨h.1.1, h.1.2, h.2⟩

theorem geometryOKRot_spec (lat : Lattice) (h : GeometryOKRot lat = true) :
    lat.stabs.Nodup ∧ flipTableOKRot lat (flipFacesRot lat) = true := by
  unfold GeometryOKRot at h
  simp only [Bool.and_eq_true, decide_eq_true_eq] at h
  exact h

/-- RotatedPlanar3DCode sizes checked by the kernel -/
def rotPlanarSizes : List (Nat × Nat × Nat) :=
  [(1, 2, 3), (2, 1, 1), (2, 2, 2), (3, 3, 2), (3, 2, 3), (3, 3, 3), (3, 4, 2)]

theorem rotPlanar_geometry_instances :
    ∀ s ∈ rotPlanarSizes, GeometryOKRot (rotPlanar3D s.1 s.2.1 s.2.2) = true := by decide +kernel

/-- Z errors on qubit indices 3 and 21 of Toric3DCode 2×2×2 -/
def witnessD9 : Loc → Bool := fun q => q == (1, 2, 2) || q == (2, 0, 3)

example : (toric3D 2 2 2).qubits[3]? = some (1, 2, 2) ∧ (toric3D 2 2 2).qubits[21]? = some (2, 0, 3) := by
  decide +kernel

theorem old_update_witness :
    (oldRun3D (toric3D 2 2 2) 32 (syndromeOf (toric3D 2 2 2) (fun _ => false) witnessD9) []).map
      (fun r => r.1.all fun st => decide (Tracks (toric3D 2 2 2) witnessD9 st)) = some false := by
  decide +kernel

theorem new_update_witness :
    (run3D (toric3D 2 2 2) 32 (syndromeOf (toric3D 2 2 2) (fun _ => false) witnessD9) []).map
      (fun r => r.1.all fun st => decide (Tracks (toric3D 2 2 2) witnessD9 st)) = some true := by
  decide +kernel

/-- D10, before the repair: the flip table without `_wrap` against the generators of type
    `'face'` … -/
theorem oldRotToric_table_bad :
    flipTableOKRot (rotToric3D 2 2 2) (oldFlipFacesRot (rotToric3D 2 2 2)) = false := by decide +kernel

/-- … and against the rows not flagged in `z_indices` (the hypothesis as it was stated then) -/
theorem oldRotToric_table_bad_zidx :
    flipTableOK (rotToric3D 2 2 2) (oldFlipFacesRot (rotToric3D 2 2 2)) = false := by decide +kernel

theorem oldRotToric_bad_edges :
    flipTableBadRot (rotToric3D 2 2 2) (oldFlipFacesRot (rotToric3D 2 2 2)) =
      [(1, 1, 1), (1, 1, 3), (1, 3, 1), (1, 3, 3), (3, 1, 1), (3, 1, 3), (2, 4, 2), (4, 2, 2)] := by
  decide +kernel

/-- the repaired table on the same lattice: consistent on all ten edges -/
theorem rotToric_table_ok_222 :
    flipTableBadRot (rotToric3D 2 2 2) (flipFacesRot (rotToric3D 2 2 2)) = [] := by decide +kernel

end Panqec.Sweep
