/-
Color666ToricCode, square sizes `L ≥ 1`: a face meets the logical string `B` in an even number
of qubits (see `Proofs/LatColor666ToricCodeE.lean`).  Core Lean only.
-/
import PanqecVerif.Proofs.LatColor666ToricCodeE

set_option linter.unusedVariables false
set_option linter.unusedSimpArgs false

namespace Panqec.Color666ToricCode
open Panqec.Lat2D Panqec.Color

theorem face_B_even {L : Nat} (hL : 1 ≤ L) {x y : Int} (h : IsF L x y) :
    (supp L x y).countP (πB L) % 2 = 0 := by
  obtain ⟨p2, p6, p10, p14, n2, n6, n10, n14, n18⟩ := constsV hL
  obtain ⟨hv, hx3⟩ := face_v h
  obtain ⟨a1, b1, e1, m1, v1, -, -⟩ := corner_inv hL h (dx := -1) (dy := -2) (by omega)
  obtain ⟨a2, b2, e2, m2, v2, -, -⟩ := corner_inv hL h (dx := 1) (dy := -2) (by omega)
  obtain ⟨a3, b3, e3, m3, v3, -, -⟩ := corner_inv hL h (dx := 2) (dy := 0) (by omega)
  obtain ⟨a4, b4, e4, m4, v4, -, -⟩ := corner_inv hL h (dx := 1) (dy := 2) (by omega)
  obtain ⟨a5, b5, e5, m5, v5, -, -⟩ := corner_inv hL h (dx := -1) (dy := 2) (by omega)
  obtain ⟨a6, b6, e6, m6, v6, -, -⟩ := corner_inv hL h (dx := -2) (dy := 0) (by omega)
  unfold supp
  rw [e1, e2, e3, e4, e5, e6]
  simp only [List.countP_cons, List.countP_nil, πB, decide_eq_true_eq, PB', m1, m2, m3, m4, m5, m6,
    v1, v2, v3, v4, v5, v6, sub_zero_iff, Int.reduceSub, Int.reduceNeg, Int.reduceMul, Int.reduceAdd]
  simp only [p2, p6, p10, p14, n2, n6, n10, n14, n18]
  generalize (3 * y + 2 * x) % (36 * (L : Int)) = ev at *
  have hx9 : x % 9 = 2 ∨ x % 9 = 5 ∨ x % 9 = 8 := by omega
  clear e1 e2 e3 e4 e5 e6 m1 m2 m3 m4 m5 m6 v1 v2 v3 v4 v5 v6 p2 p6 p10 p14 n2 n6 n10 n14 n18 h hx3
  rcases hx9 with h9 | h9 | h9
  · have c1 : (x + -2) % 9 = 0 := by omega
    have c2 : (x + -1) % 9 = 1 := by omega
    have c3 : (x + 1) % 9 = 3 := by omega
    have c4 : (x + 2) % 9 = 4 := by omega
    simp only [c1, c2, c3, c4, Int.reduceEq, false_and, true_and, or_false, false_or, or_self,
      if_false]
    repeat' split
    all_goals omega
  · have c1 : (x + -2) % 9 = 3 := by omega
    have c2 : (x + -1) % 9 = 4 := by omega
    have c3 : (x + 1) % 9 = 6 := by omega
    have c4 : (x + 2) % 9 = 7 := by omega
    simp only [c1, c2, c3, c4, Int.reduceEq, false_and, true_and, or_false, false_or, or_self,
      if_false]
    repeat' split
    all_goals omega
  · have c1 : (x + -2) % 9 = 6 := by omega
    have c2 : (x + -1) % 9 = 7 := by omega
    have c3 : (x + 1) % 9 = 0 := by omega
    have c4 : (x + 2) % 9 = 1 := by omega
    simp only [c1, c2, c3, c4, Int.reduceEq, false_and, true_and, or_false, false_or, or_self,
      if_false]
    repeat' split
    all_goals omega

end Panqec.Color666ToricCode
